(* C20 — lemmas about the traversal model. *)
From Coq Require Import List Arith Bool Lia.
From Verif Require Import Base.Outcome C20.Model.
Import ListNotations.

Lemma pop_push : forall ci a, pop 1 (ci ++ [a]) = ci.
Proof.
  intros ci a. unfold pop. rewrite app_length. simpl.
  replace (length ci + 1 - 1) with (length ci) by lia.
  rewrite firstn_app, Nat.sub_diag, firstn_all. simpl. apply app_nil_r.
Qed.

Lemma push_some : forall ci a ci1, push ci a = Some ci1 -> ci1 = ci ++ [a] /\ ~ In a ci.
Proof.
  intros ci a ci1 H. unfold push in H.
  destruct (existsb (Nat.eqb a) ci) eqn:E; [discriminate|].
  inversion H; subst. split; [reflexivity|].
  intro Hin. assert (existsb (Nat.eqb a) ci = true) as X.
  { apply existsb_exists. exists a. split; [exact Hin|apply Nat.eqb_refl]. }
  congruence.
Qed.

Lemma push_none : forall ci a, push ci a = None -> In a ci.
Proof.
  intros ci a H. unfold push in H.
  destruct (existsb (Nat.eqb a) ci) eqn:E; [|discriminate].
  apply existsb_exists in E. destruct E as [x [Hin Hx]].
  apply Nat.eqb_eq in Hx. subst. exact Hin.
Qed.

(* ---- a normal return leaves the stack as it found it ---- *)

Lemma enc_list_ok_ci : forall (f : list nat -> val -> out) l,
  (forall ci x ci', In x l -> f ci x = OOk ci' -> ci' = ci) ->
  forall ci ci', enc_list f ci l = OOk ci' -> ci' = ci.
Proof.
  intros f l. induction l as [|x r IH]; intros Hf ci ci' H; simpl in H.
  - congruence.
  - destruct (f ci x) eqn:E; try discriminate.
    apply Hf in E; [|left; reflexivity]. subst ci0.
    apply IH in H; [exact H|]. intros c y c' Hy. apply Hf. right; exact Hy.
Qed.

Lemma enc_ok_ci : forall d h o ci v ci', enc d h o ci v = OOk ci' -> ci' = ci.
Proof.
  induction d as [|d IH]; intros h o ci v ci' H; simpl in H; [discriminate|].
  destruct v.
  - congruence.
  - congruence.
  - destruct (bad_class o b); congruence.
  - congruence.
  - destruct (chk o && cont_kind (cell h a)).
    + destruct (push ci a) eqn:P; [|discriminate].
      apply push_some in P. destruct P as [-> _].
      destruct (enc d h o (ci ++ [a]) (cell h a)) eqn:E; try discriminate.
      apply IH in E. subst. inversion H. apply pop_push.
    + eapply IH; eauto.
  - eapply IH; eauto.
  - eapply enc_list_ok_ci; [|exact H]. intros c x c' _ Hx. eapply IH; eauto.
  - eapply enc_list_ok_ci; [|exact H]. intros c x c' _ Hx. eapply IH; eauto.
  - eapply IH; eauto.
  - eapply IH; eauto.
Qed.

Lemma enc_list_ok_all : forall (f : list nat -> val -> out) l,
  (forall ci x ci', f ci x = OOk ci' -> ci' = ci) ->
  forall ci ci', enc_list f ci l = OOk ci' -> forall x, In x l -> f ci x = OOk ci.
Proof.
  intros f l Hf. induction l as [|y r IH]; intros ci ci' H x Hx; simpl in *.
  - contradiction.
  - destruct (f ci y) eqn:E; try discriminate.
    pose proof (Hf _ _ _ E) as ->.
    destruct Hx as [->|Hx]; [exact E|]. eapply IH; eauto.
Qed.

Lemma enc_list_err : forall (f : list nat -> val -> out) l,
  (forall ci x ci', f ci x = OOk ci' -> ci' = ci) ->
  forall ci e c, enc_list f ci l = OErr e c -> exists x, In x l /\ f ci x = OErr e c.
Proof.
  intros f l Hf. induction l as [|y r IH]; intros ci e c H; simpl in *.
  - discriminate.
  - destruct (f ci y) eqn:E.
    + pose proof (Hf _ _ _ E) as ->. apply IH in H. destruct H as [x [Hx Hfx]].
      exists x. split; [right; exact Hx|exact Hfx].
    + inversion H; subst. exists y. split; [left; reflexivity|exact E].
    + discriminate.
Qed.

Lemma enc_list_nofuel : forall (f : list nat -> val -> out) l ci,
  (forall x ci', f ci x = OOk ci' -> ci' = ci) ->
  (forall x, In x l -> f ci x <> OFuel) ->
  enc_list f ci l <> OFuel.
Proof.
  intros f l ci Hf. induction l as [|y r IH]; intros Hn; simpl.
  - discriminate.
  - destruct (f ci y) eqn:E.
    + pose proof (Hf _ _ E) as ->. apply IH. intros x Hx. apply Hn. right; exact Hx.
    + discriminate.
    + exfalso. apply (Hn y); [left; reflexivity|exact E].
Qed.

(* ---- a normal return means every child returned normally ---- *)

Lemma enc_ok_child : forall d h o ci v ci' w,
  enc (S d) h o ci v = OOk ci' -> edge h v w -> exists ci1, enc d h o ci1 w = OOk ci1.
Proof.
  intros d h o ci v ci' w H He.
  assert (Hci : forall c x c', enc d h o c x = OOk c' -> c' = c) by (intros; eapply enc_ok_ci; eauto).
  inversion He; subst; simpl in H.
  - destruct (chk o && cont_kind (cell h a)).
    + destruct (push ci a) eqn:P; [|discriminate].
      destruct (enc d h o l (cell h a)) eqn:E; try discriminate.
      pose proof (Hci _ _ _ E) as ->. exists l. exact E.
    + pose proof (Hci _ _ _ H) as ->. exists ci. exact H.
  - pose proof (Hci _ _ _ H) as ->. exists ci. exact H.
  - exists ci. eapply enc_list_ok_all; eauto.
  - exists ci. eapply enc_list_ok_all; eauto.
  - pose proof (Hci _ _ _ H) as ->. exists ci. exact H.
  - pose proof (Hci _ _ _ H) as ->. exists ci. exact H.
Qed.

Lemma enc_ok_reach : forall n d h o ci v ci' w,
  enc d h o ci v = OOk ci' -> npath h n v w -> n < d /\ exists ci1, enc (d - n) h o ci1 w = OOk ci1.
Proof.
  induction n as [|n IH]; intros d h o ci v ci' w H Hp.
  - inversion Hp; subst. destruct d; [discriminate|]. split; [lia|].
    pose proof (enc_ok_ci _ _ _ _ _ _ H) as ->. exists ci. rewrite Nat.sub_0_r. exact H.
  - inversion Hp; subst. destruct d; [discriminate|].
    destruct (enc_ok_child _ _ _ _ _ _ _ H H1) as [c1 Hc1].
    destruct (IH _ _ _ _ _ _ _ Hc1 H2) as [Hlt [c2 Hc2]].
    split; [lia|]. exists c2. simpl. exact Hc2.
Qed.

Lemma enc_ok_paths : forall n d h o ci v ci' w,
  enc d h o ci v = OOk ci' -> npath h n v w -> n < d.
Proof. intros. eapply enc_ok_reach; eauto. Qed.

(* ---- paths ---- *)

Lemma npath_app : forall h n m v w u, npath h n v w -> npath h m w u -> npath h (n + m) v u.
Proof.
  intros h n m v w u H. induction H; intros Hm; simpl; [exact Hm|].
  econstructor; eauto.
Qed.

Lemma npath_snoc : forall h n v w u, npath h n v w -> edge h w u -> npath h (S n) v u.
Proof.
  intros h n v w u H He. replace (S n) with (n + 1) by lia.
  eapply npath_app; [exact H|]. econstructor; [exact He|constructor].
Qed.

Lemma npath_pump : forall h m w, npath h (S m) w w -> forall j, npath h (j * S m) w w.
Proof.
  intros h m w H j. induction j; [simpl; constructor|].
  change (S j * S m) with (S m + j * S m).
  eapply npath_app; eauto.
Qed.

Lemma reach_refl : forall h v, reach h v v.
Proof. intros. exists 0. constructor. Qed.

Lemma reach_edge : forall h v w u, reach h v w -> edge h w u -> reach h v u.
Proof. intros h v w u [n H] He. exists (S n). eapply npath_snoc; eauto. Qed.

Lemma reach_trans : forall h v w u, reach h v w -> reach h w u -> reach h v u.
Proof. intros h v w u [n H] [m H']. exists (n + m). eapply npath_app; eauto. Qed.

Lemma reach_closed : forall h (S : val -> Prop) v,
  S v -> (forall w w', S w -> edge h w w' -> S w') -> forall w, reach h v w -> S w.
Proof.
  intros h S v Hv Hcl w [n Hn]. induction Hn; [exact Hv|].
  apply IHHn. eapply Hcl; eauto.
Qed.

Lemma cyclic_ptr_cyclic : forall h v, cyclic_ptr h v -> cyclic h v.
Proof. intros h v [a [m [Hr [_ Hc]]]]. exists (VPtr a), m. auto. Qed.

Lemma cyclic_not_ok : forall h v, cyclic h v -> forall d o ci ci', enc d h o ci v <> OOk ci'.
Proof.
  intros h v [w [m [[k Hk] Hc]]] d o ci ci' H.
  pose proof (npath_pump _ _ _ Hc d) as Hp.
  pose proof (npath_app _ _ _ _ _ _ Hk Hp) as Hall.
  pose proof (enc_ok_paths _ _ _ _ _ _ _ _ H Hall). nia.
Qed.

(* ---- termination within the budget when checking is on ---- *)

Lemma cont_kind_in_heap : forall h a, cont_kind (cell h a) = true -> a < length h.
Proof.
  intros h a H. unfold cell in H.
  destruct (Nat.lt_ge_cases a (length h)) as [L|G]; [exact L|].
  rewrite nth_overflow in H by exact G. discriminate.
Qed.

Lemma nodup_bounded_length : forall (l : list nat) L,
  NoDup l -> Forall (fun a => a < L) l -> length l <= L.
Proof.
  intros l L Hn Hf.
  replace L with (length (seq 0 L)) by apply seq_length.
  apply NoDup_incl_length; [exact Hn|].
  intros a Ha. rewrite Forall_forall in Hf. apply in_seq. specialize (Hf a Ha). lia.
Qed.

Lemma nodup_snoc : forall (l : list nat) a, NoDup l -> ~ In a l -> NoDup (l ++ [a]).
Proof.
  induction l as [|x r IH]; intros a Hn Hi; simpl.
  - constructor; [intros []|constructor].
  - inversion Hn; subst. constructor.
    + intro Hin. apply in_app_or in Hin. destruct Hin as [Hin|[<-|[]]]; [contradiction|].
      apply Hi. left; reflexivity.
    + apply IH; [assumption|]. intro. apply Hi. right; assumption.
Qed.

Section Termination.
  Variables (h : heap) (o : opts) (v0 : val) (R : nat) (rk : val -> nat).
  Hypothesis Hchk : chk o = true.
  Hypothesis Hbound : forall w, reach h v0 w -> rk w <= R.
  Hypothesis Hdec : forall w w', reach h v0 w -> edge h w w' -> ~ push_edge h w w' -> rk w' < rk w.

  Definition inv (ci : list nat) (v : val) : Prop :=
    reach h v0 v /\ NoDup ci /\ Forall (fun a => a < length h) ci.

  Lemma term_aux : forall d ci v,
    inv ci v -> (length h - length ci) * (R + 1) + rk v < d -> enc d h o ci v <> OFuel.
  Proof.
    induction d as [|d IH]; intros ci v [Hr [Hn Hf]] Hm; [exfalso; eapply Nat.nlt_0_r; exact Hm|].
    assert (Hci : forall x c', enc d h o ci x = OOk c' -> c' = ci) by (intros; eapply enc_ok_ci; eauto).
    assert (Hnp : forall w, edge h v w -> ~ push_edge h v w -> enc d h o ci w <> OFuel).
    { intros w He Hnp. apply IH.
      - split; [eapply reach_edge; eauto|split; assumption].
      - pose proof (Hdec _ _ Hr He Hnp). lia. }
    destruct v; simpl; try discriminate.
    - destruct (bad_class o b); discriminate.
    - rewrite Hchk. simpl. destruct (cont_kind (cell h a)) eqn:Ck.
      + destruct (push ci a) eqn:P; [|discriminate].
        apply push_some in P. destruct P as [-> Hnin].
        pose proof (cont_kind_in_heap _ _ Ck) as Ha.
        assert (Hn' : NoDup (ci ++ [a])).
        { apply nodup_snoc; assumption. }
        assert (Hf' : Forall (fun a => a < length h) (ci ++ [a])).
        { apply Forall_app. split; [assumption|]. constructor; [exact Ha|constructor]. }
        pose proof (nodup_bounded_length _ _ Hn' Hf') as Hl. rewrite app_length in Hl. simpl in Hl.
        assert (Hrt : reach h v0 (cell h a)) by (eapply reach_edge; eauto; constructor).
        assert (X : enc d h o (ci ++ [a]) (cell h a) <> OFuel).
        { apply IH; [split; [exact Hrt|split; assumption]|].
          rewrite app_length. simpl. pose proof (Hbound _ Hrt). nia. }
        destruct (enc d h o (ci ++ [a]) (cell h a)); try discriminate. congruence.
      + apply Hnp; [constructor|].
        intros [a' [E1 [E2 E3]]]. inversion E1; subst. congruence.
    - apply Hnp; [constructor|]. intros [a' [E1 _]]. discriminate.
    - apply enc_list_nofuel; [exact Hci|]. intros x Hx. apply Hnp; [constructor; exact Hx|].
      intros [a' [E1 _]]. discriminate.
    - apply enc_list_nofuel; [exact Hci|]. intros x Hx. apply Hnp; [constructor; exact Hx|].
      intros [a' [E1 _]]. discriminate.
    - apply Hnp; [constructor|]. intros [a' [E1 _]]. discriminate.
    - apply Hnp; [constructor|]. intros [a' [E1 _]]. discriminate.
  Qed.
End Termination.

Lemma terminates : forall h o v R d,
  chk o = true -> nopush_wf h v R -> budget h R <= d -> enc d h o [] v <> OFuel.
Proof.
  intros h o v R d Hc [rk [Hb Hd]] Hbud.
  eapply term_aux with (v0 := v) (R := R) (rk := rk); eauto.
  - split; [apply reach_refl|split; constructor].
  - unfold budget in Hbud. simpl. pose proof (Hb v (reach_refl h v)). nia.
Qed.

(* ---- where an error comes from ---- *)

Lemma bad_class_not_circular : forall o b, bad_class o b <> Some ECircular.
Proof. intros o b. destruct b; simpl; try discriminate. destruct (rawok o); discriminate. Qed.

Lemma bad_reachable_edge : forall h o v w e, edge h v w -> bad_reachable h o w e -> bad_reachable h o v e.
Proof.
  intros h o v w e He [b [c [[n Hn] Hb]]]. exists b, c. split; [|exact Hb].
  exists (S n). econstructor; eauto.
Qed.

Lemma enc_err_origin : forall d h o ci v e ci',
  enc d h o ci v = OErr e ci' -> e = ECircular \/ bad_reachable h o v e.
Proof.
  induction d as [|d IH]; intros h o ci v e ci' H; simpl in H; [discriminate|].
  assert (Hci : forall c x c', enc d h o c x = OOk c' -> c' = c) by (intros; eapply enc_ok_ci; eauto).
  assert (Hstep : forall c w, edge h v w -> enc d h o c w = OErr e ci' -> e = ECircular \/ bad_reachable h o v e).
  { intros c w He Hw. destruct (IH _ _ _ _ _ _ Hw) as [->|Hb]; [left; reflexivity|right].
    eapply bad_reachable_edge; eauto. }
  destruct v; try discriminate.
  - destruct (bad_class o b) eqn:B; [|discriminate]. inversion H; subst.
    right. exists b, cont. split; [apply reach_refl|exact B].
  - destruct (chk o && cont_kind (cell h a)).
    + destruct (push ci a) eqn:P.
      * destruct (enc d h o l (cell h a)) eqn:E; try discriminate.
        inversion H; subst. eapply Hstep; [constructor|exact E].
      * inversion H; subst. left; reflexivity.
    + eapply Hstep; [constructor|exact H].
  - eapply Hstep; [constructor|exact H].
  - apply enc_list_err in H; [|exact Hci]. destruct H as [x [Hx Hfx]].
    eapply Hstep; [constructor; exact Hx|exact Hfx].
  - apply enc_list_err in H; [|exact Hci]. destruct H as [x [Hx Hfx]].
    eapply Hstep; [constructor; exact Hx|exact Hfx].
  - eapply Hstep; [constructor|exact H].
  - eapply Hstep; [constructor|exact H].
Qed.

Lemma nocheck_not_circular : forall d h o ci v ci',
  chk o = false -> enc d h o ci v <> OErr ECircular ci'.
Proof.
  induction d as [|d IH]; intros h o ci v ci' Hc H; simpl in H; [discriminate|].
  assert (Hci : forall c x c', enc d h o c x = OOk c' -> c' = c) by (intros; eapply enc_ok_ci; eauto).
  destruct v; try discriminate.
  - destruct (bad_class o b) eqn:B; [|discriminate]. inversion H; subst.
    eapply bad_class_not_circular; eauto.
  - rewrite Hc in H. simpl in H. eapply IH; eauto.
  - eapply IH; eauto.
  - apply enc_list_err in H; [|exact Hci]. destruct H as [x [_ Hfx]]. eapply IH; eauto.
  - apply enc_list_err in H; [|exact Hci]. destruct H as [x [_ Hfx]]. eapply IH; eauto.
  - eapply IH; eauto.
  - eapply IH; eauto.
Qed.

(* ---- completeness: the stack holds only ancestors ---- *)

Section Complete.
  Variables (h : heap) (o : opts) (v0 : val).
  Hypothesis Hacyc : ~ cyclic h v0.

  Definition anc (ci : list nat) (v : val) : Prop :=
    forall a, In a ci -> exists m, npath h (S m) (VPtr a) v.

  Lemma anc_edge : forall ci v w, anc ci v -> edge h v w -> anc ci w.
  Proof.
    intros ci v w Ha He a Hin. destruct (Ha a Hin) as [m Hm].
    exists (S m). eapply npath_snoc; eauto.
  Qed.

  Lemma complete_aux : forall d ci v ci',
    reach h v0 v -> anc ci v -> enc d h o ci v <> OErr ECircular ci'.
  Proof.
    induction d as [|d IH]; intros ci v ci' Hr Ha H; simpl in H; [discriminate|].
    assert (Hci : forall c x c', enc d h o c x = OOk c' -> c' = c) by (intros; eapply enc_ok_ci; eauto).
    assert (Hstep : forall w, edge h v w -> enc d h o ci w <> OErr ECircular ci').
    { intros w He. apply IH; [eapply reach_edge; eauto|eapply anc_edge; eauto]. }
    destruct v; try discriminate.
    - destruct (bad_class o b) eqn:B; [|discriminate]. inversion H; subst.
      eapply bad_class_not_circular; eauto.
    - destruct (chk o && cont_kind (cell h a)).
      + destruct (push ci a) eqn:P.
        * apply push_some in P. destruct P as [-> _].
          destruct (enc d h o (ci ++ [a]) (cell h a)) eqn:E; try discriminate.
          inversion H; subst. revert E. apply IH.
          -- eapply reach_edge; eauto. constructor.
          -- intros a' Hin. apply in_app_or in Hin. destruct Hin as [Hin|[<-|[]]].
             ++ destruct (Ha a' Hin) as [m Hm]. exists (S m). eapply npath_snoc; eauto. constructor.
             ++ exists 0. econstructor; [constructor|constructor].
        * apply push_none in P. destruct (Ha a P) as [m Hm].
          apply Hacyc. exists (VPtr a), m. split; assumption.
      + eapply Hstep; [constructor|exact H].
    - eapply Hstep; [constructor|exact H].
    - apply enc_list_err in H; [|exact Hci]. destruct H as [x [Hx Hfx]].
      eapply Hstep; [constructor; exact Hx|exact Hfx].
    - apply enc_list_err in H; [|exact Hci]. destruct H as [x [Hx Hfx]].
      eapply Hstep; [constructor; exact Hx|exact Hfx].
    - eapply Hstep; [constructor|exact H].
    - eapply Hstep; [constructor|exact H].
  Qed.
End Complete.

(* ---- the theorems' bodies ---- *)

Lemma sound_lemma : forall h o v R d,
  chk o = true -> nopush_wf h v R -> cyclic_ptr h v -> budget h R <= d ->
  exists e ci, enc d h o [] v = OErr e ci /\ (e = ECircular \/ bad_reachable h o v e).
Proof.
  intros h o v R d Hc Hw Hcyc Hb.
  pose proof (terminates _ _ _ _ _ Hc Hw Hb) as Ht.
  pose proof (cyclic_not_ok _ _ (cyclic_ptr_cyclic _ _ Hcyc) d o [] ) as Hn.
  destruct (enc d h o [] v) eqn:E.
  - exfalso. eapply Hn; reflexivity.
  - exists e, ci. split; [reflexivity|]. eapply enc_err_origin; eauto.
  - congruence.
Qed.

Lemma sound_circular_lemma : forall h o v R d,
  chk o = true -> nopush_wf h v R -> cyclic_ptr h v -> budget h R <= d ->
  (forall e, ~ bad_reachable h o v e) ->
  exists ci, enc d h o [] v = OErr ECircular ci.
Proof.
  intros h o v R d Hc Hw Hcyc Hb Hnb.
  destruct (sound_lemma _ _ _ _ _ Hc Hw Hcyc Hb) as [e [ci [He [->|Hbad]]]].
  - exists ci. exact He.
  - exfalso. eapply Hnb; eauto.
Qed.

Lemma total_lemma : forall h o v R d,
  chk o = true -> nopush_wf h v R -> budget h R <= d -> enc d h o [] v <> OFuel.
Proof. exact terminates. Qed.

Lemma complete_lemma : forall h o v d ci',
  ~ cyclic h v -> enc d h o [] v <> OErr ECircular ci'.
Proof.
  intros h o v d ci' Hac. eapply complete_aux; eauto.
  - apply reach_refl.
  - intros a [].
Qed.

Lemma nocheck_lemma : forall h o v, chk o = false -> cyclic h v ->
  forall d, enc d h o [] v = OFuel \/ exists e ci, enc d h o [] v = OErr e ci /\ bad_reachable h o v e.
Proof.
  intros h o v Hc Hcyc d. destruct (enc d h o [] v) eqn:E.
  - exfalso. eapply cyclic_not_ok; eauto.
  - right. exists e, ci. split; [reflexivity|].
    destruct (enc_err_origin _ _ _ _ _ _ _ E) as [->|Hb]; [|exact Hb].
    exfalso. eapply nocheck_not_circular; eauto.
  - left; reflexivity.
Qed.

Lemma leaves_not_ok : forall h o v e, bad_reachable h o v e ->
  forall d ci ci', enc d h o ci v <> OOk ci'.
Proof.
  intros h o v e [b [c [[n Hn] Hb]]] d ci ci' H.
  destruct (enc_ok_reach _ _ _ _ _ _ _ _ H Hn) as [Hlt [c1 Hc1]].
  destruct (d - n) as [|k] eqn:K; [lia|]. simpl in Hc1. rewrite Hb in Hc1. discriminate.
Qed.

Lemma leaves_lemma : forall h o v e,
  bad_reachable h o v e ->
  (forall d ci ci', enc d h o ci v <> OOk ci') /\
  (forall R d, chk o = true -> nopush_wf h v R -> budget h R <= d ->
     exists e' ci', enc d h o [] v = OErr e' ci').
Proof.
  intros h o v e Hb. split; [eapply leaves_not_ok; eauto|].
  intros R d Hc Hw Hbud. pose proof (terminates _ _ _ _ _ Hc Hw Hbud) as Ht.
  destruct (enc d h o [] v) eqn:E.
  - exfalso. eapply leaves_not_ok; eauto.
  - eauto.
  - congruence.
Qed.

Lemma leaf_table_lemma : forall (h_nil : heap) o d ci c,
  enc (S d) h_nil o ci VFunc = OOk ci /\
  enc (S d) h_nil o ci (VBad BSendChan c) = OErr EUnsupported ci /\
  enc (S d) h_nil o ci (VBad BComplex c) = OErr EUnsupported ci /\
  enc (S d) h_nil o ci (VBad BOddMbs c) = OErr EUnsupported ci /\
  enc (S d) h_nil o ci (VBad BUnsupKind c) = OErr EUnsupported ci /\
  enc (S d) h_nil o ci (VBad BMarshalErr c) = OErr EUser ci /\
  enc (S d) h_nil o ci (VBad BMarshalPanic c) = OErr EUser ci /\
  enc (S d) h_nil o ci (VBad BRaw c) = (if rawok o then OOk ci else OErr EUnsupported ci).
Proof.
  intros h_nil o d ci c. simpl. repeat apply conj; try reflexivity. destruct (rawok o); reflexivity.
Qed.

Lemma balanced_lemma : forall d h o s v s',
  encode d h o s v = (s', ROk) -> s' = s.
Proof.
  intros d h o [ci er] v s' H. unfold encode in H. simpl in H.
  destruct er; [inversion H|].
  destruct (enc d h o ci v) eqn:E; inversion H; subst.
  apply enc_ok_ci in E. subst. reflexivity.
Qed.

Lemma reset_lemma : forall d h o s v,
  encode d h o (reset s) v = encode d h o fresh v /\
  (forall e, e_err s = Some e -> encode d h o s v = (s, RErr e)) /\
  e_ci (reset s) = [] /\ e_err (reset s) = None.
Proof.
  intros d h o s v. repeat apply conj; try reflexivity.
  intros e He. unfold encode. rewrite He. reflexivity.
Qed.

(* comparing (address, type) pairs is the model's [enc]: with an injective naming of the cells the
   address-only checker coincides with it *)
Lemma enc_list_ext : forall (f g : list nat -> val -> out) l ci,
  (forall c x, f c x = g c x) -> enc_list f ci l = enc_list g ci l.
Proof.
  intros f g l. induction l as [|x r IH]; intros ci H; simpl; [reflexivity|].
  rewrite H. destruct (g ci x); try reflexivity. apply IH. exact H.
Qed.

Lemma enc_addr_id_lemma : forall d h o ci v, enc_addr (fun a => a) d h o ci v = enc d h o ci v.
Proof.
  induction d as [|d IH]; intros h o ci v; simpl; [reflexivity|].
  destruct v; try reflexivity; try apply IH.
  - destruct (chk o && cont_kind (cell h a)); [|apply IH].
    unfold push_addr, push. destruct (existsb (Nat.eqb a) ci); [reflexivity|]. rewrite IH. reflexivity.
  - apply enc_list_ext. intros; apply IH.
  - apply enc_list_ext. intros; apply IH.
Qed.

(* the model records every pointer edge to a container: it is the instance of [enc_np] without
   unrecorded edges *)
Lemma enc_np_false_lemma : forall d h o ci v, enc_np (fun _ => false) d h o ci v = enc d h o ci v.
Proof.
  induction d as [|d IH]; intros h o ci v; simpl; [reflexivity|].
  destruct v; try reflexivity; try apply IH.
  - rewrite Bool.andb_true_r. destruct (chk o && cont_kind (cell h a)); [|apply IH].
    destruct (push ci a); [|reflexivity]. rewrite IH. reflexivity.
  - apply enc_list_ext. intros; apply IH.
  - apply enc_list_ext. intros; apply IH.
Qed.

(* one unrecorded pointer edge on a cycle: T{F: &T}-like self reference whose only pointer is
   dereferenced by the shortcut.  The hypotheses of C20_sound hold, yet every budget is exhausted. *)
Definition h_np : heap := [VStruct [VPtr 0]].

Lemma np_diverges : forall d,
  enc_np (fun _ => true) d h_np (mkopts true false) [] (VPtr 0) = OFuel /\
  enc_np (fun _ => true) d h_np (mkopts true false) [] (VStruct [VPtr 0]) = OFuel.
Proof.
  induction d as [|d [IH1 IH2]]; [split; reflexivity|].
  split.
  - cbn. exact IH2.
  - cbn. rewrite IH1. reflexivity.
Qed.

Lemma np_refuted_lemma : exists (np : nat -> bool) (h : heap) (v : val) (R : nat),
  nopush_wf h v R /\ cyclic_ptr h v /\ forall d, enc_np np d h (mkopts true false) [] v = OFuel.
Proof.
  exists (fun _ => true), h_np, (VPtr 0), 1.
  assert (Hr : forall w, reach h_np (VPtr 0) w -> w = VPtr 0 \/ w = VStruct [VPtr 0]).
  { apply (reach_closed h_np (fun w => w = VPtr 0 \/ w = VStruct [VPtr 0])); [left; reflexivity|].
    intros w w' [ -> | -> ] He; inversion He; subst; cbn in *.
    - right. reflexivity.
    - match goal with H : _ \/ False |- _ => destruct H as [ <- | [] ] end. left. reflexivity. }
  repeat apply conj.
  - exists (fun v => match v with VStruct _ => 1 | _ => 0 end). split.
    + intros w Hw. apply Hr in Hw. destruct Hw as [ -> | -> ]; cbn; lia.
    + intros w w' Hw He Hnp. apply Hr in Hw. destruct Hw as [ -> | -> ]; inversion He; subst; cbn in *.
      * exfalso. apply Hnp. exists 0. repeat split.
      * match goal with H : _ \/ False |- _ => destruct H as [ <- | [] ] end. lia.
  - exists 0, 1. repeat apply conj.
    + apply reach_refl.
    + reflexivity.
    + eapply npS; [apply e_ptr|]. eapply npS; [apply e_struct; left; reflexivity|]. apply np0.
  - intro d. apply np_diverges.
Qed.

(* C20 — correspondence: the harness builds a random value graph in Go from an adjacency
   description, prints the same graph as a heap, runs real Encoders on it (Encode, Encode again,
   Reset, Encode of a second value) and records one outcome class per call; the model replays
   the same operations. *)
From Coq Require Import List NArith Arith Bool.
From Verif Require Import Base.Outcome C20.Model.
Import ListNotations.

(* the graph is repaired in place between calls, so every Encode carries the heap as it is then *)
Inductive op := OpEncode (h : heap) (v : val) | OpReset.

Record case := mkcase {
  cid : N;
  cheap : heap;
  cchk : bool;
  craw : bool;
  cbudget : nat;            (* stack budget given to the model; far above budget h R for the generated graphs *)
  cloose : bool;            (* several error kinds are reachable: which one is met first depends on
                               map iteration order, so only ok / error / stack is compared *)
  cops : list op;
  o_res : list N }.         (* per OpEncode: 0 ok, eclass_code of the error, 99 stack exhausted or hang (subprocess) *)

Definition code (r : eres) : N :=
  match r with ROk => 0 | RErr e => eclass_code e | RStack => 99 end%N.

Definition loosen (n : N) : N := if N.eqb n 0 then 0%N else if N.eqb n 99 then 99%N else 1%N.

Fixpoint run_ops (d : nat) (o : opts) (s : est) (ops : list op) : list N :=
  match ops with
  | [] => []
  | OpReset :: r => run_ops d o (reset s) r
  | OpEncode h v :: r => let '(s', x) := encode d h o s v in code x :: run_ops d o s' r
  end.

Fixpoint eqbl (a b : list N) : bool :=
  match a, b with
  | [], [] => true
  | x :: a', y :: b' => N.eqb x y && eqbl a' b'
  | _, _ => false
  end.

Definition check_case (c : case) : bool :=
  let m := run_ops (cbudget c) (mkopts (cchk c) (craw c)) fresh (cops c) in
  if cloose c then eqbl (map loosen m) (map loosen (o_res c)) else eqbl m (o_res c).

Definition mismatches (cs : list case) : list N :=
  map cid (filter (fun c => negb (check_case c)) cs).

(* C20 — executable model of the encoder's traversal of a value graph with its
   circular-reference stack (codec/encode.go encodeValue :1162-1242, kStruct*/kArrayW/kMap,
   codec/helper.go circularRefChecker :502-523, encoder.reset :946-955).

   What the code does, as modelled:
   * encodeValue, kind Ptr, non nil: rv = rv.Elem(); if CheckCircularRef and the ELEMENT kind is
     Struct, Slice, Array or Map (canPushElemKind) the pointer (type,address) is pushed on e.ci;
     push does a linear search and halts "circular reference found" when it is already there;
     it appends at the end.  A pointer to a pointer / interface / scalar is NOT pushed.
   * on the way out (END:) the ciPushes entries are popped: ci = ci[:len(ci)-n].
   * errors are panics: nothing is popped on the error path; Encode's defer stores e.err; the
     stale entries stay in e.ci until reset() does e.ci = e.ci[:0].
   * kind Interface: rv.Elem(), no push.  Nil ptr/interface/map/slice/chan, Invalid, Func: nil.
   * struct fields, array/slice elements, map keys and values are visited in sequence with the
     same encoder state.  With CheckCircularRef every struct coder -- kStructSimple, kStruct's map
     branch and kStruct's to-array branch (toarray tag / StructToArray), omitempty or not -- hands a
     pointer field to encodeValue UN-dereferenced (si.fieldNoAlloc(rv, !chkCirRef || e.builtinField(si))),
     so the pointer is pushed like any other: a VStruct field that is a VPtr is an ordinary VPtr.
     The builtin shortcut (encodeIB on the dereferenced value: struct fields, slice/array/MapBySlice
     elements, map keys and values whose BASE type is in encodeBuiltin's type switch) is taken,
     since fix F20-3, only for values that are not pointers or whose pointee encodeValue would
     not record either (scalars): it never hides a pointer to a struct/slice/array/map.
   * map keys that Canonical encodes out-of-band go through a side encoder which, since fix
     F20-4, starts from a copy of this encoder's stack and records the key's own pointers: the
     same thing as visiting them in sequence with this encoder's state, which is what the model does.
   * the recursion is bounded by nothing but the Go stack: the model's [d] is the stack budget,
     one unit per nested edge; [OFuel] = the budget is exhausted (a fatal stack overflow in Go,
     or, for pointer/interface chains that the code follows with `goto RV`, a hang).

   Values are trees of inline Go values whose references (pointers, slices, maps) are
   addresses into a heap of cells. *)
From Coq Require Import List Arith Bool.
From Verif Require Import Base.Outcome.
Import ListNotations.

(* leaves the encoder cannot represent *)
Inductive badk :=
| BSendChan        (* chan<- T : kChan halts *)
| BComplex         (* complex with imag <> 0 *)
| BRaw             (* codec.Raw when the Raw option is off *)
| BOddMbs          (* MapBySlice of odd length *)
| BMarshalErr      (* user marshaler returning an error *)
| BMarshalPanic    (* user marshaler panicking *)
| BUnsupKind.      (* unsafe.Pointer (kErr); a container type that contains itself (type T []T, type M map[string]*M: TypeInfos.load reports "unsupported type ... is a container of itself") *)

Inductive nilk := NPtr | NIface | NSlice | NMap | NChan.

Inductive val :=
| VScalar                        (* bool, numbers, string, []byte, time, complex with imag = 0 ... *)
| VFunc                          (* func value: encoded as nil *)
| VBad (b : badk) (cont : bool)  (* cont: its Go kind is Struct/Slice/Array/Map *)
| VNil (k : nilk)
| VPtr (a : nat)                 (* non-nil pointer to heap cell a *)
| VIface (v : val)               (* non-nil interface holding v *)
| VStruct (fs : list val)        (* fields in encoding order (embedded structs flattened or nested) *)
| VArr (es : list val)           (* [n]T inline; also the contents of a slice/map cell *)
| VSlice (a : nat)               (* non-nil slice whose elements are cell a (a VArr) *)
| VMap (a : nat).                (* non-nil map whose keys/values are cell a (a VArr) *)

Definition heap := list val.
Definition cell (h : heap) (a : nat) : val := nth a h (VNil NPtr).

Record opts := mkopts { chk : bool; rawok : bool }.

Definition bad_class (o : opts) (b : badk) : option eclass :=
  match b with
  | BRaw => if rawok o then None else Some EUnsupported
  | BMarshalErr | BMarshalPanic => Some EUser
  | _ => Some EUnsupported
  end.

(* circularRefChecker.canPushElemKind on the kind of the pointed-to value *)
Definition cont_kind (v : val) : bool :=
  match v with
  | VStruct _ | VArr _ | VSlice _ | VMap _ => true
  | VNil NSlice | VNil NMap => true
  | VBad _ c => c
  | _ => false
  end.

(* circularRefChecker.push: linear search, then append *)
Definition push (ci : list nat) (a : nat) : option (list nat) :=
  if existsb (Nat.eqb a) ci then None else Some (ci ++ [a]).

(* circularRefChecker.pop *)
Definition pop (n : nat) (ci : list nat) : list nat := firstn (length ci - n) ci.

Inductive out :=
| OOk (ci : list nat)                 (* returned normally; e.ci afterwards *)
| OErr (e : eclass) (ci : list nat)   (* halted; e.ci as the panic left it *)
| OFuel.                              (* stack budget exhausted *)

Fixpoint enc_list (f : list nat -> val -> out) (ci : list nat) (l : list val) : out :=
  match l with
  | [] => OOk ci
  | x :: r => match f ci x with OOk ci' => enc_list f ci' r | e => e end
  end.

Fixpoint enc (d : nat) (h : heap) (o : opts) (ci : list nat) (v : val) {struct d} : out :=
  match d with
  | 0 => OFuel
  | S d' =>
    match v with
    | VScalar | VFunc | VNil _ => OOk ci
    | VBad b _ => match bad_class o b with Some e => OErr e ci | None => OOk ci end
    | VPtr a =>
        let t := cell h a in
        if chk o && cont_kind t then
          match push ci a with
          | None => OErr ECircular ci
          | Some ci1 =>
              match enc d' h o ci1 t with
              | OOk ci2 => OOk (pop 1 ci2)
              | r => r
              end
          end
        else enc d' h o ci t
    | VIface w => enc d' h o ci w
    | VStruct fs => enc_list (enc d' h o) ci fs
    | VArr es => enc_list (enc d' h o) ci es
    | VSlice a => enc d' h o ci (cell h a)
    | VMap a => enc d' h o ci (cell h a)
    end
  end.

(* What a cell index is.  The checker stores rv2i(pointer): an interface value, i.e. the pair
   (type, address), and eq4i compares both words.  A cell index of the model stands for one such
   pair.  Two differently typed pointers to one address -- &v and &v.firstField, &arr and &arr[0]
   -- are therefore two cells (the second holds the contents of the field / element), and all the
   theorems, C20_complete in particular, cover graphs with such interior pointers.
   [enc_addr addr] is what a checker that compared the address word only would do ([addr] maps a
   cell to its address): kept to show that the type word is needed (Properties/C20.v). *)
Definition push_addr (addr : nat -> nat) (ci : list nat) (a : nat) : option (list nat) :=
  if existsb (Nat.eqb (addr a)) ci then None else Some (ci ++ [addr a]).

Fixpoint enc_addr (addr : nat -> nat) (d : nat) (h : heap) (o : opts) (ci : list nat) (v : val) {struct d} : out :=
  match d with
  | 0 => OFuel
  | S d' =>
    match v with
    | VScalar | VFunc | VNil _ => OOk ci
    | VBad b _ => match bad_class o b with Some e => OErr e ci | None => OOk ci end
    | VPtr a =>
        let t := cell h a in
        if chk o && cont_kind t then
          match push_addr addr ci a with
          | None => OErr ECircular ci
          | Some ci1 =>
              match enc_addr addr d' h o ci1 t with
              | OOk ci2 => OOk (pop 1 ci2)
              | r => r
              end
          end
        else enc_addr addr d' h o ci t
    | VIface w => enc_addr addr d' h o ci w
    | VStruct fs => enc_list (enc_addr addr d' h o) ci fs
    | VArr es => enc_list (enc_addr addr d' h o) ci es
    | VSlice a => enc_addr addr d' h o ci (cell h a)
    | VMap a => enc_addr addr d' h o ci (cell h a)
    end
  end.

(* Which pointer edges are recorded.  [enc] records EVERY pointer whose target cell is a
   struct/slice/array/map, wherever the pointer sits (struct field, slice/array element, map key
   or value, interface, another pointer) and whatever the type of the target -- in particular the
   "builtin" collection types ([]interface{}, map[string]interface{}, the other fast-path slices and
   maps, []byte, time.Time) for which the struct/slice/map coders have a shortcut (encodeIB on the
   dereferenced value), and pointer map keys, which Canonical encodes with a side encoder.
   The pinned code did NOT do that: the shortcut dereferenced a pointer field / element / map
   value without recording it (finding F20-3) and the side encoder started with an empty stack
   and dereferenced the key (F20-4).  Both are repaired: the shortcut is not taken for a pointer
   that encodeValue would record (encoderBase.builtinField / builtinElem) and the side encoder
   inherits the stack (ciInherit).
   [enc_np np] is the traversal in which the pointers to the cells selected by [np] are
   dereferenced without being recorded: [enc_np (fun _ => false)] is [enc], and one unrecorded
   edge on a cycle is enough to lose the property (Properties/C20.v). *)
Fixpoint enc_np (np : nat -> bool) (d : nat) (h : heap) (o : opts) (ci : list nat) (v : val) {struct d} : out :=
  match d with
  | 0 => OFuel
  | S d' =>
    match v with
    | VScalar | VFunc | VNil _ => OOk ci
    | VBad b _ => match bad_class o b with Some e => OErr e ci | None => OOk ci end
    | VPtr a =>
        let t := cell h a in
        if chk o && cont_kind t && negb (np a) then
          match push ci a with
          | None => OErr ECircular ci
          | Some ci1 =>
              match enc_np np d' h o ci1 t with
              | OOk ci2 => OOk (pop 1 ci2)
              | r => r
              end
          end
        else enc_np np d' h o ci t
    | VIface w => enc_np np d' h o ci w
    | VStruct fs => enc_list (enc_np np d' h o) ci fs
    | VArr es => enc_list (enc_np np d' h o) ci es
    | VSlice a => enc_np np d' h o ci (cell h a)
    | VMap a => enc_np np d' h o ci (cell h a)
    end
  end.

(* ---- the Encoder around it: sticky error, Reset ---- *)
Record est := mkest { e_ci : list nat; e_err : option eclass }.
Definition fresh : est := mkest [] None.

Inductive eres := ROk | RErr (e : eclass) | RStack.

(* Encode: halt.onerror(e.err) first; a fatal stack overflow kills the process (no state after it) *)
Definition encode (d : nat) (h : heap) (o : opts) (s : est) (v : val) : est * eres :=
  match e_err s with
  | Some e => (s, RErr e)
  | None =>
      match enc d h o (e_ci s) v with
      | OOk ci => (mkest ci None, ROk)
      | OErr e ci => (mkest ci (Some e), RErr e)
      | OFuel => (s, RStack)
      end
  end.

(* encoder.reset: e.ci = e.ci[:0]; e.err = nil *)
Definition reset (s : est) : est := mkest [] None.

(* ---- the graph ---- *)
Inductive edge (h : heap) : val -> val -> Prop :=
| e_ptr : forall a, edge h (VPtr a) (cell h a)
| e_iface : forall w, edge h (VIface w) w
| e_struct : forall fs w, In w fs -> edge h (VStruct fs) w
| e_arr : forall es w, In w es -> edge h (VArr es) w
| e_slice : forall a, edge h (VSlice a) (cell h a)
| e_map : forall a, edge h (VMap a) (cell h a).

(* the edges on which the checker pushes *)
Definition push_edge (h : heap) (v w : val) : Prop :=
  exists a, v = VPtr a /\ w = cell h a /\ cont_kind w = true.

Inductive npath (h : heap) : nat -> val -> val -> Prop :=
| np0 : forall v, npath h 0 v v
| npS : forall n v w u, edge h v w -> npath h n w u -> npath h (S n) v u.

Definition reach (h : heap) (v w : val) : Prop := exists n, npath h n v w.

(* a cycle reachable from v that passes through a pointer the checker pushes *)
Definition cyclic_ptr (h : heap) (v : val) : Prop :=
  exists a m, reach h v (VPtr a) /\ cont_kind (cell h a) = true /\ npath h (S m) (VPtr a) (VPtr a).

(* any reachable cycle *)
Definition cyclic (h : heap) (v : val) : Prop :=
  exists w m, reach h v w /\ npath h (S m) w w.

(* every cycle reachable from v passes through a pushed pointer: the edges that do not push
   are well founded below v, with chains of at most R edges *)
Definition nopush_wf (h : heap) (v : val) (R : nat) : Prop :=
  exists rk : val -> nat,
    (forall w, reach h v w -> rk w <= R) /\
    (forall w w', reach h v w -> edge h w w' -> ~ push_edge h w w' -> rk w' < rk w).

Definition bad_reachable (h : heap) (o : opts) (v : val) (e : eclass) : Prop :=
  exists b c, reach h v (VBad b c) /\ bad_class o b = Some e.

(* the stack budget that always suffices when checking is on *)
Definition budget (h : heap) (R : nat) : nat := (length h + 1) * (R + 1) + 1.

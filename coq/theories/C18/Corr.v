(* C18 — correspondence: the framing model is run on the frames the real codecs wrote
   and on the chunk schedule the real reading codec was fed; the ids differ where the
   model and the implementation disagree.

   The value code is taken from the case itself: [complete] recognises exactly the value
   encodings that occur in the case (recorded by the harness with NewEncoderBytes on the
   same Handle).  That this set is prefix free — the C11 hypothesis of the theorems — is
   re-checked on every case. *)
From Coq Require Import List NArith Arith Bool.
From Coq Require Import ZArith.
From Verif Require Import Gen.Consts C18.Model.
Import ListNotations.

Record case := mkcase {
  cid : N;
  ckind : rpckind;
  crcap : nat;                         (* 0, or the room of the Decoder's buffer *)
  cwcap : nat;                         (* WriterBufferSize *)
  csched : list nat;                   (* sizes handed out by the successive raw Reads *)
  ctrunc : nat;                        (* the reading side sees the first ctrunc bytes *)
  cframes : list (list (list N));      (* the frames written, as units *)
  o_wire : list N;                     (* bytes the writing codec put on the connection *)
  o_cuts_ok : bool;                    (* every Encode ended on a Write boundary (flush) *)
  o_ids : list nat }.                  (* indices of the frames the reading codec returned, in order *)

Fixpoint eqbl (a b : list N) : bool :=
  match a, b with
  | [], [] => true
  | x :: a', y :: b' => N.eqb x y && eqbl a' b'
  | _, _ => false
  end.

Fixpoint eqbll (a b : list (list N)) : bool :=
  match a, b with
  | [], [] => true
  | x :: a', y :: b' => eqbl x y && eqbll a' b'
  | _, _ => false
  end.

Fixpoint eqblll (a b : list (list (list N))) : bool :=
  match a, b with
  | [], [] => true
  | x :: a', y :: b' => eqbll x y && eqblll a' b'
  | _, _ => false
  end.

(* p is a proper, non-empty prefix of w *)
Fixpoint proper_prefix (p w : list N) : bool :=
  match p, w with
  | [], _ :: _ => true
  | x :: p', y :: w' => N.eqb x y && proper_prefix p' w'
  | _, _ => false
  end.

Definition vals (k : rpckind) (fr : list (list N)) : list (list N) :=
  match k with GoRpc => fr | SpecRpc => tl fr end.

Definition table (c : case) : list (list N) := flat_map (vals (ckind c)) (cframes c).

Definition complete_of (tbl : list (list N)) (acc : list N) : bool := existsb (eqbl acc) tbl.

Definition prefix_free (tbl : list (list N)) : bool :=
  forallb (fun w => negb (match w with [] => true | _ => false end) &&
                    forallb (fun p => match p with [] => true | _ => negb (proper_prefix p w) end) tbl) tbl.

Definition check_case (c : case) : bool :=
  let tbl := table c in
  let k := ckind c in
  let wire := fifo (write_frames (cwcap c) (map (encodes_of k) (cframes c))) in
  let '(frs, _) := read_all (complete_of tbl) (rawmark_of k) (shape_of k) (crcap c) (csched c)
                     (firstn (ctrunc c) (o_wire c)) in
  prefix_free tbl && eqbl wire (o_wire c) && o_cuts_ok c &&
  eqblll frs (map (fun i => nth i (cframes c) []) (o_ids c)).

Definition mismatches (cs : list case) : list N :=
  map cid (filter (fun c => negb (check_case c)) cs).

(* ---- depth over a long-lived connection ---- *)
Record dcase := mkdcase {
  did : N;
  dkind : rpckind;
  dmaxd : nat;                         (* Handle.MaxDepth (0 = default 1024) *)
  dframes : list (list nat);           (* nesting of the value slots of each message, in reading order *)
  o_fail : option nat }.               (* index of the first message the real codec failed to read *)

Definition eqb_onat (a b : option nat) : bool :=
  match a, b with
  | None, None => true
  | Some x, Some y => Nat.eqb x y
  | _, _ => false
  end.

Definition check_dcase (c : dcase) : bool :=
  let maxd := if Nat.eqb (dmaxd c) 0 then Z.to_nat decDefMaxDepth else dmaxd c in
  eqb_onat (dec_conn (mark_leaks_of (dkind c)) (dkind c) maxd 0 (dframes c) 0) (o_fail c).

Definition dmismatches (cs : list dcase) : list N :=
  map did (filter (fun c => negb (check_dcase c)) cs).

(* ---- discarded bodies ---- *)
Record bcase := mkbcase {
  bid : N;
  bmsgs : list (bodymode * bodyinfo);
  o_bfail : option nat }.             (* index of the first message the real codec failed to read *)

Definition check_bcase (c : bcase) : bool :=
  eqb_onat (conn_bodies discard_via_iface (bmsgs c) 0) (o_bfail c).

Definition bmismatches (cs : list bcase) : list N :=
  map bid (filter (fun c => negb (check_bcase c)) cs).

(* C18 — lemmas about the framing model: the reader's state abstracts to "the
   bytes not yet consumed" = held ++ in flight, whatever the chunk schedule and
   the buffer size; a self-delimiting value is read back exactly; frames are
   read back in write order. *)
From Coq Require Import List NArith Arith Bool Lia Permutation.
From Verif Require Import C18.Model.
Import ListNotations.

Definition stream (r : rd) : list N := held r ++ avail (cn r).

(* ---------------- raw reads ---------------- *)

Lemma conn_read_app : forall want c,
  fst (conn_read want c) ++ avail (snd (conn_read want c)) = avail c.
Proof. intros. unfold conn_read. cbn [fst snd avail]. apply firstn_skipn. Qed.

Lemma conn_read_len : forall want c, length (fst (conn_read want c)) <= want.
Proof.
  intros. unfold conn_read. cbn [fst]. rewrite firstn_length. lia.
Qed.

Lemma conn_read_nonempty : forall want c,
  1 <= want -> avail c <> [] -> fst (conn_read want c) <> [].
Proof.
  intros want c Hw Ha. unfold conn_read. cbn [fst].
  destruct (avail c) as [|b t] eqn:E; [congruence|].
  set (k := match sched c with [] => length (b :: t) | k :: _ => Nat.max 1 k end).
  assert (Hk : 1 <= k) by (subst k; destruct (sched c); cbn [length]; lia).
  destruct (Nat.min want k) eqn:Em; [lia|]. cbn. discriminate.
Qed.

(* ---------------- the decoder's next byte ---------------- *)

Lemma next_byte_nil : forall r, stream r = [] -> next_byte r = None.
Proof.
  intros r H. unfold stream in H. apply app_eq_nil in H. destruct H as [Hh Ha].
  unfold next_byte. rewrite Hh.
  pose proof (conn_read_app (fill_want r) (cn r)) as Happ.
  destruct (conn_read (fill_want r) (cn r)) as [got c']. cbn [fst snd] in Happ.
  rewrite Ha in Happ. apply app_eq_nil in Happ. destruct Happ as [Hg _]. now rewrite Hg.
Qed.

Lemma fill_want_pos : forall r, 1 <= fill_want r.
Proof. intros. unfold fill_want. destruct (rcap r =? 0) eqn:E; [lia|]. apply Nat.eqb_neq in E. lia. Qed.

Lemma next_byte_cons : forall r b t, stream r = b :: t ->
  exists r', next_byte r = Some (b, r') /\ stream r' = t /\ rcap r' = rcap r
             /\ (rcap r = 0 -> held r = [] -> held r' = []).
Proof.
  intros r b t H. unfold stream in H. unfold next_byte.
  destruct (held r) as [|hb hh] eqn:Hh.
  - cbn [app] in H.
    pose proof (conn_read_app (fill_want r) (cn r)) as Happ.
    pose proof (conn_read_len (fill_want r) (cn r)) as Hlen.
    assert (Hne : fst (conn_read (fill_want r) (cn r)) <> []).
    { apply conn_read_nonempty; [apply fill_want_pos|]. rewrite H. discriminate. }
    destruct (conn_read (fill_want r) (cn r)) as [got c']. cbn [fst snd] in *.
    destruct got as [|g gs]; [congruence|].
    rewrite H in Happ. cbn [app] in Happ. injection Happ as Hb Ht. subst g.
    eexists. split; [reflexivity|]. unfold stream. cbn [held cn rcap].
    repeat apply conj; auto.
    intros Hr _. unfold fill_want in Hlen. rewrite Hr in Hlen. cbn in Hlen.
    destruct gs; [reflexivity|cbn in Hlen; lia].
  - cbn [app] in H. injection H as Hb Ht. subst hb.
    eexists. split; [reflexivity|]. unfold stream. cbn [held cn rcap].
    repeat apply conj; auto. intros _ Hc. discriminate.
Qed.

Lemma raw_byte_nil : forall r, held r = [] -> stream r = [] -> raw_byte r = None.
Proof.
  intros r Hh H. unfold stream in H. rewrite Hh in H. cbn [app] in H.
  unfold raw_byte.
  pose proof (conn_read_app 1 (cn r)) as Happ.
  destruct (conn_read 1 (cn r)) as [got c']. cbn [fst snd] in Happ.
  rewrite H in Happ. apply app_eq_nil in Happ. destruct Happ as [Hg _]. now rewrite Hg.
Qed.

Lemma raw_byte_cons : forall r b t, held r = [] -> stream r = b :: t ->
  exists r', raw_byte r = Some (b, r') /\ stream r' = t /\ rcap r' = rcap r /\ held r' = [].
Proof.
  intros r b t Hh H. unfold stream in H. rewrite Hh in H. cbn [app] in H.
  unfold raw_byte.
  pose proof (conn_read_app 1 (cn r)) as Happ.
  pose proof (conn_read_len 1 (cn r)) as Hlen.
  assert (Hne : fst (conn_read 1 (cn r)) <> []).
  { apply conn_read_nonempty; [lia|]. rewrite H. discriminate. }
  destruct (conn_read 1 (cn r)) as [got c']. cbn [fst snd] in *.
  destruct got as [|g gs]; [congruence|].
  destruct gs; [|cbn in Hlen; lia].
  rewrite H in Happ. cbn [app] in Happ. injection Happ as Hb Ht. subst g.
  eexists. split; [reflexivity|]. unfold stream. cbn [held cn rcap]. rewrite Hh.
  repeat apply conj; auto.
Qed.

(* ---------------- one value ---------------- *)

Section Framing.
  Variable complete : list N -> bool.

  Notation codeword := (codeword complete).
  Notation unit_ok := (unit_ok complete).
  Notation conforms := (conforms complete).

  (* the invariant a reader around the buffer needs: nothing is ever held *)
  Definition unbuffered (r : rd) : Prop := rcap r = 0 /\ held r = [].

  Lemma read_value_spec : forall w fuel acc r rest,
    w <> [] -> stream r = w ++ rest -> length w <= fuel ->
    complete (acc ++ w) = true ->
    (forall p s, w = p ++ s -> p <> [] -> s <> [] -> complete (acc ++ p) = false) ->
    exists r', read_value complete fuel acc r = inl (acc ++ w, r') /\ stream r' = rest
               /\ rcap r' = rcap r /\ (unbuffered r -> unbuffered r').
  Proof.
    induction w as [|b w IH]; intros fuel acc r rest Hne Hs Hf Hc Hp; [congruence|].
    destruct fuel as [|fuel]; [cbn in Hf; lia|].
    cbn [app] in Hs. destruct (next_byte_cons r b (w ++ rest) Hs) as (r1 & Hn & Hs1 & Hr1 & Hu1).
    cbn [read_value]. rewrite Hn.
    destruct w as [|b2 w2].
    - rewrite Hc. eexists. split; [reflexivity|]. cbn [app] in Hs1.
      repeat apply conj; auto. intros [U1 U2]. split; [congruence|auto].
    - assert (Hnc : complete (acc ++ [b]) = false).
      { apply (Hp [b] (b2 :: w2)); [reflexivity|discriminate|discriminate]. }
      rewrite Hnc.
      destruct (IH fuel (acc ++ [b]) r1 rest) as (r2 & Hv & Hs2 & Hr2 & Hu2).
      + discriminate.
      + exact Hs1.
      + cbn [length] in *. lia.
      + rewrite <- app_assoc. exact Hc.
      + intros p s Hw Hpn Hsn. rewrite <- app_assoc. apply (Hp (b :: p) s).
        * cbn [app]. now rewrite Hw.
        * discriminate.
        * exact Hsn.
      + rewrite Hv. rewrite <- app_assoc. eexists. split; [reflexivity|].
        repeat apply conj; auto; try congruence.
        intros U. apply Hu2. destruct U as [U1 U2]. split; [congruence|auto].
  Qed.

  Lemma read_value_codeword : forall w r rest,
    codeword w -> stream r = w ++ rest ->
    exists r', read_value complete (S (remaining r)) [] r = inl (w, r') /\ stream r' = rest
               /\ rcap r' = rcap r /\ (unbuffered r -> unbuffered r').
  Proof.
    intros w r rest (Hne & Hc & Hp) Hs.
    apply (read_value_spec w (S (remaining r)) [] r rest); auto.
    unfold remaining. assert (length (stream r) = length w + length rest) by (rewrite Hs; apply app_length).
    unfold stream in H. rewrite app_length in H. lia.
  Qed.

  (* ---------------- frames ---------------- *)

  Variable rawmark : bool.


  (* either the descriptor goes through the Decoder, or the Decoder never reads ahead *)
  Definition safe (r : rd) : Prop := rawmark = false \/ unbuffered r.

  Lemma read_slot_spec : forall s u r rest,
    unit_ok s u -> safe r -> stream r = u ++ rest ->
    exists r', read_slot complete rawmark s r = inl (u, r') /\ stream r' = rest
               /\ rcap r' = rcap r /\ safe r'.
  Proof.
    intros s u r rest Hu Hsafe Hs. destruct s as [m|].
    - cbn in Hu. subst u. cbn [app] in Hs. unfold read_slot.
      destruct Hsafe as [Hrm|Hub].
      + rewrite Hrm. destruct (next_byte_cons r m rest Hs) as (r' & Hn & Hs' & Hr' & _).
        rewrite Hn. rewrite N.eqb_refl. eexists. split; [reflexivity|].
        repeat apply conj; auto. now left.
      + destruct rawmark eqn:Erm.
        * destruct Hub as [U1 U2].
          destruct (raw_byte_cons r m rest U2 Hs) as (r' & Hn & Hs' & Hr' & Hh').
          rewrite Hn. rewrite N.eqb_refl. eexists. split; [reflexivity|].
          repeat apply conj; auto. right. split; congruence.
        * destruct (next_byte_cons r m rest Hs) as (r' & Hn & Hs' & Hr' & _).
          rewrite Hn. rewrite N.eqb_refl. eexists. split; [reflexivity|].
          repeat apply conj; auto. now left.
    - cbn in Hu. unfold read_slot.
      destruct (read_value_codeword u r rest Hu Hs) as (r' & Hv & Hs' & Hr' & Hu').
      eexists. split; [exact Hv|]. repeat apply conj; auto.
      destruct Hsafe as [Hrm|Hub]; [now left|right; auto].
  Qed.

  Lemma read_frame_spec : forall shape fr r rest,
    conforms shape fr -> safe r -> stream r = concat fr ++ rest ->
    exists r', read_frame complete rawmark shape r = inl (fr, r') /\ stream r' = rest
               /\ rcap r' = rcap r /\ safe r'.
  Proof.
    intros shape fr r rest Hc. revert r rest.
    induction Hc as [|s u shape fr Hu Hc IH]; intros r rest Hsafe Hs.
    - cbn in *. eexists. split; [reflexivity|]. repeat apply conj; auto.
    - cbn [concat] in Hs. rewrite <- app_assoc in Hs.
      destruct (read_slot_spec s u r _ Hu Hsafe Hs) as (r1 & H1 & Hs1 & Hr1 & Hsafe1).
      destruct (IH r1 rest Hsafe1 Hs1) as (r2 & H2 & Hs2 & Hr2 & Hsafe2).
      cbn [read_frame]. rewrite H1, H2. eexists. split; [reflexivity|].
      repeat apply conj; auto; congruence.
  Qed.

  Lemma at_end_stream : forall r, at_end r = true <-> stream r = [].
  Proof.
    intros r. unfold at_end, stream. destruct (held r), (avail (cn r)); cbn; split; congruence.
  Qed.

  Lemma conforms_nonempty : forall shape fr, shape <> [] -> conforms shape fr -> concat fr <> [].
  Proof.
    intros shape fr Hne Hc. destruct Hc as [|s u shape fr Hu Hc]; [congruence|].
    cbn [concat]. destruct s; cbn in Hu.
    - subst u. discriminate.
    - destruct Hu as (Hu & _). destruct u; [congruence|discriminate].
  Qed.

  Lemma read_frames_spec : forall shape frames fuel r,
    shape <> [] -> Forall (conforms shape) frames -> safe r ->
    stream r = concat (map (@concat N) frames) -> length frames < fuel ->
    read_frames complete rawmark fuel shape r = (frames, None).
  Proof.
    intros shape frames. induction frames as [|fr frames IH]; intros fuel r Hne Hall Hsafe Hs Hf.
    - destruct fuel; [lia|]. cbn [read_frames]. cbn in Hs.
      apply at_end_stream in Hs. now rewrite Hs.
    - destruct fuel; [lia|]. cbn [read_frames].
      inversion Hall as [|? ? Hfr Hall']; subst.
      cbn [map concat] in Hs.
      assert (Hend : at_end r = false).
      { destruct (at_end r) eqn:E; [|reflexivity]. apply at_end_stream in E.
        rewrite E in Hs. symmetry in Hs. apply app_eq_nil in Hs. destruct Hs as [Hs _].
        exfalso. eapply conforms_nonempty; eauto. }
      rewrite Hend.
      destruct (read_frame_spec shape fr r _ Hfr Hsafe Hs) as (r1 & H1 & Hs1 & Hr1 & Hsafe1).
      rewrite H1. rewrite (IH fuel r1 Hne Hall' Hsafe1 Hs1); [reflexivity|cbn in Hf; lia].
  Qed.

  (* ---------------- a stream that ends inside a frame ---------------- *)

  Lemma whole_le : forall shape frames t, shape <> [] -> Forall (conforms shape) frames ->
    fst (whole t frames) <= t /\ fst (whole t frames) <= length (concat (map (@concat N) frames)).
  Proof.
    intros shape frames t Hne Hall. revert t. induction Hall as [|fr frames Hfr Hall IH]; intros t.
    - cbn. lia.
    - cbn [whole map concat]. rewrite app_length.
      pose proof (conforms_nonempty shape fr Hne Hfr) as Hn.
      assert (1 <= length (concat fr)) by (destruct (concat fr); [congruence|cbn; lia]).
      destruct (length (concat fr) <=? t) eqn:El.
      + apply Nat.leb_le in El. specialize (IH (t - length (concat fr))).
        destruct (whole (t - length (concat fr)) frames) as [n b]. cbn [fst] in *. lia.
      + cbn [fst]. lia.
  Qed.

  Lemma read_value_cut : forall q fuel acc r,
    stream r = q -> length q < fuel ->
    (forall q1 q2, q = q1 ++ q2 -> q1 <> [] -> complete (acc ++ q1) = false) ->
    read_value complete fuel acc r = inr EEof.
  Proof.
    induction q as [|b q IH]; intros fuel acc r Hs Hf Hp.
    - destruct fuel; [lia|]. cbn [read_value]. now rewrite (next_byte_nil r Hs).
    - destruct fuel; [cbn in Hf; lia|]. cbn [read_value].
      destruct (next_byte_cons r b q Hs) as (r1 & Hn & Hs1 & _). rewrite Hn.
      assert (Hc : complete (acc ++ [b]) = false).
      { apply (Hp [b] q); [reflexivity|discriminate]. }
      rewrite Hc. apply IH; [exact Hs1|cbn in Hf; lia|].
      intros q1 q2 Hq Hq1. rewrite <- app_assoc. apply (Hp (b :: q1) q2); [cbn; now rewrite Hq|discriminate].
  Qed.

  Lemma read_slot_cut : forall s u q tl_ r,
    unit_ok s u -> safe r -> u = q ++ tl_ -> tl_ <> [] -> stream r = q ->
    read_slot complete rawmark s r = inr EEof.
  Proof.
    intros s u q tl_ r Hu Hsafe Hq Htl Hs. destruct s as [m|].
    - cbn in Hu. subst u. destruct q as [|a q].
      + unfold read_slot. destruct Hsafe as [Hrm|[U1 U2]].
        * rewrite Hrm. now rewrite (next_byte_nil r Hs).
        * destruct rawmark; [now rewrite (raw_byte_nil r U2 Hs)|now rewrite (next_byte_nil r Hs)].
      + exfalso. destruct q; cbn in Hq; [|destruct q; discriminate].
        injection Hq as _ Ht. congruence.
    - cbn in Hu. destruct Hu as (Hne & Hc & Hp). unfold read_slot.
      apply read_value_cut with (q := q); [exact Hs| |].
      + unfold remaining. assert (H : length (stream r) = length q) by now rewrite Hs.
        unfold stream in H. rewrite app_length in H. lia.
      + intros q1 q2 Hq12 Hq1. cbn [app]. apply (Hp q1 (q2 ++ tl_)).
        * rewrite Hq, Hq12. now rewrite app_assoc.
        * exact Hq1.
        * intro H. apply app_eq_nil in H. destruct H. congruence.
  Qed.

  Lemma split_prefix : forall (u rest q tl_ : list N),
    u ++ rest = q ++ tl_ ->
    (exists q', q = u ++ q' /\ rest = q' ++ tl_) \/ (exists u2, u2 <> [] /\ u = q ++ u2).
  Proof.
    induction u as [|a u IH]; intros rest q tl_ H.
    - left. exists q. split; [reflexivity|exact H].
    - destruct q as [|b q].
      + right. exists (a :: u). split; [discriminate|reflexivity].
      + cbn in H. injection H as Hab H. subst b.
        destruct (IH rest q tl_ H) as [(q' & H1 & H2)|(u2 & H1 & H2)].
        * left. exists q'. split; [cbn; now rewrite H1|exact H2].
        * right. exists u2. split; [exact H1|cbn; now rewrite H2].
  Qed.

  Lemma read_frame_cut : forall shape fr q tl_ r,
    conforms shape fr -> safe r -> concat fr = q ++ tl_ -> tl_ <> [] -> stream r = q ->
    read_frame complete rawmark shape r = inr EEof.
  Proof.
    intros shape fr q tl_ r Hc. revert q tl_ r.
    induction Hc as [|s u shape fr Hu Hc IH]; intros q tl_ r Hsafe Hq Htl Hs.
    - cbn in Hq. symmetry in Hq. apply app_eq_nil in Hq. destruct Hq. congruence.
    - cbn [concat] in Hq. cbn [read_frame].
      destruct (split_prefix u (concat fr) q tl_ Hq) as [(q' & H1 & H2)|(u2 & H1 & H2)].
      + assert (Hs' : stream r = u ++ q') by congruence.
        destruct (read_slot_spec s u r q' Hu Hsafe Hs') as (r1 & Hr & Hs1 & _ & Hsafe1).
        rewrite Hr. rewrite (IH q' tl_ r1 Hsafe1 H2 Htl Hs1). reflexivity.
      + rewrite (read_slot_cut s u q u2 r Hu Hsafe H2 H1 Hs). reflexivity.
  Qed.

  Lemma firstn_app_le : forall (a b : list N) t, length a <= t ->
    firstn t (a ++ b) = a ++ firstn (t - length a) b.
  Proof.
    intros a b t H. rewrite firstn_app. rewrite firstn_all2 by exact H. reflexivity.
  Qed.

  Lemma read_frames_cut : forall shape frames t fuel r,
    shape <> [] -> Forall (conforms shape) frames -> safe r ->
    stream r = firstn t (concat (map (@concat N) frames)) -> fst (whole t frames) < fuel ->
    read_frames complete rawmark fuel shape r
    = (firstn (fst (whole t frames)) frames, if snd (whole t frames) then None else Some EEof).
  Proof.
    intros shape frames. induction frames as [|fr frames IH]; intros t fuel r Hne Hall Hsafe Hs Hf.
    - destruct fuel; [lia|]. cbn [read_frames whole fst snd firstn]. cbn in Hs. rewrite firstn_nil in Hs.
      apply at_end_stream in Hs. now rewrite Hs.
    - destruct fuel; [lia|]. inversion Hall as [|? ? Hfr Hall']; subst.
      cbn [map concat] in Hs. cbn [whole] in Hf |- *.
      destruct (length (concat fr) <=? t) eqn:El.
      + apply Nat.leb_le in El. rewrite firstn_app_le in Hs by exact El.
        cbn [read_frames].
        assert (Hend : at_end r = false).
        { destruct (at_end r) eqn:E; [|reflexivity]. apply at_end_stream in E.
          rewrite E in Hs. symmetry in Hs. apply app_eq_nil in Hs. destruct Hs as [Hs _].
          exfalso. eapply conforms_nonempty; eauto. }
        rewrite Hend.
        destruct (read_frame_spec shape fr r _ Hfr Hsafe Hs) as (r1 & H1 & Hs1 & Hr1 & Hsafe1).
        rewrite H1.
        destruct (whole (t - length (concat fr)) frames) as [n b] eqn:Ew. cbn [fst snd] in Hf |- *.
        rewrite (IH (t - length (concat fr)) fuel r1 Hne Hall' Hsafe1 Hs1) by (rewrite Ew; cbn [fst]; lia).
        rewrite Ew. reflexivity.
      + apply Nat.leb_gt in El. cbn [fst snd firstn read_frames].
        rewrite firstn_app in Hs. replace (t - length (concat fr)) with 0 in Hs by lia.
        cbn [firstn] in Hs. rewrite app_nil_r in Hs.
        destruct t as [|t].
        * cbn in Hs. apply at_end_stream in Hs. rewrite Hs. reflexivity.
        * assert (Hend : at_end r = false).
          { destruct (at_end r) eqn:E; [|reflexivity]. apply at_end_stream in E. rewrite E in Hs.
            destruct (concat fr); [cbn in El; lia|discriminate]. }
          rewrite Hend.
          rewrite (read_frame_cut shape fr (firstn (S t) (concat fr)) (skipn (S t) (concat fr)) r Hfr Hsafe).
          -- reflexivity.
          -- symmetry. apply firstn_skipn.
          -- intro H. assert (L : length (skipn (S t) (concat fr)) = 0) by now rewrite H.
             rewrite skipn_length in L. lia.
          -- exact Hs.
  Qed.

  Lemma frames_len : forall shape frames, shape <> [] -> Forall (conforms shape) frames ->
    length frames <= length (concat (map (@concat N) frames)).
  Proof.
    intros shape frames Hne Hall. induction Hall as [|fr frames Hfr Hall IH]; [cbn; lia|].
    cbn [map concat length]. rewrite app_length.
    pose proof (conforms_nonempty shape fr Hne Hfr) as Hn.
    destruct (concat fr); [congruence|]. cbn [length]. lia.
  Qed.

  Lemma read_all_spec : forall shape frames rc sc,
    shape <> [] -> Forall (conforms shape) frames ->
    (rawmark = false \/ rc = 0) ->
    read_all complete rawmark shape rc sc (concat (map (@concat N) frames)) = (frames, None).
  Proof.
    intros shape frames rc sc Hne Hall Hsafe. unfold read_all.
    apply read_frames_spec; auto.
    - destruct Hsafe as [H|H]; [now left|right]. split; [exact H|reflexivity].
    - pose proof (frames_len shape frames Hne Hall). lia.
  Qed.
End Framing.

(* ---------------- the writing side ---------------- *)

Lemma pieces_concat : forall fuel w bs, concat (pieces fuel w bs) = bs.
Proof.
  induction fuel as [|fuel IH]; intros w bs; cbn [pieces].
  - cbn. apply app_nil_r.
  - destruct bs as [|b bs]; [reflexivity|].
    destruct ((w =? 0) || (length (b :: bs) <=? w)).
    + cbn. now rewrite app_nil_r.
    + cbn [concat]. rewrite IH. apply firstn_skipn.
Qed.

Lemma write_frame_concat : forall w fr, concat (write_frame w fr) = concat fr.
Proof.
  intros w fr. unfold write_frame. induction fr as [|u fr IH]; [reflexivity|].
  cbn [flat_map concat]. rewrite concat_app, IH. unfold encode_calls. now rewrite pieces_concat.
Qed.

Lemma write_frames_fifo : forall w frames,
  fifo (write_frames w frames) = concat (map (@concat N) frames).
Proof.
  intros w frames. unfold fifo, write_frames. induction frames as [|fr frames IH]; [reflexivity|].
  cbn [flat_map map concat]. rewrite concat_app, IH. now rewrite write_frame_concat.
Qed.

Lemma encodes_of_concat : forall k units, concat (encodes_of k units) = concat units.
Proof. intros [|] units; cbn; [reflexivity|apply app_nil_r]. Qed.

Lemma shape_of_nonempty : forall k, shape_of k <> [].
Proof. intros [|]; discriminate. Qed.

Lemma frames_lemma : forall complete rawmark k w rc sc frames,
  Forall (conforms complete (shape_of k)) frames ->
  (rawmark = false \/ rc = 0) ->
  read_all complete rawmark (shape_of k) rc sc
    (fifo (write_frames w (map (encodes_of k) frames))) = (frames, None).
Proof.
  intros complete rawmark k w rc sc frames Hall Hsafe.
  rewrite write_frames_fifo. rewrite map_map.
  rewrite (map_ext (fun x => concat (encodes_of k x)) (@concat N) (encodes_of_concat k)).
  apply read_all_spec; auto. apply shape_of_nonempty.
Qed.

Lemma truncated_lemma : forall complete k rc sc frames t,
  Forall (conforms complete (shape_of k)) frames ->
  read_all complete (rawmark_of k) (shape_of k) rc sc
    (firstn t (concat (map (@concat N) frames)))
  = (firstn (fst (whole t frames)) frames, if snd (whole t frames) then None else Some EEof).
Proof.
  intros complete k rc sc frames t Hall. unfold read_all.
  apply read_frames_cut; auto.
  - apply shape_of_nonempty.
  - left. destruct k; reflexivity.
  - rewrite firstn_length.
    pose proof (whole_le complete (shape_of k) frames t (shape_of_nonempty k) Hall). lia.
Qed.

(* the present code: both codecs read everything through the Decoder *)
Lemma frames_now_lemma : forall complete k w rc sc frames,
  Forall (conforms complete (shape_of k)) frames ->
  read_all complete (rawmark_of k) (shape_of k) rc sc
    (fifo (write_frames w (map (encodes_of k) frames))) = (frames, None).
Proof.
  intros. apply frames_lemma; auto. left. destruct k; reflexivity.
Qed.

(* ---------------- refutation of the raw descriptor read ---------------- *)

(* a toy self-delimiting code: one length byte, then that many bytes *)
Definition toy_complete (acc : list N) : bool :=
  match acc with [] => false | l :: t => N.eqb (N.of_nat (length t)) l end.

Definition toy_frame (x : N) : list (list N) := [[fia]; [0%N]; [1%N; x]; [0%N]; [0%N]].

Lemma toy_conforms : forall x, conforms toy_complete (shape_of SpecRpc) (toy_frame x).
Proof.
  intros x. unfold conforms, shape_of, toy_frame.
  assert (C0 : codeword toy_complete [0%N]).
  { split; [discriminate|]. split; [reflexivity|].
    intros p s H Hp Hs. destruct p as [|a [|b p]]; [congruence| |discriminate].
    cbn in H. injection H as _ H. subst s. congruence. }
  assert (C1 : codeword toy_complete [1%N; x]).
  { split; [discriminate|]. split; [reflexivity|].
    intros p s H Hp Hs. destruct p as [|a [|b [|c p]]]; [congruence| | |discriminate].
    - cbn in H. injection H as Ha _. subst a. reflexivity.
    - cbn in H. injection H as _ _ H. subst s. congruence. }
  constructor; [reflexivity|]. constructor; [exact C0|]. constructor; [exact C1|].
  constructor; [exact C0|]. constructor; [exact C0|]. constructor.
Qed.

Lemma raw_refuted_lemma :
  exists (frames : list (list (list N))) (rc : nat) (sc : list nat),
    Forall (conforms toy_complete (shape_of SpecRpc)) frames /\ 0 < rc /\
    read_all toy_complete true (shape_of SpecRpc) rc sc
      (fifo (write_frames 0 (map (encodes_of SpecRpc) frames)))
    = (firstn 1 frames, Some EEof).
Proof.
  exists [toy_frame 7%N; toy_frame 9%N], 64, [].
  split; [constructor; [apply toy_conforms|constructor; [apply toy_conforms|constructor]]|]. split; [lia|]. vm_compute. reflexivity.
Qed.

(* ---------------- sequence matching ---------------- *)

Lemma decode_all_map : forall (X : Type) (enc : X -> list (list N)) dec (l : list X),
  (forall x, dec (enc x) = Some x) -> decode_all dec (map enc l) = l.
Proof.
  intros X enc dec l H. unfold decode_all. induction l as [|x l IH]; [reflexivity|].
  cbn [map flat_map]. rewrite H. cbn [app]. now rewrite IH.
Qed.

Section Matching.
  Variables A R E : Type.
  Variable f : A -> R + E.

  Notation response := (nat * (R + E))%type.

  Lemma existsb_eqb_In : forall s l, existsb (Nat.eqb s) l = true <-> In s l.
  Proof.
    intros s l. rewrite existsb_exists. split.
    - intros (x & Hx & He). apply Nat.eqb_eq in He. now subst.
    - intros H. exists s. split; [exact H|apply Nat.eqb_refl].
  Qed.

  Lemma filter_neq_In : forall s x l,
    In x (filter (fun y => negb (Nat.eqb y s)) l) <-> In x l /\ x <> s.
  Proof.
    intros. rewrite filter_In. split; intros [H1 H2]; split; auto.
    - intro. subst. rewrite Nat.eqb_refl in H2. discriminate.
    - apply negb_true_iff. now apply Nat.eqb_neq.
  Qed.

  (* responses with pairwise distinct, still pending sequence numbers are all
     accepted, in order, and exactly their numbers leave the pending set *)
  Lemma run_distinct : forall (resps : list response) (c : client R E),
    NoDup (map fst resps) -> (forall p, In p resps -> In (fst p) (pending c)) ->
    results (fold_left deliver resps c) = results c ++ resps /\
    (forall s, In s (pending (fold_left deliver resps c)) <->
               In s (pending c) /\ ~ In s (map fst resps)).
  Proof.
    induction resps as [|p resps IH]; intros c Hnd Hin.
    - cbn. rewrite app_nil_r. split; [reflexivity|]. intros s. tauto.
    - cbn [fold_left]. cbn [map] in Hnd. inversion Hnd as [|? ? Hnotin Hnd']; subst.
      assert (Hp : In (fst p) (pending c)) by (apply Hin; now left).
      assert (Hd : deliver c p = mkclient (filter (fun s => negb (Nat.eqb s (fst p))) (pending c)) (results c ++ [p])).
      { unfold deliver. apply existsb_eqb_In in Hp. now rewrite Hp. }
      rewrite Hd.
      destruct (IH (mkclient (filter (fun s => negb (Nat.eqb s (fst p))) (pending c)) (results c ++ [p])) Hnd') as [H1 H2].
      + intros q Hq. cbn [pending]. apply filter_neq_In. split; [apply Hin; now right|].
        intro Heq. apply Hnotin. rewrite <- Heq. now apply in_map.
      + split.
        * rewrite H1. cbn [results]. now rewrite <- app_assoc.
        * intros s. rewrite H2. cbn [pending map]. rewrite filter_neq_In. cbn [In]. split.
          -- intros [[Ha Hb] Hc]. split; [exact Ha|]. intros [H|H]; [congruence|auto].
          -- intros [Ha Hb]. split; [split; [exact Ha|]|].
             ++ intro Heq. apply Hb. left. congruence.
             ++ intro Hin'. apply Hb. now right.
  Qed.

  Lemma lookup_In : forall (l : list response) s x,
    NoDup (map fst l) -> In (s, x) l -> lookup s l = Some x.
  Proof.
    induction l as [|[s' y] l IH]; intros s x Hnd Hin; [destruct Hin|].
    cbn [map fst] in Hnd. inversion Hnd as [|? ? Hnotin Hnd']; subst.
    cbn [lookup]. destruct Hin as [Heq|Hin].
    - injection Heq as H1 H2. subst. now rewrite Nat.eqb_refl.
    - destruct (Nat.eqb s s') eqn:Eq.
      + apply Nat.eqb_eq in Eq. subst. exfalso. apply Hnotin.
        change s' with (fst (s', x)). now apply in_map.
      + now apply IH.
  Qed.

  Lemma requests_fst : forall (args : list A), map fst (requests args) = seq 1 (length args).
  Proof.
    intros args. unfold requests. generalize 1. induction args as [|a args IH]; intros n; [reflexivity|].
    cbn [length seq combine map fst]. now rewrite IH.
  Qed.

  Lemma requests_nth : forall (args : list A) i d, i < length args ->
    In (S i, nth i args d) (requests args).
  Proof.
    intros args i d Hi. unfold requests.
    assert (G : forall n, In (n + i, nth i args d) (combine (seq n (length args)) args)).
    { revert i Hi. induction args as [|a args IH]; intros i Hi n; [cbn in Hi; lia|].
      cbn [length seq combine]. destruct i as [|i].
      - left. cbn. f_equal. lia.
      - right. cbn [nth]. replace (n + S i) with (S n + i) by lia. apply IH. cbn in Hi. lia. }
    apply (G 1).
  Qed.

  (* any order of the responses to the issued calls: every call gets its own reply *)
  Lemma matching_lemma : forall (args : list A) (order : list (nat * A)) d,
    Permutation order (requests args) ->
    let c := client_run (length args) (map (serve f) order) in
    pending c = [] /\
    forall i, i < length args -> result_of c (S i) = Some (f (nth i args d)).
  Proof.
    intros args order d Hperm. cbv zeta. unfold client_run.
    assert (Hfst : map fst (map (serve f) order) = map fst order).
    { rewrite map_map. apply map_ext. intros [s a]. reflexivity. }
    assert (Hpf : Permutation (map fst order) (seq 1 (length args))).
    { rewrite <- requests_fst. now apply Permutation_map. }
    assert (Hnd : NoDup (map fst (map (serve f) order))).
    { rewrite Hfst. eapply Permutation_NoDup; [apply Permutation_sym; exact Hpf|apply seq_NoDup]. }
    destruct (run_distinct (map (serve f) order) (start (length args)) Hnd) as [H1 H2].
    { intros p Hp. cbn [start pending]. eapply Permutation_in; [exact Hpf|].
      rewrite <- Hfst. now apply in_map. }
    split.
    - destruct (pending (fold_left deliver (map (serve f) order) (start (length args)))) as [|s l] eqn:Ep; [reflexivity|].
      exfalso. assert (Hs : In s (s :: l)) by now left. apply H2 in Hs. destruct Hs as [Ha Hb].
      apply Hb. rewrite Hfst. eapply Permutation_in; [apply Permutation_sym; exact Hpf|exact Ha].
    - intros i Hi. unfold result_of. rewrite H1. cbn [start results app].
      apply lookup_In; [exact Hnd|].
      change (S i, f (nth i args d)) with (serve f (S i, nth i args d)).
      apply in_map. eapply Permutation_in; [apply Permutation_sym; exact Hperm|].
      now apply requests_nth.
  Qed.
End Matching.

(* ---------------- requests and replies over the wire ---------------- *)

Section EndToEnd.
  Variables A R E : Type.
  Variable f : A -> R + E.
  Variable complete : list N -> bool.
  Variable k : rpckind.
  (* the typed layer: what a request / response frame looks like on the wire, as
     the units the reading side sees; C11 (self-delimiting) and C01 (round trip) *)
  Variable encQ : nat * A -> list (list N).
  Variable decQ : list (list N) -> option (nat * A).
  Variable encR : nat * (R + E) -> list (list N).
  Variable decR : list (list N) -> option (nat * (R + E)).
  Hypothesis encQ_ok : forall q, conforms complete (shape_of k) (encQ q) /\ decQ (encQ q) = Some q.
  Hypothesis encR_ok : forall p, conforms complete (shape_of k) (encR p) /\ decR (encR p) = Some p.

  Notation server_reads := (server_reads A complete k encQ).
  Notation client_reads := (client_reads A R E f complete k encR).

  Lemma server_reads_lemma : forall w rc sc args,
    snd (server_reads w rc sc args) = None /\
    decode_all decQ (fst (server_reads w rc sc args)) = requests args.
  Proof.
    intros. unfold server_reads, wire_of. rewrite frames_now_lemma.
    - cbn [fst snd]. split; [reflexivity|]. apply decode_all_map. intros q. apply encQ_ok.
    - apply Forall_forall. intros fr Hfr. apply in_map_iff in Hfr. destruct Hfr as (q & <- & _). apply encQ_ok.
  Qed.

  Lemma reply_lemma : forall (args : list A) (d : A) w1 rc1 sc1 w2 rc2 sc2 (order : list (nat * A)),
    Permutation order (decode_all decQ (fst (server_reads w1 rc1 sc1 args))) ->
    let c := client_run (length args) (decode_all decR (fst (client_reads w2 rc2 sc2 order))) in
    snd (server_reads w1 rc1 sc1 args) = None /\
    snd (client_reads w2 rc2 sc2 order) = None /\
    pending c = [] /\
    forall i, i < length args -> result_of c (S i) = Some (f (nth i args d)).
  Proof.
    intros args d w1 rc1 sc1 w2 rc2 sc2 order Hperm. cbv zeta.
    destruct (server_reads_lemma w1 rc1 sc1 args) as [Hs1 Hs2]. rewrite Hs2 in Hperm.
    assert (Hc : client_reads w2 rc2 sc2 order = (map encR (map (serve f) order), None)).
    { unfold client_reads, wire_of. apply frames_now_lemma.
      apply Forall_forall. intros fr Hfr. apply in_map_iff in Hfr. destruct Hfr as (q & <- & _). apply encR_ok. }
    rewrite Hc. cbn [fst snd].
    rewrite decode_all_map by (intros p; apply encR_ok).
    destruct (matching_lemma A R E f args order d Hperm) as [Hp Hr].
    repeat apply conj; auto.
  Qed.

  Lemma reply_error_lemma : forall (args : list A) (d : A) w1 rc1 sc1 w2 rc2 sc2 (order : list (nat * A)) i e,
    Permutation order (decode_all decQ (fst (server_reads w1 rc1 sc1 args))) ->
    i < length args -> f (nth i args d) = inr e ->
    result_of (client_run (length args) (decode_all decR (fst (client_reads w2 rc2 sc2 order)))) (S i)
    = Some (inr e).
  Proof.
    intros args d w1 rc1 sc1 w2 rc2 sc2 order i e Hperm Hi He.
    destruct (reply_lemma args d w1 rc1 sc1 w2 rc2 sc2 order Hperm) as (_ & _ & _ & H).
    rewrite (H i Hi). now rewrite He.
  Qed.
End EndToEnd.

(* ---------------- Close ---------------- *)

Lemma close_idem_lemma : forall c,
  fst (close (fst (close c))) = fst (close c) /\
  snd (close (fst (close c))) = snd (close c).
Proof.
  intros c. unfold close. destruct (closed c) eqn:Ec.
  - cbn [fst snd]. rewrite Ec. auto.
  - cbn [fst snd closed clserr]. auto.
Qed.

Lemma close_once_lemma : forall c, closed c = false ->
  conn_closes (fst (close (fst (close c)))) = S (conn_closes c) /\ closed (fst (close c)) = true.
Proof.
  intros c Hc. unfold close. rewrite Hc. cbn. auto.
Qed.

Lemma after_close_lemma : forall c bytes,
  let c1 := fst (close c) in
  snd (cwrite c1 bytes) <> ROk /\ wire (fst (cwrite c1 bytes)) = wire c /\
  cread_allowed c1 <> ROk /\ fst (cwrite c1 bytes) = c1.
Proof.
  intros c bytes. cbv zeta. unfold close.
  destruct (closed c) eqn:Ec; cbn [fst]; unfold cwrite, cread_allowed, ready.
  - rewrite Ec. destruct (clserr c); cbn; repeat apply conj; auto; discriminate.
  - cbn [closed clserr]. destruct (conn_close_fails c); cbn; repeat apply conj; auto; discriminate.
Qed.

Lemma open_write_lemma : forall c bytes, closed c = false ->
  snd (cwrite c bytes) = ROk /\ wire (fst (cwrite c bytes)) = wire c ++ bytes.
Proof.
  intros c bytes Hc. unfold cwrite, ready. rewrite Hc. cbn. auto.
Qed.

(* ---------------- the hypotheses of the end-to-end theorem are satisfiable ---------------- *)

Lemma toy_codeword : forall l t, N.of_nat (length t) = l -> codeword toy_complete (l :: t).
Proof.
  intros l t H. split; [discriminate|]. split.
  - cbn. rewrite H. apply N.eqb_refl.
  - intros p s Hps Hp Hs. destruct p as [|a p]; [congruence|].
    cbn in Hps. injection Hps as Ha Ht. subst a. cbn.
    apply N.eqb_neq. intro Heq. rewrite <- H in Heq. apply Nat2N.inj in Heq.
    rewrite Ht, app_length in Heq. destruct s; [congruence|cbn in Heq; lia].
Qed.

Definition toy_encQ (q : nat * N) : list (list N) := [[1%N; N.of_nat (fst q)]; [1%N; snd q]].
Definition toy_decQ (fr : list (list N)) : option (nat * N) :=
  match fr with [[_; s]; [_; a]] => Some (N.to_nat s, a) | _ => None end.
Definition toy_encR (p : nat * (N + N)) : list (list N) :=
  [[1%N; N.of_nat (fst p)]; match snd p with inl r => [2%N; 0%N; r] | inr e => [2%N; 1%N; e] end].
Definition toy_decR (fr : list (list N)) : option (nat * (N + N)) :=
  match fr with
  | [[_; s]; [_; tag; x]] => Some (N.to_nat s, if N.eqb tag 0 then inl x else inr x)
  | _ => None
  end.

Lemma toy_typed_layer :
  (forall q, conforms toy_complete (shape_of GoRpc) (toy_encQ q) /\ toy_decQ (toy_encQ q) = Some q) /\
  (forall p, conforms toy_complete (shape_of GoRpc) (toy_encR p) /\ toy_decR (toy_encR p) = Some p).
Proof.
  split.
  - intros [s a]. split.
    + unfold conforms, toy_encQ, shape_of. cbn [fst snd].
      constructor; [apply toy_codeword; reflexivity|]. constructor; [apply toy_codeword; reflexivity|constructor].
    + cbn. now rewrite Nat2N.id.
  - intros [s [r|e]]; (split;
      [unfold conforms, toy_encR, shape_of; cbn [fst snd];
       constructor; [apply toy_codeword; reflexivity|]; constructor; [apply toy_codeword; reflexivity|constructor]
      |cbn; now rewrite Nat2N.id]).
Qed.

(* ---------------- decoder depth over the life of a connection ---------------- *)

Lemma dec_values_balanced : forall maxd ns d d', dec_values maxd d ns = DOk d' -> d' = d.
Proof.
  intros maxd ns. induction ns as [|n ns IH]; intros d d' H; cbn in H.
  - now injection H.
  - unfold dec_value in H. destruct ((0 <? n) && (maxd <=? d + n)); [discriminate|]. now apply IH.
Qed.

(* a message leaves the decoder's depth where it found it *)
Lemma depth_frame_lemma : forall k maxd d ns d',
  dec_frame (mark_leaks_of k) k maxd d ns = DOk d' -> d' = d.
Proof.
  intros [|] maxd d ns d' H; cbn in H; now apply dec_values_balanced in H.
Qed.

Lemma dec_values_ok : forall maxd ns, Forall (fun n => n < maxd) ns -> dec_values maxd 0 ns = DOk 0.
Proof.
  intros maxd ns H. induction H as [|n ns Hn H IH]; [reflexivity|].
  cbn [dec_values]. unfold dec_value. cbn [Nat.add].
  assert (E : (maxd <=? n) = false) by (apply Nat.leb_gt; exact Hn).
  rewrite E, andb_false_r. exact IH.
Qed.

(* any number of messages whose values nest less than MaxDepth deep: never a depth error *)
Lemma depth_conn_lemma : forall k maxd frames i,
  Forall (Forall (fun n => n < maxd)) frames ->
  dec_conn (mark_leaks_of k) k maxd 0 frames i = None.
Proof.
  intros k maxd frames. induction frames as [|ns frames IH]; intros i H; [reflexivity|].
  inversion H as [|? ? Hns Hfr]; subst. cbn [dec_conn].
  assert (E : dec_frame (mark_leaks_of k) k maxd 0 ns = DOk 0).
  { destruct k; cbn; now apply dec_values_ok. }
  rewrite E. now apply IH.
Qed.

(* the leaking variant: scalars only, and still the connection dies after MaxDepth - 1 messages *)
Lemma depth_leak_run : forall maxd m d i, d + m = maxd -> 0 < m ->
  dec_conn true SpecRpc maxd d (repeat [0; 0; 0; 0] m) i = Some (i + (m - 1)).
Proof.
  intros maxd m. induction m as [|m IH]; intros d i Hd Hm; [lia|].
  cbn [repeat dec_conn dec_frame dec_mark].
  destruct (maxd <=? S d) eqn:E.
  - apply Nat.leb_le in E. assert (m = 0) by lia. subst m. f_equal. lia.
  - apply Nat.leb_gt in E. cbn [dec_values]. unfold dec_value. cbn [Nat.ltb Nat.leb andb].
    rewrite (IH (S d) (S i)) by lia. f_equal. lia.
Qed.

Lemma depth_leak_refuted_lemma : forall maxd, 0 < maxd ->
  dec_conn true SpecRpc maxd 0 (repeat [0; 0; 0; 0] maxd) 0 = Some (maxd - 1).
Proof. intros maxd H. now rewrite (depth_leak_run maxd maxd 0 0) by lia. Qed.

(* ---------------- discarded bodies ---------------- *)

Lemma discard_lemma : forall (msgs : list (bodymode * bodyinfo)) i,
  Forall (fun mb => fst mb = BTyped -> fits_dest (snd mb) = true) msgs ->
  conn_bodies discard_via_iface msgs i = None.
Proof.
  induction msgs as [|[m b] msgs IH]; intros i H; [reflexivity|].
  inversion H as [|? ? Hmb Hrest]; subst. cbn [conn_bodies].
  assert (E : body_ok discard_via_iface m b = true).
  { destruct m; cbn; [apply Hmb; reflexivity|reflexivity]. }
  rewrite E. now apply IH.
Qed.

Lemma discard_refuted_lemma :
  exists msgs : list (bodymode * bodyinfo),
    Forall (fun mb => fst mb = BTyped -> fits_dest (snd mb) = true) msgs /\
    conn_bodies true msgs 0 = Some 1.
Proof.
  exists [(BTyped, mkbody true true); (BDiscard, mkbody true false); (BTyped, mkbody true true)].
  split; [repeat constructor; cbn; intros; try reflexivity; discriminate|reflexivity].
Qed.

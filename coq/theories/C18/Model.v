(* C18 — executable model of RPC framing over one connection (codec/rpc.go,
   codec/msgpack.base.go:193-281) and of net/rpc's sequence-number matching.

   Hand written; no proofs here.  What is modelled:

   * the connection is a byte FIFO; a raw Read returns between 1 and
     min(requested, chunk) of the bytes in flight, where the successive chunk
     sizes are an arbitrary schedule (fragmentation: small chunks; coalescing:
     a chunk that spans several frames).  A Read on an empty FIFO is EOF (unit
     stream) / would block (live connection);
   * rpcCodec owns ONE Decoder bound to the connection (rpc.go:66).  With
     ReaderBufferSize > 0 its ioDecReader fills a buffer with whatever one raw
     Read returns (reader.go fillbuf: "once you have some data, move on") and
     serves the following bytes from it: bytes read ahead stay in [held] and are
     delivered to the next read of the SAME decoder.  With ReaderBufferSize = 0
     it never draws more than it was asked for ([held] stays empty);
   * a value is read by pulling bytes until the bytes pulled form a complete
     encoding; [complete] recognises the code words.  That one value's encoding
     is self-delimiting is property C11, a hypothesis here ([codeword]);
   * GoRpc frame = Encode(header) Encode(body), each followed by ' ' for json
     (rpc.go:88-101); the unit here is the value together with that space (the
     json decoder may leave the space and skip it as leading white space of the
     next value: the same decoder, the same stream);
     MsgpackSpecRpc frame = ONE Encode of [type, msgid, method|error, params]
     (msgpack.base.go:198-222) that is read back as the array descriptor 0x94,
     three Decodes (parseCustomHeader) and one Decode (body);
   * [rawmark] = the array descriptor is read from the raw connection (c.r.Read)
     instead of through the Decoder.  This is what parseCustomHeader did before
     fix F18-1; [spec_rawmark] says what the code does now;
   * every Encode ends with a flush (encode.go mustEncode -> e.w.end()), so a
     writer with buffer w hands the bytes of one Encode to the connection as
     pieces of at most w bytes and nothing stays behind; net/rpc holds a mutex
     around WriteRequest / WriteResponse, so frames are appended whole;
   * net/rpc: the client numbers its calls 1,2,.. under that mutex, keeps
     pending[seq], and its single input goroutine completes pending[seq] with
     the body (or the error string) of each response header it reads; the
     server answers in any order;
   * Close / ready (rpc.go:128-153). *)
From Coq Require Import List NArith Arith Bool.
Import ListNotations.

(* ------------------------------------------------------------------ *)
(* connection and reader                                                *)

Record conn := mkconn {
  avail : list N;        (* bytes written and not yet drawn by the reading side *)
  sched : list nat }.    (* chunk sizes of the successive raw Reads; [] = everything in flight *)

(* one raw Read(p) with len p = want >= 1 *)
Definition conn_read (want : nat) (c : conn) : list N * conn :=
  let k := match sched c with [] => length (avail c) | k :: _ => Nat.max 1 k end in
  let n := Nat.min want k in
  (firstn n (avail c), mkconn (skipn n (avail c)) (tl (sched c))).

Record rd := mkrd {
  cn : conn;
  held : list N;         (* z.buf[rc:wc]: drawn from the connection, not yet consumed *)
  rcap : nat }.          (* 0: unbuffered; > 0: room of the read-ahead buffer *)

Definition fill_want (r : rd) : nat := if rcap r =? 0 then 1 else rcap r.

(* the Decoder's next byte *)
Definition next_byte (r : rd) : option (N * rd) :=
  match held r with
  | b :: h => Some (b, mkrd (cn r) h (rcap r))
  | [] =>
      let '(got, c') := conn_read (fill_want r) (cn r) in
      match got with
      | [] => None
      | b :: h => Some (b, mkrd c' h (rcap r))
      end
  end.

(* one byte from the raw connection, around the Decoder (c.r.Read(ba[:])) *)
Definition raw_byte (r : rd) : option (N * rd) :=
  let '(got, c') := conn_read 1 (cn r) in
  match got with
  | b :: _ => Some (b, mkrd c' (held r) (rcap r))
  | [] => None
  end.

Inductive rerr :=
| EEof      (* the connection ended inside a frame *)
| EMark     (* not the expected array descriptor *)
| EFuel.    (* model-internal, unreachable *)

Definition remaining (r : rd) : nat := length (held r) + length (avail (cn r)).
Definition at_end (r : rd) : bool :=
  match held r, avail (cn r) with [], [] => true | _, _ => false end.

Section Framing.
  Variable complete : list N -> bool.

  Fixpoint read_value (fuel : nat) (acc : list N) (r : rd) : (list N * rd) + rerr :=
    match fuel with
    | 0 => inr EFuel
    | S f =>
        match next_byte r with
        | None => inr EEof
        | Some (b, r') =>
            let acc' := acc ++ [b] in
            if complete acc' then inl (acc', r') else read_value f acc' r'
        end
    end.

  Inductive slot := SMark (m : N) | SVal.

  Variable rawmark : bool.

  Definition read_slot (s : slot) (r : rd) : (list N * rd) + rerr :=
    match s with
    | SVal => read_value (S (remaining r)) [] r
    | SMark m =>
        match (if rawmark then raw_byte r else next_byte r) with
        | None => inr EEof
        | Some (b, r') => if N.eqb b m then inl ([b], r') else inr EMark
        end
    end.

  (* ReadXxxHeader then ReadXxxBody; the first error ends the frame *)
  Fixpoint read_frame (shape : list slot) (r : rd) : (list (list N) * rd) + rerr :=
    match shape with
    | [] => inl ([], r)
    | s :: shape' =>
        match read_slot s r with
        | inr e => inr e
        | inl (u, r1) =>
            match read_frame shape' r1 with
            | inr e => inr e
            | inl (us, r2) => inl (u :: us, r2)
            end
        end
    end.

  (* net/rpc's read loop: frames until the first error; the end of the stream
     between two frames is the normal end *)
  Fixpoint read_frames (fuel : nat) (shape : list slot) (r : rd)
    : list (list (list N)) * option rerr :=
    match fuel with
    | 0 => ([], Some EFuel)
    | S f =>
        if at_end r then ([], None)
        else match read_frame shape r with
             | inr e => ([], Some e)
             | inl (fr, r') => let '(frs, e) := read_frames f shape r' in (fr :: frs, e)
             end
    end.

  Definition read_all (shape : list slot) (rc : nat) (sc : list nat) (bytes : list N) :=
    read_frames (S (length bytes)) shape (mkrd (mkconn bytes sc) [] rc).

  (* specification vocabulary.  C11 for one encoding: the bytes are a complete
     value and no non-empty proper prefix of them is *)
  Definition codeword (w : list N) : Prop :=
    w <> [] /\ complete w = true /\
    forall p s, w = p ++ s -> p <> [] -> s <> [] -> complete p = false.

  Definition unit_ok (s : slot) (u : list N) : Prop :=
    match s with SMark m => u = [m] | SVal => codeword u end.

  (* a frame, as the list of units the reading side sees, fits the codec's shape *)
  Definition conforms (shape : list slot) (fr : list (list N)) : Prop := Forall2 unit_ok shape fr.
End Framing.


(* ------------------------------------------------------------------ *)
(* writing side                                                         *)

(* the Write calls one Encode makes with a writer buffer of w bytes: full
   buffers, then the flush at the end of Encode (w = 0: one Write) *)
Fixpoint pieces (fuel : nat) (w : nat) (bs : list N) : list (list N) :=
  match fuel with
  | 0 => [bs]
  | S f =>
      match bs with
      | [] => []
      | _ => if (w =? 0) || (length bs <=? w) then [bs]
             else firstn w bs :: pieces f w (skipn w bs)
      end
  end.

Definition encode_calls (w : nat) (unit : list N) : list (list N) := pieces (length unit) w unit.

(* a frame is the list of the byte strings of its Encode calls *)
Definition write_frame (w : nat) (frame : list (list N)) : list (list N) :=
  flat_map (encode_calls w) frame.

(* frames are appended whole, in the order the mutex was taken *)
Definition write_frames (w : nat) (frames : list (list (list N))) : list (list N) :=
  flat_map (write_frame w) frames.

Definition fifo (writes : list (list N)) : list N := concat writes.

(* a stream cut after t bytes: how many leading frames are whole, and whether the
   cut falls between two frames *)
Fixpoint whole (t : nat) (frames : list (list (list N))) : nat * bool :=
  match frames with
  | [] => (0, true)
  | fr :: fs =>
      let l := length (concat fr) in
      if l <=? t then let '(n, b) := whole (t - l) fs in (S n, b)
      else (0, t =? 0)
  end.

(* ------------------------------------------------------------------ *)
(* the two codecs                                                       *)

Inductive rpckind := GoRpc | SpecRpc.

Definition fia : N := 148.                     (* 0x94, four item array *)

(* how parseCustomHeader reads the array descriptor today (after fix F18-1:
   through the Decoder) *)
Definition spec_rawmark : bool := false.

Definition shape_of (k : rpckind) : list slot :=
  match k with
  | GoRpc => [SVal; SVal]
  | SpecRpc => [SMark fia; SVal; SVal; SVal; SVal]
  end.

Definition rawmark_of (k : rpckind) : bool :=
  match k with GoRpc => false | SpecRpc => spec_rawmark end.

(* what the writing side's Encode calls are, given the units the reader sees *)
Definition encodes_of (k : rpckind) (units : list (list N)) : list (list N) :=
  match k with
  | GoRpc => units                     (* Encode(header), Encode(body) *)
  | SpecRpc => [concat units]          (* one Encode of the four item array *)
  end.

(* ------------------------------------------------------------------ *)
(* net/rpc sequence matching                                            *)

Section Matching.
  Variables A R E : Type.
  Variable f : A -> R + E.               (* the service: reply or error *)

  Definition request : Type := nat * A.           (* Seq, args *)
  Definition response : Type := nat * (R + E).    (* Seq, reply | error string *)

  (* client: Go(args) numbers the calls 1, 2, ... in the order it takes the mutex *)
  Definition requests (args : list A) : list request :=
    combine (seq 1 (length args)) args.

  Definition serve (q : request) : response := (fst q, f (snd q)).

  Record client := mkclient {
    pending : list nat;                    (* client.pending keys *)
    results : list response }.             (* completed calls, in completion order *)

  Definition start (n : nat) : client := mkclient (seq 1 n) [].

  (* client.input: one response header; call := pending[seq]; delete(pending, seq);
     no such call => read and discard the body *)
  Definition deliver (c : client) (p : response) : client :=
    if existsb (Nat.eqb (fst p)) (pending c)
    then mkclient (filter (fun s => negb (Nat.eqb s (fst p))) (pending c)) (results c ++ [p])
    else c.

  Definition client_run (n : nat) (resps : list response) : client :=
    fold_left deliver resps (start n).

  Fixpoint lookup (s : nat) (l : list response) : option (R + E) :=
    match l with
    | [] => None
    | (s', x) :: l' => if Nat.eqb s s' then Some x else lookup s l'
    end.

  (* what call number s (1-based) returned *)
  Definition result_of (c : client) (s : nat) : option (R + E) := lookup s (results c).
End Matching.

Arguments mkclient {R E}.
Arguments pending {R E}.
Arguments results {R E}.
Arguments deliver {R E}.
Arguments client_run {R E}.
Arguments result_of {R E}.
Arguments lookup {R E}.
Arguments start {R E}.
Arguments serve {A R E}.
Arguments requests {A}.

(* ------------------------------------------------------------------ *)
(* Close / ready (rpc.go:128-153)                                       *)

Record codec := mkcodec {
  closed : bool;               (* cls.closed *)
  clserr : bool;               (* cls.err <> nil: what conn.Close() returned *)
  conn_closes : nat;           (* how many times conn.Close() was called *)
  conn_close_fails : bool;     (* whether conn.Close() returns an error *)
  wire : list N }.             (* bytes this codec has put on the connection *)

Inductive opres := ROk | RErrClosed | RErrConn.

(* Close: if !cls.closed { cls = {true, c.c.Close()} }; return cls.err *)
Definition close (c : codec) : codec * opres :=
  if closed c
  then (c, if clserr c then RErrConn else ROk)
  else (mkcodec true (conn_close_fails c) (S (conn_closes c)) (conn_close_fails c) (wire c),
        if conn_close_fails c then RErrConn else ROk).

(* ready: closed => cls.err, or errRpcIsClosed when that is nil *)
Definition ready (c : codec) : opres :=
  if closed c then (if clserr c then RErrConn else RErrClosed) else ROk.

(* write(obj...) / read(obj): nothing touches the connection unless ready *)
Definition cwrite (c : codec) (bytes : list N) : codec * opres :=
  match ready c with
  | ROk => (mkcodec (closed c) (clserr c) (conn_closes c) (conn_close_fails c) (wire c ++ bytes), ROk)
  | e => (c, e)
  end.

Definition cread_allowed (c : codec) : opres := ready c.

(* the frames the typed layer could decode (C01 supplies dec (enc x) = Some x) *)
Definition decode_all {X : Type} (dec : list (list N) -> option X)
  (frames : list (list (list N))) : list X :=
  flat_map (fun fr => match dec fr with Some x => [x] | None => [] end) frames.

(* requests and replies over the wire: the typed layer is a pair of frame
   encoders/decoders (units as the reading side sees them) *)
Section Wire.
  Variables A R E : Type.
  Variable f : A -> R + E.
  Variable complete : list N -> bool.
  Variable k : rpckind.
  Variable encQ : nat * A -> list (list N).
  Variable encR : nat * (R + E) -> list (list N).

  Definition wire_of (w : nat) (frames : list (list (list N))) : list N :=
    fifo (write_frames w (map (encodes_of k) frames)).

  (* what the server's codec returns for the requests of [args], written by a
     client with writer buffer w, read with reader buffer rc over schedule sc *)
  Definition server_reads (w rc : nat) (sc : list nat) (args : list A) :=
    read_all complete (rawmark_of k) (shape_of k) rc sc (wire_of w (map encQ (requests args))).

  (* what the client's codec returns when the server answers in [order] *)
  Definition client_reads (w rc : nat) (sc : list nat) (order : list (nat * A)) :=
    read_all complete (rawmark_of k) (shape_of k) rc sc (wire_of w (map encR (map (serve f) order))).
End Wire.

(* ------------------------------------------------------------------ *)
(* decoder depth over the life of a connection                          *)

(* The Decoder of an rpcCodec lives as long as the connection and Decode does not
   reset d.depth (only Reset does).  depthIncr (decode.base.go:745): d.depth++, error
   when d.depth >= maxdepth; every mapStart/arrayStart inside Decode is matched by its
   mapEnd/arrayEnd (depthDecr).  Decoder.readArrayStart, used only by
   parseCustomHeader, calls the driver's ReadArrayStart directly: no depth change
   ([spec_mark_leaks] = false).  [leak] = it goes through arrayStart (depthIncr) with
   no matching arrayEnd: the depth grows by one per MESSAGE. *)
Inductive dres := DOk (depth : nat) | DErr.

(* one Decode of a value whose containers nest n deep, starting at depth d *)
Definition dec_value (maxd d n : nat) : dres :=
  if (0 <? n) && (maxd <=? d + n) then DErr else DOk d.

Definition dec_mark (leak : bool) (maxd d : nat) : dres :=
  if leak then (if maxd <=? S d then DErr else DOk (S d)) else DOk d.

Fixpoint dec_values (maxd d : nat) (ns : list nat) : dres :=
  match ns with
  | [] => DOk d
  | n :: ns' =>
      match dec_value maxd d n with
      | DOk d' => dec_values maxd d' ns'
      | DErr => DErr
      end
  end.

(* one message: the nesting of each value slot, in reading order *)
Definition dec_frame (leak : bool) (k : rpckind) (maxd d : nat) (ns : list nat) : dres :=
  match k with
  | GoRpc => dec_values maxd d ns
  | SpecRpc =>
      match dec_mark leak maxd d with
      | DOk d' => dec_values maxd d' ns
      | DErr => DErr
      end
  end.

(* all the messages one codec reads on a connection: index of the first message that
   fails with "maximum decoding depth exceeded", if any *)
Fixpoint dec_conn (leak : bool) (k : rpckind) (maxd d : nat) (frames : list (list nat)) (i : nat)
  : option nat :=
  match frames with
  | [] => None
  | ns :: frames' =>
      match dec_frame leak k maxd d ns with
      | DOk d' => dec_conn leak k maxd d' frames' (S i)
      | DErr => Some i
      end
  end.

Definition spec_mark_leaks : bool := false.
Definition mark_leaks_of (k : rpckind) : bool :=
  match k with GoRpc => false | SpecRpc => spec_mark_leaks end.

(* ------------------------------------------------------------------ *)
(* discarded bodies and the sticky Decoder                               *)

(* net/rpc discards a body with ReadRequestBody(nil) / ReadResponseBody(nil) (unknown
   method or service, error reply, reply to a call no longer pending).  rpcCodec.read(nil)
   SWALLOWS the value (rpc.go:114, d.swallow = the driver's nextValueBytes): in the framing
   model that is the same [read_value] as a typed read — it consumes exactly the code word,
   whatever the value's shape — and nothing is built, so it cannot fail on a complete value.
   A typed Decode can fail (the value does not fit its destination) and then the Decoder is
   unusable for the rest of the connection (sticky d.err).
   [via_iface] = the discard is a Decode into a throw-away interface{} instead: it fails on
   bodies that are fine for their own type but are no interface{} value (a map keyed by a
   struct or an array: the naked key is unhashable). *)
Inductive bodymode := BTyped | BDiscard.

Record bodyinfo := mkbody {
  fits_dest : bool;      (* the value decodes into the type its method declares *)
  fits_iface : bool }.   (* the value decodes into interface{} under the Handle's options *)

Definition body_ok (via_iface : bool) (m : bodymode) (b : bodyinfo) : bool :=
  match m with
  | BTyped => fits_dest b
  | BDiscard => if via_iface then fits_iface b else true
  end.

(* the messages one codec reads: index of the first one whose body read fails (after which
   every read on the connection fails) *)
Fixpoint conn_bodies (via_iface : bool) (msgs : list (bodymode * bodyinfo)) (i : nat) : option nat :=
  match msgs with
  | [] => None
  | (m, b) :: msgs' => if body_ok via_iface m b then conn_bodies via_iface msgs' (S i) else Some i
  end.

Definition discard_via_iface : bool := false.

(* Base/FBits — IEEE-754 binary32/binary64 values as bit patterns (Z), by plain
   integer arithmetic (no reals): fields, ordering, negation, the exact value
   scaled by 2^1074 (every finite float32/float64 is an integer multiple of
   2^-1074), and the conversions Go performs in hardware: float32->float64
   (exact), float64->float32 and integer->float64 (round to nearest even),
   float64->integer (truncation).  NaN payloads are not tracked: comparisons
   of results should canonicalise NaNs. *)
From Coq Require Import ZArith Lia Bool.
Local Open Scope Z_scope.

(* ---- binary64 ---- *)
Definition f64_sign (b : Z) : Z := b / 2 ^ 63.
Definition f64_abs (b : Z) : Z := b mod 2 ^ 63.
Definition f64_bexp (b : Z) : Z := (b / 2 ^ 52) mod 2048.
Definition f64_mant (b : Z) : Z := b mod 2 ^ 52.
Definition f64_inf : Z := 2047 * 2 ^ 52.
Definition f64_isnan (b : Z) : bool := f64_inf <? f64_abs b.
Definition f64_isinf (b : Z) : bool := f64_abs b =? f64_inf.
Definition f64_finite (b : Z) : bool := f64_abs b <? f64_inf.
Definition f64_key (b : Z) : Z := if b <? 2 ^ 63 then b else - (b - 2 ^ 63).
Definition f64_lt (a b : Z) : bool := negb (f64_isnan a) && negb (f64_isnan b) && (f64_key a <? f64_key b).
Definition f64_le (a b : Z) : bool := negb (f64_isnan a) && negb (f64_isnan b) && (f64_key a <=? f64_key b).
Definition f64_eq (a b : Z) : bool := negb (f64_isnan a) && negb (f64_isnan b) && (f64_key a =? f64_key b).
Definition f64_neg (b : Z) : Z := if b <? 2 ^ 63 then b + 2 ^ 63 else b - 2 ^ 63.

(* magnitude as M * 2^E *)
Definition f64_M (b : Z) : Z := if f64_bexp b =? 0 then f64_mant b else 2 ^ 52 + f64_mant b.
Definition f64_E (b : Z) : Z := if f64_bexp b =? 0 then -1074 else f64_bexp b - 1075.
(* value * 2^1074, for finite b *)
Definition f64_scaled (b : Z) : option Z :=
  if f64_finite b
  then Some ((if f64_sign b =? 0 then 1 else -1) * (f64_M b * 2 ^ (f64_E b + 1074)))
  else None.

(* ---- binary32 ---- *)
Definition f32_sign (b : Z) : Z := b / 2 ^ 31.
Definition f32_abs (b : Z) : Z := b mod 2 ^ 31.
Definition f32_bexp (b : Z) : Z := (b / 2 ^ 23) mod 256.
Definition f32_mant (b : Z) : Z := b mod 2 ^ 23.
Definition f32_inf : Z := 255 * 2 ^ 23.
Definition f32_isnan (b : Z) : bool := f32_inf <? f32_abs b.
Definition f32_isinf (b : Z) : bool := f32_abs b =? f32_inf.
Definition f32_finite (b : Z) : bool := f32_abs b <? f32_inf.
Definition f32_key (b : Z) : Z := if b <? 2 ^ 31 then b else - (b - 2 ^ 31).
Definition f32_lt (a b : Z) : bool := negb (f32_isnan a) && negb (f32_isnan b) && (f32_key a <? f32_key b).
Definition f32_le (a b : Z) : bool := negb (f32_isnan a) && negb (f32_isnan b) && (f32_key a <=? f32_key b).
Definition f32_eq (a b : Z) : bool := negb (f32_isnan a) && negb (f32_isnan b) && (f32_key a =? f32_key b).
Definition f32_neg (b : Z) : Z := if b <? 2 ^ 31 then b + 2 ^ 31 else b - 2 ^ 31.
Definition f32_M (b : Z) : Z := if f32_bexp b =? 0 then f32_mant b else 2 ^ 23 + f32_mant b.
Definition f32_E (b : Z) : Z := if f32_bexp b =? 0 then -149 else f32_bexp b - 150.
Definition f32_scaled (b : Z) : option Z :=
  if f32_finite b
  then Some ((if f32_sign b =? 0 then 1 else -1) * (f32_M b * 2 ^ (f32_E b + 1074)))
  else None.

(* ---- rounding M * 2^E (M >= 0) to a format with p significand bits (implicit
   bit included) and least exponent emin; the result is the magnitude's bit
   pattern (biased exponent and fraction), which may reach or exceed the
   infinity pattern on overflow ---- *)
Definition rne_shift (M s : Z) : Z :=
  let q := M / 2 ^ s in
  let r := M mod 2 ^ s in
  let h := 2 ^ (s - 1) in
  if r <? h then q else if h <? r then q + 1 else if Z.even q then q else q + 1.

Definition fround (p emin M E : Z) : Z :=
  if M =? 0 then 0 else
  let L := Z.log2 M in
  let q := Z.max (L + E - (p - 1)) emin in
  let s := q - E in
  let m := if s <=? 0 then M * 2 ^ (- s) else rne_shift M s in
  (q - emin) * 2 ^ (p - 1) + m.

(* float64(float32) : exact *)
Definition f32_to_f64 (b : Z) : Z :=
  let s := f32_sign b * 2 ^ 63 in
  if f32_isnan b then s + f64_inf + 2 ^ 51 + f32_mant b * 2 ^ 29 mod 2 ^ 51
  else if f32_isinf b then s + f64_inf
  else s + fround 53 (-1074) (f32_M b) (f32_E b).

(* float32(float64) : round to nearest even, overflow to infinity *)
Definition f64_to_f32 (b : Z) : Z :=
  let s := f64_sign b * 2 ^ 31 in
  if f64_isnan b then s + f32_inf + 2 ^ 22 + (f64_mant b / 2 ^ 29) mod 2 ^ 22
  else if f64_isinf b then s + f32_inf
  else let r := fround 24 (-149) (f64_M b) (f64_E b) in
       s + (if f32_inf <=? r then f32_inf else r).

(* float64(intN/uintN) : round to nearest even (never overflows for |n| < 2^64) *)
Definition f64_of_int (n : Z) : Z :=
  (if n <? 0 then 2 ^ 63 else 0) + fround 53 (-1074) (Z.abs n) 0.

(* truncation of a finite value towards zero *)
Definition f64_trunc (b : Z) : Z :=
  let mag := if 0 <=? f64_E b then f64_M b * 2 ^ f64_E b else f64_M b / 2 ^ (- f64_E b) in
  if f64_sign b =? 0 then mag else - mag.

(* int64(f) / uint64(f) on amd64: out of range (and NaN) give the "integer
   indefinite" value; the codec only converts after a range/fraction check *)
Definition f64_to_i64 (b : Z) : Z :=
  if f64_finite b && (- 2 ^ 63 <=? f64_trunc b) && (f64_trunc b <? 2 ^ 63) then f64_trunc b else - 2 ^ 63.
Definition f64_to_u64 (b : Z) : Z :=
  if f64_finite b && (0 <=? f64_trunc b) && (f64_trunc b <? 2 ^ 64) then f64_trunc b else 2 ^ 63.

(* Base/Word — fixed-width machine integers as mathematical integers.

   A Go value of type uintW is the Z in [0, 2^W); a value of type intW is the Z
   in [-2^(W-1), 2^(W-1)).  Every arithmetic result the translator emits
   (Gen/Leaf.v) is wrapped back into its type's range by [wrapu]/[wraps]
   (reduction mod 2^W; two's-complement reinterpretation for signed types).
   int, uint and uintptr are 64 bits wide on the pinned target (amd64). *)
From Coq Require Import ZArith Lia Bool.
Local Open Scope Z_scope.

Definition wrapu (w z : Z) : Z := z mod 2 ^ w.
Definition wraps (w z : Z) : Z := (z + 2 ^ (w - 1)) mod 2 ^ w - 2 ^ (w - 1).

Definition in_u (w z : Z) : Prop := 0 <= z < 2 ^ w.
Definition in_s (w z : Z) : Prop := - 2 ^ (w - 1) <= z < 2 ^ (w - 1).
Definition in_ub (w z : Z) : bool := (0 <=? z) && (z <? 2 ^ w).
Definition in_sb (w z : Z) : bool := (- 2 ^ (w - 1) <=? z) && (z <? 2 ^ (w - 1)).

(* shifts: the count is always non-negative in Go (a negative count panics);
   x << c is the wrapped product, x >> c is floor division (logical for
   unsigned operands, arithmetic for signed ones — Z.shiftr is both) *)
Definition shl (x c : Z) : Z := Z.shiftl x c.
Definition shr (x c : Z) : Z := Z.shiftr x c.

(* Go's / and % truncate towards zero *)
Definition quot (a b : Z) : Z := Z.quot a b.
Definition rem (a b : Z) : Z := Z.rem a b.

Definition b2z (b : bool) : Z := if b then 1 else 0.

(* big-endian value of a byte list *)
Fixpoint be_val (acc : Z) (l : list Z) : Z :=
  match l with
  | nil => acc
  | cons x r => be_val (acc * 256 + x) r
  end.

(* ---- lemmas ---- *)

Lemma wrapu_range : forall w z, 0 <= w -> in_u w (wrapu w z).
Proof.
  intros w z Hw. unfold in_u, wrapu. apply Z.mod_pos_bound. apply Z.pow_pos_nonneg; lia.
Qed.

Lemma wrapu_id : forall w z, in_u w z -> wrapu w z = z.
Proof. intros w z H. unfold wrapu. apply Z.mod_small. exact H. Qed.

Lemma wraps_range : forall w z, 0 < w -> in_s w (wraps w z).
Proof.
  intros w z Hw. unfold in_s, wraps.
  assert (H2 : 2 ^ w = 2 * 2 ^ (w - 1)).
  { replace w with (1 + (w - 1)) at 1 by lia. rewrite Z.pow_add_r by lia. reflexivity. }
  assert (Hp : 0 < 2 ^ (w - 1)) by (apply Z.pow_pos_nonneg; lia).
  pose proof (Z.mod_pos_bound (z + 2 ^ (w - 1)) (2 ^ w) ltac:(lia)). lia.
Qed.

Lemma wraps_id : forall w z, 0 < w -> in_s w z -> wraps w z = z.
Proof.
  intros w z Hw H. unfold in_s in H. unfold wraps.
  assert (H2 : 2 ^ w = 2 * 2 ^ (w - 1)).
  { replace w with (1 + (w - 1)) at 1 by lia. rewrite Z.pow_add_r by lia. reflexivity. }
  rewrite Z.mod_small by lia. lia.
Qed.

Lemma wrapu_wraps_same : forall w z, 0 < w -> wrapu w (wraps w z) = wrapu w z.
Proof.
  intros w z Hw. unfold wrapu, wraps.
  assert (Hp : 0 < 2 ^ w) by (apply Z.pow_pos_nonneg; lia).
  assert (H2 : 2 ^ w = 2 * 2 ^ (w - 1)).
  { replace w with (1 + (w - 1)) at 1 by lia. rewrite Z.pow_add_r by lia. reflexivity. }
  rewrite Zminus_mod, Zmod_mod, <- Zminus_mod. f_equal. lia.
Qed.

Lemma be_val_app1 : forall l acc x, be_val acc (l ++ cons x nil) = be_val acc l * 256 + x.
Proof. induction l as [|y l IH]; intros; simpl; [reflexivity|apply IH]. Qed.

Lemma be_val_bound : forall l acc k,
  List.Forall (fun x => 0 <= x < 256) l -> 0 <= acc < 2 ^ k -> 0 <= k ->
  0 <= be_val acc l < 2 ^ (k + 8 * Z.of_nat (length l)).
Proof.
  induction l as [|x l IH]; intros acc k Hl Ha Hk.
  - cbn [be_val length]. replace (k + 8 * Z.of_nat 0) with k by lia. exact Ha.
  - inversion Hl as [|? ? Hx Hl']; subst. cbn [be_val length].
    replace (k + 8 * Z.of_nat (S (length l))) with ((k + 8) + 8 * Z.of_nat (length l)) by lia.
    apply IH; [exact Hl'| |lia].
    rewrite Z.pow_add_r by lia. change (2 ^ 8) with 256. lia.
Qed.

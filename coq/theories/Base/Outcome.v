(* Outcome of a model run: the code reports errors by panics that Encode/Decode
   recover; the model returns them as values.  OutOfFuel is never a legitimate
   outcome: theorems state that it is not returned. *)
From Coq Require Import List NArith ZArith.
Import ListNotations.

Inductive eclass :=
| EEof            (* input ended / io.ErrUnexpectedEOF / bounds panic converted at the boundary *)
| EBadDesc        (* unrecognised or unexpected descriptor byte *)
| EOverflow       (* number does not fit the destination *)
| EDepth          (* nesting exceeds MaxDepth *)
| EUnsupported
| ECircular
| EUser           (* error returned or panic raised by user code *)
| EOther.

Inductive res (A : Type) :=
| Ok (a : A)
| Err (e : eclass)
| OutOfFuel.
Arguments Ok {A} a.
Arguments Err {A} e.
Arguments OutOfFuel {A}.

Definition bind {A B} (r : res A) (f : A -> res B) : res B :=
  match r with Ok a => f a | Err e => Err e | OutOfFuel => OutOfFuel end.

Notation "'do' x <- r ;; k" := (bind r (fun x => k)) (at level 200, x pattern, r at level 100, k at level 200, right associativity).

Definition is_ok {A} (r : res A) : bool := match r with Ok _ => true | _ => false end.
Definition is_err {A} (r : res A) : bool := match r with Err _ => true | _ => false end.

(* error class as a number, for case files *)
Definition eclass_code (e : eclass) : N :=
  match e with
  | EEof => 1 | EBadDesc => 2 | EOverflow => 3 | EDepth => 4 | EUnsupported => 5
  | ECircular => 6 | EUser => 7 | EOther => 8
  end%N.

(* C02/AllocProofs — the allocation requests of a run are bounded by
   K0 + K1 * (bytes consumed):  K0 = MaxDepth * max(1024, MaxInitLen) * U pays for the containers
   still open when the call ends (at most MaxDepth, each pre-sized to at most the cap), every
   completed container is paid for by the bytes of its own elements. *)
From Coq Require Import List ZArith Lia Bool.
From Verif Require Import Gen.Consts C02.Alloc.
Open Scope Z_scope.

Lemma cap_ge : forall mil, 1024 <= cap mil.
Proof. intros. unfold cap, maxInitLen. lia. Qed.

(* the pre-sized allocation: never more than the cap (plus the small default of a stream without
   length), and never more than the claimed length when there is one *)
Lemma head_le_cap : forall cl mil u U, 0 <= u <= U ->
  0 <= decInferLen cl (cap mil) u * u <= cap mil * U + (64 + 8 * U).
Proof.
  intros cl mil u U Hu. pose proof (cap_ge mil) as Hc. unfold decInferLen.
  destruct ((cl =? 0) || (cl =? containerLenNil)); [nia |].
  destruct (cl <? 0) eqn:Hneg.
  - destruct (u =? 0) eqn:Hu0; [apply Z.eqb_eq in Hu0; subst; nia |].
    apply Z.eqb_neq in Hu0. assert (0 < u) by lia.
    assert (64 / u * u <= 64) by (rewrite Z.mul_comm; apply Z.mul_div_le; lia).
    assert (0 <= 64 / u) by (apply Z.div_pos; lia).
    destruct (Z.max_spec (64 / u) 8) as [[Hm ->] | [Hm ->]]; nia.
  - apply Z.ltb_ge in Hneg.
    destruct (u =? 0) eqn:Hu0; [apply Z.eqb_eq in Hu0; subst; nia |].
    apply Z.eqb_neq in Hu0.
    destruct (cap mil =? 0) eqn:Hc0; [apply Z.eqb_eq in Hc0; lia |].
    cbv zeta. destruct (Z.min_spec cl (cap mil)) as [[Hm ->] | [Hm ->]]; nia.
Qed.

Lemma head_le_claimed : forall cl mil u, 0 <= cl -> 0 <= u -> decInferLen cl (cap mil) u * u <= cl * u.
Proof.
  intros cl mil u Hcl Hu. pose proof (cap_ge mil) as Hc. unfold decInferLen.
  destruct ((cl =? 0) || (cl =? containerLenNil)); [nia |].
  destruct (cl <? 0) eqn:Hneg; [apply Z.ltb_lt in Hneg; lia |].
  destruct (u =? 0) eqn:Hu0; [apply Z.eqb_eq in Hu0; subst; nia |].
  destruct (cap mil =? 0) eqn:Hc0; [apply Z.eqb_eq in Hc0; lia |].
  cbv zeta. destruct (Z.min_spec cl (cap mil)) as [[Hm ->] | [Hm ->]]; nia.
Qed.

Lemma head_neg : forall cl mil u U, cl < 0 -> 0 <= u <= U -> 0 <= decInferLen cl (cap mil) u * u <= 64 + 8 * U.
Proof.
  intros cl mil u U Hcl Hu. unfold decInferLen.
  destruct ((cl =? 0) || (cl =? containerLenNil)); [nia |].
  destruct (cl <? 0) eqn:Hneg; [| apply Z.ltb_ge in Hneg; lia].
  destruct (u =? 0) eqn:Hu0; [apply Z.eqb_eq in Hu0; subst; nia |].
  apply Z.eqb_neq in Hu0. assert (0 < u) by lia.
  assert (64 / u * u <= 64) by (rewrite Z.mul_comm; apply Z.mul_div_le; lia).
  assert (0 <= 64 / u) by (apply Z.div_pos; lia).
  destruct (Z.max_spec (64 / u) 8) as [[Hm ->] | [Hm ->]]; nia.
Qed.

Section Proofs.
  Variable md mil U KL : Z.
  Hypothesis HU : 0 <= U.
  Hypothesis HKL : 0 <= KL.

  Let S := (1 + G) * U.      (* what a parent charges per element: its slot and the growth *)
  Let k0 (d : Z) (complete : bool) : Z := if complete then 0 else K0 md mil U d.

  Lemma count_nonneg : forall rs, 0 <= count rs.
  Proof. induction rs; cbn [count]; lia. Qed.

  Lemma consumed_cont : forall cl u h ks c, consumed (Cont cl u h ks c) = h + consumeds ks. Proof. reflexivity. Qed.
  Lemma alloc_cont : forall cl u h ks c, alloc mil (Cont cl u h ks c) = decInferLen cl (cap mil) u * u + G * u * count ks + allocs mil ks. Proof. reflexivity. Qed.
  Lemma completeR_cont : forall cl u h ks c, completeR (Cont cl u h ks c) = c && completeRs ks. Proof. reflexivity. Qed.
  Lemma consumeds_cons : forall r rs, consumeds (RCons r rs) = consumed r + consumeds rs. Proof. reflexivity. Qed.
  Lemma allocs_cons : forall r rs, allocs mil (RCons r rs) = alloc mil r + allocs mil rs. Proof. reflexivity. Qed.
  Lemma completeRs_cons : forall r rs, completeRs (RCons r rs) = completeR r && completeRs rs. Proof. reflexivity. Qed.
  Lemma count_cons : forall r rs, count (RCons r rs) = 1 + count rs. Proof. reflexivity. Qed.
  Lemma wf_cont : forall d cl u h ks c, wf md U KL d (Cont cl u h ks c) =
    (1 <= h /\ 0 <= u <= U /\ d + 1 < md /\ wfs md U KL (d + 1) ks /\ (c = true -> 0 <= cl -> count ks = cl)). Proof. reflexivity. Qed.
  Lemma wfs_cons : forall d r rs, wfs md U KL d (RCons r rs) =
    (wf md U KL d r /\ wfs md U KL d rs /\ (match rs with RNil => True | _ => completeR r = true end)). Proof. reflexivity. Qed.

  Theorem alloc_bnd :
    (forall r, forall d, wf md U KL d r -> d < md ->
       1 <= consumed r /\ alloc mil r + S <= k0 d (completeR r) + K1 U KL * consumed r) /\
    (forall rs, forall d, wfs md U KL d rs -> d < md ->
       count rs <= consumeds rs /\ allocs mil rs + S * count rs <= k0 d (completeRs rs) + K1 U KL * consumeds rs).
  Proof.
    assert (HG : G = 4) by reflexivity.
    assert (Hcap := cap_ge mil).
    assert (HcU : 0 <= cap mil * U) by (apply Z.mul_nonneg_nonneg; lia).
    assert (HK0 : forall d, d < md -> 0 <= K0 md mil U d) by (intros; unfold K0; apply Z.mul_nonneg_nonneg; lia).
    assert (HK0s : forall d, K0 md mil U d = cap mil * U + K0 md mil U (d + 1)) by (intros; unfold K0; ring).
    split.
    - apply (run_mut
        (fun r => forall d, wf md U KL d r -> d < md ->
           1 <= consumed r /\ alloc mil r + S <= k0 d (completeR r) + K1 U KL * consumed r)
        (fun rs => forall d, wfs md U KL d rs -> d < md ->
           count rs <= consumeds rs /\ allocs mil rs + S * count rs <= k0 d (completeRs rs) + K1 U KL * consumeds rs)).
      + (* leaf *)
        intros c a d (Hc & Ha) Hd. change (consumed (Leaf c a)) with c. change (alloc mil (Leaf c a)) with a.
        change (completeR (Leaf c a)) with true. unfold k0, S, K1. rewrite HG. split; [lia | nia].
      + (* container *)
        intros cl u h ks IH c d Hwf Hd. rewrite wf_cont in Hwf. destruct Hwf as (Hh & Hu & Hdep & Hks & Hcnt).
        destruct (IH (d + 1) Hks Hdep) as (Hcc & Hall).
        pose proof (count_nonneg ks) as Hc0.
        rewrite consumed_cont, alloc_cont, completeR_cont. split; [lia |].
        pose proof (head_le_cap cl mil u U Hu) as Hhead.
        unfold k0 in *. unfold S, K1 in *. rewrite HG in *.
        destruct c; cbn [andb].
        * destruct (completeRs ks) eqn:Eks.
          -- (* everything completed: paid by the bytes of the elements *)
             destruct (Z_lt_le_dec cl 0) as [Hneg | Hpos].
             ++ pose proof (head_neg cl mil u U Hneg Hu). nia.
             ++ pose proof (head_le_claimed cl mil u Hpos ltac:(lia)) as Hcl.
                assert (Hn : count ks = cl) by auto. rewrite <- Hn in Hcl at 2.
                assert (u * count ks <= U * count ks) by nia.
                assert (5 * U <= (KL + 64 + 13 * U) * h) by nia.
                nia.
          -- rewrite (HK0s d). nia.
        * rewrite (HK0s d). pose proof (HK0 (d + 1) Hdep).
          destruct (completeRs ks); nia.
      + (* no children *)
        intros d _ _. change (count RNil) with 0. change (consumeds RNil) with 0. change (allocs mil RNil) with 0.
        change (completeRs RNil) with true. unfold k0. lia.
      + (* a child and the rest *)
        intros r IHr rs IHrs d Hwf Hd. rewrite wfs_cons in Hwf. destruct Hwf as (Hr & Hrs & Hlast).
        destruct (IHr d Hr Hd) as (Hc1 & Ha1). destruct (IHrs d Hrs Hd) as (Hc2 & Ha2).
        rewrite count_cons, consumeds_cons, allocs_cons, completeRs_cons. split; [lia |].
        unfold k0 in *.
        destruct rs as [| r2 rs2].
        * change (completeRs RNil) with true in *. change (count RNil) with 0 in *.
          change (consumeds RNil) with 0 in *. change (allocs mil RNil) with 0 in *. rewrite andb_true_r. nia.
        * rewrite Hlast in *. cbn [andb]. nia.
    - apply (runs_mut
        (fun r => forall d, wf md U KL d r -> d < md ->
           1 <= consumed r /\ alloc mil r + S <= k0 d (completeR r) + K1 U KL * consumed r)
        (fun rs => forall d, wfs md U KL d rs -> d < md ->
           count rs <= consumeds rs /\ allocs mil rs + S * count rs <= k0 d (completeRs rs) + K1 U KL * consumeds rs)).
      + intros c a d (Hc & Ha) Hd. change (consumed (Leaf c a)) with c. change (alloc mil (Leaf c a)) with a.
        change (completeR (Leaf c a)) with true. unfold k0, S, K1. rewrite HG. split; [lia | nia].
      + intros cl u h ks IH c d Hwf Hd. rewrite wf_cont in Hwf. destruct Hwf as (Hh & Hu & Hdep & Hks & Hcnt).
        destruct (IH (d + 1) Hks Hdep) as (Hcc & Hall).
        pose proof (count_nonneg ks) as Hc0.
        rewrite consumed_cont, alloc_cont, completeR_cont. split; [lia |].
        pose proof (head_le_cap cl mil u U Hu) as Hhead.
        unfold k0 in *. unfold S, K1 in *. rewrite HG in *.
        destruct c; cbn [andb].
        * destruct (completeRs ks) eqn:Eks.
          -- destruct (Z_lt_le_dec cl 0) as [Hneg | Hpos].
             ++ pose proof (head_neg cl mil u U Hneg Hu). nia.
             ++ pose proof (head_le_claimed cl mil u Hpos ltac:(lia)) as Hcl.
                assert (Hn : count ks = cl) by auto. rewrite <- Hn in Hcl at 2.
                assert (u * count ks <= U * count ks) by nia.
                assert (5 * U <= (KL + 64 + 13 * U) * h) by nia.
                nia.
          -- rewrite (HK0s d). nia.
        * rewrite (HK0s d). pose proof (HK0 (d + 1) Hdep).
          destruct (completeRs ks); nia.
      + intros d _ _. change (count RNil) with 0. change (consumeds RNil) with 0. change (allocs mil RNil) with 0.
        change (completeRs RNil) with true. unfold k0. lia.
      + intros r IHr rs IHrs d Hwf Hd. rewrite wfs_cons in Hwf. destruct Hwf as (Hr & Hrs & Hlast).
        destruct (IHr d Hr Hd) as (Hc1 & Ha1). destruct (IHrs d Hrs Hd) as (Hc2 & Ha2).
        rewrite count_cons, consumeds_cons, allocs_cons, completeRs_cons. split; [lia |].
        unfold k0 in *.
        destruct rs as [| r2 rs2].
        * change (completeRs RNil) with true in *. change (count RNil) with 0 in *.
          change (consumeds RNil) with 0 in *. change (allocs mil RNil) with 0 in *. rewrite andb_true_r. nia.
        * rewrite Hlast in *. cbn [andb]. nia.
  Qed.

  (* one Decode call (depth 0): Sigma allocations <= K0 + K1 * bytes consumed <= K0 + K1 * length b *)
  Lemma alloc_lemma : forall (r : run) (len : Z),
    wf md U KL 0 r -> 0 < md -> consumed r <= len ->
    alloc mil r <= md * (maxInitLen mil * U) + (KL + 64 + 13 * U) * len.
  Proof.
    intros r len Hwf Hmd Hlen.
    destruct (proj1 alloc_bnd r 0 Hwf Hmd) as (Hc & Ha).
    assert (HK : K1 U KL = KL + 64 + 13 * U) by (unfold K1, G; ring). rewrite HK in Ha.
    assert (0 <= k0 0 (completeR r) <= md * (maxInitLen mil * U)).
    { unfold k0, K0, cap. pose proof (cap_ge mil). unfold cap in *. destruct (completeR r); nia. }
    assert (0 <= S) by (unfold S, G; nia).
    nia.
  Qed.
End Proofs.

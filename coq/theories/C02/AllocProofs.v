(* C02/AllocProofs — the allocation requests of a run are bounded by
   K0 + K1 * (bytes consumed):  K0 = MaxDepth * max(1024, MaxInitLen) * (U + OV) pays for the
   containers still open when the call ends (at most MaxDepth, each pre-sized to at most the cap),
   every completed container is paid for by the bytes of its own elements.  Holds for zero-size
   element types too since decInferLen caps them (F02-3). *)
From Coq Require Import List ZArith Lia Bool.
From Verif Require Import Gen.Consts C02.Alloc.
Open Scope Z_scope.

Lemma cap_ge : forall mil, 1024 <= cap mil.
Proof. intros. unfold cap, maxInitLen. lia. Qed.

(* the pre-sized element COUNT: at most the cap when a length is claimed (whatever the element
   size, zero included), at most the claimed length; a small constant when none is *)
Lemma count_pos : forall cl mil u, 0 <= cl -> 0 <= u ->
  0 <= decInferLen cl (cap mil) u <= cap mil /\ decInferLen cl (cap mil) u <= cl.
Proof.
  intros cl mil u Hcl Hu. pose proof (cap_ge mil) as Hc. unfold decInferLen.
  destruct ((cl =? 0) || (cl =? containerLenNil)); [lia |].
  destruct (cl <? 0) eqn:Hneg; [apply Z.ltb_lt in Hneg; lia |].
  destruct (cap mil =? 0) eqn:Hc0; [apply Z.eqb_eq in Hc0; lia |].
  cbv zeta. lia.
Qed.

Lemma count_neg : forall cl mil u, cl < 0 -> 0 <= u ->
  0 <= decInferLen cl (cap mil) u /\ decInferLen cl (cap mil) u * u <= 64 + 8 * u /\ decInferLen cl (cap mil) u <= 64.
Proof.
  intros cl mil u Hcl Hu. unfold decInferLen.
  destruct ((cl =? 0) || (cl =? containerLenNil)); [lia |].
  destruct (cl <? 0) eqn:Hneg; [| apply Z.ltb_ge in Hneg; lia].
  destruct (u =? 0) eqn:Hu0; [apply Z.eqb_eq in Hu0; subst; lia |].
  apply Z.eqb_neq in Hu0. assert (0 < u) by lia.
  assert (64 / u * u <= 64) by (rewrite Z.mul_comm; apply Z.mul_div_le; lia).
  assert (0 <= 64 / u) by (apply Z.div_pos; lia).
  assert (64 / u <= 64) by (apply Z.div_le_upper_bound; lia).
  destruct (Z.max_spec (64 / u) 8) as [[Hm ->] | [Hm ->]]; nia.
Qed.

Section Proofs.
  Variable md mil U KL OV : Z.
  Hypothesis HU : 0 <= U.
  Hypothesis HKL : 0 <= KL.
  Hypothesis HOV : 0 <= OV.

  Let M := U + OV.
  Let S := (1 + G) * M.      (* what a parent charges per element: its slot and the growth *)
  Let k0 (d : Z) (complete : bool) : Z := if complete then 0 else K0 md mil U OV d.

  Lemma count_nonneg : forall rs, 0 <= count rs.
  Proof. induction rs; cbn [count]; lia. Qed.

  Lemma consumed_cont : forall cl u h ks c, consumed (Cont cl u h ks c) = h + consumeds ks. Proof. reflexivity. Qed.
  Lemma alloc_cont : forall cl u h ks c, alloc mil OV (Cont cl u h ks c) =
    decInferLen cl (cap mil) u * (u + OV) + G * (u + OV) * count ks + allocs mil OV ks. Proof. reflexivity. Qed.
  Lemma completeR_cont : forall cl u h ks c, completeR (Cont cl u h ks c) = c && completeRs ks. Proof. reflexivity. Qed.
  Lemma consumeds_cons : forall r rs, consumeds (RCons r rs) = consumed r + consumeds rs. Proof. reflexivity. Qed.
  Lemma allocs_cons : forall r rs, allocs mil OV (RCons r rs) = alloc mil OV r + allocs mil OV rs. Proof. reflexivity. Qed.
  Lemma completeRs_cons : forall r rs, completeRs (RCons r rs) = completeR r && completeRs rs. Proof. reflexivity. Qed.
  Lemma count_cons : forall r rs, count (RCons r rs) = 1 + count rs. Proof. reflexivity. Qed.
  Lemma wf_cont : forall d cl u h ks c, wf md U KL d (Cont cl u h ks c) =
    (1 <= h /\ 0 <= u <= U /\ d + 1 < md /\ wfs md U KL (d + 1) ks /\ (c = true -> 0 <= cl -> count ks = cl)). Proof. reflexivity. Qed.
  Lemma wfs_cons : forall d r rs, wfs md U KL d (RCons r rs) =
    (wf md U KL d r /\ wfs md U KL d rs /\ (match rs with RNil => True | _ => completeR r = true end)). Proof. reflexivity. Qed.

  Definition Pr (r : run) : Prop := forall d, wf md U KL d r -> d < md ->
    1 <= consumed r /\ alloc mil OV r + S <= k0 d (completeR r) + K1 U KL OV * consumed r.
  Definition Prs (rs : runs) : Prop := forall d, wfs md U KL d rs -> d < md ->
    count rs <= consumeds rs /\ allocs mil OV rs + S * count rs <= k0 d (completeRs rs) + K1 U KL OV * consumeds rs.

  Lemma P_leaf : forall c a, Pr (Leaf c a).
  Proof.
    intros c a d (Hc & Ha) Hd. change (consumed (Leaf c a)) with c. change (alloc mil OV (Leaf c a)) with a.
    change (completeR (Leaf c a)) with true. unfold k0, S, K1, M, G. split; [lia | nia].
  Qed.

  Lemma P_cont : forall cl u h ks, Prs ks -> forall c, Pr (Cont cl u h ks c).
  Proof.
    intros cl u h ks IH c d Hwf Hd. rewrite wf_cont in Hwf. destruct Hwf as (Hh & Hu & Hdep & Hks & Hcnt).
    destruct (IH (d + 1) Hks Hdep) as (Hcc & Hall).
    pose proof (count_nonneg ks) as Hc0. pose proof (cap_ge mil) as Hcap.
    rewrite consumed_cont, alloc_cont, completeR_cont. split; [lia |].
    assert (HK0s : K0 md mil U OV d = cap mil * M + K0 md mil U OV (d + 1)) by (unfold K0, M; ring).
    assert (HK0n : 0 <= K0 md mil U OV (d + 1)) by (unfold K0; apply Z.mul_nonneg_nonneg; [lia | apply Z.mul_nonneg_nonneg; lia]).
    set (m := u + OV) in *. assert (Hm : 0 <= m <= M) by (unfold m, M; lia).
    set (n := count ks) in *. set (cs := consumeds ks) in *. set (A := allocs mil OV ks) in *.
    set (X := decInferLen cl (cap mil) u) in *.
    unfold k0 in *. unfold S, K1 in *. fold M in Hall |- *. unfold G in *.
    assert (Hgrow : m * n <= M * n) by nia.
    (* the head, in the three situations *)
    destruct (Z_lt_le_dec cl 0) as [Hneg | Hpos].
    - (* no claimed length: a small constant, charged to the head byte *)
      destruct (count_neg cl mil u Hneg ltac:(lia)) as (HX0 & HXu & HX64). fold X in HX0, HXu, HX64.
      assert (Hhead : X * m <= 64 + 64 * OV + 8 * M) by (unfold m, M; nia).
      assert (Hh2 : 64 + 64 * OV + 8 * M <= (64 + 64 * OV + 8 * M) * h) by nia.
      assert (Hh3 : 5 * M <= (KL + 5 * M) * h) by nia.
      destruct c; cbn [andb]; [destruct (completeRs ks) |]; try rewrite HK0s; try (destruct (completeRs ks)); nia.
    - destruct (count_pos cl mil u Hpos ltac:(lia)) as ((HX0 & HXc) & HXl). fold X in HX0, HXc, HXl.
      assert (Hh3 : 5 * M <= (KL + 64 + 64 * OV + 13 * M) * h) by nia.
      destruct c; cbn [andb].
      + destruct (completeRs ks) eqn:Eks.
        * (* completed: exactly the claimed number of elements, each paid by its own bytes *)
          assert (Hn : n = cl) by (unfold n; auto).
          assert (Hhead : X * m <= M * n) by nia.
          nia.
        * assert (Hhead : X * m <= cap mil * M) by nia. rewrite HK0s. nia.
      + assert (Hhead : X * m <= cap mil * M) by nia. rewrite HK0s.
        destruct (completeRs ks); nia.
  Qed.

  Lemma P_nil : Prs RNil.
  Proof.
    intros d _ _. change (count RNil) with 0. change (consumeds RNil) with 0. change (allocs mil OV RNil) with 0.
    change (completeRs RNil) with true. unfold k0. lia.
  Qed.

  Lemma P_cons : forall r, Pr r -> forall rs, Prs rs -> Prs (RCons r rs).
  Proof.
    intros r IHr rs IHrs d Hwf Hd. rewrite wfs_cons in Hwf. destruct Hwf as (Hr & Hrs & Hlast).
    destruct (IHr d Hr Hd) as (Hc1 & Ha1). destruct (IHrs d Hrs Hd) as (Hc2 & Ha2).
    rewrite count_cons, consumeds_cons, allocs_cons, completeRs_cons. split; [lia |].
    unfold k0 in *.
    destruct rs as [| r2 rs2].
    - change (completeRs RNil) with true in *. change (count RNil) with 0 in *.
      change (consumeds RNil) with 0 in *. change (allocs mil OV RNil) with 0 in *. rewrite andb_true_r. nia.
    - rewrite Hlast in *. cbn [andb]. nia.
  Qed.

  Theorem alloc_bnd : (forall r, Pr r) /\ (forall rs, Prs rs).
  Proof.
    split.
    - apply (run_mut Pr Prs P_leaf P_cont P_nil P_cons).
    - apply (runs_mut Pr Prs P_leaf P_cont P_nil P_cons).
  Qed.

  (* one Decode call (depth 0): Sigma allocations <= K0 + K1 * bytes consumed <= K0 + K1 * length b *)
  Lemma alloc_lemma : forall (r : run) (len : Z),
    wf md U KL 0 r -> 0 < md -> consumed r <= len ->
    alloc mil OV r <= md * (maxInitLen mil * (U + OV)) + (KL + 64 + 64 * OV + 13 * (U + OV)) * len.
  Proof.
    intros r len Hwf Hmd Hlen.
    destruct (proj1 alloc_bnd r 0 Hwf Hmd) as (Hc & Ha).
    assert (HK : K1 U KL OV = KL + 64 + 64 * OV + 13 * (U + OV)) by (unfold K1, G; ring). rewrite HK in Ha.
    assert (0 <= k0 0 (completeR r) <= md * (maxInitLen mil * (U + OV))).
    { unfold k0, K0, cap. pose proof (cap_ge mil) as Hc1. unfold cap in Hc1.
      assert (0 <= maxInitLen mil * (U + OV)) by (apply Z.mul_nonneg_nonneg; lia).
      destruct (completeR r); nia. }
    assert (0 <= S) by (unfold S, M, G; nia).
    nia.
  Qed.
End Proofs.

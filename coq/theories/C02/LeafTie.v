(* C02/LeafTie — the hand-written decInferLen / usable_len of C02/Alloc.v (what C02_alloc is
   about) EQUAL the functions the translator regenerates from the current source of
   decode.base.go decInferLen / helper.go usableByteSlice on every run (Gen/Leaf2.v), on the whole
   domain of their Go types (int = int64, uint = uint64 on the pinned target).  An edit of either
   Go function that changes its behaviour changes the right-hand sides below and breaks these
   lemmas.  Besides the equality the lemmas say that the translated functions never stop by a
   division by zero (decInferLen: 64/unit, maxMem/max(unit,1)) nor by a slice-bounds or make panic
   (usableByteSlice), for any argument.

   A []byte is translated to its shape (len, cap) — usableByteSlice does not look at the content. *)
From Coq Require Import List ZArith Lia Bool.
From Verif Require Import Base.Word Base.Outcome Gen.Consts Gen.Leaf2 C02.Alloc.
Open Scope Z_scope.

Lemma wrapu64_small : forall z, 0 <= z < 2 ^ 64 -> wrapu 64 z = z.
Proof. intros z H. apply wrapu_id. exact H. Qed.

Lemma quot_pos_bound : forall a b, 0 <= a -> 0 < b -> 0 <= quot a b <= a /\ quot a b = a / b.
Proof.
  intros a b Ha Hb. unfold quot. rewrite Z.quot_div_nonneg by lia. split; [| reflexivity].
  split; [apply Z.div_pos; lia |]. apply Z.div_le_upper_bound; nia.
Qed.

Lemma decInferLen_tie : forall clen maxlen unit,
  in_s 64 clen -> in_u 64 maxlen -> in_u 64 unit ->
  Leaf2.decInferLen clen maxlen unit = Ok (Alloc.decInferLen clen maxlen unit).
Proof.
  intros clen maxlen unit Hc Hm Hu. unfold in_s, in_u in *.
  change (2 ^ (64 - 1)) with 9223372036854775808 in Hc. change (2 ^ 64) with 18446744073709551616 in Hm, Hu.
  unfold Leaf2.decInferLen, Alloc.decInferLen. change containerLenNil with (-2147483648).
  destruct (clen =? 0) eqn:E0; destruct (clen =? -2147483648) eqn:En; cbn [orb]; try reflexivity.
  apply Z.eqb_neq in E0.
  destruct (clen <? 0) eqn:Eneg.
  - destruct (unit =? 0) eqn:Eu; [reflexivity |]. apply Z.eqb_neq in Eu.
    destruct (quot_pos_bound 64 unit ltac:(lia) ltac:(lia)) as [Hq Hq'].
    rewrite wrapu64_small by (change (2 ^ 64) with 18446744073709551616; lia). rewrite Hq'. reflexivity.
  - apply Z.ltb_ge in Eneg.
    rewrite (wrapu64_small clen) by (change (2 ^ 64) with 18446744073709551616; lia).
    destruct (maxlen =? 0) eqn:Emx; [| reflexivity].
    assert (Hmx : 0 < Z.max unit 1) by lia.
    destruct (Z.max unit 1 =? 0) eqn:Ez; [apply Z.eqb_eq in Ez; lia |].
    destruct (quot_pos_bound 1048576 (Z.max unit 1) ltac:(lia) Hmx) as [Hq Hq'].
    rewrite wrapu64_small by (change (2 ^ 64) with 18446744073709551616; lia). rewrite Hq'. reflexivity.
Qed.

(* usableByteSlice(bs, slen) for a slice bs of any length l and capacity c (0 <= l <= c, c an int):
   it never panics; the length handed back and the made-new flag are usable_len c slen; the capacity
   handed back is the old one when bs is resliced, 0 for the shared empty slice, the new length when
   a slice is made *)
Definition usable_cap (bufcap slen : Z) : Z :=
  if slen =? 0 then 0 else if slen <? 0 then bufcap else if slen <=? bufcap then bufcap else Z.min slen usableMaxCap.

Lemma shape_slice_ok : forall c lo hi mx, 0 <= lo <= hi -> hi <= mx -> mx <= c ->
  shape_slice c lo hi mx = Ok (hi - lo, mx - lo).
Proof.
  intros c lo hi mx H1 H2 H3. unfold shape_slice.
  replace ((0 <=? lo) && (lo <=? hi) && (hi <=? mx) && (mx <=? c)) with true; [reflexivity |].
  symmetry. rewrite !andb_true_iff, !Z.leb_le. lia.
Qed.

Lemma usableByteSlice_tie : forall l c slen,
  0 <= l <= c -> in_s 64 c -> in_s 64 slen ->
  Leaf2.usableByteSlice (l, c) slen =
    Ok ((fst (usable_len c slen), usable_cap c slen), snd (usable_len c slen)).
Proof.
  intros l c slen Hl Hc Hs. unfold in_s in *. change (2 ^ (64 - 1)) with 9223372036854775808 in *.
  unfold Leaf2.usableByteSlice, usable_len, usable_cap, usableMaxCap. cbn [fst snd].
  destruct (slen =? 0) eqn:E0; [reflexivity |]. apply Z.eqb_neq in E0.
  destruct (slen <? 0) eqn:Eneg.
  - rewrite shape_slice_ok by lia. cbn [bind fst snd]. rewrite !Z.sub_0_r. reflexivity.
  - apply Z.ltb_ge in Eneg.
    destruct (slen <=? c) eqn:Ele.
    + apply Z.leb_le in Ele. rewrite shape_slice_ok by lia.
      cbn [bind fst snd]. rewrite !Z.sub_0_r. reflexivity.
    + unfold shape_make. destruct (Z.min slen 67108864 <? 0) eqn:Em; [apply Z.ltb_lt in Em; lia |].
      cbn [bind fst snd]. reflexivity.
Qed.

(* both at once, as used by Properties/C02.v *)
Lemma alloc_src_tie :
  (forall clen maxlen unit, in_s 64 clen -> in_u 64 maxlen -> in_u 64 unit ->
     Leaf2.decInferLen clen maxlen unit = Ok (Alloc.decInferLen clen maxlen unit)) /\
  (forall l c slen, 0 <= l <= c -> in_s 64 c -> in_s 64 slen ->
     Leaf2.usableByteSlice (l, c) slen =
       Ok ((fst (usable_len c slen), usable_cap c slen), snd (usable_len c slen))).
Proof. split; [exact decInferLen_tie | exact usableByteSlice_tie]. Qed.

(* C02/JsonBridge — the json wire-layer totality lemmas (Wire/JsonTotal.v, Wire/JsonProofs.v,
   Wire/JsonLeaf.v) in the shape Properties/C02.v states them: with the same linear fuel
   K*(length b + 1), K = 2, as the binary formats, decoding ANY bytes into interface{} — in every
   position (value, map key of a map[interface{}]interface{}, string key of a
   map[string]interface{} via DecodeStringAsBytes), from every tokenizer state, and over a
   sequence of Decode calls on one Decoder — and skipping / raw-capturing them never returns
   OutOfFuel; hence every outcome is a value or an Err class.

   The lexical leaves are a parameter of the json model; what totality needs of them is
   [leaf_total] (the string decoder ends and never hands back more unread input than it was
   given), which is PROVED for the C09 string code whatever the float/time oracle
   (JsonLeaf.c09_leaf_total), hence for the leaf [c09_leaf T] the correspondence of Wjson runs. *)
From Coq Require Import List NArith ZArith Lia Bool Arith.
From Verif Require Import Base.Outcome Wire.Item Gen.Consts C02.Bridge.
From Verif Require Wire.Json Wire.JsonProofs Wire.JsonRT Wire.JsonTotal Wire.JsonLeaf.
Import ListNotations.

(* a fresh decoder has no pending token: what is to be interpreted is exactly the input *)
Lemma pending_st0 : forall b, Json.pending (Json.st0 b) = length b.
Proof. intros b. unfold Json.pending, Json.st0. cbn [Json.tok Json.inp]. reflexivity. Qed.

Lemma json_fuelK : forall b, fuelK b = Json.dec_fuel (Json.st0 b).
Proof. intros b. unfold Json.dec_fuel. rewrite pending_st0. unfold fuelK, K. lia. Qed.

Definition json_total_stmt (L : Json.leaf) : Prop :=
  forall (D : Json.dopts) (b : list N),
    (* Decode(&interface{}) on a fresh Decoder, fuel K*(len+1) *)
    Json.dec_naked L D (fuelK b) b <> OutOfFuel /\
    (* one decode call from ANY tokenizer state (input + pending token), depth and position
       (key = true: the key of a map[interface{}]interface{}), fuel linear in what is unread *)
    (forall (s : Json.st) (fuel : nat) (dp : Z) (key : bool),
       (2 * Json.pending s + 1 <= fuel)%nat -> Json.dec L D fuel dp key s <> OutOfFuel) /\
    (* the typed string read of a map[string]interface{} key (DecodeStringAsBytes): no fuel at all *)
    (forall s, Json.dec_strkey L s <> OutOfFuel) /\
    (* n successive Decode calls on one Decoder, each with the fuel of its own state *)
    (forall (n : nat) (total : N) (s : Json.st), Json.dec_seq L D n total s <> OutOfFuel) /\
    (* the skip scanner / Raw capture (nextValueBytes): from a fresh Decoder and from any state *)
    Json.skip (fuelK b) b <> OutOfFuel /\ Json.raw b <> OutOfFuel /\ (forall s, Json.nvb s <> OutOfFuel).

Section J.
Variable L : Json.leaf.
Hypothesis LT : JsonTotal.leaf_total L.

Lemma strkey_nofuel : forall s, Json.dec_strkey L s <> OutOfFuel.
Proof.
  intros s H. pose proof (JsonTotal.strkey_good L LT s) as G. rewrite H in G. exact G.
Qed.

Lemma dec_seq_nofuel : forall D n total s, Json.dec_seq L D n total s <> OutOfFuel.
Proof.
  intros D n total. induction n as [| n IH]; intros s; cbn [Json.dec_seq]; [discriminate |].
  unfold Json.decode1.
  pose proof (JsonTotal.dec_total_lemma L LT D s (Json.dec_fuel s) 0%Z false ltac:(unfold Json.dec_fuel; lia)) as G.
  destruct (Json.dec L D (Json.dec_fuel s) 0 false s) as [[i s'] | e |]; cbn [bind]; [| discriminate | contradiction].
  pose proof (IH s') as G2. destruct (Json.dec_seq L D n total s'); cbn [bind]; [discriminate | discriminate | contradiction].
Qed.

Lemma raw_nofuel : forall b, Json.raw b <> OutOfFuel.
Proof.
  intros b. unfold Json.raw. pose proof (JsonProofs.nvb_nofuel (Json.st0 b)) as G.
  destruct (Json.nvb (Json.st0 b)) as [[v s] | e |]; cbn [bind]; [discriminate | discriminate | contradiction].
Qed.

Lemma json_total : json_total_stmt L.
Proof.
  intros D b. repeat apply conj.
  - rewrite json_fuelK. apply JsonTotal.dec_naked_total_lemma. exact LT.
  - intros s fuel dp key Hf. apply JsonTotal.dec_total_lemma; assumption.
  - apply strkey_nofuel.
  - apply dec_seq_nofuel.
  - apply JsonProofs.skip_total_lemma.
  - apply raw_nofuel.
  - apply JsonProofs.nvb_nofuel.
Qed.
End J.

(* for every leaf with a total string decoder; for C09's string code under every float/time
   oracle; and for the leaf the Wjson correspondence runs (C09's string code + observed tables) *)
Lemma json_terminates :
  (forall L : Json.leaf, JsonTotal.leaf_total L -> json_total_stmt L) /\
  (forall O : JsonLeaf.oracle, json_total_stmt (JsonLeaf.c09_leaf_of O)) /\
  (forall T : Json.tables, json_total_stmt (Json.c09_leaf T)).
Proof.
  repeat apply conj.
  - exact json_total.
  - intros O. apply json_total. apply JsonLeaf.c09_leaf_total.
  - intros T. rewrite JsonLeaf.c09_leaf_eq. apply json_total. apply JsonLeaf.c09_leaf_total.
Qed.

(* every outcome of both json parsers is a value or an Err class *)
Definition json_recoverable_stmt (L : Json.leaf) : Prop :=
  forall (D : Json.dopts) (b : list N),
    ((exists v, Json.dec_naked L D (fuelK b) b = Ok v) \/ (exists e, Json.dec_naked L D (fuelK b) b = Err e)) /\
    (forall (s : Json.st) (dp : Z) (key : bool),
       (exists v, Json.dec L D (Json.dec_fuel s) dp key s = Ok v) \/ (exists e, Json.dec L D (Json.dec_fuel s) dp key s = Err e)) /\
    (forall (n : nat) (total : N) (s : Json.st),
       (exists v, Json.dec_seq L D n total s = Ok v) \/ (exists e, Json.dec_seq L D n total s = Err e)) /\
    ((exists v, Json.skip (fuelK b) b = Ok v) \/ (exists e, Json.skip (fuelK b) b = Err e)) /\
    ((exists v, Json.raw b = Ok v) \/ (exists e, Json.raw b = Err e)) /\
    (forall s, (exists v, Json.nvb s = Ok v) \/ (exists e, Json.nvb s = Err e)).

Lemma json_recoverable_of_total : forall L, json_total_stmt L -> json_recoverable_stmt L.
Proof.
  intros L HT D b. destruct (HT D b) as (H1 & H2 & _ & H4 & H5 & H6 & H7).
  repeat apply conj; intros; apply res_cases; auto.
  apply H2. unfold Json.dec_fuel. lia.
Qed.

Lemma only_recoverable_json :
  (forall L : Json.leaf, JsonTotal.leaf_total L -> json_recoverable_stmt L) /\
  (forall O : JsonLeaf.oracle, json_recoverable_stmt (JsonLeaf.c09_leaf_of O)) /\
  (forall T : Json.tables, json_recoverable_stmt (Json.c09_leaf T)).
Proof.
  destruct json_terminates as (H1 & H2 & H3).
  repeat apply conj; intros; apply json_recoverable_of_total; auto.
Qed.

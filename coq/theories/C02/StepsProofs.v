(* C02/StepsProofs — the walker skeleton takes at most 4 * length b + 2 steps on EVERY input,
   for every head parser that consumes at least one byte, every break predicate, every depth
   policy and every fuel: time linear in the input length, whatever lengths the heads claim. *)
From Coq Require Import List NArith ZArith Lia Bool.
From Verif Require Import Base.Outcome C02.Steps.
Import ListNotations.

Section P.
  Variable head : list N -> res shape.
  Variable is_break : N -> bool.
  Variable depth_ok : Z -> bool.
  Hypothesis head_adv : forall b s, head b = Ok s -> (length (rest_of s) < length b)%nat.

  Definition okb (slack : nat) (b : list N) (x : res (list N) * nat) : Prop :=
    match fst x with
    | Ok r => (length r <= length b)%nat /\ (snd x + 1 <= 4 * (length b - length r) + slack)%nat
    | _ => (snd x <= 4 * length b + 1 + (if Nat.eqb slack 0 then 0 else 1))%nat
    end.

  Notation W := (walk head is_break depth_ok).
  Notation Wn := (walk_n head is_break depth_ok).
  Notation Wi := (walk_i head is_break depth_ok).
  Lemma walk_0 : forall d b, W O d b = (OutOfFuel, 1%nat). Proof. reflexivity. Qed.
  Lemma walk_n_0 : forall d n b, Wn O d n b = (OutOfFuel, 1%nat). Proof. reflexivity. Qed.
  Lemma walk_i_0 : forall d p b, Wi O d p b = (OutOfFuel, 1%nat). Proof. reflexivity. Qed.
  Lemma walk_S : forall f' d b, W (S f') d b =
    match head b with
    | Err e => (Err e, 1%nat)
    | OutOfFuel => (OutOfFuel, 1%nat)
    | Ok (SLeaf r) => (Ok r, 1%nat)
    | Ok (SSeq n r) => if depth_ok d then stepped (Wn f' (d + 1)%Z n r) else (Err EDepth, 1%nat)
    | Ok (SIndef p r) => if depth_ok d then stepped (Wi f' (d + 1)%Z p r) else (Err EDepth, 1%nat)
    end.
  Proof. reflexivity. Qed.
  Lemma walk_n_S : forall f' d n b, Wn (S f') d n b =
    if (n =? 0)%N then (Ok b, 1%nat)
    else let x := W f' d b in
         match fst x with
         | Ok b1 => let y := Wn f' d (n - 1)%N b1 in (fst y, S (snd x + snd y))
         | Err e => (Err e, S (snd x))
         | OutOfFuel => (OutOfFuel, S (snd x))
         end.
  Proof. reflexivity. Qed.
  Lemma walk_i_S : forall f' d pairs b, Wi (S f') d pairs b =
    match b with
    | [] => (Err EEof, 1%nat)
    | c :: b0 =>
        if is_break c then (Ok b0, 1%nat)
        else let x := W f' d b in
             match fst x with
             | Ok b1 =>
                 if pairs then
                   let x2 := W f' d b1 in
                   match fst x2 with
                   | Ok b2 => let y := Wi f' d pairs b2 in (fst y, S (snd x + snd x2 + snd y))
                   | Err e => (Err e, S (snd x + snd x2))
                   | OutOfFuel => (OutOfFuel, S (snd x + snd x2))
                   end
                 else let y := Wi f' d pairs b1 in (fst y, S (snd x + snd y))
             | Err e => (Err e, S (snd x))
             | OutOfFuel => (OutOfFuel, S (snd x))
             end
    end.
  Proof. reflexivity. Qed.

  (* walk: an Ok run consumed c >= 1 bytes in at most 4c - 1 steps; loops: 4c + 1 *)
  Theorem steps_all : forall f,
    (forall d b, okb 0 b (walk head is_break depth_ok f d b) /\
                 (forall r, fst (walk head is_break depth_ok f d b) = Ok r -> (length r < length b)%nat)) /\
    (forall d n b, okb 2 b (walk_n head is_break depth_ok f d n b)) /\
    (forall d p b, okb 2 b (walk_i head is_break depth_ok f d p b)).
  Proof.
    induction f as [| f' (IHw & IHn & IHi)].
    - repeat apply conj; intros; rewrite ?walk_0, ?walk_n_0, ?walk_i_0; unfold okb; cbn [fst snd Nat.eqb]; try lia.
      split; [lia | intros r H; discriminate].
    - repeat apply conj.
      + intros d b. rewrite walk_S. destruct (head b) as [s | e |] eqn:Hh.
        * pose proof (head_adv b s Hh) as Hadv.
          destruct s as [r | n r | p r]; cbn [rest_of] in Hadv.
          -- unfold okb; cbn [fst snd Nat.eqb]. split; [split; lia | intros r0 H; inversion H; subst; lia].
          -- destruct (depth_ok d); [| unfold okb; cbn [fst snd Nat.eqb]; split; [lia | intros r0 H; discriminate]].
             pose proof (IHn (d + 1)%Z n r) as Hn. unfold stepped, okb in *. cbn [fst snd Nat.eqb] in *.
             destruct (fst (walk_n head is_break depth_ok f' (d + 1) n r)) as [r1 | e | ]; cbv beta iota in *.
             ++ split; [split; lia | intros r0 H; inversion H; subst; lia].
             ++ split; [lia | intros r0 H; discriminate].
             ++ split; [lia | intros r0 H; discriminate].
          -- destruct (depth_ok d); [| unfold okb; cbn [fst snd Nat.eqb]; split; [lia | intros r0 H; discriminate]].
             pose proof (IHi (d + 1)%Z p r) as Hn. unfold stepped, okb in *. cbn [fst snd Nat.eqb] in *.
             destruct (fst (walk_i head is_break depth_ok f' (d + 1) p r)) as [r1 | e | ]; cbv beta iota in *.
             ++ split; [split; lia | intros r0 H; inversion H; subst; lia].
             ++ split; [lia | intros r0 H; discriminate].
             ++ split; [lia | intros r0 H; discriminate].
        * unfold okb; cbn [fst snd Nat.eqb]. split; [lia | intros r0 H; discriminate].
        * unfold okb; cbn [fst snd Nat.eqb]. split; [lia | intros r0 H; discriminate].
      + intros d n b. rewrite walk_n_S. destruct (n =? 0)%N; [unfold okb; cbn [fst snd Nat.eqb]; lia |].
        destruct (IHw d b) as (Hx & Hlt). unfold okb in Hx; cbn [Nat.eqb] in Hx. cbv zeta.
        destruct (fst (walk head is_break depth_ok f' d b)) as [b1 | e |] eqn:E1.
        * specialize (Hlt b1 eq_refl). pose proof (IHn d (n - 1)%N b1) as Hy. unfold okb in *. cbn [fst snd Nat.eqb] in *.
          destruct (fst (walk_n head is_break depth_ok f' d (n - 1) b1)); cbv beta iota in *; lia.
        * unfold okb; cbn [fst snd Nat.eqb]. lia.
        * unfold okb; cbn [fst snd Nat.eqb]. lia.
      + intros d p b. rewrite walk_i_S. destruct b as [| c b0]; [unfold okb; cbn [fst snd Nat.eqb length]; lia |].
        destruct (is_break c); [unfold okb; cbn [fst snd Nat.eqb length]; lia |].
        destruct (IHw d (c :: b0)) as (Hx & Hlt). unfold okb in Hx; cbn [Nat.eqb] in Hx. cbv zeta.
        destruct (fst (walk head is_break depth_ok f' d (c :: b0))) as [b1 | e |] eqn:E1.
        * specialize (Hlt b1 eq_refl). destruct p.
          -- destruct (IHw d b1) as (Hx2 & Hlt2). unfold okb in Hx2; cbn [Nat.eqb] in Hx2.
             destruct (fst (walk head is_break depth_ok f' d b1)) as [b2 | e |] eqn:E2.
             ++ specialize (Hlt2 b2 eq_refl). pose proof (IHi d true b2) as Hy. unfold okb in *. cbn [fst snd Nat.eqb] in *.
                destruct (fst (walk_i head is_break depth_ok f' d true b2)); cbv beta iota in *; lia.
             ++ unfold okb; cbn [fst snd Nat.eqb]. lia.
             ++ unfold okb; cbn [fst snd Nat.eqb]. lia.
          -- pose proof (IHi d false b1) as Hy. unfold okb in *. cbn [fst snd Nat.eqb] in *.
             destruct (fst (walk_i head is_break depth_ok f' d false b1)); cbv beta iota in *; lia.
        * unfold okb; cbn [fst snd Nat.eqb]. lia.
        * unfold okb; cbn [fst snd Nat.eqb]. lia.
  Qed.

  Lemma steps_lemma : forall (f : nat) (d : Z) (b : list N),
    (snd (walk head is_break depth_ok f d b) <= 4 * length b + 2)%nat.
  Proof.
    intros f d b. destruct (proj1 (steps_all f) d b) as (H & _). unfold okb in H; cbn [Nat.eqb] in H.
    destruct (fst (walk head is_break depth_ok f d b)); lia.
  Qed.
End P.

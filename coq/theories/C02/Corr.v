(* C02/Corr — correspondence for C02: outcome class and NumBytesRead of hostile inputs decoded
   into interface{} / Raw by the real Decoder (harness/cmd/c02) against the four wire models,
   through the dispatcher of C14/Corr. *)
From Coq Require Import List NArith ZArith Bool.
From Verif Require Import Base.Outcome C14.Corr.
Import ListNotations.
Open Scope N_scope.

Record case2 := mkc2 {
  c2id : N;
  c2fmt : N;
  c2kind : N;            (* 1 Decode(&interface{}), 2 Decode(&Raw) *)
  c2opts : opts;
  c2bytes : list N;
  c2class : N;
  c2nread : N }.

Definition check_case2 (c : case2) : bool :=
  agrees (run (c2fmt c) (c2kind c) (c2opts c) (c2bytes c)) (c2class c) (c2nread c).

Definition mismatches2 (cs : list case2) : list N :=
  map c2id (filter (fun c => negb (check_case2 c)) cs).

(* C02/Corr — correspondence for C02: outcome class and NumBytesRead of hostile inputs decoded
   into interface{} / Raw by the real Decoder (harness/cmd/c02) against the four wire models,
   through the dispatcher of C14/Corr. *)
From Coq Require Import List NArith ZArith Bool.
From Verif Require Import Base.Outcome C14.Corr C02.Alloc.
Import ListNotations.
Open Scope N_scope.

Record case2 := mkc2 {
  c2id : N;
  c2fmt : N;
  c2kind : N;            (* 1 Decode(&interface{}), 2 Decode(&Raw) *)
  c2opts : opts;
  c2bytes : list N;
  c2class : N;
  c2nread : N }.

(* kind 9: decInferLen(clen, maxlen, unit) with bytes = [sign of clen (1 = negative); |clen|; maxlen; unit], class = result;
   kind 10: usableByteSlice sizes with bytes = [cap(bs); sign of slen; |slen|], class = len(out), nread = 1 if made new *)
Definition sgn (s v : N) : Z := if s =? 1 then (- Z.of_N v)%Z else Z.of_N v.

Definition check_case2 (c : case2) : bool :=
  if c2kind c =? 9 then
    match c2bytes c with
    | [s; v; maxlen; unit] => (decInferLen (sgn s v) (Z.of_N maxlen) (Z.of_N unit) =? Z.of_N (c2class c))%Z
    | _ => false
    end
  else if c2kind c =? 10 then
    match c2bytes c with
    | [bc; s; v] =>
        let r := usable_len (Z.of_N bc) (sgn s v) in
        (fst r =? Z.of_N (c2class c))%Z && Bool.eqb (snd r) (c2nread c =? 1)
    | _ => false
    end
  else agrees (Verif.C14.Corr.run (c2fmt c) (c2kind c) (c2opts c) (c2bytes c)) (c2class c) (c2nread c).

Definition mismatches2 (cs : list case2) : list N :=
  map c2id (filter (fun c => negb (check_case2 c)) cs).

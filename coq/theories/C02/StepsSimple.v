(* C02/StepsSimple — the step-counting walker skeleton of C02/Steps.v instantiated with the head
   parser of the simple-format skip walker (Wire/Simple.v skipv / skip_elems / nvb, i.e.
   simpleDecDriver.nextValueBytes / nextValueBytesBdReadR):

     sp_head   reads the descriptor byte c and asks the wire model's own head code (sclassify,
               skip_head: length field, class check, ext tag) whether c opens a NON-EMPTY array
               (SSeq len) or map (SSeq (2*len): the walker loops over 2*len values); everything else
               — scalars, time, strings, byte strings, exts, empty containers, bad descriptors — is a
               leaf, consumed by the wire model's skipv itself, run with fuel 1 (enough for one
               non-recursive call) on a fresh reader over the remaining bytes;
     depth policy  depthIncr around the loop of a non-empty container: one more level is allowed
               iff depth + 1 < MaxDepth (empty containers do not count: they are leaves);
     no break byte (simple has no indefinite-length containers).

   The model's walker works on a reader with a cursor (consumed prefix, remaining suffix); every
   reader primitive looks at the suffix only and the suffix of its result depends on the suffix only
   (the *_cong lemmas), so the walk is a function of the remaining bytes: that is what the skeleton
   threads.

   sp_sim: whenever the model's walker (fuel f) is not out of fuel, the skeleton with fuel >= f+1
   returns the same outcome (same rest of input / same error class).  With the wire model's own
   totality (SimpleTotal.W_simple_skip_total_lemma) the skeleton's outcome IS the model's, for every
   input; and by the generic bound (StepsProofs.steps_lemma) the number of its calls + loop
   iterations is <= 4*len + 2.  The head consumes at least the descriptor byte (sp_head_adv). *)
From Coq Require Import List NArith ZArith Lia Bool.
From Verif Require Import Base.Outcome Gen.Consts Wire.Item Wire.Simple Wire.SimpleTotal C02.Steps C02.StepsProofs.
Import ListNotations.
Open Scope N_scope.

(* what is left of the input after a result *)
Definition pr1 (x : res rd) : res (list N) :=
  match x with Ok z => Ok (suf z) | Err e => Err e | OutOfFuel => OutOfFuel end.
Definition pr2 {A} (x : res (A * rd)) : res (A * list N) :=
  match x with Ok (a, z) => Ok (a, suf z) | Err e => Err e | OutOfFuel => OutOfFuel end.

(* the skip walker from entry depth d0 on the bytes b: what is left (Simple.skip is the case d0 = 0) *)
Definition sp_skip_at (D : dopts) (d0 : Z) (fuel : nat) (b : list N) : res (list N) :=
  do (_, z) <- nvb D fuel d0 (rd_init b) ;; Ok (suf z).

Lemma sp_skip_at_0 : forall D fuel b, sp_skip_at D 0 fuel b = Simple.skip D fuel b.
Proof. reflexivity. Qed.

(* ---- the reader primitives are functions of the suffix ---- *)
Lemma rd_readn1_cong : forall z z', suf z = suf z' -> pr2 (rd_readn1 z) = pr2 (rd_readn1 z').
Proof.
  intros [p s] [p' s'] H. cbn [suf] in H. subst s'. unfold rd_readn1. cbn [suf rpre].
  destruct s as [| b r]; reflexivity.
Qed.

Lemma rd_readn_cong : forall k z z', suf z = suf z' -> pr2 (rd_readn k z) = pr2 (rd_readn k z').
Proof.
  intros k [p s] [p' s'] H. cbn [suf] in H. subst s'. unfold rd_readn, rd_fwd. cbn [suf rpre].
  destruct (length s <? k)%nat; reflexivity.
Qed.

Lemma rd_skip_cong : forall n z z', suf z = suf z' -> pr1 (rd_skip n z) = pr1 (rd_skip n z').
Proof.
  intros n [p s] [p' s'] H. cbn [suf] in H. subst s'. unfold rd_skip, rd_fwd. cbn [suf rpre].
  destruct (llen s <? n); reflexivity.
Qed.

Lemma skip_len_cong : forall lw z z', suf z = suf z' -> pr2 (skip_len lw z) = pr2 (skip_len lw z').
Proof.
  intros lw z z' H. unfold skip_len.
  destruct lw as [| p]; [cbn [pr2]; rewrite H; reflexivity |].
  repeat match goal with
         | |- context [match ?p with xI _ => _ | xO _ => _ | xH => _ end] => destruct p
         end;
    try (cbn [pr2]; rewrite H; reflexivity); apply rd_readn_cong; exact H.
Qed.

Lemma skip_head_cong : forall c lw z z', suf z = suf z' -> pr2 (skip_head c lw z) = pr2 (skip_head c lw z').
Proof.
  intros c lw z z' H. unfold skip_head.
  pose proof (skip_len_cong lw z z' H) as Hl.
  destruct (skip_len lw z) as [[len z1] | e |], (skip_len lw z') as [[len' z1'] | e' |];
    cbn [pr2] in Hl; try discriminate; cbn [bind]; [| inversion Hl; reflexivity | reflexivity].
  inversion Hl as [[Hlen Hs]]. subst len'.
  destruct (cclassify c); cbn [pr2]; try reflexivity; try (rewrite Hs; reflexivity).
  pose proof (rd_readn1_cong z1 z1' Hs) as Hr.
  destruct (rd_readn1 z1) as [[t z2] | e |], (rd_readn1 z1') as [[t' z2'] | e' |];
    cbn [pr2] in Hr; try discriminate; cbn [bind pr2]; [| inversion Hr; reflexivity | reflexivity].
  inversion Hr as [[Ht Hs2]]. reflexivity.
Qed.

Section M.
Variable D : dopts.

(* does c (followed by r) open a non-empty array / map?  its number of values and what follows *)
Definition sp_cont (c : N) (r : list N) : option (N * list N) :=
  match sclassify c with
  | SLen lw =>
    match skip_head c lw (rd_init r) with
    | Ok (ck, len, z2) =>
      if len =? 0 then None
      else match ck with
           | CArr => Some (len, suf z2)
           | CMap => Some (2 * len, suf z2)
           | _ => None
           end
    | _ => None
    end
  | _ => None
  end.

(* leaves are consumed by the wire model's walker itself: one call (fuel 1), fresh reader *)
Definition sp_head (b : list N) : res shape :=
  match b with
  | [] => Err EEof
  | c :: r =>
    match sp_cont c r with
    | Some (n, r1) => Ok (SSeq n r1)
    | None => do r' <- pr1 (fst (skipv D 1 0%Z 0 c (rd_init r))) ;; Ok (SLeaf r')
    end
  end.

Definition sp_break (c : N) : bool := false.                       (* simple has no break byte *)
Definition sp_depth_ok (d : Z) : bool := negb (maxdepth D <=? d + 1)%Z.

Notation W := (walk sp_head sp_break sp_depth_ok).
Notation Wn := (walk_n sp_head sp_break sp_depth_ok).

Lemma skipv_S : forall f d lvl c z, skipv D (S f) d lvl c z =
  match sclassify c with
  | SPass => (Ok z, lvl)
  | SRead1 => ((do (_, z1) <- rd_readn1 z ;; Ok z1), lvl)
  | SSkip n => (rd_skip n z, lvl)
  | STime => ((do (n, z1) <- rd_readn1 z ;; rd_skip n z1), lvl)
  | SLen lw =>
    match skip_head c lw z with
    | Err e => (Err e, lvl) | OutOfFuel => (OutOfFuel, lvl)
    | Ok (ck, len, z2) =>
      if len =? 0 then (Ok z2, lvl)
      else match ck with
           | CArr => match depth_incr D d with
                     | Ok d' => skip_elems D f d' lvl len z2
                     | Err e => (Err e, lvl) | OutOfFuel => (OutOfFuel, lvl)
                     end
           | CMap => match depth_incr D d with
                     | Ok d' => skip_elems D f d' lvl (2 * len) z2
                     | Err e => (Err e, lvl) | OutOfFuel => (OutOfFuel, lvl)
                     end
           | _ => (rd_skip len z2, lvl)
           end
    end
  end.
Proof. reflexivity. Qed.

Lemma skip_elems_eq : forall fuel d lvl cnt z, skip_elems D fuel d lvl cnt z =
  if cnt =? 0 then (Ok z, lvl) else
  match fuel with
  | O => (OutOfFuel, lvl)
  | S f =>
    match rd_readn1 z with
    | Err e => (Err e, lvl) | OutOfFuel => (OutOfFuel, lvl)
    | Ok (c, z1) =>
      let a := skipv D f d (S lvl) c z1 in
      match fst a with
      | Ok z2 => let b := skip_elems D f d lvl (N.pred cnt) z2 in (fst b, Nat.max (snd a) (snd b))
      | Err e => (Err e, snd a)
      | OutOfFuel => (OutOfFuel, snd a)
      end
    end
  end.
Proof. intros [| f] d lvl cnt z; reflexivity. Qed.

(* a leaf: the outcome does not depend on fuel, depth, level nor on the consumed prefix *)
Lemma leaf_view : forall f d lvl c z, sp_cont c (suf z) = None ->
  pr1 (fst (skipv D (S f) d lvl c z)) = pr1 (fst (skipv D 1 0%Z 0 c (rd_init (suf z)))).
Proof.
  intros f d lvl c z Hc. rewrite !skipv_S. unfold sp_cont in Hc.
  assert (Hs : suf z = suf (rd_init (suf z))) by reflexivity.
  destruct (sclassify c) as [| | n | | lw]; cbn [fst].
  - reflexivity.
  - pose proof (rd_readn1_cong z _ Hs) as Hr.
    destruct (rd_readn1 z) as [[t z1] | e |], (rd_readn1 (rd_init (suf z))) as [[t' z1'] | e' |];
      cbn [pr2] in Hr; try discriminate; cbn [bind pr1]; [| inversion Hr; reflexivity | reflexivity].
    inversion Hr as [[Ht Hs1]]. reflexivity.
  - apply rd_skip_cong. exact Hs.
  - pose proof (rd_readn1_cong z _ Hs) as Hr.
    destruct (rd_readn1 z) as [[t z1] | e |], (rd_readn1 (rd_init (suf z))) as [[t' z1'] | e' |];
      cbn [pr2] in Hr; try discriminate; cbn [bind pr1]; [| inversion Hr; reflexivity | reflexivity].
    inversion Hr as [[Ht Hs1]]. apply rd_skip_cong. exact Hs1.
  - pose proof (skip_head_cong c lw z _ Hs) as Hh.
    destruct (skip_head c lw z) as [[[ck len] z2] | e |], (skip_head c lw (rd_init (suf z))) as [[[ck' len'] z2'] | e' |];
      cbn [pr2] in Hh; try discriminate; cbn [fst pr1]; [| inversion Hh; reflexivity | reflexivity].
    inversion Hh as [[Hck Hlen Hs2]]. subst ck' len'.
    destruct (len =? 0); [cbn [fst pr1]; rewrite Hs2; reflexivity |].
    destruct ck; try discriminate; cbn [fst]; apply rd_skip_cong; exact Hs2.
Qed.

(* a non-empty container: depthIncr, then the loop over n values from a reader whose suffix is r1 *)
Lemma cont_view : forall f d lvl c z n r1, sp_cont c (suf z) = Some (n, r1) ->
  exists z2, suf z2 = r1 /\
    skipv D (S f) d lvl c z =
      match depth_incr D d with
      | Ok d' => skip_elems D f d' lvl n z2
      | Err e => (Err e, lvl) | OutOfFuel => (OutOfFuel, lvl)
      end.
Proof.
  intros f d lvl c z n r1 Hc. rewrite skipv_S. unfold sp_cont in Hc.
  assert (Hs : suf z = suf (rd_init (suf z))) by reflexivity.
  destruct (sclassify c) as [| | k | | lw]; try discriminate.
  pose proof (skip_head_cong c lw z _ Hs) as Hh.
  destruct (skip_head c lw z) as [[[ck len] z2] | e |], (skip_head c lw (rd_init (suf z))) as [[[ck' len'] z2'] | e' |];
    cbn [pr2] in Hh; try discriminate.
  inversion Hh as [[Hck Hlen Hs2]]. subst ck' len'.
  destruct (len =? 0); [discriminate |].
  destruct ck; try discriminate; inversion Hc; subst; exists z2; split; try exact Hs2; reflexivity.
Qed.

(* the head parser makes progress: at least the descriptor byte is consumed *)
Lemma sp_head_adv : forall b s, sp_head b = Ok s -> (length (rest_of s) < length b)%nat.
Proof.
  intros [| c r] s H; [discriminate |]. cbn [sp_head] in H. cbn [length].
  destruct (sp_cont c r) as [[n r1] |] eqn:Ec.
  - inversion H; subst. cbn [rest_of]. unfold sp_cont in Ec.
    destruct (sclassify c) as [| | k | | lw]; try discriminate.
    pose proof (good_skip_head c lw (rd_init r)) as G.
    destruct (skip_head c lw (rd_init r)) as [[[ck len] z2] | e |]; try discriminate.
    cbn [good fst snd] in G. unfold head_post in G. cbn [rd_init suf] in G.
    destruct (len =? 0); [discriminate |].
    destruct ck; try discriminate; inversion Ec; subst; lia.
  - pose proof (leaf_view (2 * length r) 0%Z 0%nat c (rd_init r) Ec) as E.
    change (suf (rd_init r)) with r in E. rewrite <- E in H.
    destruct (proj1 (skip_total_gen (S (2 * length r))) D 0%Z 0%nat c (rd_init r)) as [G _]; [cbn [rd_init suf]; lia |].
    destruct (fst (skipv D (S (2 * length r)) 0 0 c (rd_init r))) as [z' | e |]; cbn [pr1 bind] in H; try discriminate.
    inversion H; subst. cbn [rest_of]. cbn [good] in G. unfold le_suf in G. cbn [rd_init suf] in G. lia.
Qed.

(* "the model ran out of fuel, or both computed the same outcome" *)
Definition sim (x y : res (list N)) : Prop := x = OutOfFuel \/ x = y.

Lemma walk_S' : forall F d b, W (S F) d b =
  match sp_head b with
  | Err e => (Err e, 1%nat)
  | OutOfFuel => (OutOfFuel, 1%nat)
  | Ok (SLeaf r) => (Ok r, 1%nat)
  | Ok (SSeq n r) => if sp_depth_ok d then stepped (Wn F (d + 1)%Z n r) else (Err EDepth, 1%nat)
  | Ok (SIndef p r) => if sp_depth_ok d then stepped (walk_i sp_head sp_break sp_depth_ok F (d + 1)%Z p r) else (Err EDepth, 1%nat)
  end.
Proof. reflexivity. Qed.

Lemma fst_walk_n_S : forall F d n b, fst (Wn (S F) d n b) =
  if (n =? 0)%N then Ok b
  else match fst (W F d b) with
       | Ok b1 => fst (Wn F d (n - 1)%N b1)
       | Err e => Err e
       | OutOfFuel => OutOfFuel
       end.
Proof.
  intros. change (Wn (S F) d n b) with
    (if (n =? 0)%N then (Ok b, 1%nat)
     else let x := W F d b in
          match fst x with
          | Ok b1 => let y := Wn F d (n - 1)%N b1 in (fst y, S (snd x + snd y))
          | Err e => (Err e, S (snd x))
          | OutOfFuel => (OutOfFuel, S (snd x))
          end).
  destruct (n =? 0)%N; [reflexivity |]. cbv zeta.
  destruct (fst (W F d b)); reflexivity.
Qed.

(* the skeleton on (descriptor :: remaining bytes) against the model's walker standing after the
   descriptor; the loops against each other *)
Theorem sp_sim : forall f,
  (forall F d lvl c z, (f + 1 <= F)%nat -> sim (pr1 (fst (skipv D f d lvl c z))) (fst (W F d (c :: suf z)))) /\
  (forall F d lvl n z, (f + 1 <= F)%nat -> sim (pr1 (fst (skip_elems D f d lvl n z))) (fst (Wn F d n (suf z)))).
Proof.
  induction f as [| f (IH1 & IH2)].
  - split.
    + intros F d lvl c z _. left. reflexivity.
    + intros F d lvl n z HF. rewrite skip_elems_eq. destruct F as [| F]; [lia |]. rewrite fst_walk_n_S.
      destruct (n =? 0); [right; reflexivity | left; reflexivity].
  - split.
    + intros F d lvl c z HF. destruct F as [| F]; [lia |]. rewrite walk_S'. cbn [sp_head].
      destruct (sp_cont c (suf z)) as [[n r1] |] eqn:Ec.
      * destruct (cont_view f d lvl c z n r1 Ec) as (z2 & Hz2 & ->).
        unfold depth_incr, sp_depth_ok. destruct (maxdepth D <=? d + 1)%Z; cbn [negb fst pr1]; [right; reflexivity |].
        unfold stepped. cbn [fst]. rewrite <- Hz2. apply IH2. lia.
      * rewrite (leaf_view f d lvl c z Ec).
        destruct (pr1 (fst (skipv D 1 0%Z 0 c (rd_init (suf z))))) as [r' | e |]; cbn [bind fst];
          [right | right | left]; reflexivity.
    + intros F d lvl n z HF. destruct F as [| F]; [lia |]. rewrite skip_elems_eq, fst_walk_n_S.
      destruct (n =? 0); [right; reflexivity |].
      destruct z as [p [| c r]]; unfold rd_readn1; cbn [suf rpre].
      * destruct F as [| F]; [lia |]. right. reflexivity.
      * specialize (IH1 F d (S lvl) c (mkrd (c :: p) r) ltac:(lia)). cbn [suf] in IH1. cbv zeta.
        destruct IH1 as [E | E].
        -- left. destruct (fst (skipv D f d (S lvl) c (mkrd (c :: p) r))) as [z2 | e |]; cbn [pr1] in E; try discriminate.
           reflexivity.
        -- rewrite <- E.
           destruct (fst (skipv D f d (S lvl) c (mkrd (c :: p) r))) as [z2 | e |]; cbn [pr1 fst];
             [| right; reflexivity | left; reflexivity].
           rewrite N.pred_sub. apply IH2. lia.
Qed.

(* nextValueBytes from a fresh reader: the recording window starts at 0, so its check never fires *)
Lemma sp_skip_at_eq : forall d0 f b, sp_skip_at D d0 f b =
  match b with
  | [] => Err EEof
  | c :: r => pr1 (fst (skipv D f d0 1 c (mkrd [c] r)))
  end.
Proof.
  intros d0 f [| c r]; [reflexivity |].
  unfold sp_skip_at, nvb, nvb_i, rd_init, rd_readn1. cbn [suf rpre fst snd].
  destruct (fst (skipv D f d0 1 c (mkrd [c] r))) as [z2 | e |]; cbn [pr1 bind]; try reflexivity.
  replace (rd_cur z2 <? rd_cur (mkrd [] (c :: r))) with false; [reflexivity |].
  symmetry. apply N.ltb_ge. change (rd_cur (mkrd [] (c :: r))) with 0. lia.
Qed.

(* general form: ANY model fuel f that the wire model's totality lemma accepts, skeleton fuel > f *)
Lemma simple_walker_sim : forall (d0 : Z) (b : list N) (f F : nat),
  (2 * length b + 1 <= f)%nat -> (f + 1 <= F)%nat -> fst (W F d0 b) = sp_skip_at D d0 f b.
Proof.
  intros d0 b f F Hf HF.
  pose proof (W_simple_skip_total_lemma D d0 (rd_init b) f Hf) as Ht.
  assert (Hne : sp_skip_at D d0 f b <> OutOfFuel).
  { unfold sp_skip_at. destruct (nvb D f d0 (rd_init b)) as [[v z] | e |]; cbn [bind]; congruence. }
  rewrite sp_skip_at_eq in *. destruct b as [| c r].
  - destruct F as [| F]; [lia |]. reflexivity.
  - destruct (proj1 (sp_sim f) F d0 1%nat c (mkrd [c] r) HF) as [E | E]; [contradiction |].
    symmetry. exact E.
Qed.

(* for EVERY input b, entry depth d0 and option vector: the step-counting walker over simple's head
   parser returns what the simple wire model's nextValueBytes walker returns (standard fuel
   dec_fuel b = 2*len + 2; any skeleton fuel >= 2*dec_fuel b + 1), and takes at most
   4 * length b + 2 steps (calls + loop iterations), whatever lengths are claimed, with any fuel *)
Lemma simple_walker_steps : forall (d0 : Z) (b : list N),
  (forall F, (2 * dec_fuel b + 1 <= F)%nat -> fst (W F d0 b) = sp_skip_at D d0 (dec_fuel b) b) /\
  (forall F, (snd (W F d0 b) <= 4 * length b + 2)%nat).
Proof.
  intros d0 b. split.
  - intros F HF. apply simple_walker_sim; unfold dec_fuel in *; lia.
  - intros F. apply steps_lemma. exact sp_head_adv.
Qed.

End M.

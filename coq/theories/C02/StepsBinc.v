(* C02/StepsBinc — the step-counting walker skeleton of C02/Steps.v instantiated with the head
   parser of the binc skip walker (Wire/Binc.v skip / skip_entry / loopN / skip_scalar, i.e.
   bincDecDriver.nextValueBytes / nextValueBytesBdReadR):

     bn_head   reads the descriptor byte bd = vd<<4|vs; for an array its length n (fn_len): SSeq n;
               for a map of n pairs: SSeq (2n) — the 2n values are walked one after the other;
               everything else is a leaf, consumed by the wire model's own skip_scalar (payload,
               length field + body, symbol id + definition, ext tag + body, bad descriptors);
     depth policy  depthIncr around EVERY container (empty ones too): one more level is allowed iff
               depth + 1 < MaxDepth  (the model's depth is an N, the skeleton's a Z: Z.of_N);
     no break byte (binc has no indefinite-length containers).

   State.  The binc walker threads the decoder's symbol table (dstate): a symbol definition met by
   the walker is recorded (F11-1).  The table decides WHICH string a symbol id stands for, never
   HOW MANY bytes are consumed: the rest-of-input component of skip_scalar does not depend on the
   table (skip_scalar_rest_indep).  So the skeleton — which has no state — runs the leaf code on the
   empty table, and computes the rest-of-input projection [prj] of the model's result, for EVERY
   starting table.

   Fuel.  The model has two fuels: rf (recursion, = MaxDepth) and lf (loops, one unit per iteration,
   handed down to the nested calls).  bn_sim: whenever the model's skip (rf, lf) is not out of fuel,
   the skeleton with fuel >= 3*lf + 2 returns the same outcome (a map iteration of the model walks
   two values, the skeleton spends two units on it).  With the wire model's own totality
   (BincProofs.skip_not_oof; it needs 1 <= MaxDepth, as C02_binc_terminates does) the skeleton's
   outcome IS the model's, for every input; and by the generic bound (StepsProofs.steps_lemma) the
   number of its calls + loop iterations is <= 4*len + 2.  The head consumes at least the
   descriptor byte (bn_head_adv). *)
From Coq Require Import List NArith ZArith Lia Bool.
From Verif Require Import Base.Outcome Gen.Consts Wire.Item Wire.Binc Wire.BincProofs C02.Steps C02.StepsProofs.
Import ListNotations.
Open Scope N_scope.

(* the rest-of-input component of a result of the stateful walker *)
Definition prj {A} (x : res (A * list N * dstate)) : res (list N) :=
  match x with Ok (_, r, _) => Ok r | Err e => Err e | OutOfFuel => OutOfFuel end.

Lemma rd_symbol_rest_indep : forall vs st st' inp, prj (rd_symbol vs st inp) = prj (rd_symbol vs st' inp).
Proof.
  intros vs st st' inp. unfold rd_symbol.
  destruct (rd_be _ inp) as [[id r1] | e |]; cbn [bind prj]; try reflexivity.
  destruct (vs / 4 mod 2 =? 0); [reflexivity |].
  destruct (rd_be _ r1) as [[l r2] | e |]; cbn [bind prj]; try reflexivity.
  destruct (take l r2) as [[s r3] | e |]; reflexivity.
Qed.

(* the symbol table does not influence where the walker goes *)
Lemma skip_scalar_rest_indep : forall vd vs st st' r,
  prj (skip_scalar vd vs st r) = prj (skip_scalar vd vs st' r).
Proof.
  intros vd vs st st' r. unfold skip_scalar.
  destruct (vd =? vdSpecial). { destruct (vs <=? spNegOne); reflexivity. }
  destruct (vd =? vdSmallInt); [reflexivity |].
  destruct ((vd =? vdPosInt) || (vd =? vdNegInt)).
  { destruct (dec_uint vs r) as [[a b] | e |]; reflexivity. }
  destruct (vd =? vdFloat).
  { destruct ((vs mod 8 =? flBin32) || (vs mod 8 =? flBin64)); [| reflexivity].
    destruct (vs / 8 =? 0).
    - destruct (take _ r) as [[a b] | e |]; reflexivity.
    - destruct r as [| l r1]; [reflexivity |]. destruct (8 <? l); [reflexivity |].
      destruct (take l r1) as [[a b] | e |]; reflexivity. }
  destruct ((vd =? vdString) || (vd =? vdByteArray)).
  { destruct (fn_len vs r) as [[a b] | e |]; cbn [bind]; try reflexivity.
    destruct (take a b) as [[a' b'] | e |]; reflexivity. }
  destruct (vd =? vdSymbol).
  { pose proof (rd_symbol_rest_indep vs st st' r) as H.
    destruct (rd_symbol vs st r) as [[[a b] c] | e |], (rd_symbol vs st' r) as [[[a' b'] c'] | e' |];
      cbn [prj] in H; try discriminate; cbn [bind prj]; exact H. }
  destruct (vd =? vdTimestamp).
  { destruct (take vs r) as [[a b] | e |]; reflexivity. }
  destruct (vd =? vdCustomExt); [| reflexivity].
  destruct (fn_len vs r) as [[a b] | e |]; cbn [bind]; try reflexivity.
  destruct b as [| t b]; [reflexivity |].
  destruct (take a b) as [[a' b'] | e |]; reflexivity.
Qed.

Section M.
Variable o : dopts.

(* the leaf cases of nextValueBytesBdReadR, run on the empty symbol table *)
Definition bn_head (b : list N) : res shape :=
  match b with
  | [] => Err EEof
  | bd :: r =>
    let vd := bd / 16 in
    let vs := bd mod 16 in
    if vd =? vdArray then do (n, r1) <- fn_len vs r ;; Ok (SSeq n r1)
    else if vd =? vdMap then do (n, r1) <- fn_len vs r ;; Ok (SSeq (2 * n) r1)
    else do r' <- prj (skip_scalar vd vs dstate0 r) ;; Ok (SLeaf r')
  end.

Definition bn_break (c : N) : bool := false.                       (* binc has no break byte *)
Definition bn_depth_ok (d : Z) : bool := negb (Z.of_N (maxdepth o) <=? d + 1)%Z.

Notation W := (walk bn_head bn_break bn_depth_ok).
Notation Wn := (walk_n bn_head bn_break bn_depth_ok).

(* the head parser makes progress: at least the descriptor byte is consumed *)
Lemma bn_head_adv : forall b s, bn_head b = Ok s -> (length (rest_of s) < length b)%nat.
Proof.
  intros [| bd r] s H; [discriminate |]. cbn [bn_head] in H. cbv zeta in H. cbn [length].
  destruct (bd / 16 =? vdArray).
  { destruct (fn_len (bd mod 16) r) as [[n r1] | e |] eqn:E; cbn [bind] in H; try discriminate.
    inversion H; subst. cbn [rest_of]. apply fn_len_shorter in E. lia. }
  destruct (bd / 16 =? vdMap).
  { destruct (fn_len (bd mod 16) r) as [[n r1] | e |] eqn:E; cbn [bind] in H; try discriminate.
    inversion H; subst. cbn [rest_of]. apply fn_len_shorter in E. lia. }
  destruct (skip_scalar (bd / 16) (bd mod 16) dstate0 r) as [[[u r'] st'] | e |] eqn:E; cbn [prj bind] in H; try discriminate.
  inversion H; subst. cbn [rest_of]. apply skip_scalar_shorter in E. lia.
Qed.

(* "the model ran out of fuel, or both computed the same outcome" *)
Definition sim (x y : res (list N)) : Prop := x = OutOfFuel \/ x = y.

Lemma walk_S' : forall F d b, W (S F) d b =
  match bn_head b with
  | Err e => (Err e, 1%nat)
  | OutOfFuel => (OutOfFuel, 1%nat)
  | Ok (SLeaf r) => (Ok r, 1%nat)
  | Ok (SSeq n r) => if bn_depth_ok d then stepped (Wn F (d + 1)%Z n r) else (Err EDepth, 1%nat)
  | Ok (SIndef p r) => if bn_depth_ok d then stepped (walk_i bn_head bn_break bn_depth_ok F (d + 1)%Z p r) else (Err EDepth, 1%nat)
  end.
Proof. reflexivity. Qed.

Lemma fst_walk_n_S : forall F d n b, fst (Wn (S F) d n b) =
  if (n =? 0)%N then Ok b
  else match fst (W F d b) with
       | Ok b1 => fst (Wn F d (n - 1)%N b1)
       | Err e => Err e
       | OutOfFuel => OutOfFuel
       end.
Proof.
  intros. change (Wn (S F) d n b) with
    (if (n =? 0)%N then (Ok b, 1%nat)
     else let x := W F d b in
          match fst x with
          | Ok b1 => let y := Wn F d (n - 1)%N b1 in (fst y, S (snd x + snd y))
          | Err e => (Err e, S (snd x))
          | OutOfFuel => (OutOfFuel, S (snd x))
          end).
  destruct (n =? 0)%N; [reflexivity |]. cbv zeta.
  destruct (fst (W F d b)); reflexivity.
Qed.

Lemma skip_S : forall rf' lf dep st inp, skip o (S rf') lf dep st inp =
  match inp with
  | [] => Err EEof
  | bd :: r =>
      let vd := bd / 16 in
      let vs := bd mod 16 in
      if vd =? vdArray then
        do (n, r1) <- fn_len vs r ;;
        if maxdepth o <=? dep + 1 then Err EDepth
        else do (_, r2, st2) <- loopN (fun g' st inp => skip o rf' g' (dep + 1) st inp) lf n st r1 ;;
             Ok (tt, r2, st2)
      else if vd =? vdMap then
        do (n, r1) <- fn_len vs r ;;
        if maxdepth o <=? dep + 1 then Err EDepth
        else do (_, r2, st2) <- loopN (fun g' st inp => skip_entry (skip o rf' g' (dep + 1)) st inp) lf n st r1 ;;
             Ok (tt, r2, st2)
      else skip_scalar vd vs st r
  end.
Proof. reflexivity. Qed.

Section Loops.
  Variable rf : nat.
  Hypothesis Hs : forall lf F dep st inp, (3 * lf + 2 <= F)%nat ->
    sim (prj (skip o rf lf dep st inp)) (fst (W F (Z.of_N dep) inp)).

  Lemma loop_arr_sim : forall lf F n dep st inp, (3 * lf + 1 <= F)%nat ->
    sim (prj (loopN (fun g' st inp => skip o rf g' dep st inp) lf n st inp)) (fst (Wn F (Z.of_N dep) n inp)).
  Proof.
    induction lf as [| g IH]; intros F n dep st inp HF; (destruct F as [| F]; [lia |]); rewrite fst_walk_n_S.
    - destruct (N.eqb_spec n 0) as [-> | Hn]; [right; reflexivity |].
      left. cbn [loopN]. replace (n =? 0) with false by (symmetry; apply N.eqb_neq; exact Hn). reflexivity.
    - destruct (N.eqb_spec n 0) as [-> | Hn]; [right; reflexivity |].
      rewrite loopN_S by exact Hn.
      pose proof (Hs g F dep st inp ltac:(lia)) as E.
      destruct (skip o rf g dep st inp) as [[[u r1] st1] | e |]; cbn [bind prj] in *.
      + destruct E as [E | E]; [discriminate |]. rewrite <- E.
        specialize (IH F (n - 1) dep st1 r1 ltac:(lia)).
        destruct (loopN _ g (n - 1) st1 r1) as [[[xs i2] s2] | e |]; cbn [bind prj] in *; exact IH.
      + destruct E as [E | E]; [discriminate |]. rewrite <- E. right. reflexivity.
      + left. reflexivity.
  Qed.

  Lemma loop_map_sim : forall lf F n dep st inp, (3 * lf + 1 <= F)%nat ->
    sim (prj (loopN (fun g' st inp => skip_entry (skip o rf g' dep) st inp) lf n st inp))
        (fst (Wn F (Z.of_N dep) (2 * n) inp)).
  Proof.
    induction lf as [| g IH]; intros F n dep st inp HF; (destruct F as [| F]; [lia |]); rewrite fst_walk_n_S;
      replace (2 * n =? 0) with (n =? 0) by (destruct (N.eqb_spec n 0), (N.eqb_spec (2 * n) 0); lia).
    - destruct (N.eqb_spec n 0) as [-> | Hn]; [right; reflexivity |].
      left. cbn [loopN]. replace (n =? 0) with false by (symmetry; apply N.eqb_neq; exact Hn). reflexivity.
    - destruct (N.eqb_spec n 0) as [-> | Hn]; [right; reflexivity |].
      rewrite loopN_S by exact Hn. unfold skip_entry at 1.
      pose proof (Hs g F dep st inp ltac:(lia)) as E.
      destruct (skip o rf g dep st inp) as [[[u r1] st1] | e |]; cbn [bind prj] in *.
      + destruct E as [E | E]; [discriminate |]. rewrite <- E.
        destruct F as [| F]; [lia |]. rewrite fst_walk_n_S.
        replace (2 * n - 1 =? 0) with false by (symmetry; apply N.eqb_neq; lia).
        pose proof (Hs g F dep st1 r1 ltac:(lia)) as E2.
        destruct (skip o rf g dep st1 r1) as [[[u2 r2] st2] | e |]; cbn [bind prj] in *.
        * destruct E2 as [E2 | E2]; [discriminate |]. rewrite <- E2.
          replace (2 * n - 1 - 1) with (2 * (n - 1)) by lia.
          specialize (IH F (n - 1) dep st2 r2 ltac:(lia)).
          destruct (loopN _ g (n - 1) st2 r2) as [[[xs i2] s2] | e |]; cbn [bind prj] in *; exact IH.
        * destruct E2 as [E2 | E2]; [discriminate |]. rewrite <- E2. right. reflexivity.
        * left. reflexivity.
      + destruct E as [E | E]; [discriminate |]. rewrite <- E. right. reflexivity.
      + left. reflexivity.
  Qed.
End Loops.

Lemma depth_check_eq : forall a dep, (Z.of_N a <=? Z.of_N dep + 1)%Z = (a <=? dep + 1).
Proof. intros a dep. destruct (Z.leb_spec (Z.of_N a) (Z.of_N dep + 1)), (N.leb_spec a (dep + 1)); try reflexivity; lia. Qed.

Theorem bn_sim : forall rf lf F dep st inp, (3 * lf + 2 <= F)%nat ->
  sim (prj (skip o rf lf dep st inp)) (fst (W F (Z.of_N dep) inp)).
Proof.
  induction rf as [| rf IH]; intros lf F dep st inp HF; [left; reflexivity |].
  destruct F as [| F]; [lia |]. rewrite walk_S', skip_S.
  destruct inp as [| bd r]; [right; reflexivity |]. cbn [bn_head]. cbv zeta.
  destruct (bd / 16 =? vdArray).
  { destruct (fn_len (bd mod 16) r) as [[n r1] | e |]; cbn [bind fst prj]; [| right; reflexivity | left; reflexivity].
    unfold bn_depth_ok. rewrite depth_check_eq.
    destruct (maxdepth o <=? dep + 1); cbn [negb fst prj]; [right; reflexivity |].
    unfold stepped. cbn [fst]. replace (Z.of_N dep + 1)%Z with (Z.of_N (dep + 1)) by lia.
    pose proof (loop_arr_sim rf IH lf F n (dep + 1) st r1 ltac:(lia)) as E.
    destruct (loopN _ lf n st r1) as [[[xs i2] s2] | e |]; cbn [bind prj] in *; exact E. }
  destruct (bd / 16 =? vdMap).
  { destruct (fn_len (bd mod 16) r) as [[n r1] | e |]; cbn [bind fst prj]; [| right; reflexivity | left; reflexivity].
    unfold bn_depth_ok. rewrite depth_check_eq.
    destruct (maxdepth o <=? dep + 1); cbn [negb fst prj]; [right; reflexivity |].
    unfold stepped. cbn [fst]. replace (Z.of_N dep + 1)%Z with (Z.of_N (dep + 1)) by lia.
    pose proof (loop_map_sim rf IH lf F n (dep + 1) st r1 ltac:(lia)) as E.
    destruct (loopN _ lf n st r1) as [[[xs i2] s2] | e |]; cbn [bind prj] in *; exact E. }
  rewrite (skip_scalar_rest_indep (bd / 16) (bd mod 16) st dstate0 r).
  destruct (prj (skip_scalar (bd / 16) (bd mod 16) dstate0 r)) as [r' | e |]; cbn [bind fst];
    [right | right | left]; reflexivity.
Qed.

(* general form: any fuels the wire model's totality lemma accepts *)
Lemma binc_walker_sim : forall (rf lf F : nat) (d0 : N) (st : dstate) (b : list N),
  (1 <= rf)%nat -> maxdepth o <= N.of_nat rf + d0 -> (2 * length b + 1 <= lf)%nat -> (3 * lf + 2 <= F)%nat ->
  fst (W F (Z.of_N d0) b) = prj (skip o rf lf d0 st b).
Proof.
  intros rf lf F d0 st b H1 Hm Hl HF.
  destruct (bn_sim rf lf F d0 st b HF) as [E | E].
  - exfalso. apply (skip_not_oof rf o lf d0 st b H1 Hm Hl).
    destruct (skip o rf lf d0 st b) as [[[u r] s] | e |]; cbn [prj] in E; try discriminate. reflexivity.
  - symmetry. exact E.
Qed.

(* for EVERY input b, entry depth d0, symbol table st and option vector with MaxDepth >= 1: the
   step-counting walker over binc's head parser returns the rest-of-input projection of what the binc
   wire model's skip returns (standard fuels fuel_r o = MaxDepth, fuel_l b = 2*len + 1; any skeleton
   fuel >= 3*fuel_l b + 2) — in particular of skip_value (d0 = 0) — and takes at most
   4 * length b + 2 steps (calls + loop iterations) from any depth, whatever lengths are claimed,
   with any fuel *)
Lemma binc_walker_steps : forall (d0 : N) (st : dstate) (b : list N), 1 <= maxdepth o ->
  (forall F, (3 * fuel_l b + 2 <= F)%nat ->
     fst (W F (Z.of_N d0) b) = prj (skip o (fuel_r o) (fuel_l b) d0 st b)) /\
  (forall F, (3 * fuel_l b + 2 <= F)%nat -> fst (W F 0%Z b) = prj (skip_value o st b)) /\
  (forall F (d : Z), (snd (W F d b) <= 4 * length b + 2)%nat).
Proof.
  intros d0 st b Hmd. repeat apply conj.
  - intros F HF. apply binc_walker_sim; unfold fuel_r, fuel_l in *; lia.
  - intros F HF. unfold skip_value. apply (binc_walker_sim (fuel_r o) (fuel_l b) F 0 st b); unfold fuel_r, fuel_l in *; lia.
  - intros F d. apply steps_lemma. exact bn_head_adv.
Qed.

End M.

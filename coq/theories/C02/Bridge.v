(* C02/Bridge — the wire-layer totality lemmas in the shape Properties/C02.v states them:
   decoding / skipping ANY byte list with fuel K*(length b + 1), K = 2, never returns OutOfFuel,
   hence every outcome is a value or an Err class (what the Decode boundary recovers). *)
From Coq Require Import List NArith ZArith Lia Bool Arith.
From Verif Require Import Base.Outcome Wire.Item Gen.Consts.
From Verif Require Wire.Cbor Wire.CborTotal.
From Verif Require Wire.Msgpack Wire.MsgpackProofs.
From Verif Require Wire.Simple Wire.SimpleTotal.
From Verif Require Wire.Binc Wire.BincProofs.
From Verif Require Wire.Json Wire.JsonProofs.
Import ListNotations.

Definition K : nat := 2.
Definition fuelK (b : list N) : nat := K * (length b + 1).

Lemma res_cases {A} : forall r : res A, r <> OutOfFuel -> (exists a, r = Ok a) \/ (exists e, r = Err e).
Proof. intros [a | e |] H; [left; eauto | right; eauto | contradiction]. Qed.

(* cbor: fuel_for b = 2*len + 2 = K*(len+1) *)
Lemma cbor_terminates : forall (D : Cbor.dopts) (b : list N),
  Cbor.dec_naked D (fuelK b) b <> OutOfFuel /\ (forall d, Cbor.skip D (fuelK b) d b <> OutOfFuel).
Proof.
  intros D b. replace (fuelK b) with (Cbor.fuel_for b) by (unfold fuelK, K, Cbor.fuel_for; lia). split.
  - apply CborTotal.dec_total_lemma.
  - intros d. apply CborTotal.skip_total_lemma.
Qed.

(* msgpack: the wire lemmas are stated for dec_fuel b = 2*len + 1 <= K*(len+1) *)
Lemma msgpack_terminates : forall (D : Msgpack.dopts) (b : list N),
  (Msgpack.dec_fuel b <= fuelK b)%nat /\
  Msgpack.dec_naked D (Msgpack.dec_fuel b) b <> OutOfFuel /\ (forall d0, Msgpack.skip_at D d0 (Msgpack.dec_fuel b) b <> OutOfFuel).
Proof.
  intros D b. repeat apply conj.
  - unfold Msgpack.dec_fuel, fuelK, K. lia.
  - apply MsgpackProofs.dec_total.
  - intros d0. apply MsgpackProofs.skip_total.
Qed.

(* simple: any fuel >= 2*len + 1, from any depth / cursor position *)
Lemma simple_terminates : forall (D : Simple.dopts) (b : list N) (dp : Z),
  Simple.dec D (fuelK b) dp b <> OutOfFuel /\ Simple.nvb D (fuelK b) dp (Simple.rd_init b) <> OutOfFuel.
Proof.
  intros D b dp. split.
  - apply SimpleTotal.W_simple_dec_total_lemma. unfold fuelK, K. lia.
  - apply SimpleTotal.W_simple_skip_total_lemma. cbn. unfold fuelK, K. lia.
Qed.

(* binc: loop fuel 2*len + 1 <= K*(len+1), recursion fuel MaxDepth (C14), any symbol table *)
Lemma binc_terminates : forall (o : Binc.dopts) (st : Binc.dstate) (b : list N),
  (1 <= Binc.maxdepth o)%N ->
  (Binc.fuel_l b <= fuelK b)%nat /\ Binc.dec_naked o st b <> OutOfFuel /\ Binc.skip_value o st b <> OutOfFuel.
Proof.
  intros o st b H. repeat apply conj.
  - unfold Binc.fuel_l, fuelK, K. lia.
  - apply BincProofs.dec_naked_total; assumption.
  - apply BincProofs.skip_value_total; assumption.
Qed.

(* json: only the skip / raw scanner has a totality lemma so far (it needs no fuel at all) *)
Lemma json_skip_terminates : forall (b : list N), Json.skip (fuelK b) b <> OutOfFuel.
Proof. intros b. apply JsonProofs.skip_total_lemma. Qed.

(* every outcome of every parser of the four binary formats is a value or an Err class *)
Lemma only_recoverable :
  (forall (D : Cbor.dopts) (b : list N) (d : Z),
     ((exists v, Cbor.dec_naked D (fuelK b) b = Ok v) \/ (exists e, Cbor.dec_naked D (fuelK b) b = Err e)) /\
     ((exists v, Cbor.skip D (fuelK b) d b = Ok v) \/ (exists e, Cbor.skip D (fuelK b) d b = Err e))) /\
  (forall (D : Msgpack.dopts) (b : list N) (d0 : Z),
     ((exists v, Msgpack.dec_naked D (Msgpack.dec_fuel b) b = Ok v) \/ (exists e, Msgpack.dec_naked D (Msgpack.dec_fuel b) b = Err e)) /\
     ((exists v, Msgpack.skip_at D d0 (Msgpack.dec_fuel b) b = Ok v) \/ (exists e, Msgpack.skip_at D d0 (Msgpack.dec_fuel b) b = Err e))) /\
  (forall (D : Simple.dopts) (b : list N) (dp : Z),
     ((exists v, Simple.dec D (fuelK b) dp b = Ok v) \/ (exists e, Simple.dec D (fuelK b) dp b = Err e)) /\
     ((exists v, Simple.nvb D (fuelK b) dp (Simple.rd_init b) = Ok v) \/ (exists e, Simple.nvb D (fuelK b) dp (Simple.rd_init b) = Err e))) /\
  (forall (o : Binc.dopts) (st : Binc.dstate) (b : list N), (1 <= Binc.maxdepth o)%N ->
     ((exists v, Binc.dec_naked o st b = Ok v) \/ (exists e, Binc.dec_naked o st b = Err e)) /\
     ((exists v, Binc.skip_value o st b = Ok v) \/ (exists e, Binc.skip_value o st b = Err e))).
Proof.
  repeat apply conj.
  - intros D b d. destruct (cbor_terminates D b) as [H1 H2]. split; apply res_cases; auto.
  - intros D b d0. destruct (msgpack_terminates D b) as (_ & H1 & H2). split; apply res_cases; auto.
  - intros D b dp. destruct (simple_terminates D b dp) as [H1 H2]. split; apply res_cases; auto.
  - intros o st b H. destruct (binc_terminates o st b H) as (_ & H1 & H2). split; apply res_cases; auto.
Qed.

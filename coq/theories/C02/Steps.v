(* C02/Steps — a step-counting skeleton of the recursive value walkers (nextValueBytesBdReadR of
   cbor / msgpack / simple / binc): read a head; a leaf is consumed with it; a container of n
   values (a map of n pairs: 2n) or of values until a break byte is walked value by value.
   The head parser is abstract: ANY function that consumes at least one byte.  Every call of
   the walker and every loop iteration costs one step.  (Model only; the proofs are in
   StepsProofs.v.) *)
From Coq Require Import List NArith ZArith Bool.
From Verif Require Import Base.Outcome.
Import ListNotations.

Inductive shape :=
| SLeaf (rest : list N)
| SSeq (n : N) (rest : list N)
| SIndef (pairs : bool) (rest : list N).

Definition rest_of (s : shape) : list N := match s with SLeaf r | SSeq _ r | SIndef _ r => r end.

Section Walk.
  Variable head : list N -> res shape.
  Variable is_break : N -> bool.
  Variable depth_ok : Z -> bool.

  Definition stepped {A} (x : res A * nat) : res A * nat := (fst x, S (snd x)).

  Fixpoint walk (f : nat) (d : Z) (b : list N) {struct f} : res (list N) * nat :=
    match f with
    | O => (OutOfFuel, 1%nat)
    | S f' =>
        match head b with
        | Err e => (Err e, 1%nat)
        | OutOfFuel => (OutOfFuel, 1%nat)
        | Ok (SLeaf r) => (Ok r, 1%nat)
        | Ok (SSeq n r) => if depth_ok d then stepped (walk_n f' (d + 1)%Z n r) else (Err EDepth, 1%nat)
        | Ok (SIndef p r) => if depth_ok d then stepped (walk_i f' (d + 1)%Z p r) else (Err EDepth, 1%nat)
        end
    end
  with walk_n (f : nat) (d : Z) (n : N) (b : list N) {struct f} : res (list N) * nat :=
    match f with
    | O => (OutOfFuel, 1%nat)
    | S f' =>
        if (n =? 0)%N then (Ok b, 1%nat)
        else
          let x := walk f' d b in
          match fst x with
          | Ok b1 => let y := walk_n f' d (n - 1)%N b1 in (fst y, S (snd x + snd y))
          | Err e => (Err e, S (snd x))
          | OutOfFuel => (OutOfFuel, S (snd x))
          end
    end
  with walk_i (f : nat) (d : Z) (pairs : bool) (b : list N) {struct f} : res (list N) * nat :=
    match f with
    | O => (OutOfFuel, 1%nat)
    | S f' =>
        match b with
        | [] => (Err EEof, 1%nat)
        | c :: b0 =>
            if is_break c then (Ok b0, 1%nat)
            else
              let x := walk f' d b in
              match fst x with
              | Ok b1 =>
                  if pairs then
                    let x2 := walk f' d b1 in
                    match fst x2 with
                    | Ok b2 => let y := walk_i f' d pairs b2 in (fst y, S (snd x + snd x2 + snd y))
                    | Err e => (Err e, S (snd x + snd x2))
                    | OutOfFuel => (OutOfFuel, S (snd x + snd x2))
                    end
                  else let y := walk_i f' d pairs b1 in (fst y, S (snd x + snd y))
              | Err e => (Err e, S (snd x))
              | OutOfFuel => (OutOfFuel, S (snd x))
              end
        end
    end.
End Walk.

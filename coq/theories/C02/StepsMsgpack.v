(* C02/StepsMsgpack — the step-counting walker skeleton of C02/Steps.v instantiated with the head
   parser of the msgpack skip walker (Wire/Msgpack.v skipI / skip_seq / skip_pairs, i.e.
   msgpackDecDriver.nextValueBytesBdReadR):

     mp_head   reads the descriptor byte and, for a leaf, everything that belongs to it (payload,
               length field, string / bin / ext body); for an array its length n: SSeq n; for a map
               of n pairs: SSeq (2n) — the 2n values are walked one after the other;
     depth policy  depthIncr: one more level is allowed iff depth + 1 < MaxDepth.

   mp_sim: the instantiated skeleton COMPUTES the msgpack wire model's skip: whenever the model's
   skip (fuel f) is not out of fuel, the skeleton with fuel >= 2f+1 returns the same outcome
   (same rest of input / same error class).  With the wire model's own totality (skip_total) the
   skeleton's outcome with fuel 2*dec_fuel+1 IS the model's, for every input; and by the generic
   bound (StepsProofs.steps_lemma) the number of its calls + loop iterations is <= 4*len + 2.
   The head consumes at least the descriptor byte (mp_head_adv), which is all the bound needs. *)
From Coq Require Import List NArith ZArith Lia Bool.
From Verif Require Import Base.Outcome Gen.Consts Wire.Item Wire.Msgpack Wire.MsgpackProofs C02.Steps C02.StepsProofs.
Import ListNotations.
Open Scope N_scope.

Section M.
Variable D : dopts.

(* the leaf cases of nextValueBytesBdReadR do not look at fuel or depth: skip_body at (0, 0) *)
Definition mp_head (b : list N) : res shape :=
  match b with
  | [] => Err EEof
  | bd :: r =>
    match classify bd with
    | DArr w => do (n, r1) <- rd_len bFixArrayMin bd w r ;; Ok (SSeq n r1)
    | DMap w => do (n, r1) <- rd_len bFixMapMin bd w r ;; Ok (SSeq (2 * n) r1)
    | _ => do r' <- skip_body D 0 0%Z bd r ;; Ok (SLeaf r')
    end
  end.

Definition mp_break (c : N) : bool := false.                       (* msgpack has no break byte *)
Definition mp_depth_ok (d : Z) : bool := negb (maxdepth D <=? d + 1)%Z.

Notation W := (walk mp_head mp_break mp_depth_ok).
Notation Wn := (walk_n mp_head mp_break mp_depth_ok).

Lemma leaf_indep : forall f d bd r,
  (forall w, classify bd <> DArr w) -> (forall w, classify bd <> DMap w) ->
  skip_body D f d bd r = skip_body D 0 0%Z bd r.
Proof.
  intros f d bd r Ha Hm. unfold skip_body. destruct (classify bd) eqn:E; try reflexivity.
  - exfalso. eapply Ha. reflexivity.
  - exfalso. eapply Hm. reflexivity.
Qed.

Lemma leaf_sl : forall bd r,
  (forall w, classify bd <> DArr w) -> (forall w, classify bd <> DMap w) ->
  sl r (skip_body D 0 0%Z bd r).
Proof.
  intros bd r Ha Hm. unfold skip_body, skip_ext_fix.
  destruct (classify bd) eqn:E; try (apply sl_ok; lia); try apply sl_err; try apply sl_rd_skip.
  - destruct k as [|[|k]]; try apply sl_rd_skip.
    apply sl_bind; [apply nl_rd_n1|]. intros a b' Hl. apply sl_ok; lia.
  - destruct k as [|[|k]]; try apply sl_rd_skip.
    apply sl_bind; [apply nl_rd_n1|]. intros a b' Hl. apply sl_ok; lia.
  - apply sl_bind; [apply nl_rd_len|]. intros n r1 Hl. apply sl_rd_skip.
  - apply sl_bind; [apply nl_rd_len|]. intros n r1 Hl. apply sl_rd_skip.
  - exfalso. eapply Ha. reflexivity.
  - exfalso. eapply Hm. reflexivity.
  - apply sl_bind; [apply nl_rd_n1|]. intros a b' Hl.
    destruct (n =? 1); [|apply sl_rd_skip].
    apply sl_bind; [apply nl_rd_n1|]. intros a2 b2 Hl2. apply sl_ok; lia.
  - apply sl_bind; [apply nl_rd_len|]. intros n r1 Hl.
    apply sl_bind; [apply nl_rd_n1|]. intros a b' Hl2. apply sl_rd_skip.
Qed.

(* the head parser makes progress: at least the descriptor byte is consumed *)
Lemma mp_head_adv : forall b s, mp_head b = Ok s -> (length (rest_of s) < length b)%nat.
Proof.
  intros [| bd r] s H; [discriminate |]. cbn [mp_head] in H. cbn [length].
  assert (Hlen : forall fm w n r1, rd_len fm bd w r = Ok (n, r1) -> (length r1 <= length r)%nat).
  { intros fm w n r1 E. destruct (nl_rd_len fm bd w r) as [_ Hn]. eapply Hn. exact E. }
  destruct (classify bd) eqn:E;
    try (assert (Ha : forall w, classify bd <> DArr w) by (intros w0; rewrite E; discriminate);
         assert (Hm : forall w, classify bd <> DMap w) by (intros w0; rewrite E; discriminate);
         destruct (leaf_sl bd r Ha Hm) as [_ Hs];
         destruct (skip_body D 0 0%Z bd r) as [r' | e |] eqn:Eb; cbn [bind] in H; try discriminate;
         inversion H; subst; cbn [rest_of]; specialize (Hs r' eq_refl); lia).
  - destruct (rd_len bFixArrayMin bd w r) as [[n r1] | e |] eqn:El; cbn [bind] in H; try discriminate.
    inversion H; subst. cbn [rest_of]. apply Hlen in El. lia.
  - destruct (rd_len bFixMapMin bd w r) as [[n r1] | e |] eqn:El; cbn [bind] in H; try discriminate.
    inversion H; subst. cbn [rest_of]. apply Hlen in El. lia.
Qed.

(* "the model ran out of fuel, or both computed the same outcome" *)
Definition sim (x y : res (list N)) : Prop := x = OutOfFuel \/ x = y.

Lemma walk_S' : forall F d b, W (S F) d b =
  match mp_head b with
  | Err e => (Err e, 1%nat)
  | OutOfFuel => (OutOfFuel, 1%nat)
  | Ok (SLeaf r) => (Ok r, 1%nat)
  | Ok (SSeq n r) => if mp_depth_ok d then stepped (Wn F (d + 1)%Z n r) else (Err EDepth, 1%nat)
  | Ok (SIndef p r) => if mp_depth_ok d then stepped (walk_i mp_head mp_break mp_depth_ok F (d + 1)%Z p r) else (Err EDepth, 1%nat)
  end.
Proof. reflexivity. Qed.

Lemma walk_n_S' : forall F d n b, Wn (S F) d n b =
  if (n =? 0)%N then (Ok b, 1%nat)
  else let x := W F d b in
       match fst x with
       | Ok b1 => let y := Wn F d (n - 1)%N b1 in (fst y, S (snd x + snd y))
       | Err e => (Err e, S (snd x))
       | OutOfFuel => (OutOfFuel, S (snd x))
       end.
Proof. reflexivity. Qed.

Lemma fst_walk_n_S : forall F d n b, fst (Wn (S F) d n b) =
  if (n =? 0)%N then Ok b
  else match fst (W F d b) with
       | Ok b1 => fst (Wn F d (n - 1)%N b1)
       | Err e => Err e
       | OutOfFuel => OutOfFuel
       end.
Proof.
  intros. rewrite walk_n_S'. destruct (n =? 0)%N; [reflexivity |]. cbv zeta.
  destruct (fst (W F d b)); reflexivity.
Qed.

Theorem mp_sim : forall f,
  (forall F d b, (2 * f + 1 <= F)%nat -> sim (skipF D f d b) (fst (W F d b))) /\
  (forall F d n b, (2 * f + 1 <= F)%nat -> sim (sseqF D f d n b) (fst (Wn F d n b))) /\
  (forall F d n b, (2 * f + 1 <= F)%nat -> sim (spairsF D f d n b) (fst (Wn F d (2 * n) b))).
Proof.
  induction f as [| f (IH1 & IH2 & IH3)].
  - repeat apply conj.
    + intros F d b _. left. reflexivity.
    + intros F d n b HF. rewrite sseqF_eq. destruct F as [| F]; [lia |]. rewrite fst_walk_n_S.
      destruct (n =? 0); [right; reflexivity | left; reflexivity].
    + intros F d n b HF. rewrite spairsF_eq. destruct F as [| F]; [lia |]. rewrite fst_walk_n_S.
      replace (2 * n =? 0) with (n =? 0) by (destruct (N.eqb_spec n 0), (N.eqb_spec (2 * n) 0); lia).
      destruct (n =? 0); [right; reflexivity | left; reflexivity].
  - repeat apply conj.
    + intros F d b HF. destruct F as [| F]; [lia |]. rewrite walk_S'.
      destruct b as [| bd r]; [rewrite skipF_nil; right; reflexivity |].
      rewrite skipF_S. cbn [mp_head].
      destruct (classify bd) eqn:E;
        try (assert (Ha : forall w, classify bd <> DArr w) by (intros w0; rewrite E; discriminate);
             assert (Hm : forall w, classify bd <> DMap w) by (intros w0; rewrite E; discriminate);
             rewrite (leaf_indep f d bd r Ha Hm);
             destruct (skip_body D 0 0%Z bd r) as [r' | e |]; cbn [bind fst]; [right | right | left]; reflexivity).
      * unfold skip_body. rewrite E.
        destruct (rd_len bFixArrayMin bd w r) as [[n r1] | e |]; cbn [bind fst]; [| right; reflexivity | left; reflexivity].
        unfold depth_incr, mp_depth_ok. destruct (maxdepth D <=? d + 1)%Z; cbn [bind negb fst]; [right; reflexivity |].
        unfold stepped. cbn [fst]. apply IH2. lia.
      * unfold skip_body. rewrite E.
        destruct (rd_len bFixMapMin bd w r) as [[n r1] | e |]; cbn [bind fst]; [| right; reflexivity | left; reflexivity].
        unfold depth_incr, mp_depth_ok. destruct (maxdepth D <=? d + 1)%Z; cbn [bind negb fst]; [right; reflexivity |].
        unfold stepped. cbn [fst]. apply IH3. lia.
    + intros F d n b HF. destruct F as [| F]; [lia |]. rewrite sseqF_eq, fst_walk_n_S.
      destruct (n =? 0); [right; reflexivity |].
      destruct (IH1 F d b ltac:(lia)) as [E | E]; rewrite E; [left; reflexivity |].
      destruct (fst (W F d b)) as [b1 | e |]; cbn [bind]; [| right; reflexivity | left; reflexivity].
      apply IH2. lia.
    + intros F d n b HF. destruct F as [| F]; [lia |]. rewrite spairsF_eq, fst_walk_n_S.
      replace (2 * n =? 0) with (n =? 0) by (destruct (N.eqb_spec n 0), (N.eqb_spec (2 * n) 0); lia).
      destruct (N.eqb_spec n 0) as [Hn | Hn]; [right; reflexivity |].
      destruct (IH1 F d b ltac:(lia)) as [E | E]; rewrite E; [left; reflexivity |].
      destruct (fst (W F d b)) as [b1 | e |]; cbn [bind]; [| right; reflexivity | left; reflexivity].
      destruct F as [| F]; [lia |]. rewrite fst_walk_n_S.
      replace (2 * n - 1 =? 0) with false by (symmetry; apply N.eqb_neq; lia).
      destruct (IH1 F d b1 ltac:(lia)) as [E2 | E2]; rewrite E2; [left; reflexivity |].
      destruct (fst (W F d b1)) as [b2 | e |]; cbn [bind]; [| right; reflexivity | left; reflexivity].
      replace (2 * n - 1 - 1) with (2 * (n - 1)) by lia.
      apply IH3. lia.
Qed.

(* for EVERY input b, entry depth d0 and option vector: the step-counting walker over msgpack's head
   parser returns what the msgpack wire model's skip returns (any fuel >= 2*dec_fuel b + 1), and
   takes at most 4 * length b + 2 steps (calls + loop iterations), whatever lengths are claimed,
   with any fuel *)
Lemma msgpack_walker_steps : forall (d0 : Z) (b : list N),
  (forall F, (2 * dec_fuel b + 1 <= F)%nat -> fst (W F d0 b) = skip_at D d0 (dec_fuel b) b) /\
  (forall F, (snd (W F d0 b) <= 4 * length b + 2)%nat).
Proof.
  intros d0 b. split.
  - intros F HF. destruct (proj1 (mp_sim (dec_fuel b)) F d0 b HF) as [E | E].
    + exfalso. exact (skip_total D d0 b E).
    + symmetry. exact E.
  - intros F. apply steps_lemma. exact mp_head_adv.
Qed.

End M.

(* C02/Alloc — allocation REQUESTS of the decoder as a function of what the input claims.

   decInferLen (decode.base.go) and usableByteSlice (helper.go) are written by hand here; they
   are PROVED equal, on the whole domain of their Go types, to the functions the translator
   regenerates from the current source on every run (Gen/Leaf2.v; C02/LeafTie.v, theorem
   C02_alloc_src_tie), and also tied to the code by the leaf stream of harness/cmd/c02 through
   the hook VerifC02DecInferLen / VerifC02UsableByteSliceLen (C02/Corr.v, kind 9).

   A RUN is the tree of what one Decode call did: leaves (scalars, strings: [c] input bytes
   consumed, [a] bytes allocated) and containers (claimed length, element size, head bytes,
   children, whether the element loop ran to its end).  The decoder's invariants are the
   premises [wf]: every leaf and every head consumes at least one byte (the wire-layer progress
   theorems W*_progress), nesting stays below MaxDepth (C14), a container that completes with a
   claimed length n >= 0 has exactly n children, only the LAST child of a container may be
   incomplete (an error ends the call), a container pre-sizes its value with
   decInferLen(claimed, max(1024, MaxInitLen), unit) elements, each costing its size plus a
   bookkeeping overhead OV, and grows by appending. *)
From Coq Require Import List ZArith Lia Bool.
From Verif Require Import Gen.Consts.
Import ListNotations.
Open Scope Z_scope.

(* decInferLen(clen int, maxlen, unit uint) uint — after the F02-3 repair: zero-size elements
   (unit = 0) are capped like any other (before it the claimed length came back as is, and a map
   of zero-size entries was made with that many buckets) *)
Definition decInferLen (clen maxlen unit : Z) : Z :=
  if (clen =? 0) || (clen =? containerLenNil) then 0
  else if clen <? 0 then (if unit =? 0 then 8 else Z.max (64 / unit) 8)
  else let maxlen := if maxlen =? 0 then 1048576 / Z.max unit 1 else maxlen in Z.min clen maxlen.

(* decoderBase.maxInitLen(): uint(max(1024, d.h.MaxInitLen)) *)
Definition maxInitLen (mil : Z) : Z := Z.max 1024 mil.

(* usableByteSlice(bs, slen): length of the slice handed back and whether it was made new *)
Definition usableMaxCap : Z := 67108864.
Definition usable_len (bufcap slen : Z) : Z * bool :=
  if slen =? 0 then (0, false)
  else if slen <? 0 then (0, false)
  else if slen <=? bufcap then (slen, false)
  else (Z.min slen usableMaxCap, true).

Inductive run :=
| Leaf (c : Z) (a : Z)
| Cont (claimed unit h : Z) (kids : runs) (complete : bool)
with runs :=
| RNil
| RCons (r : run) (rs : runs).

Scheme run_mut := Induction for run Sort Prop
  with runs_mut := Induction for runs Sort Prop.

Section Alloc.
  Variable md : Z.          (* effective MaxDepth *)
  Variable mil : Z.         (* MaxInitLen *)
  Variable U : Z.           (* largest element size (key + element for maps) inside the destination type *)
  Variable KL : Z.          (* bytes allocated per input byte by a leaf (copy of a string, boxing of a scalar) *)
  Variable OV : Z.          (* bookkeeping bytes per pre-sized element besides the element itself (map buckets: tophash, overflow
                               pointers): what makes a claimed length cost memory even when the elements are zero-size *)

  Definition cap : Z := maxInitLen mil.
  Definition G : Z := 4.    (* append growth: the slices allocated while growing to n elements hold < 4n elements in total *)

  Fixpoint consumed (r : run) : Z :=
    match r with Leaf c _ => c | Cont _ _ h ks _ => h + consumeds ks end
  with consumeds (rs : runs) : Z :=
    match rs with RNil => 0 | RCons r rs' => consumed r + consumeds rs' end.

  Fixpoint count (rs : runs) : Z := match rs with RNil => 0 | RCons _ rs' => 1 + count rs' end.

  (* allocation requests: the pre-sized value, growth by append, and the children *)
  Fixpoint alloc (r : run) : Z :=
    match r with
    | Leaf _ a => a
    | Cont cl u _ ks _ => decInferLen cl cap u * (u + OV) + G * (u + OV) * count ks + allocs ks
    end
  with allocs (rs : runs) : Z :=
    match rs with RNil => 0 | RCons r rs' => alloc r + allocs rs' end.

  Fixpoint completeR (r : run) : bool :=
    match r with Leaf _ _ => true | Cont _ _ _ ks c => c && completeRs ks end
  with completeRs (rs : runs) : bool :=
    match rs with RNil => true | RCons r rs' => completeR r && completeRs rs' end.

  (* the decoder's invariants at depth d *)
  Fixpoint wf (d : Z) (r : run) : Prop :=
    match r with
    | Leaf c a => 1 <= c /\ 0 <= a <= KL * c
    | Cont cl u h ks c =>
        1 <= h /\ 0 <= u <= U /\ d + 1 < md /\ wfs (d + 1) ks /\
        (c = true -> 0 <= cl -> count ks = cl)
    end
  with wfs (d : Z) (rs : runs) : Prop :=
    match rs with
    | RNil => True
    | RCons r rs' => wf d r /\ wfs d rs' /\ (match rs' with RNil => True | _ => completeR r = true end)
    end.

  Definition K1 : Z := KL + 64 + 64 * OV + (9 + G) * (U + OV).
  Definition K0 (d : Z) : Z := (md - d) * (cap * (U + OV)).
End Alloc.

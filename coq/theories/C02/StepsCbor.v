(* C02/StepsCbor — the step-counting walker skeleton of C02/Steps.v instantiated with the head
   parser of the cbor skip walker (Wire/Cbor.v skipw / skip_n / skip_indef / skip_body, i.e.
   cborDecDriver.nextValueBytes / nextValueBytesBdReadR):

     cb_head   reads the initial byte bd and dispatches on its major type (kind_of):
               array of n values (length by uint_bytes): SSeq n; map of n pairs: SSeq (2n);
               indefinite-length array / map (0x9f / 0xbf): SIndef false / SIndef true, closed by the
               break byte 0xff (cb_break);
               tag: its number is read, then ONE value follows one level deeper: SSeq 1 — the model's
               walker does depthIncr around the tagged value exactly as around a container's elements;
               everything else (integers, strings — definite and indefinite: the whole chunk loop —,
               simple values, floats, bad bytes) is a leaf, consumed by the wire model's own
               skip_body; its three recursive continuations are never called on a leaf and are
               instantiated with stubs; the chunk loop gets the fuel length + 1, which always
               suffices, and its outcome does not depend on the fuel once it suffices (chunks_any);
     depth policy  Cbor.depth_ok: one more level is allowed iff depth + 1 < MaxDepth.

   Order of the depth check.  For an array / map the model (like the code) does depthIncr BEFORE it
   reads the length; the skeleton reads the head first.  A length field cut short by the end of input
   is therefore reported by the head as "one value expected, nothing left" (SSeq 1 []): after the
   depth check the walk ends with the same end-of-input error.  An array / map head with a RESERVED
   additional information (28..30) cannot be deferred in that way (an empty rest cannot yield a
   bad-descriptor error): there the model answers EDepth when the depth bound is reached and
   EBadDesc otherwise, the skeleton always EBadDesc.  This is the only difference: [tie].
   (cbor_walker_exact_refuted: the witness; no head parser over this skeleton can avoid it.)

   cb_sim: whenever the model's walker (fuel f) is not out of fuel, the skeleton with fuel >= 2f+1
   (a tag costs the skeleton two units: the one-value loop and the value) returns the same outcome,
   up to [tie].  With the wire model's own totality (CborTotal.skip_total_lemma) this holds of the
   model's outcome with its standard fuel, for every input; and by the generic bound
   (StepsProofs.steps_lemma) the number of the skeleton's calls + loop iterations is <= 4*len + 2.
   The head consumes at least the initial byte (cb_head_adv). *)
From Coq Require Import List NArith ZArith Lia Bool.
From Verif Require Import Base.Outcome Gen.Consts Wire.Item Wire.CborFloat Wire.Cbor Wire.CborTotal C02.Steps C02.StepsProofs.
Import ListNotations.
Open Scope N_scope.

(* ---- the chunk loop: its outcome does not depend on the fuel once the fuel suffices ---- *)
Lemma chunks_mono : forall f b, skip_chunks f b <> OutOfFuel ->
  forall f2, (f <= f2)%nat -> skip_chunks f2 b = skip_chunks f b.
Proof.
  induction f as [| f IH]; intros b Hne f2 Hle; [exfalso; apply Hne; reflexivity |].
  destruct f2 as [| f2]; [lia |]. cbn [skip_chunks] in *.
  destruct b as [| bd b1]; [reflexivity |].
  destruct (bd =? bdBreak); [reflexivity |].
  destruct (uint_bytes (bd mod 32) b1) as [[u b2] | e |]; cbn [bind] in *; try reflexivity.
  destruct (rskip u b2) as [b3 | e |]; cbn [bind] in *; try reflexivity.
  apply IH; [exact Hne | lia].
Qed.

Lemma chunks_any : forall f b,
  skip_chunks f b = OutOfFuel \/ skip_chunks f b = skip_chunks (S (length b)) b.
Proof.
  intros f b. destruct (Nat.le_gt_cases f (S (length b))) as [Hle | Hgt].
  - destruct (skip_chunks f b) as [r | e |] eqn:E; [right | right | left; reflexivity];
      rewrite <- E; symmetry; apply chunks_mono; try exact Hle; rewrite E; discriminate.
  - right. apply chunks_mono; [| lia].
    intros H. eapply skip_chunks_noof; [| exact H]. lia.
Qed.

Lemma uint_bytes_err : forall a b e, uint_bytes a b = Err e -> e = EEof \/ e = EBadDesc.
Proof.
  intros a b e. unfold uint_bytes, take.
  repeat match goal with
         | |- context [if ?c then _ else _] => destruct c
         end; cbn [bind]; intros H; inversion H; auto.
Qed.

Lemma fst_bindI : forall {A B} (m : resI A) (k : A -> resI B),
  fst (bindI m k) = match fst m with Ok a => fst (k a) | Err e => Err e | OutOfFuel => OutOfFuel end.
Proof. intros A B m k. unfold bindI. destruct (fst m); reflexivity. Qed.

Section M.
Variable D : dopts.

(* stubs for the recursive continuations of skip_body: a leaf never calls them *)
Definition dm_self (d : Z) (r : nat) (b : list N) : resI (list N) := (OutOfFuel, O).
Definition dm_n (d : Z) (r : nat) (n : N) (b : list N) : resI (list N) := (OutOfFuel, O).
Definition dm_i (d : Z) (r : nat) (p : bool) (b : list N) : resI (list N) := (OutOfFuel, O).

Definition cb_leaf (bd : N) (b1 : list N) : res (list N) :=
  fst (skip_body D (S (length b1)) dm_self dm_n dm_i 0%Z O bd b1).

(* length of a definite array / map; a length field cut short: one value expected, nothing left *)
Definition cb_len (cnt : N -> N) (bd : N) (b1 : list N) : res shape :=
  match uint_bytes (bd mod 32) b1 with
  | Ok (u, b2) => Ok (SSeq (cnt u) b2)
  | Err EEof => Ok (SSeq 1 [])
  | Err e => Err e
  | OutOfFuel => OutOfFuel
  end.

Definition cb_head (b : list N) : res shape :=
  match b with
  | [] => Err EEof
  | bd :: b1 =>
    match kind_of bd with
    | KArr => if bd =? bdIndefArray then Ok (SIndef false b1) else cb_len (fun u => u) bd b1
    | KMap => if bd =? bdIndefMap then Ok (SIndef true b1) else cb_len (fun u => 2 * u) bd b1
    | KTag => do (_, b2) <- uint_bytes (bd mod 32) b1 ;; Ok (SSeq 1 b2)
    | KUint | KNint | KBytes | KText | KSimple => do r' <- cb_leaf bd b1 ;; Ok (SLeaf r')
    end
  end.

Definition cb_break (c : N) : bool := c =? bdBreak.
Definition cb_depth_ok (d : Z) : bool := depth_ok D d.

Notation W := (walk cb_head cb_break cb_depth_ok).
Notation Wn := (walk_n cb_head cb_break cb_depth_ok).
Notation Wi := (walk_i cb_head cb_break cb_depth_ok).

(* ---- skip_body by kind ---- *)
Section Body.
  Variable f' : nat.
  Variable s : Z -> nat -> list N -> resI (list N).
  Variable k : Z -> nat -> N -> list N -> resI (list N).
  Variable i : Z -> nat -> bool -> list N -> resI (list N).

  Lemma skip_body_KArr : forall d r bd b1, kind_of bd = KArr ->
    skip_body D f' s k i d r bd b1 =
      if negb (depth_ok D d) then (Err EDepth, r)
      else if bd =? bdIndefArray then i (d + 1)%Z (S r) false b1
      else doI (u, b2) <- liftI r (uint_bytes (bd mod 32) b1) ;; k (d + 1)%Z (S r) u b2.
  Proof. intros d r bd b1 K. unfold skip_body. rewrite K. reflexivity. Qed.

  Lemma skip_body_KMap : forall d r bd b1, kind_of bd = KMap ->
    skip_body D f' s k i d r bd b1 =
      if negb (depth_ok D d) then (Err EDepth, r)
      else if bd =? bdIndefMap then i (d + 1)%Z (S r) true b1
      else doI (u, b2) <- liftI r (uint_bytes (bd mod 32) b1) ;; k (d + 1)%Z (S r) (2 * u) b2.
  Proof. intros d r bd b1 K. unfold skip_body. rewrite K. reflexivity. Qed.

  Lemma skip_body_KTag : forall d r bd b1, kind_of bd = KTag ->
    skip_body D f' s k i d r bd b1 =
      doI (_, b2) <- liftI r (uint_bytes (bd mod 32) b1) ;;
      if negb (depth_ok D d) then (Err EDepth, r) else s (d + 1)%Z (S r) b2.
  Proof. intros d r bd b1 K. unfold skip_body. rewrite K. reflexivity. Qed.

  (* a leaf: the model's outcome (any fuel, continuations, depth, level) is out of fuel or the head's *)
  Lemma leaf_sim : forall d r bd b1,
    match kind_of bd with
    | KArr | KMap | KTag => True
    | _ => fst (skip_body D f' s k i d r bd b1) = OutOfFuel \/
           fst (skip_body D f' s k i d r bd b1) = cb_leaf bd b1
    end.
  Proof.
    intros d r bd b1. unfold cb_leaf, skip_body. destruct (kind_of bd); try exact I; cbv zeta.
    - right. reflexivity.
    - right. reflexivity.
    - destruct ((bd =? bdIndefBytes) || (bd =? bdIndefString)); cbn [liftI fst]; [apply chunks_any | right; reflexivity].
    - destruct ((bd =? bdIndefBytes) || (bd =? bdIndefString)); cbn [liftI fst]; [apply chunks_any | right; reflexivity].
    - right. unfold skip_simple.
      repeat match goal with
             | |- context [if ?c then _ else _] => destruct c
             end; reflexivity.
  Qed.
End Body.

(* the head parser makes progress: at least the initial byte is consumed *)
Lemma cb_len_adv : forall cnt bd b1 s, cb_len cnt bd b1 = Ok s -> (length (rest_of s) <= length b1)%nat.
Proof.
  intros cnt bd b1 s H. unfold cb_len in H.
  destruct (uint_bytes (bd mod 32) b1) as [[u b2] | e |] eqn:E.
  - inversion H; subst. cbn [rest_of]. apply uint_bytes_adv in E. apply adv_len in E. lia.
  - destruct e; inversion H; subst. cbn [rest_of length]. lia.
  - discriminate.
Qed.

Lemma cb_head_adv : forall b s, cb_head b = Ok s -> (length (rest_of s) < length b)%nat.
Proof.
  intros [| bd b1] s H; [discriminate |]. cbn [cb_head] in H. cbn [length].
  assert (Hleaf : (do r' <- cb_leaf bd b1 ;; Ok (SLeaf r')) = Ok s -> (length (rest_of s) < S (length b1))%nat).
  { intros H0. destruct (cb_leaf bd b1) as [r' | e |] eqn:E; cbn [bind] in H0; try discriminate.
    inversion H0; subst. cbn [rest_of]. unfold cb_leaf in E.
    apply skip_body_adv in E; try (intros; discriminate). apply adv_len in E. lia. }
  destruct (kind_of bd); try (apply Hleaf; exact H).
  - destruct (bd =? bdIndefArray); [inversion H; subst; cbn [rest_of]; lia |].
    apply cb_len_adv in H. lia.
  - destruct (bd =? bdIndefMap); [inversion H; subst; cbn [rest_of]; lia |].
    apply cb_len_adv in H. lia.
  - destruct (uint_bytes (bd mod 32) b1) as [[u b2] | e |] eqn:E; cbn [bind] in H; try discriminate.
    inversion H; subst. cbn [rest_of]. apply uint_bytes_adv in E. apply adv_len in E. lia.
Qed.

(* ---- unfolding the skeleton ---- *)
Lemma walk_S' : forall F d b, W (S F) d b =
  match cb_head b with
  | Err e => (Err e, 1%nat)
  | OutOfFuel => (OutOfFuel, 1%nat)
  | Ok (SLeaf r) => (Ok r, 1%nat)
  | Ok (SSeq n r) => if cb_depth_ok d then stepped (Wn F (d + 1)%Z n r) else (Err EDepth, 1%nat)
  | Ok (SIndef p r) => if cb_depth_ok d then stepped (Wi F (d + 1)%Z p r) else (Err EDepth, 1%nat)
  end.
Proof. reflexivity. Qed.

Lemma fst_walk_n_S : forall F d n b, fst (Wn (S F) d n b) =
  if (n =? 0)%N then Ok b
  else match fst (W F d b) with
       | Ok b1 => fst (Wn F d (n - 1)%N b1)
       | Err e => Err e
       | OutOfFuel => OutOfFuel
       end.
Proof.
  intros. change (Wn (S F) d n b) with
    (if (n =? 0)%N then (Ok b, 1%nat)
     else let x := W F d b in
          match fst x with
          | Ok b1 => let y := Wn F d (n - 1)%N b1 in (fst y, S (snd x + snd y))
          | Err e => (Err e, S (snd x))
          | OutOfFuel => (OutOfFuel, S (snd x))
          end).
  destruct (n =? 0)%N; [reflexivity |]. cbv zeta.
  destruct (fst (W F d b)); reflexivity.
Qed.

Lemma fst_walk_i_S : forall F d p b, fst (Wi (S F) d p b) =
  match b with
  | [] => Err EEof
  | c :: b0 =>
      if cb_break c then Ok b0
      else match fst (W F d b) with
           | Ok b1 =>
               if p then
                 match fst (W F d b1) with
                 | Ok b2 => fst (Wi F d p b2)
                 | Err e => Err e
                 | OutOfFuel => OutOfFuel
                 end
               else fst (Wi F d p b1)
           | Err e => Err e
           | OutOfFuel => OutOfFuel
           end
  end.
Proof.
  intros. rewrite (walk_i_S cb_head cb_break cb_depth_ok F d p b).
  destruct b as [| c b0]; [reflexivity |]. destruct (cb_break c); [reflexivity |]. cbv zeta.
  destruct (fst (W F d (c :: b0))) as [b1 | e |]; try reflexivity.
  destruct p; [| reflexivity]. destruct (fst (W F d b1)); reflexivity.
Qed.

(* a one-value loop is the value *)
Lemma walk_n_one : forall F d b, fst (Wn (S (S F)) d 1 b) = fst (W (S F) d b).
Proof.
  intros F d b. rewrite fst_walk_n_S. change (1 =? 0) with false. cbv iota.
  destruct (fst (W (S F) d b)) as [b1 | e |]; reflexivity.
Qed.

(* "the model ran out of fuel, or both computed the same outcome, or the model refused the depth of
   an array / map head whose reserved additional information the skeleton reports" *)
Definition csim (x y : res (list N)) : Prop :=
  x = OutOfFuel \/ x = y \/ (x = Err EDepth /\ y = Err EBadDesc).

Lemma skipw_S : forall f' d r b, skipw D (S f') d r b =
  match b with
  | [] => (Err EEof, r)
  | bd :: b1 => skip_body D f' (skipw D f') (skip_n D f') (skip_indef D f') d r bd b1
  end.
Proof. reflexivity. Qed.
Lemma skip_n_S : forall f' d r n b, skip_n D (S f') d r n b =
  if n =? 0 then (Ok b, r) else doI b1 <- skipw D f' d r b ;; skip_n D f' d r (n - 1) b1.
Proof. reflexivity. Qed.
Lemma skip_indef_S : forall f' d r pairs b, skip_indef D (S f') d r pairs b =
  match b with
  | [] => (Err EEof, r)
  | bd :: b0 =>
      if bd =? bdBreak then (Ok b0, r)
      else
        doI b1 <- skipw D f' d r b ;;
        doI b2 <- (if pairs then skipw D f' d r b1 else (Ok b1, r)) ;;
        skip_indef D f' d r pairs b2
  end.
Proof. reflexivity. Qed.

(* a definite array (cnt u = u) / map (cnt u = 2u) after the depth check *)
Lemma len_sim : forall f' F d r (cnt : N -> N) bd b1, (2 * f' + 2 <= F)%nat ->
  (forall F0 d0 r0 n b, (2 * f' + 1 <= F0)%nat -> csim (fst (skip_n D f' d0 r0 n b)) (fst (Wn F0 d0 n b))) ->
  csim (fst (if negb (depth_ok D d) then (Err EDepth, r)
             else doI (u, b2) <- liftI r (uint_bytes (bd mod 32) b1) ;; skip_n D f' (d + 1)%Z (S r) (cnt u) b2))
       (fst (match cb_len cnt bd b1 with
             | Err e => (Err e, 1%nat)
             | OutOfFuel => (OutOfFuel, 1%nat)
             | Ok (SLeaf r) => (Ok r, 1%nat)
             | Ok (SSeq n r) => if cb_depth_ok d then stepped (Wn F (d + 1)%Z n r) else (Err EDepth, 1%nat)
             | Ok (SIndef p r) => if cb_depth_ok d then stepped (Wi F (d + 1)%Z p r) else (Err EDepth, 1%nat)
             end)).
Proof.
  intros f' F d r cnt bd b1 HF IH2. unfold cb_len. change (cb_depth_ok d) with (depth_ok D d).
  destruct (uint_bytes (bd mod 32) b1) as [[u b2] | e |] eqn:U.
  - destruct (depth_ok D d); cbn [negb fst]; [| right; left; reflexivity].
    rewrite fst_bindI. cbn [liftI fst]. unfold stepped. cbn [fst]. apply IH2. lia.
  - destruct (uint_bytes_err _ _ _ U) as [-> | ->].
    + destruct (depth_ok D d); cbn [negb fst]; [| right; left; reflexivity].
      rewrite fst_bindI. cbn [liftI fst]. unfold stepped. cbn [fst].
      destruct F as [| [| F]]; try lia. rewrite walk_n_one. right. left. reflexivity.
    + destruct (depth_ok D d); cbn [negb fst].
      * rewrite fst_bindI. cbn [liftI fst]. right. left. reflexivity.
      * right. right. split; reflexivity.
  - exfalso. eapply uint_bytes_noof. exact U.
Qed.

Theorem cb_sim : forall f,
  (forall F d r b, (2 * f + 1 <= F)%nat -> csim (fst (skipw D f d r b)) (fst (W F d b))) /\
  (forall F d r n b, (2 * f + 1 <= F)%nat -> csim (fst (skip_n D f d r n b)) (fst (Wn F d n b))) /\
  (forall F d r p b, (2 * f + 1 <= F)%nat -> csim (fst (skip_indef D f d r p b)) (fst (Wi F d p b))).
Proof.
  induction f as [| f (IH1 & IH2 & IH3)].
  - repeat apply conj; intros; left; reflexivity.
  - repeat apply conj.
    + intros F d r b HF. destruct F as [| F]; [lia |]. rewrite walk_S', skipw_S.
      destruct b as [| bd b1]; [right; left; reflexivity |]. cbn [cb_head].
      pose proof (leaf_sim f (skipw D f) (skip_n D f) (skip_indef D f) d r bd b1) as L.
      assert (Hleaf : (fst (skip_body D f (skipw D f) (skip_n D f) (skip_indef D f) d r bd b1) = OutOfFuel \/
                       fst (skip_body D f (skipw D f) (skip_n D f) (skip_indef D f) d r bd b1) = cb_leaf bd b1) ->
                      csim (fst (skip_body D f (skipw D f) (skip_n D f) (skip_indef D f) d r bd b1))
                           (fst (match (do r' <- cb_leaf bd b1 ;; Ok (SLeaf r')) with
                                 | Err e => (Err e, 1%nat)
                                 | OutOfFuel => (OutOfFuel, 1%nat)
                                 | Ok (SLeaf r) => (Ok r, 1%nat)
                                 | Ok (SSeq n r) => if cb_depth_ok d then stepped (Wn F (d + 1)%Z n r) else (Err EDepth, 1%nat)
                                 | Ok (SIndef p r) => if cb_depth_ok d then stepped (Wi F (d + 1)%Z p r) else (Err EDepth, 1%nat)
                                 end))).
      { intros [E | E]; rewrite E; [left; reflexivity |].
        destruct (cb_leaf bd b1) as [r' | e |]; cbn [bind fst]; [right; left | right; left | left]; reflexivity. }
      destruct (kind_of bd) eqn:K; try (apply Hleaf; exact L).
      * (* array *)
        rewrite skip_body_KArr by exact K.
        destruct (bd =? bdIndefArray).
        -- change (cb_depth_ok d) with (depth_ok D d). destruct (depth_ok D d); cbn [negb fst]; [| right; left; reflexivity].
           unfold stepped. cbn [fst]. apply IH3. lia.
        -- exact (len_sim f F d r (fun u => u) bd b1 ltac:(lia) IH2).
      * (* map *)
        rewrite skip_body_KMap by exact K.
        destruct (bd =? bdIndefMap).
        -- change (cb_depth_ok d) with (depth_ok D d). destruct (depth_ok D d); cbn [negb fst]; [| right; left; reflexivity].
           unfold stepped. cbn [fst]. apply IH3. lia.
        -- exact (len_sim f F d r (fun u => 2 * u) bd b1 ltac:(lia) IH2).
      * (* tag *)
        rewrite skip_body_KTag by exact K. rewrite fst_bindI. cbn [liftI fst].
        destruct (uint_bytes (bd mod 32) b1) as [[u b2] | e |]; cbn [bind fst];
          [| right; left; reflexivity | left; reflexivity].
        change (cb_depth_ok d) with (depth_ok D d). destruct (depth_ok D d); cbn [negb fst]; [| right; left; reflexivity].
        unfold stepped. cbn [fst].
        destruct F as [| [| F]]; try lia. rewrite walk_n_one. apply IH1. lia.
    + intros F d r n b HF. destruct F as [| F]; [lia |]. rewrite skip_n_S, fst_walk_n_S.
      destruct (n =? 0); [right; left; reflexivity |].
      rewrite fst_bindI.
      destruct (IH1 F d r b ltac:(lia)) as [E | [E | [E1 E2]]].
      * rewrite E. left. reflexivity.
      * rewrite <- E. destruct (fst (skipw D f d r b)) as [b1 | e |];
          [| right; left; reflexivity | left; reflexivity].
        apply IH2. lia.
      * rewrite E1, E2. right. right. split; reflexivity.
    + intros F d r p b HF. destruct F as [| F]; [lia |]. rewrite skip_indef_S, fst_walk_i_S.
      destruct b as [| bd b0]; [right; left; reflexivity |].
      change (cb_break bd) with (bd =? bdBreak). destruct (bd =? bdBreak); [right; left; reflexivity |].
      rewrite fst_bindI.
      destruct (IH1 F d r (bd :: b0) ltac:(lia)) as [E | [E | [E1 E2]]].
      * rewrite E. left. reflexivity.
      * rewrite <- E. destruct (fst (skipw D f d r (bd :: b0))) as [b1 | e |];
          [| right; left; reflexivity | left; reflexivity].
        rewrite fst_bindI. destruct p.
        -- destruct (IH1 F d r b1 ltac:(lia)) as [E' | [E' | [E1' E2']]].
           ++ rewrite E'. left. reflexivity.
           ++ rewrite <- E'. destruct (fst (skipw D f d r b1)) as [b2 | e |];
                [| right; left; reflexivity | left; reflexivity].
              apply IH3. lia.
           ++ rewrite E1', E2'. right. right. split; reflexivity.
        -- cbn [fst]. apply IH3. lia.
      * rewrite E1, E2. right. right. split; reflexivity.
Qed.

(* what the tie with the model's skip is: equality, except that where the model refuses the depth of
   an array / map head with a reserved additional information the skeleton reports the bad head *)
Definition tie (x y : res (list N)) : Prop := x = y \/ (x = Err EDepth /\ y = Err EBadDesc).

(* general form: ANY model fuel f that the wire model's totality lemma accepts, skeleton fuel >= 2f+1 *)
Lemma cbor_walker_sim : forall (d0 : Z) (b : list N) (f F : nat),
  (2 * length b + 1 <= f)%nat -> (2 * f + 1 <= F)%nat -> tie (skip D f d0 b) (fst (W F d0 b)).
Proof.
  intros d0 b f F Hf HF. unfold skip.
  destruct (proj1 (cb_sim f) F d0 O b HF) as [E | [E | E]].
  - exfalso. eapply (proj1 (skip_total_all D f)); [| exact E]. exact Hf.
  - left. exact E.
  - right. exact E.
Qed.

(* for EVERY input b, entry depth d0 and option vector: the step-counting walker over cbor's head
   parser returns what the cbor wire model's skip returns (standard fuel fuel_for b = 2*len + 2; any
   skeleton fuel >= 2*fuel_for b + 1) up to [tie] — exactly, whenever the model's outcome is not a
   depth refusal —, and takes at most 4 * length b + 2 steps (calls + loop iterations), whatever
   lengths are claimed, with any fuel *)
Lemma cbor_walker_steps : forall (d0 : Z) (b : list N),
  (forall F, (2 * fuel_for b + 1 <= F)%nat -> tie (skip D (fuel_for b) d0 b) (fst (W F d0 b))) /\
  (forall F, (2 * fuel_for b + 1 <= F)%nat -> skip D (fuel_for b) d0 b <> Err EDepth ->
     fst (W F d0 b) = skip D (fuel_for b) d0 b) /\
  (forall F, (snd (W F d0 b) <= 4 * length b + 2)%nat).
Proof.
  intros d0 b. repeat apply conj.
  - intros F HF. apply cbor_walker_sim; [unfold fuel_for; lia | exact HF].
  - intros F HF Hne. destruct (cbor_walker_sim d0 b (fuel_for b) F) as [E | [E _]];
      [unfold fuel_for; lia | exact HF | symmetry; exact E | contradiction].
  - intros F. apply steps_lemma. exact cb_head_adv.
Qed.

End M.

(* the exact tie is not provable: at the last allowed depth an array head with the reserved
   additional information 28 is a depth refusal for the model (depthIncr comes before the length is
   read) and a bad descriptor for the skeleton (the head is read before the depth check) *)
Lemma cbor_walker_exact_refuted :
  let D := mkdo false false false 0 in
  forall F, (1 <= F)%nat ->
    skip D (fuel_for [156]) 1023 [156] = Err EDepth /\
    fst (walk (cb_head D) cb_break (cb_depth_ok D) F 1023 [156]) = Err EBadDesc.
Proof.
  intros D F HF. split; [vm_compute; reflexivity |].
  destruct F as [| F]; [lia |]. rewrite walk_S'. vm_compute. reflexivity.
Qed.

(* C10/LeafTieMsgpack — the big-endian helpers of the msgpack model (Wire/Msgpack.v be_put / be_get,
   its reading of bigen.PutUintK / bigen.UintK) EQUAL the functions the translator regenerates from
   the current source of helper.go on every run (Gen/Leaf2.v), for every uint16 / uint32 / uint64 and
   every [2]byte / [4]byte / [8]byte.  Lemmas about the translated terms come from C10/LeafTie.v. *)
From Coq Require Import List NArith ZArith Lia Bool Arith.
From Coq Require Import ZifyN ZifyNat ZifyBool.
From Verif Require Import Base.Word Base.Outcome Gen.Leaf2 C10.LeafTie.
From Verif Require Wire.Msgpack.
Import ListNotations.
Open Scope Z_scope.

Lemma mp_put16_tie : forall v, (v < 65536)%N ->
  (let '(a, b) := bigenHelper_PutUint16 (Z.of_N v) in [a; b]) = map Z.of_N (Msgpack.be_put 2 v).
Proof.
  intros v _. unfold bigenHelper_PutUint16. cbv zeta. cbn [Msgpack.be_put map].
  change 8 with (Z.of_N 8) at 2. rewrite byte_at, byte_0.
  change (256 ^ N.of_nat 1)%N with (2 ^ 8)%N. change (256 ^ N.of_nat 0)%N with 1%N. rewrite N.div_1_r. reflexivity.
Qed.

Lemma mp_put32_tie : forall v, (v < 4294967296)%N ->
  bigenHelper_PutUint32 (Z.of_N v) = map Z.of_N (Msgpack.be_put 4 v).
Proof.
  intros v _. unfold bigenHelper_PutUint32. cbv zeta. cbn [Msgpack.be_put map].
  change 24 with (Z.of_N 24). change 16 with (Z.of_N 16). change (shr (Z.of_N v) 8) with (shr (Z.of_N v) (Z.of_N 8)).
  rewrite !byte_at, byte_0.
  change (256 ^ N.of_nat 3)%N with (2 ^ 24)%N. change (256 ^ N.of_nat 2)%N with (2 ^ 16)%N.
  change (256 ^ N.of_nat 1)%N with (2 ^ 8)%N. change (256 ^ N.of_nat 0)%N with 1%N. rewrite N.div_1_r. reflexivity.
Qed.

Lemma mp_put64_tie : forall v, (v < 18446744073709551616)%N ->
  bigenHelper_PutUint64 (Z.of_N v) = map Z.of_N (Msgpack.be_put 8 v).
Proof.
  intros v _. unfold bigenHelper_PutUint64. cbv zeta. cbn [Msgpack.be_put map].
  change 56 with (Z.of_N 56). change 48 with (Z.of_N 48). change 40 with (Z.of_N 40). change 32 with (Z.of_N 32).
  change 24 with (Z.of_N 24). change 16 with (Z.of_N 16). change (shr (Z.of_N v) 8) with (shr (Z.of_N v) (Z.of_N 8)).
  rewrite !byte_at, byte_0.
  change (256 ^ N.of_nat 7)%N with (2 ^ 56)%N. change (256 ^ N.of_nat 6)%N with (2 ^ 48)%N.
  change (256 ^ N.of_nat 5)%N with (2 ^ 40)%N. change (256 ^ N.of_nat 4)%N with (2 ^ 32)%N.
  change (256 ^ N.of_nat 3)%N with (2 ^ 24)%N. change (256 ^ N.of_nat 2)%N with (2 ^ 16)%N.
  change (256 ^ N.of_nat 1)%N with (2 ^ 8)%N. change (256 ^ N.of_nat 0)%N with 1%N. rewrite N.div_1_r. reflexivity.
Qed.

Lemma mp_get_cbor : forall l, Msgpack.be_get l = Cbor.be_get l.
Proof.
  intros l. unfold Msgpack.be_get, Cbor.be_get. generalize 0%N.
  induction l as [| x r IH]; intros acc; cbn [Msgpack.be_acc fold_left]; [reflexivity | apply IH].
Qed.

Lemma mp_bigen_src_tie :
  (forall v, (v < 65536)%N ->
     (let '(a, b) := bigenHelper_PutUint16 (Z.of_N v) in [a; b]) = map Z.of_N (Msgpack.be_put 2 v)) /\
  (forall v, (v < 4294967296)%N -> bigenHelper_PutUint32 (Z.of_N v) = map Z.of_N (Msgpack.be_put 4 v)) /\
  (forall v, (v < 18446744073709551616)%N -> bigenHelper_PutUint64 (Z.of_N v) = map Z.of_N (Msgpack.be_put 8 v)) /\
  (forall a b, (a < 256)%N -> (b < 256)%N -> bigenHelper_Uint16 (map Z.of_N [a; b]) = Z.of_N (Msgpack.be_get [a; b])) /\
  (forall a b c d, (a < 256)%N -> (b < 256)%N -> (c < 256)%N -> (d < 256)%N ->
     bigenHelper_Uint32 (map Z.of_N [a; b; c; d]) = Z.of_N (Msgpack.be_get [a; b; c; d])) /\
  (forall a b c d e f g h,
     (a < 256)%N -> (b < 256)%N -> (c < 256)%N -> (d < 256)%N -> (e < 256)%N -> (f < 256)%N -> (g < 256)%N -> (h < 256)%N ->
     bigenHelper_Uint64 (map Z.of_N [a; b; c; d; e; f; g; h]) = Z.of_N (Msgpack.be_get [a; b; c; d; e; f; g; h])).
Proof.
  repeat apply conj; [exact mp_put16_tie | exact mp_put32_tie | exact mp_put64_tie | | |]; intros; rewrite mp_get_cbor.
  - apply get16_tie; assumption.
  - apply get32_tie; assumption.
  - apply get64_tie; assumption.
Qed.

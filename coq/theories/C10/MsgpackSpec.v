(* C10/MsgpackSpec — the MessagePack specification
   (https://github.com/msgpack/msgpack/blob/master/spec.md), written from the format
   tables of the specification and independently of the library and of its model:

     sval        the specification's type system (Integer, Nil, Boolean, Float, String,
                 Binary, Array, Map, Extension, Timestamp)
     ser s w     w is ONE of the serialisations the specification permits for s
                 (every width that can hold an integer or a length is permitted; the
                 three timestamp formats; fixext / ext 8 / ext 16 / ext 32)
     sdec        a decoder for the format table, used for the executable examples

   No library constant is used here: the bytes are the hexadecimal values of the tables. *)
From Coq Require Import List NArith ZArith Lia Bool.
Import ListNotations.
Local Open Scope N_scope.

Inductive sval :=
| SNil
| SBool (b : bool)
| SInt (z : Z)                      (* Integer *)
| SF32 (bits : N)                   (* Float, IEEE 754 single precision, as its 32 bits *)
| SF64 (bits : N)                   (* Float, IEEE 754 double precision, as its 64 bits *)
| SStr (s : list N)                 (* String: a byte array *)
| SBin (s : list N)                 (* Binary *)
| SArr (l : list sval)
| SMap (l : list (sval * sval))
| SExt (ty : Z) (data : list N)     (* Extension: type is a signed 8-bit integer *)
| STime (sec : Z) (nsec : N).       (* Timestamp (extension type -1) *)

Section SvalInd.
  Variable P : sval -> Prop.
  Hypothesis Hnil : P SNil.
  Hypothesis Hbool : forall b, P (SBool b).
  Hypothesis Hint : forall z, P (SInt z).
  Hypothesis Hf32 : forall b, P (SF32 b).
  Hypothesis Hf64 : forall b, P (SF64 b).
  Hypothesis Hstr : forall s, P (SStr s).
  Hypothesis Hbin : forall s, P (SBin s).
  Hypothesis Harr : forall l, Forall P l -> P (SArr l).
  Hypothesis Hmap : forall l, Forall (fun kv => P (fst kv) /\ P (snd kv)) l -> P (SMap l).
  Hypothesis Hext : forall t d, P (SExt t d).
  Hypothesis Htime : forall s n, P (STime s n).

  Fixpoint sval_ind' (s : sval) : P s :=
    match s with
    | SNil => Hnil
    | SBool b => Hbool b
    | SInt z => Hint z
    | SF32 b => Hf32 b
    | SF64 b => Hf64 b
    | SStr s => Hstr s
    | SBin s => Hbin s
    | SArr l => Harr l ((fix go (l : list sval) : Forall P l :=
                           match l with [] => Forall_nil _ | x :: r => Forall_cons _ (sval_ind' x) (go r) end) l)
    | SMap l => Hmap l ((fix go (l : list (sval * sval)) : Forall (fun kv => P (fst kv) /\ P (snd kv)) l :=
                           match l with
                           | [] => Forall_nil _
                           | kv :: r => Forall_cons kv (conj (sval_ind' (fst kv)) (sval_ind' (snd kv))) (go r)
                           end) l)
    | SExt t d => Hext t d
    | STime s n => Htime s n
    end.
End SvalInd.

(* "big-endian": most significant byte first *)
Fixpoint sbe (k : nat) (v : N) : list N :=
  match k with
  | O => []
  | S k' => sbe k' (v / 256) ++ [v mod 256]
  end.

(* two's complement of a signed integer in w bits *)
Definition tc (w : Z) (z : Z) : N := Z.to_N (if (z <? 0)%Z then z + 2 ^ w else z)%Z.

Definition slen {A} (l : list A) : N := N.of_nat (length l).

(* int format family *)
Definition ser_int (z : Z) (w : list N) : Prop :=
  ((0 <= z <= 127)%Z /\ w = [Z.to_N z])                                       (* positive fixint 0xxxxxxx *)
  \/ ((-32 <= z < 0)%Z /\ w = [Z.to_N (z + 256)])                             (* negative fixint 111xxxxx *)
  \/ ((0 <= z < 2 ^ 8)%Z /\ w = 0xcc :: sbe 1 (Z.to_N z))                     (* uint 8 *)
  \/ ((0 <= z < 2 ^ 16)%Z /\ w = 0xcd :: sbe 2 (Z.to_N z))                    (* uint 16 *)
  \/ ((0 <= z < 2 ^ 32)%Z /\ w = 0xce :: sbe 4 (Z.to_N z))                    (* uint 32 *)
  \/ ((0 <= z < 2 ^ 64)%Z /\ w = 0xcf :: sbe 8 (Z.to_N z))                    (* uint 64 *)
  \/ ((- 2 ^ 7 <= z < 2 ^ 7)%Z /\ w = 0xd0 :: sbe 1 (tc 8 z))                 (* int 8 *)
  \/ ((- 2 ^ 15 <= z < 2 ^ 15)%Z /\ w = 0xd1 :: sbe 2 (tc 16 z))              (* int 16 *)
  \/ ((- 2 ^ 31 <= z < 2 ^ 31)%Z /\ w = 0xd2 :: sbe 4 (tc 32 z))              (* int 32 *)
  \/ ((- 2 ^ 63 <= z < 2 ^ 63)%Z /\ w = 0xd3 :: sbe 8 (tc 64 z)).             (* int 64 *)

(* str format family *)
Definition ser_str (s w : list N) : Prop :=
  let n := slen s in
  (n < 32 /\ w = (0xa0 + n) :: s)                                             (* fixstr 101xxxxx *)
  \/ (n < 2 ^ 8 /\ w = 0xd9 :: sbe 1 n ++ s)                                  (* str 8 *)
  \/ (n < 2 ^ 16 /\ w = 0xda :: sbe 2 n ++ s)                                 (* str 16 *)
  \/ (n < 2 ^ 32 /\ w = 0xdb :: sbe 4 n ++ s).                                (* str 32 *)

(* bin format family *)
Definition ser_bin (s w : list N) : Prop :=
  let n := slen s in
  (n < 2 ^ 8 /\ w = 0xc4 :: sbe 1 n ++ s)
  \/ (n < 2 ^ 16 /\ w = 0xc5 :: sbe 2 n ++ s)
  \/ (n < 2 ^ 32 /\ w = 0xc6 :: sbe 4 n ++ s).

(* array / map heads for n elements / n key-value pairs *)
Definition arr_head (n : N) (h : list N) : Prop :=
  (n < 16 /\ h = [0x90 + n]) \/ (n < 2 ^ 16 /\ h = 0xdc :: sbe 2 n) \/ (n < 2 ^ 32 /\ h = 0xdd :: sbe 4 n).
Definition map_head (n : N) (h : list N) : Prop :=
  (n < 16 /\ h = [0x80 + n]) \/ (n < 2 ^ 16 /\ h = 0xde :: sbe 2 n) \/ (n < 2 ^ 32 /\ h = 0xdf :: sbe 4 n).

(* ext format family: type is a signed 8-bit integer, data a byte array *)
Definition ser_ext (ty : Z) (data w : list N) : Prop :=
  let n := slen data in
  (-128 <= ty <= 127)%Z /\
  ((n = 1 /\ w = [0xd4; tc 8 ty] ++ data)
   \/ (n = 2 /\ w = [0xd5; tc 8 ty] ++ data)
   \/ (n = 4 /\ w = [0xd6; tc 8 ty] ++ data)
   \/ (n = 8 /\ w = [0xd7; tc 8 ty] ++ data)
   \/ (n = 16 /\ w = [0xd8; tc 8 ty] ++ data)
   \/ (n < 2 ^ 8 /\ w = 0xc7 :: sbe 1 n ++ [tc 8 ty] ++ data)
   \/ (n < 2 ^ 16 /\ w = 0xc8 :: sbe 2 n ++ [tc 8 ty] ++ data)
   \/ (n < 2 ^ 32 /\ w = 0xc9 :: sbe 4 n ++ [tc 8 ty] ++ data)).

(* timestamp extension type: three formats *)
Definition ser_time (sec : Z) (nsec : N) (w : list N) : Prop :=
  (* timestamp 32: seconds in a 32-bit unsigned int, nanoseconds 0 *)
  (nsec = 0 /\ (0 <= sec < 2 ^ 32)%Z /\ w = [0xd6; 0xff] ++ sbe 4 (Z.to_N sec))
  (* timestamp 64: nanoseconds in 30 bits, seconds in 34 bits *)
  \/ (nsec <= 999999999 /\ (0 <= sec < 2 ^ 34)%Z /\ w = [0xd7; 0xff] ++ sbe 8 (nsec * 2 ^ 34 + Z.to_N sec))
  (* timestamp 96: nanoseconds in a 32-bit unsigned int, seconds in a 64-bit signed int *)
  \/ (nsec <= 999999999 /\ (- 2 ^ 63 <= sec < 2 ^ 63)%Z /\ w = [0xc7; 12; 0xff] ++ sbe 4 nsec ++ sbe 8 (tc 64 sec)).

Fixpoint ser (s : sval) (w : list N) : Prop :=
  match s with
  | SNil => w = [0xc0]
  | SBool b => w = [if b then 0xc3 else 0xc2]
  | SInt z => ser_int z w
  | SF32 b => b < 2 ^ 32 /\ w = 0xca :: sbe 4 b
  | SF64 b => b < 2 ^ 64 /\ w = 0xcb :: sbe 8 b
  | SStr s => ser_str s w
  | SBin s => ser_bin s w
  | SArr l =>
      exists h ws, arr_head (slen l) h /\ w = h ++ concat ws /\
        (fix go (l : list sval) (ws : list (list N)) : Prop :=
           match l, ws with
           | [], [] => True
           | x :: l', w1 :: ws' => ser x w1 /\ go l' ws'
           | _, _ => False
           end) l ws
  | SMap l =>
      exists h ws, map_head (slen l) h /\ w = h ++ concat ws /\
        (fix go (l : list (sval * sval)) (ws : list (list N)) : Prop :=
           match l, ws with
           | [], [] => True
           | kv :: l', w1 :: ws' =>
               (exists wk wv, ser (fst kv) wk /\ ser (snd kv) wv /\ w1 = wk ++ wv) /\ go l' ws'
           | _, _ => False
           end) l ws
  | SExt ty data => ser_ext ty data w
  | STime sec nsec => ser_time sec nsec w
  end.

(* ------------------------------------------------------------------ *)
(* a decoder for the format table (first byte ranges as in the "Formats" overview) *)

Fixpoint stake (n : N) (b : list N) {struct b} : option (list N * list N) :=
  if n =? 0 then Some ([], b)
  else match b with
       | [] => None
       | x :: r => match stake (n - 1) r with Some (p, q) => Some (x :: p, q) | None => None end
       end.

Fixpoint sval_of_be (acc : N) (l : list N) : N :=
  match l with [] => acc | x :: r => sval_of_be (acc * 256 + x) r end.

Definition sunum (k : N) (b : list N) : option (N * list N) :=
  match stake k b with Some (p, q) => Some (sval_of_be 0 p, q) | None => None end.

Definition sint (w : Z) (u : N) : Z := if (Z.of_N u <? 2 ^ (w - 1))%Z then Z.of_N u else (Z.of_N u - 2 ^ w)%Z.

Definition sdec_ext (n : N) (b : list N) : option (sval * list N) :=
  match b with
  | [] => None
  | t :: r =>
      match stake n r with
      | None => None
      | Some (data, rest) =>
          if t =? 0xff then
            if n =? 4 then Some (STime (Z.of_N (sval_of_be 0 data)) 0, rest)
            else if n =? 8 then
              let v := sval_of_be 0 data in
              if v / 2 ^ 34 <=? 999999999 then Some (STime (Z.of_N (v mod 2 ^ 34)) (v / 2 ^ 34), rest) else None
            else if n =? 12 then
              match stake 4 data with
              | Some (ns, sc) =>
                  if sval_of_be 0 ns <=? 999999999
                  then Some (STime (sint 64 (sval_of_be 0 sc)) (sval_of_be 0 ns), rest) else None
              | None => None
              end
            else Some (SExt (-1) data, rest)
          else Some (SExt (sint 8 t) data, rest)
      end
  end.

Fixpoint sdec (fuel : nat) (b : list N) {struct fuel} : option (sval * list N) :=
  match fuel with
  | O => None
  | S f =>
    match b with
    | [] => None
    | c :: r =>
      let str n r := match stake n r with Some (s, q) => Some (SStr s, q) | None => None end in
      let bin n r := match stake n r with Some (s, q) => Some (SBin s, q) | None => None end in
      let arr n r := match sdec_seq f n r with Some (l, q) => Some (SArr l, q) | None => None end in
      let map n r := match sdec_pairs f n r with Some (l, q) => Some (SMap l, q) | None => None end in
      let withlen k r (g : N -> list N -> option (sval * list N)) :=
        match sunum k r with Some (n, q) => g n q | None => None end in
      if c <=? 0x7f then Some (SInt (Z.of_N c), r)
      else if c <=? 0x8f then map (c - 0x80) r
      else if c <=? 0x9f then arr (c - 0x90) r
      else if c <=? 0xbf then str (c - 0xa0) r
      else if c =? 0xc0 then Some (SNil, r)
      else if c =? 0xc1 then None
      else if c =? 0xc2 then Some (SBool false, r)
      else if c =? 0xc3 then Some (SBool true, r)
      else if c =? 0xc4 then withlen 1 r bin
      else if c =? 0xc5 then withlen 2 r bin
      else if c =? 0xc6 then withlen 4 r bin
      else if c =? 0xc7 then withlen 1 r sdec_ext
      else if c =? 0xc8 then withlen 2 r sdec_ext
      else if c =? 0xc9 then withlen 4 r sdec_ext
      else if c =? 0xca then match sunum 4 r with Some (v, q) => Some (SF32 v, q) | None => None end
      else if c =? 0xcb then match sunum 8 r with Some (v, q) => Some (SF64 v, q) | None => None end
      else if c =? 0xcc then match sunum 1 r with Some (v, q) => Some (SInt (Z.of_N v), q) | None => None end
      else if c =? 0xcd then match sunum 2 r with Some (v, q) => Some (SInt (Z.of_N v), q) | None => None end
      else if c =? 0xce then match sunum 4 r with Some (v, q) => Some (SInt (Z.of_N v), q) | None => None end
      else if c =? 0xcf then match sunum 8 r with Some (v, q) => Some (SInt (Z.of_N v), q) | None => None end
      else if c =? 0xd0 then match sunum 1 r with Some (v, q) => Some (SInt (sint 8 v), q) | None => None end
      else if c =? 0xd1 then match sunum 2 r with Some (v, q) => Some (SInt (sint 16 v), q) | None => None end
      else if c =? 0xd2 then match sunum 4 r with Some (v, q) => Some (SInt (sint 32 v), q) | None => None end
      else if c =? 0xd3 then match sunum 8 r with Some (v, q) => Some (SInt (sint 64 v), q) | None => None end
      else if c =? 0xd4 then sdec_ext 1 r
      else if c =? 0xd5 then sdec_ext 2 r
      else if c =? 0xd6 then sdec_ext 4 r
      else if c =? 0xd7 then sdec_ext 8 r
      else if c =? 0xd8 then sdec_ext 16 r
      else if c =? 0xd9 then withlen 1 r str
      else if c =? 0xda then withlen 2 r str
      else if c =? 0xdb then withlen 4 r str
      else if c =? 0xdc then withlen 2 r arr
      else if c =? 0xdd then withlen 4 r arr
      else if c =? 0xde then withlen 2 r map
      else if c =? 0xdf then withlen 4 r map
      else if c <=? 0xff then Some (SInt (Z.of_N c - 256), r)
      else None
    end
  end
with sdec_seq (fuel : nat) (n : N) (b : list N) {struct fuel} : option (list sval * list N) :=
  if n =? 0 then Some ([], b)
  else match fuel with
       | O => None
       | S f =>
           match sdec f b with
           | Some (x, r) =>
               match sdec_seq f (n - 1) r with Some (xs, q) => Some (x :: xs, q) | None => None end
           | None => None
           end
       end
with sdec_pairs (fuel : nat) (n : N) (b : list N) {struct fuel} : option (list (sval * sval) * list N) :=
  if n =? 0 then Some ([], b)
  else match fuel with
       | O => None
       | S f =>
           match sdec f b with
           | Some (k, r) =>
               match sdec f r with
               | Some (v, r') =>
                   match sdec_pairs f (n - 1) r' with Some (xs, q) => Some ((k, v) :: xs, q) | None => None end
               | None => None
               end
           | None => None
           end
       end.

(* nesting depth of a spec value *)
Fixpoint sdepth (s : sval) : nat :=
  match s with
  | SArr l => S (fold_right (fun x m => Nat.max (sdepth x) m) 0%nat l)
  | SMap l => S (fold_right (fun kv m => Nat.max (Nat.max (sdepth (fst kv)) (sdepth (snd kv))) m) 0%nat l)
  | _ => 0%nat
  end.

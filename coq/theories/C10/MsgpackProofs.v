(* C10/MsgpackProofs — the msgpack model against the specification (C10/MsgpackSpec.v):
   out: what enc writes is one of the serialisations the specification permits for the same data;
   in:  every serialisation the specification permits is decoded to the data it denotes. *)
From Coq Require Import List NArith ZArith Lia Bool Arith.
From Coq Require Import ZifyN ZifyNat ZifyBool.
From Verif Require Import Base.Outcome Wire.Item Gen.Consts Wire.Msgpack Wire.MsgpackProofs Wire.MsgpackRT C10.MsgpackSpec.
Import ListNotations.
Local Open Scope N_scope.

Ltac Zify.zify_post_hook ::= Z.div_mod_to_equations.

(* ================================================================== *)
(* the two notations for big-endian and two's complement agree *)

Lemma be_put_snoc : forall k v, be_put (S k) v = be_put k (v / 256) ++ [v mod 256].
Proof.
  induction k as [|k IH]; intros v.
  - cbn [be_put app]. change (256 ^ N.of_nat 0) with 1. rewrite N.div_1_r. reflexivity.
  - change (be_put (S (S k)) v) with ((v / 256 ^ N.of_nat (S k)) mod 256 :: be_put (S k) v).
    rewrite IH.
    change (be_put (S k) (v / 256)) with ((v / 256 / 256 ^ N.of_nat k) mod 256 :: be_put k (v / 256)).
    cbn [app]. f_equal. f_equal.
    rewrite N.div_div by (try apply N.pow_nonzero; discriminate).
    replace (N.of_nat (S k)) with (N.succ (N.of_nat k)) by lia. rewrite N.pow_succ_r'. reflexivity.
Qed.

Lemma sbe_be : forall k v, sbe k v = be_put k v.
Proof.
  induction k as [|k IH]; intros v; [reflexivity|].
  cbn [sbe]. rewrite IH. symmetry. apply be_put_snoc.
Qed.

Lemma tc_wrapZ_8 : forall z, (-128 <= z < 128)%Z -> tc 8 z = wrapZ 8 z.
Proof. intros z H. unfold tc, wrapZ. change (2 ^ 8)%Z with 256%Z. change (2 ^ Z.of_N 8)%Z with 256%Z. destruct (Z.ltb_spec z 0); lia. Qed.
Lemma tc_wrapZ_16 : forall z, (-32768 <= z < 32768)%Z -> tc 16 z = wrapZ 16 z.
Proof. intros z H. unfold tc, wrapZ. change (2 ^ 16)%Z with 65536%Z. change (2 ^ Z.of_N 16)%Z with 65536%Z. destruct (Z.ltb_spec z 0); lia. Qed.
Lemma tc_wrapZ_32 : forall z, (-2147483648 <= z < 2147483648)%Z -> tc 32 z = wrapZ 32 z.
Proof. intros z H. unfold tc, wrapZ. change (2 ^ 32)%Z with 4294967296%Z. change (2 ^ Z.of_N 32)%Z with 4294967296%Z. destruct (Z.ltb_spec z 0); lia. Qed.
Lemma tc_wrapZ_64 : forall z, (-9223372036854775808 <= z < 9223372036854775808)%Z -> tc 64 z = wrapZ 64 z.
Proof.
  intros z H. unfold tc, wrapZ. change (2 ^ 64)%Z with 18446744073709551616%Z.
  change (2 ^ Z.of_N 64)%Z with 18446744073709551616%Z. destruct (Z.ltb_spec z 0); lia.
Qed.

Lemma slen_len : forall A (l : list A), slen l = len l.
Proof. reflexivity. Qed.

(* ================================================================== *)
(* OUT: the encoder writes a permitted serialisation of the same data *)

(* the data an encoded item carries, in the specification's type system *)
Fixpoint sval_of (O : eopts) (i : item) : sval :=
  match i with
  | INil => SNil
  | IBool b => SBool b
  | IInt z => SInt z
  | IUint n => SInt (Z.of_N n)
  | IF32 b => SF32 b
  | IF64 b => SF64 b
  | IStr s => if e_writeext O && e_stringtoraw O then SBin s else SStr s
  | IBytes s => if e_writeext O then SBin s else SStr s    (* old spec: raw bytes = the str family *)
  | IArr l => SArr (map (sval_of O) l)
  | IMap l => SMap (map (fun kv => (sval_of O (fst kv), sval_of O (snd kv))) l)
  | ITag t _ => SExt (signed 8 (wrap 8 t)) []
  | IExt t s => SExt (signed 8 t) s
  | ITime s n =>
      if is_zero_time s n then SNil             (* the zero time.Time is written as nil *)
      else if e_writeext O then STime s n
      else SStr (time_body s n)                 (* old spec: the timestamp payload as raw bytes *)
  end.

Tactic Notation "pick" integer(n) := do n right; try left.

Lemma out_uint : forall O n, n < 2 ^ 64 -> ser_int (Z.of_N n) (enc_uint O n).
Proof.
  intros O n Hn. change (2 ^ 64) with 18446744073709551616 in Hn. unfold enc_uint, ser_int.
  destruct (N.leb_spec n 127) as [H1|H1].
  - destruct (e_nofixednum O).
    + pick 2. split; [change (2 ^ 8)%Z with 256%Z; lia|].
      rewrite N2Z.id, sbe_be. rewrite wrap_small by (change (2 ^ 8) with 256; lia).
      change [bUint8; n] with ([bUint8; n] ++ []). rewrite one_byte by lia. rewrite app_nil_r. reflexivity.
    + left. split; [lia|]. rewrite N2Z.id. rewrite wrap_small by (change (2 ^ 8) with 256; lia). reflexivity.
  - destruct (N.leb_spec n 255) as [H2|H2].
    { pick 2. split; [change (2 ^ 8)%Z with 256%Z; lia|].
      rewrite N2Z.id, sbe_be. rewrite wrap_small by (change (2 ^ 8) with 256; lia).
      change [bUint8; n] with ([bUint8; n] ++ []). rewrite one_byte by lia. rewrite app_nil_r. reflexivity. }
    destruct (N.leb_spec n 65535) as [H3|H3].
    { pick 3. split; [change (2 ^ 16)%Z with 65536%Z; lia|].
      rewrite N2Z.id, sbe_be. rewrite wrap_small by (change (2 ^ 16) with 65536; lia). reflexivity. }
    destruct (N.leb_spec n 4294967295) as [H4|H4].
    { pick 4. split; [change (2 ^ 32)%Z with 4294967296%Z; lia|].
      rewrite N2Z.id, sbe_be. rewrite wrap_small by (change (2 ^ 32) with 4294967296; lia). reflexivity. }
    pick 5. split; [change (2 ^ 64)%Z with 18446744073709551616%Z; lia|].
    rewrite N2Z.id, sbe_be. rewrite wrap_small by (change (2 ^ 64) with 18446744073709551616; lia). reflexivity.
Qed.

Lemma out_int : forall O z, (- 2 ^ 63 <= z < 2 ^ 63)%Z -> ser_int z (enc_int O z).
Proof.
  intros O z Hz. change (2 ^ 63)%Z with 9223372036854775808%Z in Hz. unfold enc_int.
  destruct (e_posintunsigned O && (0 <=? z)%Z) eqn:Epu.
  { apply andb_true_iff in Epu. destruct Epu as [_ Hpos]. apply Z.leb_le in Hpos.
    rewrite wrapZ_nonneg by (change (2 ^ Z.of_N 64)%Z with 18446744073709551616%Z; lia).
    rewrite <- (Z2N.id z) at 1 by lia. apply out_uint. change (2 ^ 64) with 18446744073709551616. lia. }
  unfold ser_int.
  assert (B1 : [bInt8; wrapZ 8 z] = 0xd0 :: be_put 1 (wrapZ 8 z)).
  { change [bInt8; wrapZ 8 z] with ([bInt8; wrapZ 8 z] ++ []). rewrite one_byte by (apply (wrapZ_lt 8)).
    rewrite app_nil_r. reflexivity. }
  destruct (Z.ltb_spec 127 z) as [H1|H1].
  - destruct (Z.leb_spec z 32767) as [H2|H2].
    { pick 7. split; [change (2 ^ 15)%Z with 32768%Z; lia|]. rewrite sbe_be, tc_wrapZ_16 by lia. reflexivity. }
    destruct (Z.leb_spec z 2147483647) as [H3|H3].
    { pick 8. split; [change (2 ^ 31)%Z with 2147483648%Z; lia|]. rewrite sbe_be, tc_wrapZ_32 by lia. reflexivity. }
    do 9 right. split; [change (2 ^ 63)%Z with 9223372036854775808%Z; lia|]. rewrite sbe_be, tc_wrapZ_64 by lia. reflexivity.
  - destruct (Z.leb_spec (-32) z) as [H2|H2].
    { destruct (e_nofixednum O).
      - pick 6. split; [change (2 ^ 7)%Z with 128%Z; lia|]. rewrite sbe_be, tc_wrapZ_8 by lia. exact B1.
      - destruct (Z.ltb_spec z 0) as [Hn|Hn].
        + pick 1. split; [lia|]. f_equal. unfold wrapZ. change (2 ^ Z.of_N 8)%Z with 256%Z. lia.
        + left. split; [lia|]. f_equal. unfold wrapZ. change (2 ^ Z.of_N 8)%Z with 256%Z. lia. }
    destruct (Z.leb_spec (-128) z) as [H3|H3].
    { pick 6. split; [change (2 ^ 7)%Z with 128%Z; lia|]. rewrite sbe_be, tc_wrapZ_8 by lia. exact B1. }
    destruct (Z.leb_spec (-32768) z) as [H4|H4].
    { pick 7. split; [change (2 ^ 15)%Z with 32768%Z; lia|]. rewrite sbe_be, tc_wrapZ_16 by lia. reflexivity. }
    destruct (Z.leb_spec (-2147483648) z) as [H5|H5].
    { pick 8. split; [change (2 ^ 31)%Z with 2147483648%Z; lia|]. rewrite sbe_be, tc_wrapZ_32 by lia. reflexivity. }
    do 9 right. split; [change (2 ^ 63)%Z with 9223372036854775808%Z; lia|]. rewrite sbe_be, tc_wrapZ_64 by lia. reflexivity.
Qed.

Lemma lor_fix : forall fixmin cut,
  forallb (fun n => N.lor fixmin (wrap 8 n) =? fixmin + n) (map N.of_nat (seq 0 cut)) = true ->
  forall n, n < N.of_nat cut -> N.lor fixmin (wrap 8 n) = fixmin + n.
Proof. intros fixmin cut H n Hn. pose proof (N_forall_lt _ _ H n Hn) as P. cbv beta in P. lia. Qed.

Lemma out_str_legacy : forall s, len s < 2 ^ 32 -> ser_str s (write_clen ctRawLegacy (len s) ++ s).
Proof.
  intros s Hl. change (2 ^ 32) with 4294967296 in Hl. unfold ser_str, write_clen. rewrite slen_len.
  cbn [fixCutoff cFixMin c8 c16 c32 ctRawLegacy]. change (0 <? 32) with true. change (0 <? 0) with false. cbn [andb].
  destruct (N.ltb_spec (len s) 32) as [H|H].
  - left. split; [assumption|]. cbn [app]. f_equal.
    apply (lor_fix bFixStrMin 32); [vm_compute; reflexivity|lia].
  - destruct (N.ltb_spec (len s) 65536) as [H2|H2].
    + pick 2. split; [change (2 ^ 16) with 65536; lia|]. rewrite sbe_be.
      rewrite wrap_small by (change (2 ^ 16) with 65536; lia). reflexivity.
    + do 3 right. split; [change (2 ^ 32) with 4294967296; lia|]. rewrite sbe_be.
      rewrite wrap_small by (change (2 ^ 32) with 4294967296; lia). reflexivity.
Qed.

Lemma out_str : forall s, len s < 2 ^ 32 -> ser_str s (write_clen ctStr (len s) ++ s).
Proof.
  intros s Hl. change (2 ^ 32) with 4294967296 in Hl. unfold ser_str, write_clen. rewrite slen_len.
  cbn [fixCutoff cFixMin c8 c16 c32 ctStr]. change (0 <? 32) with true. change (0 <? bStr8) with true. cbn [andb].
  destruct (N.ltb_spec (len s) 32) as [H|H].
  - left. split; [assumption|]. cbn [app]. f_equal.
    apply (lor_fix bFixStrMin 32); [vm_compute; reflexivity|lia].
  - destruct (N.ltb_spec (len s) 256) as [H1|H1].
    { pick 1. split; [change (2 ^ 8) with 256; lia|]. rewrite sbe_be.
      rewrite wrap_small by (change (2 ^ 8) with 256; lia). rewrite one_byte by lia. reflexivity. }
    destruct (N.ltb_spec (len s) 65536) as [H2|H2].
    + pick 2. split; [change (2 ^ 16) with 65536; lia|]. rewrite sbe_be.
      rewrite wrap_small by (change (2 ^ 16) with 65536; lia). reflexivity.
    + do 3 right. split; [change (2 ^ 32) with 4294967296; lia|]. rewrite sbe_be.
      rewrite wrap_small by (change (2 ^ 32) with 4294967296; lia). reflexivity.
Qed.

Lemma out_bin : forall s, len s < 2 ^ 32 -> ser_bin s (write_clen ctBin (len s) ++ s).
Proof.
  intros s Hl. change (2 ^ 32) with 4294967296 in Hl. unfold ser_bin, write_clen. rewrite slen_len.
  cbn [fixCutoff cFixMin c8 c16 c32 ctBin]. change (0 <? 0) with false. change (0 <? bBin8) with true. cbn [andb].
  destruct (N.ltb_spec (len s) 256) as [H1|H1].
  { left. split; [change (2 ^ 8) with 256; lia|]. rewrite sbe_be.
    rewrite wrap_small by (change (2 ^ 8) with 256; lia). rewrite one_byte by lia. reflexivity. }
  destruct (N.ltb_spec (len s) 65536) as [H2|H2].
  - pick 1. split; [change (2 ^ 16) with 65536; lia|]. rewrite sbe_be.
    rewrite wrap_small by (change (2 ^ 16) with 65536; lia). reflexivity.
  - do 2 right. split; [change (2 ^ 32) with 4294967296; lia|]. rewrite sbe_be.
    rewrite wrap_small by (change (2 ^ 32) with 4294967296; lia). reflexivity.
Qed.

Lemma out_arr_head : forall n, n < 2 ^ 32 -> arr_head n (write_clen ctList n).
Proof.
  intros n Hl. change (2 ^ 32) with 4294967296 in Hl. unfold arr_head, write_clen.
  cbn [fixCutoff cFixMin c8 c16 c32 ctList]. change (0 <? 16) with true. change (0 <? 0) with false. cbn [andb].
  destruct (N.ltb_spec n 16) as [H|H].
  - left. split; [assumption|]. f_equal. apply (lor_fix bFixArrayMin 16); [vm_compute; reflexivity|lia].
  - destruct (N.ltb_spec n 65536) as [H2|H2].
    + pick 1. split; [change (2 ^ 16) with 65536; lia|]. rewrite sbe_be.
      rewrite wrap_small by (change (2 ^ 16) with 65536; lia). reflexivity.
    + do 2 right. split; [change (2 ^ 32) with 4294967296; lia|]. rewrite sbe_be.
      rewrite wrap_small by (change (2 ^ 32) with 4294967296; lia). reflexivity.
Qed.

Lemma out_map_head : forall n, n < 2 ^ 32 -> map_head n (write_clen ctMap n).
Proof.
  intros n Hl. change (2 ^ 32) with 4294967296 in Hl. unfold map_head, write_clen.
  cbn [fixCutoff cFixMin c8 c16 c32 ctMap]. change (0 <? 16) with true. change (0 <? 0) with false. cbn [andb].
  destruct (N.ltb_spec n 16) as [H|H].
  - left. split; [assumption|]. f_equal. apply (lor_fix bFixMapMin 16); [vm_compute; reflexivity|lia].
  - destruct (N.ltb_spec n 65536) as [H2|H2].
    + pick 1. split; [change (2 ^ 16) with 65536; lia|]. rewrite sbe_be.
      rewrite wrap_small by (change (2 ^ 16) with 65536; lia). reflexivity.
    + do 2 right. split; [change (2 ^ 32) with 4294967296; lia|]. rewrite sbe_be.
      rewrite wrap_small by (change (2 ^ 32) with 4294967296; lia). reflexivity.
Qed.

Lemma tc8_signed : forall t, t < 256 -> tc 8 (signed 8 t) = t /\ (-128 <= signed 8 t <= 127)%Z.
Proof.
  intros t H. unfold tc, signed. change (2 ^ (8 - 1)) with 128. change (2 ^ Z.of_N 8)%Z with 256%Z. change (2 ^ 8)%Z with 256%Z.
  destruct (N.ltb_spec t 128) as [Hlt|Hge].
  - destruct (Z.ltb_spec (Z.of_N t) 0); lia.
  - destruct (Z.ltb_spec (Z.of_N t - 256) 0); lia.
Qed.

Lemma out_ext : forall t data, t < 256 -> len data < 2 ^ 32 ->
  ser_ext (signed 8 t) data (ext_preamble t (len data) ++ data).
Proof.
  intros t data Ht Hl. change (2 ^ 32) with 4294967296 in Hl. unfold ser_ext. rewrite slen_len.
  destruct (tc8_signed t Ht) as [Et Hr]. rewrite Et. split; [assumption|]. unfold ext_preamble.
  destruct (N.eqb_spec (len data) 1) as [E|N1]. { left. split; [assumption|reflexivity]. }
  destruct (N.eqb_spec (len data) 2) as [E|N2]. { pick 1. split; [assumption|reflexivity]. }
  destruct (N.eqb_spec (len data) 4) as [E|N4]. { pick 2. split; [assumption|reflexivity]. }
  destruct (N.eqb_spec (len data) 8) as [E|N8]. { pick 3. split; [assumption|reflexivity]. }
  destruct (N.eqb_spec (len data) 16) as [E|N16]. { pick 4. split; [assumption|reflexivity]. }
  destruct (N.ltb_spec (len data) 256) as [H1|H1].
  { pick 5. split; [change (2 ^ 8) with 256; lia|]. rewrite sbe_be.
    rewrite wrap_small by (change (2 ^ 8) with 256; lia).
    change ([bExt8; len data; t] ++ data) with ([bExt8; len data] ++ t :: data). rewrite one_byte by lia. reflexivity. }
  destruct (N.ltb_spec (len data) 65536) as [H2|H2].
  { pick 6. split; [change (2 ^ 16) with 65536; lia|]. rewrite sbe_be.
    rewrite wrap_small by (change (2 ^ 16) with 65536; lia). cbn [app]. rewrite <- app_assoc. reflexivity. }
  do 7 right. split; [change (2 ^ 32) with 4294967296; lia|]. rewrite sbe_be.
  rewrite wrap_small by (change (2 ^ 32) with 4294967296; lia). cbn [app]. rewrite <- app_assoc. reflexivity.
Qed.

Lemma out_time : forall s n, n < 1000000000 -> (- 2 ^ 63 <= s < 2 ^ 63)%Z ->
  ser_time s n (ext_preamble bTimeExtTagU (time_len s n) ++ time_body s n).
Proof.
  intros s n Hn Hs. unfold ser_time, time_body.
  destruct (time_len_cases s n Hn) as [[E [Sm [N0 S32]]]|[[E [Sm _]]|[E NS]]]; rewrite E; cbn [N.eqb Pos.eqb].
  - left. split; [assumption|]. unfold small_time in Sm. split; [lia|].
    rewrite (time_data64_small s n Sm Hn). subst n. rewrite N.mul_0_l, N.add_0_l.
    change (2 ^ 32)%Z with 4294967296%Z in S32.
    rewrite wrap_small by (change (2 ^ 32) with 4294967296; lia). rewrite sbe_be. reflexivity.
  - pick 1. split; [lia|]. split; [exact Sm|].
    rewrite (time_data64_small s n Sm Hn). rewrite sbe_be. reflexivity.
  - do 2 right. split; [lia|]. split; [assumption|].
    rewrite !sbe_be. rewrite wrap_small by (change (2 ^ 32) with 4294967296; lia).
    rewrite tc_wrapZ_64 by (change (2 ^ 63)%Z with 9223372036854775808%Z in Hs; lia). reflexivity.
Qed.

Lemma c10_out : forall O i, supported i -> ser (sval_of O i) (enc O i).
Proof.
  intros O. induction i using item_ind'; intros HS; cbn [sval_of enc ser supported] in *.
  - reflexivity.
  - destruct b; reflexivity.
  - apply out_int; assumption.
  - apply out_uint; assumption.
  - split; [assumption|]. rewrite sbe_be. reflexivity.
  - split; [assumption|]. rewrite sbe_be. reflexivity.
  - unfold enc_str. destruct (e_writeext O); [destruct (e_stringtoraw O)|]; cbn [andb ser].
    + apply out_bin; assumption.
    + apply out_str; assumption.
    + apply out_str_legacy; assumption.
  - unfold enc_bytes. destruct (e_writeext O); cbn [ser].
    + apply out_bin; assumption.
    + apply out_str_legacy; assumption.
  - (* arr *)
    change (supported (IArr l)) in HS. apply supported_arr in HS. destruct HS as [Hl HS].
    change (enc O (IArr l)) with (enc O (IArr l)).
    assert (E := enc_arr_eq O l). cbn [enc] in E. rewrite E. clear E.
    exists (write_clen ctList (len l)), (map (enc O) l).
    split; [unfold slen; rewrite map_length; apply out_arr_head; assumption|]. split; [reflexivity|].
    clear Hl. induction l as [|x l IHl]; [exact I|].
    inversion H as [|? ? Hx Hr]; subst. inversion HS as [|? ? Sx Sr]; subst.
    cbn [map]. split; [apply Hx; assumption|apply IHl; assumption].
  - (* map *)
    change (supported (IMap l)) in HS. apply supported_map in HS. destruct HS as [Hl HS].
    assert (E := enc_map_eq O l). cbn [enc] in E. rewrite E. clear E.
    exists (write_clen ctMap (len l)), (map (fun kv => enc O (fst kv) ++ enc O (snd kv)) l).
    split; [unfold slen; rewrite map_length; apply out_map_head; assumption|]. split; [reflexivity|].
    clear Hl. induction l as [|x l IHl]; [exact I|].
    inversion H as [|? ? [Hk Hv] Hr]; subst. inversion HS as [|? ? [Sk [Sh Sv]] Sr]; subst.
    cbn [map fst snd]. split; [|apply IHl; assumption].
    exists (enc O (fst x)), (enc O (snd x)). repeat apply conj; [apply Hk; assumption|apply Hv; assumption|reflexivity].
  - contradiction.
  - destruct HS as [Ht Hl]. rewrite wrap_small by (change (2 ^ 8) with 256; lia). apply out_ext; [lia|assumption].
  - destruct HS as [Hn Hs]. unfold enc_time. destruct (is_zero_time s n); [reflexivity|].
    destruct (e_writeext O); cbn [ser].
    + apply out_time; assumption.
    + rewrite <- (time_body_len s n Hn). apply out_str_legacy.
      rewrite time_body_len by assumption. apply time_len_lt; assumption.
Qed.

(* C10/MsgpackProofs — the msgpack model against the specification (C10/MsgpackSpec.v):
   out: what enc writes is one of the serialisations the specification permits for the same data;
   in:  every serialisation the specification permits is decoded to the data it denotes. *)
From Coq Require Import List NArith ZArith Lia Bool Arith.
From Coq Require Import ZifyN ZifyNat ZifyBool.
From Verif Require Import Base.Outcome Wire.Item Gen.Consts Wire.Msgpack Wire.MsgpackProofs Wire.MsgpackRT C10.MsgpackSpec.
Import ListNotations.
Local Open Scope N_scope.

Ltac Zify.zify_post_hook ::= Z.div_mod_to_equations.

(* ================================================================== *)
(* the two notations for big-endian and two's complement agree *)

Lemma be_put_snoc : forall k v, be_put (S k) v = be_put k (v / 256) ++ [v mod 256].
Proof.
  induction k as [|k IH]; intros v.
  - cbn [be_put app]. change (256 ^ N.of_nat 0) with 1. rewrite N.div_1_r. reflexivity.
  - change (be_put (S (S k)) v) with ((v / 256 ^ N.of_nat (S k)) mod 256 :: be_put (S k) v).
    rewrite IH.
    change (be_put (S k) (v / 256)) with ((v / 256 / 256 ^ N.of_nat k) mod 256 :: be_put k (v / 256)).
    cbn [app]. f_equal. f_equal.
    rewrite N.div_div by (try apply N.pow_nonzero; discriminate).
    replace (N.of_nat (S k)) with (N.succ (N.of_nat k)) by lia. rewrite N.pow_succ_r'. reflexivity.
Qed.

Lemma sbe_be : forall k v, sbe k v = be_put k v.
Proof.
  induction k as [|k IH]; intros v; [reflexivity|].
  cbn [sbe]. rewrite IH. symmetry. apply be_put_snoc.
Qed.

Lemma tc_wrapZ_8 : forall z, (-128 <= z < 128)%Z -> tc 8 z = wrapZ 8 z.
Proof. intros z H. unfold tc, wrapZ. change (2 ^ 8)%Z with 256%Z. change (2 ^ Z.of_N 8)%Z with 256%Z. destruct (Z.ltb_spec z 0); lia. Qed.
Lemma tc_wrapZ_16 : forall z, (-32768 <= z < 32768)%Z -> tc 16 z = wrapZ 16 z.
Proof. intros z H. unfold tc, wrapZ. change (2 ^ 16)%Z with 65536%Z. change (2 ^ Z.of_N 16)%Z with 65536%Z. destruct (Z.ltb_spec z 0); lia. Qed.
Lemma tc_wrapZ_32 : forall z, (-2147483648 <= z < 2147483648)%Z -> tc 32 z = wrapZ 32 z.
Proof. intros z H. unfold tc, wrapZ. change (2 ^ 32)%Z with 4294967296%Z. change (2 ^ Z.of_N 32)%Z with 4294967296%Z. destruct (Z.ltb_spec z 0); lia. Qed.
Lemma tc_wrapZ_64 : forall z, (-9223372036854775808 <= z < 9223372036854775808)%Z -> tc 64 z = wrapZ 64 z.
Proof.
  intros z H. unfold tc, wrapZ. change (2 ^ 64)%Z with 18446744073709551616%Z.
  change (2 ^ Z.of_N 64)%Z with 18446744073709551616%Z. destruct (Z.ltb_spec z 0); lia.
Qed.

Lemma slen_len : forall A (l : list A), slen l = len l.
Proof. reflexivity. Qed.

(* ================================================================== *)
(* OUT: the encoder writes a permitted serialisation of the same data *)

(* the data an encoded item carries, in the specification's type system *)
Fixpoint sval_of (O : eopts) (i : item) : sval :=
  match i with
  | INil => SNil
  | IBool b => SBool b
  | IInt z => SInt z
  | IUint n => SInt (Z.of_N n)
  | IF32 b => SF32 b
  | IF64 b => SF64 b
  | IStr s => if e_writeext O && e_stringtoraw O then SBin s else SStr s
  | IBytes s => if e_writeext O then SBin s else SStr s    (* old spec: raw bytes = the str family *)
  | IArr l => SArr (map (sval_of O) l)
  | IMap l => SMap (map (fun kv => (sval_of O (fst kv), sval_of O (snd kv))) l)
  | ITag t _ => SExt (signed 8 (wrap 8 t)) []
  | IExt t s => SExt (signed 8 t) s
  | ITime s n =>
      if is_zero_time s n then SNil             (* the zero time.Time is written as nil *)
      else if e_writeext O then STime s n
      else SStr (time_body s n)                 (* old spec: the timestamp payload as raw bytes *)
  end.

Tactic Notation "pick" integer(n) := do n right; try left.

Lemma out_uint : forall O n, n < 2 ^ 64 -> ser_int (Z.of_N n) (enc_uint O n).
Proof.
  intros O n Hn. change (2 ^ 64) with 18446744073709551616 in Hn. unfold enc_uint, ser_int.
  destruct (N.leb_spec n 127) as [H1|H1].
  - destruct (e_nofixednum O).
    + pick 2. split; [change (2 ^ 8)%Z with 256%Z; lia|].
      rewrite N2Z.id, sbe_be. rewrite wrap_small by (change (2 ^ 8) with 256; lia).
      change [bUint8; n] with ([bUint8; n] ++ []). rewrite one_byte by lia. rewrite app_nil_r. reflexivity.
    + left. split; [lia|]. rewrite N2Z.id. rewrite wrap_small by (change (2 ^ 8) with 256; lia). reflexivity.
  - destruct (N.leb_spec n 255) as [H2|H2].
    { pick 2. split; [change (2 ^ 8)%Z with 256%Z; lia|].
      rewrite N2Z.id, sbe_be. rewrite wrap_small by (change (2 ^ 8) with 256; lia).
      change [bUint8; n] with ([bUint8; n] ++ []). rewrite one_byte by lia. rewrite app_nil_r. reflexivity. }
    destruct (N.leb_spec n 65535) as [H3|H3].
    { pick 3. split; [change (2 ^ 16)%Z with 65536%Z; lia|].
      rewrite N2Z.id, sbe_be. rewrite wrap_small by (change (2 ^ 16) with 65536; lia). reflexivity. }
    destruct (N.leb_spec n 4294967295) as [H4|H4].
    { pick 4. split; [change (2 ^ 32)%Z with 4294967296%Z; lia|].
      rewrite N2Z.id, sbe_be. rewrite wrap_small by (change (2 ^ 32) with 4294967296; lia). reflexivity. }
    pick 5. split; [change (2 ^ 64)%Z with 18446744073709551616%Z; lia|].
    rewrite N2Z.id, sbe_be. rewrite wrap_small by (change (2 ^ 64) with 18446744073709551616; lia). reflexivity.
Qed.

Lemma out_int : forall O z, (- 2 ^ 63 <= z < 2 ^ 63)%Z -> ser_int z (enc_int O z).
Proof.
  intros O z Hz. change (2 ^ 63)%Z with 9223372036854775808%Z in Hz. unfold enc_int.
  destruct (e_posintunsigned O && (0 <=? z)%Z) eqn:Epu.
  { apply andb_true_iff in Epu. destruct Epu as [_ Hpos]. apply Z.leb_le in Hpos.
    rewrite wrapZ_nonneg by (change (2 ^ Z.of_N 64)%Z with 18446744073709551616%Z; lia).
    rewrite <- (Z2N.id z) at 1 by lia. apply out_uint. change (2 ^ 64) with 18446744073709551616. lia. }
  unfold ser_int.
  assert (B1 : [bInt8; wrapZ 8 z] = 0xd0 :: be_put 1 (wrapZ 8 z)).
  { change [bInt8; wrapZ 8 z] with ([bInt8; wrapZ 8 z] ++ []). rewrite one_byte by (apply (wrapZ_lt 8)).
    rewrite app_nil_r. reflexivity. }
  destruct (Z.ltb_spec 127 z) as [H1|H1].
  - destruct (Z.leb_spec z 32767) as [H2|H2].
    { pick 7. split; [change (2 ^ 15)%Z with 32768%Z; lia|]. rewrite sbe_be, tc_wrapZ_16 by lia. reflexivity. }
    destruct (Z.leb_spec z 2147483647) as [H3|H3].
    { pick 8. split; [change (2 ^ 31)%Z with 2147483648%Z; lia|]. rewrite sbe_be, tc_wrapZ_32 by lia. reflexivity. }
    do 9 right. split; [change (2 ^ 63)%Z with 9223372036854775808%Z; lia|]. rewrite sbe_be, tc_wrapZ_64 by lia. reflexivity.
  - destruct (Z.leb_spec (-32) z) as [H2|H2].
    { destruct (e_nofixednum O).
      - pick 6. split; [change (2 ^ 7)%Z with 128%Z; lia|]. rewrite sbe_be, tc_wrapZ_8 by lia. exact B1.
      - destruct (Z.ltb_spec z 0) as [Hn|Hn].
        + pick 1. split; [lia|]. f_equal. unfold wrapZ. change (2 ^ Z.of_N 8)%Z with 256%Z. lia.
        + left. split; [lia|]. f_equal. unfold wrapZ. change (2 ^ Z.of_N 8)%Z with 256%Z. lia. }
    destruct (Z.leb_spec (-128) z) as [H3|H3].
    { pick 6. split; [change (2 ^ 7)%Z with 128%Z; lia|]. rewrite sbe_be, tc_wrapZ_8 by lia. exact B1. }
    destruct (Z.leb_spec (-32768) z) as [H4|H4].
    { pick 7. split; [change (2 ^ 15)%Z with 32768%Z; lia|]. rewrite sbe_be, tc_wrapZ_16 by lia. reflexivity. }
    destruct (Z.leb_spec (-2147483648) z) as [H5|H5].
    { pick 8. split; [change (2 ^ 31)%Z with 2147483648%Z; lia|]. rewrite sbe_be, tc_wrapZ_32 by lia. reflexivity. }
    do 9 right. split; [change (2 ^ 63)%Z with 9223372036854775808%Z; lia|]. rewrite sbe_be, tc_wrapZ_64 by lia. reflexivity.
Qed.

Lemma lor_fix : forall fixmin cut,
  forallb (fun n => N.lor fixmin (wrap 8 n) =? fixmin + n) (map N.of_nat (seq 0 cut)) = true ->
  forall n, n < N.of_nat cut -> N.lor fixmin (wrap 8 n) = fixmin + n.
Proof. intros fixmin cut H n Hn. pose proof (N_forall_lt _ _ H n Hn) as P. cbv beta in P. lia. Qed.

Lemma out_str_legacy : forall s, len s < 2 ^ 32 -> ser_str s (write_clen ctRawLegacy (len s) ++ s).
Proof.
  intros s Hl. change (2 ^ 32) with 4294967296 in Hl. unfold ser_str, write_clen. rewrite slen_len.
  cbn [fixCutoff cFixMin c8 c16 c32 ctRawLegacy]. change (0 <? 32) with true. change (0 <? 0) with false. cbn [andb].
  destruct (N.ltb_spec (len s) 32) as [H|H].
  - left. split; [assumption|]. cbn [app]. f_equal.
    apply (lor_fix bFixStrMin 32); [vm_compute; reflexivity|lia].
  - destruct (N.ltb_spec (len s) 65536) as [H2|H2].
    + pick 2. split; [change (2 ^ 16) with 65536; lia|]. rewrite sbe_be.
      rewrite wrap_small by (change (2 ^ 16) with 65536; lia). reflexivity.
    + do 3 right. split; [change (2 ^ 32) with 4294967296; lia|]. rewrite sbe_be.
      rewrite wrap_small by (change (2 ^ 32) with 4294967296; lia). reflexivity.
Qed.

Lemma out_str : forall s, len s < 2 ^ 32 -> ser_str s (write_clen ctStr (len s) ++ s).
Proof.
  intros s Hl. change (2 ^ 32) with 4294967296 in Hl. unfold ser_str, write_clen. rewrite slen_len.
  cbn [fixCutoff cFixMin c8 c16 c32 ctStr]. change (0 <? 32) with true. change (0 <? bStr8) with true. cbn [andb].
  destruct (N.ltb_spec (len s) 32) as [H|H].
  - left. split; [assumption|]. cbn [app]. f_equal.
    apply (lor_fix bFixStrMin 32); [vm_compute; reflexivity|lia].
  - destruct (N.ltb_spec (len s) 256) as [H1|H1].
    { pick 1. split; [change (2 ^ 8) with 256; lia|]. rewrite sbe_be.
      rewrite wrap_small by (change (2 ^ 8) with 256; lia). rewrite one_byte by lia. reflexivity. }
    destruct (N.ltb_spec (len s) 65536) as [H2|H2].
    + pick 2. split; [change (2 ^ 16) with 65536; lia|]. rewrite sbe_be.
      rewrite wrap_small by (change (2 ^ 16) with 65536; lia). reflexivity.
    + do 3 right. split; [change (2 ^ 32) with 4294967296; lia|]. rewrite sbe_be.
      rewrite wrap_small by (change (2 ^ 32) with 4294967296; lia). reflexivity.
Qed.

Lemma out_bin : forall s, len s < 2 ^ 32 -> ser_bin s (write_clen ctBin (len s) ++ s).
Proof.
  intros s Hl. change (2 ^ 32) with 4294967296 in Hl. unfold ser_bin, write_clen. rewrite slen_len.
  cbn [fixCutoff cFixMin c8 c16 c32 ctBin]. change (0 <? 0) with false. change (0 <? bBin8) with true. cbn [andb].
  destruct (N.ltb_spec (len s) 256) as [H1|H1].
  { left. split; [change (2 ^ 8) with 256; lia|]. rewrite sbe_be.
    rewrite wrap_small by (change (2 ^ 8) with 256; lia). rewrite one_byte by lia. reflexivity. }
  destruct (N.ltb_spec (len s) 65536) as [H2|H2].
  - pick 1. split; [change (2 ^ 16) with 65536; lia|]. rewrite sbe_be.
    rewrite wrap_small by (change (2 ^ 16) with 65536; lia). reflexivity.
  - do 2 right. split; [change (2 ^ 32) with 4294967296; lia|]. rewrite sbe_be.
    rewrite wrap_small by (change (2 ^ 32) with 4294967296; lia). reflexivity.
Qed.

Lemma out_arr_head : forall n, n < 2 ^ 32 -> arr_head n (write_clen ctList n).
Proof.
  intros n Hl. change (2 ^ 32) with 4294967296 in Hl. unfold arr_head, write_clen.
  cbn [fixCutoff cFixMin c8 c16 c32 ctList]. change (0 <? 16) with true. change (0 <? 0) with false. cbn [andb].
  destruct (N.ltb_spec n 16) as [H|H].
  - left. split; [assumption|]. f_equal. apply (lor_fix bFixArrayMin 16); [vm_compute; reflexivity|lia].
  - destruct (N.ltb_spec n 65536) as [H2|H2].
    + pick 1. split; [change (2 ^ 16) with 65536; lia|]. rewrite sbe_be.
      rewrite wrap_small by (change (2 ^ 16) with 65536; lia). reflexivity.
    + do 2 right. split; [change (2 ^ 32) with 4294967296; lia|]. rewrite sbe_be.
      rewrite wrap_small by (change (2 ^ 32) with 4294967296; lia). reflexivity.
Qed.

Lemma out_map_head : forall n, n < 2 ^ 32 -> map_head n (write_clen ctMap n).
Proof.
  intros n Hl. change (2 ^ 32) with 4294967296 in Hl. unfold map_head, write_clen.
  cbn [fixCutoff cFixMin c8 c16 c32 ctMap]. change (0 <? 16) with true. change (0 <? 0) with false. cbn [andb].
  destruct (N.ltb_spec n 16) as [H|H].
  - left. split; [assumption|]. f_equal. apply (lor_fix bFixMapMin 16); [vm_compute; reflexivity|lia].
  - destruct (N.ltb_spec n 65536) as [H2|H2].
    + pick 1. split; [change (2 ^ 16) with 65536; lia|]. rewrite sbe_be.
      rewrite wrap_small by (change (2 ^ 16) with 65536; lia). reflexivity.
    + do 2 right. split; [change (2 ^ 32) with 4294967296; lia|]. rewrite sbe_be.
      rewrite wrap_small by (change (2 ^ 32) with 4294967296; lia). reflexivity.
Qed.

Lemma tc8_signed : forall t, t < 256 -> tc 8 (signed 8 t) = t /\ (-128 <= signed 8 t <= 127)%Z.
Proof.
  intros t H. unfold tc, signed. change (2 ^ (8 - 1)) with 128. change (2 ^ Z.of_N 8)%Z with 256%Z. change (2 ^ 8)%Z with 256%Z.
  destruct (N.ltb_spec t 128) as [Hlt|Hge].
  - destruct (Z.ltb_spec (Z.of_N t) 0); lia.
  - destruct (Z.ltb_spec (Z.of_N t - 256) 0); lia.
Qed.

Lemma out_ext : forall t data, t < 256 -> len data < 2 ^ 32 ->
  ser_ext (signed 8 t) data (ext_preamble t (len data) ++ data).
Proof.
  intros t data Ht Hl. change (2 ^ 32) with 4294967296 in Hl. unfold ser_ext. rewrite slen_len.
  destruct (tc8_signed t Ht) as [Et Hr]. rewrite Et. split; [assumption|]. unfold ext_preamble.
  destruct (N.eqb_spec (len data) 1) as [E|N1]. { left. split; [assumption|reflexivity]. }
  destruct (N.eqb_spec (len data) 2) as [E|N2]. { pick 1. split; [assumption|reflexivity]. }
  destruct (N.eqb_spec (len data) 4) as [E|N4]. { pick 2. split; [assumption|reflexivity]. }
  destruct (N.eqb_spec (len data) 8) as [E|N8]. { pick 3. split; [assumption|reflexivity]. }
  destruct (N.eqb_spec (len data) 16) as [E|N16]. { pick 4. split; [assumption|reflexivity]. }
  destruct (N.ltb_spec (len data) 256) as [H1|H1].
  { pick 5. split; [change (2 ^ 8) with 256; lia|]. rewrite sbe_be.
    rewrite wrap_small by (change (2 ^ 8) with 256; lia).
    change ([bExt8; len data; t] ++ data) with ([bExt8; len data] ++ t :: data). rewrite one_byte by lia. reflexivity. }
  destruct (N.ltb_spec (len data) 65536) as [H2|H2].
  { pick 6. split; [change (2 ^ 16) with 65536; lia|]. rewrite sbe_be.
    rewrite wrap_small by (change (2 ^ 16) with 65536; lia). cbn [app]. rewrite <- app_assoc. reflexivity. }
  do 7 right. split; [change (2 ^ 32) with 4294967296; lia|]. rewrite sbe_be.
  rewrite wrap_small by (change (2 ^ 32) with 4294967296; lia). cbn [app]. rewrite <- app_assoc. reflexivity.
Qed.

Lemma out_time : forall s n, n < 1000000000 -> (- 2 ^ 63 <= s < 2 ^ 63)%Z ->
  ser_time s n (ext_preamble bTimeExtTagU (time_len s n) ++ time_body s n).
Proof.
  intros s n Hn Hs. unfold ser_time, time_body.
  destruct (time_len_cases s n Hn) as [[E [Sm [N0 S32]]]|[[E [Sm _]]|[E NS]]]; rewrite E; cbn [N.eqb Pos.eqb].
  - left. split; [assumption|]. unfold small_time in Sm. split; [lia|].
    rewrite (time_data64_small s n Sm Hn). subst n. rewrite N.mul_0_l, N.add_0_l.
    change (2 ^ 32)%Z with 4294967296%Z in S32.
    rewrite wrap_small by (change (2 ^ 32) with 4294967296; lia). rewrite sbe_be. reflexivity.
  - pick 1. split; [lia|]. split; [exact Sm|].
    rewrite (time_data64_small s n Sm Hn). rewrite sbe_be. reflexivity.
  - do 2 right. split; [lia|]. split; [assumption|].
    rewrite !sbe_be. rewrite wrap_small by (change (2 ^ 32) with 4294967296; lia).
    rewrite tc_wrapZ_64 by (change (2 ^ 63)%Z with 9223372036854775808%Z in Hs; lia). reflexivity.
Qed.

Lemma c10_out : forall O i, supported i -> ser (sval_of O i) (enc O i).
Proof.
  intros O. induction i using item_ind'; intros HS; cbn [sval_of enc ser supported] in *.
  - reflexivity.
  - destruct b; reflexivity.
  - apply out_int; assumption.
  - apply out_uint; assumption.
  - split; [assumption|]. rewrite sbe_be. reflexivity.
  - split; [assumption|]. rewrite sbe_be. reflexivity.
  - unfold enc_str. destruct (e_writeext O); [destruct (e_stringtoraw O)|]; cbn [andb ser].
    + apply out_bin; assumption.
    + apply out_str; assumption.
    + apply out_str_legacy; assumption.
  - unfold enc_bytes. destruct (e_writeext O); cbn [ser].
    + apply out_bin; assumption.
    + apply out_str_legacy; assumption.
  - (* arr *)
    change (supported (IArr l)) in HS. apply supported_arr in HS. destruct HS as [Hl HS].
    change (enc O (IArr l)) with (enc O (IArr l)).
    assert (E := enc_arr_eq O l). cbn [enc] in E. rewrite E. clear E.
    exists (write_clen ctList (len l)), (map (enc O) l).
    split; [unfold slen; rewrite map_length; apply out_arr_head; assumption|]. split; [reflexivity|].
    clear Hl. induction l as [|x l IHl]; [exact I|].
    inversion H as [|? ? Hx Hr]; subst. inversion HS as [|? ? Sx Sr]; subst.
    cbn [map]. split; [apply Hx; assumption|apply IHl; assumption].
  - (* map *)
    change (supported (IMap l)) in HS. apply supported_map in HS. destruct HS as [Hl HS].
    assert (E := enc_map_eq O l). cbn [enc] in E. rewrite E. clear E.
    exists (write_clen ctMap (len l)), (map (fun kv => enc O (fst kv) ++ enc O (snd kv)) l).
    split; [unfold slen; rewrite map_length; apply out_map_head; assumption|]. split; [reflexivity|].
    clear Hl. induction l as [|x l IHl]; [exact I|].
    inversion H as [|? ? [Hk Hv] Hr]; subst. inversion HS as [|? ? [Sk [Sh Sv]] Sr]; subst.
    cbn [map fst snd]. split; [|apply IHl; assumption].
    exists (enc O (fst x)), (enc O (snd x)). repeat apply conj; [apply Hk; assumption|apply Hv; assumption|reflexivity].
  - contradiction.
  - destruct HS as [Ht Hl]. rewrite wrap_small by (change (2 ^ 8) with 256; lia). apply out_ext; [lia|assumption].
  - destruct HS as [Hn Hs]. unfold enc_time. destruct (is_zero_time s n); [reflexivity|].
    destruct (e_writeext O); cbn [ser].
    + apply out_time; assumption.
    + rewrite <- (time_body_len s n Hn). apply out_str_legacy.
      rewrite time_body_len by assumption. apply time_len_lt; assumption.
Qed.

(* ================================================================== *)
(* IN: every permitted serialisation decodes to the data it denotes *)

Definition hashable_s (s : sval) : bool :=
  match s with SArr _ | SMap _ | SExt _ _ => false | _ => true end.

(* what the library cannot take into an interface{}: map keys that Go cannot hash (arrays, maps,
   extensions), application use of the reserved extension type -1, and -- with SignedInteger --
   an integer above MaxInt64, which int64 cannot hold: the library rejects it with an overflow
   error (c10_in_signed_overflow; before fix 3c4765d it came back sign-flipped, F07-1n) *)
Fixpoint lib_supports (D : dopts) (s : sval) : Prop :=
  match s with
  | SInt z => ~ (d_signedinteger D = true /\ (2 ^ 63 <= z)%Z)
  | SExt ty _ => ty <> (-1)%Z
  | SArr l => (fix go l := match l with [] => True | x :: r => lib_supports D x /\ go r end) l
  | SMap l => (fix go l := match l with
                           | [] => True
                           | kv :: r => lib_supports D (fst kv) /\ hashable_s (fst kv) = true /\ lib_supports D (snd kv) /\ go r
                           end) l
  | _ => True
  end.

(* the decoded item carries the data of the spec value *)
Fixpoint agrees (D : dopts) (it : item) (s : sval) {struct s} : Prop :=
  match s with
  | SNil => it = INil
  | SBool b => it = IBool b
  | SInt z => it = IInt z \/ ((0 <= z)%Z /\ it = IUint (Z.to_N z))
  | SF32 b => it = IF64 (f32_to_f64 b)
  | SF64 b => it = IF64 b
  | SStr s => it = mkraw (d_writeext D || d_rawtostring D) s
  | SBin s => it = mkraw (d_rawtostring D) s
  | SArr l =>
      exists l', it = IArr l' /\
        (fix go (l : list sval) (l' : list item) {struct l} : Prop :=
           match l, l' with
           | [], [] => True
           | x :: r, x' :: r' => agrees D x' x /\ go r r'
           | _, _ => False
           end) l l'
  | SMap l =>
      exists l', it = IMap l' /\
        (fix go (l : list (sval * sval)) (l' : list (item * item)) {struct l} : Prop :=
           match l, l' with
           | [], [] => True
           | kv :: r, kv' :: r' =>
               (exists k0, agrees D k0 (fst kv) /\ fst kv' = key_fix k0) /\ agrees D (snd kv') (snd kv) /\ go r r'
           | _, _ => False
           end) l l'
  | SExt ty data => it = IExt (tc 8 ty) data
  | STime sec nsec => it = ITime sec nsec
  end.

Lemma agrees_hashable : forall D it s, agrees D it s -> hashable_s s = true -> hashable (key_fix it) = true.
Proof.
  intros D it s H Hh. destruct s; try discriminate; cbn [agrees] in H.
  - subst; reflexivity.
  - subst; reflexivity.
  - destruct H as [->|[_ ->]]; reflexivity.
  - subst; reflexivity.
  - subst; reflexivity.
  - subst. unfold mkraw. destruct (_ || _); reflexivity.
  - subst. unfold mkraw. destruct (d_rawtostring D); reflexivity.
  - subst; reflexivity.
Qed.

Lemma ser_nonempty : forall s w, ser s w -> (1 <= length w)%nat.
Proof.
  intros s w H. destruct s; cbn [ser] in H.
  - subst; cbn; lia.
  - subst; cbn; lia.
  - unfold ser_int in H.
    repeat (destruct H as [[_ ->]|H]; [cbn [length]; lia|]). destruct H as [_ ->]. cbn [length]; lia.
  - destruct H as [_ ->]. cbn [length]; lia.
  - destruct H as [_ ->]. cbn [length]; lia.
  - unfold ser_str in H. repeat (destruct H as [[_ ->]|H]; [cbn [length]; lia|]). destruct H as [_ ->]. cbn [length]; lia.
  - unfold ser_bin in H. repeat (destruct H as [[_ ->]|H]; [cbn [length]; lia|]). destruct H as [_ ->]. cbn [length]; lia.
  - destruct H as [h [ws [Hh [-> _]]]]. rewrite app_length.
    unfold arr_head in Hh. destruct Hh as [[_ ->]|[[_ ->]|[_ ->]]]; cbn [length]; lia.
  - destruct H as [h [ws [Hh [-> _]]]]. rewrite app_length.
    unfold map_head in Hh. destruct Hh as [[_ ->]|[[_ ->]|[_ ->]]]; cbn [length]; lia.
  - unfold ser_ext in H. destruct H as [_ H].
    repeat (destruct H as [[_ ->]|H]; [cbn [length app]; lia|]). destruct H as [_ ->]. cbn [length]; lia.
  - unfold ser_time in H. destruct H as [[_ [_ ->]]|[[_ [_ ->]]|[_ [_ ->]]]]; cbn [length app]; lia.
Qed.

(* descriptor classes of the spec's fix bytes *)
Lemma fix_add : forall base cut d,
  forallb (fun n => desc_eqb (classify (base + n)) d) (map N.of_nat (seq 0 cut)) = true ->
  forall n, n < N.of_nat cut -> classify (base + n) = d.
Proof.
  intros base cut d H n Hn. pose proof (N_forall_lt _ _ H n Hn) as P. cbv beta in P.
  apply desc_eqb_eq. assumption.
Qed.

Lemma fix_xor : forall base cut,
  forallb (fun n => N.lxor base (base + n) =? n) (map N.of_nat (seq 0 cut)) = true ->
  forall n, n < N.of_nat cut -> N.lxor base (base + n) = n.
Proof. intros base cut H n Hn. pose proof (N_forall_lt _ _ H n Hn) as P. cbv beta in P. lia. Qed.

Lemma rd_len_be : forall fm c k n r, (1 <= k)%nat -> n < 256 ^ N.of_nat k ->
  rd_len fm c k (be_put k n ++ r) = Ok (n, r).
Proof.
  intros fm c k n r Hk Hn. destruct k as [|k]; [lia|]. cbn [rd_len].
  rewrite rd_nk_put. cbn [bind]. rewrite be_get_put by assumption. reflexivity.
Qed.

Section In.
  Variable D : dopts.
  Variable cap : N.
  Hypothesis Hcap : goslice cap.

  Definition in_ok (s : sval) : Prop :=
    forall w, ser s w -> lib_supports D s -> forall f d rest,
    (2 * length w + 1 <= f)%nat -> (d + Z.of_nat (sdepth s) < maxdepth D)%Z ->
    exists it, decF D cap f d (w ++ rest) = Ok (it, rest) /\ agrees D it s.

  (* a string-family value behind any head that announces its length *)
  Lemma in_rawbytes : forall c w' lb s f d rest (fixmin : N) (mk : list N -> item),
    len s < 2 ^ 32 ->
    (forall r, rd_len fixmin c w' (lb ++ r) = Ok (len s, r)) ->
    (dec_body D cap f d c (lb ++ s ++ rest) =
       do (n, r1) <- rd_len fixmin c w' (lb ++ s ++ rest) ;;
       do (x, r2) <- rd_readx cap n r1 ;; Ok (mk x, r2)) ->
    decF D cap (S f) d (c :: lb ++ s ++ rest) = Ok (mk s, rest).
  Proof.
    intros c w' lb s f d rest fixmin mk Hl Hrd Hbody.
    rewrite decF_S, Hbody, Hrd. cbn [bind].
    rewrite rd_readx_app by (unfold goslice in Hcap; change (2 ^ 32) with 4294967296 in Hl; lia). reflexivity.
  Qed.

  Lemma in_str : forall s w f d rest, ser_str s w ->
    decF D cap (S f) d (w ++ rest) = Ok (mkraw (d_writeext D || d_rawtostring D) s, rest).
  Proof.
    intros s w f d rest H. unfold ser_str in H. rewrite slen_len in H.
    destruct H as [[Hn ->]|[[Hn ->]|[[Hn ->]|[Hn ->]]]]; rewrite ?sbe_be; cbn [app]; rewrite <- ?app_assoc.
    - change (0xa0 + len s :: s ++ rest) with (0xa0 + len s :: [] ++ s ++ rest).
      apply (in_rawbytes _ 0%nat [] s f d rest bFixStrMin); [change (2 ^ 32) with 4294967296; lia| |].
      + intros r. cbn [rd_len app]. rewrite (fix_xor 0xa0 32); [reflexivity|vm_compute; reflexivity|lia].
      + unfold dec_body. rewrite (fix_add 0xa0 32 (DStr 0)); [reflexivity|vm_compute; reflexivity|lia].
    - apply (in_rawbytes _ 1%nat (be_put 1 (len s)) s f d rest bFixStrMin); [change (2 ^ 32) with 4294967296; change (2 ^ 8) with 256 in Hn; lia| |reflexivity].
      intros r. apply rd_len_be; [lia|exact Hn].
    - apply (in_rawbytes _ 2%nat (be_put 2 (len s)) s f d rest bFixStrMin); [change (2 ^ 32) with 4294967296; change (2 ^ 16) with 65536 in Hn; lia| |reflexivity].
      intros r. apply rd_len_be; [lia|exact Hn].
    - apply (in_rawbytes _ 4%nat (be_put 4 (len s)) s f d rest bFixStrMin); [assumption| |reflexivity].
      intros r. apply rd_len_be; [lia|exact Hn].
  Qed.

  Lemma in_bin : forall s w f d rest, ser_bin s w ->
    decF D cap (S f) d (w ++ rest) = Ok (mkraw (d_rawtostring D) s, rest).
  Proof.
    intros s w f d rest H. unfold ser_bin in H. rewrite slen_len in H.
    destruct H as [[Hn ->]|[[Hn ->]|[Hn ->]]]; rewrite ?sbe_be; cbn [app]; rewrite <- ?app_assoc.
    - apply (in_rawbytes _ 1%nat (be_put 1 (len s)) s f d rest 0); [change (2 ^ 32) with 4294967296; change (2 ^ 8) with 256 in Hn; lia| |reflexivity].
      intros r. apply rd_len_be; [lia|exact Hn].
    - apply (in_rawbytes _ 2%nat (be_put 2 (len s)) s f d rest 0); [change (2 ^ 32) with 4294967296; change (2 ^ 16) with 65536 in Hn; lia| |reflexivity].
      intros r. apply rd_len_be; [lia|exact Hn].
    - apply (in_rawbytes _ 4%nat (be_put 4 (len s)) s f d rest 0); [assumption| |reflexivity].
      intros r. apply rd_len_be; [lia|exact Hn].
  Qed.

  Lemma in_int : forall z w f d rest, ser_int z w -> ~ (d_signedinteger D = true /\ (2 ^ 63 <= z)%Z) ->
    exists it, decF D cap (S f) d (w ++ rest) = Ok (it, rest) /\ (it = IInt z \/ ((0 <= z)%Z /\ it = IUint (Z.to_N z))).
  Proof.
    intros z w f d rest H Hg. unfold ser_int in H.
    assert (U : forall k c, classify c = DUint k -> (0 <= z)%Z -> Z.to_N z < 256 ^ N.of_nat k ->
                (k = 8%nat \/ (z < 2 ^ 63)%Z) ->
                exists it, decF D cap (S f) d ((c :: sbe k (Z.to_N z)) ++ rest) = Ok (it, rest) /\
                           (it = IInt z \/ ((0 <= z)%Z /\ it = IUint (Z.to_N z)))).
    { intros k c Hc Hz Hlt Hk. rewrite sbe_be. rewrite <- app_comm_cons.
      assert (Hfit : uint_fits D (Z.to_N z)).
      { intros Es. destruct (Z.ltb_spec z (2 ^ 63)) as [Hlt63|Hge63].
        - change (2 ^ 63)%Z with 9223372036854775808%Z in Hlt63. change (2 ^ 63) with 9223372036854775808. lia.
        - exfalso. apply Hg. split; assumption. }
      rewrite (dec_uint_k D cap k c) by assumption.
      eexists. split; [reflexivity|]. unfold mkuint. destruct (d_signedinteger D) eqn:Es; [|right; split; [assumption|reflexivity]].
      left. f_equal. assert (Hz63 : (z < 2 ^ 63)%Z).
      { destruct (Z.ltb_spec z (2 ^ 63)) as [Hlt63|Hge63]; [assumption|]. exfalso. apply Hg. split; [reflexivity|assumption]. }
      change (2 ^ 63)%Z with 9223372036854775808%Z in Hz63.
      unfold signed. change (2 ^ (64 - 1)) with 9223372036854775808.
      destruct (N.ltb_spec (Z.to_N z) 9223372036854775808); lia. }
    assert (I : forall k c, classify c = DInt k -> forall v, v < 256 ^ N.of_nat k -> signed (8 * N.of_nat k) v = z ->
                exists it, decF D cap (S f) d ((c :: sbe k v) ++ rest) = Ok (it, rest) /\
                           (it = IInt z \/ ((0 <= z)%Z /\ it = IUint (Z.to_N z)))).
    { intros k c Hc v Hv Hs. rewrite sbe_be. rewrite <- app_comm_cons. rewrite (dec_int_k D cap k c) by assumption.
      eexists. split; [reflexivity|]. left. rewrite Hs. reflexivity. }
    destruct H as [[Hz ->]|H].
    { cbn [app]. rewrite decF_S. unfold dec_body. destruct (classify_posfix (Z.to_N z) ltac:(lia)) as [E1 E2].
      rewrite E1, E2. rewrite Z2N.id by lia. eexists. split; [reflexivity|left; reflexivity]. }
    destruct H as [[Hz ->]|H].
    { cbn [app]. rewrite decF_S. unfold dec_body.
      replace (Z.to_N (z + 256)) with (wrapZ 8 z) by (unfold wrapZ; change (2 ^ Z.of_N 8)%Z with 256%Z; lia).
      destruct (classify_negfix z ltac:(lia)) as [E1 E2]. rewrite E1, E2. eexists. split; [reflexivity|left; reflexivity]. }
    destruct H as [[Hz ->]|H]. { change (2 ^ 8)%Z with 256%Z in Hz. apply (U 1%nat); [reflexivity|lia|change (256 ^ N.of_nat 1) with 256; lia|right; change (2 ^ 63)%Z with 9223372036854775808%Z; lia]. }
    destruct H as [[Hz ->]|H]. { change (2 ^ 16)%Z with 65536%Z in Hz. apply (U 2%nat); [reflexivity|lia|change (256 ^ N.of_nat 2) with 65536; lia|right; change (2 ^ 63)%Z with 9223372036854775808%Z; lia]. }
    destruct H as [[Hz ->]|H]. { change (2 ^ 32)%Z with 4294967296%Z in Hz. apply (U 4%nat); [reflexivity|lia|change (256 ^ N.of_nat 4) with 4294967296; lia|right; change (2 ^ 63)%Z with 9223372036854775808%Z; lia]. }
    destruct H as [[Hz ->]|H]. { change (2 ^ 64)%Z with 18446744073709551616%Z in Hz. apply (U 8%nat); [reflexivity|lia|change (256 ^ N.of_nat 8) with 18446744073709551616; lia|left; reflexivity]. }
    destruct H as [[Hz ->]|H].
    { change (2 ^ 7)%Z with 128%Z in Hz. rewrite tc_wrapZ_8 by lia.
      apply (I 1%nat); [reflexivity|apply (wrapZ_lt 8)|change (8 * N.of_nat 1) with 8; apply signed_wrapZ_8; lia]. }
    destruct H as [[Hz ->]|H].
    { change (2 ^ 15)%Z with 32768%Z in Hz. rewrite tc_wrapZ_16 by lia.
      apply (I 2%nat); [reflexivity|apply (wrapZ_lt 16)|change (8 * N.of_nat 2) with 16; apply signed_wrapZ_16; lia]. }
    destruct H as [[Hz ->]|H].
    { change (2 ^ 31)%Z with 2147483648%Z in Hz. rewrite tc_wrapZ_32 by lia.
      apply (I 4%nat); [reflexivity|apply (wrapZ_lt 32)|change (8 * N.of_nat 4) with 32; apply signed_wrapZ_32; lia]. }
    destruct H as [Hz ->].
    change (2 ^ 63)%Z with 9223372036854775808%Z in Hz. rewrite tc_wrapZ_64 by lia.
    apply (I 8%nat); [reflexivity|apply (wrapZ_lt 64)|change (8 * N.of_nat 8) with 64; apply signed_wrapZ_64; lia].
  Qed.

  (* extension heads: all eight forms lead to ext_body with the data length *)
  Lemma in_ext_head : forall ty data w f d rest, ser_ext ty data w ->
    decF D cap (S f) d (w ++ rest) = ext_body cap (len data) (tc 8 ty :: data ++ rest) /\ len data < 2 ^ 32.
  Proof.
    intros ty data w f d rest H. unfold ser_ext in H. rewrite slen_len in H. destruct H as [_ H].
    assert (W : forall k c, classify c = DExt k -> (1 <= k)%nat -> len data < 256 ^ N.of_nat k ->
              decF D cap (S f) d ((c :: sbe k (len data) ++ [tc 8 ty] ++ data) ++ rest)
              = ext_body cap (len data) (tc 8 ty :: data ++ rest)).
    { intros k c Hc Hk Hlt. rewrite sbe_be. rewrite <- app_comm_cons. rewrite <- !app_assoc.
      rewrite decF_S. unfold dec_body. rewrite Hc. rewrite rd_len_be by assumption. reflexivity. }
    destruct H as [[Hn ->]|H]. { rewrite Hn. split; [cbn [app]; rewrite decF_S; reflexivity|reflexivity]. }
    destruct H as [[Hn ->]|H]. { rewrite Hn. split; [cbn [app]; rewrite decF_S; reflexivity|reflexivity]. }
    destruct H as [[Hn ->]|H]. { rewrite Hn. split; [cbn [app]; rewrite decF_S; reflexivity|reflexivity]. }
    destruct H as [[Hn ->]|H]. { rewrite Hn. split; [cbn [app]; rewrite decF_S; reflexivity|reflexivity]. }
    destruct H as [[Hn ->]|H]. { rewrite Hn. split; [cbn [app]; rewrite decF_S; reflexivity|reflexivity]. }
    destruct H as [[Hn ->]|H]. { split; [apply (W 1%nat); [reflexivity|lia|exact Hn]|change (2 ^ 8) with 256 in Hn; change (2 ^ 32) with 4294967296; lia]. }
    destruct H as [[Hn ->]|H]. { split; [apply (W 2%nat); [reflexivity|lia|exact Hn]|change (2 ^ 16) with 65536 in Hn; change (2 ^ 32) with 4294967296; lia]. }
    destruct H as [Hn ->]. split; [apply (W 4%nat); [reflexivity|lia|exact Hn]|assumption].
  Qed.

  Lemma tc8_range : forall ty, (-128 <= ty <= 127)%Z -> ty <> (-1)%Z -> tc 8 ty <> 255.
  Proof. intros ty H Hn. unfold tc. change (2 ^ 8)%Z with 256%Z. destruct (Z.ltb_spec ty 0); lia. Qed.

  Lemma in_time : forall sec nsec w f d rest, ser_time sec nsec w ->
    decF D cap (S f) d (w ++ rest) = Ok (ITime sec nsec, rest).
  Proof.
    intros sec nsec w f d rest H. unfold ser_time in H.
    destruct H as [[Hn [Hs ->]]|[[Hn [Hs ->]]|[Hn [Hs ->]]]]; rewrite ?sbe_be; cbn [app]; rewrite decF_S; unfold dec_body.
    - change (classify 0xd6) with (DFixExt 4). unfold ext_body. cbn [rd_n1 bind].
      change (0xff =? bTimeExtTagU) with true. cbv iota. unfold dec_time. cbn [N.eqb Pos.eqb].
      rewrite rd_nk_put. cbn [bind]. change (2 ^ 32)%Z with 4294967296%Z in Hs.
      rewrite be_get_put by (change (256 ^ N.of_nat 4) with 4294967296; lia).
      rewrite Z2N.id by lia. subst nsec.
      rewrite unix_time_id by (change (2 ^ 63)%Z with 9223372036854775808%Z; lia). reflexivity.
    - change (classify 0xd7) with (DFixExt 8). unfold ext_body. cbn [rd_n1 bind].
      change (0xff =? bTimeExtTagU) with true. cbv iota. unfold dec_time. cbn [N.eqb Pos.eqb].
      rewrite rd_nk_put. cbn [bind]. change (2 ^ 34)%Z with 17179869184%Z in Hs. change (2 ^ 34) with 17179869184.
      rewrite be_get_put by (change (256 ^ N.of_nat 8) with 18446744073709551616; lia).
      change 17179869183 with (N.ones 34). rewrite N.land_ones. rewrite N.shiftr_div_pow2.
      change (2 ^ 34) with 17179869184.
      replace ((nsec * 17179869184 + Z.to_N sec) mod 17179869184) with (Z.to_N sec) by lia.
      replace ((nsec * 17179869184 + Z.to_N sec) / 17179869184) with nsec by lia.
      rewrite Z2N.id by lia.
      rewrite unix_time_id by (change (2 ^ 63)%Z with 9223372036854775808%Z; lia). reflexivity.
    - change (classify 0xc7) with (DExt 1). cbn [rd_len].
      rewrite <- app_assoc.
      change (rd_nk 1 (12 :: 255 :: be_put 4 nsec ++ be_put 8 (tc 64 sec) ++ rest))
        with (rd_nk 1 ([12] ++ 255 :: be_put 4 nsec ++ be_put 8 (tc 64 sec) ++ rest)).
      rewrite rd_nk_app by reflexivity. cbn [bind]. change (be_get [12]) with 12.
      unfold ext_body. cbn [rd_n1 bind]. change (255 =? bTimeExtTagU) with true. cbv iota.
      unfold dec_time. cbn [N.eqb Pos.eqb]. rewrite rd_nk_put. cbn [bind]. rewrite rd_nk_put. cbn [bind].
      change (2 ^ 63)%Z with 9223372036854775808%Z in Hs. rewrite tc_wrapZ_64 by lia.
      rewrite (be_get_put 4) by (change (256 ^ N.of_nat 4) with 4294967296; lia).
      rewrite (be_get_put 8) by (change (256 ^ N.of_nat 8) with (2 ^ 64); apply wrapZ_lt).
      rewrite signed_wrapZ_64 by lia.
      rewrite unix_time_id by (change (2 ^ 63)%Z with 9223372036854775808%Z; lia). reflexivity.
  Qed.
End In.

Section InMain.
  Variable D : dopts.
  Variable cap : N.
  Hypothesis Hcap : goslice cap.

  Definition sldepth (l : list sval) : nat := fold_right (fun x m => Nat.max (sdepth x) m) 0%nat l.
  Definition spdepth (l : list (sval * sval)) : nat :=
    fold_right (fun kv m => Nat.max (Nat.max (sdepth (fst kv)) (sdepth (snd kv))) m) 0%nat l.

  Definition ser_list :=
    fix go (l : list sval) (ws : list (list N)) : Prop :=
      match l, ws with
      | [], [] => True
      | x :: l', w1 :: ws' => ser x w1 /\ go l' ws'
      | _, _ => False
      end.
  Definition ser_pairs :=
    fix go (l : list (sval * sval)) (ws : list (list N)) : Prop :=
      match l, ws with
      | [], [] => True
      | kv :: l', w1 :: ws' => (exists wk wv, ser (fst kv) wk /\ ser (snd kv) wv /\ w1 = wk ++ wv) /\ go l' ws'
      | _, _ => False
      end.
  Definition sup_list := fix go (l : list sval) : Prop := match l with [] => True | x :: r => lib_supports D x /\ go r end.
  Definition sup_pairs :=
    fix go (l : list (sval * sval)) : Prop :=
      match l with
      | [] => True
      | kv :: r => lib_supports D (fst kv) /\ hashable_s (fst kv) = true /\ lib_supports D (snd kv) /\ go r
      end.
  Definition agrees_list :=
    fix go (l : list sval) (l' : list item) {struct l} : Prop :=
      match l, l' with
      | [], [] => True
      | x :: r, x' :: r' => agrees D x' x /\ go r r'
      | _, _ => False
      end.
  Definition agrees_pairs :=
    fix go (l : list (sval * sval)) (l' : list (item * item)) {struct l} : Prop :=
      match l, l' with
      | [], [] => True
      | kv :: r, kv' :: r' =>
          (exists k0, agrees D k0 (fst kv) /\ fst kv' = key_fix k0) /\ agrees D (snd kv') (snd kv) /\ go r r'
      | _, _ => False
      end.

  Lemma in_seq : forall l, Forall (in_ok D cap) l -> forall ws, ser_list l ws -> sup_list l ->
    forall f d rest, (2 * length (concat ws) + 2 <= f)%nat -> (d + Z.of_nat (sldepth l) < maxdepth D)%Z ->
    exists l', seqF D cap f d (slen l) (concat ws ++ rest) = Ok (l', rest) /\ agrees_list l l'.
  Proof.
    induction l as [|x l IH]; intros HP ws Hser Hsup f d rest Hf Hd.
    - destruct ws; [|contradiction]. exists []. rewrite seqF_eq. split; [reflexivity|exact I].
    - destruct ws as [|w1 ws]; [contradiction|]. destruct Hser as [Hx Hser]. destruct Hsup as [Sx Sl].
      inversion HP as [|? ? Px Pl]; subst.
      rewrite seqF_eq. unfold slen. cbn [length]. 
      destruct (N.eqb_spec (N.of_nat (S (length l))) 0) as [E|_]; [lia|].
      cbn [concat] in *. rewrite app_length in Hf. pose proof (ser_nonempty x w1 Hx) as Hne.
      destruct f as [|f]; [lia|].
      cbn [sldepth fold_right] in Hd. fold (sldepth l) in Hd.
      rewrite <- app_assoc.
      destruct (Px w1 Hx Sx f d (concat ws ++ rest) ltac:(lia) ltac:(lia)) as [it [E1 A1]]. rewrite E1. cbn [bind].
      replace (N.of_nat (S (length l)) - 1) with (slen l) by (unfold slen; lia).
      destruct (IH Pl ws Hser Sl f d rest ltac:(lia) ltac:(lia)) as [l' [E2 A2]]. rewrite E2. cbn [bind].
      exists (it :: l'). split; [reflexivity|]. split; assumption.
  Qed.

  Lemma in_pairs : forall l, Forall (fun kv => in_ok D cap (fst kv) /\ in_ok D cap (snd kv)) l ->
    forall ws, ser_pairs l ws -> sup_pairs l ->
    forall f d rest, (2 * length (concat ws) + 2 <= f)%nat -> (d + Z.of_nat (spdepth l) < maxdepth D)%Z ->
    exists l', pairsF D cap f d (slen l) (concat ws ++ rest) = Ok (l', rest) /\ agrees_pairs l l'.
  Proof.
    induction l as [|x l IH]; intros HP ws Hser Hsup f d rest Hf Hd.
    - destruct ws; [|contradiction]. exists []. rewrite pairsF_eq. split; [reflexivity|exact I].
    - destruct ws as [|w1 ws]; [contradiction|]. destruct Hser as [[wk [wv [Hk [Hv ->]]]] Hser].
      destruct Hsup as [Sk [Sh [Sv Sl]]]. inversion HP as [|? ? [Pk Pv] Pl]; subst.
      rewrite pairsF_eq. unfold slen. cbn [length].
      destruct (N.eqb_spec (N.of_nat (S (length l))) 0) as [E|_]; [lia|].
      cbn [concat] in *. rewrite !app_length in Hf.
      pose proof (ser_nonempty _ wk Hk) as Hne1. pose proof (ser_nonempty _ wv Hv) as Hne2.
      destruct f as [|f]; [lia|].
      cbn [spdepth fold_right] in Hd. fold (spdepth l) in Hd.
      rewrite <- !app_assoc.
      destruct (Pk wk Hk Sk f d (wv ++ concat ws ++ rest) ltac:(lia) ltac:(lia)) as [ik [E1 A1]]. rewrite E1. cbn [bind].
      destruct (Pv wv Hv Sv f d (concat ws ++ rest) ltac:(lia) ltac:(lia)) as [iv [E2 A2]]. rewrite E2. cbn [bind].
      rewrite (agrees_hashable D ik (fst x) A1 Sh).
      replace (N.of_nat (S (length l)) - 1) with (slen l) by (unfold slen; lia).
      destruct (IH Pl ws Hser Sl f d rest ltac:(lia) ltac:(lia)) as [l' [E3 A3]]. rewrite E3. cbn [bind].
      exists ((key_fix ik, iv) :: l'). split; [reflexivity|].
      split; [exists ik; split; [assumption|reflexivity]|]. split; assumption.
  Qed.

  Lemma in_arr_head : forall n h r, arr_head n h ->
    exists c lb w', h = c :: lb /\ classify c = DArr w' /\ rd_len bFixArrayMin c w' (lb ++ r) = Ok (n, r) /\ n < 2 ^ 32.
  Proof.
    intros n h r H. unfold arr_head in H. destruct H as [[Hn ->]|[[Hn ->]|[Hn ->]]]; rewrite ?sbe_be.
    - exists (0x90 + n), [], 0%nat. repeat apply conj; [reflexivity| | |change (2 ^ 32) with 4294967296; lia].
      + apply (fix_add 0x90 16 (DArr 0)); [vm_compute; reflexivity|lia].
      + cbn [rd_len app]. rewrite (fix_xor 0x90 16); [reflexivity|vm_compute; reflexivity|lia].
    - exists 0xdc, (be_put 2 n), 2%nat. repeat apply conj; [reflexivity|reflexivity| |change (2 ^ 16) with 65536 in Hn; change (2 ^ 32) with 4294967296; lia].
      apply rd_len_be; [lia|exact Hn].
    - exists 0xdd, (be_put 4 n), 4%nat. repeat apply conj; [reflexivity|reflexivity| |assumption].
      apply rd_len_be; [lia|exact Hn].
  Qed.

  Lemma in_map_head : forall n h r, map_head n h ->
    exists c lb w', h = c :: lb /\ classify c = DMap w' /\ rd_len bFixMapMin c w' (lb ++ r) = Ok (n, r) /\ n < 2 ^ 32.
  Proof.
    intros n h r H. unfold map_head in H. destruct H as [[Hn ->]|[[Hn ->]|[Hn ->]]]; rewrite ?sbe_be.
    - exists (0x80 + n), [], 0%nat. repeat apply conj; [reflexivity| | |change (2 ^ 32) with 4294967296; lia].
      + apply (fix_add 0x80 16 (DMap 0)); [vm_compute; reflexivity|lia].
      + cbn [rd_len app]. rewrite (fix_xor 0x80 16); [reflexivity|vm_compute; reflexivity|lia].
    - exists 0xde, (be_put 2 n), 2%nat. repeat apply conj; [reflexivity|reflexivity| |change (2 ^ 16) with 65536 in Hn; change (2 ^ 32) with 4294967296; lia].
      apply rd_len_be; [lia|exact Hn].
    - exists 0xdf, (be_put 4 n), 4%nat. repeat apply conj; [reflexivity|reflexivity| |assumption].
      apply rd_len_be; [lia|exact Hn].
  Qed.

  Lemma c10_in_aux : forall s, in_ok D cap s.
  Proof.
    induction s using sval_ind'; unfold in_ok; intros w Hser Hsup f dp rest Hf Hd; cbn [ser] in Hser.
    - subst w. destruct f as [|f]; [cbn in Hf; lia|]. cbn [app]. rewrite decF_S. exists INil. split; reflexivity.
    - subst w. destruct f as [|f]; [cbn in Hf; lia|]. cbn [app]. rewrite decF_S. exists (IBool b).
      split; [destruct b; reflexivity|reflexivity].
    - destruct f as [|f]; [lia|]. cbn [lib_supports] in Hsup.
      destruct (in_int D cap z w f dp rest Hser Hsup) as [it [E A]]. exists it. split; assumption.
    - destruct Hser as [Hb ->]. destruct f as [|f]; [lia|]. rewrite sbe_be. rewrite <- app_comm_cons.
      rewrite decF_S. unfold dec_body. change (classify 0xca) with DF32. rewrite rd_nk_put. cbn [bind].
      rewrite be_get_put by (change (256 ^ N.of_nat 4) with (2 ^ 32); assumption).
      eexists. split; reflexivity.
    - destruct Hser as [Hb ->]. destruct f as [|f]; [lia|]. rewrite sbe_be. rewrite <- app_comm_cons.
      rewrite decF_S. unfold dec_body. change (classify 0xcb) with DF64. rewrite rd_nk_put. cbn [bind].
      rewrite be_get_put by (change (256 ^ N.of_nat 8) with (2 ^ 64); assumption).
      eexists. split; reflexivity.
    - destruct f as [|f]; [lia|]. rewrite (in_str D cap Hcap s w f dp rest Hser). eexists. split; reflexivity.
    - destruct f as [|f]; [lia|]. rewrite (in_bin D cap Hcap s w f dp rest Hser). eexists. split; reflexivity.
    - (* array *)
      destruct Hser as [h [ws [Hh [-> Hl]]]].
      destruct (in_arr_head (slen l) h (concat ws ++ rest) Hh) as [c [lb [w' [-> [Hc [Hrd Hn]]]]]].
      rewrite app_length in Hf. cbn [length] in Hf. destruct f as [|f]; [lia|].
      rewrite <- app_assoc. rewrite <- app_comm_cons. rewrite decF_S. unfold dec_body. rewrite Hc, Hrd. cbn [bind].
      cbn [sdepth] in Hd. fold (sldepth l) in Hd.
      unfold depth_incr. destruct (Z.leb_spec (maxdepth D) (dp + 1)) as [Hle|Hgt]; [lia|]. cbn [bind].
      destruct (in_seq l H ws Hl Hsup f (dp + 1)%Z rest ltac:(lia) ltac:(lia)) as [l' [E A]].
      rewrite E. cbn [bind]. exists (IArr l'). split; [reflexivity|]. cbn [agrees]. exists l'. split; [reflexivity|exact A].
    - (* map *)
      destruct Hser as [h [ws [Hh [-> Hl]]]].
      destruct (in_map_head (slen l) h (concat ws ++ rest) Hh) as [c [lb [w' [-> [Hc [Hrd Hn]]]]]].
      rewrite app_length in Hf. cbn [length] in Hf. destruct f as [|f]; [lia|].
      rewrite <- app_assoc. rewrite <- app_comm_cons. rewrite decF_S. unfold dec_body. rewrite Hc, Hrd. cbn [bind].
      cbn [sdepth] in Hd. fold (spdepth l) in Hd.
      unfold depth_incr. destruct (Z.leb_spec (maxdepth D) (dp + 1)) as [Hle|Hgt]; [lia|]. cbn [bind].
      destruct (in_pairs l H ws Hl Hsup f (dp + 1)%Z rest ltac:(lia) ltac:(lia)) as [l' [E A]].
      rewrite E. cbn [bind]. exists (IMap l'). split; [reflexivity|]. cbn [agrees]. exists l'. split; [reflexivity|exact A].
    - (* ext *)
      destruct f as [|f]; [lia|]. cbn [lib_supports] in Hsup.
      destruct (in_ext_head D cap t d w f dp rest Hser) as [E Hl]. rewrite E.
      unfold ser_ext in Hser. destruct Hser as [Hr _].
      unfold ext_body. cbn [rd_n1 bind].
      destruct (N.eqb_spec (tc 8 t) bTimeExtTagU) as [Et|_]; [exfalso; apply (tc8_range t Hr Hsup); exact Et|].
      rewrite rd_readx_app by (unfold goslice in Hcap; change (2 ^ 32) with 4294967296 in Hl; lia).
      eexists. split; reflexivity.
    - (* timestamp *)
      destruct f as [|f]; [lia|]. rewrite (in_time D cap s n w f dp rest Hser). eexists. split; reflexivity.
  Qed.
End InMain.

(* C10 in: every serialisation the specification permits for a value the library supports,
   followed by anything, is decoded into an item carrying that value's data, and exactly the
   serialisation is consumed *)
Lemma c10_in : forall D s w rest,
  ser s w -> lib_supports D s -> (Z.of_nat (sdepth s) < maxdepth D)%Z ->
  goslice (len (w ++ rest)) ->
  exists it, dec_naked D (dec_fuel (w ++ rest)) (w ++ rest) = Ok (it, rest) /\ agrees D it s.
Proof.
  intros D s w rest Hser Hsup Hd Hc. unfold dec_naked.
  apply (c10_in_aux D _ Hc s w Hser Hsup).
  - unfold dec_fuel. rewrite app_length. lia.
  - lia.
Qed.

(* the guard on SignedInteger in lib_supports is exactly the overflow case, and there the library
   answers with the overflow error: an integer >= 2^63 has one serialisation (uint 64) and
   SignedInteger cannot hold it in an int64 *)
Lemma c10_in_signed_overflow : forall D z w rest,
  ser (SInt z) w -> d_signedinteger D = true -> (2 ^ 63 <= z)%Z ->
  dec_naked D (dec_fuel (w ++ rest)) (w ++ rest) = Err EOverflow.
Proof.
  intros D z w rest Hser HS Hz. cbn [ser] in Hser. unfold ser_int in Hser.
  change (2 ^ 63)%Z with 9223372036854775808%Z in Hz.
  assert (Hw : (z < 2 ^ 64)%Z /\ w = 0xcf :: sbe 8 (Z.to_N z)).
  { change (2 ^ 8)%Z with 256%Z in Hser. change (2 ^ 16)%Z with 65536%Z in Hser.
    change (2 ^ 32)%Z with 4294967296%Z in Hser. change (2 ^ 7)%Z with 128%Z in Hser.
    change (2 ^ 15)%Z with 32768%Z in Hser. change (2 ^ 31)%Z with 2147483648%Z in Hser.
    change (2 ^ 63)%Z with 9223372036854775808%Z in Hser.
    destruct Hser as [[H _]|[[H _]|[[H _]|[[H _]|[[H _]|[[H E]|[[H _]|[[H _]|[[H _]|[H _]]]]]]]]]]; try lia.
    split; [lia|exact E]. }
  destruct Hw as [Hhi ->]. change (2 ^ 64)%Z with 18446744073709551616%Z in Hhi.
  rewrite sbe_be. unfold dec_naked, dec_fuel. rewrite <- app_comm_cons.
  set (b := 0xcf :: be_put 8 (Z.to_N z) ++ rest).
  replace (2 * length b + 1)%nat with (S (2 * length b)) by lia.
  change (decF D (len b) (S (2 * length b)) 0 b = Err EOverflow). unfold b at 3.
  rewrite (dec_uint_k_r D _ 8 0xcf (Z.to_N z)) by (try reflexivity; change (256 ^ N.of_nat 8) with 18446744073709551616; lia).
  rewrite mkuint_r_overflow by (try assumption; change (2 ^ 63) with 9223372036854775808; lia). reflexivity.
Qed.

(* C10/CborSpec — RFC 8949 written independently of the library: the data model, the
   syntax of well-formed encoded items with every permitted width / length form made
   explicit (wtree, ser), and a decoder (spec_dec) following Appendix C.  No proofs. *)
From Coq Require Import List NArith ZArith Lia Bool.
Import ListNotations.
Open Scope N_scope.

(* ---- Appendix D: the value of a half-precision float, as single-precision bits ----
   (-1)^s * m * 2^-24 (e = 0), (-1)^s * (1024 + m) * 2^(e-25) (0 < e < 31), Inf / NaN (e = 31).
   Every such value is a normal single: bits are obtained arithmetically from the dyadic. *)
Definition f32_of_dyadic (s m : N) (e : Z) : N :=        (* m > 0 *)
  let k := N.log2 m in
  s * 2 ^ 31 + Z.to_N (Z.of_N k + e + 127) * 2 ^ 23 + (m * 2 ^ (23 - k) - 2 ^ 23).

Definition spec_half (h : N) : N :=
  let s := h / 32768 in
  let e := (h / 1024) mod 32 in
  let m := h mod 1024 in
  if e =? 0 then (if m =? 0 then s * 2 ^ 31 else f32_of_dyadic s m (-24))
  else if e =? 31 then s * 2 ^ 31 + 2139095040 + m * 8192      (* Inf; NaN payload left-aligned *)
  else f32_of_dyadic s (m + 1024) (Z.of_N e - 25).

(* ------------------------------------------------------------------ *)
(* data model (RFC 8949 section 2): what an encoded item carries *)
Inductive sdata :=
| DUint (n : N)                       (* major 0: n *)
| DNint (n : N)                       (* major 1: -1 - n *)
| DBytes (s : list N)
| DText (s : list N)
| DArr (l : list sdata)
| DMap (l : list (sdata * sdata))     (* in serialisation order *)
| DTag (t : N) (v : sdata)
| DSimple (v : N)                     (* 20 false, 21 true, 22 null, 23 undefined *)
| DFloat (prec : N) (bits : N).       (* IEEE 754 binary16 / 32 / 64 with these bits *)

(* ------------------------------------------------------------------ *)
(* syntax of well-formed encoded items (section 3, Appendix C) with every choice explicit:
   the width of each argument, definite or indefinite length, the chunking of strings *)
Inductive width := W0 | W1 | W2 | W4 | W8.

Definition wbytes (w : width) : nat := match w with W0 => 0 | W1 => 1 | W2 => 2 | W4 => 4 | W8 => 8 end%nat.
Definition fits (w : width) (v : N) : Prop :=
  match w with W0 => v < 24 | W1 => v < 256 | W2 => v < 65536 | W4 => v < 4294967296 | W8 => v < 18446744073709551616 end.
Definition ai_of (w : width) (v : N) : N := match w with W0 => v | W1 => 24 | W2 => 25 | W4 => 26 | W8 => 27 end.

Inductive wtree :=
| TUint (w : width) (n : N)
| TNint (w : width) (n : N)
| TBytes (w : width) (s : list N)
| TBytesI (cs : list (width * list N))        (* indefinite: definite-length chunks, then break *)
| TText (w : width) (s : list N)
| TTextI (cs : list (width * list N))
| TArr (w : width) (l : list wtree)
| TArrI (l : list wtree)
| TMap (w : width) (l : list (wtree * wtree))
| TMapI (l : list (wtree * wtree))
| TTag (w : width) (t : N) (v : wtree)
| TSimple (v : N)                             (* 0xe0 + v, v < 24 *)
| TSimple1 (v : N)                            (* 0xf8 v, 32 <= v < 256 *)
| THalf (h : N) | TSingle (b : N) | TDouble (b : N).

Section WtreeInd.
  Variable P : wtree -> Prop.
  Hypothesis Huint : forall w n, P (TUint w n).
  Hypothesis Hnint : forall w n, P (TNint w n).
  Hypothesis Hbytes : forall w s, P (TBytes w s).
  Hypothesis HbytesI : forall cs, P (TBytesI cs).
  Hypothesis Htext : forall w s, P (TText w s).
  Hypothesis HtextI : forall cs, P (TTextI cs).
  Hypothesis Harr : forall w l, Forall P l -> P (TArr w l).
  Hypothesis HarrI : forall l, Forall P l -> P (TArrI l).
  Hypothesis Hmap : forall w l, Forall (fun kv => P (fst kv) /\ P (snd kv)) l -> P (TMap w l).
  Hypothesis HmapI : forall l, Forall (fun kv => P (fst kv) /\ P (snd kv)) l -> P (TMapI l).
  Hypothesis Htag : forall w t v, P v -> P (TTag w t v).
  Hypothesis Hsimple : forall v, P (TSimple v).
  Hypothesis Hsimple1 : forall v, P (TSimple1 v).
  Hypothesis Hhalf : forall h, P (THalf h).
  Hypothesis Hsingle : forall b, P (TSingle b).
  Hypothesis Hdouble : forall b, P (TDouble b).

  Fixpoint wtree_ind' (t : wtree) : P t :=
    let go := fix go (l : list wtree) : Forall P l :=
      match l with [] => Forall_nil _ | x :: r => Forall_cons _ (wtree_ind' x) (go r) end in
    let gop := fix gop (l : list (wtree * wtree)) : Forall (fun kv => P (fst kv) /\ P (snd kv)) l :=
      match l with
      | [] => Forall_nil _
      | kv :: r => Forall_cons kv (conj (wtree_ind' (fst kv)) (wtree_ind' (snd kv))) (gop r)
      end in
    match t with
    | TUint w n => Huint w n
    | TNint w n => Hnint w n
    | TBytes w s => Hbytes w s
    | TBytesI cs => HbytesI cs
    | TText w s => Htext w s
    | TTextI cs => HtextI cs
    | TArr w l => Harr w l (go l)
    | TArrI l => HarrI l (go l)
    | TMap w l => Hmap w l (gop l)
    | TMapI l => HmapI l (gop l)
    | TTag w t v => Htag w t v (wtree_ind' v)
    | TSimple v => Hsimple v
    | TSimple1 v => Hsimple1 v
    | THalf h => Hhalf h
    | TSingle b => Hsingle b
    | TDouble b => Hdouble b
    end.
End WtreeInd.

Definition bytes_ok (s : list N) : Prop := Forall (fun x => x < 256) s.

(* the side conditions of the syntax *)
Fixpoint twf (t : wtree) : Prop :=
  match t with
  | TUint w n | TNint w n => fits w n
  | TBytes w s | TText w s => fits w (N.of_nat (length s)) /\ bytes_ok s
  | TBytesI cs | TTextI cs => Forall (fun c => fits (fst c) (N.of_nat (length (snd c))) /\ bytes_ok (snd c)) cs
  | TArr w l => fits w (N.of_nat (length l)) /\ (fix go l := match l with [] => True | x :: r => twf x /\ go r end) l
  | TArrI l => (fix go l := match l with [] => True | x :: r => twf x /\ go r end) l
  | TMap w l => fits w (N.of_nat (length l)) /\
                (fix go l := match l with [] => True | kv :: r => twf (fst kv) /\ twf (snd kv) /\ go r end) l
  | TMapI l => (fix go l := match l with [] => True | kv :: r => twf (fst kv) /\ twf (snd kv) /\ go r end) l
  | TTag w t v => fits w t /\ twf v
  | TSimple v => v < 24
  | TSimple1 v => 32 <= v < 256
  | THalf h => h < 65536
  | TSingle b => b < 4294967296
  | TDouble b => b < 18446744073709551616
  end.

(* the argument in network byte order *)
Fixpoint sbe (k : nat) (v : N) : list N :=
  match k with O => [] | S k' => sbe k' (v / 256) ++ [v mod 256] end.

(* initial byte (major type in the high 3 bits, additional information in the low 5) and argument *)
Definition shead (mt : N) (w : width) (v : N) : list N := (mt * 32 + ai_of w v) :: sbe (wbytes w) v.

Fixpoint ser (t : wtree) : list N :=
  match t with
  | TUint w n => shead 0 w n
  | TNint w n => shead 1 w n
  | TBytes w s => shead 2 w (N.of_nat (length s)) ++ s
  | TBytesI cs => [95] ++ flat_map (fun c => shead 2 (fst c) (N.of_nat (length (snd c))) ++ snd c) cs ++ [255]
  | TText w s => shead 3 w (N.of_nat (length s)) ++ s
  | TTextI cs => [127] ++ flat_map (fun c => shead 3 (fst c) (N.of_nat (length (snd c))) ++ snd c) cs ++ [255]
  | TArr w l => shead 4 w (N.of_nat (length l)) ++ flat_map ser l
  | TArrI l => [159] ++ flat_map ser l ++ [255]
  | TMap w l => shead 5 w (N.of_nat (length l)) ++ flat_map (fun kv => ser (fst kv) ++ ser (snd kv)) l
  | TMapI l => [191] ++ flat_map (fun kv => ser (fst kv) ++ ser (snd kv)) l ++ [255]
  | TTag w t v => shead 6 w t ++ ser v
  | TSimple v => [224 + v]
  | TSimple1 v => [248; v]
  | THalf h => 249 :: sbe 2 h
  | TSingle b => 250 :: sbe 4 b
  | TDouble b => 251 :: sbe 8 b
  end.

(* the data a well-formed item carries: widths, definite/indefinite and chunking are not data *)
Fixpoint data_of (t : wtree) : sdata :=
  match t with
  | TUint _ n => DUint n
  | TNint _ n => DNint n
  | TBytes _ s => DBytes s
  | TBytesI cs => DBytes (flat_map snd cs)
  | TText _ s => DText s
  | TTextI cs => DText (flat_map snd cs)
  | TArr _ l | TArrI l => DArr (map data_of l)
  | TMap _ l | TMapI l => DMap (map (fun kv => (data_of (fst kv), data_of (snd kv))) l)
  | TTag _ t v => DTag t (data_of v)
  | TSimple v | TSimple1 v => DSimple v
  | THalf h => DFloat 16 h
  | TSingle b => DFloat 32 b
  | TDouble b => DFloat 64 b
  end.

(* ------------------------------------------------------------------ *)
(* a decoder following Appendix C (well-formedness) that builds the data *)
Definition sget (l : list N) : N := fold_left (fun a x => a * 256 + x) l 0.

Definition stake (n : N) (b : list N) : option (list N * list N) :=
  if N.of_nat (length b) <? n then None else Some (firstn (N.to_nat n) b, skipn (N.to_nat n) b).

Definition sarg (ai : N) (b : list N) : option (N * list N) :=
  if ai <? 24 then Some (ai, b)
  else match (if ai =? 24 then Some 1 else if ai =? 25 then Some 2 else if ai =? 26 then Some 4
              else if ai =? 27 then Some 8 else None) with
       | Some k => match stake k b with Some (x, b') => Some (sget x, b') | None => None end
       | None => None
       end.

(* definite-length chunks of major type mt up to the break *)
Fixpoint schunks (f : nat) (mt : N) (b : list N) : option (list N * list N) :=
  match f with
  | O => None
  | S f' =>
      match b with
      | [] => None
      | ib :: b1 =>
          if ib =? 255 then Some ([], b1)
          else if (ib / 32 =? mt) && negb (ib mod 32 =? 31) then
            match sarg (ib mod 32) b1 with
            | Some (n, b2) =>
                match stake n b2 with
                | Some (c, b3) => match schunks f' mt b3 with Some (cs, b4) => Some (c ++ cs, b4) | None => None end
                | None => None
                end
            | None => None
            end
          else None
      end
  end.

Section SpecBody.
  Variable f' : nat.
  Variable self : list N -> option (sdata * list N).
  Variable sn : N -> list N -> option (list sdata * list N).
  Variable su : list N -> option (list sdata * list N).
  Variable pn : N -> list N -> option (list (sdata * sdata) * list N).
  Variable pu : list N -> option (list (sdata * sdata) * list N).

  Definition spec_body (ib : N) (b1 : list N) : option (sdata * list N) :=
    let mt := ib / 32 in
    let ai := ib mod 32 in
    if (28 <=? ai) && (ai <=? 30) then None
    else if mt =? 0 then match sarg ai b1 with Some (n, b2) => Some (DUint n, b2) | None => None end
    else if mt =? 1 then match sarg ai b1 with Some (n, b2) => Some (DNint n, b2) | None => None end
    else if (mt =? 2) || (mt =? 3) then
      match (if ai =? 31 then schunks f' mt b1
             else match sarg ai b1 with Some (n, b2) => stake n b2 | None => None end) with
      | Some (s, b3) => Some (if mt =? 2 then DBytes s else DText s, b3)
      | None => None
      end
    else if mt =? 4 then
      if ai =? 31 then match su b1 with Some (l, b2) => Some (DArr l, b2) | None => None end
      else match sarg ai b1 with
           | Some (n, b2) => match sn n b2 with Some (l, b3) => Some (DArr l, b3) | None => None end
           | None => None
           end
    else if mt =? 5 then
      if ai =? 31 then match pu b1 with Some (l, b2) => Some (DMap l, b2) | None => None end
      else match sarg ai b1 with
           | Some (n, b2) => match pn n b2 with Some (l, b3) => Some (DMap l, b3) | None => None end
           | None => None
           end
    else if mt =? 6 then
      if ai =? 31 then None
      else match sarg ai b1 with
           | Some (t, b2) => match self b2 with Some (v, b3) => Some (DTag t v, b3) | None => None end
           | None => None
           end
    else
      if ai <? 24 then Some (DSimple ai, b1)
      else if ai =? 24 then
        match b1 with v :: b2 => if v <? 32 then None else Some (DSimple v, b2) | [] => None end
      else if ai =? 25 then match stake 2 b1 with Some (x, b2) => Some (DFloat 16 (sget x), b2) | None => None end
      else if ai =? 26 then match stake 4 b1 with Some (x, b2) => Some (DFloat 32 (sget x), b2) | None => None end
      else if ai =? 27 then match stake 8 b1 with Some (x, b2) => Some (DFloat 64 (sget x), b2) | None => None end
      else None.                (* a break outside an indefinite-length item *)
End SpecBody.

Fixpoint spec_dec (f : nat) (b : list N) {struct f} : option (sdata * list N) :=
  match f with
  | O => None
  | S f' =>
      match b with
      | [] => None
      | ib :: b1 => spec_body f' (spec_dec f') (spec_n f') (spec_until f') (spec_pairs_n f') (spec_pairs_until f') ib b1
      end
  end
with spec_n (f : nat) (n : N) (b : list N) {struct f} : option (list sdata * list N) :=
  match f with
  | O => None
  | S f' =>
      if n =? 0 then Some ([], b)
      else match spec_dec f' b with
           | Some (x, b1) => match spec_n f' (n - 1) b1 with Some (xs, b2) => Some (x :: xs, b2) | None => None end
           | None => None
           end
  end
with spec_until (f : nat) (b : list N) {struct f} : option (list sdata * list N) :=
  match f with
  | O => None
  | S f' =>
      match b with
      | [] => None
      | ib :: b1 =>
          if ib =? 255 then Some ([], b1)
          else match spec_dec f' b with
               | Some (x, b2) => match spec_until f' b2 with Some (xs, b3) => Some (x :: xs, b3) | None => None end
               | None => None
               end
      end
  end
with spec_pairs_n (f : nat) (n : N) (b : list N) {struct f} : option (list (sdata * sdata) * list N) :=
  match f with
  | O => None
  | S f' =>
      if n =? 0 then Some ([], b)
      else match spec_dec f' b with
           | Some (k, b1) =>
               match spec_dec f' b1 with
               | Some (v, b2) => match spec_pairs_n f' (n - 1) b2 with Some (xs, b3) => Some ((k, v) :: xs, b3) | None => None end
               | None => None
               end
           | None => None
           end
  end
with spec_pairs_until (f : nat) (b : list N) {struct f} : option (list (sdata * sdata) * list N) :=
  match f with
  | O => None
  | S f' =>
      match b with
      | [] => None
      | ib :: b1 =>
          if ib =? 255 then Some ([], b1)
          else match spec_dec f' b with
               | Some (k, b2) =>
                   match spec_dec f' b2 with
                   | Some (v, b3) => match spec_pairs_until f' b3 with Some (xs, b4) => Some ((k, v) :: xs, b4) | None => None end
                   | None => None
                   end
               | None => None
               end
      end
  end.

Definition spec_fuel (b : list N) : nat := 2 * length b + 2.

(* ------------------------------------------------------------------ *)
(* RFC 8949 3.2.3: each chunk of an indefinite-length text string must itself be a valid text string,
   i.e. well-formed UTF-8 (RFC 3629, table 3-7 of Unicode: no overlongs, no surrogates, <= U+10FFFF) *)
Definition ucont (b : N) : bool := (128 <=? b) && (b <=? 191).

Fixpoint utf8_valid_f (f : nat) (s : list N) : bool :=
  match f with
  | O => match s with [] => true | _ => false end
  | S f' =>
      match s with
      | [] => true
      | a :: r =>
          if a <? 128 then utf8_valid_f f' r
          else if (194 <=? a) && (a <=? 223) then
            match r with b :: r' => ucont b && utf8_valid_f f' r' | _ => false end
          else if (224 <=? a) && (a <=? 239) then
            match r with
            | b :: c :: r' =>
                (if a =? 224 then (160 <=? b) && (b <=? 191) else if a =? 237 then (128 <=? b) && (b <=? 159) else ucont b)
                && ucont c && utf8_valid_f f' r'
            | _ => false
            end
          else if (240 <=? a) && (a <=? 244) then
            match r with
            | b :: c :: d :: r' =>
                (if a =? 240 then (144 <=? b) && (b <=? 191) else if a =? 244 then (128 <=? b) && (b <=? 143) else ucont b)
                && ucont c && ucont d && utf8_valid_f f' r'
            | _ => false
            end
          else false
      end
  end.
Definition utf8_valid (s : list N) : bool := utf8_valid_f (length s) s.

(* every chunk of every indefinite-length text string in the tree is valid UTF-8 *)
Fixpoint chunks_utf8 (t : wtree) : bool :=
  match t with
  | TTextI cs => forallb (fun c => utf8_valid (snd c)) cs
  | TArr _ l | TArrI l => forallb chunks_utf8 l
  | TMap _ l | TMapI l => forallb (fun kv => chunks_utf8 (fst kv) && chunks_utf8 (snd kv)) l
  | TTag _ _ v => chunks_utf8 v
  | _ => true
  end.

(* all texts made of at most k characters drawn from: a (1 byte), e-acute (2), euro sign (3), U+1F600 (4) *)
Definition sample_runes : list (list N) := [[97]; [195; 169]; [226; 130; 172]; [240; 159; 152; 128]].
Fixpoint texts_exact (k : nat) : list (list N) :=
  match k with
  | O => [[]]
  | S k' => flat_map (fun r => map (fun s => r ++ s) (texts_exact k')) sample_runes
  end.
Definition texts_upto (k : nat) : list (list N) := flat_map texts_exact (seq 0 (S k)).

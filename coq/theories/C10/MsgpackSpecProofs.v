(* C10/MsgpackSpecProofs — the MessagePack specification model (C10/MsgpackSpec.v) is consistent
   with itself: the relation [ser] (every serialisation the specification permits for a value)
   and the decoder [sdec] (the format table read from the first byte) describe the same format.

     sden v            the data a value denotes: the identity, except that an Extension of the
                       reserved type -1 whose payload has 4 / 8 / 12 bytes IS a timestamp
                       (spec: "Timestamp extension type is assigned to extension type -1"), and
                       a payload whose nanoseconds exceed 999999999 denotes nothing
     spec_sound        ser v b -> sdec reads b (followed by anything) as sden v, leaving the rest
     spec_complete     sdec b = Some (v, rest) -> b = b0 ++ rest with b0 a serialisation of some
                       v0 that denotes v
     spec_strict_refuted   the converse with v itself fails: c7 04 ff 00 00 00 01 (ext 8 of length 4,
                       type -1) is read as the timestamp 1 s, but the only serialisations [ser_time]
                       lists for it are d6 ff .. (timestamp 32), d7 ff .. and c7 0c ff ..

   Independent of the library and of its model: only C10.MsgpackSpec is imported. *)
From Coq Require Import List NArith ZArith Lia Bool Arith.
From Coq Require Import ZifyN ZifyNat ZifyBool.
From Verif Require Import C10.MsgpackSpec.
Import ListNotations.
Local Open Scope N_scope.

Ltac Zify.zify_post_hook ::= Z.div_mod_to_equations.

(* ================================================================== *)
(* what a value denotes *)

Definition time_of_ext (data : list N) : option sval :=
  let n := slen data in
  if n =? 4 then Some (STime (Z.of_N (sval_of_be 0 data)) 0)
  else if n =? 8 then
    let v := sval_of_be 0 data in
    if v / 2 ^ 34 <=? 999999999 then Some (STime (Z.of_N (v mod 2 ^ 34)) (v / 2 ^ 34)) else None
  else if n =? 12 then
    match stake 4 data with
    | Some (ns, sc) =>
        if sval_of_be 0 ns <=? 999999999
        then Some (STime (sint 64 (sval_of_be 0 sc)) (sval_of_be 0 ns)) else None
    | None => None
    end
  else Some (SExt (-1) data).

Fixpoint sden (v : sval) : option sval :=
  match v with
  | SExt ty data => if (ty =? -1)%Z then time_of_ext data else Some v
  | SArr l =>
      match (fix go (l : list sval) : option (list sval) :=
               match l with
               | [] => Some []
               | x :: r => match sden x with
                           | Some x' => match go r with Some r' => Some (x' :: r') | None => None end
                           | None => None
                           end
               end) l with
      | Some l' => Some (SArr l')
      | None => None
      end
  | SMap l =>
      match (fix go (l : list (sval * sval)) : option (list (sval * sval)) :=
               match l with
               | [] => Some []
               | kv :: r =>
                   match sden (fst kv) with
                   | Some k' =>
                       match sden (snd kv) with
                       | Some v' => match go r with Some r' => Some ((k', v') :: r') | None => None end
                       | None => None
                       end
                   | None => None
                   end
               end) l with
      | Some l' => Some (SMap l')
      | None => None
      end
  | _ => Some v
  end.

Definition sden_list :=
  fix go (l : list sval) : option (list sval) :=
    match l with
    | [] => Some []
    | x :: r => match sden x with
                | Some x' => match go r with Some r' => Some (x' :: r') | None => None end
                | None => None
                end
    end.

Definition sden_pairs :=
  fix go (l : list (sval * sval)) : option (list (sval * sval)) :=
    match l with
    | [] => Some []
    | kv :: r =>
        match sden (fst kv) with
        | Some k' =>
            match sden (snd kv) with
            | Some v' => match go r with Some r' => Some ((k', v') :: r') | None => None end
            | None => None
            end
        | None => None
        end
    end.

(* no application use of the reserved extension type: such a value denotes itself *)
Fixpoint sproper (v : sval) : Prop :=
  match v with
  | SExt ty _ => ty <> (-1)%Z
  | SArr l => (fix go l := match l with [] => True | x :: r => sproper x /\ go r end) l
  | SMap l => (fix go l := match l with [] => True | kv :: r => sproper (fst kv) /\ sproper (snd kv) /\ go r end) l
  | _ => True
  end.

Definition ser_list :=
  fix go (l : list sval) (ws : list (list N)) : Prop :=
    match l, ws with
    | [], [] => True
    | x :: l', w1 :: ws' => ser x w1 /\ go l' ws'
    | _, _ => False
    end.
Definition ser_pairs :=
  fix go (l : list (sval * sval)) (ws : list (list N)) : Prop :=
    match l, ws with
    | [], [] => True
    | kv :: l', w1 :: ws' => (exists wk wv, ser (fst kv) wk /\ ser (snd kv) wv /\ w1 = wk ++ wv) /\ go l' ws'
    | _, _ => False
    end.

Definition byte (x : N) : Prop := x < 256.
Definition bytes (b : list N) : Prop := Forall byte b.

(* ================================================================== *)
(* reader primitives *)

Lemma stake_0 : forall b, stake 0 b = Some ([], b).
Proof. destruct b; reflexivity. Qed.

Lemma stake_cons : forall n x r, n <> 0 ->
  stake n (x :: r) = match stake (n - 1) r with Some (p, q) => Some (x :: p, q) | None => None end.
Proof. intros n x r H. cbn [stake]. destruct (N.eqb_spec n 0); [contradiction|reflexivity]. Qed.

Lemma stake_app : forall p q, stake (slen p) (p ++ q) = Some (p, q).
Proof.
  induction p as [|x p IH]; intros q.
  - apply stake_0.
  - unfold slen. cbn [length app]. rewrite stake_cons by lia.
    replace (N.of_nat (S (length p)) - 1) with (slen p) by (unfold slen; lia). rewrite IH. reflexivity.
Qed.

Lemma stake_some : forall b n p q, stake n b = Some (p, q) -> b = p ++ q /\ slen p = n.
Proof.
  induction b as [|x b IH]; intros n p q H.
  - cbn [stake] in H. destruct (N.eqb_spec n 0) as [->|Hn]; [|discriminate].
    inversion H; subst. split; reflexivity.
  - destruct (N.eqb_spec n 0) as [->|Hn].
    + rewrite stake_0 in H. inversion H; subst. split; reflexivity.
    + rewrite stake_cons in H by assumption.
      destruct (stake (n - 1) b) as [[p' q']|] eqn:E; [|discriminate]. inversion H; subst.
      destruct (IH _ _ _ E) as [-> Hl]. split; [reflexivity|]. unfold slen in *. cbn [length]. lia.
Qed.

Lemma svb_acc : forall l acc x, sval_of_be acc (l ++ [x]) = sval_of_be acc l * 256 + x.
Proof. induction l as [|y l IH]; intros acc x; cbn [app sval_of_be]; [reflexivity|apply IH]. Qed.

Lemma length_sbe : forall k v, length (sbe k v) = k.
Proof. induction k; intros v; cbn [sbe]; [reflexivity|]. rewrite app_length, IHk. cbn [length]. lia. Qed.

Lemma pow256_S : forall k, 256 ^ N.of_nat (S k) = 256 * 256 ^ N.of_nat k.
Proof. intros k. replace (N.of_nat (S k)) with (N.succ (N.of_nat k)) by lia. apply N.pow_succ_r'. Qed.

Lemma svb_sbe : forall k v, v < 256 ^ N.of_nat k -> sval_of_be 0 (sbe k v) = v.
Proof.
  induction k as [|k IH]; intros v Hv.
  - change (256 ^ N.of_nat 0) with 1 in Hv. cbn [sbe sval_of_be]. lia.
  - cbn [sbe]. rewrite svb_acc. rewrite pow256_S in Hv. rewrite IH by lia. lia.
Qed.

Lemma sbe_bytes : forall k v, bytes (sbe k v).
Proof.
  induction k as [|k IH]; intros v; cbn [sbe]; [constructor|].
  apply Forall_app. split; [apply IH|]. constructor; [unfold byte; lia|constructor].
Qed.

Lemma sbe_svb : forall l, bytes l -> sbe (length l) (sval_of_be 0 l) = l /\ sval_of_be 0 l < 256 ^ N.of_nat (length l).
Proof.
  induction l as [|x l IH] using rev_ind; intros Hb.
  - split; [reflexivity|]. cbn. lia.
  - apply Forall_app in Hb. destruct Hb as [Hl Hx]. inversion Hx as [|? ? Hx' _]; subst. unfold byte in Hx'.
    destruct (IH Hl) as [E Hlt]. rewrite app_length. cbn [length]. rewrite Nat.add_1_r.
    rewrite svb_acc. cbn [sbe]. rewrite pow256_S.
    replace ((sval_of_be 0 l * 256 + x) / 256) with (sval_of_be 0 l) by lia.
    replace ((sval_of_be 0 l * 256 + x) mod 256) with x by lia.
    rewrite E. split; [reflexivity|lia].
Qed.

Lemma sunum_sbe : forall k v r, v < 256 ^ N.of_nat k -> sunum (N.of_nat k) (sbe k v ++ r) = Some (v, r).
Proof.
  intros k v r Hv. unfold sunum.
  replace (N.of_nat k) with (slen (sbe k v)) by (unfold slen; rewrite length_sbe; reflexivity).
  rewrite stake_app. rewrite svb_sbe by assumption. reflexivity.
Qed.

Lemma sunum_some : forall k b v q, sunum (N.of_nat k) b = Some (v, q) -> bytes b ->
  b = sbe k v ++ q /\ v < 256 ^ N.of_nat k /\ bytes q.
Proof.
  intros k b v q H Hb. unfold sunum in H. destruct (stake (N.of_nat k) b) as [[p q']|] eqn:E; [|discriminate].
  inversion H; subst. destruct (stake_some _ _ _ _ E) as [-> Hl].
  apply Forall_app in Hb. destruct Hb as [Hp Hq].
  destruct (sbe_svb p Hp) as [E1 E2]. unfold slen in Hl.
  replace k with (length p) by lia. rewrite E1. repeat apply conj; [reflexivity|assumption|assumption].
Qed.

(* two's complement round trips *)
Lemma sint_tc_8 : forall z, (-128 <= z < 128)%Z -> sint 8 (tc 8 z) = z /\ tc 8 z < 256.
Proof.
  intros z H. unfold sint, tc. change (2 ^ 8)%Z with 256%Z. change (2 ^ (8 - 1))%Z with 128%Z.
  destruct (Z.ltb_spec z 0); [destruct (Z.ltb_spec (Z.of_N (Z.to_N (z + 256))) 128)|destruct (Z.ltb_spec (Z.of_N (Z.to_N z)) 128)]; lia.
Qed.
Lemma sint_tc_16 : forall z, (-32768 <= z < 32768)%Z -> sint 16 (tc 16 z) = z /\ tc 16 z < 65536.
Proof.
  intros z H. unfold sint, tc. change (2 ^ 16)%Z with 65536%Z. change (2 ^ (16 - 1))%Z with 32768%Z.
  destruct (Z.ltb_spec z 0); [destruct (Z.ltb_spec (Z.of_N (Z.to_N (z + 65536))) 32768)|destruct (Z.ltb_spec (Z.of_N (Z.to_N z)) 32768)]; lia.
Qed.
Lemma sint_tc_32 : forall z, (-2147483648 <= z < 2147483648)%Z -> sint 32 (tc 32 z) = z /\ tc 32 z < 4294967296.
Proof.
  intros z H. unfold sint, tc. change (2 ^ 32)%Z with 4294967296%Z. change (2 ^ (32 - 1))%Z with 2147483648%Z.
  destruct (Z.ltb_spec z 0); [destruct (Z.ltb_spec (Z.of_N (Z.to_N (z + 4294967296))) 2147483648)|destruct (Z.ltb_spec (Z.of_N (Z.to_N z)) 2147483648)]; lia.
Qed.
Lemma sint_tc_64 : forall z, (-9223372036854775808 <= z < 9223372036854775808)%Z ->
  sint 64 (tc 64 z) = z /\ tc 64 z < 18446744073709551616.
Proof.
  intros z H. unfold sint, tc. change (2 ^ 64)%Z with 18446744073709551616%Z. change (2 ^ (64 - 1))%Z with 9223372036854775808%Z.
  destruct (Z.ltb_spec z 0); [destruct (Z.ltb_spec (Z.of_N (Z.to_N (z + 18446744073709551616))) 9223372036854775808)|destruct (Z.ltb_spec (Z.of_N (Z.to_N z)) 9223372036854775808)]; lia.
Qed.

Lemma tc_sint_8 : forall u, u < 256 -> tc 8 (sint 8 u) = u /\ (-128 <= sint 8 u < 128)%Z.
Proof.
  intros u H. unfold sint, tc. change (2 ^ 8)%Z with 256%Z. change (2 ^ (8 - 1))%Z with 128%Z.
  destruct (Z.ltb_spec (Z.of_N u) 128); [destruct (Z.ltb_spec (Z.of_N u) 0)|destruct (Z.ltb_spec (Z.of_N u - 256) 0)]; lia.
Qed.
Lemma tc_sint_16 : forall u, u < 65536 -> tc 16 (sint 16 u) = u /\ (-32768 <= sint 16 u < 32768)%Z.
Proof.
  intros u H. unfold sint, tc. change (2 ^ 16)%Z with 65536%Z. change (2 ^ (16 - 1))%Z with 32768%Z.
  destruct (Z.ltb_spec (Z.of_N u) 32768); [destruct (Z.ltb_spec (Z.of_N u) 0)|destruct (Z.ltb_spec (Z.of_N u - 65536) 0)]; lia.
Qed.
Lemma tc_sint_32 : forall u, u < 4294967296 -> tc 32 (sint 32 u) = u /\ (-2147483648 <= sint 32 u < 2147483648)%Z.
Proof.
  intros u H. unfold sint, tc. change (2 ^ 32)%Z with 4294967296%Z. change (2 ^ (32 - 1))%Z with 2147483648%Z.
  destruct (Z.ltb_spec (Z.of_N u) 2147483648); [destruct (Z.ltb_spec (Z.of_N u) 0)|destruct (Z.ltb_spec (Z.of_N u - 4294967296) 0)]; lia.
Qed.
Lemma tc_sint_64 : forall u, u < 18446744073709551616 ->
  tc 64 (sint 64 u) = u /\ (-9223372036854775808 <= sint 64 u < 9223372036854775808)%Z.
Proof.
  intros u H. unfold sint, tc. change (2 ^ 64)%Z with 18446744073709551616%Z. change (2 ^ (64 - 1))%Z with 9223372036854775808%Z.
  destruct (Z.ltb_spec (Z.of_N u) 9223372036854775808); [destruct (Z.ltb_spec (Z.of_N u) 0)|destruct (Z.ltb_spec (Z.of_N u - 18446744073709551616) 0)]; lia.
Qed.

(* ================================================================== *)
(* evaluating the format table on a known first byte *)

Ltac is_pos p := match p with xH => idtac | xO ?q => is_pos q | xI ?q => is_pos q end.
Ltac is_num a := match a with N0 => idtac | Npos ?p => is_pos p end.

(* comparisons of two numerals only (a symbolic operand is never handed to vm_compute) *)
Ltac ev_cmp :=
  repeat match goal with
  | |- context [N.leb ?a ?b] =>
      is_num a; is_num b;
      let v := eval vm_compute in (N.leb a b) in
      match v with
      | true => change (N.leb a b) with true
      | false => change (N.leb a b) with false
      end; cbv iota
  | |- context [N.eqb ?a ?b] =>
      is_num a; is_num b;
      let v := eval vm_compute in (N.eqb a b) in
      match v with
      | true => change (N.eqb a b) with true
      | false => change (N.eqb a b) with false
      end; cbv iota
  end.

Ltac head := cbn [app sdec]; ev_cmp.

Ltac sym_cmp :=
  repeat match goal with
  | |- context [N.leb ?a ?b] => destruct (N.leb_spec a b); [try lia|try lia]
  | |- context [N.eqb ?a ?b] => destruct (N.eqb_spec a b); [try lia|try lia]
  end.

Lemma sunum1_sbe : forall v r, v < 256 -> sunum 1 (sbe 1 v ++ r) = Some (v, r).
Proof. intros v r H. exact (sunum_sbe 1 v r H). Qed.
Lemma sunum2_sbe : forall v r, v < 65536 -> sunum 2 (sbe 2 v ++ r) = Some (v, r).
Proof. intros v r H. exact (sunum_sbe 2 v r H). Qed.
Lemma sunum4_sbe : forall v r, v < 4294967296 -> sunum 4 (sbe 4 v ++ r) = Some (v, r).
Proof. intros v r H. exact (sunum_sbe 4 v r H). Qed.
Lemma sunum8_sbe : forall v r, v < 18446744073709551616 -> sunum 8 (sbe 8 v ++ r) = Some (v, r).
Proof. intros v r H. exact (sunum_sbe 8 v r H). Qed.

Lemma sunum1_cons : forall v r, v < 256 -> sunum 1 (v :: r) = Some (v, r).
Proof.
  intros v r H. unfold sunum. rewrite stake_cons by lia. change (1 - 1) with 0. rewrite stake_0.
  cbn [sval_of_be]. repeat f_equal; lia.
Qed.

Lemma stake_sbe : forall k v r, stake (N.of_nat k) (sbe k v ++ r) = Some (sbe k v, r).
Proof.
  intros k v r. replace (N.of_nat k) with (slen (sbe k v)) by (unfold slen; rewrite length_sbe; reflexivity).
  apply stake_app.
Qed.

(* ================================================================== *)
(* soundness: every permitted serialisation is read back *)

Lemma sound_int : forall z w f rest, ser_int z w -> sdec (S f) (w ++ rest) = Some (SInt z, rest).
Proof.
  intros z w f rest H. unfold ser_int in H.
  change (2 ^ 8)%Z with 256%Z in H. change (2 ^ 16)%Z with 65536%Z in H.
  change (2 ^ 32)%Z with 4294967296%Z in H. change (2 ^ 64)%Z with 18446744073709551616%Z in H.
  change (2 ^ 7)%Z with 128%Z in H. change (2 ^ 15)%Z with 32768%Z in H.
  change (2 ^ 31)%Z with 2147483648%Z in H. change (2 ^ 63)%Z with 9223372036854775808%Z in H.
  destruct H as [[Hz ->]|[[Hz ->]|[[Hz ->]|[[Hz ->]|[[Hz ->]|[[Hz ->]|[[Hz ->]|[[Hz ->]|[[Hz ->]|[Hz ->]]]]]]]]]].
  - cbn [app sdec]. destruct (N.leb_spec (Z.to_N z) 0x7f); [|lia]. rewrite Z2N.id by lia. reflexivity.
  - cbn [app sdec]. sym_cmp. f_equal. f_equal. f_equal. lia.
  - head. rewrite sunum1_sbe by lia. rewrite Z2N.id by lia. reflexivity.
  - head. rewrite sunum2_sbe by lia. rewrite Z2N.id by lia. reflexivity.
  - head. rewrite sunum4_sbe by lia. rewrite Z2N.id by lia. reflexivity.
  - head. rewrite sunum8_sbe by lia. rewrite Z2N.id by lia. reflexivity.
  - head. destruct (sint_tc_8 z Hz) as [E B]. rewrite sunum1_sbe by exact B. rewrite E. reflexivity.
  - head. destruct (sint_tc_16 z Hz) as [E B]. rewrite sunum2_sbe by exact B. rewrite E. reflexivity.
  - head. destruct (sint_tc_32 z Hz) as [E B]. rewrite sunum4_sbe by exact B. rewrite E. reflexivity.
  - head. destruct (sint_tc_64 z Hz) as [E B]. rewrite sunum8_sbe by exact B. rewrite E. reflexivity.
Qed.

Lemma sound_str : forall s w f rest, ser_str s w -> sdec (S f) (w ++ rest) = Some (SStr s, rest).
Proof.
  intros s w f rest H. unfold ser_str in H.
  change (2 ^ 8) with 256 in H. change (2 ^ 16) with 65536 in H. change (2 ^ 32) with 4294967296 in H.
  destruct H as [[Hn ->]|[[Hn ->]|[[Hn ->]|[Hn ->]]]].
  - cbn [app sdec]. sym_cmp. replace (160 + slen s - 160) with (slen s) by lia. rewrite stake_app. reflexivity.
  - cbn [app]. rewrite <- app_assoc. head. rewrite sunum1_sbe by lia. rewrite stake_app. reflexivity.
  - cbn [app]. rewrite <- app_assoc. head. rewrite sunum2_sbe by lia. rewrite stake_app. reflexivity.
  - cbn [app]. rewrite <- app_assoc. head. rewrite sunum4_sbe by lia. rewrite stake_app. reflexivity.
Qed.

Lemma sound_bin : forall s w f rest, ser_bin s w -> sdec (S f) (w ++ rest) = Some (SBin s, rest).
Proof.
  intros s w f rest H. unfold ser_bin in H.
  change (2 ^ 8) with 256 in H. change (2 ^ 16) with 65536 in H. change (2 ^ 32) with 4294967296 in H.
  destruct H as [[Hn ->]|[[Hn ->]|[Hn ->]]].
  - cbn [app]. rewrite <- app_assoc. head. rewrite sunum1_sbe by lia. rewrite stake_app. reflexivity.
  - cbn [app]. rewrite <- app_assoc. head. rewrite sunum2_sbe by lia. rewrite stake_app. reflexivity.
  - cbn [app]. rewrite <- app_assoc. head. rewrite sunum4_sbe by lia. rewrite stake_app. reflexivity.
Qed.

Lemma sound_ext_head : forall ty data w f rest, ser_ext ty data w ->
  sdec (S f) (w ++ rest) = sdec_ext (slen data) (tc 8 ty :: data ++ rest).
Proof.
  intros ty data w f rest H. unfold ser_ext in H. destruct H as [_ H].
  change (2 ^ 8) with 256 in H. change (2 ^ 16) with 65536 in H. change (2 ^ 32) with 4294967296 in H.
  destruct H as [[Hn ->]|[[Hn ->]|[[Hn ->]|[[Hn ->]|[[Hn ->]|[[Hn ->]|[[Hn ->]|[Hn ->]]]]]]]].
  - rewrite Hn. head. reflexivity.
  - rewrite Hn. head. reflexivity.
  - rewrite Hn. head. reflexivity.
  - rewrite Hn. head. reflexivity.
  - rewrite Hn. head. reflexivity.
  - cbn [app]. rewrite <- !app_assoc. head. rewrite sunum1_sbe by lia. reflexivity.
  - cbn [app]. rewrite <- !app_assoc. head. rewrite sunum2_sbe by lia. reflexivity.
  - cbn [app]. rewrite <- !app_assoc. head. rewrite sunum4_sbe by lia. reflexivity.
Qed.

Lemma tc8_m1 : forall ty, (-128 <= ty <= 127)%Z -> (tc 8 ty =? 0xff) = (ty =? -1)%Z.
Proof.
  intros ty H. unfold tc. change (2 ^ 8)%Z with 256%Z.
  destruct (Z.ltb_spec ty 0); destruct (Z.eqb_spec ty (-1)); destruct (N.eqb_spec (Z.to_N (ty + 256)) 255);
    destruct (N.eqb_spec (Z.to_N ty) 255); lia.
Qed.

Lemma sdec_ext_den : forall ty data rest, (-128 <= ty <= 127)%Z ->
  sdec_ext (slen data) (tc 8 ty :: data ++ rest) =
  match (if (ty =? -1)%Z then time_of_ext data else Some (SExt ty data)) with
  | Some v' => Some (v', rest)
  | None => None
  end.
Proof.
  intros ty data rest H. unfold sdec_ext. rewrite stake_app. rewrite (tc8_m1 ty H).
  destruct (Z.eqb_spec ty (-1)) as [->|Hne].
  - unfold time_of_ext. cbv zeta.
    destruct (slen data =? 4); [reflexivity|].
    destruct (slen data =? 8). { destruct (_ <=? _); reflexivity. }
    destruct (slen data =? 12). { destruct (stake 4 data) as [[ns sc]|]; [|reflexivity]. destruct (_ <=? _); reflexivity. }
    reflexivity.
  - destruct (sint_tc_8 ty ltac:(lia)) as [E _]. rewrite E. reflexivity.
Qed.

Lemma sound_time : forall sec nsec w f rest, ser_time sec nsec w -> sdec (S f) (w ++ rest) = Some (STime sec nsec, rest).
Proof.
  intros sec nsec w f rest H. unfold ser_time in H.
  change (2 ^ 32)%Z with 4294967296%Z in H. change (2 ^ 34)%Z with 17179869184%Z in H.
  change (2 ^ 63)%Z with 9223372036854775808%Z in H. change (2 ^ 34) with 17179869184 in H.
  destruct H as [[Hn [Hs ->]]|[[Hn [Hs ->]]|[Hn [Hs ->]]]].
  - cbn [app]. head. unfold sdec_ext. rewrite (stake_sbe 4). ev_cmp.
    rewrite svb_sbe by (change (256 ^ N.of_nat 4) with 4294967296; lia). rewrite Z2N.id by lia. subst nsec. reflexivity.
  - cbn [app]. head. unfold sdec_ext. rewrite (stake_sbe 8). ev_cmp.
    rewrite svb_sbe by (change (256 ^ N.of_nat 8) with 18446744073709551616; lia).
    change (2 ^ 34) with 17179869184.
    replace ((nsec * 17179869184 + Z.to_N sec) / 17179869184) with nsec by lia.
    replace ((nsec * 17179869184 + Z.to_N sec) mod 17179869184) with (Z.to_N sec) by lia.
    destruct (N.leb_spec nsec 999999999); [|lia]. rewrite Z2N.id by lia. reflexivity.
  - cbn [app]. rewrite <- app_assoc. head.
    rewrite sunum1_cons by lia. unfold sdec_ext. rewrite app_assoc.
    replace 12 with (slen (sbe 4 nsec ++ sbe 8 (tc 64 sec))) at 1 by (unfold slen; rewrite app_length, !length_sbe; reflexivity).
    rewrite stake_app. ev_cmp. rewrite (stake_sbe 4).
    rewrite svb_sbe by (change (256 ^ N.of_nat 4) with 4294967296; lia).
    destruct (sint_tc_64 sec Hs) as [E B].
    rewrite svb_sbe by (change (256 ^ N.of_nat 8) with 18446744073709551616; exact B).
    destruct (N.leb_spec nsec 999999999); [|lia]. rewrite E. reflexivity.
Qed.

Lemma ser_nonempty : forall s w, ser s w -> (1 <= length w)%nat.
Proof.
  intros s w H. destruct s; cbn [ser] in H.
  - subst; cbn; lia.
  - subst; cbn; lia.
  - unfold ser_int in H.
    repeat (destruct H as [[_ ->]|H]; [cbn [length]; lia|]). destruct H as [_ ->]. cbn [length]; lia.
  - destruct H as [_ ->]. cbn [length]; lia.
  - destruct H as [_ ->]. cbn [length]; lia.
  - unfold ser_str in H. repeat (destruct H as [[_ ->]|H]; [cbn [length]; lia|]). destruct H as [_ ->]. cbn [length]; lia.
  - unfold ser_bin in H. repeat (destruct H as [[_ ->]|H]; [cbn [length]; lia|]). destruct H as [_ ->]. cbn [length]; lia.
  - destruct H as [h [ws [Hh [-> _]]]]. rewrite app_length.
    unfold arr_head in Hh. destruct Hh as [[_ ->]|[[_ ->]|[_ ->]]]; cbn [length]; lia.
  - destruct H as [h [ws [Hh [-> _]]]]. rewrite app_length.
    unfold map_head in Hh. destruct Hh as [[_ ->]|[[_ ->]|[_ ->]]]; cbn [length]; lia.
  - unfold ser_ext in H. destruct H as [_ H].
    repeat (destruct H as [[_ ->]|H]; [cbn [length app]; lia|]). destruct H as [_ ->]. cbn [length]; lia.
  - unfold ser_time in H. destruct H as [[_ [_ ->]]|[[_ [_ ->]]|[_ [_ ->]]]]; cbn [length app]; lia.
Qed.

Lemma sdec_seq_0 : forall f b, sdec_seq f 0 b = Some ([], b).
Proof. destruct f; reflexivity. Qed.
Lemma sdec_pairs_0 : forall f b, sdec_pairs f 0 b = Some ([], b).
Proof. destruct f; reflexivity. Qed.

Lemma sdec_seq_S : forall f n b, n <> 0 ->
  sdec_seq (S f) n b =
  match sdec f b with
  | Some (x, r) => match sdec_seq f (n - 1) r with Some (xs, q) => Some (x :: xs, q) | None => None end
  | None => None
  end.
Proof. intros f n b H. cbn [sdec_seq]. destruct (N.eqb_spec n 0); [contradiction|reflexivity]. Qed.

Lemma sdec_pairs_S : forall f n b, n <> 0 ->
  sdec_pairs (S f) n b =
  match sdec f b with
  | Some (k, r) =>
      match sdec f r with
      | Some (v, r') => match sdec_pairs f (n - 1) r' with Some (xs, q) => Some ((k, v) :: xs, q) | None => None end
      | None => None
      end
  | None => None
  end.
Proof. intros f n b H. cbn [sdec_pairs]. destruct (N.eqb_spec n 0); [contradiction|reflexivity]. Qed.

Lemma sden_list_cons : forall x r, sden_list (x :: r) =
  match sden x with Some x' => match sden_list r with Some r' => Some (x' :: r') | None => None end | None => None end.
Proof. reflexivity. Qed.
Lemma sden_pairs_cons : forall kv r, sden_pairs (kv :: r) =
  match sden (fst kv) with
  | Some k' => match sden (snd kv) with
               | Some v' => match sden_pairs r with Some r' => Some ((k', v') :: r') | None => None end
               | None => None
               end
  | None => None
  end.
Proof. reflexivity. Qed.
Lemma sden_arr : forall l, sden (SArr l) = match sden_list l with Some l' => Some (SArr l') | None => None end.
Proof. reflexivity. Qed.
Lemma sden_map : forall l, sden (SMap l) = match sden_pairs l with Some l' => Some (SMap l') | None => None end.
Proof. reflexivity. Qed.

Definition sound_ok (v : sval) : Prop :=
  forall b, ser v b -> forall f rest, (2 * length b <= f)%nat ->
  sdec f (b ++ rest) = match sden v with Some v' => Some (v', rest) | None => None end.

Lemma sound_seq : forall l, Forall sound_ok l -> forall ws, ser_list l ws ->
  forall f rest, (2 * length (concat ws) + 1 <= f)%nat ->
  sdec_seq f (slen l) (concat ws ++ rest) = match sden_list l with Some l' => Some (l', rest) | None => None end.
Proof.
  induction l as [|x l IH]; intros HP ws Hser f rest Hf.
  - destruct ws; [|contradiction]. apply sdec_seq_0.
  - destruct ws as [|w1 ws]; [contradiction|]. destruct Hser as [Hx Hser].
    inversion HP as [|? ? Px Pl]; subst.
    destruct f as [|f]; [lia|]. rewrite sdec_seq_S by (unfold slen; cbn [length]; lia).
    cbn [concat] in *. rewrite app_length in Hf. pose proof (ser_nonempty x w1 Hx) as Hne.
    rewrite <- app_assoc. rewrite (Px w1 Hx f (concat ws ++ rest)) by lia.
    rewrite sden_list_cons. destruct (sden x) as [x'|]; [|reflexivity].
    replace (slen (x :: l) - 1) with (slen l) by (unfold slen; cbn [length]; lia).
    rewrite (IH Pl ws Hser f rest) by lia. destruct (sden_list l); reflexivity.
Qed.

Lemma sound_pairs : forall l, Forall (fun kv => sound_ok (fst kv) /\ sound_ok (snd kv)) l -> forall ws, ser_pairs l ws ->
  forall f rest, (2 * length (concat ws) + 1 <= f)%nat ->
  sdec_pairs f (slen l) (concat ws ++ rest) = match sden_pairs l with Some l' => Some (l', rest) | None => None end.
Proof.
  induction l as [|x l IH]; intros HP ws Hser f rest Hf.
  - destruct ws; [|contradiction]. apply sdec_pairs_0.
  - destruct ws as [|w1 ws]; [contradiction|]. destruct Hser as [[wk [wv [Hk [Hv ->]]]] Hser].
    inversion HP as [|? ? [Pk Pv] Pl]; subst.
    destruct f as [|f]; [lia|]. rewrite sdec_pairs_S by (unfold slen; cbn [length]; lia).
    cbn [concat] in *. rewrite !app_length in Hf.
    pose proof (ser_nonempty _ wk Hk) as Hne1. pose proof (ser_nonempty _ wv Hv) as Hne2.
    rewrite <- !app_assoc. rewrite (Pk wk Hk f (wv ++ concat ws ++ rest)) by lia.
    rewrite sden_pairs_cons. destruct (sden (fst x)) as [k'|]; [|reflexivity].
    rewrite (Pv wv Hv f (concat ws ++ rest)) by lia. destruct (sden (snd x)) as [v'|]; [|reflexivity].
    replace (slen (x :: l) - 1) with (slen l) by (unfold slen; cbn [length]; lia).
    rewrite (IH Pl ws Hser f rest) by lia. destruct (sden_pairs l); reflexivity.
Qed.

Lemma sound_arr_head : forall n h f body, arr_head n h ->
  sdec (S f) (h ++ body) = match sdec_seq f n body with Some (l, q) => Some (SArr l, q) | None => None end.
Proof.
  intros n h f body H. unfold arr_head in H. change (2 ^ 16) with 65536 in H. change (2 ^ 32) with 4294967296 in H.
  destruct H as [[Hn ->]|[[Hn ->]|[Hn ->]]].
  - cbn [app sdec]. sym_cmp. replace (144 + n - 144) with n by lia. reflexivity.
  - cbn [app]. head. rewrite sunum2_sbe by lia. reflexivity.
  - cbn [app]. head. rewrite sunum4_sbe by lia. reflexivity.
Qed.

Lemma sound_map_head : forall n h f body, map_head n h ->
  sdec (S f) (h ++ body) = match sdec_pairs f n body with Some (l, q) => Some (SMap l, q) | None => None end.
Proof.
  intros n h f body H. unfold map_head in H. change (2 ^ 16) with 65536 in H. change (2 ^ 32) with 4294967296 in H.
  destruct H as [[Hn ->]|[[Hn ->]|[Hn ->]]].
  - cbn [app sdec]. sym_cmp. replace (128 + n - 128) with n by lia. reflexivity.
  - cbn [app]. head. rewrite sunum2_sbe by lia. reflexivity.
  - cbn [app]. head. rewrite sunum4_sbe by lia. reflexivity.
Qed.

Lemma head_len : forall n h, arr_head n h \/ map_head n h -> (1 <= length h)%nat.
Proof.
  intros n h [H|H]; [unfold arr_head in H|unfold map_head in H];
    destruct H as [[_ ->]|[[_ ->]|[_ ->]]]; cbn [length]; lia.
Qed.

Lemma sound_all : forall v, sound_ok v.
Proof.
  induction v using sval_ind'; unfold sound_ok; intros w Hser f rest Hf;
    pose proof (ser_nonempty _ w Hser) as Hne; cbn [ser] in Hser; (destruct f as [|f]; [lia|]).
  - subst w. head. reflexivity.
  - subst w. destruct b; head; reflexivity.
  - apply sound_int; assumption.
  - destruct Hser as [Hb ->]. cbn [app]. head. rewrite sunum4_sbe by (change (2 ^ 32) with 4294967296 in Hb; lia). reflexivity.
  - destruct Hser as [Hb ->]. cbn [app]. head. rewrite sunum8_sbe by (change (2 ^ 64) with 18446744073709551616 in Hb; lia). reflexivity.
  - apply sound_str; assumption.
  - apply sound_bin; assumption.
  - destruct Hser as [h [ws [Hh [-> Hl]]]]. rewrite <- app_assoc. rewrite (sound_arr_head _ _ _ _ Hh).
    rewrite app_length in Hf. pose proof (head_len _ _ (or_introl Hh)).
    rewrite (sound_seq l H ws Hl f rest) by lia. rewrite sden_arr. destruct (sden_list l); reflexivity.
  - destruct Hser as [h [ws [Hh [-> Hl]]]]. rewrite <- app_assoc. rewrite (sound_map_head _ _ _ _ Hh).
    rewrite app_length in Hf. pose proof (head_len _ _ (or_intror Hh)).
    rewrite (sound_pairs l H ws Hl f rest) by lia. rewrite sden_map. destruct (sden_pairs l); reflexivity.
  - rewrite (sound_ext_head _ _ _ _ _ Hser). destruct Hser as [Hr _]. rewrite (sdec_ext_den _ _ _ Hr). reflexivity.
  - apply sound_time; assumption.
Qed.

Lemma spec_sound : forall v b f rest, ser v b -> (2 * length b <= f)%nat ->
  sdec f (b ++ rest) = match sden v with Some v' => Some (v', rest) | None => None end.
Proof. intros v b f rest H Hf. apply (sound_all v b H f rest Hf). Qed.

Lemma sden_proper : forall v, sproper v -> sden v = Some v.
Proof.
  induction v using sval_ind'; intros Hp; try reflexivity.
  - rewrite sden_arr. cbn [sproper] in Hp.
    assert (E : sden_list l = Some l).
    { induction l as [|x l IHl]; [reflexivity|]. inversion H as [|? ? Hx Hr]; subst. destruct Hp as [Px Pl].
      rewrite sden_list_cons, (Hx Px), (IHl Hr Pl). reflexivity. }
    rewrite E. reflexivity.
  - rewrite sden_map. cbn [sproper] in Hp.
    assert (E : sden_pairs l = Some l).
    { induction l as [|x l IHl]; [reflexivity|]. inversion H as [|? ? [Hk Hv] Hr]; subst. destruct Hp as [Pk [Pv Pl]].
      rewrite sden_pairs_cons, (Hk Pk), (Hv Pv), (IHl Hr Pl). destruct x; reflexivity. }
    rewrite E. reflexivity.
  - cbn [sproper] in Hp. cbn [sden]. destruct (Z.eqb_spec t (-1)); [contradiction|reflexivity].
Qed.

Lemma spec_sound_proper : forall v b f rest, ser v b -> sproper v -> (2 * length b <= f)%nat ->
  sdec f (b ++ rest) = Some (v, rest).
Proof. intros v b f rest H Hp Hf. rewrite (spec_sound v b f rest H Hf), (sden_proper v Hp). reflexivity. Qed.

(* the format is unambiguous: two values with a common serialisation denote the same data *)
Lemma spec_unambiguous : forall v v' b, ser v b -> ser v' b -> sden v = sden v'.
Proof.
  intros v v' b H H'.
  pose proof (spec_sound v b (2 * length b) [] H (le_n _)) as E.
  pose proof (spec_sound v' b (2 * length b) [] H' (le_n _)) as E'.
  rewrite E in E'. destruct (sden v), (sden v'); congruence.
Qed.

(* ================================================================== *)
(* completeness: whatever the decoder accepts is a permitted serialisation *)

Definition comp_res (b : list N) (v : sval) (rest : list N) : Prop :=
  exists v0 b0, b = b0 ++ rest /\ ser v0 b0 /\ sden v0 = Some v /\ bytes rest.

Definition comp_dec (f : nat) : Prop := forall b v rest, bytes b -> sdec f b = Some (v, rest) -> comp_res b v rest.
Definition comp_seq (f : nat) : Prop := forall n b l rest, bytes b -> sdec_seq f n b = Some (l, rest) ->
  exists l0 ws, b = concat ws ++ rest /\ ser_list l0 ws /\ sden_list l0 = Some l /\ slen l0 = n /\ bytes rest.
Definition comp_pairs (f : nat) : Prop := forall n b l rest, bytes b -> sdec_pairs f n b = Some (l, rest) ->
  exists l0 ws, b = concat ws ++ rest /\ ser_pairs l0 ws /\ sden_pairs l0 = Some l /\ slen l0 = n /\ bytes rest.

Lemma comp_ext : forall n q v rest, bytes q -> sdec_ext n q = Some (v, rest) ->
  exists t data, q = t :: data ++ rest /\ slen data = n /\ t < 256 /\ (-128 <= sint 8 t <= 127)%Z /\ tc 8 (sint 8 t) = t /\
    sden (SExt (sint 8 t) data) = Some v /\ bytes rest.
Proof.
  intros n q v rest Hq H. destruct q as [|t r]; [discriminate|].
  inversion Hq as [|? ? Ht Hr]; subst. unfold byte in Ht.
  assert (E : exists data rest', stake n r = Some (data, rest')).
  { unfold sdec_ext in H. destruct (stake n r) as [[data rest']|]; [eauto|discriminate]. }
  destruct E as [data [rest' E]]. destruct (stake_some _ _ _ _ E) as [-> Hl]. subst n.
  apply Forall_app in Hr. destruct Hr as [Hd Hrest'].
  destruct (tc_sint_8 t Ht) as [Et Hrg].
  replace (t :: data ++ rest') with (tc 8 (sint 8 t) :: data ++ rest') in H by (rewrite Et; reflexivity).
  rewrite sdec_ext_den in H by lia.
  change (if (sint 8 t =? -1)%Z then time_of_ext data else Some (SExt (sint 8 t) data)) with (sden (SExt (sint 8 t) data)) in H.
  destruct (sden (SExt (sint 8 t) data)) as [v'|] eqn:Ev; [|discriminate]. inversion H; subst.
  exists t, data. repeat apply conj; try reflexivity; try assumption; lia.
Qed.

Lemma fin_arr : forall f h n r v rest, comp_seq f -> bytes r -> arr_head n h ->
  match sdec_seq f n r with Some (l, q) => Some (SArr l, q) | None => None end = Some (v, rest) ->
  comp_res (h ++ r) v rest.
Proof.
  intros f h n r v rest IS Hr Hh H. destruct (sdec_seq f n r) as [[l q]|] eqn:E; [|discriminate]. inversion H; subst.
  destruct (IS _ _ _ _ Hr E) as (l0 & ws & -> & Hs & Hd & Hn & Hq).
  exists (SArr l0), (h ++ concat ws). repeat apply conj.
  - rewrite app_assoc. reflexivity.
  - cbn [ser]. exists h, ws. rewrite Hn. repeat apply conj; [exact Hh|reflexivity|exact Hs].
  - rewrite sden_arr, Hd. reflexivity.
  - exact Hq.
Qed.

Lemma fin_map : forall f h n r v rest, comp_pairs f -> bytes r -> map_head n h ->
  match sdec_pairs f n r with Some (l, q) => Some (SMap l, q) | None => None end = Some (v, rest) ->
  comp_res (h ++ r) v rest.
Proof.
  intros f h n r v rest IP Hr Hh H. destruct (sdec_pairs f n r) as [[l q]|] eqn:E; [|discriminate]. inversion H; subst.
  destruct (IP _ _ _ _ Hr E) as (l0 & ws & -> & Hs & Hd & Hn & Hq).
  exists (SMap l0), (h ++ concat ws). repeat apply conj.
  - rewrite app_assoc. reflexivity.
  - cbn [ser]. exists h, ws. rewrite Hn. repeat apply conj; [exact Hh|reflexivity|exact Hs].
  - rewrite sden_map, Hd. reflexivity.
  - exact Hq.
Qed.

Lemma fin_str : forall h n r v rest, bytes r -> (forall s, slen s = n -> ser_str s (h ++ s)) ->
  match stake n r with Some (s, q) => Some (SStr s, q) | None => None end = Some (v, rest) ->
  comp_res (h ++ r) v rest.
Proof.
  intros h n r v rest Hr Hh H. destruct (stake n r) as [[s q]|] eqn:E; [|discriminate]. inversion H; subst.
  destruct (stake_some _ _ _ _ E) as [-> Hl]. apply Forall_app in Hr. destruct Hr as [_ Hq].
  exists (SStr s), (h ++ s). repeat apply conj; [rewrite app_assoc; reflexivity|apply Hh; exact Hl|reflexivity|exact Hq].
Qed.

Lemma fin_bin : forall h n r v rest, bytes r -> (forall s, slen s = n -> ser_bin s (h ++ s)) ->
  match stake n r with Some (s, q) => Some (SBin s, q) | None => None end = Some (v, rest) ->
  comp_res (h ++ r) v rest.
Proof.
  intros h n r v rest Hr Hh H. destruct (stake n r) as [[s q]|] eqn:E; [|discriminate]. inversion H; subst.
  destruct (stake_some _ _ _ _ E) as [-> Hl]. apply Forall_app in Hr. destruct Hr as [_ Hq].
  exists (SBin s), (h ++ s). repeat apply conj; [rewrite app_assoc; reflexivity|apply Hh; exact Hl|reflexivity|exact Hq].
Qed.

Lemma fin_ext : forall h n r v rest, bytes r ->
  (forall ty data, slen data = n -> (-128 <= ty <= 127)%Z -> ser_ext ty data (h ++ [tc 8 ty] ++ data)) ->
  sdec_ext n r = Some (v, rest) -> comp_res (h ++ r) v rest.
Proof.
  intros h n r v rest Hr Hh H.
  destruct (comp_ext _ _ _ _ Hr H) as (t & data & -> & Hl & Ht & Hrg & Etc & Hd & Hq).
  exists (SExt (sint 8 t) data), (h ++ [tc 8 (sint 8 t)] ++ data). split; [|split; [|split]].
  - rewrite Etc. rewrite <- !app_assoc. reflexivity.
  - apply Hh; assumption.
  - exact Hd.
  - exact Hq.
Qed.

Ltac open_sunum H k Hr :=
  match type of H with
  | context [sunum ?kk ?r] =>
      let u := fresh "u" in let q := fresh "q" in let E := fresh "E" in
      let Hu := fresh "Hu" in let Hq := fresh "Hq" in
      destruct (sunum kk r) as [[u q]|] eqn:E; [|discriminate H];
      destruct (sunum_some k _ _ _ E Hr) as (-> & Hu & Hq)
  end.

Lemma comp_step : forall f, comp_seq f -> comp_pairs f -> comp_dec (S f).
Proof.
  intros f IS IP b v rest Hb H. destruct b as [|c r]; [discriminate|].
  inversion Hb as [|? ? Hc Hr]; subst. unfold byte in Hc.
  cbn [sdec] in H. revert H.
  destruct (N.leb_spec c 0x7f) as [L1|L1].
  { intros H. inversion H; subst. exists (SInt (Z.of_N c)), [c]. repeat apply conj; try reflexivity; try assumption.
    cbn [ser]. left. split; [lia|]. rewrite N2Z.id. reflexivity. }
  destruct (N.leb_spec c 0x8f) as [L2|L2].
  { intros H. apply (fin_map f [c] (c - 0x80) r v rest IP Hr); [|exact H]. left. split; [lia|f_equal; lia]. }
  destruct (N.leb_spec c 0x9f) as [L3|L3].
  { intros H. apply (fin_arr f [c] (c - 0x90) r v rest IS Hr); [|exact H]. left. split; [lia|f_equal; lia]. }
  destruct (N.leb_spec c 0xbf) as [L4|L4].
  { intros H. apply (fin_str [c] (c - 0xa0) r v rest Hr); [|exact H].
    intros s Hs. left. rewrite Hs. split; [lia|]. cbn [app]. f_equal. lia. }
  destruct (N.eqb_spec c 0xc0) as [->|N0].
  { intros H. inversion H; subst. exists SNil, [0xc0]. repeat apply conj; try reflexivity; assumption. }
  destruct (N.eqb_spec c 0xc1) as [->|N1]; [discriminate|].
  destruct (N.eqb_spec c 0xc2) as [->|N2].
  { intros H. inversion H; subst. exists (SBool false), [0xc2]. repeat apply conj; try reflexivity; assumption. }
  destruct (N.eqb_spec c 0xc3) as [->|N3].
  { intros H. inversion H; subst. exists (SBool true), [0xc3]. repeat apply conj; try reflexivity; assumption. }
  destruct (N.eqb_spec c 0xc4) as [->|N4].
  { intros H. open_sunum H 1%nat Hr. change (256 ^ N.of_nat 1) with 256 in Hu.
    apply (fin_bin (0xc4 :: sbe 1 u) u q v rest Hq); [|exact H].
    intros s Hs. left. rewrite Hs. split; [change (2 ^ 8) with 256; lia|reflexivity]. }
  destruct (N.eqb_spec c 0xc5) as [->|N5].
  { intros H. open_sunum H 2%nat Hr. change (256 ^ N.of_nat 2) with 65536 in Hu.
    apply (fin_bin (0xc5 :: sbe 2 u) u q v rest Hq); [|exact H].
    intros s Hs. right; left. rewrite Hs. split; [change (2 ^ 16) with 65536; lia|reflexivity]. }
  destruct (N.eqb_spec c 0xc6) as [->|N6].
  { intros H. open_sunum H 4%nat Hr. change (256 ^ N.of_nat 4) with 4294967296 in Hu.
    apply (fin_bin (0xc6 :: sbe 4 u) u q v rest Hq); [|exact H].
    intros s Hs. right; right. rewrite Hs. split; [change (2 ^ 32) with 4294967296; lia|reflexivity]. }
  destruct (N.eqb_spec c 0xc7) as [->|N7].
  { intros H. open_sunum H 1%nat Hr. change (256 ^ N.of_nat 1) with 256 in Hu.
    apply (fin_ext (0xc7 :: sbe 1 u) u q v rest Hq); [|exact H].
    intros ty data Hs Hty. split; [exact Hty|]. do 5 right; left. rewrite Hs. split; [change (2 ^ 8) with 256; lia|reflexivity]. }
  destruct (N.eqb_spec c 0xc8) as [->|N8].
  { intros H. open_sunum H 2%nat Hr. change (256 ^ N.of_nat 2) with 65536 in Hu.
    apply (fin_ext (0xc8 :: sbe 2 u) u q v rest Hq); [|exact H].
    intros ty data Hs Hty. split; [exact Hty|]. do 6 right; left. rewrite Hs. split; [change (2 ^ 16) with 65536; lia|reflexivity]. }
  destruct (N.eqb_spec c 0xc9) as [->|N9].
  { intros H. open_sunum H 4%nat Hr. change (256 ^ N.of_nat 4) with 4294967296 in Hu.
    apply (fin_ext (0xc9 :: sbe 4 u) u q v rest Hq); [|exact H].
    intros ty data Hs Hty. split; [exact Hty|]. do 7 right. rewrite Hs. split; [change (2 ^ 32) with 4294967296; lia|reflexivity]. }
  destruct (N.eqb_spec c 0xca) as [->|Na].
  { intros H. open_sunum H 4%nat Hr. inversion H; subst. exists (SF32 u), (0xca :: sbe 4 u).
    repeat apply conj; try reflexivity; try assumption. }
  destruct (N.eqb_spec c 0xcb) as [->|Nb].
  { intros H. open_sunum H 8%nat Hr. inversion H; subst. exists (SF64 u), (0xcb :: sbe 8 u).
    repeat apply conj; try reflexivity; try assumption. }
  destruct (N.eqb_spec c 0xcc) as [->|Nc].
  { intros H. open_sunum H 1%nat Hr. change (256 ^ N.of_nat 1) with 256 in Hu. inversion H; subst.
    exists (SInt (Z.of_N u)), (0xcc :: sbe 1 u). repeat apply conj; try reflexivity; try assumption.
    cbn [ser]. do 2 right; left. rewrite N2Z.id. split; [change (2 ^ 8)%Z with 256%Z; lia|reflexivity]. }
  destruct (N.eqb_spec c 0xcd) as [->|Nd].
  { intros H. open_sunum H 2%nat Hr. change (256 ^ N.of_nat 2) with 65536 in Hu. inversion H; subst.
    exists (SInt (Z.of_N u)), (0xcd :: sbe 2 u). repeat apply conj; try reflexivity; try assumption.
    cbn [ser]. do 3 right; left. rewrite N2Z.id. split; [change (2 ^ 16)%Z with 65536%Z; lia|reflexivity]. }
  destruct (N.eqb_spec c 0xce) as [->|Ne].
  { intros H. open_sunum H 4%nat Hr. change (256 ^ N.of_nat 4) with 4294967296 in Hu. inversion H; subst.
    exists (SInt (Z.of_N u)), (0xce :: sbe 4 u). repeat apply conj; try reflexivity; try assumption.
    cbn [ser]. do 4 right; left. rewrite N2Z.id. split; [change (2 ^ 32)%Z with 4294967296%Z; lia|reflexivity]. }
  destruct (N.eqb_spec c 0xcf) as [->|Nf].
  { intros H. open_sunum H 8%nat Hr. change (256 ^ N.of_nat 8) with 18446744073709551616 in Hu. inversion H; subst.
    exists (SInt (Z.of_N u)), (0xcf :: sbe 8 u). repeat apply conj; try reflexivity; try assumption.
    cbn [ser]. do 5 right; left. rewrite N2Z.id. split; [change (2 ^ 64)%Z with 18446744073709551616%Z; lia|reflexivity]. }
  destruct (N.eqb_spec c 0xd0) as [->|Nd0].
  { intros H. open_sunum H 1%nat Hr. change (256 ^ N.of_nat 1) with 256 in Hu. inversion H; subst.
    destruct (tc_sint_8 u Hu) as [Et Hrg].
    exists (SInt (sint 8 u)), (0xd0 :: sbe 1 u). repeat apply conj; try reflexivity; try assumption.
    cbn [ser]. do 6 right; left. rewrite Et. split; [change (2 ^ 7)%Z with 128%Z; lia|reflexivity]. }
  destruct (N.eqb_spec c 0xd1) as [->|Nd1].
  { intros H. open_sunum H 2%nat Hr. change (256 ^ N.of_nat 2) with 65536 in Hu. inversion H; subst.
    destruct (tc_sint_16 u Hu) as [Et Hrg].
    exists (SInt (sint 16 u)), (0xd1 :: sbe 2 u). repeat apply conj; try reflexivity; try assumption.
    cbn [ser]. do 7 right; left. rewrite Et. split; [change (2 ^ 15)%Z with 32768%Z; lia|reflexivity]. }
  destruct (N.eqb_spec c 0xd2) as [->|Nd2].
  { intros H. open_sunum H 4%nat Hr. change (256 ^ N.of_nat 4) with 4294967296 in Hu. inversion H; subst.
    destruct (tc_sint_32 u Hu) as [Et Hrg].
    exists (SInt (sint 32 u)), (0xd2 :: sbe 4 u). repeat apply conj; try reflexivity; try assumption.
    cbn [ser]. do 8 right; left. rewrite Et. split; [change (2 ^ 31)%Z with 2147483648%Z; lia|reflexivity]. }
  destruct (N.eqb_spec c 0xd3) as [->|Nd3].
  { intros H. open_sunum H 8%nat Hr. change (256 ^ N.of_nat 8) with 18446744073709551616 in Hu. inversion H; subst.
    destruct (tc_sint_64 u Hu) as [Et Hrg].
    exists (SInt (sint 64 u)), (0xd3 :: sbe 8 u). repeat apply conj; try reflexivity; try assumption.
    cbn [ser]. do 9 right. rewrite Et. split; [change (2 ^ 63)%Z with 9223372036854775808%Z; lia|reflexivity]. }
  destruct (N.eqb_spec c 0xd4) as [->|Nd4].
  { intros H. apply (fin_ext [0xd4] 1 r v rest Hr); [|exact H].
    intros ty data Hs Hty. split; [exact Hty|]. left. split; [exact Hs|reflexivity]. }
  destruct (N.eqb_spec c 0xd5) as [->|Nd5].
  { intros H. apply (fin_ext [0xd5] 2 r v rest Hr); [|exact H].
    intros ty data Hs Hty. split; [exact Hty|]. right; left. split; [exact Hs|reflexivity]. }
  destruct (N.eqb_spec c 0xd6) as [->|Nd6].
  { intros H. apply (fin_ext [0xd6] 4 r v rest Hr); [|exact H].
    intros ty data Hs Hty. split; [exact Hty|]. do 2 right; left. split; [exact Hs|reflexivity]. }
  destruct (N.eqb_spec c 0xd7) as [->|Nd7].
  { intros H. apply (fin_ext [0xd7] 8 r v rest Hr); [|exact H].
    intros ty data Hs Hty. split; [exact Hty|]. do 3 right; left. split; [exact Hs|reflexivity]. }
  destruct (N.eqb_spec c 0xd8) as [->|Nd8].
  { intros H. apply (fin_ext [0xd8] 16 r v rest Hr); [|exact H].
    intros ty data Hs Hty. split; [exact Hty|]. do 4 right; left. split; [exact Hs|reflexivity]. }
  destruct (N.eqb_spec c 0xd9) as [->|Nd9].
  { intros H. open_sunum H 1%nat Hr. change (256 ^ N.of_nat 1) with 256 in Hu.
    apply (fin_str (0xd9 :: sbe 1 u) u q v rest Hq); [|exact H].
    intros s Hs. right; left. rewrite Hs. split; [change (2 ^ 8) with 256; lia|reflexivity]. }
  destruct (N.eqb_spec c 0xda) as [->|Nda].
  { intros H. open_sunum H 2%nat Hr. change (256 ^ N.of_nat 2) with 65536 in Hu.
    apply (fin_str (0xda :: sbe 2 u) u q v rest Hq); [|exact H].
    intros s Hs. do 2 right; left. rewrite Hs. split; [change (2 ^ 16) with 65536; lia|reflexivity]. }
  destruct (N.eqb_spec c 0xdb) as [->|Ndb].
  { intros H. open_sunum H 4%nat Hr. change (256 ^ N.of_nat 4) with 4294967296 in Hu.
    apply (fin_str (0xdb :: sbe 4 u) u q v rest Hq); [|exact H].
    intros s Hs. do 3 right. rewrite Hs. split; [change (2 ^ 32) with 4294967296; lia|reflexivity]. }
  destruct (N.eqb_spec c 0xdc) as [->|Ndc].
  { intros H. open_sunum H 2%nat Hr. change (256 ^ N.of_nat 2) with 65536 in Hu.
    apply (fin_arr f (0xdc :: sbe 2 u) u q v rest IS Hq); [|exact H].
    right; left. split; [change (2 ^ 16) with 65536; lia|reflexivity]. }
  destruct (N.eqb_spec c 0xdd) as [->|Ndd].
  { intros H. open_sunum H 4%nat Hr. change (256 ^ N.of_nat 4) with 4294967296 in Hu.
    apply (fin_arr f (0xdd :: sbe 4 u) u q v rest IS Hq); [|exact H].
    right; right. split; [change (2 ^ 32) with 4294967296; lia|reflexivity]. }
  destruct (N.eqb_spec c 0xde) as [->|Nde].
  { intros H. open_sunum H 2%nat Hr. change (256 ^ N.of_nat 2) with 65536 in Hu.
    apply (fin_map f (0xde :: sbe 2 u) u q v rest IP Hq); [|exact H].
    right; left. split; [change (2 ^ 16) with 65536; lia|reflexivity]. }
  destruct (N.eqb_spec c 0xdf) as [->|Ndf].
  { intros H. open_sunum H 4%nat Hr. change (256 ^ N.of_nat 4) with 4294967296 in Hu.
    apply (fin_map f (0xdf :: sbe 4 u) u q v rest IP Hq); [|exact H].
    right; right. split; [change (2 ^ 32) with 4294967296; lia|reflexivity]. }
  destruct (N.leb_spec c 0xff) as [L5|L5]; [|discriminate].
  intros H. inversion H; subst. exists (SInt (Z.of_N c - 256)), [c]. repeat apply conj; try reflexivity; try assumption.
  cbn [ser]. right; left. split; [lia|]. f_equal. lia.
Qed.

Lemma comp_all : forall f, comp_dec f /\ comp_seq f /\ comp_pairs f.
Proof.
  induction f as [|f [ID [IS IP]]].
  - repeat apply conj.
    + intros b v rest _ H. discriminate.
    + intros n b l rest Hb H. cbn [sdec_seq] in H. destruct (N.eqb_spec n 0) as [->|]; [|discriminate].
      inversion H; subst. exists [], []. repeat apply conj; try reflexivity; assumption.
    + intros n b l rest Hb H. cbn [sdec_pairs] in H. destruct (N.eqb_spec n 0) as [->|]; [|discriminate].
      inversion H; subst. exists [], []. repeat apply conj; try reflexivity; assumption.
  - repeat apply conj.
    + apply comp_step; assumption.
    + intros n b l rest Hb H. destruct (N.eqb_spec n 0) as [->|Hn].
      { rewrite sdec_seq_0 in H. inversion H; subst. exists [], []. repeat apply conj; try reflexivity; assumption. }
      rewrite sdec_seq_S in H by assumption.
      destruct (sdec f b) as [[x r]|] eqn:E1; [|discriminate].
      destruct (sdec_seq f (n - 1) r) as [[xs q]|] eqn:E2; [|discriminate]. inversion H; subst.
      destruct (ID _ _ _ Hb E1) as (x0 & w1 & -> & Hs1 & Hd1 & Hr).
      destruct (IS _ _ _ _ Hr E2) as (l0 & ws & -> & Hs2 & Hd2 & Hn2 & Hq).
      exists (x0 :: l0), (w1 :: ws). repeat apply conj.
      * cbn [concat]. rewrite app_assoc. reflexivity.
      * exact Hs1.
      * exact Hs2.
      * rewrite sden_list_cons, Hd1, Hd2. reflexivity.
      * unfold slen in *. cbn [length]. lia.
      * exact Hq.
    + intros n b l rest Hb H. destruct (N.eqb_spec n 0) as [->|Hn].
      { rewrite sdec_pairs_0 in H. inversion H; subst. exists [], []. repeat apply conj; try reflexivity; assumption. }
      rewrite sdec_pairs_S in H by assumption.
      destruct (sdec f b) as [[k r]|] eqn:E1; [|discriminate].
      destruct (sdec f r) as [[v r']|] eqn:E2; [|discriminate].
      destruct (sdec_pairs f (n - 1) r') as [[xs q]|] eqn:E3; [|discriminate]. inversion H; subst.
      destruct (ID _ _ _ Hb E1) as (k0 & wk & -> & Hsk & Hdk & Hr).
      destruct (ID _ _ _ Hr E2) as (v0 & wv & -> & Hsv & Hdv & Hr').
      destruct (IP _ _ _ _ Hr' E3) as (l0 & ws & -> & Hs2 & Hd2 & Hn2 & Hq).
      exists ((k0, v0) :: l0), ((wk ++ wv) :: ws). repeat apply conj.
      * cbn [concat]. rewrite <- !app_assoc. reflexivity.
      * exists wk, wv. repeat apply conj; [exact Hsk|exact Hsv|reflexivity].
      * exact Hs2.
      * rewrite sden_pairs_cons. cbn [fst snd]. rewrite Hdk, Hdv, Hd2. reflexivity.
      * unfold slen in *. cbn [length]. lia.
      * exact Hq.
Qed.

Lemma spec_complete : forall f b v rest, bytes b -> sdec f b = Some (v, rest) ->
  exists v0 b0, b = b0 ++ rest /\ ser v0 b0 /\ sden v0 = Some v.
Proof.
  intros f b v rest Hb H. destruct (proj1 (comp_all f) b v rest Hb H) as (v0 & b0 & E & Hs & Hd & _).
  exists v0, b0. repeat apply conj; assumption.
Qed.

(* the decoder and the relation describe the same format: on byte lists,
   sdec b = Some (v, rest)  <->  b = b0 ++ rest for a serialisation b0 of a value denoting v *)
Lemma spec_iff : forall b v rest, bytes b ->
  ((exists f, sdec f b = Some (v, rest)) <-> (exists v0 b0, b = b0 ++ rest /\ ser v0 b0 /\ sden v0 = Some v)).
Proof.
  intros b v rest Hb. split.
  - intros [f H]. exact (spec_complete f b v rest Hb H).
  - intros (v0 & b0 & -> & Hs & Hd). exists (2 * length b0)%nat.
    rewrite (spec_sound v0 b0 _ rest Hs (le_n _)), Hd. reflexivity.
Qed.

(* with v itself in place of "a value denoting v" completeness fails: extension type -1 behind a
   head the three timestamp formats do not use *)
Lemma spec_strict_refuted :
  exists b v rest, bytes b /\ sdec 2 b = Some (v, rest) /\ ~ (exists b0, b = b0 ++ rest /\ ser v b0).
Proof.
  exists [0xc7; 4; 0xff; 0; 0; 0; 1], (STime 1 0), []. repeat apply conj.
  - repeat constructor.
  - vm_compute. reflexivity.
  - intros [b0 [E H]]. rewrite app_nil_r in E. subst b0. cbn [ser] in H. unfold ser_time in H.
    destruct H as [[_ [_ H]]|[[_ [_ H]]|[_ [_ H]]]]; cbn [app] in H; discriminate H.
Qed.

(* C10/LeafTie — the hand-written integer models of Wire/CborFloat.v and Wire/Cbor.v that the
   C10 theorems are about EQUAL the functions the translator regenerates from the current source
   of helper.go on every run (Gen/Leaf2.v), on the whole domain of their Go types:

     half_to_f32  = halfFloatToFloatBits   (all 65536 uint16; the Go loop needs at most 10 turns:
                                            for every fuel >= 11 the translation returns Ok, never OutOfFuel)
     f32_to_half  = floatToHalfFloatBits   (all 2^32 uint32, by proof)
     be_put 2/4/8 = bigen.PutUint16/32/64  (all uint16 / uint32 / uint64)
     be_get       = bigen.Uint16/32/64     (all [2]byte / [4]byte / [8]byte)

   An edit of one of these Go functions that changes its behaviour changes Gen/Leaf2.v and breaks
   the corresponding lemma below (and with it C10_half_src_tie). *)
From Coq Require Import List NArith ZArith Lia Bool Arith.
From Coq Require Import ZifyN ZifyNat ZifyBool.
From Verif Require Import Base.Word Base.Outcome Gen.Leaf2 Wire.CborFloat Wire.Cbor.
Import ListNotations.
Open Scope Z_scope.

(* ------------------------------------------------------------------ *)
(* N <-> Z for the bit operations *)
Lemma ofN_land : forall a b, Z.of_N (N.land a b) = Z.land (Z.of_N a) (Z.of_N b).
Proof. intros [|p] [|q]; reflexivity. Qed.

Lemma ofN_lor : forall a b, Z.of_N (N.lor a b) = Z.lor (Z.of_N a) (Z.of_N b).
Proof. intros [|p] [|q]; reflexivity. Qed.

Lemma ofN_shiftr : forall a n, Z.of_N (N.shiftr a n) = shr (Z.of_N a) (Z.of_N n).
Proof.
  intros a n. unfold shr. apply Z.bits_inj'. intros k Hk.
  rewrite Z.testbit_of_N' by lia. rewrite Z.shiftr_spec by lia. rewrite N.shiftr_spec'.
  rewrite Z.testbit_of_N' by lia. f_equal. lia.
Qed.

Lemma ofN_shiftl : forall a n, Z.of_N (N.shiftl a n) = shl (Z.of_N a) (Z.of_N n).
Proof.
  intros a n. unfold shl. rewrite Z.shiftl_mul_pow2 by lia. rewrite N.shiftl_mul_pow2.
  rewrite N2Z.inj_mul, N2Z.inj_pow. reflexivity.
Qed.

Lemma ofN_eqb : forall a b, (Z.of_N a =? Z.of_N b) = (a =? b)%N.
Proof.
  intros a b. destruct (N.eqb_spec a b) as [-> | H]; [apply Z.eqb_refl |].
  apply Z.eqb_neq. intro E. apply N2Z.inj in E. contradiction.
Qed.

Lemma wrapu_ofN : forall w a, wrapu (Z.of_N w) (Z.of_N a) = Z.of_N (a mod 2 ^ w).
Proof. intros w a. unfold wrapu. rewrite N2Z.inj_mod, N2Z.inj_pow. reflexivity. Qed.

(* ------------------------------------------------------------------ *)
(* halfFloatToFloatBits *)

(* more fuel does not change an answer *)
(* proved without naming the loop condition or the order of the two state variables (the translator lists them
   in declaration order: swapping the independent initialisations of m and e swaps the arguments) *)
Lemma half_loop_mono : forall f k a b r,
  halfFloatToFloatBits_loop1 f a b = Ok r -> halfFloatToFloatBits_loop1 (f + k) a b = Ok r.
Proof.
  induction f as [| f IH]; intros k a b r H; [discriminate |].
  cbn [halfFloatToFloatBits_loop1 Nat.add] in *. revert H.
  match goal with |- context [if ?c then _ else _] => destruct c end; intro H; [apply IH; exact H | exact H].
Qed.

Lemma half_mono : forall f k h r,
  halfFloatToFloatBits f h = Ok r -> halfFloatToFloatBits (f + k) h = Ok r.
Proof.
  intros f k h r. unfold halfFloatToFloatBits. cbv zeta.
  repeat match goal with |- context [if ?c then _ else _] =>
    lazymatch c with context [halfFloatToFloatBits_loop1] => fail | _ => destruct c end end; try (intro H; exact H).
  destruct (halfFloatToFloatBits_loop1 f _ _) as [[m e] | |] eqn:E; try discriminate.
  rewrite (half_loop_mono _ k _ _ _ E). intro H; exact H.
Qed.

Definition res_is (r : res Z) (v : N) : bool :=
  match r with Ok z => z =? Z.of_N v | _ => false end.

Definition half_tie_ok (h : N) : bool := res_is (halfFloatToFloatBits 11 (Z.of_N h)) (half_to_f32 h).

Lemma half_tie_sweep :
  forallb (fun hi => forallb (fun lo => half_tie_ok (N.of_nat hi * 256 + N.of_nat lo)) (seq 0 256)) (seq 0 256) = true.
Proof. vm_compute. reflexivity. Qed.

Lemma sweep16 : forall P : N -> bool,
  forallb (fun hi => forallb (fun lo => P (N.of_nat hi * 256 + N.of_nat lo)%N) (seq 0 256)) (seq 0 256) = true ->
  forall h, (h < 65536)%N -> P h = true.
Proof.
  intros P S h Hh.
  rewrite forallb_forall in S.
  specialize (S (N.to_nat (h / 256))).
  assert (Hin : In (N.to_nat (h / 256)) (seq 0 256)).
  { apply in_seq. assert (h / 256 < 256)%N by (apply N.div_lt_upper_bound; lia). lia. }
  specialize (S Hin). rewrite forallb_forall in S.
  specialize (S (N.to_nat (h mod 256))).
  assert (Hin2 : In (N.to_nat (h mod 256)) (seq 0 256)).
  { apply in_seq. assert (h mod 256 < 256)%N by (apply N.mod_lt; lia). lia. }
  specialize (S Hin2). rewrite !N2Nat.id in S.
  replace (h / 256 * 256 + h mod 256)%N with h in S; [exact S |].
  rewrite N.mul_comm. apply N.div_mod. lia.
Qed.

Lemma half_to_f32_tie : forall h, (h < 65536)%N -> forall fuel, (11 <= fuel)%nat ->
  halfFloatToFloatBits fuel (Z.of_N h) = Ok (Z.of_N (half_to_f32 h)).
Proof.
  intros h Hh fuel Hf. pose proof (sweep16 half_tie_ok half_tie_sweep h Hh) as S.
  unfold half_tie_ok, res_is in S.
  destruct (halfFloatToFloatBits 11 (Z.of_N h)) as [z | |] eqn:E; try discriminate.
  apply Z.eqb_eq in S. subst z.
  replace fuel with (11 + (fuel - 11))%nat by lia. apply half_mono. exact E.
Qed.

(* ------------------------------------------------------------------ *)
(* floatToHalfFloatBits: all 2^32 inputs *)

Lemma e_tie : forall x, 0 <= x <= 255 -> wraps 32 (wrapu 32 (x - 112)) = x - 112.
Proof.
  intros x Hx. rewrite <- (wraps_id 32 (x - 112)) at 2.
  - unfold wraps, wrapu. change (2 ^ (32 - 1)) with 2147483648. change (2 ^ 32) with 4294967296.
    rewrite Zplus_mod_idemp_l. reflexivity.
  - lia.
  - unfold in_s. change (2 ^ (32 - 1)) with 2147483648. lia.
Qed.

Lemma wrapu16_ofN : forall a, Z.of_N (a mod 65536) = wrapu 16 (Z.of_N a).
Proof. intros a. rewrite N2Z.inj_mod. reflexivity. Qed.

Lemma land_mask_lt : forall a k, (N.land a (N.ones k) < 2 ^ k)%N.
Proof. intros a k. rewrite N.land_ones. apply N.mod_lt. apply N.pow_nonzero. discriminate. Qed.

Lemma wrapu32_small : forall z, 0 <= z < 4294967296 -> wrapu 32 z = z.
Proof. intros z H. apply wrapu_id. unfold in_u. change (2 ^ 32) with 4294967296. exact H. Qed.

Lemma wraps32_small : forall z, -2147483648 <= z < 2147483648 -> wraps 32 z = z.
Proof. intros z H. apply wraps_id; [lia |]. unfold in_s. change (2 ^ (32 - 1)) with 2147483648. exact H. Qed.

Lemma ofN_eqb0 : forall a, (Z.of_N a =? 0) = (a =? 0)%N.
Proof. intros a. change 0 with (Z.of_N 0). apply ofN_eqb. Qed.

Lemma f32_to_half_tie : forall i, (i < 4294967296)%N ->
  floatToHalfFloatBits (Z.of_N i) = Z.of_N (f32_to_half i).
Proof.
  intros i Hi. unfold floatToHalfFloatBits, f32_to_half. cbv zeta.
  assert (Hs : Z.land (shr (Z.of_N i) 16) 32768 = Z.of_N (N.land (N.shiftr i 16) 32768))
    by (rewrite ofN_land, ofN_shiftr; reflexivity).
  assert (Hm : Z.land (Z.of_N i) 8388607 = Z.of_N (N.land i 8388607)) by (rewrite ofN_land; reflexivity).
  assert (He : Z.land (shr (Z.of_N i) 23) 255 = Z.of_N (N.land (N.shiftr i 23) 255))
    by (rewrite ofN_land, ofN_shiftr; reflexivity).
  rewrite Hs, Hm, He. clear Hs Hm He.
  pose proof (land_mask_lt (N.shiftr i 23) 8) as Hx. change (N.ones 8) with 255%N in Hx. change (2 ^ 8)%N with 256%N in Hx.
  pose proof (land_mask_lt i 23) as Hmr. change (N.ones 23) with 8388607%N in Hmr. change (2 ^ 23)%N with 8388608%N in Hmr.
  set (s := N.land (N.shiftr i 16) 32768) in *.
  set (m := N.land i 8388607) in *.
  set (x := N.land (N.shiftr i 23) 255) in *.
  rewrite e_tie by lia.
  remember (Z.of_N x - 112) as e eqn:Ee.
  assert (Her : -112 <= e <= 143) by lia.
  clearbody s m x. clear Ee Hx x Hi i.
  rewrite wrapu16_ofN.
  rewrite Z.gtb_ltb.
  replace (shr (Z.of_N m) 13) with (Z.of_N (N.shiftr m 13)) by (rewrite ofN_shiftr; reflexivity).
  rewrite !ofN_eqb0.
  destruct (e <=? 0) eqn:E1.
  - apply Z.leb_le in E1. destruct (e <? -10) eqn:E2; [reflexivity |]. apply Z.ltb_ge in E2.
    rewrite wraps32_small by lia. rewrite wrapu32_small by lia.
    rewrite ofN_lor, !ofN_shiftr, ofN_lor. rewrite Z2N.id by lia. reflexivity.
  - apply Z.leb_gt in E1. destruct (e =? 143) eqn:E3.
    + destruct (m =? 0)%N; [rewrite ofN_lor; reflexivity |].
      destruct (N.shiftr m 13 =? 0)%N; rewrite !ofN_lor; reflexivity.
    + destruct (30 <? e) eqn:E4; [rewrite ofN_lor; reflexivity |]. apply Z.ltb_ge in E4.
      rewrite !ofN_lor, ofN_shiftl. rewrite Z2N.id by lia.
      rewrite (wrapu32_small e) by lia.
      rewrite wrapu32_small; [reflexivity |].
      unfold shl. rewrite Z.shiftl_mul_pow2 by lia. change (2 ^ Z.of_N 10) with 1024. lia.
Qed.

(* ------------------------------------------------------------------ *)
(* bigen.PutUintNN / bigen.UintNN = be_put / be_get of Wire/Cbor.v *)

(* byte k/8 of v, as the Go code computes it: byte(v >> k) *)
Lemma byte_at : forall v k, wrapu 8 (shr (Z.of_N v) (Z.of_N k)) = Z.of_N ((v / 2 ^ k) mod 256).
Proof.
  intros v k. unfold wrapu, shr. rewrite Z.shiftr_div_pow2 by lia.
  rewrite N2Z.inj_mod, N2Z.inj_div, N2Z.inj_pow. reflexivity.
Qed.

Lemma byte_0 : forall v, wrapu 8 (Z.of_N v) = Z.of_N (v mod 256).
Proof. intros v. unfold wrapu. rewrite N2Z.inj_mod. reflexivity. Qed.

Lemma put16_tie : forall v, (v < 65536)%N ->
  (let '(a, b) := bigenHelper_PutUint16 (Z.of_N v) in [a; b]) = map Z.of_N (be_put 2 v).
Proof.
  intros v _. unfold bigenHelper_PutUint16. cbv zeta. cbn [be_put app map].
  change 8 with (Z.of_N 8) at 2. rewrite byte_at, byte_0. reflexivity.
Qed.

Lemma put32_tie : forall v, (v < 4294967296)%N ->
  bigenHelper_PutUint32 (Z.of_N v) = map Z.of_N (be_put 4 v).
Proof.
  intros v _. unfold bigenHelper_PutUint32. cbv zeta. cbn [be_put app map].
  change 24 with (Z.of_N 24). change 16 with (Z.of_N 16). change (shr (Z.of_N v) 8) with (shr (Z.of_N v) (Z.of_N 8)).
  rewrite !byte_at, byte_0. rewrite !N.div_div by discriminate. reflexivity.
Qed.

Lemma put64_tie : forall v, (v < 18446744073709551616)%N ->
  bigenHelper_PutUint64 (Z.of_N v) = map Z.of_N (be_put 8 v).
Proof.
  intros v _. unfold bigenHelper_PutUint64. cbv zeta. cbn [be_put app map].
  change 56 with (Z.of_N 56). change 48 with (Z.of_N 48). change 40 with (Z.of_N 40). change 32 with (Z.of_N 32).
  change 24 with (Z.of_N 24). change 16 with (Z.of_N 16). change (shr (Z.of_N v) 8) with (shr (Z.of_N v) (Z.of_N 8)).
  rewrite !byte_at, byte_0. rewrite !N.div_div by discriminate. reflexivity.
Qed.

(* x | y<<k = x + y * 2^k when x < 2^k *)
Lemma lor_shl_add : forall x y k, 0 <= k -> 0 <= x < 2 ^ k -> 0 <= y -> Z.lor x (shl y k) = x + y * 2 ^ k.
Proof.
  intros x y k Hk Hx Hy. unfold shl. rewrite Z.shiftl_mul_pow2 by lia.
  assert (Hl : Z.land x (y * 2 ^ k) = 0).
  { apply Z.bits_inj'. intros n Hn. rewrite Z.land_spec, Z.bits_0.
    destruct (Z.ltb_spec n k) as [Hlt | Hge].
    - rewrite Z.mul_pow2_bits_low by lia. apply andb_false_r.
    - rewrite <- (Z.mod_small x (2 ^ k)) by lia. rewrite Z.mod_pow2_bits_high by lia. reflexivity. }
  rewrite <- Z.lxor_lor by exact Hl. symmetry. apply Z.add_nocarry_lxor. exact Hl.
Qed.

(* the same with the operands of | the other way round (`hi<<8 | lo` or `lo | hi<<8`) *)
Lemma lor_shl_add_c : forall x y k, 0 <= k -> 0 <= x < 2 ^ k -> 0 <= y -> Z.lor (shl y k) x = x + y * 2 ^ k.
Proof. intros x y k Hk Hx Hy. rewrite Z.lor_comm. apply lor_shl_add; assumption. Qed.

Lemma get16_tie : forall a b, (a < 256)%N -> (b < 256)%N ->
  bigenHelper_Uint16 (map Z.of_N [a; b]) = Z.of_N (be_get [a; b]).
Proof.
  intros a b Ha Hb. unfold bigenHelper_Uint16, be_get. cbv zeta. cbn [map nth fold_left].
  rewrite wrapu_id by (unfold in_u, shl; rewrite Z.shiftl_mul_pow2 by lia; lia).
  first [rewrite lor_shl_add by lia | rewrite lor_shl_add_c by lia]. lia.
Qed.

Lemma get32_tie : forall a b c d, (a < 256)%N -> (b < 256)%N -> (c < 256)%N -> (d < 256)%N ->
  bigenHelper_Uint32 (map Z.of_N [a; b; c; d]) = Z.of_N (be_get [a; b; c; d]).
Proof.
  intros a b c d Ha Hb Hc Hd. unfold bigenHelper_Uint32, be_get. cbv zeta. cbn [map nth fold_left].
  rewrite !wrapu_id by (unfold in_u, shl; rewrite Z.shiftl_mul_pow2 by lia; lia).
  rewrite (lor_shl_add _ _ 8) by lia. rewrite (lor_shl_add _ _ 16) by lia. rewrite (lor_shl_add _ _ 24) by lia. lia.
Qed.

Lemma get64_tie : forall a b c d e f g h,
  (a < 256)%N -> (b < 256)%N -> (c < 256)%N -> (d < 256)%N -> (e < 256)%N -> (f < 256)%N -> (g < 256)%N -> (h < 256)%N ->
  bigenHelper_Uint64 (map Z.of_N [a; b; c; d; e; f; g; h]) = Z.of_N (be_get [a; b; c; d; e; f; g; h]).
Proof.
  intros a b c d e f g h Ha Hb Hc Hd He Hf Hg Hh. unfold bigenHelper_Uint64, be_get. cbv zeta. cbn [map nth fold_left].
  rewrite !wrapu_id by (unfold in_u, shl; rewrite Z.shiftl_mul_pow2 by lia; lia).
  rewrite (lor_shl_add _ _ 8) by lia. rewrite (lor_shl_add _ _ 16) by lia. rewrite (lor_shl_add _ _ 24) by lia.
  rewrite (lor_shl_add _ _ 32) by lia. rewrite (lor_shl_add _ _ 40) by lia. rewrite (lor_shl_add _ _ 48) by lia.
  rewrite (lor_shl_add _ _ 56) by lia. lia.
Qed.

(* ------------------------------------------------------------------ *)
(* as used by Properties/C10_cbor.v *)
Lemma half_src_tie :
  (forall h : N, (h < 65536)%N -> forall fuel : nat, (11 <= fuel)%nat ->
     halfFloatToFloatBits fuel (Z.of_N h) = Ok (Z.of_N (half_to_f32 h))) /\
  (forall i : N, (i < 4294967296)%N -> floatToHalfFloatBits (Z.of_N i) = Z.of_N (f32_to_half i)).
Proof. split; [exact half_to_f32_tie | exact f32_to_half_tie]. Qed.

Lemma bigen_src_tie :
  (forall v, (v < 65536)%N ->
     (let '(a, b) := bigenHelper_PutUint16 (Z.of_N v) in [a; b]) = map Z.of_N (be_put 2 v)) /\
  (forall v, (v < 4294967296)%N -> bigenHelper_PutUint32 (Z.of_N v) = map Z.of_N (be_put 4 v)) /\
  (forall v, (v < 18446744073709551616)%N -> bigenHelper_PutUint64 (Z.of_N v) = map Z.of_N (be_put 8 v)) /\
  (forall a b, (a < 256)%N -> (b < 256)%N -> bigenHelper_Uint16 (map Z.of_N [a; b]) = Z.of_N (be_get [a; b])) /\
  (forall a b c d, (a < 256)%N -> (b < 256)%N -> (c < 256)%N -> (d < 256)%N ->
     bigenHelper_Uint32 (map Z.of_N [a; b; c; d]) = Z.of_N (be_get [a; b; c; d])) /\
  (forall a b c d e f g h,
     (a < 256)%N -> (b < 256)%N -> (c < 256)%N -> (d < 256)%N -> (e < 256)%N -> (f < 256)%N -> (g < 256)%N -> (h < 256)%N ->
     bigenHelper_Uint64 (map Z.of_N [a; b; c; d; e; f; g; h]) = Z.of_N (be_get [a; b; c; d; e; f; g; h])).
Proof.
  repeat apply conj; [exact put16_tie | exact put32_tie | exact put64_tie | exact get16_tie | exact get32_tie | exact get64_tie].
Qed.

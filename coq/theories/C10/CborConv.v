(* C10/CborConv — how the spec's data and syntax relate to the library's:
   go_of (the Go value, as an item, that carries the spec data under given decode options),
   lib_supports (the documented limits), tdepth (nesting as the decoder counts it),
   tree_of (the form choices the encoder makes).  Definitions only. *)
From Coq Require Import List NArith ZArith Lia Bool.
From Verif Require Import Base.Outcome Wire.Item Gen.Consts Wire.CborFloat Wire.Cbor C10.CborSpec.
Import ListNotations.
Open Scope N_scope.

(* the value Decode(&interface{}) must produce for the data x *)
Fixpoint go_of (D : dopts) (x : sdata) : item :=
  match x with
  | DUint n => if do_signed D then IInt (Z.of_N n) else IUint n
  | DNint n => IInt (-1 - Z.of_N n)
  | DBytes s => if do_raw2str D then IStr s else IBytes s
  | DText s => IStr s
  | DArr l => IArr (map (go_of D) l)
  | DMap l => IMap (map (fun kv => (keynorm (go_of D (fst kv)), go_of D (snd kv))) l)
  | DTag t v => if (t =? 55799) || do_skiptags D then go_of D v else ITag t (go_of D v)
  | DSimple v => if v =? 20 then IBool false else if v =? 21 then IBool true else INil
  | DFloat p b => if p =? 16 then IF64 (widen (spec_half b)) else if p =? 32 then IF64 (widen b) else IF64 b
  end.

(* map keys must be hashable Go values, pairwise different as Go compares them *)
Fixpoint keys_ok (D : dopts) (seen : list item) (l : list (wtree * wtree)) : Prop :=
  match l with
  | [] => True
  | kv :: r =>
      let k := keynorm (go_of D (data_of (fst kv))) in
      hashable k = true /\ existsb (key_eqb k) seen = false /\ keys_ok D (k :: seen) r
  end.

(* what the library documents as supported: 64-bit integers; simple values false, true, null,
   undefined; tags other than 0..5 (time and bignum tags are treated separately); map keys as above *)
Fixpoint lib_supports (D : dopts) (t : wtree) : Prop :=
  match t with
  | TUint _ n => do_signed D = true -> n < 9223372036854775808
  | TNint _ n => n < 9223372036854775808
  | TBytes _ s | TText _ s => N.of_nat (length s) < 9223372036854775808           (* lengths fit a Go int *)
  | TBytesI cs | TTextI cs => Forall (fun c => N.of_nat (length (snd c)) < 9223372036854775808) cs
  | TArr _ l | TArrI l => (fix go l := match l with [] => True | x :: r => lib_supports D x /\ go r end) l
                          /\ N.of_nat (length l) < 9223372036854775808
  | TMap _ l | TMapI l =>
      (fix go l := match l with [] => True | kv :: r => lib_supports D (fst kv) /\ lib_supports D (snd kv) /\ go r end) l
      /\ keys_ok D [] l /\ N.of_nat (length l) < 9223372036854775808
  | TTag _ t v => 5 < t /\ lib_supports D v
  | TSimple v => 20 <= v
  | TSimple1 _ => False
  | _ => True
  end.

(* nesting as decoderBase.depth counts it: containers, and tags that are kept *)
Fixpoint tdepth (D : dopts) (t : wtree) : Z :=
  match t with
  | TArr _ l | TArrI l => (1 + fold_right (fun x m => Z.max (tdepth D x) m) 0 l)%Z
  | TMap _ l | TMapI l => (1 + fold_right (fun kv m => Z.max (Z.max (tdepth D (fst kv)) (tdepth D (snd kv))) m) 0 l)%Z
  | TTag _ t v => if (t =? 55799) || do_skiptags D then tdepth D v else (1 + tdepth D v)%Z
  | _ => 0%Z
  end.

(* nesting as the skip walker counts it *)
Fixpoint sdepth (t : wtree) : Z :=
  match t with
  | TArr _ l | TArrI l => (1 + fold_right (fun x m => Z.max (sdepth x) m) 0 l)%Z
  | TMap _ l | TMapI l => (1 + fold_right (fun kv m => Z.max (Z.max (sdepth (fst kv)) (sdepth (snd kv))) m) 0 l)%Z
  | TTag _ _ v => (1 + sdepth v)%Z
  | _ => 0%Z
  end.

(* ---- the encoder's choices ---- *)
Definition minw (v : N) : width :=
  if v <=? 23 then W0 else if v <=? 255 then W1 else if v <=? 65535 then W2 else if v <=? 4294967295 then W4 else W8.

Definition str_tree (O : eopts) (text : bool) (s : list N) : wtree :=
  if eo_indef O then
    let cs := map (fun c => (minw (N.of_nat (length c)), c)) (chunks text (length s) (chunk_len (length s)) s) in
    if text then TTextI cs else TBytesI cs
  else if text then TText (minw (N.of_nat (length s))) s else TBytes (minw (N.of_nat (length s))) s.

Definition int_tree (z : Z) : wtree :=
  if (z <? 0)%Z then TNint (minw (Z.to_N (-1 - z))) (Z.to_N (-1 - z)) else TUint (minw (Z.to_N z)) (Z.to_N z).

(* OptimumSize: a float32 that survives the trip through half precision is written as a half, a
   float64 that survives the trip through single precision is handed to the float32 rule *)
Definition f32_tree (O : eopts) (b : N) : wtree :=
  if eo_optsize O && (half_to_f32 (f32_to_half b) =? b) then THalf (f32_to_half b) else TSingle b.
Definition f64_tree (O : eopts) (b : N) : wtree :=
  if eo_optsize O && f64_eq (widen (narrow b)) b then f32_tree O (narrow b) else TDouble b.

(* EncodeTime: nil for the zero time; tag 0 + RFC 3339 text; or tag 1 + epoch seconds (integer when
   the microsecond-rounded instant has no fraction, else a float) *)
Definition time_tree (O : eopts) (sec : Z) (nsec : N) : wtree :=
  if (sec =? zero_time_sec)%Z && (nsec =? 0) then TSimple 22
  else if eo_rfc3339 O then TTag W0 0 (str_tree O true (fmt_rfc3339 sec nsec))
  else
    let '(s1, n1) := round_us sec nsec in
    TTag W0 1 (if n1 =? 0 then int_tree s1
               else f64_tree O (f64_add (f64_of_Z s1) (f64_div (f64_of_Z (Z.of_N n1)) f64_1e9))).

(* the form choices of the encoder (IExt: RawExt.Data is written verbatim, see [plain]) *)
Fixpoint tree_of (O : eopts) (i : item) : wtree :=
  match i with
  | INil => TSimple 22
  | IBool b => TSimple (if b then 21 else 20)
  | IInt z => int_tree z
  | IUint n => TUint (minw n) n
  | IF32 b => f32_tree O b
  | IF64 b => f64_tree O b
  | IStr s => str_tree O (negb (eo_str2raw O)) s
  | IBytes s => str_tree O false s
  | IArr l => if eo_indef O then TArrI (map (tree_of O) l) else TArr (minw (N.of_nat (length l))) (map (tree_of O) l)
  | IMap l =>
      let l' := map (fun kv => (tree_of O (fst kv), tree_of O (snd kv))) l in
      if eo_indef O then TMapI l' else TMap (minw (N.of_nat (length l))) l'
  | ITag t v => TTag (minw t) t (tree_of O v)
  | IExt t _ => TSimple 22
  | ITime s n => time_tree O s n
  end.

(* the items for which [enc O i = ser (tree_of O i)] is claimed: everything but IExt (a RawExt with
   Data is copied verbatim: its well-formedness is the caller's, see C10_cbor_ext); lengths and tags
   are 64-bit, times have int64 seconds *)
Fixpoint plain (i : item) : Prop :=
  match i with
  | IArr l => (fix go l := match l with [] => True | x :: r => plain x /\ go r end) l
              /\ N.of_nat (length l) < 18446744073709551616
  | IMap l => (fix go l := match l with [] => True | kv :: r => plain (fst kv) /\ plain (snd kv) /\ go r end) l
              /\ N.of_nat (length l) < 18446744073709551616
  | ITag t v => t < 18446744073709551616 /\ plain v
  | IExt _ _ => False
  | ITime s _ => (- 9223372036854775808 <= s < 9223372036854775807)%Z
  | IStr s | IBytes s => N.of_nat (length s) < 18446744073709551616
  | _ => True
  end.

(* floats as values: a half or a single denotes the double it widens to (exact) *)
Fixpoint fnorm (x : sdata) : sdata :=
  match x with
  | DFloat p b => if p =? 16 then DFloat 64 (widen (spec_half b)) else if p =? 32 then DFloat 64 (widen b) else DFloat p b
  | DArr l => DArr (map fnorm l)
  | DMap l => DMap (map (fun kv => (fnorm (fst kv), fnorm (snd kv))) l)
  | DTag t v => DTag t (fnorm v)
  | _ => x
  end.

(* what the skip walker accepts: it rejects simple values other than false/true/null/undefined *)
Fixpoint skippable (t : wtree) : Prop :=
  match t with
  | TArr _ l | TArrI l => (fix go l := match l with [] => True | x :: r => skippable x /\ go r end) l
  | TMap _ l | TMapI l => (fix go l := match l with [] => True | kv :: r => skippable (fst kv) /\ skippable (snd kv) /\ go r end) l
  | TTag _ _ v => skippable v
  | TSimple v => 20 <= v
  | TSimple1 _ => False
  | _ => True
  end.

(* ------------------------------------------------------------------ *)
(* the same vocabulary extended to tag 0 (standard date/time string, RFC 8949 3.4.1): the library
   reads it as a time.Time.  The names above are kept as they are (tags 0..5 outside); the [_t]
   versions agree with them on every tree [lib_supports] admits (CborProofs.compat_t). *)
Definition text_of (t : wtree) : option (list N) :=
  match t with
  | TText _ s | TBytes _ s => Some s
  | TTextI cs | TBytesI cs => Some (flat_map snd cs)
  | _ => None
  end.

Definition time_item (s : list N) : item := match parse_rfc3339 s with Ok i => i | _ => INil end.

Fixpoint go_of_t (D : dopts) (x : sdata) : item :=
  match x with
  | DUint n => if do_signed D then IInt (Z.of_N n) else IUint n
  | DNint n => IInt (-1 - Z.of_N n)
  | DBytes s => if do_raw2str D then IStr s else IBytes s
  | DText s => IStr s
  | DArr l => IArr (map (go_of_t D) l)
  | DMap l => IMap (map (fun kv => (keynorm (go_of_t D (fst kv)), go_of_t D (snd kv))) l)
  | DTag t v =>
      if t =? 0 then match v with DText s | DBytes s => time_item s | _ => INil end
      else if (t =? 55799) || do_skiptags D then go_of_t D v else ITag t (go_of_t D v)
  | DSimple v => if v =? 20 then IBool false else if v =? 21 then IBool true else INil
  | DFloat p b => if p =? 16 then IF64 (widen (spec_half b)) else if p =? 32 then IF64 (widen b) else IF64 b
  end.

Fixpoint keys_ok_t (D : dopts) (seen : list item) (l : list (wtree * wtree)) : Prop :=
  match l with
  | [] => True
  | kv :: r =>
      let k := keynorm (go_of_t D (data_of (fst kv))) in
      hashable k = true /\ existsb (key_eqb k) seen = false /\ keys_ok_t D (k :: seen) r
  end.

Fixpoint lib_supports_t (D : dopts) (t : wtree) : Prop :=
  match t with
  | TUint _ n => do_signed D = true -> n < 9223372036854775808
  | TNint _ n => n < 9223372036854775808
  | TBytes _ s | TText _ s => N.of_nat (length s) < 9223372036854775808
  | TBytesI cs | TTextI cs => Forall (fun c => N.of_nat (length (snd c)) < 9223372036854775808) cs
  | TArr _ l | TArrI l => (fix go l := match l with [] => True | x :: r => lib_supports_t D x /\ go r end) l
                          /\ N.of_nat (length l) < 9223372036854775808
  | TMap _ l | TMapI l =>
      (fix go l := match l with [] => True | kv :: r => lib_supports_t D (fst kv) /\ lib_supports_t D (snd kv) /\ go r end) l
      /\ keys_ok_t D [] l /\ N.of_nat (length l) < 9223372036854775808
  | TTag _ t v =>
      (5 < t /\ lib_supports_t D v)
      \/ (t = 0 /\ lib_supports_t D v /\
          match text_of v with Some s => exists i, parse_rfc3339 s = Ok i | None => False end)
  | TSimple v => 20 <= v
  | TSimple1 _ => False
  | _ => True
  end.

Fixpoint tdepth_t (D : dopts) (t : wtree) : Z :=
  match t with
  | TArr _ l | TArrI l => (1 + fold_right (fun x m => Z.max (tdepth_t D x) m) 0 l)%Z
  | TMap _ l | TMapI l => (1 + fold_right (fun kv m => Z.max (Z.max (tdepth_t D (fst kv)) (tdepth_t D (snd kv))) m) 0 l)%Z
  | TTag _ t v => if t =? 0 then 0%Z else if (t =? 55799) || do_skiptags D then tdepth_t D v else (1 + tdepth_t D v)%Z
  | _ => 0%Z
  end.

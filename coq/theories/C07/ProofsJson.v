(* C07 — json integer fast path: parseUint64_reader (translated) scales an exact decimal
   mantissa by 10^exp only when the result is exact and fits a uint64 *)
From Coq Require Import List ZArith Bool Lia ZifyBool.
From Verif Require Import Base.Word Base.Outcome Base.FBits Gen.Consts Gen.Leaf C07.ProofsLeaf.
Import ListNotations.
Local Open Scope Z_scope.

Ltac Zify.zify_post_hook ::= Z.div_mod_to_equations.

Lemma pow10_tbl : forall i t, tbl_get tbl_uint64pow10 i = Ok t -> 0 <= i <= 19 /\ t = 10 ^ i.
Proof.
  intros i t H. unfold tbl_get in H. destruct (i <? 0) eqn:E; [discriminate|].
  destruct (nth_error tbl_uint64pow10 (Z.to_nat i)) as [v|] eqn:N; [|discriminate].
  inversion H; subst; clear H.
  assert (L : (Z.to_nat i < 20)%nat).
  { change 20%nat with (length tbl_uint64pow10). apply nth_error_Some. rewrite N. discriminate. }
  assert (i = 0 \/ i = 1 \/ i = 2 \/ i = 3 \/ i = 4 \/ i = 5 \/ i = 6 \/ i = 7 \/ i = 8 \/ i = 9 \/ i = 10
          \/ i = 11 \/ i = 12 \/ i = 13 \/ i = 14 \/ i = 15 \/ i = 16 \/ i = 17 \/ i = 18 \/ i = 19) as C by lia.
  repeat (destruct C as [-> | C]; [vm_compute in N; inversion N; split; [lia|reflexivity]|]).
  subst. vm_compute in N. inversion N. split; [lia|reflexivity].
Qed.

Lemma parseUint64_reader_spec : forall r f,
  0 <= readFloatResult_mantissa r < 2 ^ 64 -> - 128 <= readFloatResult_exp r < 128 ->
  parseUint64_reader r = Ok (f, false) ->
  0 <= f < 2 ^ 64 /\
  (0 <= readFloatResult_exp r -> f = readFloatResult_mantissa r * 10 ^ readFloatResult_exp r) /\
  (readFloatResult_exp r < 0 -> readFloatResult_mantissa r = f * 10 ^ (- readFloatResult_exp r)).
Proof.
  intros r f Hm He H. unfold parseUint64_reader in H.
  set (m := readFloatResult_mantissa r) in *. set (e := readFloatResult_exp r) in *.
  cbv zeta in H.
  destruct (e =? 0) eqn:E0.
  { inversion H; subst. assert (e = 0) by lia. rewrite H0. cbn. lia. }
  destruct (e <? 0) eqn:E1.
  - destruct (tbl_get tbl_uint64pow10 (wrapu 8 (wraps 8 (- e)))) as [t| |] eqn:T; cbn [bind] in H; try discriminate.
    apply pow10_tbl in T. destruct T as [Ti ->].
    assert (Hi : wrapu 8 (wraps 8 (- e)) = - e).
    { unfold wrapu, wraps in *. pows. lia. }
    rewrite Hi in *.
    assert (0 < 10 ^ (- e)) by (apply Z.pow_pos_nonneg; lia).
    set (P := 10 ^ (- e)) in *. clearbody P.
    destruct (P =? 0) eqn:Z0; [lia|].
    unfold rem, quot, wrapu in H. rewrite Z.rem_mod_nonneg, Z.quot_div_nonneg in H by lia.
    pows. destruct (negb (m mod P mod 18446744073709551616 =? 0)) eqn:R; [inversion H|].
    cbn [bind] in H. inversion H; subst; clear H.
    assert (m mod P = 0).
    { pose proof (Z.mod_pos_bound m P ltac:(lia)). pose proof (Z.mod_le m P ltac:(lia) ltac:(lia)).
      rewrite Z.mod_small in R by lia. lia. }
    pose proof (Z.div_mod m P ltac:(lia)) as D.
    assert (0 <= m / P <= m) by (split; [apply Z.div_pos; lia|apply Z.div_le_upper_bound; nia]).
    rewrite Z.mod_small by lia. split; [lia|]. split; [lia|]. intros _. nia.
  - destruct (tbl_get tbl_uint64pow10 (wrapu 8 e)) as [t| |] eqn:T; cbn [bind] in H; try discriminate.
    apply pow10_tbl in T. destruct T as [Ti ->].
    assert (Hi : wrapu 8 e = e) by (unfold wrapu in *; pows; lia).
    rewrite Hi in *.
    assert (0 < 10 ^ e) by (apply Z.pow_pos_nonneg; lia).
    set (P := 10 ^ e) in *. clearbody P.
    destruct (P =? 0) eqn:Z0; [lia|].
    unfold quot, wrapu in H. rewrite Z.quot_div_nonneg in H by lia. pows.
    destruct (m >? (18446744073709551615 / P) mod 18446744073709551616) eqn:G; [inversion H|].
    cbn [bind] in H. inversion H; subst; clear H.
    assert (0 <= 18446744073709551615 / P <= 18446744073709551615)
      by (split; [apply Z.div_pos; lia|apply Z.div_le_upper_bound; nia]).
    rewrite Z.mod_small in G by lia.
    assert (m * P <= 18446744073709551615).
    { pose proof (Z.mul_div_le 18446744073709551615 P ltac:(lia)). nia. }
    rewrite Z.mod_small by nia. split; [nia|]. split; [reflexivity|lia].
Qed.

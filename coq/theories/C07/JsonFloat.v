(* C07 — json float destinations: the fast path of parseFloat64/32_custom never produces an
   infinity (so "Ok f" with f infinite can only come from strconv, which reports a range
   error instead), and what it produces is the correctly rounded value (C09).
   Only C09 definitions here (Spec.rn, is_finite); lemmas behind C07_json_float. *)
From Coq Require Import List NArith ZArith Bool Lia.
From Coq Require Import ZifyBool.
From Verif Require Import Gen.Consts Base.Outcome C09.Spec C09.Model C09.ProofsNum C09.ProofsFast C09.ProofsNumAll.
Import ListNotations.
Open Scope bool_scope.
Open Scope Z_scope.

Lemma rne_le : forall N D K, 0 <= N -> 0 < D -> N < D * K -> 0 <= rne N D <= K.
Proof.
  intros N D K HN HD HK. unfold rne.
  assert (Hq : 0 <= N / D) by (apply Z.div_pos; lia).
  assert (Hq2 : N / D < K) by (apply Z.div_lt_upper_bound; lia).
  destruct (2 * (N mod D) <? D); [lia|]. destruct (D <? 2 * (N mod D)); [lia|].
  destruct (Z.even (N / D)); lia.
Qed.

(* the magnitude of n/d < 2^B is below B *)
Lemma mag2_lt : forall n d B, 0 < n -> 0 < d -> 0 <= B -> n < d * 2 ^ B -> mag2 n d < B.
Proof.
  intros n d B Hn Hd HB H.
  destruct (Z_lt_ge_dec (mag2 n d) B) as [|Hge]; [assumption|exfalso].
  destruct (mag2_spec n d Hn Hd) as [S1 _].
  apply (P_mono n d B (mag2 n d) Hn Hd ltac:(lia)) in S1.
  unfold P in S1. rewrite !shl_alt in S1. rewrite (Z.max_l B) in S1 by lia. rewrite (Z.max_r (- B)) in S1 by lia.
  rewrite Z.pow_0_r in S1. lia.
Qed.

(* the significand round_pos produces is at most 2^prec *)
Lemma round_pos_M : forall f n d, 0 < prec f -> 0 < n -> 0 < d ->
  let '(M, e) := round_pos f n d in 0 <= M <= 2 ^ prec f /\ emin f <= e /\ e = Z.max (mag2 n d - (prec f - 1)) (emin f).
Proof.
  intros f n d Hp Hn Hd. unfold round_pos.
  set (g := mag2 n d). set (e := Z.max (g - (prec f - 1)) (emin f)).
  split; [|split; [unfold e; lia|reflexivity]].
  destruct (mag2_spec n d Hn Hd) as [_ S2]. fold g in S2.
  assert (S3 : ~ P n d (e + prec f)).
  { intros H. apply S2. apply (P_mono n d (g + 1) (e + prec f) Hn Hd); [unfold e; lia|exact H]. }
  apply rne_le.
  - rewrite shl_alt. apply Z.mul_nonneg_nonneg; [lia|apply Z.pow_nonneg; lia].
  - apply shl_pos. exact Hd.
  - unfold P in S3. rewrite !shl_alt in *.
    assert (Hpp : 0 < 2 ^ prec f) by (apply Z.pow_pos_nonneg; lia).
    destruct (Z_le_gt_dec 0 e) as [He|He].
    + rewrite (Z.max_l (e + prec f)) in S3 by lia. rewrite (Z.max_r (- (e + prec f))) in S3 by lia.
      rewrite (Z.max_r (- e)) by lia. rewrite (Z.max_l e) by lia.
      rewrite Z.pow_add_r in S3 by lia. rewrite Z.pow_0_r in *. lia.
    + destruct (Z_le_gt_dec 0 (e + prec f)) as [He2|He2].
      * rewrite (Z.max_l (e + prec f)) in S3 by lia. rewrite (Z.max_r (- (e + prec f))) in S3 by lia.
        rewrite (Z.max_l (- e)) by lia. rewrite (Z.max_r e) by lia.
        rewrite Z.pow_0_r in *.
        assert (E : 2 ^ (e + prec f) * 2 ^ (- e) = 2 ^ prec f) by (rewrite <- Z.pow_add_r by lia; f_equal; lia).
        assert (0 < 2 ^ (- e)) by (apply Z.pow_pos_nonneg; lia). nia.
      * rewrite (Z.max_r (e + prec f)) in S3 by lia. rewrite (Z.max_l (- (e + prec f))) in S3 by lia.
        rewrite (Z.max_l (- e)) by lia. rewrite (Z.max_r e) by lia.
        rewrite Z.pow_0_r in *.
        assert (E : 2 ^ (- (e + prec f)) * 2 ^ prec f = 2 ^ (- e)) by (rewrite <- Z.pow_add_r by lia; f_equal; lia).
        nia.
Qed.

Lemma encode_pos_lt : forall f M e, two_fmt f ->
  0 <= M <= 2 ^ prec f -> emin f <= e -> e - emin f + 2 < 2 ^ ew f - 1 ->
  0 <= encode_pos f M e < inf_bits f.
Proof.
  intros f M e Hf HM He Hb. unfold encode_pos, inf_bits.
  set (p := 2 ^ (prec f - 1)).
  assert (Hp : 0 < p) by (apply Z.pow_pos_nonneg; destruct Hf; subst f; cbn; lia).
  assert (Hpp : 2 ^ prec f = 2 * p).
  { unfold p. replace (prec f) with (prec f - 1 + 1) at 1 by lia. rewrite pow2_succ by (destruct Hf; subst f; cbn; lia). reflexivity. }
  assert (Hew : 3 <= 2 ^ ew f - 1) by (destruct Hf; subst f; cbn; lia).
  destruct (Z.eqb_spec M (2 ^ prec f)) as [EM|EM].
  - replace (p <? p) with false by (symmetry; apply Z.ltb_irrefl).
    replace (2 ^ ew f - 1 <=? e + 1 - emin f + 1) with false by (symmetry; apply Z.leb_gt; lia).
    split; [nia|]. nia.
  - destruct (Z.ltb_spec M p) as [Hs|Hs]; [split; [lia|nia]|].
    replace (2 ^ ew f - 1 <=? e - emin f + 1) with false by (symmetry; apply Z.leb_gt; lia).
    split; [nia|]. nia.
Qed.

(* a value below 2^B, B small enough for the format, rounds to a finite float *)
Lemma rn_finite : forall f neg n d B, two_fmt f -> 0 <= n -> 0 < d -> 0 <= B -> n < d * 2 ^ B ->
  B - prec f - emin f + 3 < 2 ^ ew f - 1 ->
  is_finite f (rn f neg n d) = true.
Proof.
  intros f neg n d B Hf Hn Hd HB Hlt Hbe.
  assert (Hprec : 0 < prec f) by (destruct Hf; subst f; cbn; lia).
  assert (Hx : 0 <= (if n =? 0 then 0 else let '(M, e) := round_pos f n d in encode_pos f M e) < inf_bits f).
  { destruct (Z.eqb_spec n 0) as [E0|E0].
    - unfold inf_bits. destruct Hf; subst f; cbn; lia.
    - pose proof (round_pos_M f n d Hprec ltac:(lia) Hd) as HR.
      pose proof (mag2_lt n d B ltac:(lia) Hd HB Hlt) as Hg.
      destruct (round_pos f n d) as [M e]. destruct HR as (HM & He & Ee).
      apply encode_pos_lt; [exact Hf|exact HM|exact He|].
      assert (emin f + prec f <= 3) by (destruct Hf; subst f; cbn; lia).
      assert (Hew : 3 <= 2 ^ ew f - 1) by (destruct Hf; subst f; cbn; lia).
      lia. }
  unfold rn, is_finite.
  set (x := if n =? 0 then 0 else let '(M, e) := round_pos f n d in encode_pos f M e) in *. clearbody x.
  set (p := 2 ^ (prec f - 1)).
  assert (Hp : 0 < p) by (apply Z.pow_pos_nonneg; lia).
  assert (Hsb : sign_bit f = 2 ^ ew f * p).
  { unfold sign_bit, p. rewrite <- Z.pow_add_r by (destruct Hf; subst f; cbn; lia). f_equal. lia. }
  unfold inf_bits in Hx. fold p in Hx.
  assert (Hew : 3 <= 2 ^ ew f - 1) by (destruct Hf; subst f; cbn; lia).
  assert (Hm : ((if neg then sign_bit f else 0) + x) mod sign_bit f = x).
  { destruct neg.
    - replace (sign_bit f + x) with (x + 1 * sign_bit f) by lia. rewrite Z.mod_add by (rewrite Hsb; nia).
      apply Z.mod_small. rewrite Hsb. nia.
    - rewrite Z.add_0_l. apply Z.mod_small. rewrite Hsb. nia. }
  rewrite Hm. apply Z.ltb_lt. apply Z.div_lt_upper_bound; [exact Hp|]. lia.
Qed.

(* the operand ranges readFloat's guard leaves to the fast path *)
Lemma RN_finite64 : forall neg m e, 0 <= m < 2 ^ 52 -> e <= 37 -> is_finite binary64 (RN binary64 neg m e) = true.
Proof.
  intros neg m e Hm He. unfold RN, dec_num, dec_den.
  destruct (Z.leb_spec 0 e) as [H0|H0].
  - apply (rn_finite binary64 neg _ 1 175); [left; reflexivity| | lia | lia | | cbn; lia].
    + apply Z.mul_nonneg_nonneg; [lia|apply Z.pow_nonneg; lia].
    + assert (10 ^ e <= 10 ^ 37) by (apply Z.pow_le_mono_r; lia).
      assert (0 < 10 ^ e) by (apply Z.pow_pos_nonneg; lia).
      assert (10 ^ 37 < 2 ^ 123) by reflexivity.
      replace (2 ^ 175) with (2 ^ 52 * 2 ^ 123) by reflexivity. nia.
  - apply (rn_finite binary64 neg _ _ 52); [left; reflexivity|lia|apply Z.pow_pos_nonneg; lia|lia| |cbn; lia].
    assert (1 <= 10 ^ (- e)) by (assert (0 < 10 ^ (- e)) by (apply Z.pow_pos_nonneg; lia); lia). nia.
Qed.

Lemma RN_finite32 : forall neg m e, 0 <= m < 2 ^ 23 -> e <= 17 -> is_finite binary32 (RN binary32 neg m e) = true.
Proof.
  intros neg m e Hm He. unfold RN, dec_num, dec_den.
  destruct (Z.leb_spec 0 e) as [H0|H0].
  - apply (rn_finite binary32 neg _ 1 80); [right; reflexivity| | lia | lia | | cbn; lia].
    + apply Z.mul_nonneg_nonneg; [lia|apply Z.pow_nonneg; lia].
    + assert (10 ^ e <= 10 ^ 17) by (apply Z.pow_le_mono_r; lia).
      assert (0 < 10 ^ e) by (apply Z.pow_pos_nonneg; lia).
      assert (10 ^ 17 < 2 ^ 57) by reflexivity.
      replace (2 ^ 80) with (2 ^ 23 * 2 ^ 57) by reflexivity. nia.
  - apply (rn_finite binary32 neg _ _ 23); [right; reflexivity|lia|apply Z.pow_pos_nonneg; lia|lia| |cbn; lia].
    assert (1 <= 10 ^ (- e)) by (assert (0 < 10 ^ (- e)) by (apply Z.pow_pos_nonneg; lia); lia). nia.
Qed.

(* C09's num64_lemma / num32_lemma with the finiteness of the fast-path answer added *)
Section Num.
  Variable strconv : bfmt -> list N -> option Z.

  Lemma num64_fin : forall (n : numlit) (upper : bool),
    wf_numlit n = true -> Z.of_nat (length (render_num upper n)) < 2 ^ 61 ->
    (parseFloat_custom strconv binary64 (render_num upper n) = Some (num_bits binary64 n)
     /\ is_finite binary64 (num_bits binary64 n) = true) \/
    parseFloat_custom strconv binary64 (render_num upper n) = strconv binary64 (render_num upper n).
  Proof.
    intros n upper Hwf Hlen. unfold parseFloat_custom. change (prec binary64 =? 53) with true. cbv iota.
    destruct (readfloat_lemma n upper fi64 Hwf fi64_ok Hlen) as (G1 & G2 & G3 & G4).
    rewrite G1. cbv iota.
    destruct (rok (readFloat (render_num upper n) fi64)) eqn:Eok; [|right; reflexivity].
    specialize (G3 eq_refl).
    pose proof (readFloat_guard _ fi64 fi64_ok Eok) as Hg.
    set (r := readFloat (render_num upper n) fi64) in *.
    assert (Hrange : 0 <= mant r < 2 ^ 52 /\ -22 <= rexp r <= 37).
    { destruct Hg as [[-> ->]|[Hr Hm]]; [split; [split; [lia|reflexivity]|lia]|].
      cbn in Hr, Hm. split; [apply shiftr_zero_bound; [lia|apply Hm; discriminate]|lia]. }
    destruct Hrange as [Hm He].
    destruct (fast64_lemma (mant r) (rexp r) (rneg r) Hm He) as [Hf|Hf]; rewrite Hf; [right; reflexivity|left].
    assert (E : RN binary64 (rneg r) (mant r) (rexp r) = num_bits binary64 n).
    { unfold num_bits. rewrite G2. apply RN_dec_eq; [lia|unfold dmant; apply ival_nonneg|exact G3]. }
    split; [f_equal; exact E|]. rewrite <- E. apply RN_finite64; [exact Hm|lia].
  Qed.

  Lemma num32_fin : forall (n : numlit) (upper : bool),
    wf_numlit n = true -> Z.of_nat (length (render_num upper n)) < 2 ^ 61 ->
    (parseFloat_custom strconv binary32 (render_num upper n) = Some (num_bits binary32 n)
     /\ is_finite binary32 (num_bits binary32 n) = true) \/
    parseFloat_custom strconv binary32 (render_num upper n) = strconv binary32 (render_num upper n).
  Proof.
    intros n upper Hwf Hlen. unfold parseFloat_custom. change (prec binary32 =? 53) with false. cbv iota.
    destruct (readfloat_lemma n upper fi32 Hwf fi32_ok Hlen) as (G1 & G2 & G3 & G4).
    rewrite G1. cbv iota.
    destruct (rok (readFloat (render_num upper n) fi32)) eqn:Eok; [|right; reflexivity].
    specialize (G3 eq_refl).
    pose proof (readFloat_guard _ fi32 fi32_ok Eok) as Hg.
    set (r := readFloat (render_num upper n) fi32) in *.
    assert (Hrange : 0 <= mant r < 2 ^ 23 /\ -10 <= rexp r <= 17).
    { destruct Hg as [[-> ->]|[Hr Hm]]; [split; [split; [lia|reflexivity]|lia]|].
      cbn in Hr, Hm. split; [apply shiftr_zero_bound; [lia|apply Hm; discriminate]|lia]. }
    destruct Hrange as [Hm He].
    destruct (fast32_lemma (mant r) (rexp r) (rneg r) Hm He) as [Hf|Hf]; rewrite Hf; [right; reflexivity|left].
    assert (E : RN binary32 (rneg r) (mant r) (rexp r) = num_bits binary32 n).
    { unfold num_bits. rewrite G2. apply RN_dec_eq; [lia|unfold dmant; apply ival_nonneg|exact G3]. }
    split; [f_equal; exact E|]. rewrite <- E. apply RN_finite32; [exact Hm|lia].
  Qed.
End Num.

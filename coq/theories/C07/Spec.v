(* C07 — what the bytes of one number item mean, written from the format
   specifications (RFC 8949 §3, MessagePack spec "int/float format family",
   binc and simple as documented in binc.go/simple.go headers), independently of
   the decoder model: plain div/mod on the initial byte. *)
From Coq Require Import List ZArith Bool.
From Verif Require Import Base.Word.
Import ListNotations.
Local Open Scope Z_scope.

Inductive num :=
| NInt (n : Z)        (* an integer *)
| NF16 (h : Z)        (* IEEE binary16 bit pattern *)
| NF32 (b : Z)        (* IEEE binary32 bit pattern *)
| NF64 (b : Z).       (* IEEE binary64 bit pattern *)

Definition bytes_ok (bs : list Z) : Prop := Forall (fun x => 0 <= x < 256) bs.

(* the next k bytes as a big-endian unsigned integer *)
Definition take (k : nat) (r : list Z) : option Z :=
  if Nat.ltb (length r) k then None else Some (be_val 0 (firstn k r)).

Definition omap {A B} (f : A -> B) (o : option A) : option B :=
  match o with Some a => Some (f a) | None => None end.

(* two's complement reading of a w-bit unsigned value *)
Definition twos (w v : Z) : Z := if v <? 2 ^ (w - 1) then v else v - 2 ^ w.

(* RFC 8949: initial byte = major type (3 bits) . additional information (5 bits) *)
Definition cbor_spec (bs : list Z) : option num :=
  match bs with
  | [] => None
  | ib :: r =>
      let mt := ib / 32 in
      let ai := ib mod 32 in
      let arg := if ai <? 24 then Some ai
                 else if ai =? 24 then take 1 r else if ai =? 25 then take 2 r
                 else if ai =? 26 then take 4 r else if ai =? 27 then take 8 r else None in
      if mt =? 0 then omap NInt arg
      else if mt =? 1 then omap (fun a => NInt (-1 - a)) arg
      else if ib =? 249 then omap NF16 (take 2 r)
      else if ib =? 250 then omap NF32 (take 4 r)
      else if ib =? 251 then omap NF64 (take 8 r)
      else None
  end.

(* MessagePack: positive fixint 0x00-0x7f, negative fixint 0xe0-0xff, uint 8-64 0xcc-0xcf,
   int 8-64 0xd0-0xd3, float 32 0xca, float 64 0xcb *)
Definition msgpack_spec (bs : list Z) : option num :=
  match bs with
  | [] => None
  | ib :: r =>
      if ib <=? 127 then Some (NInt ib)
      else if 224 <=? ib then Some (NInt (ib - 256))
      else if ib =? 204 then omap NInt (take 1 r)
      else if ib =? 205 then omap NInt (take 2 r)
      else if ib =? 206 then omap NInt (take 4 r)
      else if ib =? 207 then omap NInt (take 8 r)
      else if ib =? 208 then omap (fun v => NInt (twos 8 v)) (take 1 r)
      else if ib =? 209 then omap (fun v => NInt (twos 16 v)) (take 2 r)
      else if ib =? 210 then omap (fun v => NInt (twos 32 v)) (take 4 r)
      else if ib =? 211 then omap (fun v => NInt (twos 64 v)) (take 8 r)
      else if ib =? 202 then omap NF32 (take 4 r)
      else if ib =? 203 then omap NF64 (take 8 r)
      else None
  end.

(* simple: 8..11 positive integer in 1,2,4,8 bytes; 12..15 negative integer (magnitude); 4 float32; 5 float64 *)
Definition simple_spec (bs : list Z) : option num :=
  match bs with
  | [] => None
  | ib :: r =>
      if ib =? 8 then omap NInt (take 1 r)
      else if ib =? 9 then omap NInt (take 2 r)
      else if ib =? 10 then omap NInt (take 4 r)
      else if ib =? 11 then omap NInt (take 8 r)
      else if ib =? 12 then omap (fun v => NInt (- v)) (take 1 r)
      else if ib =? 13 then omap (fun v => NInt (- v)) (take 2 r)
      else if ib =? 14 then omap (fun v => NInt (- v)) (take 4 r)
      else if ib =? 15 then omap (fun v => NInt (- v)) (take 8 r)
      else if ib =? 4 then omap NF32 (take 4 r)
      else if ib =? 5 then omap NF64 (take 8 r)
      else None
  end.

(* binc: high nibble = type, low nibble = sub-type.
   1/2: positive/negative integer, magnitude in (low+1) bytes, low <= 7; 9: small integer low+1;
   0: specials (7 zero, 8 minus one; 3 NaN, 4 +Inf, 5 -Inf, 6 float zero);
   3: float, low&7 = 1 binary32 / 3 binary64, low&8 = trailing zero bytes pruned (length byte first) *)
Definition binc_pruned (maxlen : nat) (r : list Z) : option Z :=
  match r with
  | [] => None
  | l :: r' => if Z.of_nat maxlen <? l then None
               else omap (fun v => v * 256 ^ (Z.of_nat maxlen - l)) (take (Z.to_nat l) r')
  end.

Definition binc_spec (bs : list Z) : option num :=
  match bs with
  | [] => None
  | ib :: r =>
      let vd := ib / 16 in
      let vs := ib mod 16 in
      if vd =? 1 then (if vs <=? 7 then omap NInt (take (Z.to_nat (vs + 1)) r) else None)
      else if vd =? 2 then (if vs <=? 7 then omap (fun v => NInt (- v)) (take (Z.to_nat (vs + 1)) r) else None)
      else if vd =? 9 then Some (NInt (vs + 1))
      else if vd =? 0 then
        (if vs =? 7 then Some (NInt 0) else if vs =? 8 then Some (NInt (-1))
         else if vs =? 3 then Some (NF64 9221120237041090561)
         else if vs =? 4 then Some (NF64 9218868437227405312)
         else if vs =? 5 then Some (NF64 18442240474082181120)
         else if vs =? 6 then Some (NF64 0) else None)
      else if vd =? 3 then
        (if vs mod 8 =? 1 then omap NF32 (if vs <? 8 then take 4 r else binc_pruned 4 r)
         else if vs mod 8 =? 3 then omap NF64 (if vs <? 8 then take 8 r else binc_pruned 8 r)
         else None)
      else None
  end.

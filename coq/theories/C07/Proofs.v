(* C07 — the decoder model meets the specification of the formats *)
From Coq Require Import List ZArith Bool Lia ZifyBool.
From Verif Require Import Base.Word Base.Outcome Base.FBits Gen.Consts Gen.Leaf
  C07.Model C07.Spec C07.ProofsLeaf C07.ProofsFrac.
Import ListNotations.
Local Open Scope Z_scope.

Ltac Zify.zify_post_hook ::= Z.div_mod_to_equations.

Lemma take_bound : forall k r v, bytes_ok r -> take k r = Some v -> 0 <= v < 2 ^ (8 * Z.of_nat k).
Proof.
  intros k r v Hr H. unfold take in H. destruct (Nat.ltb (length r) k) eqn:E; [discriminate|].
  inversion H; subst; clear H. apply PeanoNat.Nat.ltb_ge in E.
  pose proof (be_val_bound (firstn k r) 0 0) as B. cbn [Z.add] in B.
  rewrite firstn_length_le in B by exact E. apply B; [|cbn; lia|lia].
  unfold bytes_ok in Hr. rewrite <- (firstn_skipn k r) in Hr. apply Forall_app in Hr. tauto.
Qed.

Lemma readv_take : forall k r v, readv k r = Ok v -> take k r = Some v.
Proof.
  intros k r v H. unfold readv, readn in H. unfold take.
  destruct (Nat.ltb (length r) k); cbn in H; [discriminate|]. inversion H. reflexivity.
Qed.

Ltac rd_step :=
  match goal with
  | H : bind (readv ?k ?r) _ = Ok _ |- _ =>
      let v := fresh "v" in let E := fresh "E" in
      destruct (readv k r) as [v| |] eqn:E; cbn [bind] in H; [apply readv_take in E|discriminate|discriminate]
  | H : readv ?k ?r = Ok _ |- _ => apply readv_take in H
  end.

(* ---- msgpack ---- *)
Ltac take_in_goal Hr :=
  repeat rd_step;
  try match goal with E : take ?k ?r = Some ?v |- _ =>
    rewrite E; cbn [omap]; pose proof (take_bound _ _ _ Hr E) end.

Ltac pw := cbn [Z.of_nat Pos.of_succ_nat Pos.succ Z.mul Pos.mul Pos.add] in *;
  change (2 ^ 52) with 4503599627370496 in *; pows.

Lemma mp_Int64_ok : forall bd r x,
  0 <= bd < 256 -> bytes_ok r -> mp_Int64 bd r = Ok x ->
  match msgpack_spec (bd :: r) with
  | Some (NInt n) => x = n /\ - 2 ^ 63 <= x < 2 ^ 63
  | Some (NF64 b) => f64_scaled b = Some (x * 2 ^ 1074) /\ - 2 ^ 52 < x < 2 ^ 52
  | Some (NF32 b) => noFrac32 b = true /\ x = f64_to_i64 (f32_to_f64 b)
  | Some (NF16 _) => False
  | None => bd = mpNil /\ x = 0
  end.
Proof.
  intros bd r x Hbd Hr H. unfold mp_Int64, mp_nil, mp_f32_int, mp_f64_int in H. unfold msgpack_spec.
  unfold mpNil, mpUint8, mpUint16, mpUint32, mpUint64, mpInt8, mpInt16, mpInt32, mpInt64, mpFloat, mpDouble,
    mpPosFixNumMin, mpPosFixNumMax, mpNegFixNumMin, mpNegFixNumMax in *.
  repeat match type of H with
  | (if ?c then _ else _) = _ => destruct c eqn:?
  end.
  all: repeat match goal with |- context [if ?c then _ else _] => destruct c eqn:?; try lia end.
  all: try discriminate.
  all: take_in_goal Hr.
  all: try (inversion H; subst; clear H; unfold wraps, twos; pw; brk; lia).
  - apply SignedIntV_spec in H; [|pw; lia]. pw. lia.
  - destruct (readv 4 r) as [v| |] eqn:E; cbn [bind] in H; try discriminate.
    apply readv_take in E. rewrite E. cbn [omap].
    destruct (noFrac32 v) eqn:N; cbn [bind] in H; [|discriminate]. inversion H. auto.
  - destruct (readv 8 r) as [v| |] eqn:E; cbn [bind] in H; try discriminate.
    apply readv_take in E. rewrite E. cbn [omap]. pose proof (take_bound _ _ _ Hr E).
    destruct (noFrac64 v) eqn:N; cbn [bind] in H; [|discriminate]. inversion H; subst; clear H.
    destruct (noFrac64_int v ltac:(pw; lia) N) as (z & Hs & Hi & Hz & _). rewrite Hi. auto.
Qed.


(* ---- decNegintPosintFloatNumberHelper ---- *)
Lemma hlp_int64_int : forall ui neg cb fl x,
  0 <= ui < 2 ^ 64 -> hlp_int64 ui neg true cb fl = Ok x ->
  x = (if neg then - (ui + (if cb then 1 else 0)) else ui) /\ - 2 ^ 63 <= x < 2 ^ 63.
Proof. intros. unfold hlp_int64 in *. eapply Int64v_spec; eauto. Qed.

Lemma hlp_int64_frac : forall ui neg cb f fok x,
  0 <= f < 2 ^ 64 -> hlp_int64 ui neg false cb (Ok (f, fok)) = Ok x ->
  fok = true /\ f64_scaled f = Some (x * 2 ^ 1074) /\ - 2 ^ 52 < x < 2 ^ 52.
Proof.
  intros ui neg cb f fok x Hf H. unfold hlp_int64 in H. cbn [bind] in H.
  destruct fok; cbn [andb] in H; [|discriminate].
  destruct (noFrac64 f) eqn:N; [|discriminate]. inversion H; subst; clear H.
  destruct (noFrac64_int f Hf N) as (z & Hs & Hi & Hz & _). rewrite Hi. auto.
Qed.

Lemma hlp_uint64_int : forall ui neg fl x,
  hlp_uint64 ui neg true fl = Ok x -> neg = false /\ x = ui.
Proof.
  intros ui neg fl x H. unfold hlp_uint64 in H. destruct neg; cbn [andb negb] in H; [discriminate|].
  inversion H; auto.
Qed.

Lemma hlp_uint64_frac : forall ui neg f fok x,
  0 <= f < 2 ^ 64 -> hlp_uint64 ui neg false (Ok (f, fok)) = Ok x ->
  fok = true /\ f64_scaled f = Some (x * 2 ^ 1074) /\ 0 <= x < 2 ^ 52.
Proof.
  intros ui neg f fok x Hf H. unfold hlp_uint64 in H. cbn [andb bind] in H.
  destruct fok; cbn [andb] in H; [|discriminate].
  destruct (f64_le 0 f) eqn:L; cbn [andb] in H; [|discriminate].
  destruct (noFrac64 f) eqn:N; [|discriminate]. inversion H; subst; clear H.
  destruct (noFrac64_int f Hf N) as (z & Hs & Hi & Hz & Hu).
  assert (Hlt : f < 2 ^ 63).
  { destruct (Z_lt_dec f (2 ^ 63)) as [|Hge]; [assumption|].
    unfold f64_le, f64_isnan, f64_key, f64_abs, f64_inf in L. pw.
    change (0 <? 9223372036854775808) with true in L. cbv iota in L.
    destruct (f <? 9223372036854775808) eqn:E1; [lia|].
    assert (f = 9223372036854775808) by lia. subst f. vm_compute in N. discriminate. }
  destruct (Hu Hlt) as [Hu1 Hu2]. rewrite Hu1. split; [reflexivity|]. split; [assumption|lia].
Qed.

(* ---- narrowing in the generic layer ---- *)
Lemma narrow_int_ok : forall w v x,
  (w = 8 \/ w = 16 \/ w = 32 \/ w = 64) -> - 2 ^ 63 <= v < 2 ^ 63 ->
  narrow_int w (Ok v) = Ok x -> x = v /\ - 2 ^ (w - 1) <= x < 2 ^ (w - 1).
Proof.
  intros w v x Hw Hv H. unfold narrow_int in H. cbn [bind] in H.
  destruct (checkOverflow_IntV v w) as [v'| |] eqn:E; cbn [bind] in H; try discriminate.
  apply IntV_spec in E; try assumption. destruct E as [-> E]. inversion H; subst; clear H.
  rewrite wraps_id; [auto|destruct Hw as [-> | [-> | [-> | ->]]]; lia|exact E].
Qed.

Lemma narrow_uint_ok : forall w v x,
  (w = 8 \/ w = 16 \/ w = 32 \/ w = 64) -> 0 <= v < 2 ^ 64 ->
  narrow_uint w (Ok v) = Ok x -> x = v /\ 0 <= x < 2 ^ w.
Proof.
  intros w v x Hw Hv H. unfold narrow_uint in H. cbn [bind] in H.
  destruct (checkOverflow_UintV v w) as [v'| |] eqn:E; cbn [bind] in H; try discriminate.
  apply UintV_spec in E; try assumption. destruct E as [-> E]. inversion H; subst; clear H.
  rewrite wrapu_id; [auto|exact E].
Qed.

Lemma narrow_f32_ok : forall f x,
  0 <= f < 2 ^ 64 -> narrow_f32 (Ok f) = Ok x ->
  x = f64_to_f32 f /\ (f64_finite f = true -> f64_abs f <= f64_maxf32).
Proof.
  intros f x Hf H. unfold narrow_f32 in H. cbn [bind] in H.
  destruct (checkOverflow_Float32V f) as [f'| |] eqn:E; cbn [bind] in H; try discriminate.
  apply Float32V_spec in E; try assumption. destruct E as [-> E]. inversion H; auto.
Qed.

(* ---- integer descriptors of cbor / simple / binc ---- *)
Lemma cbor_decInteger_ok : forall bd r ui neg,
  0 <= bd < 256 -> bytes_ok r -> cbor_decInteger bd r = Ok (ui, neg, true) ->
  0 <= ui < 2 ^ 64 /\ cbor_spec (bd :: r) = Some (NInt (if neg then - (ui + 1) else ui)).
Proof.
  intros bd r ui neg Hbd Hr H. unfold cbor_decInteger, cbor_decUint in H. unfold cbor_spec.
  unfold shr in H. rewrite Z.shiftr_div_pow2 in H by lia.
  change 31 with (Z.ones 5) in H. rewrite Z.land_ones in H by lia. change (2 ^ 5) with 32 in *.
  unfold cborMajorUint, cborMajorNegInt in H.
  repeat match type of H with
  | context [if ?c then _ else _] => destruct c eqn:?; cbn [bind] in H
  end.
  all: try discriminate.
  all: repeat match goal with |- context [if ?c then _ else _] => destruct c eqn:?; try lia end.
  all: take_in_goal Hr.
  all: try congruence.
  all: cbn [omap].
  all: try (inversion H; subst; clear H; pw; split; [lia|]; repeat f_equal; lia).
Qed.

Lemma cbor_decInteger_notint : forall bd r ui neg n,
  0 <= bd < 256 -> cbor_decInteger bd r = Ok (ui, neg, false) -> cbor_spec (bd :: r) <> Some (NInt n).
Proof.
  intros bd r ui neg n Hbd H. unfold cbor_decInteger in H. unfold cbor_spec.
  unfold shr in H. rewrite Z.shiftr_div_pow2 in H by lia. change (2 ^ 5) with 32 in *.
  unfold cborMajorUint, cborMajorNegInt in H.
  destruct (bd / 32 =? 0) eqn:E0.
  { destruct (cbor_decUint bd r); cbn [bind] in H; discriminate. }
  destruct (bd / 32 =? 1) eqn:E1.
  { destruct (cbor_decUint bd r); cbn [bind] in H; discriminate. }
  repeat match goal with |- context [if ?c then _ else _] => destruct c eqn:? end.
  all: try discriminate.
  all: match goal with |- omap _ ?t <> _ => destruct t; cbn [omap]; discriminate end.
Qed.

(* cbor integer item into int64: exactly its value (RFC 8949: n or -1-n), in range *)
Lemma cbor_Int64_int : forall bd r x n,
  0 <= bd < 256 -> bytes_ok r -> cbor_Int64 bd r = Ok x -> cbor_spec (bd :: r) = Some (NInt n) ->
  x = n /\ - 2 ^ 63 <= x < 2 ^ 63.
Proof.
  intros bd r x n Hbd Hr H Hs. unfold cbor_Int64 in H.
  destruct (cbor_nil bd) eqn:Nl.
  { unfold cbor_nil, cborBdNil, cborBdUndefined in Nl.
    assert (bd = 246 \/ bd = 247) as [-> | ->] by lia; cbn in Hs; discriminate. }
  destruct (cbor_decInteger bd r) as [[[ui neg] ok]| |] eqn:E; cbn [bind] in H; try discriminate.
  destruct ok.
  - destruct (cbor_decInteger_ok bd r ui neg Hbd Hr E) as [Hu Hsp].
    rewrite Hsp in Hs. inversion Hs; subst; clear Hs.
    apply hlp_int64_int in H; [|exact Hu]. destruct neg; destruct H as [-> H]; split; lia.
  - exfalso. eapply cbor_decInteger_notint; eauto.
Qed.

Lemma cbor_Uint64_int : forall bd r x n,
  0 <= bd < 256 -> bytes_ok r -> cbor_Uint64 bd r = Ok x -> cbor_spec (bd :: r) = Some (NInt n) ->
  x = n /\ 0 <= x < 2 ^ 64.
Proof.
  intros bd r x n Hbd Hr H Hs. unfold cbor_Uint64 in H.
  destruct (cbor_nil bd) eqn:Nl.
  { unfold cbor_nil, cborBdNil, cborBdUndefined in Nl.
    assert (bd = 246 \/ bd = 247) as [-> | ->] by lia; cbn in Hs; discriminate. }
  destruct (cbor_decInteger bd r) as [[[ui neg] ok]| |] eqn:E; cbn [bind] in H; try discriminate.
  destruct ok.
  - destruct (cbor_decInteger_ok bd r ui neg Hbd Hr E) as [Hu Hsp].
    rewrite Hsp in Hs. inversion Hs; subst; clear Hs.
    apply hlp_uint64_int in H. destruct H as [-> ->]. split; lia.
  - exfalso. eapply cbor_decInteger_notint; eauto.
Qed.

(* every integer destination kind, cbor integer sources *)
Lemma cbor_int_all : forall k bs x n,
  bytes_ok bs -> is_int_kind k = true -> decode cbor k bs = Ok x -> cbor_spec bs = Some (NInt n) ->
  x = n /\ kind_lo k <= x < kind_hi k.
Proof.
  intros k bs x n Hb Hk H Hs. destruct bs as [|bd r]; [discriminate|].
  inversion Hb as [|? ? Hbd Hr]; subst.
  unfold decode in H. cbn [dInt64 dUint64 dFloat64 cbor] in H.
  destruct k; try discriminate; cbn [kind_lo kind_hi];
    try (destruct (cbor_Int64 bd r) as [v| |] eqn:E; [|unfold narrow_int in H; cbn [bind] in H; discriminate ..];
         destruct (cbor_Int64_int bd r v n Hbd Hr E Hs) as [-> Hv];
         apply narrow_int_ok in H; [|unfold wordBits; tauto|exact Hv]; cbn in H; exact H);
    try (destruct (cbor_Uint64 bd r) as [v| |] eqn:E; [|unfold narrow_uint in H; cbn [bind] in H; discriminate ..];
         destruct (cbor_Uint64_int bd r v n Hbd Hr E Hs) as [-> Hv];
         apply narrow_uint_ok in H; [|unfold wordBits; tauto|exact Hv]; cbn in H; exact H).
  - eapply cbor_Int64_int; eauto.
  - eapply cbor_Uint64_int; eauto.
Qed.

(* ---- simple ---- *)
Lemma simple_decInteger_ok : forall bd r ui neg,
  0 <= bd < 256 -> bytes_ok r -> simple_decInteger bd r = Ok (ui, neg, true) ->
  0 <= ui < 2 ^ 64 /\ simple_spec (bd :: r) = Some (NInt (if neg then - (ui + 0) else ui)).
Proof.
  intros bd r ui neg Hbd Hr H. unfold simple_decInteger in H. unfold simple_spec.
  unfold simpleVdPosInt, simpleVdNegInt in H.
  repeat match type of H with
  | context [if ?c then _ else _] => destruct c eqn:?; cbn [bind] in H
  end.
  all: try discriminate.
  all: repeat match goal with |- context [if ?c then _ else _] => destruct c eqn:?; try lia end.
  all: take_in_goal Hr.
  all: try congruence.
  all: cbn [omap].
  all: try (inversion H; subst; clear H; pw; split; [lia|]; repeat f_equal; lia).
Qed.

Lemma simple_decInteger_notint : forall bd r ui neg n,
  0 <= bd < 256 -> simple_decInteger bd r = Ok (ui, neg, false) -> simple_spec (bd :: r) <> Some (NInt n).
Proof.
  intros bd r ui neg n Hbd H. unfold simple_decInteger in H. unfold simple_spec.
  unfold simpleVdPosInt, simpleVdNegInt in H.
  repeat match type of H with
  | context [if ?c then _ else _] => destruct c eqn:?
  end.
  all: try (match type of H with bind ?t _ = _ => destruct t; cbn [bind] in H; discriminate end).
  all: repeat match goal with |- context [if ?c then _ else _] => destruct c eqn:?; try lia end.
  all: try discriminate.
  all: match goal with |- omap _ ?t <> _ => destruct t; cbn [omap]; discriminate end.
Qed.

Lemma simple_int_all : forall k bs x n,
  bytes_ok bs -> is_int_kind k = true -> decode simple k bs = Ok x -> simple_spec bs = Some (NInt n) ->
  x = n /\ kind_lo k <= x < kind_hi k.
Proof.
  intros k bs x n Hb Hk H Hs. destruct bs as [|bd r]; [discriminate|].
  inversion Hb as [|? ? Hbd Hr]; subst.
  assert (HI : forall v, simple_Int64 bd r = Ok v -> v = n /\ - 2 ^ 63 <= v < 2 ^ 63).
  { intros v E. unfold simple_Int64 in E. destruct (simple_nil bd) eqn:Nl.
    { unfold simple_nil, simpleVdNil in Nl. assert (bd = 1) by lia. subst. cbn in Hs. discriminate. }
    destruct (simple_decInteger bd r) as [[[ui neg] ok]| |] eqn:E2; cbn [bind] in E; try discriminate.
    destruct ok.
    - destruct (simple_decInteger_ok bd r ui neg Hbd Hr E2) as [Hu Hsp].
      rewrite Hsp in Hs. inversion Hs; subst; clear Hs.
      apply hlp_int64_int in E; [|exact Hu]. destruct neg; destruct E as [-> E]; split; lia.
    - exfalso. eapply simple_decInteger_notint; eauto. }
  assert (HU : forall v, simple_Uint64 bd r = Ok v -> v = n /\ 0 <= v < 2 ^ 64).
  { intros v E. unfold simple_Uint64 in E. destruct (simple_nil bd) eqn:Nl.
    { unfold simple_nil, simpleVdNil in Nl. assert (bd = 1) by lia. subst. cbn in Hs. discriminate. }
    destruct (simple_decInteger bd r) as [[[ui neg] ok]| |] eqn:E2; cbn [bind] in E; try discriminate.
    destruct ok.
    - destruct (simple_decInteger_ok bd r ui neg Hbd Hr E2) as [Hu Hsp].
      rewrite Hsp in Hs. inversion Hs; subst; clear Hs.
      apply hlp_uint64_int in E. destruct E as [-> ->]. split; lia.
    - exfalso. eapply simple_decInteger_notint; eauto. }
  unfold decode in H. cbn [dInt64 dUint64 dFloat64 simple] in H.
  destruct k; try discriminate; cbn [kind_lo kind_hi];
    try (destruct (simple_Int64 bd r) as [v| |] eqn:E; [|unfold narrow_int in H; cbn [bind] in H; discriminate ..];
         destruct (HI v eq_refl) as [-> Hv];
         apply narrow_int_ok in H; [|unfold wordBits; tauto|exact Hv]; cbn in H; exact H);
    try (destruct (simple_Uint64 bd r) as [v| |] eqn:E; [|unfold narrow_uint in H; cbn [bind] in H; discriminate ..];
         destruct (HU v eq_refl) as [-> Hv];
         apply narrow_uint_ok in H; [|unfold wordBits; tauto|exact Hv]; cbn in H; exact H).
  - apply HI; assumption.
  - apply HU; assumption.
Qed.

(* ---- binc ---- *)
Lemma binc_decInteger_ok : forall bd r ui neg,
  0 <= bd < 256 -> bytes_ok r -> binc_decInteger bd r = Ok (ui, neg, true) ->
  0 <= ui < 2 ^ 64 /\ binc_spec (bd :: r) = Some (NInt (if neg then - (ui + 0) else ui)).
Proof.
  intros bd r ui neg Hbd Hr H. unfold binc_decInteger, binc_decUint in H. unfold binc_spec.
  unfold shr in H. rewrite Z.shiftr_div_pow2 in H by lia.
  change 15 with (Z.ones 4) in H. rewrite Z.land_ones in H by lia. change (2 ^ 4) with 16 in *.
  unfold bincVdPosInt, bincVdNegInt, bincVdSmallInt, bincVdSpecial, bincSpZero, bincSpNegOne in H.
  repeat match type of H with
  | context [if ?c then _ else _] => destruct c eqn:?; cbn [bind] in H
  end.
  all: try discriminate.
  all: repeat match goal with |- context [if ?c then _ else _] => destruct c eqn:?; try lia end.
  all: repeat match goal with E : (?b mod 16 =? ?c) = true |- _ => apply Z.eqb_eq in E; rewrite E in * end.
  all: try match goal with |- context [Z.to_nat (?a + 1)] =>
         let n := eval compute in (Z.to_nat (a + 1)) in change (Z.to_nat (a + 1)) with n end.
  all: take_in_goal Hr.
  all: try congruence.
  all: cbn [omap].
  all: try (inversion H; subst; clear H; pw; split; [lia|]; repeat f_equal; lia).
Qed.

Lemma binc_decInteger_notint : forall bd r ui neg n,
  0 <= bd < 256 -> binc_decInteger bd r = Ok (ui, neg, false) -> binc_spec (bd :: r) <> Some (NInt n).
Proof.
  intros bd r ui neg n Hbd H. unfold binc_decInteger in H. unfold binc_spec.
  unfold shr in H. rewrite Z.shiftr_div_pow2 in H by lia.
  change 15 with (Z.ones 4) in H. rewrite Z.land_ones in H by lia. change (2 ^ 4) with 16 in *.
  unfold bincVdPosInt, bincVdNegInt, bincVdSmallInt, bincVdSpecial, bincSpZero, bincSpNegOne in H.
  repeat match type of H with
  | context [if ?c then _ else _] => destruct c eqn:?
  end.
  all: try (match type of H with bind ?t _ = _ => destruct t; cbn [bind] in H; discriminate end).
  all: try discriminate.
  all: repeat match goal with |- context [if ?c then _ else _] => destruct c eqn:?; try lia end.
  all: try discriminate.
  all: match goal with |- omap _ ?t <> _ => destruct t; cbn [omap]; discriminate end.
Qed.

Lemma binc_int_all : forall k bs x n,
  bytes_ok bs -> is_int_kind k = true -> decode binc k bs = Ok x -> binc_spec bs = Some (NInt n) ->
  x = n /\ kind_lo k <= x < kind_hi k.
Proof.
  intros k bs x n Hb Hk H Hs. destruct bs as [|bd r]; [discriminate|].
  inversion Hb as [|? ? Hbd Hr]; subst.
  assert (HI : forall v, binc_Int64 bd r = Ok v -> v = n /\ - 2 ^ 63 <= v < 2 ^ 63).
  { intros v E. unfold binc_Int64 in E. destruct (binc_nil bd) eqn:Nl.
    { unfold binc_nil, bincBdNil in Nl. assert (bd = 0) by lia. subst. cbn in Hs. discriminate. }
    destruct (binc_decInteger bd r) as [[[ui neg] ok]| |] eqn:E2; cbn [bind] in E; try discriminate.
    destruct ok.
    - destruct (binc_decInteger_ok bd r ui neg Hbd Hr E2) as [Hu Hsp].
      rewrite Hsp in Hs. inversion Hs; subst; clear Hs.
      apply hlp_int64_int in E; [|exact Hu]. destruct neg; destruct E as [-> E]; split; lia.
    - exfalso. eapply binc_decInteger_notint; eauto. }
  assert (HU : forall v, binc_Uint64 bd r = Ok v -> v = n /\ 0 <= v < 2 ^ 64).
  { intros v E. unfold binc_Uint64 in E. destruct (binc_nil bd) eqn:Nl.
    { unfold binc_nil, bincBdNil in Nl. assert (bd = 0) by lia. subst. cbn in Hs. discriminate. }
    destruct (binc_decInteger bd r) as [[[ui neg] ok]| |] eqn:E2; cbn [bind] in E; try discriminate.
    destruct ok.
    - destruct (binc_decInteger_ok bd r ui neg Hbd Hr E2) as [Hu Hsp].
      rewrite Hsp in Hs. inversion Hs; subst; clear Hs.
      apply hlp_uint64_int in E. destruct E as [-> ->]. split; lia.
    - exfalso. eapply binc_decInteger_notint; eauto. }
  unfold decode in H. cbn [dInt64 dUint64 dFloat64 binc] in H.
  destruct k; try discriminate; cbn [kind_lo kind_hi];
    try (destruct (binc_Int64 bd r) as [v| |] eqn:E; [|unfold narrow_int in H; cbn [bind] in H; discriminate ..];
         destruct (HI v eq_refl) as [-> Hv];
         apply narrow_int_ok in H; [|unfold wordBits; tauto|exact Hv]; cbn in H; exact H);
    try (destruct (binc_Uint64 bd r) as [v| |] eqn:E; [|unfold narrow_uint in H; cbn [bind] in H; discriminate ..];
         destruct (HU v eq_refl) as [-> Hv];
         apply narrow_uint_ok in H; [|unfold wordBits; tauto|exact Hv]; cbn in H; exact H).
  - apply HI; assumption.
  - apply HU; assumption.
Qed.

Lemma mp_Uint64_int : forall bd r x n,
  0 <= bd < 256 -> bytes_ok r -> mp_Uint64 bd r = Ok x -> msgpack_spec (bd :: r) = Some (NInt n) ->
  x = n /\ 0 <= x < 2 ^ 64.
Proof.
  intros bd r x n Hbd Hr H Hs. unfold mp_Uint64, mp_nil, mp_f32_int, mp_f64_int, mp_nonneg in H. unfold msgpack_spec in Hs.
  unfold mpNil, mpUint8, mpUint16, mpUint32, mpUint64, mpInt8, mpInt16, mpInt32, mpInt64, mpFloat, mpDouble,
    mpPosFixNumMin, mpPosFixNumMax, mpNegFixNumMin, mpNegFixNumMax in *.
  repeat match type of H with
  | (if ?c then _ else _) = _ => destruct c eqn:?
  end.
  all: try discriminate.
  all: repeat match type of Hs with context [if ?c then _ else _] => destruct c eqn:?; try lia end.
  all: try discriminate.
  all: repeat rd_step.
  all: try match goal with E : take ?k ?r = Some ?v |- _ =>
         rewrite E in Hs; cbn [omap] in Hs; pose proof (take_bound _ _ _ Hr E) end.
  all: try (inversion Hs; subst; clear Hs; cbn [bind] in H; unfold wraps, twos in *; pw; brk; try discriminate;
            inversion H; subst; clear H; lia).
  all: try (destruct (readv 4 r) as [v| |] eqn:E; cbn [bind] in H; try discriminate;
            apply readv_take in E; rewrite E in Hs; cbn [omap] in Hs; discriminate).
  all: try (destruct (readv 8 r) as [v| |] eqn:E; cbn [bind] in H; try discriminate;
            apply readv_take in E; rewrite E in Hs; cbn [omap] in Hs; discriminate).
Qed.

Lemma msgpack_int_all : forall k bs x n,
  bytes_ok bs -> is_int_kind k = true -> decode msgpack k bs = Ok x -> msgpack_spec bs = Some (NInt n) ->
  x = n /\ kind_lo k <= x < kind_hi k.
Proof.
  intros k bs x n Hb Hk H Hs. destruct bs as [|bd r]; [discriminate|].
  inversion Hb as [|? ? Hbd Hr]; subst.
  assert (HI : forall v, mp_Int64 bd r = Ok v -> v = n /\ - 2 ^ 63 <= v < 2 ^ 63).
  { intros v E. pose proof (mp_Int64_ok bd r v Hbd Hr E) as P. rewrite Hs in P. exact P. }
  assert (HU : forall v, mp_Uint64 bd r = Ok v -> v = n /\ 0 <= v < 2 ^ 64).
  { intros v E. eapply mp_Uint64_int; eauto. }
  unfold decode in H. cbn [dInt64 dUint64 dFloat64 msgpack] in H.
  destruct k; try discriminate; cbn [kind_lo kind_hi];
    try (destruct (mp_Int64 bd r) as [v| |] eqn:E; [|unfold narrow_int in H; cbn [bind] in H; discriminate ..];
         destruct (HI v eq_refl) as [-> Hv];
         apply narrow_int_ok in H; [|unfold wordBits; tauto|exact Hv]; cbn in H; exact H);
    try (destruct (mp_Uint64 bd r) as [v| |] eqn:E; [|unfold narrow_uint in H; cbn [bind] in H; discriminate ..];
         destruct (HU v eq_refl) as [-> Hv];
         apply narrow_uint_ok in H; [|unfold wordBits; tauto|exact Hv]; cbn in H; exact H).
  - apply HI; assumption.
  - apply HU; assumption.
Qed.

(* ---- the four binary formats together ---- *)
Inductive binfmt := Fcbor | Fmsgpack | Fbinc | Fsimple.
Definition drv (f : binfmt) : driver :=
  match f with Fcbor => cbor | Fmsgpack => msgpack | Fbinc => binc | Fsimple => simple end.
Definition spec (f : binfmt) : list Z -> option num :=
  match f with Fcbor => cbor_spec | Fmsgpack => msgpack_spec | Fbinc => binc_spec | Fsimple => simple_spec end.

Lemma int_all : forall f k bs x n,
  bytes_ok bs -> is_int_kind k = true -> decode (drv f) k bs = Ok x -> spec f bs = Some (NInt n) ->
  x = n /\ kind_lo k <= x < kind_hi k.
Proof.
  intros f; destruct f; cbn [drv spec];
    [apply cbor_int_all | apply msgpack_int_all | apply binc_int_all | apply simple_int_all].
Qed.

(* C07 — lemmas about the translated leaf functions (Gen/Leaf.v).  They are
   stated over whatever the current source translates to: an edit that weakens
   a check makes these proofs fail. *)
From Coq Require Import List ZArith Bool Lia ZifyBool.
From Verif Require Import Base.Word Base.Outcome Base.FBits Gen.Consts Gen.Leaf.
Import ListNotations.
Local Open Scope Z_scope.

Ltac Zify.zify_post_hook ::= Z.div_mod_to_equations.

Ltac brk :=
  repeat match goal with
  | H : context [if ?c then _ else _] |- _ => destruct c eqn:?
  | |- context [if ?c then _ else _] => destruct c eqn:?
  end.

Ltac pows :=
  change (2 ^ 64) with 18446744073709551616 in *;
  change (2 ^ 63) with 9223372036854775808 in *;
  change (2 ^ (64 - 1)) with 9223372036854775808 in *;
  change (2 ^ 32) with 4294967296 in *; change (2 ^ (32 - 1)) with 2147483648 in *; change (2 ^ 31) with 2147483648 in *;
  change (2 ^ 16) with 65536 in *; change (2 ^ (16 - 1)) with 32768 in *; change (2 ^ 15) with 32768 in *;
  change (2 ^ 8) with 256 in *; change (2 ^ (8 - 1)) with 128 in *; change (2 ^ 7) with 128 in *.

(* decNegintPosintFloatNumberHelperInt64v: the signed value of a sign+magnitude pair, or an error *)
Lemma Int64v_spec : forall ui neg incr x,
  0 <= ui < 2 ^ 64 ->
  decNegintPosintFloatNumberHelperInt64v ui neg incr = Ok x ->
  x = (if neg then - (ui + (if incr then 1 else 0)) else ui) /\ - 2 ^ 63 <= x < 2 ^ 63.
Proof.
  intros ui neg incr x Hui H.
  unfold decNegintPosintFloatNumberHelperInt64v, checkOverflow_Uint2Int, checkOverflow_SignedIntV, checkOverflow_SignedInt in H.
  unfold wrapu, wraps in H. pows.
  destruct neg, incr; cbn [negb andb orb] in H; brk; try discriminate; inversion H; subst; clear H; lia.
Qed.

Lemma SignedIntV_spec : forall v x,
  0 <= v < 2 ^ 64 -> checkOverflow_SignedIntV v = Ok x -> x = v /\ 0 <= x < 2 ^ 63.
Proof.
  intros v x Hv H. unfold checkOverflow_SignedIntV, checkOverflow_SignedInt in H.
  unfold wraps in H. pows. brk; try discriminate. inversion H; subst; clear H. lia.
Qed.

(* chkOvf.IntV / UintV with the bit sizes the generic layer passes *)
Lemma IntV_spec : forall v w x,
  - 2 ^ 63 <= v < 2 ^ 63 -> (w = 8 \/ w = 16 \/ w = 32 \/ w = 64) ->
  checkOverflow_IntV v w = Ok x -> x = v /\ - 2 ^ (w - 1) <= v < 2 ^ (w - 1).
Proof.
  intros v w x Hv Hw H. unfold checkOverflow_IntV, checkOverflow_Int in H.
  destruct Hw as [-> | [-> | [-> | ->]]];
    [ change (wrapu 8 (64 - 8)) with 56 in H | change (wrapu 8 (64 - 16)) with 48 in H
    | change (wrapu 8 (64 - 32)) with 32 in H | change (wrapu 8 (64 - 64)) with 0 in H ];
    unfold shl, shr, wrapu, wraps in H;
    rewrite ?Z.shiftl_mul_pow2, ?Z.shiftr_div_pow2 in H by lia;
    change (2 ^ 56) with 72057594037927936 in H; change (2 ^ 48) with 281474976710656 in H; change (2 ^ 0) with 1 in H;
    pows; brk; try discriminate; inversion H; subst; clear H; split; try reflexivity.
  all: try lia.
Qed.

Lemma UintV_spec : forall v w x,
  0 <= v < 2 ^ 64 -> (w = 8 \/ w = 16 \/ w = 32 \/ w = 64) ->
  checkOverflow_UintV v w = Ok x -> x = v /\ 0 <= v < 2 ^ w.
Proof.
  intros v w x Hv Hw H. unfold checkOverflow_UintV, checkOverflow_Uint in H.
  destruct Hw as [-> | [-> | [-> | ->]]];
    [ change (wrapu 8 (64 - 8)) with 56 in H | change (wrapu 8 (64 - 16)) with 48 in H
    | change (wrapu 8 (64 - 32)) with 32 in H | change (wrapu 8 (64 - 64)) with 0 in H ];
    unfold shl, shr, wrapu, wraps in H;
    rewrite ?Z.shiftl_mul_pow2, ?Z.shiftr_div_pow2 in H by lia;
    change (2 ^ 56) with 72057594037927936 in H; change (2 ^ 48) with 281474976710656 in H; change (2 ^ 0) with 1 in H;
    pows; brk; try discriminate; inversion H; subst; clear H; split; try reflexivity.
  all: try lia.
Qed.

(* chkOvf.Float32V: a finite float64 that passes is at most MaxFloat32 in magnitude *)
Definition f64_maxf32 : Z := 5183643170566569984. (* bits of float64(math.MaxFloat32) *)

Lemma Float32V_spec : forall f x,
  0 <= f < 2 ^ 64 -> checkOverflow_Float32V f = Ok x ->
  x = f /\ (f64_finite f = true -> f64_abs f <= f64_maxf32).
Proof.
  intros f x Hf H. unfold checkOverflow_Float32V, checkOverflow_Float32 in H.
  unfold f64_lt, f64_le, f64_neg, f64_isnan, f64_key, f64_abs, f64_inf in H.
  unfold f64_finite, f64_abs, f64_inf, f64_maxf32.
  change (2 ^ 52) with 4503599627370496 in *. pows.
  brk; try discriminate; inversion H; subst; clear H; split; try reflexivity; intros; lia.
Qed.

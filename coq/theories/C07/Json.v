(* C07 — json numeric decoding: the bytes of one number token -> destination kind ->
   stored value or error.

   The token is what json.go decNumBytes hands on: the bytes jsonReadNum collected
   (every byte of the literal; for a valid literal decoded at top level exactly the
   literal), the empty token for null.

   Composition (hand written here, tied by correspondence, harness/cmd/c07 json cases):
     json.go     DecodeInt64 = parseInt64 . decNumBytes, DecodeUint64, DecodeFloat64, DecodeFloat32
     decimal.go  parseInteger_bytes: sign, parseUint64_simple, else readFloat(fi64u) +
                 parseUint64_reader, else not ok
   Pieces:
     C09/Model.v (hand model, tied by C09's correspondence): readFloat, parseUint64_simple,
                 parseFloat_custom (fast path, else the strconv oracle: a function argument)
     Gen/Leaf.v  (translated from the source on every run): parseUint64_reader,
                 checkOverflow_Uint2Int, and through C07/Model.v narrow_int / narrow_uint:
                 checkOverflow_IntV / UintV
   Integers are Z, floats IEEE bit patterns (Z); bytes are N as in C09.
   No proofs in this file. *)
From Coq Require Import List NArith ZArith Bool.
From Verif Require Import C09.Spec C09.Model.
From Verif Require Import Base.Word Base.Outcome Gen.Consts Gen.Leaf C07.Model.
Import ListNotations.
Local Open Scope Z_scope.

(* the hand model's readFloat result as the translated struct *)
Definition to_leaf (r : rfr) : readFloatResult :=
  mk_readFloatResult (mant r) (rexp r) (rneg r) (rtrunc r) (rbad r) (rhard r) (rok r).

(* decimal.go parseInteger_bytes: (u, neg, ok).  An index panic inside parseUint64_reader
   (table lookup) would surface as an error of Decode: [Err]. *)
Definition parseInteger_bytes (b : list N) : res (Z * bool * bool) :=
  match b with
  | [] => Ok (0, false, true)
  | c :: t =>
    let neg := (c =? 45)%N in
    if neg && is_nil t then Ok (0, false, false)
    else
      let b1 := if neg then t else b in
      let '(u, ok) := parseUint64_simple b1 in
      if ok then Ok (u, neg, true)
      else
        let r := readFloat b1 fi64u in
        if rok r then
          do (u2, fail) <- parseUint64_reader (to_leaf r) ;;
          if (fail : bool) then Ok (0, neg, false) else Ok (u2, neg, true)
        else Ok (u, neg, false)
  end.

(* json.go DecodeUint64 *)
Definition json_DecodeUint64 (s : list N) : res Z :=
  do (u, neg, ok) <- parseInteger_bytes s ;;
  if (neg : bool) then Err EOther            (* negative number cannot be decoded as uint64 *)
  else if negb ok then Err EOther            (* strconv.ErrSyntax *)
  else Ok u.

(* json.go DecodeInt64 / parseInt64: -int64(u) resp. int64(u) with Go's wrap-around *)
Definition json_DecodeInt64 (s : list N) : res Z :=
  do (u, neg, ok) <- parseInteger_bytes s ;;
  if negb ok then Err EOther
  else if checkOverflow_Uint2Int u neg then Err EOverflow
  else Ok (if (neg : bool) then wraps 64 (- wraps 64 u) else wraps 64 u).

Section Oracle.
  (* strconv.ParseFloat(s, bits): bit pattern, or None for a syntax/range error (as in C09) *)
  Variable strconv : bfmt -> list N -> option Z.

  (* json.go DecodeFloat64 / DecodeFloat32: the empty token (null) is the zero value *)
  Definition json_DecodeFloat (f : bfmt) (s : list N) : res Z :=
    if is_nil s then Ok 0
    else match parseFloat_custom strconv f s with
         | Some b => Ok b
         | None => Err EOther
         end.
  Definition json_DecodeFloat64 := json_DecodeFloat binary64.
  Definition json_DecodeFloat32 := json_DecodeFloat binary32.

  (* the generic layer (decode.go): the same narrowing as for the binary formats; float32
     destinations call the driver's own DecodeFloat32 (no float64 detour for json) *)
  Definition json_decode (k : kind) (s : list N) : res Z :=
    match k with
    | KInt8 => narrow_int 8 (json_DecodeInt64 s)
    | KInt16 => narrow_int 16 (json_DecodeInt64 s)
    | KInt32 => narrow_int 32 (json_DecodeInt64 s)
    | KInt64 => json_DecodeInt64 s
    | KInt => narrow_int wordBits (json_DecodeInt64 s)
    | KUint8 => narrow_uint 8 (json_DecodeUint64 s)
    | KUint16 => narrow_uint 16 (json_DecodeUint64 s)
    | KUint32 => narrow_uint 32 (json_DecodeUint64 s)
    | KUint64 => json_DecodeUint64 s
    | KUint => narrow_uint wordBits (json_DecodeUint64 s)
    | KUintptr => narrow_uint wordBits (json_DecodeUint64 s)
    | KFloat32 => json_DecodeFloat32 s
    | KFloat64 => json_DecodeFloat64 s
    end.
End Oracle.

(* integer destinations do not look at the oracle *)
Definition no_strconv : bfmt -> list N -> option Z := fun _ _ => None.
Definition json_decode_int (k : kind) (s : list N) : res Z := json_decode no_strconv k s.

(* ---- what a literal means (C09/Spec.v: numlit, dmant, dexp) ----
   the exact value of the literal n is (-1)^nneg * dmant n * 10^dexp n; it is the integer x: *)
Definition lit_signed_mant (n : numlit) : Z := if nneg n then - dmant n else dmant n.
Definition lit_is_int (n : numlit) (x : Z) : Prop :=
  (0 <= dexp n -> x = lit_signed_mant n * 10 ^ dexp n) /\
  (dexp n < 0 -> x * 10 ^ (- dexp n) = lit_signed_mant n).

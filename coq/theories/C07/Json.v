(* C07 — json numeric decoding (json.go DecodeInt64/DecodeUint64 via decimal.go).
   Placeholder until the json model lands: every literal is reported as not modelled. *)
From Coq Require Import List ZArith Bool.
From Verif Require Import Base.Word Base.Outcome Base.FBits C07.Model.
Local Open Scope Z_scope.

Definition json_decode (k : kind) (bs : list Z) : res Z := Err EUnsupported.

(* C07 — executable model of numeric decoding: wire bytes of one number item of a
   format -> destination kind -> stored value or error.

   Hand written (tied by correspondence, harness/cmd/c07): the per-format driver
   functions DecodeInt64/DecodeUint64/DecodeFloat64/DecodeFloat32 (cbor.go,
   msgpack.go, binc.go, simple.go), decNegintPosintFloatNumberHelper
   (decode.base.go) and the generic layer's narrowing (decode.go kInt8.. /
   the *intN fast switch).
   Translated from the current source on every run (Gen/Leaf.v): checkOverflow.*,
   noFrac64/32, decNegintPosintFloatNumberHelperInt64v, parseUint64_reader.
   Constants (descriptor bytes) come from Gen/Consts.v.

   Values: integers are Z; floats are IEEE bit patterns (Base/FBits.v). A
   stored float32 is its 32-bit pattern, a stored float64 its 64-bit pattern.

   NOT modelled: cbor tags (major type 6: bignum/decimal-fraction/bigfloat
   sources and SkipUnexpectedTags) — the model answers [Err EUnsupported] and
   the harness does not compare those; NaN payload bits. *)
From Coq Require Import List ZArith Bool Lia.
From Verif Require Import Base.Word Base.Outcome Base.FBits Gen.Consts Gen.Leaf.
Import ListNotations.
Local Open Scope Z_scope.

(* ---- destination kinds ---- *)
Inductive kind :=
| KInt8 | KInt16 | KInt32 | KInt64 | KInt
| KUint8 | KUint16 | KUint32 | KUint64 | KUint | KUintptr
| KFloat32 | KFloat64.

(* intBitsize / uintBitsize (helper.go:780) are reflect values, 64 on the pinned target *)
Definition wordBits : Z := 64.

(* ---- reader: the bytes after the descriptor ---- *)
Definition rd := list Z.

(* d.r.readnK(): K bytes, big-endian value; running out of input is an error *)
Definition readn (k : nat) (r : rd) : res (Z * rd) :=
  if Nat.ltb (length r) k then Err EEof else Ok (be_val 0 (firstn k r), skipn k r).

Definition readv (k : nat) (r : rd) : res Z :=
  do (v, _) <- readn k r ;; Ok v.

(* ---- float16 -> float32 bits: halfFloatToFloatBits (helper.go), exact ---- *)
Definition f16_to_f32 (h : Z) : Z :=
  let s := (h / 2 ^ 15) * 2 ^ 31 in
  let e := (h / 2 ^ 10) mod 32 in
  let m := h mod 2 ^ 10 in
  if e =? 31 then s + f32_inf + m * 2 ^ 13
  else if e =? 0 then s + fround 24 (-149) m (-24)
  else s + fround 24 (-149) (2 ^ 10 + m) (e - 25).

(* ---- decNegintPosintFloatNumberHelper (decode.base.go) ---- *)
Definition hlp_uint64 (ui : Z) (neg ok : bool) (decFloat : res (Z * bool)) : res Z :=
  if ok && negb neg then Ok ui
  else (* uint64TryFloat(ok) *)
    if ok then Err EOther (* negative value into unsigned *)
    else do (f, fok) <- decFloat ;;
         if fok && f64_le 0 f && noFrac64 f then Ok (f64_to_u64 f) else Err EOther.

Definition hlp_int64 (ui : Z) (neg ok cbor : bool) (decFloat : res (Z * bool)) : res Z :=
  if ok then decNegintPosintFloatNumberHelperInt64v ui neg cbor
  else do (f, fok) <- decFloat ;;
       if fok && noFrac64 f then Ok (f64_to_i64 f) else Err EOther.

Definition hlp_float64 (fl : res (Z * bool)) (cbor : bool) (decInteger : res (Z * bool * bool)) : res Z :=
  do (f, ok) <- fl ;;
  if ok then Ok f
  else do (ui, neg, iok) <- decInteger ;;
       if negb iok then Err EBadDesc
       else if negb neg then Ok (f64_of_int ui)   (* unsigned: float64(ui) directly *)
       else do i <- decNegintPosintFloatNumberHelperInt64v ui neg cbor ;; Ok (f64_of_int i).

(* ---- a driver: the four scalar decoders, on descriptor byte + following bytes ---- *)
Record driver := {
  dNil : Z -> bool;
  dInt64 : Z -> rd -> res Z;
  dUint64 : Z -> rd -> res Z;
  dFloat64 : Z -> rd -> res Z }.

(* ---- cbor (cbor.go) ---- *)
Definition cbor_decUint (bd : Z) (r : rd) : res Z :=
  let v := Z.land bd 31 in
  if v <=? 23 then Ok v
  else if v =? 24 then readv 1 r
  else if v =? 25 then readv 2 r
  else if v =? 26 then readv 4 r
  else if v =? 27 then readv 8 r
  else Err EBadDesc.

Definition cbor_decInteger (bd : Z) (r : rd) : res (Z * bool * bool) :=
  let mj := shr bd 5 in
  if mj =? cborMajorUint then do ui <- cbor_decUint bd r ;; Ok (ui, false, true)
  else if mj =? cborMajorNegInt then do ui <- cbor_decUint bd r ;; Ok (ui, true, true)
  else Ok (0, false, false).

Definition cbor_decFloat (bd : Z) (r : rd) : res (Z * bool) :=
  if bd =? cborBdFloat16 then do h <- readv 2 r ;; Ok (f32_to_f64 (f16_to_f32 h), true)
  else if bd =? cborBdFloat32 then do b <- readv 4 r ;; Ok (f32_to_f64 b, true)
  else if bd =? cborBdFloat64 then do b <- readv 8 r ;; Ok (b, true)
  else if shr bd 5 =? cborMajorTag then
    let t := Z.land bd 31 in
    if (2 <=? t) && (t <=? 5) then Err EUnsupported (* NOT MODELLED: bignum / decimal / bigfloat tags *)
    else Ok (0, false)
  else Ok (0, false).

Definition cbor_nil (bd : Z) : bool := (bd =? cborBdNil) || (bd =? cborBdUndefined).

Definition cbor_Int64 (bd : Z) (r : rd) : res Z :=
  if cbor_nil bd then Ok 0 else
  do (ui, neg, ok) <- cbor_decInteger bd r ;;
  hlp_int64 ui neg ok true (cbor_decFloat bd r).

Definition cbor_Uint64 (bd : Z) (r : rd) : res Z :=
  if cbor_nil bd then Ok 0 else
  do (ui, neg, ok) <- cbor_decInteger bd r ;;
  hlp_uint64 ui neg ok (cbor_decFloat bd r).

Definition cbor_Float64 (bd : Z) (r : rd) : res Z :=
  if cbor_nil bd then Ok 0 else
  hlp_float64 (cbor_decFloat bd r) true (cbor_decInteger bd r).

Definition cbor : driver := Build_driver cbor_nil cbor_Int64 cbor_Uint64 cbor_Float64.

(* ---- msgpack (msgpack.go) ---- *)
Definition mp_nil (bd : Z) : bool := bd =? mpNil.

(* decFloat4Int32 / decFloat4Int64 followed by int64(f) / uint64(f) *)
Definition mp_f32_int (r : rd) : res Z :=
  do b <- readv 4 r ;; if noFrac32 b then Ok (f32_to_f64 b) else Err EOther.
Definition mp_f64_int (r : rd) : res Z :=
  do b <- readv 8 r ;; if noFrac64 b then Ok b else Err EOther.

Definition mp_Int64 (bd : Z) (r : rd) : res Z :=
  if mp_nil bd then Ok 0
  else if bd =? mpUint8 then readv 1 r
  else if bd =? mpUint16 then readv 2 r
  else if bd =? mpUint32 then readv 4 r
  else if bd =? mpUint64 then do v <- readv 8 r ;; checkOverflow_SignedIntV v
  else if bd =? mpInt8 then do v <- readv 1 r ;; Ok (wraps 8 v)
  else if bd =? mpInt16 then do v <- readv 2 r ;; Ok (wraps 16 v)
  else if bd =? mpInt32 then do v <- readv 4 r ;; Ok (wraps 32 v)
  else if bd =? mpInt64 then do v <- readv 8 r ;; Ok (wraps 64 v)
  else if bd =? mpFloat then do f <- mp_f32_int r ;; Ok (f64_to_i64 f)
  else if bd =? mpDouble then do f <- mp_f64_int r ;; Ok (f64_to_i64 f)
  else if (mpPosFixNumMin <=? bd) && (bd <=? mpPosFixNumMax) then Ok (wraps 8 bd)
  else if (mpNegFixNumMin <=? bd) && (bd <=? mpNegFixNumMax) then Ok (wraps 8 bd)
  else Err EBadDesc.

Definition mp_nonneg (i : Z) : res Z := if 0 <=? i then Ok i else Err EOther.

Definition mp_Uint64 (bd : Z) (r : rd) : res Z :=
  if mp_nil bd then Ok 0
  else if bd =? mpUint8 then readv 1 r
  else if bd =? mpUint16 then readv 2 r
  else if bd =? mpUint32 then readv 4 r
  else if bd =? mpUint64 then readv 8 r
  else if bd =? mpInt8 then do v <- readv 1 r ;; mp_nonneg (wraps 8 v)
  else if bd =? mpInt16 then do v <- readv 2 r ;; mp_nonneg (wraps 16 v)
  else if bd =? mpInt32 then do v <- readv 4 r ;; mp_nonneg (wraps 32 v)
  else if bd =? mpInt64 then do v <- readv 8 r ;; mp_nonneg (wraps 64 v)
  else if bd =? mpFloat then do f <- mp_f32_int r ;; if f64_le 0 f then Ok (f64_to_u64 f) else Err EOther
  else if bd =? mpDouble then do f <- mp_f64_int r ;; if f64_le 0 f then Ok (f64_to_u64 f) else Err EOther
  else if (mpPosFixNumMin <=? bd) && (bd <=? mpPosFixNumMax) then Ok bd
  else if (mpNegFixNumMin <=? bd) && (bd <=? mpNegFixNumMax) then Err EOther
  else Err EBadDesc.

Definition mp_Float64 (bd : Z) (r : rd) : res Z :=
  if mp_nil bd then Ok 0
  else if bd =? mpFloat then do b <- readv 4 r ;; Ok (f32_to_f64 b)
  else if bd =? mpDouble then readv 8 r
  else if bd =? mpUint64 then do v <- readv 8 r ;; Ok (f64_of_int v)
  else do i <- mp_Int64 bd r ;; Ok (f64_of_int i).

Definition msgpack : driver := Build_driver mp_nil mp_Int64 mp_Uint64 mp_Float64.

(* ---- binc (binc.go) ---- *)
Definition binc_nil (bd : Z) : bool := bd =? bincBdNil.

Definition binc_decUint (vs : Z) (r : rd) : res Z :=
  if vs =? 0 then readv 1 r
  else if vs =? 1 then readv 2 r
  else if vs =? 2 then readv 3 r
  else if vs =? 3 then readv 4 r
  else if vs =? 4 then readv 5 r
  else if vs =? 5 then readv 6 r
  else if vs =? 6 then readv 7 r
  else if vs =? 7 then readv 8 r
  else Err EBadDesc.

(* decFloatPre32/64: full width, or (vs & 8) a length byte l <= maxlen, l bytes, zero padded on the right *)
Definition binc_floatPre (maxlen : nat) (vs : Z) (r : rd) : res Z :=
  if Z.land vs 8 =? 0 then readv maxlen r
  else do (l, r') <- readn 1 r ;;
       if Z.of_nat maxlen <? l then Err EOther
       else do v <- readv (Z.to_nat l) r' ;; Ok (v * 256 ^ (Z.of_nat maxlen - l)).

Definition binc_decFloatVal (vs : Z) (r : rd) : res Z :=
  let k := Z.land vs 7 in
  if k =? bincFlBin32 then do b <- binc_floatPre 4 vs r ;; Ok (f32_to_f64 b)
  else if k =? bincFlBin64 then binc_floatPre 8 vs r
  else Err EBadDesc.

Definition binc_decInteger (bd : Z) (r : rd) : res (Z * bool * bool) :=
  let vd := shr bd 4 in
  let vs := Z.land bd 15 in
  if vd =? bincVdPosInt then do ui <- binc_decUint vs r ;; Ok (ui, false, true)
  else if vd =? bincVdNegInt then do ui <- binc_decUint vs r ;; Ok (ui, true, true)
  else if vd =? bincVdSmallInt then Ok (vs + 1, false, true)
  else if vd =? bincVdSpecial then
    if vs =? bincSpZero then Ok (0, false, true)
    else if vs =? bincSpNegOne then Ok (1, true, true)
    else Ok (0, false, false)
  else Ok (0, false, false).

Definition f64_nan : Z := 9221120237041090561. (* math.NaN() = 0x7FF8000000000001 *)

Definition binc_decFloat (bd : Z) (r : rd) : res (Z * bool) :=
  let vd := shr bd 4 in
  let vs := Z.land bd 15 in
  if vd =? bincVdSpecial then
    if vs =? bincSpNan then Ok (f64_nan, true)
    else if vs =? bincSpPosInf then Ok (f64_inf, true)
    else if (vs =? bincSpZeroFloat) || (vs =? bincSpZero) then Ok (0, true)
    else if vs =? bincSpNegInf then Ok (2 ^ 63 + f64_inf, true)
    else Ok (0, false)
  else if vd =? bincVdFloat then do f <- binc_decFloatVal vs r ;; Ok (f, true)
  else Ok (0, false).

Definition binc_Int64 (bd : Z) (r : rd) : res Z :=
  if binc_nil bd then Ok 0 else
  do (ui, neg, ok) <- binc_decInteger bd r ;;
  hlp_int64 ui neg ok false (binc_decFloat bd r).

Definition binc_Uint64 (bd : Z) (r : rd) : res Z :=
  if binc_nil bd then Ok 0 else
  do (ui, neg, ok) <- binc_decInteger bd r ;;
  hlp_uint64 ui neg ok (binc_decFloat bd r).

Definition binc_Float64 (bd : Z) (r : rd) : res Z :=
  if binc_nil bd then Ok 0 else
  hlp_float64 (binc_decFloat bd r) false (binc_decInteger bd r).

Definition binc : driver := Build_driver binc_nil binc_Int64 binc_Uint64 binc_Float64.

(* ---- simple (simple.go) ---- *)
Definition simple_nil (bd : Z) : bool := bd =? simpleVdNil.

Definition simple_decInteger (bd : Z) (r : rd) : res (Z * bool * bool) :=
  if bd =? simpleVdPosInt then do v <- readv 1 r ;; Ok (v, false, true)
  else if bd =? simpleVdPosInt + 1 then do v <- readv 2 r ;; Ok (v, false, true)
  else if bd =? simpleVdPosInt + 2 then do v <- readv 4 r ;; Ok (v, false, true)
  else if bd =? simpleVdPosInt + 3 then do v <- readv 8 r ;; Ok (v, false, true)
  else if bd =? simpleVdNegInt then do v <- readv 1 r ;; Ok (v, true, true)
  else if bd =? simpleVdNegInt + 1 then do v <- readv 2 r ;; Ok (v, true, true)
  else if bd =? simpleVdNegInt + 2 then do v <- readv 4 r ;; Ok (v, true, true)
  else if bd =? simpleVdNegInt + 3 then do v <- readv 8 r ;; Ok (v, true, true)
  else Ok (0, false, false).

Definition simple_decFloat (bd : Z) (r : rd) : res (Z * bool) :=
  if bd =? simpleVdFloat32 then do b <- readv 4 r ;; Ok (f32_to_f64 b, true)
  else if bd =? simpleVdFloat64 then do b <- readv 8 r ;; Ok (b, true)
  else Ok (0, false).

Definition simple_Int64 (bd : Z) (r : rd) : res Z :=
  if simple_nil bd then Ok 0 else
  do (ui, neg, ok) <- simple_decInteger bd r ;;
  hlp_int64 ui neg ok false (simple_decFloat bd r).

Definition simple_Uint64 (bd : Z) (r : rd) : res Z :=
  if simple_nil bd then Ok 0 else
  do (ui, neg, ok) <- simple_decInteger bd r ;;
  hlp_uint64 ui neg ok (simple_decFloat bd r).

Definition simple_Float64 (bd : Z) (r : rd) : res Z :=
  if simple_nil bd then Ok 0 else
  hlp_float64 (simple_decFloat bd r) false (simple_decInteger bd r).

Definition simple : driver := Build_driver simple_nil simple_Int64 simple_Uint64 simple_Float64.

(* ---- the generic layer (decode.go kInt8 ... kFloat32 and the *intN switch) ---- *)
Definition narrow_int (w : Z) (r : res Z) : res Z :=
  do v <- r ;; do v' <- checkOverflow_IntV v w ;; Ok (wraps w v').
Definition narrow_uint (w : Z) (r : res Z) : res Z :=
  do v <- r ;; do v' <- checkOverflow_UintV v w ;; Ok (wrapu w v').

(* DecodeFloat32 of the four binary drivers: float32(chkOvf.Float32V(d.DecodeFloat64())) *)
Definition narrow_f32 (r : res Z) : res Z :=
  do f <- r ;; do f' <- checkOverflow_Float32V f ;; Ok (f64_to_f32 f').

Definition decode (d : driver) (k : kind) (bs : list Z) : res Z :=
  match bs with
  | [] => Err EEof
  | bd :: r =>
      match k with
      | KInt8 => narrow_int 8 (dInt64 d bd r)
      | KInt16 => narrow_int 16 (dInt64 d bd r)
      | KInt32 => narrow_int 32 (dInt64 d bd r)
      | KInt64 => dInt64 d bd r
      | KInt => narrow_int wordBits (dInt64 d bd r)
      | KUint8 => narrow_uint 8 (dUint64 d bd r)
      | KUint16 => narrow_uint 16 (dUint64 d bd r)
      | KUint32 => narrow_uint 32 (dUint64 d bd r)
      | KUint64 => dUint64 d bd r
      | KUint => narrow_uint wordBits (dUint64 d bd r)
      | KUintptr => narrow_uint wordBits (dUint64 d bd r)
      | KFloat32 => narrow_f32 (dFloat64 d bd r)
      | KFloat64 => dFloat64 d bd r
      end
  end.

Definition is_int_kind (k : kind) : bool :=
  match k with KFloat32 | KFloat64 => false | _ => true end.

(* the range of a destination kind *)
Definition kind_lo (k : kind) : Z :=
  match k with
  | KInt8 => - 2 ^ 7 | KInt16 => - 2 ^ 15 | KInt32 => - 2 ^ 31 | KInt64 | KInt => - 2 ^ 63
  | _ => 0
  end.
Definition kind_hi (k : kind) : Z :=
  match k with
  | KInt8 => 2 ^ 7 | KInt16 => 2 ^ 15 | KInt32 => 2 ^ 31 | KInt64 | KInt => 2 ^ 63
  | KUint8 => 2 ^ 8 | KUint16 => 2 ^ 16 | KUint32 => 2 ^ 32 | KUint64 | KUint | KUintptr => 2 ^ 64
  | KFloat32 => 2 ^ 32 | KFloat64 => 2 ^ 64
  end.

(* C07/LeafTie — hand-written pieces of C07/Model.v EQUAL the functions the translator regenerates
   from the current source of helper.go on every run (Gen/Leaf2.v), on their whole domain:

     f16_to_f32 (the binary16 -> binary32 step of cbor DecodeFloat64, written through [fround])
        = halfFloatToFloatBits, all 65536 uint16; the Go renormalisation loop ends within 10
          turns: for every fuel >= 11 the translation answers Ok, never OutOfFuel;
     be_val 0 [b0; ..] (the value [readn] gives to the 2 / 4 / 8 bytes after a descriptor)
        = bigen.Uint16 / Uint32 / Uint64, every [2]byte / [4]byte / [8]byte.

   An edit of one of these Go functions that changes its behaviour changes Gen/Leaf2.v and breaks
   the corresponding lemma (and C07_float_widen_src_tie). *)
From Coq Require Import List ZArith Bool Lia Arith.
From Verif Require Import Base.Word Base.Outcome Base.FBits C07.Model.
From Verif Require Gen.Leaf2.
Import ListNotations.
Local Open Scope Z_scope.

(* more fuel does not change an answer *)
(* stated and proved without naming the loop condition or the order of the two state variables (the translator
   lists them in declaration order: swapping the independent initialisations of m and e swaps the arguments) *)
Lemma half_loop_mono : forall f k a b r,
  Leaf2.halfFloatToFloatBits_loop1 f a b = Ok r -> Leaf2.halfFloatToFloatBits_loop1 (f + k) a b = Ok r.
Proof.
  induction f as [| f IH]; intros k a b r H; [discriminate |].
  cbn [Leaf2.halfFloatToFloatBits_loop1 Nat.add] in *. revert H.
  match goal with |- context [if ?c then _ else _] => destruct c end; intro H; [apply IH; exact H | exact H].
Qed.

Lemma half_mono : forall f k h r,
  Leaf2.halfFloatToFloatBits f h = Ok r -> Leaf2.halfFloatToFloatBits (f + k) h = Ok r.
Proof.
  intros f k h r. unfold Leaf2.halfFloatToFloatBits. cbv zeta.
  repeat match goal with |- context [if ?c then _ else _] =>
    lazymatch c with context [Leaf2.halfFloatToFloatBits_loop1] => fail | _ => destruct c end end; try (intro H; exact H).
  destruct (Leaf2.halfFloatToFloatBits_loop1 f _ _) as [[m e] | |] eqn:E; try discriminate.
  rewrite (half_loop_mono _ k _ _ _ E). intro H; exact H.
Qed.

Definition f16_tie_ok (h : Z) : bool :=
  match Leaf2.halfFloatToFloatBits 11 h with Ok z => z =? f16_to_f32 h | _ => false end.

Lemma f16_tie_sweep :
  forallb (fun hi => forallb (fun lo => f16_tie_ok (Z.of_nat hi * 256 + Z.of_nat lo)) (seq 0 256)) (seq 0 256) = true.
Proof. vm_compute. reflexivity. Qed.

Lemma f16_to_f32_tie : forall h, 0 <= h < 65536 -> forall fuel, (11 <= fuel)%nat ->
  Leaf2.halfFloatToFloatBits fuel h = Ok (f16_to_f32 h).
Proof.
  intros h Hh fuel Hf. pose proof f16_tie_sweep as S.
  rewrite forallb_forall in S.
  assert (Hd : 0 <= h / 256 < 256) by (split; [apply Z.div_pos; lia | apply Z.div_lt_upper_bound; lia]).
  assert (Hm : 0 <= h mod 256 < 256) by (apply Z.mod_pos_bound; lia).
  specialize (S (Z.to_nat (h / 256))).
  assert (Hin : In (Z.to_nat (h / 256)) (seq 0 256)) by (apply in_seq; lia).
  specialize (S Hin). rewrite forallb_forall in S.
  specialize (S (Z.to_nat (h mod 256))).
  assert (Hin2 : In (Z.to_nat (h mod 256)) (seq 0 256)) by (apply in_seq; lia).
  specialize (S Hin2). rewrite !Z2Nat.id in S by lia.
  replace (h / 256 * 256 + h mod 256) with h in S by (rewrite Z.mul_comm; apply Z.div_mod; lia).
  unfold f16_tie_ok in S.
  destruct (Leaf2.halfFloatToFloatBits 11 h) as [z | |] eqn:E; try discriminate.
  apply Z.eqb_eq in S. subst z.
  replace fuel with (11 + (fuel - 11))%nat by lia. apply half_mono. exact E.
Qed.

(* x | y<<k = x + y * 2^k when x < 2^k *)
Lemma lor_shl_add : forall x y k, 0 <= k -> 0 <= x < 2 ^ k -> 0 <= y -> Z.lor x (shl y k) = x + y * 2 ^ k.
Proof.
  intros x y k Hk Hx Hy. unfold shl. rewrite Z.shiftl_mul_pow2 by lia.
  assert (Hl : Z.land x (y * 2 ^ k) = 0).
  { apply Z.bits_inj'. intros n Hn. rewrite Z.land_spec, Z.bits_0.
    destruct (Z.ltb_spec n k) as [Hlt | Hge].
    - rewrite Z.mul_pow2_bits_low by lia. apply andb_false_r.
    - rewrite <- (Z.mod_small x (2 ^ k)) by lia. rewrite Z.mod_pow2_bits_high by lia. reflexivity. }
  rewrite <- Z.lxor_lor by exact Hl. symmetry. apply Z.add_nocarry_lxor. exact Hl.
Qed.

Definition byte (x : Z) : Prop := 0 <= x < 256.

(* the same with the operands of | the other way round (| is commutative: `hi<<8 | lo` or `lo | hi<<8`) *)
Lemma lor_shl_add_c : forall x y k, 0 <= k -> 0 <= x < 2 ^ k -> 0 <= y -> Z.lor (shl y k) x = x + y * 2 ^ k.
Proof. intros x y k Hk Hx Hy. rewrite Z.lor_comm. apply lor_shl_add; assumption. Qed.

Lemma uint16_tie : forall a b, byte a -> byte b -> Leaf2.bigenHelper_Uint16 [a; b] = be_val 0 [a; b].
Proof.
  unfold byte. intros a b Ha Hb. unfold Leaf2.bigenHelper_Uint16. cbv zeta. cbn [nth be_val].
  rewrite wrapu_id by (unfold in_u, shl; rewrite Z.shiftl_mul_pow2 by lia; lia).
  first [rewrite lor_shl_add by lia | rewrite lor_shl_add_c by lia]. lia.
Qed.

Lemma uint32_tie : forall a b c d, byte a -> byte b -> byte c -> byte d ->
  Leaf2.bigenHelper_Uint32 [a; b; c; d] = be_val 0 [a; b; c; d].
Proof.
  unfold byte. intros a b c d Ha Hb Hc Hd. unfold Leaf2.bigenHelper_Uint32. cbv zeta. cbn [nth be_val].
  rewrite !wrapu_id by (unfold in_u, shl; rewrite Z.shiftl_mul_pow2 by lia; lia).
  rewrite (lor_shl_add _ _ 8) by lia. rewrite (lor_shl_add _ _ 16) by lia. rewrite (lor_shl_add _ _ 24) by lia. lia.
Qed.

Lemma uint64_tie : forall a b c d e f g h,
  byte a -> byte b -> byte c -> byte d -> byte e -> byte f -> byte g -> byte h ->
  Leaf2.bigenHelper_Uint64 [a; b; c; d; e; f; g; h] = be_val 0 [a; b; c; d; e; f; g; h].
Proof.
  unfold byte. intros a b c d e f g h Ha Hb Hc Hd He Hf Hg Hh. unfold Leaf2.bigenHelper_Uint64. cbv zeta. cbn [nth be_val].
  rewrite !wrapu_id by (unfold in_u, shl; rewrite Z.shiftl_mul_pow2 by lia; lia).
  rewrite (lor_shl_add _ _ 8) by lia. rewrite (lor_shl_add _ _ 16) by lia. rewrite (lor_shl_add _ _ 24) by lia.
  rewrite (lor_shl_add _ _ 32) by lia. rewrite (lor_shl_add _ _ 40) by lia. rewrite (lor_shl_add _ _ 48) by lia.
  rewrite (lor_shl_add _ _ 56) by lia. lia.
Qed.

(* as used by Properties/C07.v *)
Lemma float_widen_src_tie :
  (forall h, 0 <= h < 65536 -> forall fuel : nat, (11 <= fuel)%nat ->
     Leaf2.halfFloatToFloatBits fuel h = Ok (f16_to_f32 h)) /\
  (forall a b, byte a -> byte b -> Leaf2.bigenHelper_Uint16 [a; b] = be_val 0 [a; b]) /\
  (forall a b c d, byte a -> byte b -> byte c -> byte d ->
     Leaf2.bigenHelper_Uint32 [a; b; c; d] = be_val 0 [a; b; c; d]) /\
  (forall a b c d e f g h, byte a -> byte b -> byte c -> byte d -> byte e -> byte f -> byte g -> byte h ->
     Leaf2.bigenHelper_Uint64 [a; b; c; d; e; f; g; h] = be_val 0 [a; b; c; d; e; f; g; h]).
Proof. repeat apply conj; [exact f16_to_f32_tie | exact uint16_tie | exact uint32_tie | exact uint64_tie]. Qed.

(* C07 — json number tokens into numeric destinations: lemmas behind C07_json_int,
   C07_json_int_complete_partial and C07_json_float (Properties/C07.v).

   Rest on: C09/ProofsNum.v (readFloat on literals of the grammar: exact mantissa and
   exponent whenever it answers ok), C09/ProofsNumAll.v (the guard readFloat applies,
   parseFloat_custom = correctly rounded or strconv), C07/ProofsJson.v (the translated
   parseUint64_reader scales exactly or fails), C07/Proofs.v (narrowing). *)
From Coq Require Import List NArith ZArith Bool Lia.
From Coq Require Import ZifyN ZifyNat ZifyBool.
From Verif Require Import C09.Spec C09.Model C09.ProofsNum C09.ProofsFast C09.ProofsNumAll C09.ProofsUint.
From Verif Require Import Base.Word Base.Outcome Base.FBits Gen.Consts Gen.Leaf
  C07.Model C07.ProofsLeaf C07.Proofs C07.ProofsJson C07.Json C07.JsonFloat.
Import ListNotations.
Open Scope bool_scope.
Local Open Scope Z_scope.

Ltac Zify.zify_post_hook ::= Z.div_mod_to_equations.

(* ---------- dec_eq: m * 10^e = m' * 10^e' as rationals ---------- *)
Lemma pow10_pos : forall k, 0 < 10 ^ k \/ k < 0.
Proof. intros k. destruct (Z_lt_ge_dec k 0); [right; lia|left; apply Z.pow_pos_nonneg; lia]. Qed.

Lemma dec_eq_at : forall m e m' e' k, k <= e -> k <= e' ->
  (dec_eq m e m' e' <-> m * 10 ^ (e - k) = m' * 10 ^ (e' - k)).
Proof.
  intros m e m' e' k He He'. unfold dec_eq.
  set (k0 := Z.min e e').
  assert (Hk : k <= k0) by (unfold k0; lia).
  assert (E1 : 10 ^ (e - k) = 10 ^ (e - k0) * 10 ^ (k0 - k))
    by (rewrite <- Z.pow_add_r by (unfold k0; lia); f_equal; lia).
  assert (E2 : 10 ^ (e' - k) = 10 ^ (e' - k0) * 10 ^ (k0 - k))
    by (rewrite <- Z.pow_add_r by (unfold k0; lia); f_equal; lia).
  assert (Hp : 0 < 10 ^ (k0 - k)) by (apply Z.pow_pos_nonneg; lia).
  rewrite E1, E2. rewrite !Z.mul_assoc. split; intros H.
  - rewrite H. reflexivity.
  - apply Z.mul_cancel_r in H; [exact H|lia].
Qed.

Lemma dec_eq_trans : forall a ea b eb c ec,
  dec_eq a ea b eb -> dec_eq b eb c ec -> dec_eq a ea c ec.
Proof.
  intros a ea b eb c ec H1 H2.
  set (k := Z.min ea (Z.min eb ec)).
  apply (dec_eq_at a ea b eb k) in H1; [|unfold k; lia ..].
  apply (dec_eq_at b eb c ec k) in H2; [|unfold k; lia ..].
  apply (dec_eq_at a ea c ec k); [unfold k; lia ..|]. congruence.
Qed.

(* dec_eq x 0 (s * m) e is what Json.lit_is_int spells out *)
Lemma dec_eq_int : forall x m e, dec_eq x 0 m e ->
  (0 <= e -> x = m * 10 ^ e) /\ (e < 0 -> x * 10 ^ (- e) = m).
Proof.
  intros x m e H. unfold dec_eq in H. split; intros He.
  - rewrite Z.min_l in H by lia. rewrite !Z.sub_0_r in H. rewrite Z.pow_0_r in H. lia.
  - rewrite Z.min_r in H by lia. replace (e - e) with 0 in H by lia. rewrite Z.pow_0_r in H.
    replace (0 - e) with (- e) in H by lia. lia.
Qed.

(* ---------- readFloat: the mantissa is a uint64, whatever the input ---------- *)
Lemma wu64_range : forall x, 0 <= wu64 x < 2 ^ 64.
Proof. intros x. unfold wu64. apply Z.mod_pos_bound. reflexivity. Qed.

Lemma rf_loop_lm : forall y s st, 0 <= lm st < 2 ^ 64 ->
  match rf_loop y s st with
  | LEnd st' => 0 <= lm st' < 2 ^ 64
  | LExp st' _ => 0 <= lm st' < 2 ^ 64
  | _ => True
  end.
Proof.
  intros y s. induction s as [|c r IH]; intros st H; [exact H|].
  cbn [rf_loop].
  repeat match goal with
  | |- context [if ?c then _ else _] => destruct c
  end; try exact I; try exact H; try (apply IH; cbn [lm]; first [exact H | apply wu64_range]).
Qed.

Lemma finish_mant : forall y neg st d, 0 <= lm st < 2 ^ 64 -> 0 <= mant (rf_finish y neg st d) < 2 ^ 64.
Proof.
  intros y neg st d H. unfold rf_finish.
  repeat match goal with |- context [if ?c then _ else _] => destruct c end; cbn [mant]; lia.
Qed.

Lemma readFloat_mant : forall s y, 0 <= mant (readFloat s y) < 2 ^ 64.
Proof.
  intros s y. unfold readFloat. destruct s as [|c0 t0]; [cbn; lia|].
  rewrite rf_main_eq.
  match goal with |- context [if ?c then _ else _] => destruct c end; [cbn; lia|].
  unfold post.
  match goal with |- context [rf_loop ?a ?b ?c] => pose proof (rf_loop_lm a b c) as HL; destruct (rf_loop a b c) as [| |st rest|st] end;
    try (cbn; lia).
  - specialize (HL ltac:(cbn; lia)).
    match goal with |- context [rf_exp ?a ?b] => destruct (rf_exp a b) end; try (cbn; lia).
    apply finish_mant. exact HL.
  - apply finish_mant. apply HL. cbn. lia.
Qed.

(* ---------- parseUint64_simple: ok only on a run of digits, without wrap-around ---------- *)
Lemma pus_app : forall ds rest acc u,
  forallb is_digit ds = true -> 0 <= acc < 2 ^ 64 ->
  pus_loop (map dchar ds ++ rest) acc = (u, true) ->
  0 <= dval ds acc < 2 ^ 64 /\ pus_loop rest (dval ds acc) = (u, true).
Proof.
  induction ds as [|d ds IH]; intros rest acc u Hd Ha H.
  - cbn [map app dval fold_left] in *. split; [exact Ha|exact H].
  - cbn [forallb] in Hd. apply andb_true_iff in Hd. destruct Hd as [Hd1 Hd2].
    unfold is_digit in Hd1. apply N.ltb_lt in Hd1.
    destruct (dchar_tests d Hd1) as (_ & _ & _ & T4 & _ & T6 & _ & _ & T9).
    cbn [map app pus_loop] in H. rewrite T9 in H. cbn [negb] in H. rewrite orb_false_r in H.
    pose proof cutoff_val as CV. rewrite fBase_val in H.
    destruct (fUint64Cutoff <=? acc) eqn:Ec; [discriminate|].
    rewrite T4, T6 in H. rewrite dval_cons.
    destruct (d =? 0)%N eqn:E0.
    + assert (d = 0%N) by lia. subst d. rewrite wu64_id in H by lia.
      replace (10 * acc + Z.of_N 0) with (acc * 10) by lia.
      apply IH; [exact Hd2|lia|exact H].
    + destruct (wu64 (acc * 10 + Z.of_N d) <? acc) eqn:Ew; [discriminate|].
      assert (Hno : acc * 10 + Z.of_N d < 2 ^ 64).
      { destruct (Z_lt_ge_dec (acc * 10 + Z.of_N d) (2 ^ 64)) as [|Hge]; [assumption|].
        exfalso. unfold wu64 in Ew.
        replace (acc * 10 + Z.of_N d) with ((acc * 10 + Z.of_N d - 2 ^ 64) + 1 * 2 ^ 64) in Ew by lia.
        rewrite Z.mod_add in Ew by lia. rewrite Z.mod_small in Ew by lia. lia. }
      rewrite wu64_id in H by lia.
      replace (10 * acc + Z.of_N d) with (acc * 10 + Z.of_N d) by lia.
      apply IH; [exact Hd2|lia|exact H].
Qed.

(* ---------- the literal without its sign ---------- *)
Definition unsign (n : numlit) : numlit := mknum false (nint n) (nfrac n) (nexp n).

Lemma render_unsign : forall upper n,
  render_num upper n = (if nneg n then [45%N] else []) ++ render_num upper (unsign n).
Proof. intros. rewrite !render_split. reflexivity. Qed.

Lemma wf_unsign : forall n, wf_numlit (unsign n) = wf_numlit n.
Proof. reflexivity. Qed.

Lemma int_head : forall n, wf_numlit n = true ->
  exists d tl, (d < 10)%N /\ nint n = d :: tl.
Proof.
  intros n H. unfold wf_numlit in H.
  apply andb_true_iff in H. destruct H as [H _]. apply andb_true_iff in H. destruct H as [Hi _].
  destruct (wf_int_digits _ Hi) as [Hd Hne].
  destruct (nint n) as [|d tl]; [contradiction|]. exists d, tl. split; [|reflexivity].
  cbn [forallb] in Hd. apply andb_true_iff in Hd. destruct Hd as [Hd _]. unfold is_digit in Hd. lia.
Qed.

(* parseInteger_bytes after the sign has been taken off *)
Definition pib_tail (b1 : list N) (neg : bool) : res (Z * bool * bool) :=
  let '(u, ok) := parseUint64_simple b1 in
  if ok then Ok (u, neg, true)
  else
    let r := readFloat b1 fi64u in
    if rok r then
      do (u2, fail) <- parseUint64_reader (to_leaf r) ;;
      if (fail : bool) then Ok (0, neg, false) else Ok (u2, neg, true)
    else Ok (u, neg, false).

Lemma pib_render : forall n upper, wf_numlit n = true ->
  parseInteger_bytes (render_num upper n) = pib_tail (render_num upper (unsign n)) (nneg n).
Proof.
  intros n upper Hwf. rewrite render_unsign.
  destruct (int_head n Hwf) as (d & tl & Hd & Hi).
  assert (Hr : exists tl', render_num upper (unsign n) = dchar d :: tl').
  { rewrite render_split. cbn [nneg unsign nint app]. rewrite Hi. cbn [map app]. eexists. reflexivity. }
  destruct Hr as [tl' Hr]. rewrite Hr.
  destruct (dchar_tests d Hd) as (_ & _ & _ & _ & _ & _ & T7 & _ & _).
  destruct (nneg n); cbn [app]; unfold parseInteger_bytes.
  - change (45 =? 45)%N with true. cbn [andb is_nil]. reflexivity.
  - rewrite T7. cbn [andb]. reflexivity.
Qed.

Lemma nodigit_pus : forall c r acc u, isdig c = false -> pus_loop (c :: r) acc <> (u, true).
Proof.
  intros c r acc u Hc H. cbn [pus_loop] in H. rewrite Hc in H. cbn [negb] in H. rewrite orb_true_r in H. discriminate.
Qed.

Lemma pib_tail_lit : forall n upper u neg neg',
  wf_numlit n = true -> nneg n = false -> Z.of_nat (length (render_num upper n)) < 2 ^ 61 ->
  pib_tail (render_num upper n) neg = Ok (u, neg', true) ->
  neg' = neg /\ 0 <= u < 2 ^ 64 /\ dec_eq u 0 (dmant n) (dexp n).
Proof.
  intros n upper u neg neg' Hwf Hneg Hlen H. unfold pib_tail in H.
  destruct (parseUint64_simple (render_num upper n)) as [u0 ok] eqn:Eps.
  destruct ok.
  - (* a plain run of digits *)
    inversion H; subst u0 neg'; clear H. split; [reflexivity|].
    assert (Hp : pus_loop (render_num upper n) 0 = (u, true)).
    { unfold parseUint64_simple in Eps.
      destruct (render_num upper n) as [|z [|z2 r]]; try exact Eps.
      destruct (z =? 48)%N; [discriminate|exact Eps]. }
    rewrite render_split, Hneg in Hp. cbn [app] in Hp.
    pose proof Hwf as Hwf'. unfold wf_numlit in Hwf'.
    apply andb_true_iff in Hwf'. destruct Hwf' as [Hwf' _]. apply andb_true_iff in Hwf'. destruct Hwf' as [Hi _].
    destruct (wf_int_digits _ Hi) as [Hid _].
    apply pus_app in Hp; [|exact Hid|lia]. destruct Hp as [Hb Hp].
    unfold dmant, dexp.
    destruct (nfrac n) as [f|].
    { exfalso. cbn [frac_chars app] in Hp. revert Hp. apply nodigit_pus. reflexivity. }
    destruct (nexp n) as [[s e]|].
    { exfalso. cbn [frac_chars exp_chars app] in Hp. revert Hp. apply nodigit_pus. destruct upper; reflexivity. }
    cbn [frac_chars exp_chars app pus_loop] in Hp. inversion Hp; subst u; clear Hp.
    rewrite app_nil_r. rewrite ival_dval. split; [exact Hb|].
    unfold dec_eq. reflexivity.
  - (* through readFloat and the translated parseUint64_reader *)
    set (r := readFloat (render_num upper n) fi64u) in *.
    destruct (rok r) eqn:Eok; [|discriminate].
    destruct (parseUint64_reader (to_leaf r)) as [[u2 fail]| |] eqn:Epr; cbn [bind] in H; try discriminate.
    destruct fail; [discriminate|]. inversion H; subst u2 neg'; clear H. split; [reflexivity|].
    pose proof (readFloat_mant (render_num upper n) fi64u) as Hm. fold r in Hm.
    pose proof (readFloat_guard _ fi64u fi64u_ok Eok) as Hg. fold r in Hg.
    assert (He : - 128 <= rexp r < 128).
    { destruct Hg as [[_ ->]|[Hr _]]; [lia|]. cbn in Hr. lia. }
    destruct (parseUint64_reader_spec (to_leaf r) u) as (Hu & Hpos & Hnegv); [exact Hm|exact He|exact Epr|].
    cbn [to_leaf readFloatResult_mantissa readFloatResult_exp] in Hpos, Hnegv.
    split; [exact Hu|].
    destruct (readfloat_lemma n upper fi64u Hwf fi64u_ok Hlen) as (_ & _ & G3 & _). fold r in G3.
    specialize (G3 Eok).
    apply dec_eq_trans with (b := mant r) (eb := rexp r); [|exact G3].
    unfold dec_eq. destruct (Z_lt_ge_dec (rexp r) 0) as [Hlt|Hge].
    + rewrite Z.min_r by lia. replace (rexp r - rexp r) with 0 by lia. rewrite Z.pow_0_r.
      replace (0 - rexp r) with (- rexp r) by lia. rewrite (Hnegv Hlt). lia.
    + rewrite Z.min_l by lia. rewrite !Z.sub_0_r, Z.pow_0_r. rewrite (Hpos ltac:(lia)). lia.
Qed.

Lemma length_unsign : forall upper n,
  (length (render_num upper (unsign n)) <= length (render_num upper n))%nat.
Proof. intros. rewrite (render_unsign upper n). rewrite app_length. lia. Qed.

(* parseInteger_bytes on the text of a literal: ok implies the exact value *)
Lemma pib_lit : forall n upper u neg,
  wf_numlit n = true -> Z.of_nat (length (render_num upper n)) < 2 ^ 61 ->
  parseInteger_bytes (render_num upper n) = Ok (u, neg, true) ->
  neg = nneg n /\ 0 <= u < 2 ^ 64 /\ dec_eq u 0 (dmant n) (dexp n).
Proof.
  intros n upper u neg Hwf Hlen H. rewrite (pib_render n upper Hwf) in H.
  apply (pib_tail_lit (unsign n) upper u (nneg n) neg) in H;
    [exact H|exact Hwf|reflexivity|pose proof (length_unsign upper n); lia].
Qed.

(* ---------- DecodeUint64 / DecodeInt64 ---------- *)
Lemma lit_int_of_dec_eq : forall n u, dec_eq u 0 (dmant n) (dexp n) ->
  lit_is_int n (if nneg n then - u else u).
Proof.
  intros n u H. apply dec_eq_int in H. destruct H as [H1 H2].
  unfold lit_is_int, lit_signed_mant. destruct (nneg n); split; intros He.
  - rewrite (H1 He). ring.
  - rewrite <- (H2 He). ring.
  - exact (H1 He).
  - exact (H2 He).
Qed.

Lemma json_uint64_lit : forall n upper x,
  wf_numlit n = true -> Z.of_nat (length (render_num upper n)) < 2 ^ 61 ->
  json_DecodeUint64 (render_num upper n) = Ok x ->
  lit_is_int n x /\ 0 <= x < 2 ^ 64.
Proof.
  intros n upper x Hwf Hlen H. unfold json_DecodeUint64 in H.
  destruct (parseInteger_bytes (render_num upper n)) as [[[u neg] ok]| |] eqn:E; cbn [bind] in H; try discriminate.
  destruct neg; [discriminate|]. destruct ok; cbn [negb] in H; [|discriminate].
  inversion H; subst u; clear H.
  destruct (pib_lit n upper x false Hwf Hlen E) as (Hn & Hx & Hd).
  split; [|exact Hx]. pose proof (lit_int_of_dec_eq n x Hd) as L. rewrite <- Hn in L. exact L.
Qed.

Lemma json_int64_lit : forall n upper x,
  wf_numlit n = true -> Z.of_nat (length (render_num upper n)) < 2 ^ 61 ->
  json_DecodeInt64 (render_num upper n) = Ok x ->
  lit_is_int n x /\ - 2 ^ 63 <= x < 2 ^ 63.
Proof.
  intros n upper x Hwf Hlen H. unfold json_DecodeInt64 in H.
  destruct (parseInteger_bytes (render_num upper n)) as [[[u neg] ok]| |] eqn:E; cbn [bind] in H; try discriminate.
  destruct ok; cbn [negb] in H; [|discriminate].
  destruct (checkOverflow_Uint2Int u neg) eqn:Eo; [discriminate|].
  destruct (pib_lit n upper u neg Hwf Hlen E) as (Hn & Hu & Hd).
  pose proof (lit_int_of_dec_eq n u Hd) as L. rewrite <- Hn in L.
  unfold checkOverflow_Uint2Int in Eo.
  assert (Hx : x = (if neg then - u else u) /\ - 2 ^ 63 <= x < 2 ^ 63).
  { inversion H; subst x; clear H. unfold wraps. pows. destruct neg; cbn [negb] in Eo; brk; try discriminate; lia. }
  destruct Hx as [-> Hr]. split; [exact L|exact Hr].
Qed.

(* ---------- every integer destination kind ---------- *)
Lemma json_int_lemma : forall (sc : bfmt -> list N -> option Z) (n : numlit) (upper : bool) (k : kind) (x : Z),
  wf_numlit n = true -> Z.of_nat (length (render_num upper n)) < 2 ^ 61 ->
  is_int_kind k = true ->
  json_decode sc k (render_num upper n) = Ok x ->
  lit_is_int n x /\ kind_lo k <= x < kind_hi k.
Proof.
  intros sc n upper k x Hwf Hlen Hk H.
  pose proof (json_int64_lit n upper) as HI. pose proof (json_uint64_lit n upper) as HU.
  destruct k; try discriminate; unfold json_decode in H; cbn [kind_lo kind_hi];
    try (destruct (json_DecodeInt64 (render_num upper n)) as [v| |] eqn:E;
           [|unfold narrow_int in H; cbn [bind] in H; discriminate ..];
         destruct (HI v Hwf Hlen eq_refl) as [L Hv];
         apply narrow_int_ok in H; [|unfold wordBits; tauto|exact Hv]; destruct H as [-> Hr];
         split; [exact L|cbn in Hr; exact Hr]);
    try (destruct (json_DecodeUint64 (render_num upper n)) as [v| |] eqn:E;
           [|unfold narrow_uint in H; cbn [bind] in H; discriminate ..];
         destruct (HU v Hwf Hlen eq_refl) as [L Hv];
         apply narrow_uint_ok in H; [|unfold wordBits; tauto|exact Hv]; destruct H as [-> Hr];
         split; [exact L|cbn in Hr; exact Hr]).
  - exact (HI x Hwf Hlen H).
  - exact (HU x Hwf Hlen H).
Qed.

(* ---------- completeness on plain integer literals (no fraction, no exponent) ---------- *)
Lemma IntV_complete : forall v w,
  (w = 8 \/ w = 16 \/ w = 32 \/ w = 64) -> - 2 ^ (w - 1) <= v < 2 ^ (w - 1) ->
  checkOverflow_IntV v w = Ok v.
Proof.
  intros v w Hw Hv. unfold checkOverflow_IntV, checkOverflow_Int.
  destruct Hw as [-> | [-> | [-> | ->]]];
    [ change (wrapu 8 (64 - 8)) with 56 | change (wrapu 8 (64 - 16)) with 48
    | change (wrapu 8 (64 - 32)) with 32 | change (wrapu 8 (64 - 64)) with 0 ];
    unfold shl, shr, wrapu, wraps;
    rewrite ?Z.shiftl_mul_pow2, ?Z.shiftr_div_pow2 by lia;
    change (2 ^ 56) with 72057594037927936; change (2 ^ 48) with 281474976710656; change (2 ^ 0) with 1;
    pows; brk; try reflexivity; exfalso; lia.
Qed.

Lemma UintV_complete : forall v w,
  (w = 8 \/ w = 16 \/ w = 32 \/ w = 64) -> 0 <= v < 2 ^ w ->
  checkOverflow_UintV v w = Ok v.
Proof.
  intros v w Hw Hv. unfold checkOverflow_UintV, checkOverflow_Uint.
  destruct Hw as [-> | [-> | [-> | ->]]];
    [ change (wrapu 8 (64 - 8)) with 56 | change (wrapu 8 (64 - 16)) with 48
    | change (wrapu 8 (64 - 32)) with 32 | change (wrapu 8 (64 - 64)) with 0 ];
    unfold shl, shr, wrapu, wraps;
    rewrite ?Z.shiftl_mul_pow2, ?Z.shiftr_div_pow2 by lia;
    change (2 ^ 56) with 72057594037927936; change (2 ^ 48) with 281474976710656; change (2 ^ 0) with 1;
    pows; brk; try reflexivity; exfalso; lia.
Qed.

Lemma narrow_int_complete : forall w v,
  (w = 8 \/ w = 16 \/ w = 32 \/ w = 64) -> - 2 ^ (w - 1) <= v < 2 ^ (w - 1) ->
  narrow_int w (Ok v) = Ok v.
Proof.
  intros w v Hw Hv. unfold narrow_int. cbn [bind]. rewrite (IntV_complete v w Hw Hv). cbn [bind].
  rewrite wraps_id; [reflexivity|destruct Hw as [-> | [-> | [-> | ->]]]; lia|exact Hv].
Qed.

Lemma narrow_uint_complete : forall w v,
  (w = 8 \/ w = 16 \/ w = 32 \/ w = 64) -> 0 <= v < 2 ^ w ->
  narrow_uint w (Ok v) = Ok v.
Proof.
  intros w v Hw Hv. unfold narrow_uint. cbn [bind]. rewrite (UintV_complete v w Hw Hv). cbn [bind].
  rewrite wrapu_id; [reflexivity|exact Hv].
Qed.

Definition plain_int (n : numlit) : Prop := nfrac n = None /\ nexp n = None.

Lemma pib_plain : forall n upper,
  wf_numlit n = true -> plain_int n -> ival (nint n) < 2 ^ 64 ->
  parseInteger_bytes (render_num upper n) = Ok (ival (nint n), nneg n, true).
Proof.
  intros n upper Hwf [Hf He] Hv. rewrite (pib_render n upper Hwf).
  assert (Hr : render_num upper (unsign n) = map dchar (nint n)).
  { rewrite render_split. cbn [nneg unsign nint nfrac nexp app]. rewrite Hf, He. cbn [frac_chars exp_chars].
    rewrite !app_nil_r. reflexivity. }
  rewrite Hr.
  pose proof Hwf as Hwf'. unfold wf_numlit in Hwf'.
  apply andb_true_iff in Hwf'. destruct Hwf' as [Hwf' _]. apply andb_true_iff in Hwf'. destruct Hwf' as [Hi _].
  destruct (wf_int_digits _ Hi) as [Hd _].
  assert (Hp : pus_loop (map dchar (nint n)) 0 = (ival (nint n), true)).
  { rewrite pus_digits; [rewrite <- ival_dval; reflexivity|exact Hd|lia|rewrite <- ival_dval; exact Hv]. }
  assert (Hs : parseUint64_simple (map dchar (nint n)) = (ival (nint n), true)).
  { unfold parseUint64_simple.
    destruct (nint n) as [|d [|d2 r]]; [discriminate|exact Hp|].
    cbn [map]. cbn [map] in Hp.
    cbn [wf_int] in Hi. apply andb_true_iff in Hi. destruct Hi as [Hi _]. apply andb_true_iff in Hi. destruct Hi as [H1 H2].
    replace (dchar d =? 48)%N with false; [exact Hp|].
    symmetry. unfold dchar. unfold is_digit in H1. lia. }
  unfold pib_tail. rewrite Hs. reflexivity.
Qed.

Lemma json_int_complete : forall (sc : bfmt -> list N -> option Z) (n : numlit) (upper : bool) (k : kind),
  wf_numlit n = true -> plain_int n -> is_int_kind k = true ->
  kind_lo k <= lit_signed_mant n < kind_hi k ->
  (kind_lo k = 0 -> nneg n = false) ->
  json_decode sc k (render_num upper n) = Ok (lit_signed_mant n).
Proof.
  intros sc n upper k Hwf Hp Hk Hr Hu.
  pose proof (ival_nonneg (nint n)) as H0.
  assert (Hm : dmant n = ival (nint n)).
  { unfold dmant. destruct Hp as [-> _]. rewrite app_nil_r. reflexivity. }
  unfold lit_signed_mant in *. rewrite Hm in *.
  assert (Hlt : ival (nint n) < 2 ^ 64).
  { destruct k; try discriminate; cbn [kind_lo kind_hi] in Hr; destruct (nneg n); pows; lia. }
  pose proof (pib_plain n upper Hwf Hp Hlt) as E.
  assert (HI : (if nneg n then - ival (nint n) else ival (nint n)) < 2 ^ 63 ->
               - 2 ^ 63 <= (if nneg n then - ival (nint n) else ival (nint n)) ->
               json_DecodeInt64 (render_num upper n) = Ok (if nneg n then - ival (nint n) else ival (nint n))).
  { intros A B. unfold json_DecodeInt64. rewrite E. cbn [bind negb].
    unfold checkOverflow_Uint2Int, wraps. pows.
    destruct (nneg n); cbn [negb]; brk; try (exfalso; lia); f_equal; lia. }
  assert (HU : nneg n = false -> json_DecodeUint64 (render_num upper n) = Ok (ival (nint n))).
  { intros A. unfold json_DecodeUint64. rewrite E, A. reflexivity. }
  destruct k; try discriminate; unfold json_decode; cbn [kind_lo kind_hi] in Hr, Hu;
    try (rewrite HI by (pows; lia); first [reflexivity | apply narrow_int_complete; [unfold wordBits; tauto|cbn; pows; lia]]);
    try (rewrite (HU (Hu eq_refl)); rewrite (Hu eq_refl) in *;
         first [reflexivity | apply narrow_uint_complete; [unfold wordBits; tauto|cbn; pows; lia]]).
Qed.

(* ---------- float destinations ---------- *)
Lemma render_not_nil : forall n upper, wf_numlit n = true -> is_nil (render_num upper n) = false.
Proof.
  intros n upper Hwf. rewrite render_split. destruct (int_head n Hwf) as (d & tl & _ & Hi). rewrite Hi.
  destruct (nneg n); reflexivity.
Qed.

Lemma json_float_lemma : forall (sc : bfmt -> list N -> option Z) (n : numlit) (upper : bool) (b : Z),
  wf_numlit n = true -> Z.of_nat (length (render_num upper n)) < 2 ^ 61 ->
  (json_decode sc KFloat64 (render_num upper n) = Ok b ->
     (b = num_bits binary64 n /\ is_finite binary64 b = true) \/ sc binary64 (render_num upper n) = Some b) /\
  (json_decode sc KFloat32 (render_num upper n) = Ok b ->
     (b = num_bits binary32 n /\ is_finite binary32 b = true) \/ sc binary32 (render_num upper n) = Some b).
Proof.
  intros sc n upper b Hwf Hlen.
  unfold json_decode, json_DecodeFloat64, json_DecodeFloat32, json_DecodeFloat.
  rewrite (render_not_nil n upper Hwf). split; intros H.
  - destruct (num64_fin sc n upper Hwf Hlen) as [[E F]|E]; rewrite E in H.
    + inversion H; subst b. left. split; [reflexivity|exact F].
    + destruct (sc binary64 (render_num upper n)) as [b'|]; [|discriminate]. inversion H; subst b'. right. reflexivity.
  - destruct (num32_fin sc n upper Hwf Hlen) as [[E F]|E]; rewrite E in H.
    + inversion H; subst b. left. split; [reflexivity|exact F].
    + destruct (sc binary32 (render_num upper n)) as [b'|]; [|discriminate]. inversion H; subst b'. right. reflexivity.
Qed.

(* with an oracle that is correctly rounded and reports overflow as an error on this text *)
Definition oracle_ok (sc : bfmt -> list N -> option Z) (n : numlit) (s : list N) : Prop :=
  forall f b, sc f s = Some b -> b = num_bits f n /\ is_finite f b = true.

Lemma json_float_rounded : forall (sc : bfmt -> list N -> option Z) (n : numlit) (upper : bool) (b : Z),
  wf_numlit n = true -> Z.of_nat (length (render_num upper n)) < 2 ^ 61 ->
  oracle_ok sc n (render_num upper n) ->
  (json_decode sc KFloat64 (render_num upper n) = Ok b -> b = num_bits binary64 n /\ is_finite binary64 b = true) /\
  (json_decode sc KFloat32 (render_num upper n) = Ok b -> b = num_bits binary32 n /\ is_finite binary32 b = true).
Proof.
  intros sc n upper b Hwf Hlen Ho.
  destruct (json_float_lemma sc n upper b Hwf Hlen) as [H64 H32].
  split; intros H; [destruct (H64 H) as [A|A]|destruct (H32 H) as [A|A]]; try exact A; exact (Ho _ _ A).
Qed.

(* C07 — noFrac64 (translated) accepts exactly floats that are integers of magnitude < 2^52 *)
From Coq Require Import List ZArith Bool Lia ZifyBool.
From Verif Require Import Base.Word Base.Outcome Base.FBits Gen.Consts Gen.Leaf C07.ProofsLeaf.
Import ListNotations.
Local Open Scope Z_scope.

Ltac Zify.zify_post_hook ::= Z.div_mod_to_equations.

Lemma noFrac64_fields : forall f,
  0 <= f < 2 ^ 64 -> f <> 0 -> noFrac64 f = true ->
  exists k, 0 <= k <= 51 /\ (f / 2 ^ 52) mod 2048 = 1023 + k /\ f mod 2 ^ (52 - k) = 0.
Proof.
  intros f Hf Hnz H. unfold noFrac64 in H.
  destruct (f =? 0) eqn:E0; [lia|]. cbv zeta in H.
  unfold shr in H. rewrite Z.shiftr_div_pow2 in H by lia.
  change 2047 with (Z.ones 11) in H. rewrite Z.land_ones in H by lia. change (2 ^ 11) with 2048 in H.
  set (e := (f / 2 ^ 52) mod 2048) in *.
  assert (He : 0 <= e < 2048) by (subst e; apply Z.mod_pos_bound; lia).
  destruct (wrapu 64 (e - 1023) <? 52) eqn:E1; [|discriminate].
  assert (Hk : 1023 <= e <= 1074).
  { unfold wrapu in E1. pows. lia. }
  assert (W1 : wrapu 64 (e - 1023) = e - 1023) by (apply wrapu_id; unfold in_u; pows; lia).
  rewrite W1 in H.
  assert (W2 : wrapu 64 (12 + (e - 1023)) = e - 1011) by (rewrite wrapu_id; unfold in_u; pows; lia).
  rewrite W2 in H.
  exists (e - 1023). split; [lia|]. split; [lia|].
  unfold shl, wrapu in H. rewrite Z.shiftl_mul_pow2 in H by lia.
  apply Z.eqb_eq in H.
  replace (2 ^ 64) with (2 ^ (52 - (e - 1023)) * 2 ^ (e - 1011)) in H
    by (rewrite <- Z.pow_add_r by lia; f_equal; lia).
  rewrite Z.mul_mod_distr_r in H.
  - apply Z.mul_eq_0 in H. destruct H as [H | H]; [exact H|].
    pose proof (Z.pow_pos_nonneg 2 (e - 1011) ltac:(lia) ltac:(lia)). lia.
  - pose proof (Z.pow_pos_nonneg 2 (52 - (e - 1023)) ltac:(lia) ltac:(lia)). lia.
  - pose proof (Z.pow_pos_nonneg 2 (e - 1011) ltac:(lia) ltac:(lia)). lia.
Qed.

Lemma noFrac64_int : forall f,
  0 <= f < 2 ^ 64 -> noFrac64 f = true ->
  exists z, f64_scaled f = Some (z * 2 ^ 1074) /\ f64_to_i64 f = z /\ - 2 ^ 52 < z < 2 ^ 52
            /\ (f < 2 ^ 63 -> f64_to_u64 f = z /\ 0 <= z).
Proof.
  intros f Hf H.
  destruct (Z.eq_dec f 0) as [-> | Hnz].
  { exists 0. repeat apply conj; try (vm_compute; reflexivity); try (vm_compute; intuition congruence). }
  destruct (noFrac64_fields f Hf Hnz H) as (k & Hk & He & Hm).
  set (P := 2 ^ (52 - k)) in *.
  assert (HP : 0 < P) by (apply Z.pow_pos_nonneg; lia).
  assert (HP52 : 2 ^ 52 = 2 ^ k * P) by (unfold P; rewrite <- Z.pow_add_r by lia; f_equal; lia).
  set (m := f mod 2 ^ 52).
  assert (Hmm : m mod P = 0).
  { unfold m. rewrite HP52. rewrite Z.mul_comm. rewrite Z.rem_mul_r by (try lia; apply Z.pow_nonzero; lia).
    rewrite Hm. rewrite Z.mul_comm, Z.add_0_l. rewrite Z.mod_mul; lia. }
  assert (Hmr : 0 <= m < 2 ^ 52) by (apply Z.mod_pos_bound; lia).
  set (mg := (2 ^ 52 + m) / P).
  assert (Hmg : 2 ^ 52 + m = mg * P).
  { unfold mg. pose proof (Z.div_mod (2 ^ 52 + m) P ltac:(lia)) as D.
    assert ((2 ^ 52 + m) mod P = 0).
    { rewrite Z.add_mod by lia. rewrite Hmm. rewrite HP52. rewrite Z.mod_mul by lia. reflexivity. }
    lia. }
  assert (Hmgr : 0 < mg < 2 ^ 52).
  { assert (2 ^ k <= mg) by (apply Z.mul_le_mono_pos_r with P; lia).
    assert (0 < 2 ^ k) by (apply Z.pow_pos_nonneg; lia).
    assert (mg < 2 ^ (k + 1)).
    { apply Z.mul_lt_mono_pos_r with P; [lia|]. rewrite <- Hmg.
      rewrite Z.pow_add_r by lia. change (2 ^ 1) with 2. lia. }
    assert (2 ^ (k + 1) <= 2 ^ 52) by (apply Z.pow_le_mono_r; lia).
    lia. }
  (* the fields *)
  assert (Hbexp : f64_bexp f = 1023 + k) by exact He.
  assert (Hmant : f64_mant f = m) by reflexivity.
  assert (HM : f64_M f = 2 ^ 52 + m).
  { unfold f64_M. rewrite Hbexp, Hmant. destruct (1023 + k =? 0) eqn:E; [lia|reflexivity]. }
  assert (HE : f64_E f = k - 52).
  { unfold f64_E. rewrite Hbexp. destruct (1023 + k =? 0) eqn:E; lia. }
  assert (Hfin : f64_finite f = true).
  { unfold f64_finite, f64_abs, f64_inf. unfold f64_bexp in Hbexp.
    change (2 ^ 52) with 4503599627370496 in *. pows. lia. }
  assert (Htr : f64_trunc f = if f64_sign f =? 0 then mg else - mg).
  { unfold f64_trunc. rewrite HM, HE. destruct (0 <=? k - 52) eqn:E; [lia|].
    replace (- (k - 52)) with (52 - k) by lia. fold P. fold mg. reflexivity. }
  assert (Hsc : f64_M f * 2 ^ (f64_E f + 1074) = mg * 2 ^ 1074).
  { rewrite HM, HE, Hmg. replace (2 ^ 1074) with (P * 2 ^ (k - 52 + 1074)).
    - ring.
    - unfold P. rewrite <- Z.pow_add_r by lia. f_equal. lia. }
  assert (Hsign : f64_sign f = 0 \/ f64_sign f = 1).
  { unfold f64_sign. pows. lia. }
  exists (if f64_sign f =? 0 then mg else - mg).
  repeat apply conj.
  - unfold f64_scaled. rewrite Hfin, Hsc. f_equal. destruct (f64_sign f =? 0); ring.
  - unfold f64_to_i64. rewrite Hfin, Htr. pows.
    change (2 ^ 52) with 4503599627370496 in *.
    destruct (f64_sign f =? 0); cbn [andb];
      repeat match goal with |- context [if ?c then _ else _] => destruct c eqn:? end; lia.
  - destruct (f64_sign f =? 0); lia.
  - destruct (f64_sign f =? 0); lia.
  - intros Hpos. assert (Hs0 : f64_sign f = 0) by (unfold f64_sign; pows; lia).
    unfold f64_to_u64. rewrite Hfin, Htr, Hs0. cbn [Z.eqb andb]. pows.
    change (2 ^ 52) with 4503599627370496 in *.
    repeat match goal with |- context [if ?c then _ else _] => destruct c eqn:? end; lia.
Qed.

(* C07 — the float conversions of the model (Base/FBits.v: the bit-level model of the
   hardware conversions, tied to the hardware by the correspondence cases) are IEEE-754
   round-to-nearest-even / exact, stated on the (sign, exponent, significand) decomposition. *)
From Coq Require Import List ZArith Bool Lia ZifyBool.
From Verif Require Import Base.Word Base.Outcome Base.FBits Gen.Consts Gen.Leaf
  C07.Model C07.Spec C07.ProofsLeaf C07.ProofsFrac C07.Proofs.
Import ListNotations.
Local Open Scope Z_scope.

Ltac Zify.zify_post_hook ::= Z.div_mod_to_equations.

(* m is M / 2^s rounded to the nearest integer, ties to even (s <= 0: the exact product) *)
Definition is_rne (M s m : Z) : Prop :=
  if s <=? 0 then m = M * 2 ^ (- s)
  else 2 * Z.abs (M - m * 2 ^ s) <= 2 ^ s /\ (2 * Z.abs (M - m * 2 ^ s) = 2 ^ s -> Z.even m = true).

(* the exponent of the last place of M * 2^E in a format with p significand bits and least exponent emin *)
Definition quantum (p emin M E : Z) : Z := Z.max (Z.log2 M + E - (p - 1)) emin.

Lemma rne_shift_spec : forall M s, 0 <= M -> 0 < s ->
  M / 2 ^ s <= rne_shift M s <= M / 2 ^ s + 1 /\
  is_rne M s (rne_shift M s) /\
  (M mod 2 ^ s = 0 -> rne_shift M s = M / 2 ^ s).
Proof.
  intros M s HM Hs. unfold is_rne. destruct (s <=? 0) eqn:E; [lia|]. unfold rne_shift.
  assert (HP : 2 ^ s = 2 * 2 ^ (s - 1)).
  { replace s with (1 + (s - 1)) at 1 by lia. rewrite Z.pow_add_r by lia. reflexivity. }
  assert (Hh : 0 < 2 ^ (s - 1)) by (apply Z.pow_pos_nonneg; lia).
  set (P := 2 ^ s) in *. set (h := 2 ^ (s - 1)) in *.
  pose proof (Z.div_mod M P ltac:(lia)) as D. pose proof (Z.mod_pos_bound M P ltac:(lia)) as B.
  set (q := M / P) in *. set (r := M mod P) in *. clearbody P h q r.
  cbv zeta.
  destruct (r <? h) eqn:E1.
  { repeat apply conj; try lia. }
  destruct (h <? r) eqn:E2.
  { repeat apply conj; try lia. }
  assert (r = h) by lia.
  destruct (Z.even q) eqn:Ev.
  - repeat apply conj; try lia. intros _. exact Ev.
  - repeat apply conj; try lia. intros _. rewrite Z.even_add. rewrite Ev. reflexivity.
Qed.

(* ---- reading back a magnitude pattern k * 2^(p-1) + m ---- *)
Lemma decode64 : forall k m B,
  0 <= k -> 0 <= m <= 2 ^ 53 -> (0 < k -> 2 ^ 52 <= m) -> B = k * 2 ^ 52 + m -> B < f64_inf ->
  0 <= B < 2 ^ 63 /\ f64_finite B = true /\ f64_sign B = 0 /\
  f64_M B * 2 ^ (f64_E B + 1074) = m * 2 ^ k.
Proof.
  intros k m B Hk Hm Hn HB Hinf. unfold f64_inf in Hinf.
  change (2 ^ 53) with 9007199254740992 in *. change (2 ^ 52) with 4503599627370496 in *.
  assert (R : 0 <= B < 2 ^ 63) by (pows; lia).
  split; [exact R|].
  assert (Hfin : f64_finite B = true).
  { unfold f64_finite, f64_abs, f64_inf. change (2 ^ 52) with 4503599627370496. pows. lia. }
  split; [exact Hfin|]. split; [unfold f64_sign; pows; lia|].
  unfold f64_M, f64_E, f64_bexp, f64_mant. change (2 ^ 52) with 4503599627370496.
  destruct (Z_lt_dec m 4503599627370496) as [Hs|Hs].
  - (* subnormal: k = 0 *)
    assert (k = 0) by lia. subst k.
    replace ((B / 4503599627370496) mod 2048) with 0 by lia.
    cbn [Z.eqb]. replace (B mod 4503599627370496) with m by lia. cbn. lia.
  - destruct (Z.eq_dec m 9007199254740992) as [Hc|Hc].
    + (* carry into the next binade *)
      replace ((B / 4503599627370496) mod 2048) with (k + 2) by lia.
      destruct (k + 2 =? 0) eqn:E; [lia|].
      replace (B mod 4503599627370496) with 0 by lia.
      replace (k + 2 - 1075 + 1074) with (1 + k) by lia. rewrite Z.pow_add_r by lia. subst m. lia.
    + replace ((B / 4503599627370496) mod 2048) with (k + 1) by lia.
      destruct (k + 1 =? 0) eqn:E; [lia|].
      replace (B mod 4503599627370496) with (m - 4503599627370496) by lia.
      replace (k + 1 - 1075 + 1074) with k by lia. f_equal. lia.
Qed.

Lemma decode32 : forall k m B,
  0 <= k -> 0 <= m <= 2 ^ 24 -> (0 < k -> 2 ^ 23 <= m) -> B = k * 2 ^ 23 + m -> B < f32_inf ->
  0 <= B < 2 ^ 31 /\ f32_finite B = true /\ f32_sign B = 0 /\
  f32_M B * 2 ^ (f32_E B + 1074) = m * 2 ^ (k + 925).
Proof.
  intros k m B Hk Hm Hn HB Hinf. unfold f32_inf in Hinf.
  change (2 ^ 24) with 16777216 in *. change (2 ^ 23) with 8388608 in *.
  assert (R : 0 <= B < 2 ^ 31) by (pows; lia).
  split; [exact R|].
  assert (Hfin : f32_finite B = true).
  { unfold f32_finite, f32_abs, f32_inf. change (2 ^ 23) with 8388608. pows. lia. }
  split; [exact Hfin|]. split; [unfold f32_sign; pows; lia|].
  unfold f32_M, f32_E, f32_bexp, f32_mant. change (2 ^ 23) with 8388608.
  destruct (Z_lt_dec m 8388608) as [Hs|Hs].
  - assert (k = 0) by lia. subst k.
    replace ((B / 8388608) mod 256) with 0 by lia.
    cbn [Z.eqb]. replace (B mod 8388608) with m by lia. cbn. lia.
  - destruct (Z.eq_dec m 16777216) as [Hc|Hc].
    + replace ((B / 8388608) mod 256) with (k + 2) by lia.
      destruct (k + 2 =? 0) eqn:E; [lia|].
      replace (B mod 8388608) with 0 by lia.
      replace (k + 2 - 150 + 1074) with (1 + (k + 925)) by lia. rewrite (Z.pow_add_r 2 1) by lia. subst m. lia.
    + replace ((B / 8388608) mod 256) with (k + 1) by lia.
      destruct (k + 1 =? 0) eqn:E; [lia|].
      replace (B mod 8388608) with (m - 8388608) by lia.
      replace (k + 1 - 150 + 1074) with (k + 925) by lia. f_equal. lia.
Qed.

(* ---- the significand fround produces ---- *)
Definition fmant (p emin M E : Z) : Z :=
  let s := quantum p emin M E - E in
  if s <=? 0 then M * 2 ^ (- s) else rne_shift M s.

Lemma fround_parts : forall p emin M E,
  2 <= p -> 0 < M ->
  let q := quantum p emin M E in
  let m := fmant p emin M E in
  fround p emin M E = (q - emin) * 2 ^ (p - 1) + m /\
  emin <= q /\ 0 <= m <= 2 ^ p /\ (emin < q -> 2 ^ (p - 1) <= m) /\ is_rne M (q - E) m.
Proof.
  intros p emin M E Hp HM q m.
  assert (HL := Z.log2_spec M HM). set (L := Z.log2 M) in *.
  assert (HL0 : 0 <= L) by apply Z.log2_nonneg.
  split.
  { unfold fround. destruct (M =? 0) eqn:E0; [lia|]. reflexivity. }
  split; [unfold q, quantum; lia|].
  assert (Hq : L + E - (p - 1) <= q) by (unfold q, quantum; fold L; lia).
  assert (Hqn : emin < q -> q = L + E - (p - 1)) by (unfold q, quantum; fold L; lia).
  unfold m, fmant. fold q. set (s := q - E) in *.
  destruct (s <=? 0) eqn:Es.
  - (* exact *)
    assert (Hs : s <= 0) by lia.
    assert (Hpos : 0 < 2 ^ (- s)) by (apply Z.pow_pos_nonneg; lia).
    split; [|split].
    + split; [nia|].
      assert (M * 2 ^ (- s) < 2 ^ (L + 1 - s)).
      { replace (L + 1 - s) with ((L + 1) + (- s)) by lia. rewrite Z.pow_add_r by lia.
        apply Z.mul_lt_mono_pos_r; lia. }
      assert (2 ^ (L + 1 - s) <= 2 ^ p) by (apply Z.pow_le_mono_r; lia). lia.
    + intros Hn. specialize (Hqn Hn).
      assert (- s = (p - 1) - L) by lia.
      replace (2 ^ (p - 1)) with (2 ^ L * 2 ^ (- s)) by (rewrite <- Z.pow_add_r by lia; f_equal; lia).
      apply Z.mul_le_mono_pos_r; lia.
    + unfold is_rne. rewrite Es. reflexivity.
  - assert (Hs : 0 < s) by lia.
    destruct (rne_shift_spec M s ltac:(lia) Hs) as (Hb & Hr & _).
    assert (HPs : 0 < 2 ^ s) by (apply Z.pow_pos_nonneg; lia).
    assert (Hd0 : 0 <= M / 2 ^ s) by (apply Z.div_pos; lia).
    split; [|split].
    + split; [lia|].
      destruct (Z_le_dec 0 (L + 1 - s)) as [Hc|Hc].
      * assert (M / 2 ^ s < 2 ^ (L + 1 - s)).
        { apply Z.div_lt_upper_bound; [lia|]. rewrite <- Z.pow_add_r by lia.
          replace (s + (L + 1 - s)) with (L + 1) by lia. lia. }
        assert (2 ^ (L + 1 - s) <= 2 ^ p) by (apply Z.pow_le_mono_r; lia). lia.
      * assert (M < 2 ^ s).
        { assert (2 ^ (L + 1) <= 2 ^ s) by (apply Z.pow_le_mono_r; lia). lia. }
        rewrite Z.div_small in Hb by lia.
        assert (2 <= 2 ^ p) by (change 2 with (2 ^ 1) at 1; apply Z.pow_le_mono_r; lia). lia.
    + intros Hn. specialize (Hqn Hn).
      assert (s = L - (p - 1)) by lia.
      assert (2 ^ (p - 1) <= M / 2 ^ s).
      { apply Z.div_le_lower_bound; [lia|]. rewrite <- Z.pow_add_r by lia.
        replace (s + (p - 1)) with L by lia. lia. }
      lia.
    + exact Hr.
Qed.

Lemma is_rne_exact : forall M s m, 0 < s -> M mod 2 ^ s = 0 -> is_rne M s m -> M = m * 2 ^ s.
Proof.
  intros M s m Hs Hd H. unfold is_rne in H. destruct (s <=? 0) eqn:E; [lia|]. destruct H as [H _].
  assert (HP : 0 < 2 ^ s) by (apply Z.pow_pos_nonneg; lia).
  pose proof (Z.div_mod M (2 ^ s) ltac:(lia)) as D. rewrite Hd in D.
  set (P := 2 ^ s) in *. set (c := M / P) in *. clearbody P c.
  destruct (Z.eq_dec c m) as [-> | Hne]; [lia|]. exfalso.
  assert (H1 : 1 <= Z.abs (c - m)) by lia.
  replace (M - m * P) with ((c - m) * P) in H by lia.
  rewrite Z.abs_mul in H. rewrite (Z.abs_eq P) in H by lia.
  assert (P <= Z.abs (c - m) * P) by nia. lia.
Qed.

(* adding the sign bit leaves the magnitude's fields alone *)
Lemma f64_with_sign : forall sg B, 0 <= B < 2 ^ 63 -> (sg = 0 \/ sg = 1) ->
  f64_sign (sg * 2 ^ 63 + B) = sg /\ f64_abs (sg * 2 ^ 63 + B) = B /\
  f64_M (sg * 2 ^ 63 + B) = f64_M B /\ f64_E (sg * 2 ^ 63 + B) = f64_E B /\
  f64_finite (sg * 2 ^ 63 + B) = f64_finite B /\ f64_abs B = B.
Proof.
  intros sg B HB Hs.
  assert (A : f64_abs (sg * 2 ^ 63 + B) = B) by (unfold f64_abs; pows; lia).
  assert (A0 : f64_abs B = B) by (unfold f64_abs; pows; lia).
  assert (Ex : f64_bexp (sg * 2 ^ 63 + B) = f64_bexp B).
  { unfold f64_bexp. change (2 ^ 52) with 4503599627370496. pows. lia. }
  assert (Mx : f64_mant (sg * 2 ^ 63 + B) = f64_mant B).
  { unfold f64_mant. change (2 ^ 52) with 4503599627370496. pows. lia. }
  repeat apply conj; try assumption.
  - unfold f64_sign. pows. lia.
  - unfold f64_M. rewrite Ex, Mx. reflexivity.
  - unfold f64_E. rewrite Ex. reflexivity.
  - unfold f64_finite. rewrite A, A0. reflexivity.
Qed.

Lemma f32_with_sign : forall sg B, 0 <= B < 2 ^ 31 -> (sg = 0 \/ sg = 1) ->
  f32_sign (sg * 2 ^ 31 + B) = sg /\ f32_abs (sg * 2 ^ 31 + B) = B /\
  f32_M (sg * 2 ^ 31 + B) = f32_M B /\ f32_E (sg * 2 ^ 31 + B) = f32_E B /\
  f32_finite (sg * 2 ^ 31 + B) = f32_finite B /\ f32_abs B = B.
Proof.
  intros sg B HB Hs.
  assert (A : f32_abs (sg * 2 ^ 31 + B) = B) by (unfold f32_abs; pows; lia).
  assert (A0 : f32_abs B = B) by (unfold f32_abs; pows; lia).
  assert (Ex : f32_bexp (sg * 2 ^ 31 + B) = f32_bexp B).
  { unfold f32_bexp. change (2 ^ 23) with 8388608. pows. lia. }
  assert (Mx : f32_mant (sg * 2 ^ 31 + B) = f32_mant B).
  { unfold f32_mant. change (2 ^ 23) with 8388608. pows. lia. }
  repeat apply conj; try assumption.
  - unfold f32_sign. pows. lia.
  - unfold f32_M. rewrite Ex, Mx. reflexivity.
  - unfold f32_E. rewrite Ex. reflexivity.
  - unfold f32_finite. rewrite A, A0. reflexivity.
Qed.

(* ---- integer -> binary64 ---- *)
Lemma f64_of_int_rne : forall n, n <> 0 -> Z.abs n < 2 ^ 64 ->
  let x := f64_of_int n in
  let q := Z.log2 (Z.abs n) - 52 in
  0 <= x < 2 ^ 64 /\ f64_finite x = true /\ f64_sign x = (if n <? 0 then 1 else 0) /\
  exists m, is_rne (Z.abs n) q m /\ f64_M x * 2 ^ (f64_E x + 1074) = m * 2 ^ (q + 1074).
Proof.
  intros n Hn Hb x q. set (M := Z.abs n) in *. assert (HM : 0 < M) by lia.
  destruct (fround_parts 53 (-1074) M 0 ltac:(lia) HM) as (Hf & Hq0 & Hm & Hnorm & Hr).
  assert (HL := Z.log2_spec M HM). assert (HL0 : 0 <= Z.log2 M) by apply Z.log2_nonneg.
  assert (HL1 : Z.log2 M < 64) by (apply Z.log2_lt_pow2; lia).
  assert (Hq : quantum 53 (-1074) M 0 = q) by (unfold quantum, q; lia).
  rewrite Hq in *. replace (q - 0) with q in Hr by lia.
  set (m := fmant 53 (-1074) M 0) in *. set (B := fround 53 (-1074) M 0) in *.
  change (53 - 1) with 52 in *.
  destruct (decode64 (q - -1074) m B ltac:(lia) Hm ltac:(intros; apply Hnorm; lia) Hf) as (HB & Hfin & _ & Hv).
  { rewrite Hf. unfold f64_inf. change (2 ^ 53) with 9007199254740992 in *. change (2 ^ 52) with 4503599627370496 in *. lia. }
  set (sg := if n <? 0 then 1 else 0).
  assert (Hx : x = sg * 2 ^ 63 + B).
  { unfold x, f64_of_int, sg. fold M. fold B. destruct (n <? 0); lia. }
  destruct (f64_with_sign sg B HB ltac:(unfold sg; destruct (n <? 0); lia)) as (S1 & S2 & S3 & S4 & S5 & S6).
  rewrite Hx. repeat apply conj.
  - unfold sg; destruct (n <? 0); pows; lia.
  - unfold sg; destruct (n <? 0); pows; lia.
  - rewrite S5. exact Hfin.
  - exact S1.
  - exists m. split; [exact Hr|]. rewrite S3, S4. rewrite Hv. replace (q - -1074) with (q + 1074) by lia. reflexivity.
Qed.

(* exact up to 2^53 *)
Lemma f64_of_int_exact : forall n, Z.abs n <= 2 ^ 53 -> f64_scaled (f64_of_int n) = Some (n * 2 ^ 1074).
Proof.
  intros n Hn. destruct (Z.eq_dec n 0) as [-> | Hnz]; [vm_compute; reflexivity|].
  change (2 ^ 53) with 9007199254740992 in Hn.
  destruct (f64_of_int_rne n Hnz ltac:(pows; lia)) as (Hx & Hfin & Hsg & m & Hr & Hv).
  unfold f64_scaled. rewrite Hfin, Hsg. f_equal.
  set (M := Z.abs n) in *. assert (HM : 0 < M) by lia.
  assert (HL := Z.log2_spec M HM). assert (HL0 : 0 <= Z.log2 M) by apply Z.log2_nonneg.
  set (L := Z.log2 M) in *.
  assert (HL1 : L <= 53).
  { destruct (Z_le_dec L 53); [assumption|exfalso].
    assert (2 ^ 54 <= 2 ^ L) by (apply Z.pow_le_mono_r; lia). change (2 ^ 54) with 18014398509481984 in *. lia. }
  assert (Hval : m * 2 ^ (L - 52 + 1074) = M * 2 ^ 1074).
  { unfold is_rne in Hr. destruct (L - 52 <=? 0) eqn:E.
    - rewrite Hr. rewrite <- Z.mul_assoc. rewrite <- Z.pow_add_r by lia. f_equal. f_equal. lia.
    - assert (L = 53) by lia.
      assert (M = 9007199254740992).
      { assert (2 ^ 53 <= M) by (replace 53 with L by lia; lia). change (2 ^ 53) with 9007199254740992 in *. lia. }
      replace (L - 52) with 1 in * by lia. change (2 ^ 1) with 2 in Hr.
      assert (m = 4503599627370496) by lia. subst m. rewrite H0. reflexivity. }
  rewrite Hv, Hval. unfold M. destruct (n <? 0) eqn:E; cbn [Z.eqb]; lia.
Qed.

(* ---- binary32 -> binary64 is exact ---- *)
Lemma f32_fields_aux : forall b mt hi e sg ab,
  b = 8388608 * hi + mt -> 0 <= mt < 8388608 -> hi = 256 * sg + e -> 0 <= e < 256 ->
  b = 2147483648 * sg + ab -> 0 <= ab < 2147483648 -> 0 <= b < 4294967296 -> ab < 2139095040 ->
  (sg = 0 \/ sg = 1) /\
  0 <= (if e =? 0 then mt else 8388608 + mt) < 16777216 /\
  - 149 <= (if e =? 0 then -149 else e - 150) <= 104 /\
  ((if e =? 0 then -149 else e - 150) > -149 -> 8388608 <= (if e =? 0 then mt else 8388608 + mt)) /\
  b = sg * 2147483648 + ((if e =? 0 then -149 else e - 150) + 149) * 8388608 + (if e =? 0 then mt else 8388608 + mt).
Proof. intros. destruct (e =? 0) eqn:E; repeat apply conj; lia. Qed.

Lemma f32_fields : forall b, 0 <= b < 2 ^ 32 -> f32_finite b = true ->
  (f32_sign b = 0 \/ f32_sign b = 1) /\ 0 <= f32_M b < 2 ^ 24 /\ - 149 <= f32_E b <= 104 /\
  (f32_E b > -149 -> 2 ^ 23 <= f32_M b) /\
  b = f32_sign b * 2 ^ 31 + (f32_E b + 149) * 2 ^ 23 + f32_M b.
Proof.
  intros b Hb Hf.
  assert (Hf' : b mod 2147483648 < 2139095040).
  { unfold f32_finite, f32_abs, f32_inf in Hf. apply Z.ltb_lt in Hf. exact Hf. }
  assert (D3 : b / 8388608 / 256 = b / 2147483648) by (rewrite Z.div_div by lia; reflexivity).
  pose proof (Z.div_mod (b / 8388608) 256 ltac:(lia)) as D2. rewrite D3 in D2.
  exact (f32_fields_aux b (b mod 8388608) (b / 8388608) ((b / 8388608) mod 256) (b / 2147483648) (b mod 2147483648)
    (Z.div_mod b 8388608 ltac:(lia)) (Z.mod_pos_bound b 8388608 ltac:(lia)) D2
    (Z.mod_pos_bound (b / 8388608) 256 ltac:(lia)) (Z.div_mod b 2147483648 ltac:(lia))
    (Z.mod_pos_bound b 2147483648 ltac:(lia)) Hb Hf').
Qed.

Lemma f32_to_f64_finite : forall b, 0 <= b < 2 ^ 32 -> f32_finite b = true ->
  0 <= f32_to_f64 b < 2 ^ 64 /\ f64_scaled (f32_to_f64 b) = f32_scaled b.
Proof.
  intros b Hb Hf. destruct (f32_fields b Hb Hf) as (Hs & HM & HE & Hn & _).
  unfold f32_to_f64. assert (Hnan : f32_isnan b = false).
  { unfold f32_isnan. unfold f32_finite in Hf. lia. }
  assert (Hinf : f32_isinf b = false).
  { unfold f32_isinf. unfold f32_finite in Hf. lia. }
  rewrite Hnan, Hinf. unfold f32_scaled. rewrite Hf.
  set (M := f32_M b) in *. set (E := f32_E b) in *. set (sg := f32_sign b) in *.
  destruct (Z.eq_dec M 0) as [HM0 | HM0].
  { rewrite HM0. change (fround 53 (-1074) 0 E) with 0. rewrite Z.add_0_r.
    destruct Hs as [-> | ->]; (split; [pows; lia|]); vm_compute; reflexivity. }
  assert (HMp : 0 < M) by lia.
  destruct (fround_parts 53 (-1074) M E ltac:(lia) HMp) as (Hfr & Hq0 & Hm & Hnorm & Hr).
  assert (HL := Z.log2_spec M HMp). assert (HL0 : 0 <= Z.log2 M) by apply Z.log2_nonneg.
  assert (HL1 : Z.log2 M < 24) by (apply Z.log2_lt_pow2; lia).
  set (L := Z.log2 M) in *.
  assert (Hq : quantum 53 (-1074) M E = L + E - 52) by (unfold quantum; fold L; lia).
  rewrite Hq in *. set (q := L + E - 52) in *.
  set (m := fmant 53 (-1074) M E) in *. set (B := fround 53 (-1074) M E) in *.
  change (53 - 1) with 52 in *.
  destruct (decode64 (q - -1074) m B ltac:(lia) Hm ltac:(intros; apply Hnorm; lia) Hfr) as (HB & Hfin & _ & Hv).
  { rewrite Hfr. unfold f64_inf. change (2 ^ 53) with 9007199254740992 in *. change (2 ^ 52) with 4503599627370496 in *. lia. }
  destruct (f64_with_sign sg B HB Hs) as (S1 & S2 & S3 & S4 & S5 & S6).
  split; [destruct Hs as [-> | ->]; pows; lia|].
  unfold f64_scaled. rewrite S5, Hfin, S1, S3, S4, Hv. f_equal. f_equal.
  unfold is_rne in Hr. replace (q - E <=? 0) with true in Hr by (unfold q; lia).
  rewrite Hr. rewrite <- Z.mul_assoc. rewrite <- Z.pow_add_r by (unfold q; lia). f_equal. f_equal. unfold q. lia.
Qed.

Lemma f32_to_f64_special : forall b, 0 <= b < 2 ^ 32 ->
  (f32_isinf b = true -> f32_to_f64 b = f32_sign b * 2 ^ 63 + f64_inf) /\
  (f32_isnan b = true -> f64_isnan (f32_to_f64 b) = true).
Proof.
  intros b Hb. split; intros H.
  - unfold f32_to_f64. assert (f32_isnan b = false).
    { unfold f32_isnan, f32_isinf in *. lia. }
    rewrite H0, H. reflexivity.
  - unfold f32_to_f64. rewrite H. unfold f64_isnan, f64_abs, f64_inf, f32_sign, f32_mant.
    change (2 ^ 52) with 4503599627370496. change (2 ^ 51) with 2251799813685248. change (2 ^ 29) with 536870912.
    change (2 ^ 23) with 8388608. pows. lia.
Qed.

(* ---- binary64 -> binary32: round to nearest even, finite results for magnitudes <= MaxFloat32 ---- *)
Lemma f64_fields_aux : forall b mt hi e sg ab,
  b = 4503599627370496 * hi + mt -> 0 <= mt < 4503599627370496 -> hi = 2048 * sg + e -> 0 <= e < 2048 ->
  b = 9223372036854775808 * sg + ab -> 0 <= ab < 9223372036854775808 -> 0 <= b < 18446744073709551616 ->
  ab < 9218868437227405312 ->
  (sg = 0 \/ sg = 1) /\
  0 <= (if e =? 0 then mt else 4503599627370496 + mt) < 9007199254740992 /\
  - 1074 <= (if e =? 0 then -1074 else e - 1075) <= 971 /\
  ((if e =? 0 then -1074 else e - 1075) > -1074 -> 4503599627370496 <= (if e =? 0 then mt else 4503599627370496 + mt)) /\
  ab = ((if e =? 0 then -1074 else e - 1075) + 1074) * 4503599627370496 + (if e =? 0 then mt else 4503599627370496 + mt).
Proof. intros. destruct (e =? 0) eqn:E; repeat apply conj; lia. Qed.

Lemma f64_fields : forall b, 0 <= b < 2 ^ 64 -> f64_finite b = true ->
  (f64_sign b = 0 \/ f64_sign b = 1) /\ 0 <= f64_M b < 2 ^ 53 /\ - 1074 <= f64_E b <= 971 /\
  (f64_E b > -1074 -> 2 ^ 52 <= f64_M b) /\
  f64_abs b = (f64_E b + 1074) * 2 ^ 52 + f64_M b.
Proof.
  intros b Hb Hf.
  assert (Hf' : b mod 9223372036854775808 < 9218868437227405312).
  { unfold f64_finite, f64_abs, f64_inf in Hf. apply Z.ltb_lt in Hf. exact Hf. }
  assert (D3 : b / 4503599627370496 / 2048 = b / 9223372036854775808) by (rewrite Z.div_div by lia; reflexivity).
  pose proof (Z.div_mod (b / 4503599627370496) 2048 ltac:(lia)) as D2. rewrite D3 in D2.
  exact (f64_fields_aux b (b mod 4503599627370496) (b / 4503599627370496) ((b / 4503599627370496) mod 2048)
    (b / 9223372036854775808) (b mod 9223372036854775808)
    (Z.div_mod b 4503599627370496 ltac:(lia)) (Z.mod_pos_bound b 4503599627370496 ltac:(lia)) D2
    (Z.mod_pos_bound (b / 4503599627370496) 2048 ltac:(lia)) (Z.div_mod b 9223372036854775808 ltac:(lia))
    (Z.mod_pos_bound b 9223372036854775808 ltac:(lia)) Hb Hf').
Qed.

Lemma f64_to_f32_finite : forall b, 0 <= b < 2 ^ 64 -> f64_finite b = true -> f64_abs b <= f64_maxf32 ->
  let x := f64_to_f32 b in
  let q := quantum 24 (-149) (f64_M b) (f64_E b) in
  0 <= x < 2 ^ 32 /\ f32_finite x = true /\ f32_sign x = f64_sign b /\
  (f64_M b = 0 -> f32_abs x = 0) /\
  (0 < f64_M b -> exists m, is_rne (f64_M b) (q - f64_E b) m /\ f32_M x * 2 ^ (f32_E x + 1074) = m * 2 ^ (q + 1074)).
Proof.
  intros b Hb Hf Hmax x q.
  destruct (f64_fields b Hb Hf) as (Hs & HM & HE & Hn & Hab).
  assert (Hnan : f64_isnan b = false) by (unfold f64_isnan; unfold f64_finite in Hf; lia).
  assert (Hinf : f64_isinf b = false) by (unfold f64_isinf; unfold f64_finite in Hf; lia).
  unfold x, f64_to_f32. rewrite Hnan, Hinf.
  set (M := f64_M b) in *. set (E := f64_E b) in *. set (sg := f64_sign b) in *.
  unfold f64_maxf32 in Hmax. rewrite Hab in Hmax.
  change (2 ^ 53) with 9007199254740992 in *. change (2 ^ 52) with 4503599627370496 in *.
  destruct (Z.eq_dec M 0) as [HM0 | HM0].
  { rewrite HM0. change (fround 24 (-149) 0 E) with 0. change (f32_inf <=? 0) with false. cbv iota.
    rewrite Z.add_0_r.
    destruct Hs as [-> | ->]; repeat apply conj;
      [ pows; lia | pows; lia | vm_compute; reflexivity | vm_compute; reflexivity | intros _; vm_compute; reflexivity | intros; lia
      | pows; lia | pows; lia | vm_compute; reflexivity | vm_compute; reflexivity | intros _; vm_compute; reflexivity | intros; lia ]. }
  assert (HMp : 0 < M) by lia.
  destruct (fround_parts 24 (-149) M E ltac:(lia) HMp) as (Hfr & Hq0 & Hm & Hnorm & Hr).
  fold q in Hfr, Hq0, Hnorm, Hr.
  assert (HL := Z.log2_spec M HMp). assert (HL0 : 0 <= Z.log2 M) by apply Z.log2_nonneg.
  assert (HL1 : Z.log2 M < 53) by (apply Z.log2_lt_pow2; [lia|change (2 ^ 53) with 9007199254740992; lia]).
  set (L := Z.log2 M) in *.
  assert (Hqd : q = Z.max (L + E - 23) (-149)) by (unfold q, quantum; fold L; lia).
  set (m := fmant 24 (-149) M E) in *. set (r := fround 24 (-149) M E) in *.
  change (24 - 1) with 23 in *. change (2 ^ 24) with 16777216 in *. change (2 ^ 23) with 8388608 in *.
  assert (HE75 : E <= 75) by lia.
  assert (Hr_lt : r < f32_inf).
  { unfold f32_inf. change (2 ^ 23) with 8388608. rewrite Hfr.
    destruct (Z_le_dec E 74) as [HE74 | HE74]; [lia|].
    assert (E = 75) by lia. assert (4503599627370496 <= M) by (apply Hn; lia).
    assert (L = 52).
    { assert (L < 53) by lia. destruct (Z_le_dec 52 L); [lia|exfalso].
      assert (2 ^ (L + 1) <= 2 ^ 52) by (apply Z.pow_le_mono_r; lia). change (2 ^ 52) with 4503599627370496 in *. lia. }
    assert (Hq104 : q = 104) by lia.
    assert (Hm' : m <= 16777215).
    { unfold m, fmant. fold q. replace (q - E) with 29 by lia. cbn [Z.leb Z.compare].
      destruct (rne_shift_spec M 29 ltac:(lia) ltac:(lia)) as (Hb1 & _ & Hex).
      change (2 ^ 29) with 536870912 in *.
      destruct (Z_le_dec (M / 536870912) 16777214); [lia|].
      assert (M = 16777215 * 536870912) by lia.
      rewrite Hex by (rewrite H2; reflexivity). rewrite H2.
        change (16777215 * 536870912 / 536870912) with 16777215. lia. }
    lia. }
  replace (f32_inf <=? r) with false by lia.
  destruct (decode32 (q - -149) m r ltac:(lia) Hm ltac:(intros; apply Hnorm; lia) Hfr Hr_lt) as (HB & Hfin & _ & Hv).
  destruct (f32_with_sign sg r HB Hs) as (S1 & S2 & S3 & S4 & S5 & S6).
  repeat apply conj.
  - destruct Hs as [-> | ->]; pows; lia.
  - destruct Hs as [-> | ->]; pows; lia.
  - rewrite S5. exact Hfin.
  - exact S1.
  - intros; lia.
  - intros _. exists m. split; [exact Hr|]. rewrite S3, S4, Hv. f_equal. f_equal. lia.
Qed.

(* ---- exact when representable: a binary32 widened to binary64 narrows back to itself ---- *)
Lemma decode64_normal : forall k m B,
  0 <= k -> 2 ^ 52 <= m < 2 ^ 53 -> B = k * 2 ^ 52 + m -> B < f64_inf ->
  f64_M B = m /\ f64_E B = k - 1074.
Proof.
  intros k m B Hk Hm HB Hinf. unfold f64_inf in Hinf.
  change (2 ^ 53) with 9007199254740992 in *. change (2 ^ 52) with 4503599627370496 in *.
  unfold f64_M, f64_E, f64_bexp, f64_mant. change (2 ^ 52) with 4503599627370496.
  replace ((B / 4503599627370496) mod 2048) with (k + 1) by lia.
  destruct (k + 1 =? 0) eqn:E; [lia|].
  replace (B mod 4503599627370496) with (m - 4503599627370496) by lia. lia.
Qed.

Lemma f32_roundtrip : forall b, 0 <= b < 2 ^ 32 -> f32_isnan b = false -> f64_to_f32 (f32_to_f64 b) = b.
Proof.
  intros b Hb Hnan.
  destruct (f32_isinf b) eqn:Hinf.
  { (* infinities *)
    unfold f32_to_f64. rewrite Hnan, Hinf.
    assert (Hsg : f32_sign b = 0 \/ f32_sign b = 1) by (unfold f32_sign; pows; lia).
    assert (Hbv : b = f32_sign b * 2 ^ 31 + f32_inf).
    { unfold f32_isinf, f32_abs in Hinf. unfold f32_sign. pows. lia. }
    destruct Hsg as [Hz | Hz]; rewrite Hz in *; rewrite Hbv; vm_compute; reflexivity. }
  assert (Hf : f32_finite b = true).
  { unfold f32_finite, f32_isnan, f32_isinf in *. lia. }
  destruct (f32_fields b Hb Hf) as (Hs & HM & HE & Hn & Hbv).
  unfold f32_to_f64. rewrite Hnan, Hinf.
  set (M := f32_M b) in *. set (E := f32_E b) in *. set (sg := f32_sign b) in *.
  change (2 ^ 24) with 16777216 in *. change (2 ^ 23) with 8388608 in *.
  destruct (Z.eq_dec M 0) as [HM0 | HM0].
  { rewrite HM0 in *. change (fround 53 (-1074) 0 E) with 0.
    assert (E = -149) by lia. rewrite Hbv. rewrite H.
    destruct Hs as [-> | ->]; vm_compute; reflexivity. }
  assert (HMp : 0 < M) by lia.
  destruct (fround_parts 53 (-1074) M E ltac:(lia) HMp) as (Hfr & Hq0 & Hm & Hnorm & Hr).
  assert (HL := Z.log2_spec M HMp). assert (HL0 : 0 <= Z.log2 M) by apply Z.log2_nonneg.
  assert (HL1 : Z.log2 M < 24) by (apply Z.log2_lt_pow2; [lia|change (2 ^ 24) with 16777216; lia]).
  set (L := Z.log2 M) in *.
  assert (Hq : quantum 53 (-1074) M E = L + E - 52) by (unfold quantum; fold L; lia).
  rewrite Hq in *. set (q := L + E - 52) in *.
  set (m := fmant 53 (-1074) M E) in *. set (B := fround 53 (-1074) M E) in *.
  change (53 - 1) with 52 in *. change (2 ^ 53) with 9007199254740992 in *.
  assert (Hmv : m = M * 2 ^ (52 - L)).
  { unfold is_rne in Hr. replace (q - E <=? 0) with true in Hr by (unfold q; lia).
    rewrite Hr. f_equal. f_equal. unfold q. lia. }
  assert (Hmn : 2 ^ 52 <= m) by (apply Hnorm; unfold q; lia).
  assert (Hm53 : m < 2 ^ 53).
  { rewrite Hmv. replace 53 with ((L + 1) + (52 - L)) by lia. rewrite Z.pow_add_r by lia.
    apply Z.mul_lt_mono_pos_r; [apply Z.pow_pos_nonneg; lia|lia]. }
  assert (HBinf : B < f64_inf).
  { rewrite Hfr. unfold f64_inf. change (2 ^ 53) with 9007199254740992 in *. change (2 ^ 52) with 4503599627370496 in *. unfold q. lia. }
  destruct (decode64 (q - -1074) m B ltac:(unfold q; lia) ltac:(change (2 ^ 53) with 9007199254740992 in *; lia) ltac:(intros; exact Hmn) Hfr HBinf) as (HB & Hfin & _ & _).
  destruct (decode64_normal (q - -1074) m B ltac:(unfold q; lia) ltac:(lia) Hfr HBinf) as (HMB & HEB).
  destruct (f64_with_sign sg B HB Hs) as (S1 & S2 & S3 & S4 & S5 & S6).
  unfold f64_to_f32.
  assert (Hn64 : f64_isnan (sg * 2 ^ 63 + B) = false).
  { unfold f64_isnan. rewrite S2. unfold f64_finite in Hfin. rewrite S6 in Hfin. lia. }
  assert (Hi64 : f64_isinf (sg * 2 ^ 63 + B) = false).
  { unfold f64_isinf. rewrite S2. unfold f64_finite in Hfin. rewrite S6 in Hfin. lia. }
  rewrite Hn64, Hi64, S1, S3, S4, HMB, HEB.
  (* rounding m * 2^q back to 24 bits *)
  assert (Hlog : Z.log2 m = 52).
  { rewrite Hmv. rewrite Z.log2_mul_pow2 by lia. fold L. lia. }
  assert (HqE : quantum 24 (-149) m (q - -1074 - 1074) = E).
  { unfold quantum. rewrite Hlog. unfold q.
    destruct (Z_lt_dec L 23) as [Hlt | Hge].
    - assert (M < 8388608).
      { assert (2 ^ (L + 1) <= 2 ^ 23) by (apply Z.pow_le_mono_r; lia). change (2 ^ 23) with 8388608 in *. lia. }
      assert (E = -149) by lia. lia.
    - lia. }
  assert (Hfr2 : fround 24 (-149) m (q - -1074 - 1074) = (E + 149) * 8388608 + M).
  { destruct (fround_parts 24 (-149) m (q - -1074 - 1074) ltac:(lia) ltac:(lia)) as (Hf2 & _).
    rewrite Hf2. rewrite HqE. change (2 ^ (24 - 1)) with 8388608.
    replace (E - -149) with (E + 149) by lia. f_equal.
    unfold fmant. rewrite HqE. replace (E - (q - -1074 - 1074)) with (52 - L) by (unfold q; lia).
    replace (52 - L <=? 0) with false by lia.
    destruct (rne_shift_spec m (52 - L) ltac:(lia) ltac:(lia)) as (_ & _ & Hex).
    rewrite Hex; rewrite Hmv.
    - apply Z.div_mul. apply Z.pow_nonzero; lia.
    - apply Z.mod_mul. apply Z.pow_nonzero; lia. }
  rewrite Hfr2.
  assert (Hlt : (E + 149) * 8388608 + M < f32_inf).
  { unfold f32_finite, f32_abs, f32_inf in *. change (2 ^ 23) with 8388608 in *. pows. lia. }
  replace (f32_inf <=? (E + 149) * 8388608 + M) with false by lia.
  clearbody M E sg. pows. lia.
Qed.

(* ---- binary16 -> binary32 (halfFloatToFloatBits as modelled) is exact ---- *)
Definition f16_sign (h : Z) : Z := h / 2 ^ 15.
Definition f16_bexp (h : Z) : Z := (h / 2 ^ 10) mod 32.
Definition f16_mant (h : Z) : Z := h mod 2 ^ 10.
Definition f16_M (h : Z) : Z := if f16_bexp h =? 0 then f16_mant h else 2 ^ 10 + f16_mant h.
Definition f16_E (h : Z) : Z := if f16_bexp h =? 0 then -24 else f16_bexp h - 25.
(* value * 2^1074 of a finite IEEE binary16 pattern *)
Definition f16_scaled (h : Z) : option Z :=
  if f16_bexp h =? 31 then None
  else Some ((if f16_sign h =? 0 then 1 else -1) * (f16_M h * 2 ^ (f16_E h + 1074))).

Lemma f16_to_f32_finite : forall h, 0 <= h < 2 ^ 16 -> f16_bexp h <> 31 ->
  0 <= f16_to_f32 h < 2 ^ 32 /\ f32_finite (f16_to_f32 h) = true /\ f32_scaled (f16_to_f32 h) = f16_scaled h.
Proof.
  intros h Hh He.
  assert (Hsg : f16_sign h = 0 \/ f16_sign h = 1) by (unfold f16_sign; pows; lia).
  assert (Hex : 0 <= f16_bexp h < 32) by (unfold f16_bexp; apply Z.mod_pos_bound; lia).
  assert (Hmt : 0 <= f16_mant h < 1024) by (unfold f16_mant; change (2 ^ 10) with 1024; apply Z.mod_pos_bound; lia).
  assert (Hform : f16_to_f32 h = f16_sign h * 2 ^ 31 + fround 24 (-149) (f16_M h) (f16_E h)).
  { unfold f16_to_f32, f16_M, f16_E. fold (f16_sign h). fold (f16_bexp h). fold (f16_mant h).
    destruct (f16_bexp h =? 31) eqn:E1; [lia|]. destruct (f16_bexp h =? 0); reflexivity. }
  assert (HM : 0 <= f16_M h < 2048) by (unfold f16_M; change (2 ^ 10) with 1024; destruct (f16_bexp h =? 0); lia).
  assert (HE : -24 <= f16_E h <= 5) by (unfold f16_E; destruct (f16_bexp h =? 0) eqn:E; lia).
  unfold f16_scaled. replace (f16_bexp h =? 31) with false by lia.
  rewrite Hform. set (M := f16_M h) in *. set (E := f16_E h) in *. set (sg := f16_sign h) in *.
  destruct (Z.eq_dec M 0) as [HM0 | HM0].
  { rewrite HM0. change (fround 24 (-149) 0 E) with 0. rewrite Z.add_0_r.
    destruct Hsg as [-> | ->]; (split; [pows; lia|]); split; vm_compute; reflexivity. }
  assert (HMp : 0 < M) by lia.
  destruct (fround_parts 24 (-149) M E ltac:(lia) HMp) as (Hfr & Hq0 & Hm & Hnorm & Hr).
  assert (HL := Z.log2_spec M HMp). assert (HL0 : 0 <= Z.log2 M) by apply Z.log2_nonneg.
  assert (HL1 : Z.log2 M < 11) by (apply Z.log2_lt_pow2; [lia|change (2 ^ 11) with 2048; lia]).
  set (L := Z.log2 M) in *.
  assert (Hq : quantum 24 (-149) M E = L + E - 23) by (unfold quantum; fold L; lia).
  rewrite Hq in *. set (q := L + E - 23) in *.
  set (m := fmant 24 (-149) M E) in *. set (B := fround 24 (-149) M E) in *.
  change (24 - 1) with 23 in *.
  destruct (decode32 (q - -149) m B ltac:(unfold q; lia) Hm ltac:(intros; apply Hnorm; unfold q; lia) Hfr) as (HB & Hfin & _ & Hv).
  { rewrite Hfr. unfold f32_inf. change (2 ^ 24) with 16777216 in *. change (2 ^ 23) with 8388608 in *. unfold q. lia. }
  destruct (f32_with_sign sg B HB Hsg) as (S1 & S2 & S3 & S4 & S5 & S6).
  split; [destruct Hsg as [-> | ->]; pows; lia|].
  split; [rewrite S5; exact Hfin|].
  unfold f32_scaled. rewrite S5, Hfin, S1, S3, S4, Hv. f_equal. f_equal.
  unfold is_rne in Hr. replace (q - E <=? 0) with true in Hr by (unfold q; lia).
  rewrite Hr. rewrite <- Z.mul_assoc. rewrite <- Z.pow_add_r by (unfold q; lia). f_equal. f_equal. unfold q. lia.
Qed.

Lemma f16_to_f32_special : forall h, 0 <= h < 2 ^ 16 -> f16_bexp h = 31 ->
  (f16_mant h = 0 -> f16_to_f32 h = f16_sign h * 2 ^ 31 + f32_inf) /\
  (f16_mant h <> 0 -> f32_isnan (f16_to_f32 h) = true).
Proof.
  intros h Hh He.
  assert (Hsg : f16_sign h = 0 \/ f16_sign h = 1) by (unfold f16_sign; pows; lia).
  assert (Hmt : 0 <= f16_mant h < 1024) by (unfold f16_mant; change (2 ^ 10) with 1024; apply Z.mod_pos_bound; lia).
  unfold f16_to_f32. fold (f16_sign h). fold (f16_bexp h). fold (f16_mant h). rewrite He. cbn [Z.eqb Pos.eqb].
  split; intros H.
  - rewrite H. lia.
  - unfold f32_isnan, f32_abs, f32_inf. change (2 ^ 23) with 8388608. change (2 ^ 13) with 8192. pows.
    destruct Hsg as [-> | ->]; lia.
Qed.

(* half -> float64 through both widenings *)
Lemma f16_to_f64_finite : forall h, 0 <= h < 2 ^ 16 -> f16_bexp h <> 31 ->
  f64_scaled (f32_to_f64 (f16_to_f32 h)) = f16_scaled h.
Proof.
  intros h Hh He. destruct (f16_to_f32_finite h Hh He) as (R & F & S).
  destruct (f32_to_f64_finite _ R F) as (_ & W). rewrite W. exact S.
Qed.

(* ---- what DecodeFloat64 returns for each kind of item, per format ---- *)
Definition f64_image (o : option num) (nilp : bool) (x : Z) : Prop :=
  match o with
  | Some (NInt n) => x = f64_of_int n /\ - 2 ^ 64 < n < 2 ^ 64
  | Some (NF64 b) => x = b
  | Some (NF32 b) => x = f32_to_f64 b
  | Some (NF16 h) => x = f32_to_f64 (f16_to_f32 h)
  | None => nilp = true /\ x = 0
  end.

Ltac int64v_step Hr :=
  match goal with
  | H : bind (decNegintPosintFloatNumberHelperInt64v ?ui ?ng ?cb) _ = Ok _ |- _ =>
      let i := fresh "i" in let E := fresh "EI" in
      destruct (decNegintPosintFloatNumberHelperInt64v ui ng cb) as [i| |] eqn:E; cbn [bind] in H; try discriminate;
      apply Int64v_spec in E; [|pw; lia]
  end.

Ltac rd_any H :=
  repeat match type of H with
  | context [readv ?k ?r] =>
      let v := fresh "v" in let E := fresh "ER" in
      destruct (readv k r) as [v| |] eqn:E; cbn [bind negb] in H; [apply readv_take in E|discriminate|discriminate]
  end.

Ltac take_all Hr :=
  repeat match goal with
  | E : take ?k ?r = Some ?v |- _ =>
      lazymatch goal with
      | _ : 0 <= v < 2 ^ (8 * Z.of_nat k) |- _ => fail
      | _ => pose proof (take_bound _ _ _ Hr E)
      end
  end;
  repeat match goal with E : take ?k ?r = Some ?v |- context [take ?k ?r] => rewrite E end.

Lemma simple_Float64_ok : forall bd r x,
  0 <= bd < 256 -> bytes_ok r -> simple_Float64 bd r = Ok x ->
  f64_image (simple_spec (bd :: r)) (simple_nil bd) x.
Proof.
  intros bd r x Hbd Hr H. unfold simple_Float64, hlp_float64, simple_decFloat, simple_decInteger, simple_nil in *.
  unfold simple_spec, f64_image. unfold simpleVdNil, simpleVdFloat32, simpleVdFloat64, simpleVdPosInt, simpleVdNegInt in *.
  repeat match type of H with
  | context [if ?c then _ else _] => destruct c eqn:?; cbn [bind negb] in H; try (exfalso; lia)
  end.
  all: try discriminate.
  all: repeat match goal with |- context [if ?c then _ else _] => destruct c eqn:?; try lia end.
  all: try (inversion H; subst; split; [reflexivity|lia]).
  all: rd_any H; take_all Hr; cbn [omap].
  all: try (inversion H; subst; reflexivity).
  all: try (inversion H; subst; clear H; pw; split; [f_equal; lia|lia]).
  all: try (int64v_step Hr; inversion H; subst; clear H; destruct EI as [-> EI]; pw; split; [f_equal; lia|lia]).
Qed.

Lemma mp_Float64_ok : forall bd r x,
  0 <= bd < 256 -> bytes_ok r -> mp_Float64 bd r = Ok x ->
  f64_image (msgpack_spec (bd :: r)) (mp_nil bd) x.
Proof.
  intros bd r x Hbd Hr H. unfold mp_Float64 in H.
  destruct (mp_nil bd) eqn:Nl.
  { inversion H; subst. unfold mp_nil, mpNil in Nl. assert (bd = 192) by lia. subst. cbn. auto. }
  unfold mpFloat, mpDouble, mpUint64 in H. unfold f64_image.
  destruct (bd =? 202) eqn:E1.
  { assert (bd = 202) by lia. subst. rd_any H. cbn. take_all Hr. cbn [omap]. inversion H; reflexivity. }
  destruct (bd =? 203) eqn:E2.
  { assert (bd = 203) by lia. subst. rd_any H. cbn. take_all Hr. cbn [omap]. inversion H; reflexivity. }
  destruct (bd =? 207) eqn:E3.
  { assert (bd = 207) by lia. subst. rd_any H. cbn. take_all Hr. cbn [omap]. inversion H; subst. pw. split; [reflexivity|lia]. }
  destruct (mp_Int64 bd r) as [i| |] eqn:EI; cbn [bind] in H; try discriminate. inversion H; subst; clear H.
  pose proof (mp_Int64_ok bd r i Hbd Hr EI) as P.
  destruct (msgpack_spec (bd :: r)) as [[n|h|b|b]|] eqn:S.
  - destruct P as [-> P]. split; [reflexivity|pw; lia].
  - contradiction.
  - exfalso. unfold msgpack_spec in S.
    repeat match type of S with context [if ?c then _ else _] => destruct c eqn:?; try lia end;
      try discriminate; try (destruct (take _ r); cbn [omap] in S; discriminate).
  - exfalso. unfold msgpack_spec in S.
    repeat match type of S with context [if ?c then _ else _] => destruct c eqn:?; try lia end;
      try discriminate; try (destruct (take _ r); cbn [omap] in S; discriminate).
  - destruct P as [P ->]. unfold mpNil in P. unfold mp_nil, mpNil in Nl. lia.
Qed.

Lemma cbor_Float64_ok : forall bd r x,
  0 <= bd < 256 -> bytes_ok r -> cbor_Float64 bd r = Ok x ->
  f64_image (cbor_spec (bd :: r)) (cbor_nil bd) x.
Proof.
  intros bd r x Hbd Hr H. unfold cbor_Float64, hlp_float64, cbor_decFloat, cbor_decInteger, cbor_decUint, cbor_nil in *.
  unfold cbor_spec, f64_image.
  unfold shr in H. rewrite !Z.shiftr_div_pow2 in H by lia.
  change 31 with (Z.ones 5) in H. rewrite !Z.land_ones in H by lia. change (2 ^ 5) with 32 in *.
  unfold cborBdNil, cborBdUndefined, cborBdFloat16, cborBdFloat32, cborBdFloat64, cborMajorTag, cborMajorUint, cborMajorNegInt in *.
  repeat match type of H with
  | context [if ?c then _ else _] => destruct c eqn:?; cbn [bind negb orb andb] in H; try (exfalso; lia)
  end.
  all: try discriminate.
  all: repeat match goal with |- context [if ?c then _ else _] => destruct c eqn:?; try lia end.
  all: try (inversion H; subst; split; [reflexivity|lia]).
  all: rd_any H; take_all Hr; cbn [omap].
  all: try (inversion H; subst; reflexivity).
  all: try (inversion H; subst; clear H; pw; split; [f_equal; lia|lia]).
  all: try (int64v_step Hr; inversion H; subst; clear H; destruct EI as [-> EI]; pw; split; [f_equal; lia|lia]).
Qed.

Lemma readn1_cons : forall l r', readn 1 (l :: r') = Ok (l, r').
Proof. intros. unfold readn. cbn. repeat f_equal; lia. Qed.

Lemma binc_floatPre_spec : forall maxlen vs r v,
  binc_floatPre maxlen vs r = Ok v ->
  (if Z.land vs 8 =? 0 then take maxlen r else binc_pruned maxlen r) = Some v.
Proof.
  intros maxlen vs r v H. unfold binc_floatPre in H. destruct (Z.land vs 8 =? 0).
  - apply readv_take; exact H.
  - destruct r as [|l r'].
    + unfold readn in H. cbn in H. discriminate.
    + rewrite readn1_cons in H. cbn [bind] in H. unfold binc_pruned.
      destruct (Z.of_nat maxlen <? l); [discriminate|].
      destruct (readv (Z.to_nat l) r') as [w| |] eqn:E; cbn [bind] in H; try discriminate.
      apply readv_take in E. rewrite E. cbn [omap]. inversion H. reflexivity.
Qed.

Lemma land8_lt : forall vs, 0 <= vs < 16 -> (Z.land vs 8 =? 0) = (vs <? 8).
Proof.
  intros vs H.
  assert (vs = 0 \/ vs = 1 \/ vs = 2 \/ vs = 3 \/ vs = 4 \/ vs = 5 \/ vs = 6 \/ vs = 7 \/ vs = 8 \/ vs = 9 \/ vs = 10
          \/ vs = 11 \/ vs = 12 \/ vs = 13 \/ vs = 14 \/ vs = 15) as C by lia.
  repeat (destruct C as [-> | C]; [reflexivity|]). subst. reflexivity.
Qed.

Lemma binc_decFloat_true : forall bd r f,
  0 <= bd < 256 -> binc_nil bd = false -> binc_decFloat bd r = Ok (f, true) ->
  f64_image (binc_spec (bd :: r)) false f.
Proof.
  intros bd r f Hbd Hnil H. unfold binc_decFloat, binc_decFloatVal, binc_nil in *. unfold binc_spec, f64_image.
  unfold shr in H. rewrite !Z.shiftr_div_pow2 in H by lia.
  change 15 with (Z.ones 4) in H. rewrite !Z.land_ones in H by lia. change (2 ^ 4) with 16 in *.
  assert (Hvs : 0 <= bd mod 16 < 16) by (apply Z.mod_pos_bound; lia).
  replace (Z.land (bd mod 16) 7) with ((bd mod 16) mod 8) in H
    by (change 7 with (Z.ones 3); rewrite Z.land_ones by lia; reflexivity).
  unfold bincBdNil, bincVdSpecial, bincVdFloat, bincSpNan, bincSpPosInf,
    bincSpNegInf, bincSpZeroFloat, bincSpZero, bincFlBin32, bincFlBin64, f64_nan, f64_inf in *.
  cbv zeta in H.
  repeat match type of H with
  | (if ?c then _ else _) = _ => destruct c eqn:?; try (exfalso; lia)
  end.
  all: try discriminate.
  all: repeat match goal with |- context [if ?c =? ?d then _ else _] => destruct (c =? d) eqn:?; try lia end.
  all: try (inversion H; subst; reflexivity).
  all: try (inversion H; subst; split; [reflexivity|lia]).
  - (* binary32 *)
    destruct (binc_floatPre 4 (bd mod 16) r) as [v| |] eqn:E; cbn [bind] in H; try discriminate.
    apply binc_floatPre_spec in E. rewrite land8_lt in E by lia. rewrite E. cbn [omap]. inversion H; reflexivity.
  - destruct (binc_floatPre 8 (bd mod 16) r) as [v| |] eqn:E; cbn [bind] in H; try discriminate.
    apply binc_floatPre_spec in E. rewrite land8_lt in E by lia. rewrite E. cbn [omap]. inversion H; subst; reflexivity.
Qed.

Lemma binc_Float64_ok : forall bd r x,
  0 <= bd < 256 -> bytes_ok r -> binc_Float64 bd r = Ok x ->
  f64_image (binc_spec (bd :: r)) (binc_nil bd) x.
Proof.
  intros bd r x Hbd Hr H. unfold binc_Float64 in H.
  destruct (binc_nil bd) eqn:Nl.
  { inversion H; subst. unfold binc_nil, bincBdNil in Nl. assert (bd = 0) by lia. subst. cbn. auto. }
  unfold hlp_float64 in H.
  destruct (binc_decFloat bd r) as [[f ok]| |] eqn:EF; cbn [bind] in H; try discriminate.
  destruct ok.
  - inversion H; subst. eapply binc_decFloat_true; eauto.
  - destruct (binc_decInteger bd r) as [[[ui neg] iok]| |] eqn:EI; cbn [bind] in H; try discriminate.
    destruct iok; cbn [negb] in H; [|discriminate].
    destruct (binc_decInteger_ok bd r ui neg Hbd Hr EI) as [Hu Hsp]. rewrite Hsp. unfold f64_image.
    destruct neg; cbn [negb] in H.
    + destruct (decNegintPosintFloatNumberHelperInt64v ui true false) as [i| |] eqn:E64; cbn [bind] in H; try discriminate.
      apply Int64v_spec in E64; [|exact Hu]. destruct E64 as [-> E64]. inversion H; subst; clear H.
      split; [f_equal; lia|pw; lia].
    + inversion H; subst; clear H. split; [reflexivity|pw; lia].
Qed.

(* ---- all four binary formats ---- *)
Lemma float64_all : forall f bd r x,
  0 <= bd < 256 -> bytes_ok r -> dFloat64 (drv f) bd r = Ok x ->
  f64_image (spec f (bd :: r)) (dNil (drv f) bd) x.
Proof.
  intros f; destruct f; cbn [drv spec dFloat64 dNil cbor msgpack binc simple];
    [apply cbor_Float64_ok | apply mp_Float64_ok | apply binc_Float64_ok | apply simple_Float64_ok].
Qed.

Lemma take_bound_k : forall k r v n, bytes_ok r -> take k r = Some v -> n = 8 * Z.of_nat k -> 0 <= v < 2 ^ n.
Proof. intros. subst. eapply take_bound; eauto. Qed.

Lemma binc_pruned_bound : forall maxlen r v, bytes_ok r -> binc_pruned maxlen r = Some v ->
  0 <= v < 2 ^ (8 * Z.of_nat maxlen).
Proof.
  intros maxlen r v Hr H. unfold binc_pruned in H. destruct r as [|l r']; [discriminate|].
  inversion Hr as [|? ? Hl Hr']; subst.
  destruct (Z.of_nat maxlen <? l) eqn:E; [discriminate|].
  destruct (take (Z.to_nat l) r') as [w|] eqn:T; cbn [omap] in H; [|discriminate]. inversion H; subst; clear H.
  pose proof (take_bound _ _ _ Hr' T) as B. rewrite Z2Nat.id in B by lia.
  replace 256 with (2 ^ 8) by reflexivity. rewrite <- Z.pow_mul_r by lia.
  assert (0 < 2 ^ (8 * (Z.of_nat maxlen - l))) by (apply Z.pow_pos_nonneg; lia).
  split; [nia|].
  replace (8 * Z.of_nat maxlen) with (8 * l + 8 * (Z.of_nat maxlen - l)) by lia.
  rewrite Z.pow_add_r by lia. apply Z.mul_lt_mono_pos_r; lia.
Qed.

Lemma spec_float_bounds : forall f bs,
  bytes_ok bs ->
  match spec f bs with
  | Some (NF64 b) => 0 <= b < 2 ^ 64
  | Some (NF32 b) => 0 <= b < 2 ^ 32
  | Some (NF16 h) => 0 <= h < 2 ^ 16
  | _ => True
  end.
Proof.
  intros f bs Hb. destruct bs as [|bd r]; [destruct f; exact I|].
  inversion Hb as [|? ? Hbd Hr]; subst.
  destruct f; cbn [spec]; unfold cbor_spec, msgpack_spec, binc_spec, simple_spec.
  all: repeat match goal with |- context [if ?c then _ else _] => destruct c eqn:? end.
  all: try exact I.
  all: try match goal with |- match omap _ ?t with _ => _ end =>
         let E := fresh "ET" in destruct t eqn:E; cbn [omap]; [|exact I] end.
  all: try exact I.
  all: try (eapply take_bound_k; [exact Hr|eassumption|reflexivity]).
  all: try (eapply binc_pruned_bound in ET; [|exact Hr]; exact ET).
  all: try (pows; lia).
Qed.

(* ---- the statements of Properties/C07.v ---- *)

(* x (a binary64 pattern) is the integer n rounded to nearest even *)
Definition f64_rne_of_int (n x : Z) : Prop :=
  (n = 0 -> x = 0) /\
  (n <> 0 -> f64_finite x = true /\ f64_sign x = (if n <? 0 then 1 else 0) /\
             exists m, is_rne (Z.abs n) (Z.log2 (Z.abs n) - 52) m /\
                       f64_M x * 2 ^ (f64_E x + 1074) = m * 2 ^ (Z.log2 (Z.abs n) - 52 + 1074)).

(* x (a binary32 pattern) is the finite binary64 b rounded to nearest even, and is finite *)
Definition f32_rne_of_f64 (b x : Z) : Prop :=
  let q := quantum 24 (-149) (f64_M b) (f64_E b) in
  f32_finite x = true /\ f32_sign x = f64_sign b /\
  (f64_M b = 0 -> f32_abs x = 0) /\
  (0 < f64_M b -> exists m, is_rne (f64_M b) (q - f64_E b) m /\ f32_M x * 2 ^ (f32_E x + 1074) = m * 2 ^ (q + 1074)).

Lemma f64_rne_of_int_ok : forall n, Z.abs n < 2 ^ 64 -> f64_rne_of_int n (f64_of_int n).
Proof.
  intros n Hn. split.
  - intros ->. reflexivity.
  - intros Hnz. destruct (f64_of_int_rne n Hnz Hn) as (_ & A & B & C). auto.
Qed.

Lemma f64_of_int_range : forall n, Z.abs n < 2 ^ 64 -> 0 <= f64_of_int n < 2 ^ 64.
Proof.
  intros n Hn. destruct (Z.eq_dec n 0) as [-> | Hnz]; [vm_compute; split; congruence|].
  destruct (f64_of_int_rne n Hnz Hn) as (A & _). exact A.
Qed.

Lemma f64_of_int_small_abs : forall n, Z.abs n < 2 ^ 64 -> f64_abs (f64_of_int n) <= f64_maxf32 /\ f64_finite (f64_of_int n) = true.
Proof.
  intros n Hn. destruct (Z.eq_dec n 0) as [-> | Hnz]; [vm_compute; split; [congruence|reflexivity]|].
  set (M := Z.abs n). assert (HM : 0 < M) by lia.
  destruct (fround_parts 53 (-1074) M 0 ltac:(lia) HM) as (Hf & Hq0 & Hm & Hnorm & Hr).
  assert (HL := Z.log2_spec M HM). assert (HL0 : 0 <= Z.log2 M) by apply Z.log2_nonneg.
  assert (HL1 : Z.log2 M < 64) by (apply Z.log2_lt_pow2; lia).
  assert (Hq : quantum 53 (-1074) M 0 = Z.log2 M - 52) by (unfold quantum; lia).
  rewrite Hq in *. change (53 - 1) with 52 in *.
  set (B := fround 53 (-1074) M 0) in *.
  assert (HB : 0 <= B <= 1087 * 2 ^ 52).
  { rewrite Hf. change (2 ^ 53) with 9007199254740992 in *. change (2 ^ 52) with 4503599627370496 in *. lia. }
  set (sg := if n <? 0 then 1 else 0).
  assert (Hx : f64_of_int n = sg * 2 ^ 63 + B).
  { unfold f64_of_int, sg. fold M. fold B. destruct (n <? 0); lia. }
  change (2 ^ 52) with 4503599627370496 in *.
  destruct (f64_with_sign sg B ltac:(pows; lia) ltac:(unfold sg; destruct (n <? 0); lia)) as (S1 & S2 & S3 & S4 & S5 & S6).
  rewrite Hx. split.
  - rewrite S2. unfold f64_maxf32. lia.
  - rewrite S5. unfold f64_finite. rewrite S6. unfold f64_inf. change (2 ^ 52) with 4503599627370496. lia.
Qed.

Lemma f64_to_f32_special : forall b, 0 <= b < 2 ^ 64 ->
  (f64_isnan b = true -> f32_isnan (f64_to_f32 b) = true) /\
  (f64_isinf b = true -> f64_to_f32 b = f64_sign b * 2 ^ 31 + f32_inf).
Proof.
  intros b Hb. split; intros H.
  - unfold f64_to_f32. rewrite H.
    assert (Hs : f64_sign b = 0 \/ f64_sign b = 1) by (unfold f64_sign; pows; lia).
    pose proof (Z.mod_pos_bound (f64_mant b / 2 ^ 29) (2 ^ 22) ltac:(change (2 ^ 22) with 4194304; lia)) as Bd.
    set (t := (f64_mant b / 2 ^ 29) mod 2 ^ 22) in *. clearbody t.
    unfold f32_isnan, f32_abs, f32_inf. change (2 ^ 23) with 8388608. change (2 ^ 22) with 4194304 in *. pows.
    destruct Hs as [-> | ->]; lia.
  - unfold f64_to_f32. assert (f64_isnan b = false) by (unfold f64_isnan, f64_isinf in *; lia).
    rewrite H0, H. reflexivity.
Qed.

Lemma narrow_f32_full : forall b x, 0 <= b < 2 ^ 64 -> narrow_f32 (Ok b) = Ok x ->
  x = f64_to_f32 b /\
  (f64_isnan b = true -> f32_isnan x = true) /\
  (f64_isinf b = true -> x = f64_sign b * 2 ^ 31 + f32_inf) /\
  (f64_finite b = true -> f64_abs b <= f64_maxf32 /\ f32_rne_of_f64 b x).
Proof.
  intros b x Hb H. apply narrow_f32_ok in H; [|exact Hb]. destruct H as [-> Hov].
  destruct (f64_to_f32_special b Hb) as [Hn Hi].
  split; [reflexivity|]. split; [exact Hn|]. split; [exact Hi|].
  intros Hf. specialize (Hov Hf). split; [exact Hov|].
  destruct (f64_to_f32_finite b Hb Hf Hov) as (_ & A & B & C & D).
  unfold f32_rne_of_f64. auto.
Qed.

(* (1) integer items into float destinations *)
Lemma float_of_int_all : forall f bs n x,
  bytes_ok bs -> spec f bs = Some (NInt n) ->
  (decode (drv f) KFloat64 bs = Ok x ->
     x = f64_of_int n /\ f64_rne_of_int n x /\ (Z.abs n <= 2 ^ 53 -> f64_scaled x = Some (n * 2 ^ 1074))) /\
  (decode (drv f) KFloat32 bs = Ok x ->
     x = f64_to_f32 (f64_of_int n) /\ f64_rne_of_int n (f64_of_int n) /\ f32_rne_of_f64 (f64_of_int n) x).
Proof.
  intros f bs n x Hb Hs. destruct bs as [|bd r]; [destruct f; discriminate|].
  inversion Hb as [|? ? Hbd Hr]; subst.
  assert (K : forall y, dFloat64 (drv f) bd r = Ok y -> y = f64_of_int n /\ Z.abs n < 2 ^ 64).
  { intros y Hy. pose proof (float64_all f bd r y Hbd Hr Hy) as P. rewrite Hs in P. cbn in P.
    destruct P as [-> P]. split; [reflexivity|lia]. }
  split; intros H; cbn [decode] in H.
  - destruct (K x H) as [-> Hn]. split; [reflexivity|]. split; [apply f64_rne_of_int_ok; exact Hn|].
    intros. apply f64_of_int_exact; assumption.
  - destruct (dFloat64 (drv f) bd r) as [y| |] eqn:E; [|unfold narrow_f32 in H; cbn [bind] in H; discriminate ..].
    destruct (K y eq_refl) as [-> Hn].
    pose proof (f64_of_int_range n Hn) as R. destruct (f64_of_int_small_abs n Hn) as [Ha Hfin].
    destruct (narrow_f32_full _ _ R H) as (-> & _ & _ & Hf).
    split; [reflexivity|]. split; [apply f64_rne_of_int_ok; exact Hn|]. apply Hf. exact Hfin.
Qed.

(* (2) float64 items into float32 *)
Lemma float_narrow_all : forall f bs b x,
  bytes_ok bs -> spec f bs = Some (NF64 b) -> decode (drv f) KFloat32 bs = Ok x ->
  x = f64_to_f32 b /\
  (f64_isnan b = true -> f32_isnan x = true) /\
  (f64_isinf b = true -> x = f64_sign b * 2 ^ 31 + f32_inf) /\
  (f64_finite b = true -> f64_abs b <= f64_maxf32 /\ f32_rne_of_f64 b x).
Proof.
  intros f bs b x Hb Hs H. pose proof (spec_float_bounds f bs Hb) as Bd. rewrite Hs in Bd.
  destruct bs as [|bd r]; [destruct f; discriminate|]. inversion Hb as [|? ? Hbd Hr]; subst.
  cbn [decode] in H.
  destruct (dFloat64 (drv f) bd r) as [y| |] eqn:E; [|unfold narrow_f32 in H; cbn [bind] in H; discriminate ..].
  pose proof (float64_all f bd r y Hbd Hr E) as P. rewrite Hs in P. cbn in P. subst y.
  apply narrow_f32_full; assumption.
Qed.

(* float32 items into float32: unchanged (NaNs stay NaNs) *)
Lemma float32_same_all : forall f bs b x,
  bytes_ok bs -> spec f bs = Some (NF32 b) -> decode (drv f) KFloat32 bs = Ok x ->
  (f32_isnan b = false -> x = b) /\ (f32_isnan b = true -> f32_isnan x = true).
Proof.
  intros f bs b x Hb Hs H. pose proof (spec_float_bounds f bs Hb) as Bd. rewrite Hs in Bd.
  destruct bs as [|bd r]; [destruct f; discriminate|]. inversion Hb as [|? ? Hbd Hr]; subst.
  cbn [decode] in H.
  destruct (dFloat64 (drv f) bd r) as [y| |] eqn:E; [|unfold narrow_f32 in H; cbn [bind] in H; discriminate ..].
  pose proof (float64_all f bd r y Hbd Hr E) as P. rewrite Hs in P. cbn in P. subst y.
  assert (R : 0 <= f32_to_f64 b < 2 ^ 64).
  { destruct (f32_finite b) eqn:Hf; [apply f32_to_f64_finite; assumption|].
    unfold f32_to_f64. assert (Hsg : f32_sign b = 0 \/ f32_sign b = 1) by (unfold f32_sign; pows; lia).
    pose proof (Z.mod_pos_bound (f32_mant b * 2 ^ 29) (2 ^ 51) ltac:(change (2 ^ 51) with 2251799813685248; lia)) as B1.
    set (t := f32_mant b * 2 ^ 29 mod 2 ^ 51) in *. clearbody t.
    unfold f64_inf. change (2 ^ 52) with 4503599627370496. change (2 ^ 51) with 2251799813685248 in *. pows.
    destruct (f32_isnan b) eqn:Hna; [|destruct (f32_isinf b) eqn:Hi; [|exfalso; unfold f32_finite, f32_isnan, f32_isinf in *; lia]];
      destruct Hsg as [-> | ->]; lia. }
  destruct (narrow_f32_full _ _ R H) as (-> & Hn & _ & _).
  split; intros Hb32.
  - apply f32_roundtrip; assumption.
  - apply Hn. apply f32_to_f64_special; assumption.
Qed.

(* (3) float32 / float16 items into float64: the same real value *)
Lemma float_widen_all : forall f bs x,
  bytes_ok bs -> decode (drv f) KFloat64 bs = Ok x ->
  match spec f bs with
  | Some (NF64 b) => x = b
  | Some (NF32 b) => x = f32_to_f64 b /\
      (f32_finite b = true -> f64_scaled x = f32_scaled b) /\
      (f32_isinf b = true -> x = f32_sign b * 2 ^ 63 + f64_inf) /\
      (f32_isnan b = true -> f64_isnan x = true)
  | Some (NF16 h) => x = f32_to_f64 (f16_to_f32 h) /\
      (f16_bexp h <> 31 -> f64_scaled x = f16_scaled h) /\
      (f16_bexp h = 31 -> f16_mant h = 0 -> x = f16_sign h * 2 ^ 63 + f64_inf) /\
      (f16_bexp h = 31 -> f16_mant h <> 0 -> f64_isnan x = true)
  | _ => True
  end.
Proof.
  intros f bs x Hb H. pose proof (spec_float_bounds f bs Hb) as Bd.
  destruct bs as [|bd r]; [discriminate|]. inversion Hb as [|? ? Hbd Hr]; subst.
  cbn [decode] in H. pose proof (float64_all f bd r x Hbd Hr H) as P.
  destruct (spec f (bd :: r)) as [[n|h|b|b]|]; cbn in P; try exact I.
  - subst x. split; [reflexivity|].
    assert (Hsg : f16_sign h = 0 \/ f16_sign h = 1) by (unfold f16_sign; pows; lia).
    split; [intros; apply f16_to_f64_finite; assumption|].
    split.
    + intros He Hm. destruct (f16_to_f32_special h Bd He) as [A _]. rewrite (A Hm).
      unfold f32_to_f64. destruct Hsg as [-> | ->]; vm_compute; reflexivity.
    + intros He Hm. destruct (f16_to_f32_special h Bd He) as [_ A]. specialize (A Hm).
      apply f32_to_f64_special; [|exact A].
      assert (Hmt : 0 <= f16_mant h < 1024) by (unfold f16_mant; change (2 ^ 10) with 1024; apply Z.mod_pos_bound; lia).
      unfold f16_to_f32. fold (f16_sign h). fold (f16_bexp h). fold (f16_mant h). rewrite He. cbn [Z.eqb Pos.eqb].
      unfold f32_inf. change (2 ^ 23) with 8388608. change (2 ^ 13) with 8192. pows. destruct Hsg as [-> | ->]; lia.
  - subst x. split; [reflexivity|]. split; [intros; apply f32_to_f64_finite; assumption|].
    apply f32_to_f64_special; assumption.
  - exact P.
Qed.

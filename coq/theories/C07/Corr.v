(* C07 — correspondence: the harness decodes wire bytes with the real Decoder into
   each of the 13 destination kinds and records (ok, stored value); the model is
   evaluated on the same bytes.  Floats are compared as bit patterns with NaNs
   canonicalised; errors only as "error". *)
From Coq Require Import List ZArith Bool.
From Verif Require Import Base.Word Base.Outcome Base.FBits C07.Model C07.Json.
Import ListNotations.
Local Open Scope Z_scope.

Definition kinds : list kind :=
  [KInt8; KInt16; KInt32; KInt64; KInt; KUint8; KUint16; KUint32; KUint64; KUint; KUintptr; KFloat32; KFloat64].

Record case := mkcase {
  cid : N;
  cfmt : Z;                     (* 0 cbor, 1 msgpack, 2 binc, 3 simple, 4 json *)
  cbytes : list Z;
  couts : list (bool * Z) }.    (* per kind: decoded without error?, stored value *)

Definition canon (k : kind) (v : Z) : Z :=
  match k with
  | KFloat32 => if f32_isnan v then f32_inf + 1 else v
  | KFloat64 => if f64_isnan v then f64_inf + 1 else v
  | _ => v
  end.

Definition run (f : Z) (k : kind) (bs : list Z) : res Z :=
  if f =? 0 then decode cbor k bs
  else if f =? 1 then decode msgpack k bs
  else if f =? 2 then decode binc k bs
  else if f =? 3 then decode simple k bs
  else json_decode k bs.

Definition check_one (f : Z) (bs : list Z) (k : kind) (o : bool * Z) : bool :=
  match run f k bs with
  | Ok v => fst o && (canon k v =? canon k (snd o))
  | Err EUnsupported => false
  | Err _ => negb (fst o)
  | OutOfFuel => false
  end.

Fixpoint check_all (f : Z) (bs : list Z) (ks : list kind) (os : list (bool * Z)) : bool :=
  match ks, os with
  | [], [] => true
  | k :: ks', o :: os' => check_one f bs k o && check_all f bs ks' os'
  | _, _ => false
  end.

Definition check_case (c : case) : bool := check_all (cfmt c) (cbytes c) kinds (couts c).

Definition mismatches (cs : list case) : list N :=
  map cid (filter (fun c => negb (check_case c)) cs).

(* C07 — correspondence: the harness decodes wire bytes with the real Decoder into
   each of the 13 destination kinds and records (ok, stored value); the model is
   evaluated on the same bytes.  Floats are compared as bit patterns with NaNs
   canonicalised; errors only as "error" for the binary formats.
   json ([mkjson]): the bytes of one number token, what strconv.ParseFloat answers for
   them (the oracle argument of the model, None = error), and per kind (ok, stored value)
   or (false, error class: 3 = an overflow error, 8 = any other error). *)
From Coq Require Import List NArith ZArith Bool.
From Verif Require C09.Spec.
From Verif Require Import Base.Word Base.Outcome Base.FBits C07.Model C07.Json.
Import ListNotations.
Local Open Scope Z_scope.

Definition kinds : list kind :=
  [KInt8; KInt16; KInt32; KInt64; KInt; KUint8; KUint16; KUint32; KUint64; KUint; KUintptr; KFloat32; KFloat64].

Inductive case :=
| mkcase (id : N)
         (fmt : Z)                     (* 0 cbor, 1 msgpack, 2 binc, 3 simple *)
         (bytes : list Z)
         (outs : list (bool * Z))      (* per kind: decoded without error?, stored value *)
| mkjson (id : N)
         (lit : list N)                (* the token *)
         (sc64 sc32 : option Z)        (* strconv.ParseFloat(lit, 64 / 32): bits, None = error *)
         (outs : list (bool * Z)).     (* per kind: (true, stored value) or (false, error class) *)

Definition cid (c : case) : N := match c with mkcase id _ _ _ => id | mkjson id _ _ _ _ => id end.

Definition canon (k : kind) (v : Z) : Z :=
  match k with
  | KFloat32 => if f32_isnan v then f32_inf + 1 else v
  | KFloat64 => if f64_isnan v then f64_inf + 1 else v
  | _ => v
  end.

Definition run (f : Z) (k : kind) (bs : list Z) : res Z :=
  if f =? 0 then decode cbor k bs
  else if f =? 1 then decode msgpack k bs
  else if f =? 2 then decode binc k bs
  else if f =? 3 then decode simple k bs
  else Err EUnsupported.

Definition check_one (r : res Z) (k : kind) (o : bool * Z) : bool :=
  match r with
  | Ok v => fst o && (canon k v =? canon k (snd o))
  | Err EUnsupported => false
  | Err _ => negb (fst o)
  | OutOfFuel => false
  end.

(* json: the error class is compared too *)
Definition check_one_json (r : res Z) (k : kind) (o : bool * Z) : bool :=
  match r with
  | Ok v => fst o && (canon k v =? canon k (snd o))
  | Err e => negb (fst o) && (Z.of_N (eclass_code e) =? snd o)
  | OutOfFuel => false
  end.

Fixpoint check_all (chk : kind -> bool * Z -> bool) (ks : list kind) (os : list (bool * Z)) : bool :=
  match ks, os with
  | [], [] => true
  | k :: ks', o :: os' => chk k o && check_all chk ks' os'
  | _, _ => false
  end.

Definition check_case (c : case) : bool :=
  match c with
  | mkcase _ f bs outs => check_all (fun k o => check_one (run f k bs) k o) kinds outs
  | mkjson _ lit sc64 sc32 outs =>
    let orc := fun (f : C09.Spec.bfmt) (_ : list N) => if (C09.Spec.prec f =? 53) then sc64 else sc32 in
    check_all (fun k o => check_one_json (json_decode orc k lit) k o) kinds outs
  end.

Definition mismatches (cs : list case) : list N :=
  map cid (filter (fun c => negb (check_case c)) cs).

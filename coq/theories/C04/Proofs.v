(* C04 — lemmas.  The property theorems are in Properties/C04.v. *)
From Coq Require Import List NArith ZArith Arith Lia Bool.
From Verif Require Import Gen.Consts C04.Model.
Import ListNotations.

Local Ltac inv H := inversion H; subst; clear H.

(* ---- script bookkeeping: which responses have been consumed ---- *)

Definition okresp (r : wresp) : Prop := werr r = false.

(* [track sc0 s]: the remaining script is what is left of sc0 after (calls s) calls *)
Definition track (sc0 : list wresp) (s : st) : Prop := script s = skipn (calls s) sc0.

Lemma skipn_nil_S {A} n (l : list A) : skipn n l = [] -> skipn (S n) l = [].
Proof.
  revert l; induction n as [|n IH]; intros l H.
  - simpl in H; subst; reflexivity.
  - destruct l as [|x l]; [reflexivity|]. simpl in H. apply (IH l H).
Qed.

Lemma skipn_cons_S {A} n (l : list A) x r : skipn n l = x :: r -> skipn (S n) l = r /\ firstn (S n) l = firstn n l ++ [x].
Proof.
  revert l; induction n as [|n IH]; intros l H.
  - simpl in H; subst; split; reflexivity.
  - destruct l as [|y l]; [discriminate|]. simpl in H. destruct (IH l H) as [A1 A2].
    split; [exact A1|]. change (firstn (S (S n)) (y :: l)) with (y :: firstn (S n) l). rewrite A2. reflexivity.
Qed.

Lemma firstn_S_nil {A} n (l : list A) : skipn n l = [] -> firstn (S n) l = firstn n l.
Proof.
  revert l; induction n as [|n IH]; intros l H.
  - simpl in H; subst; reflexivity.
  - destruct l as [|y l]; [reflexivity|]. simpl in H. change (firstn (S (S n)) (y :: l)) with (y :: firstn (S n) l).
    rewrite (IH l H). reflexivity.
Qed.

(* ---- one Write call ---- *)

Lemma take_le a l : take a l <= l.
Proof. unfold take. destruct (N.ltb_spec a (N.of_nat l)); lia. Qed.

Lemma wcall_spec sc0 s s' e :
  wcall s = (s', e) -> track sc0 s ->
  cap s' = cap s /\ err s' = err s /\
  recv s' ++ pend s' = recv s ++ pend s /\
  length (pend s') <= length (pend s) /\
  (exists p, recv s' = recv s ++ p) /\
  track sc0 s' /\
  (Forall okresp (firstn (calls s) sc0) -> e = false -> Forall okresp (firstn (calls s') sc0)).
Proof.
  unfold wcall, track. intros H T. destruct (script s) as [|r rest] eqn:Hs.
  - inv H. cbn [cap pend recv script calls err]. repeat apply conj; try reflexivity; try (cbn; lia).
    + rewrite app_nil_r; reflexivity.
    + eexists; reflexivity.
    + symmetry. apply skipn_nil_S. symmetry; exact T.
    + intros F _. rewrite firstn_S_nil; [exact F| symmetry; exact T].
  - inv H. cbn [cap pend recv script calls err]. symmetry in T. destruct (skipn_cons_S _ _ _ _ T) as [T1 T2].
    repeat apply conj; try reflexivity.
    + rewrite <- app_assoc, firstn_skipn. reflexivity.
    + rewrite skipn_length. pose proof (take_le (acc r) (length (pend s))). lia.
    + eexists; reflexivity.
    + symmetry; exact T1.
    + intros F E. rewrite T2. apply Forall_app. split; [exact F|]. constructor; [exact E|constructor].
Qed.

(* ---- flushErr ---- *)

Lemma flushErr_spec sc0 i : forall s s' e,
  flushErr i s = (s', e) -> track sc0 s ->
  cap s' = cap s /\ err s' = err s /\
  recv s' ++ pend s' = recv s ++ pend s /\
  length (pend s') <= length (pend s) /\
  (exists p, recv s' = recv s ++ p) /\
  track sc0 s' /\
  (e = None -> pend s' = []) /\
  e <> Some EFuel /\ e <> Some EBounds /\
  (Forall okresp (firstn (calls s) sc0) -> e = None -> Forall okresp (firstn (calls s') sc0)).
Proof.
  induction i as [|i IH]; intros s s' e H T.
  - cbn in H. inv H. repeat apply conj; try reflexivity; try lia; try discriminate; try assumption.
    exists []; rewrite app_nil_r; reflexivity.
  - cbn [flushErr] in H. destruct (wcall s) as [s1 e1] eqn:Hw.
    destruct (wcall_spec sc0 _ _ _ Hw T) as (C1 & E1 & R1 & L1 & [p1 P1] & T1 & F1).
    destruct ((length (pend s1) =? 0) || e1) eqn:Hc.
    + inv H. repeat apply conj.
      * exact C1.
      * exact E1.
      * exact R1.
      * exact L1.
      * exists p1; exact P1.
      * exact T1.
      * intros He. destruct e1; [discriminate|]. rewrite orb_false_r in Hc.
        apply Nat.eqb_eq in Hc. destruct (pend s'); [reflexivity|discriminate].
      * destruct e1; discriminate.
      * destruct e1; discriminate.
      * intros F He. destruct e1; [discriminate|]. apply F1; [exact F|reflexivity].
    + apply orb_false_iff in Hc. destruct Hc as [_ Hc]. subst e1.
      destruct (IH _ _ _ H T1) as (C2 & E2 & R2 & L2 & [p2 P2] & T2 & N2 & X2 & Y2 & F2).
      repeat apply conj.
      * congruence.
      * congruence.
      * congruence.
      * lia.
      * exists (p1 ++ p2). rewrite P2, P1, app_assoc. reflexivity.
      * exact T2.
      * exact N2.
      * exact X2.
      * exact Y2.
      * intros F He. apply F2; [|exact He]. apply F1; [exact F|reflexivity].
Qed.

(* ---- the invariant carried through operations ---- *)

Record good (sc0 : list wresp) (acc : list N) (s : st) : Prop := {
  g_len    : length (pend s) <= cap s;
  g_eq     : err s = None -> recv s ++ pend s = acc;
  g_prefix : exists sfx, recv s ++ sfx = acc;
  g_track  : track sc0 s;
  g_nofuel : err s <> Some EFuel;
  g_nobnd  : err s <> Some EBounds;
  g_resp   : err s = None -> Forall okresp (firstn (calls s) sc0) }.

Lemma good_extend sc0 acc s d : good sc0 acc s -> err s <> None -> good sc0 (acc ++ d) s.
Proof.
  intros G E. destruct G as [G1 G2 [sfx G3] G4 G5 G6 G7]. constructor; try assumption.
  - intros H; contradiction.
  - exists (sfx ++ d). rewrite app_assoc, G3. reflexivity.
Qed.

Lemma flush_good sc0 acc s :
  good sc0 acc s -> err s = None ->
  let s' := flush s in
  good sc0 acc s' /\ cap s' = cap s /\ (err s' = None -> pend s' = []).
Proof.
  intros G E. unfold flush. destruct (flushErr flushTries s) as [s1 e] eqn:Hf. cbv zeta.
  destruct G as [G1 G2 [sfx G3] G4 G5 G6 G7].
  destruct (flushErr_spec sc0 _ _ _ _ Hf G4) as (C & E1 & R & L & [p P] & T & N1 & X & Y & F).
  specialize (G2 E).
  destruct e as [k|].
  - split; [|split].
    + constructor; cbn; try (intro; discriminate).
      * lia.
      * exists (pend s1). rewrite R. exact G2.
      * exact T.
      * intro H; inv H. apply X; reflexivity.
      * intro H; inv H. apply Y; reflexivity.
    + cbn. exact C.
    + cbn. intro; discriminate.
  - split; [|split].
    + constructor.
      * lia.
      * intros _. rewrite R. exact G2.
      * exists (pend s1). rewrite R. exact G2.
      * exact T.
      * rewrite E1, E. discriminate.
      * rewrite E1, E. discriminate.
      * intros _. apply F; [apply G7; exact E|reflexivity].
    + exact C.
    + intros _. apply N1. reflexivity.
Qed.

Lemma push_good sc0 acc s d :
  good sc0 acc s -> err s = None -> length (pend s) + length d <= cap s ->
  let s' := push s d in
  good sc0 (acc ++ d) s' /\ cap s' = cap s /\ err s' = None /\ pend s' = pend s ++ d.
Proof.
  intros G E L. unfold push. destruct (Nat.leb_spec (length (pend s) + length d) (cap s)) as [_|H]; [|lia].
  cbv zeta. destruct G as [G1 G2 [sfx G3] G4 G5 G6 G7]. cbn. repeat apply conj; try assumption; try reflexivity.
  constructor; cbn; try assumption.
  - rewrite app_length. lia.
  - intros _. rewrite app_assoc, (G2 E). reflexivity.
  - exists (pend s ++ d). rewrite app_assoc, (G2 E). reflexivity.
Qed.

(* writeb loop, starting from an empty buffer *)
Lemma writeb_loop_empty sc0 : forall fuel s d acc,
  good sc0 acc s -> err s = None -> 0 < cap s -> pend s = [] -> length d < fuel ->
  let s' := writeb_loop fuel s d in good sc0 (acc ++ d) s' /\ cap s' = cap s.
Proof.
  induction fuel as [|f IH]; intros s d acc G E C P L; [lia|].
  cbn [writeb_loop]. rewrite P. cbn [length]. rewrite Nat.sub_0_r.
  destruct (Nat.leb_spec (length d) (cap s)) as [H|H].
  - destruct (push_good sc0 acc s d G E) as (G' & C' & _ & _); [rewrite P; cbn; lia|]. split; assumption.
  - destruct (push_good sc0 acc s (firstn (cap s) d) G E) as (G1 & C1 & E1 & P1).
    { rewrite P, firstn_length. cbn. lia. }
    destruct (flush_good sc0 _ _ G1 E1) as (G2 & C2 & N2).
    set (s2 := flush (push s (firstn (cap s) d))) in *.
    destruct (err s2) eqn:E2.
    + split; [|congruence].
      replace (acc ++ d) with ((acc ++ firstn (cap s) d) ++ skipn (cap s) d)
        by (rewrite <- app_assoc, firstn_skipn; reflexivity).
      apply good_extend; [exact G2|congruence].
    + destruct (IH s2 (skipn (cap s) d) (acc ++ firstn (cap s) d) G2 E2) as (G3 & C3).
      * congruence.
      * apply N2; reflexivity.
      * rewrite skipn_length. lia.
      * rewrite <- app_assoc, firstn_skipn in G3. split; [exact G3|congruence].
Qed.

Lemma writeb_loop_good sc0 fuel s d acc :
  good sc0 acc s -> err s = None -> 0 < cap s -> length d + 1 < fuel ->
  let s' := writeb_loop fuel s d in good sc0 (acc ++ d) s' /\ cap s' = cap s.
Proof.
  intros G E C L. destruct fuel as [|f]; [lia|]. cbn [writeb_loop].
  pose proof (g_len _ _ _ G) as GL.
  set (a := cap s - length (pend s)).
  destruct (Nat.leb_spec (length d) a) as [H|H].
  - destruct (push_good sc0 acc s d G E) as (G' & C' & _ & _); [unfold a in H; lia|]. split; assumption.
  - destruct (push_good sc0 acc s (firstn a d) G E) as (G1 & C1 & E1 & P1).
    { rewrite firstn_length. unfold a. lia. }
    destruct (flush_good sc0 _ _ G1 E1) as (G2 & C2 & N2).
    set (s2 := flush (push s (firstn a d))) in *.
    destruct (err s2) eqn:E2.
    + split; [|congruence].
      replace (acc ++ d) with ((acc ++ firstn a d) ++ skipn a d)
        by (rewrite <- app_assoc, firstn_skipn; reflexivity).
      apply good_extend; [exact G2|congruence].
    + destruct (writeb_loop_empty sc0 f s2 (skipn a d) (acc ++ firstn a d) G2 E2) as (G3 & C3).
      * congruence.
      * apply N2; reflexivity.
      * rewrite skipn_length. lia.
      * rewrite <- app_assoc, firstn_skipn in G3. split; [exact G3|congruence].
Qed.

(* writeqstr loop *)
Lemma writeq_loop_empty sc0 : forall fuel s d acc,
  good sc0 acc s -> err s = None -> 1 < cap s -> pend s = [] -> length d < fuel ->
  let s' := writeq_loop fuel s d in good sc0 (acc ++ d ++ [quote]) s' /\ cap s' = cap s.
Proof.
  induction fuel as [|f IH]; intros s d acc G E C P L; [lia|].
  cbn [writeq_loop]. rewrite P. cbn [length]. rewrite Nat.sub_0_r.
  destruct (Nat.leb_spec (length d + 1) (cap s)) as [H|H].
  - destruct (push_good sc0 acc s d G E) as (G1 & C1 & E1 & P1); [rewrite P; cbn; lia|].
    destruct (push_good sc0 _ _ [quote] G1 E1) as (G2 & C2 & _ & _).
    { rewrite P1, P, C1. cbn. lia. }
    rewrite <- app_assoc in G2. split; [exact G2|congruence].
  - destruct (push_good sc0 acc s (firstn (cap s) d) G E) as (G1 & C1 & E1 & P1).
    { rewrite P, firstn_length. cbn. lia. }
    destruct (flush_good sc0 _ _ G1 E1) as (G2 & C2 & N2).
    set (s2 := flush (push s (firstn (cap s) d))) in *.
    destruct (err s2) eqn:E2.
    + split; [|congruence].
      replace (acc ++ d ++ [quote]) with ((acc ++ firstn (cap s) d) ++ skipn (cap s) d ++ [quote]).
      * apply good_extend; [exact G2|congruence].
      * rewrite <- app_assoc. f_equal. rewrite app_assoc, firstn_skipn. reflexivity.
    + destruct (IH s2 (skipn (cap s) d) (acc ++ firstn (cap s) d) G2 E2) as (G3 & C3).
      * congruence.
      * apply N2; reflexivity.
      * rewrite skipn_length. lia.
      * split; [|congruence].
        replace (acc ++ d ++ [quote]) with ((acc ++ firstn (cap s) d) ++ skipn (cap s) d ++ [quote]); [exact G3|].
        rewrite <- app_assoc. f_equal. rewrite app_assoc, firstn_skipn. reflexivity.
Qed.

Lemma writeq_loop_good sc0 fuel s d acc :
  good sc0 acc s -> err s = None -> 1 < cap s -> length d + 1 < fuel ->
  let s' := writeq_loop fuel s d in good sc0 (acc ++ d ++ [quote]) s' /\ cap s' = cap s.
Proof.
  intros G E C L. destruct fuel as [|f]; [lia|]. cbn [writeq_loop].
  pose proof (g_len _ _ _ G) as GL.
  set (a := cap s - length (pend s)).
  destruct (Nat.leb_spec (length d + 1) a) as [H|H].
  - destruct (push_good sc0 acc s d G E) as (G1 & C1 & E1 & P1); [unfold a in H; lia|].
    destruct (push_good sc0 _ _ [quote] G1 E1) as (G2 & C2 & _ & _).
    { rewrite P1, C1, app_length. cbn. unfold a in H. lia. }
    rewrite <- app_assoc in G2. split; [exact G2|congruence].
  - destruct (push_good sc0 acc s (firstn a d) G E) as (G1 & C1 & E1 & P1).
    { rewrite firstn_length. unfold a. lia. }
    destruct (flush_good sc0 _ _ G1 E1) as (G2 & C2 & N2).
    set (s2 := flush (push s (firstn a d))) in *.
    destruct (err s2) eqn:E2.
    + split; [|congruence].
      replace (acc ++ d ++ [quote]) with ((acc ++ firstn a d) ++ skipn a d ++ [quote]).
      * apply good_extend; [exact G2|congruence].
      * rewrite <- app_assoc. f_equal. rewrite app_assoc, firstn_skipn. reflexivity.
    + destruct (writeq_loop_empty sc0 f s2 (skipn a d) (acc ++ firstn a d) G2 E2) as (G3 & C3).
      * congruence.
      * apply N2; reflexivity.
      * rewrite skipn_length. lia.
      * split; [|congruence].
        replace (acc ++ d ++ [quote]) with ((acc ++ firstn a d) ++ skipn a d ++ [quote]); [exact G3|].
        rewrite <- app_assoc. f_equal. rewrite app_assoc, firstn_skipn. reflexivity.
Qed.

(* ---- one operation ---- *)

Lemma step_good sc0 acc s o :
  good sc0 acc s -> 16 <= cap s -> wf_op o ->
  let s' := step s o in good sc0 (acc ++ payload o) s' /\ cap s' = cap s.
Proof.
  intros G C W. unfold step. destruct (err s) eqn:E.
  - split; [|reflexivity]. apply good_extend; [exact G|congruence].
  - pose proof (g_len _ _ _ G) as GL. destruct o as [d|d|d]; cbn [payload].
    + apply writeb_loop_good; try assumption; lia.
    + (* WQ *)
      set (s1 := if cap s <? length (pend s) + length d + 2 then flush s else s).
      assert (H1 : good sc0 acc s1 /\ cap s1 = cap s /\
                    (err s1 = None -> length (pend s1) + length d + 2 <= cap s \/ pend s1 = [])).
      { unfold s1. destruct (Nat.ltb_spec (cap s) (length (pend s) + length d + 2)) as [H|H].
        - destruct (flush_good sc0 acc s G E) as (G1 & C1 & N1). repeat apply conj; try assumption.
          intros E1. right. apply N1; exact E1.
        - repeat apply conj; try assumption; try reflexivity. intros _. left. lia. }
      destruct H1 as (G1 & C1 & D1). destruct (err s1) eqn:E1.
      * split; [|exact C1]. apply good_extend; [exact G1|congruence].
      * destruct (push_good sc0 acc s1 [quote] G1 E1) as (G2 & C2 & E2 & P2).
        { destruct (D1 eq_refl) as [D|D]; [cbn; lia| rewrite D; cbn; lia]. }
        destruct (writeq_loop_good sc0 (length d + 2) (push s1 [quote]) d (acc ++ [quote]) G2 E2) as (G3 & C3); try lia.
        split; [|congruence]. rewrite <- app_assoc in G3. exact G3.
    + (* WN *)
      cbn in W.
      set (s1 := if cap s - length (pend s) <? length d then flush s else s).
      assert (H1 : good sc0 acc s1 /\ cap s1 = cap s /\
                    (err s1 = None -> length (pend s1) + length d <= cap s)).
      { unfold s1. destruct (Nat.ltb_spec (cap s - length (pend s)) (length d)) as [H|H].
        - destruct (flush_good sc0 acc s G E) as (G1 & C1 & N1). repeat apply conj; try assumption.
          intros E1. rewrite (N1 E1). cbn. lia.
        - repeat apply conj; try assumption; try reflexivity. intros _. lia. }
      destruct H1 as (G1 & C1 & D1). destruct (err s1) eqn:E1.
      * split; [|exact C1]. apply good_extend; [exact G1|congruence].
      * destruct (push_good sc0 acc s1 d G1 E1) as (G2 & C2 & _ & _); [rewrite C1; apply D1; reflexivity|].
        split; [exact G2|congruence].
Qed.

Lemma init_good c sc : good sc [] (init c sc).
Proof.
  constructor; cbn; try (intro; discriminate); try lia; try reflexivity.
  - exists []; reflexivity.
  - intros _. constructor.
Qed.

Lemma flat_snoc ops o : flat (ops ++ [o]) = flat ops ++ payload o.
Proof. unfold flat. rewrite map_app, concat_app. cbn. rewrite app_nil_r. reflexivity. Qed.

Lemma run_ops_good sc0 : forall ops s acc,
  good sc0 acc s -> 16 <= cap s -> Forall wf_op ops ->
  let s' := run_ops s ops in good sc0 (acc ++ flat ops) s' /\ cap s' = cap s.
Proof.
  induction ops as [|o ops IH]; intros s acc G C W.
  - cbn. rewrite app_nil_r. split; [exact G|reflexivity].
  - inversion W as [|? ? Wo Wr]; subst. cbn [run_ops fold_left].
    destruct (step_good sc0 acc s o G C Wo) as (G1 & C1).
    destruct (IH (step s o) (acc ++ payload o) G1) as (G2 & C2); [lia|exact Wr|].
    unfold run_ops in *. split; [|congruence].
    change (flat (o :: ops)) with (payload o ++ flat ops). rewrite app_assoc. exact G2.
Qed.

Lemma endw_good sc0 acc s :
  good sc0 acc s -> let s' := endw s in good sc0 acc s' /\ (err s' = None -> pend s' = []).
Proof.
  intros G. unfold endw. destruct (err s) eqn:E.
  - split; [exact G|]. intros H; congruence.
  - destruct (Nat.ltb_spec 0 (length (pend s))) as [H|H].
    + destruct (flush_good sc0 acc s G E) as (G1 & _ & N1). split; assumption.
    + split; [exact G|]. intros _. destruct (pend s); [reflexivity|cbn in H; lia].
Qed.

(* ---- the statements used by Properties/C04.v ---- *)

Lemma inv_lemma c sc ops :
  16 <= c -> Forall wf_op ops ->
  let r := run_ops (init c sc) ops in
  err r = None -> recv r ++ pend r = flat ops /\ length (pend r) <= c.
Proof.
  intros C W r E. destruct (run_ops_good sc ops (init c sc) [] (init_good c sc) C W) as (G & Cr).
  fold r in G, Cr. split; [apply (g_eq _ _ _ G E)|]. pose proof (g_len _ _ _ G). cbn in Cr. lia.
Qed.

Lemma bytes_lemma c sc ops :
  16 <= c -> Forall wf_op ops ->
  let r := run c sc ops in err r = None -> recv r = flat ops.
Proof.
  intros C W r E. unfold r, run in *.
  destruct (run_ops_good sc ops (init c sc) [] (init_good c sc) C W) as (G & _).
  destruct (endw_good sc _ _ G) as (G1 & N1). cbn [app] in G1.
  pose proof (g_eq _ _ _ G1 E) as H. rewrite (N1 E), app_nil_r in H. exact H.
Qed.

Lemma prefix_lemma c sc ops :
  16 <= c -> Forall wf_op ops ->
  exists sfx, recv (run c sc ops) ++ sfx = flat ops.
Proof.
  intros C W. unfold run.
  destruct (run_ops_good sc ops (init c sc) [] (init_good c sc) C W) as (G & _).
  destruct (endw_good sc _ _ G) as (G1 & _). exact (g_prefix _ _ _ G1).
Qed.

Lemma fault_lemma c sc ops :
  16 <= c -> Forall wf_op ops ->
  let r := run c sc ops in
  err r = None -> Forall okresp (firstn (calls r) sc).
Proof.
  intros C W r E. unfold r, run in *.
  destruct (run_ops_good sc ops (init c sc) [] (init_good c sc) C W) as (G & _).
  destruct (endw_good sc _ _ G) as (G1 & _). exact (g_resp _ _ _ G1 E).
Qed.

Lemma internal_lemma c sc ops :
  16 <= c -> Forall wf_op ops ->
  let r := run c sc ops in err r <> Some EFuel /\ err r <> Some EBounds.
Proof.
  intros C W r. unfold r, run.
  destruct (run_ops_good sc ops (init c sc) [] (init_good c sc) C W) as (G & _).
  destruct (endw_good sc _ _ G) as (G1 & _). split; [exact (g_nofuel _ _ _ G1)|exact (g_nobnd _ _ _ G1)].
Qed.

Lemma sticky_lemma s ops : err s <> None -> run_ops s ops = s /\ endw s = s.
Proof.
  intros E. split.
  - induction ops as [|o ops IH]; [reflexivity|]. cbn [run_ops fold_left]. unfold step at 2.
    destruct (err s); [exact IH|contradiction].
  - unfold endw. destruct (err s); [reflexivity|contradiction].
Qed.

(* a writer that accepts nothing and reports no error is reported as a short
   write after maxConsecutiveEmptyReads attempts *)
Lemma short_lemma : forall i s rest, 0 < length (pend s) ->
  script s = repeat (Build_wresp 0%N false) i ++ rest ->
  snd (flushErr i s) = Some EShort.
Proof.
  induction i as [|i IH]; intros s rest P H; [reflexivity|].
  cbn [flushErr]. unfold wcall. rewrite H. cbn [repeat app acc werr skipn pend].
  destruct (pend s) as [|x l] eqn:Hp; [cbn in P; lia|].
  replace (take 0 (length (x :: l))) with 0 by (unfold take; destruct (N.ltb_spec 0 (N.of_nat (length (x :: l)))); [reflexivity|cbn [length] in *; lia]).
  cbn [skipn firstn length Nat.eqb orb].
  apply (IH _ rest); cbn; [lia|reflexivity].
Qed.

(* C04 — executable model of bufioEncWriter (codec/writer.go:33-187).

   Hand written; tied to the code by the correspondence check (harness/cmd/c04
   drives the real bufioEncWriter through the verif hook with a scripted
   io.Writer and the model below is evaluated on the same operation list and
   the same writer script).  Constants come from Gen/Consts.v (regenerated from
   the working tree on every run). *)
From Coq Require Import List NArith ZArith Arith Lia Bool.
From Verif Require Import Gen.Consts.
Import ListNotations.

(* One response of the wrapped io.Writer: it accepts at most [acc] bytes of what
   it is offered and then reports an error iff [werr]. *)
Record wresp := { acc : N; werr : bool }.

(* n = min(acc, len(p)), computed without building a large nat *)
Definition take (a : N) (l : nat) : nat :=
  if (a <? N.of_nat l)%N then N.to_nat a else l.

Inductive werrk := EWriter | EShort | EFuel | EBounds.

(* operations of encWriterI *)
Inductive wop :=
| WB (d : list N)    (* writeb / writestr *)
| WQ (d : list N)    (* writeqstr: quote, d, quote *)
| WN (d : list N).   (* writen1/2/4/8: d has 1, 2, 4 or 8 bytes *)

Record st := mk {
  cap : nat;               (* len(z.buf) after resetIO *)
  pend : list N;           (* z.buf[:z.n] *)
  recv : list N;           (* every byte the wrapped writer has accepted, in order *)
  script : list wresp;     (* responses the wrapped writer will still give; [] = accept everything *)
  calls : nat;             (* number of Write calls made *)
  err : option werrk }.

Definition init (c : nat) (sc : list wresp) : st :=
  mk c [] [] sc 0 None.

Definition set_err (s : st) (e : werrk) : st :=
  mk (cap s) (pend s) (recv s) (script s) (calls s) (Some e).

(* z.w.Write(z.buf[:z.n]); z.n -= n; copy down *)
Definition wcall (s : st) : st * bool :=
  match script s with
  | [] => (mk (cap s) [] (recv s ++ pend s) [] (S (calls s)) (err s), false)
  | r :: rest =>
      let k := take (acc r) (length (pend s)) in
      (mk (cap s) (skipn k (pend s)) (recv s ++ firstn k (pend s)) rest (S (calls s)) (err s), werr r)
  end.

(* flushErr: for i := maxConsecutiveEmptyReads; i > 0; i-- *)
Fixpoint flushErr (i : nat) (s : st) : st * option werrk :=
  match i with
  | 0 => (s, Some EShort)
  | S i' =>
      let '(s', e) := wcall s in
      if (length (pend s') =? 0) || e
      then (s', if e then Some EWriter else None)
      else flushErr i' s'
  end.

Definition flushTries : nat := Z.to_nat maxConsecutiveEmptyReads.

(* flush = halt.onerror(flushErr()) *)
Definition flush (s : st) : st :=
  let '(s', e) := flushErr flushTries s in
  match e with None => s' | Some k => set_err s' k end.

(* store bytes at z.buf[z.n:], z.n += len; out of range = a Go bounds panic *)
Definition push (s : st) (d : list N) : st :=
  if length (pend s) + length d <=? cap s
  then mk (cap s) (pend s ++ d) (recv s) (script s) (calls s) (err s)
  else set_err s EBounds.

(* LOOP: a := len(z.buf)-z.n; if len(s) > a { copy; s = s[a:]; flush; goto LOOP }; copy *)
Fixpoint writeb_loop (fuel : nat) (s : st) (d : list N) : st :=
  match fuel with
  | 0 => set_err s EFuel
  | S f =>
      let a := cap s - length (pend s) in
      if length d <=? a then push s d
      else
        let s2 := flush (push s (firstn a d)) in
        match err s2 with
        | Some _ => s2
        | None => writeb_loop f s2 (skipn a d)
        end
  end.

Definition quote : N := 34%N.

(* the LOOP of writeqstr: the closing quote must fit too *)
Fixpoint writeq_loop (fuel : nat) (s : st) (d : list N) : st :=
  match fuel with
  | 0 => set_err s EFuel
  | S f =>
      let a := cap s - length (pend s) in
      if length d + 1 <=? a then push (push s d) [quote]
      else
        let s2 := flush (push s (firstn a d)) in
        match err s2 with
        | Some _ => s2
        | None => writeq_loop f s2 (skipn a d)
        end
  end.

Definition step (s : st) (o : wop) : st :=
  match err s with
  | Some _ => s                      (* the panic has unwound Encode; e.err is sticky *)
  | None =>
    match o with
    | WB d => writeb_loop (length d + 2) s d
    | WN d =>
        let s1 := if cap s - length (pend s) <? length d then flush s else s in
        match err s1 with Some _ => s1 | None => push s1 d end
    | WQ d =>
        let s1 := if cap s <? length (pend s) + length d + 2 then flush s else s in
        match err s1 with
        | Some _ => s1
        | None => writeq_loop (length d + 2) (push s1 [quote]) d
        end
    end
  end.

Definition run_ops (s : st) (ops : list wop) : st := fold_left step ops s.

(* end(): if z.n > 0 { flushErr } *)
Definition endw (s : st) : st :=
  match err s with
  | Some _ => s
  | None => if 0 <? length (pend s) then flush s else s
  end.

Definition run (c : nat) (sc : list wresp) (ops : list wop) : st :=
  endw (run_ops (init c sc) ops).

(* what the same operations append to a []byte (bytesEncAppender) *)
Definition payload (o : wop) : list N :=
  match o with
  | WB d => d
  | WN d => d
  | WQ d => quote :: d ++ [quote]
  end.

Definition flat (ops : list wop) : list N := concat (map payload ops).

Definition wf_op (o : wop) : Prop :=
  match o with WN d => length d <= 8 | _ => True end.

Definition consumed (c : nat) (sc : list wresp) (s : st) : list wresp := firstn (calls s) sc.

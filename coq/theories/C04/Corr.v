(* C04 — correspondence: evaluate the model on the cases the harness ran against
   the real bufioEncWriter / bytesEncAppender and report the ids that differ. *)
From Coq Require Import List NArith ZArith Arith Bool.
From Verif Require Import Gen.Consts C04.Model.
Import ListNotations.

Record case := mkcase {
  cid : N;
  ccap : nat;                 (* len(z.buf) observed after resetIO *)
  cscript : list wresp;
  cops : list wop;
  o_recv : list N;            (* bytes the scripted writer received *)
  o_err : N;                  (* 0 none, 1 the writer's error, 2 io.ErrShortWrite, 3 anything else *)
  o_calls : nat;              (* Write calls observed *)
  o_flat : list N }.          (* bytesEncAppender output for the same ops *)

Definition errclass (e : option werrk) : N :=
  match e with
  | None => 0 | Some EWriter => 1 | Some EShort => 2 | Some _ => 3
  end%N.

Fixpoint eqbl (a b : list N) : bool :=
  match a, b with
  | [], [] => true
  | x :: a', y :: b' => N.eqb x y && eqbl a' b'
  | _, _ => false
  end.

Definition check_case (c : case) : bool :=
  let r := run (ccap c) (cscript c) (cops c) in
  eqbl (recv r) (o_recv c) && N.eqb (errclass (err r)) (o_err c) && Nat.eqb (calls r) (o_calls c)
  && eqbl (flat (cops c)) (o_flat c).

Definition mismatches (cs : list case) : list N :=
  map cid (filter (fun c => negb (check_case c)) cs).

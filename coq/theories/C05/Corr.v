(* C05 — correspondence for the isEmptyValue pair: the harness records what the
   compiled build's isEmptyValue answered; the model of THAT build must agree. *)
From Coq Require Import List NArith ZArith Bool.
From Verif Require Import C05.Model.
Import ListNotations.

Record case := mkcase {
  cid : N;
  csafe : bool;      (* true: built with codec.safe (helper_not_unsafe.go) *)
  crec : bool;       (* recursive argument *)
  cval : mval;
  o_empty : bool }.  (* observed result *)

Definition check_case (c : case) : bool :=
  Bool.eqb (if csafe c then safe_empty (crec c) (cval c) else unsafe_empty (crec c) (cval c)) (o_empty c).

Definition mismatches (cs : list case) : list N :=
  map cid (filter (fun c => negb (check_case c)) cs).

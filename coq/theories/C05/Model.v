(* C05 — the safe/unsafe helper pair the encoder's omitempty rests on.

   isEmptyValue exists twice: helper_not_unsafe.go (build tag codec.safe; written
   with reflect) and helper_unsafe.go (default build; compares the value's memory
   with zero, or switches on the kind when recursive).  Both are modelled here
   over values that carry what the two implementations can observe: the Go-level
   content AND the memory representation (nil-ness of data pointers, float bit
   patterns).  Hand written; tied by the correspondence check cmd/c05e which
   calls the real isEmptyValue of each build through the verif hook. *)
From Coq Require Import List NArith ZArith Bool.
Import ListNotations.

Inductive mval :=
| MBool (b : bool)
| MInt (z : Z)
| MUint (n : N)
| MF64 (bits : N)                          (* IEEE-754 bit pattern *)
| MF32 (bits : N)
| MStr (data_nil : bool) (len : N)         (* string header: data pointer nil?, length *)
| MSlice (data_nil : bool) (len cap : N)   (* slice header *)
| MMap (isnil : bool) (len : N)
| MChan (isnil : bool) (len : N)
| MFunc (isnil : bool)
| MPtr (p : option mval)
| MIface (p : option mval)
| MArr (l : list mval)
| MStruct (comparable : bool) (l : list mval)   (* a struct with no IsZero/IsCodecEmpty methods; l = its fields, all exported *)
| MTime (iszero : bool) (memzero : bool).       (* time.Time: t.IsZero(), t == time.Time{} *)

Definition f64zero (bits : N) : bool := N.eqb bits 0 || N.eqb bits (2 ^ 63).   (* x == 0 in Go: +0.0 or -0.0 *)
Definition f32zero (bits : N) : bool := N.eqb bits 0 || N.eqb bits (2 ^ 31).

(* all bytes of the value's own memory are zero (unsafeCmpZero over the value's size) *)
Fixpoint memzero (v : mval) : bool :=
  match v with
  | MBool b => negb b
  | MInt z => Z.eqb z 0
  | MUint n => N.eqb n 0
  | MF64 b => N.eqb b 0
  | MF32 b => N.eqb b 0
  | MStr dn len => dn && N.eqb len 0
  | MSlice dn len cap => dn && N.eqb len 0 && N.eqb cap 0
  | MMap isnil _ => isnil
  | MChan isnil _ => isnil
  | MFunc isnil => isnil
  | MPtr p => match p with None => true | Some _ => false end
  | MIface p => match p with None => true | Some _ => false end
  | MArr l => forallb memzero l
  | MStruct _ l => forallb memzero l
  | MTime _ mz => mz
  end.

(* Go's == against the zero value, for the comparable kinds *)
Fixpoint eqzero (v : mval) : bool :=
  match v with
  | MBool b => negb b
  | MInt z => Z.eqb z 0
  | MUint n => N.eqb n 0
  | MF64 b => f64zero b
  | MF32 b => f32zero b
  | MStr _ len => N.eqb len 0
  | MChan isnil _ => isnil
  | MPtr p => match p with None => true | Some _ => false end
  | MIface p => match p with None => true | Some _ => false end
  | MArr l => forallb eqzero l
  | MStruct _ l => forallb eqzero l
  | MTime _ mz => mz
  | MSlice _ _ _ | MMap _ _ | MFunc _ => false     (* not comparable: never reached for a comparable struct *)
  end.

(* helper_not_unsafe.go: isEmptyValue / isEmptyStruct *)
Fixpoint safe_empty (rec : bool) (v : mval) : bool :=
  match v with
  | MStr _ len => N.eqb len 0
  | MArr l => forallb (safe_empty false) l          (* elements are checked with recursive = false *)
  | MMap isnil len => isnil || N.eqb len 0
  | MSlice dn len _ => (dn && N.eqb len 0) || N.eqb len 0
  | MChan isnil len => isnil || N.eqb len 0
  | MBool b => negb b
  | MInt z => Z.eqb z 0
  | MUint n => N.eqb n 0
  | MF64 b => f64zero b
  | MF32 b => f32zero b
  | MFunc isnil => isnil
  | MPtr p | MIface p =>
      match p with
      | None => true
      | Some x => if rec then safe_empty rec x else false
      end
  | MStruct cmp l =>
      if cmp then forallb eqzero l
      else if rec then forallb (safe_empty rec) l else false
  | MTime iz _ => iz
  end.

(* helper_unsafe.go: isEmptyValue (non-recursive: memory compare) and
   isEmptyValueFallbackRecur (recursive: switch on kind) *)
Fixpoint unsafe_rec (v : mval) : bool :=
  match v with
  | MStr _ len => N.eqb len 0
  | MSlice _ len _ => N.eqb len 0
  | MBool b => negb b
  | MInt z => Z.eqb z 0
  | MUint n => N.eqb n 0
  | MF64 b => f64zero b
  | MF32 b => f32zero b
  | MStruct _ l => forallb memzero l
  | MTime _ mz => mz                                 (* time.Time is a struct kind: memory compare *)
  | MPtr p | MIface p =>
      match p with
      | None => true
      | Some x => unsafe_rec x
      end
  | MChan isnil len => isnil || N.eqb len 0
  | MMap isnil len => isnil || N.eqb len 0
  | MArr l => match l with [] => true | _ => forallb memzero l end
  | MFunc _ => false                                 (* reflect.Func is not in the switch *)
  end.

Definition unsafe_empty (rec : bool) (v : mval) : bool :=
  if rec then unsafe_rec v else memzero v.

(* ---- agreement domains (boolean, structural) ---- *)

(* eqzero v = memzero v *)
Fixpoint dom_eq (v : mval) : bool :=
  match v with
  | MF64 b => negb (N.eqb b (2 ^ 63))
  | MF32 b => negb (N.eqb b (2 ^ 31))
  | MStr dn len => negb (N.eqb len 0) || dn
  | MSlice _ _ _ | MMap _ _ | MFunc _ => false
  | MArr l => forallb dom_eq l
  | MStruct _ l => forallb dom_eq l
  | _ => true
  end.

(* safe_empty rec v = memzero v *)
Fixpoint dom_mz (rec : bool) (v : mval) : bool :=
  match v with
  | MBool _ | MInt _ | MUint _ | MFunc _ => true
  | MF64 b => negb (N.eqb b (2 ^ 63))
  | MF32 b => negb (N.eqb b (2 ^ 31))
  | MStr dn len => negb (N.eqb len 0) || dn
  | MSlice dn len cap => negb (N.eqb len 0) || (dn && N.eqb cap 0)
  | MMap isnil len => negb (N.eqb len 0) || isnil
  | MChan isnil len => negb (N.eqb len 0) || isnil
  | MPtr p | MIface p =>
      match p with
      | None => true
      | Some x => if rec then negb (safe_empty rec x) else true
      end
  | MArr l => forallb (dom_mz false) l
  | MStruct cmp l =>
      if cmp then forallb dom_eq l
      else if rec then forallb (dom_mz rec) l else negb (forallb memzero l)
  | MTime iz mz => Bool.eqb iz mz
  end.

(* safe_empty true v = unsafe_rec v *)
Fixpoint dom_rec (v : mval) : bool :=
  match v with
  | MFunc isnil => negb isnil
  | MPtr p | MIface p => match p with None => true | Some x => dom_rec x end
  | MArr l => forallb (dom_mz false) l
  | MStruct cmp l => if cmp then forallb dom_eq l else forallb (dom_mz true) l
  | MTime iz mz => Bool.eqb iz mz
  | _ => true
  end.

(* induction principle reaching inside the nested lists *)
Section MvalInd.
  Variable P : mval -> Prop.
  Hypothesis Hbool : forall b, P (MBool b).
  Hypothesis Hint : forall z, P (MInt z).
  Hypothesis Huint : forall n, P (MUint n).
  Hypothesis Hf64 : forall b, P (MF64 b).
  Hypothesis Hf32 : forall b, P (MF32 b).
  Hypothesis Hstr : forall d l, P (MStr d l).
  Hypothesis Hslice : forall d l c, P (MSlice d l c).
  Hypothesis Hmap : forall i l, P (MMap i l).
  Hypothesis Hchan : forall i l, P (MChan i l).
  Hypothesis Hfunc : forall i, P (MFunc i).
  Hypothesis Hptr0 : P (MPtr None).
  Hypothesis Hptr : forall x, P x -> P (MPtr (Some x)).
  Hypothesis Hif0 : P (MIface None).
  Hypothesis Hif : forall x, P x -> P (MIface (Some x)).
  Hypothesis Harr : forall l, Forall P l -> P (MArr l).
  Hypothesis Hstruct : forall c l, Forall P l -> P (MStruct c l).
  Hypothesis Htime : forall a b, P (MTime a b).

  Fixpoint mval_ind' (v : mval) : P v :=
    match v with
    | MBool b => Hbool b | MInt z => Hint z | MUint n => Huint n
    | MF64 b => Hf64 b | MF32 b => Hf32 b
    | MStr d l => Hstr d l | MSlice d l c => Hslice d l c
    | MMap i l => Hmap i l | MChan i l => Hchan i l | MFunc i => Hfunc i
    | MPtr None => Hptr0 | MPtr (Some x) => Hptr x (mval_ind' x)
    | MIface None => Hif0 | MIface (Some x) => Hif x (mval_ind' x)
    | MArr l => Harr l ((fix go (l : list mval) : Forall P l :=
                           match l with [] => Forall_nil _ | x :: r => Forall_cons x (mval_ind' x) (go r) end) l)
    | MStruct c l => Hstruct c l ((fix go (l : list mval) : Forall P l :=
                           match l with [] => Forall_nil _ | x :: r => Forall_cons x (mval_ind' x) (go r) end) l)
    | MTime a b => Htime a b
    end.
End MvalInd.

From Coq Require Import List NArith ZArith Bool Lia.
From Verif Require Import C05.Model.
Import ListNotations.

Lemma forallb_agree (h f g : mval -> bool) (l : list mval) :
  Forall (fun x => h x = true -> f x = g x) l -> forallb h l = true -> forallb f l = forallb g l.
Proof.
  induction 1 as [|x l Hx Hl IH]; intros H; [reflexivity|].
  cbn [forallb] in *. apply andb_true_iff in H. destruct H as [H1 H2].
  rewrite (Hx H1), (IH H2). reflexivity.
Qed.

Lemma f64zero_plain b : negb (N.eqb b (2 ^ 63)) = true -> f64zero b = N.eqb b 0.
Proof. unfold f64zero. intros H. apply negb_true_iff in H. rewrite H, orb_false_r. reflexivity. Qed.

Lemma f32zero_plain b : negb (N.eqb b (2 ^ 31)) = true -> f32zero b = N.eqb b 0.
Proof. unfold f32zero. intros H. apply negb_true_iff in H. rewrite H, orb_false_r. reflexivity. Qed.

Lemma len_dn (dn : bool) (len : N) : negb (N.eqb len 0) || dn = true -> N.eqb len 0 = dn && N.eqb len 0.
Proof. destruct (N.eqb len 0), dn; cbn; intros H; try reflexivity; discriminate. Qed.

Lemma eq_mz_lemma : forall v, dom_eq v = true -> eqzero v = memzero v.
Proof.
  induction v as [b|z|n|b|b|d l|d l c|i l|i l|i| |x IH| |x IH|l IH|c l IH|a b] using mval_ind';
    cbn [dom_eq eqzero memzero]; intros H; try reflexivity; try discriminate.
  - apply f64zero_plain; exact H.
  - apply f32zero_plain; exact H.
  - apply len_dn; exact H.
  - apply (forallb_agree dom_eq); assumption.
  - apply (forallb_agree dom_eq); assumption.
Qed.

Lemma mz_lemma : forall v rec, dom_mz rec v = true -> safe_empty rec v = memzero v.
Proof.
  induction v as [b|z|n|b|b|d l|d l c|i l|i l|i| |x IH| |x IH|l IH|c l IH|a b] using mval_ind';
    intros rec; cbn [dom_mz safe_empty memzero]; intros H; try reflexivity.
  - apply f64zero_plain; exact H.
  - apply f32zero_plain; exact H.
  - apply len_dn; exact H.
  - destruct d, (N.eqb l 0), (N.eqb c 0); cbn in *; try reflexivity; discriminate.
  - destruct i, (N.eqb l 0); cbn in *; try reflexivity; discriminate.
  - destruct i, (N.eqb l 0); cbn in *; try reflexivity; discriminate.
  - destruct rec; [|reflexivity]. apply negb_true_iff in H. exact H.
  - destruct rec; [|reflexivity]. apply negb_true_iff in H. exact H.
  - apply (forallb_agree (dom_mz false)); [|exact H].
    eapply Forall_impl; [|exact IH]. intros x Hx. apply Hx.
  - destruct c.
    + apply (forallb_agree dom_eq); [|exact H]. apply Forall_forall. intros x _. apply eq_mz_lemma.
    + destruct rec.
      * apply (forallb_agree (dom_mz true)); [|exact H].
        eapply Forall_impl; [|exact IH]. intros x Hx. apply Hx.
      * apply negb_true_iff in H. symmetry. exact H.
  - apply eqb_prop in H. exact H.
Qed.

Lemma rec_lemma : forall v, dom_rec v = true -> safe_empty true v = unsafe_rec v.
Proof.
  induction v as [b|z|n|b|b|d l|d l c|i l|i l|i| |x IH| |x IH|l IH|c l IH|a b] using mval_ind';
    cbn [dom_rec safe_empty unsafe_rec]; intros H; try reflexivity.
  - destruct d, (N.eqb l 0); reflexivity.
  - apply negb_true_iff in H. subst i. reflexivity.
  - apply IH; exact H.
  - apply IH; exact H.
  - destruct l as [|x l]; [reflexivity|].
    apply (forallb_agree (dom_mz false)); [|exact H]. apply Forall_forall. intros y _. apply mz_lemma.
  - destruct c.
    + apply (forallb_agree dom_eq); [|exact H]. apply Forall_forall. intros x _. apply eq_mz_lemma.
    + apply (forallb_agree (dom_mz true)); [|exact H]. apply Forall_forall. intros x _. apply mz_lemma.
  - apply eqb_prop in H. exact H.
Qed.

Lemma agree_lemma : forall (rec : bool) (v : mval),
  (if rec then dom_rec v else dom_mz false v) = true -> safe_empty rec v = unsafe_empty rec v.
Proof.
  intros [|] v H; unfold unsafe_empty.
  - apply rec_lemma; exact H.
  - apply mz_lemma; exact H.
Qed.

(* the guard is needed: every class it excludes contains a value on which the builds differ *)
Definition witnesses : list (bool * mval) :=
  [ (false, MF64 (2 ^ 63));                         (* -0.0 *)
    (false, MStr false 0);                          (* empty string that is a sub-string *)
    (false, MSlice false 0 0);                      (* []T{} *)
    (false, MMap false 0);                          (* map[K]V{} *)
    (false, MChan false 0);
    (false, MStruct false [MSlice true 0 0; MInt 0]);   (* zero value of a struct containing a slice *)
    (false, MStruct true [MInt 0; MF64 (2 ^ 63)]);
    (false, MArr [MStr false 0]);
    (false, MTime true false);                      (* zero instant carrying a location *)
    (true,  MFunc true);
    (true,  MTime true false);
    (true,  MStruct false [MSlice false 0 0]);
    (true,  MArr [MF64 (2 ^ 63)]) ].

Lemma refuted_lemma : forallb (fun w => negb (Bool.eqb (safe_empty (fst w) (snd w)) (unsafe_empty (fst w) (snd w)))) witnesses = true.
Proof. vm_compute. reflexivity. Qed.

(* C05 — field addressing in the two builds (model; no proofs here).
   unsafe build (helper_unsafe.go rvField):  base + uintptr(n.offset), where n.offset was filled with
   <conv>(reflect.StructField.Offset) at typeInfo load; safe build: reflect's Field(n.index), i.e. base + Offset.
   The widths come from the current source through the translator (Gen/Layout.v). *)
From Coq Require Import ZArith List Bool.
From Verif Require Import Base.Word Gen.Layout.
Import ListNotations.
Open Scope Z_scope.

(* what a literal `offset: uintK(f.Offset)` keeps of the real offset, then what the field of width
   sfi_offset_bits keeps of that *)
Definition stored_offset_via (conv : Z) (off : Z) : Z := wrapu sfi_offset_bits (wrapu conv off).

(* every literal must give the same answer: the model takes the narrowest conversion *)
Definition conv_min : Z := fold_right Z.min sfi_offset_bits sfi_offset_conv_bits.
Definition stored_offset (off : Z) : Z := stored_offset_via conv_min off.

Definition unsafe_field_addr (base off : Z) : Z := base + stored_offset off.
Definition safe_field_addr (base off : Z) : Z := base + off.

(* the same addressing had the field been w bits wide (w = 16: the pinned tree, finding F01-3) *)
Definition unsafe_field_addr_w (w base off : Z) : Z := base + wrapu w off.

(* ---- correspondence: (real offset reported by reflect, offset stored by the codec) per field ---- *)
Record ocase := mkoc { oid : N; oreal : Z; ostored : Z }.
Definition check_ocase (c : ocase) : bool := stored_offset (oreal c) =? ostored c.
Definition omismatches (l : list ocase) : list N :=
  map oid (filter (fun c => negb (check_ocase c)) l).

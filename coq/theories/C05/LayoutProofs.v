From Coq Require Import ZArith List Bool Lia.
From Verif Require Import Base.Word Gen.Layout C05.Layout.
Import ListNotations.
Open Scope Z_scope.

Lemma conv_min_is_32 : conv_min = 32.
Proof. vm_compute. reflexivity. Qed.

Lemma widths_lemma : sfi_offset_signed = false /\ 32 <= sfi_offset_bits /\
  forallb (fun c => sfi_offset_bits <=? c) sfi_offset_conv_bits = true.
Proof. vm_compute. repeat split; discriminate. Qed.

Lemma field_addr_lemma : forall base off, 0 <= off < 2 ^ 32 ->
  unsafe_field_addr base off = safe_field_addr base off.
Proof.
  intros base off H. unfold unsafe_field_addr, safe_field_addr, stored_offset, stored_offset_via.
  rewrite conv_min_is_32. unfold wrapu.
  replace sfi_offset_bits with 32 by reflexivity.
  rewrite (Z.mod_small off (2 ^ 32)) by lia. rewrite (Z.mod_small off (2 ^ 32)) by lia. reflexivity.
Qed.

Lemma field_addr_16_refuted : exists base off, 0 <= off < 2 ^ 32 /\
  unsafe_field_addr_w 16 base off <> safe_field_addr base off.
Proof. exists 0, 66000. split; [lia|]. vm_compute. discriminate. Qed.

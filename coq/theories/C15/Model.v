(* C15/Model — schema-less decoding: what Decode(&interface{}) turns an encoded value into, as an
   item tree; that tree as a Go value of dynamic types; its re-encoding by the generic encoder.

   DecodeNaked + kInterfaceNaked build, per stream item: nil, bool, int64 / uint64 (sign and
   SignedInteger), float64, string / []byte (RawToString), time.Time, []interface{} (SliceType /
   PreferArrayOverSlice change only the Go container, not its elements), map[interface{}]interface{}
   or map[string]interface{} (MapType; the latter needs every key to be a string).  At the item
   level this tree is what the wire models' dec_naked returns ([naked_run]); the wire theorems say
   it is the format's [norm] of what the encoder was handed.

   No proofs here. *)
From Coq Require Import List NArith ZArith Bool.
From Verif Require Import Base.Outcome Wire.Item Generic.Types Generic.Enc Generic.Dec C11.Corr.
From Verif Require Wire.Cbor Wire.CborEnc Wire.Msgpack Wire.MsgpackRT Wire.Simple Wire.Binc.
Import ListNotations.
Open Scope bool_scope.

(* the schema-less options that are not part of a wire model's dopts *)
Record nopts := mknopts {
  n_mapstr : bool;        (* MapType = map[string]interface{} (else map[interface{}]interface{}) *)
  n_prefarr : bool }.     (* PreferArrayOverSlice: [n]interface{} instead of []interface{} *)

(* what Decode(&interface{}) returns for the bytes the format's encoder writes for [i]: the wire
   model's decoder run on the wire model's encoder output *)
Definition naked_run (fo : fopts) (i : item) : res item :=
  match fo with
  | FCbor eo dd => let b := Cbor.enc eo i in do (x, _) <- Cbor.dec_naked dd (Cbor.fuel_for b) b ;; Ok x
  | FMsgpack eo dd => let b := Msgpack.enc eo i in do (x, _) <- Msgpack.dec_naked dd (Msgpack.dec_fuel b) b ;; Ok x
  | FSimple eo dd => let b := Simple.enc eo false i in do (x, _) <- Simple.dec_naked dd (Simple.dec_fuel b) b ;; Ok x
  | FBinc eo dd => let b := fst (Binc.enc eo false i Binc.estate0) in do (x, _, _) <- Binc.dec_naked dd Binc.dstate0 b ;; Ok x
  end.

(* ... which the wire theorems identify with the format's norm *)
Definition naked_norm (fo : fopts) (i : item) : item :=
  match fo with
  | FCbor eo dd => CborEnc.norm eo dd i
  | FMsgpack eo dd => MsgpackRT.norm eo dd i
  | FSimple eo dd => Simple.norm eo dd false i
  | FBinc eo dd => Binc.norm eo dd i
  end.

(* MapType = map[string]interface{}: decoding a key that is not a string into the string key fails *)
Fixpoint keys_str (i : item) : bool :=
  match i with
  | IArr l => forallb keys_str l
  | IMap l => forallb (fun kv => (match fst kv with IStr _ => true | _ => false end) && keys_str (snd kv)) l
  | ITag _ v => keys_str v
  | _ => true
  end.

Definition naked_tree (fo : fopts) (n : nopts) (i : item) : res item :=
  do g <- naked_run fo i ;;
  if n_mapstr n && negb (keys_str g) then Err EBadDesc else Ok g.

(* ---- the tree as a Go value: the dynamic type of every node ---- *)
Fixpoint tree_gv (i : item) : gv :=
  match i with
  | INil => GPtr None                   (* nil interface *)
  | IBool b => GBool b
  | IInt z => GInt z                    (* int64 *)
  | IUint n => GUint n                  (* uint64 *)
  | IF32 b => GF32 b
  | IF64 b => GF64 b                    (* float64 *)
  | IStr s => GStr s
  | IBytes b => GBytes (Some b)
  | ITime s n => GTime s n
  | IArr l => GList (Some (map tree_gv l))                                     (* []interface{} / [n]interface{} *)
  | IMap l => GMap (Some (map (fun kv => (tree_gv (fst kv), tree_gv (snd kv))) l))
  | ITag _ _ | IExt _ _ => GPtr None    (* RawExt: outside the property (extensions are C17) *)
  end.

Fixpoint plainb (i : item) : bool :=
  match i with
  | IArr l => forallb plainb l
  | IMap l => forallb (fun kv => plainb (fst kv) && plainb (snd kv)) l
  | ITag _ _ | IExt _ _ => false
  | _ => true
  end.

(* Encode(tree): the generic encoder on the dynamic values (kInterface -> encodeValue of the element);
   entries of a map in the listed order *)
Definition reenc (O : gopts) (g : item) : item := enc O (tree_gv g).

(* ---- numbers ---- *)
(* the integer a stream integer denotes *)
Definition int_val (i : item) : option Z :=
  match i with IInt z => Some z | IUint n => Some (Z.of_N n) | _ => None end.

(* ---- transcoding through two wires: W1 = (F, schema-less options), W2 = (G, typed decode) ---- *)
Definition compose_wire (W1 W2 : wire) : wire := {|
  wn := fun i => wn W2 (wn W1 i);
  wnk := fun i => wnk W2 (wnk W1 i);
  is_nil := is_nil W2;
  rd_bool := rd_bool W2;
  rd_int := rd_int W2;
  rd_uint := rd_uint W2;
  rd_f32 := rd_f32 W2;
  rd_f64 := rd_f64 W2;
  rd_str := rd_str W2;
  rd_bytes := rd_bytes W2;
  rd_time := rd_time W2;
  fn32 := fun b => fn32 W2 (fn32 W1 b);
  fn64 := fun b => fn64 W2 (fn64 W1 b);
  tnorm := fun s n => let sn := tnorm W1 s n in tnorm W2 (fst sn) (snd sn);
  leaf_ok := leaf_ok W1
|}.

(* the side condition of C15_cross: G reads back, for every leaf, what F's tree says about it *)
Definition keeps (W1 W2 : wire) : Prop :=
  wire_ok (compose_wire W1 W2) /\ (forall i, plainb i = true -> plainb (wn W1 i) = true).

(* C15/Proofs — lemmas behind Properties/C15.v. *)
From Coq Require Import List NArith ZArith Bool Lia Permutation.
From Verif Require Import Base.Outcome Gen.Consts Wire.Item Generic.Types Generic.Enc Generic.Dec C01.Model C01.Proofs C11.Corr C15.Model.
From Verif Require Wire.Cbor C10.CborSpec C10.CborConv Wire.CborProofs Wire.CborEnc Wire.Msgpack Wire.MsgpackRT Wire.Simple Wire.SimpleProofs Wire.Binc Wire.BincProofs.
Import ListNotations.

(* ---- the generic encoder never asks for a tag / extension (extensions are C17) ---- *)
Lemma enc_plain : forall (O : gopts) (v : gv), plainb (enc O v) = true.
Proof.
  intros O v. induction v using gv_ind'; cbn [enc plainb]; try reflexivity.
  - destruct b; [reflexivity|destruct (nil_to_empty O); reflexivity].
  - destruct (nil_to_empty O); reflexivity.
  - cbn [plainb]. rewrite forallb_forall. intros x Hx. apply in_map_iff in Hx. destruct Hx as [y [<- Hy]].
    rewrite Forall_forall in H. exact (H y Hy).
  - cbn [plainb]. rewrite forallb_forall. intros x Hx. apply in_map_iff in Hx. destruct Hx as [y [<- Hy]].
    rewrite Forall_forall in H. exact (H y Hy).
  - destruct (nil_to_empty O); reflexivity.
  - cbn [plainb]. rewrite forallb_forall. intros x Hx. apply in_map_iff in Hx. destruct Hx as [y [<- Hy]].
    rewrite Forall_forall in H. destruct (H y Hy) as [H1 H2]. cbn [fst snd]. rewrite H1, H2. reflexivity.
  - exact IHv.
  - assert (Hf : forall l : list (name * item), Forall (fun ne => plainb (snd ne) = true) l ->
                 forallb plainb (map snd l) = true).
    { intros l Hl. rewrite forallb_forall. intros x Hx. apply in_map_iff in Hx. destruct Hx as [y [<- Hy]].
      rewrite Forall_forall in Hl. exact (Hl y Hy). }
    assert (Hes : Forall (fun ne : name * item => plainb (snd ne) = true) (map (fun nv => (fst nv, enc O (snd nv))) fs)).
    { rewrite Forall_forall. intros x Hx. apply in_map_iff in Hx. destruct Hx as [y [<- Hy]].
      rewrite Forall_forall in H. exact (H y Hy). }
    destruct (struct_to_array O).
    + cbn [plainb]. apply Hf. exact Hes.
    + cbn [plainb]. rewrite forallb_forall. intros x Hx. apply in_map_iff in Hx. destruct Hx as [y [<- Hy]].
      cbn [fst snd plainb].
      assert (Hin : In y (map (fun nv => (fst nv, enc O (snd nv))) fs)).
      { destruct (canonical O); [|exact Hy].
        clear -Hy. revert Hy. generalize (map (fun nv : name * gv => (fst nv, enc O (snd nv))) fs). intros l.
        induction l as [|a l IH]; cbn [sort_by]; [intros []|].
        intro Hy.
        assert (Hins : forall x (l' : list (name * item)), In y (insert_by name_leb x l') -> y = x \/ In y l').
        { intros x l'. induction l' as [|b l' IH']; cbn [insert_by].
          - intros [<-|[]]. left. reflexivity.
          - destruct (name_leb x b).
            + intros [<-|H]; [left; reflexivity|right; exact H].
            + intros [<-|H]; [right; left; reflexivity|]. destruct (IH' H) as [->|H']; [left; reflexivity|right; right; exact H']. }
        destruct (Hins _ _ Hy) as [->|H']; [left; reflexivity|right; exact (IH H')]. }
      rewrite Forall_forall in Hes. exact (Hes y Hin).
Qed.

(* ---- Encode(tree) asks the driver to write exactly the tree ---- *)
Lemma reenc_id : forall (O : gopts) (g : item), plainb g = true -> reenc O g = g.
Proof.
  intros O g. unfold reenc. induction g using item_ind'; cbn [tree_gv enc plainb]; intro Hp; try reflexivity; try discriminate.
  - f_equal. rewrite map_map. rewrite forallb_forall in Hp. rewrite Forall_forall in H.
    rewrite <- (map_id l) at 2. apply map_ext_in. intros x Hx. exact (H x Hx (Hp x Hx)).
  - f_equal. rewrite map_map. rewrite forallb_forall in Hp. rewrite Forall_forall in H.
    rewrite <- (map_id l) at 2. apply map_ext_in. intros [k v] Hx. cbn [fst snd].
    specialize (Hp _ Hx). cbn [fst snd] in Hp. apply andb_true_iff in Hp. destruct Hp as [Hk Hv].
    destruct (H _ Hx) as [H1 H2]. cbn [fst snd] in H1, H2. rewrite (H1 Hk), (H2 Hv). reflexivity.
Qed.

Lemma leaves_ok_compose : forall (W1 W2 : wire) (i : item),
  leaves_ok (compose_wire W1 W2) i = leaves_ok W1 i.
Proof.
  intros W1 W2 i. induction i using item_ind'; cbn [leaves_ok]; try reflexivity.
  - induction H as [|x l Hx _ IH]; [reflexivity|]. cbn [forallb]. rewrite Hx, IH. reflexivity.
  - induction H as [|x l [Hk Hv] _ IH]; [reflexivity|]. cbn [forallb]. rewrite Hk, Hv, IH. reflexivity.
  - exact IHi.
Qed.

(* ---- C15_same / C15_cross over the driver interface ---- *)
Lemma same_generic : forall (W1 W2 : wire) (O O' : gopts) (pi : order) (t : ty) (v : gv),
  keeps W1 W2 -> order_ok pi ->
  wt t v = true -> supported t = true -> leaves_ok W1 (to_item O pi v) = true ->
  (Z.of_nat (depth (to_item O pi v)) < maxdepth O)%Z ->
  of_item (compose_wire W1 W2) O 0 t (wn W2 (reenc O' (wn W1 (to_item O pi v))))
    = Ok (norm (compose_wire W1 W2) O (arrange O pi v))
  /\ veq (norm (compose_wire W1 W2) O (arrange O pi v)) (norm (compose_wire W1 W2) O v).
Proof.
  intros W1 W2 O O' pi t v [Hok Hpl] Hpi Hwt Hsup Hlv Hd.
  rewrite reenc_id by (apply Hpl; unfold to_item; apply enc_plain).
  rewrite <- (leaves_ok_compose W1 W2) in Hlv.
  exact (generic_roundtrip (compose_wire W1 W2) O pi t v Hok Hpi Hwt Hsup Hlv Hd).
Qed.

(* the side condition is satisfiable: a format that reads back what was written (id_wire) as source,
   the cbor-shaped wire as target; [compose_wire id_wire cb_wire] IS cb_wire *)
Lemma keeps_id_cb : keeps id_wire cb_wire.
Proof. split; [exact cb_wire_ok|intros i H; exact H]. Qed.

Lemma keeps_id_id : keeps id_wire id_wire.
Proof. split; [exact id_wire_ok|intros i H; exact H]. Qed.

(* cbor-shaped source AND target: the tree holds uint64 for non-negative integers, nil for the zero time,
   microsecond times; written again and read by the same driver *)
Lemma cb_wn_plain : forall i, plainb i = true -> plainb (cb_wn i) = true.
Proof.
  induction i using item_ind'; cbn [cb_wn plainb]; intro Hp; try reflexivity; try discriminate.
  - destruct (0 <=? z)%Z; reflexivity.
  - cbn [plainb]. rewrite forallb_forall in *. intros x Hx. apply in_map_iff in Hx. destruct Hx as [y [<- Hy]].
    rewrite Forall_forall in H. exact (H y Hy (Hp y Hy)).
  - cbn [plainb]. rewrite forallb_forall in *. intros x Hx. apply in_map_iff in Hx. destruct Hx as [y [<- Hy]].
    rewrite Forall_forall in H. specialize (Hp y Hy). apply andb_true_iff in Hp. destruct Hp as [H1 H2].
    destruct (H y Hy) as [G1 G2]. cbn [fst snd]. rewrite (G1 H1), (G2 H2). reflexivity.
  - destruct (is_time_zero s n); [reflexivity|]. destruct (round_us s n). reflexivity.
Qed.

Lemma keeps_cb_cb : keeps cb_wire cb_wire.
Proof.
  split; [|exact cb_wn_plain].
  assert (Hs : scalar_ok (compose_wire cb_wire cb_wire) (fun i => cb_wn (cb_wn i))).
  { constructor; intros; simpl; try (split; reflexivity); try reflexivity.
    destruct (0 <=? z)%Z eqn:E; simpl; [|rewrite E; simpl; split; reflexivity].
    apply Z.leb_le in E. split; [reflexivity|].
    assert (Hlt : (Z.to_N z <? 2 ^ 63)%N = true). { apply N.ltb_lt. change (2 ^ 63)%N with (Z.to_N (2 ^ 63)). apply Z2N.inj_lt; lia. }
    change (N.pos (2 ^ 63)) with (2 ^ 63)%N. rewrite Hlt. rewrite Z2N.id by lia. reflexivity. }
  constructor; try exact Hs; intros; simpl; try reflexivity; try (split; reflexivity).
  all: try (rewrite map_map; reflexivity).
  destruct (is_time_zero s n) eqn:E; cbn [cb_wn item_is_nil].
  - unfold is_time_zero in E. apply andb_true_iff in E. destruct E as [E1 E2].
    apply Z.eqb_eq in E1. apply N.eqb_eq in E2. subst. vm_compute. reflexivity.
  - destruct (round_us s n) as [s1 n1] eqn:R. cbn [fst snd].
    destruct (is_time_zero s1 n1) eqn:E'; cbn [item_is_nil].
    + unfold is_time_zero in E'. apply andb_true_iff in E'. destruct E' as [E1 E2].
      apply Z.eqb_eq in E1. apply N.eqb_eq in E2. subst. vm_compute. reflexivity.
    + destruct (round_us s1 n1). reflexivity.
Qed.

Lemma cbwire_same : forall (O O' : gopts) (pi : order) (t : ty) (v : gv),
  order_ok pi -> wt t v = true -> supported t = true ->
  (Z.of_nat (depth (to_item O pi v)) < maxdepth O)%Z ->
  of_item (compose_wire cb_wire cb_wire) O 0 t (cb_wn (reenc O' (cb_wn (to_item O pi v))))
    = Ok (norm (compose_wire cb_wire cb_wire) O (arrange O pi v))
  /\ veq (norm (compose_wire cb_wire cb_wire) O (arrange O pi v)) (norm (compose_wire cb_wire cb_wire) O v).
Proof.
  intros O O' pi t v Hpi Hwt Hs Hd.
  exact (same_generic cb_wire cb_wire O O' pi t v keeps_cb_cb Hpi Hwt Hs (cb_leaves_ok _) Hd).
Qed.

(* ---- numbers: the integer a leaf denotes survives schema-less decoding ---- *)
Section Nums.
  Lemma nums_cbor : forall (O : Cbor.eopts) (D : Cbor.dopts) (i : item) (z : Z),
    int_val i = Some z ->
    int_val (CborEnc.norm O D i) = Some z
    /\ (match CborEnc.norm O D i with
        | IInt x => (x < 0)%Z \/ Cbor.do_signed D = true
        | IUint _ => Cbor.do_signed D = false
        | _ => False end).
  Proof.
    intros O D i z Hi. destruct i; try discriminate; cbn [int_val] in Hi; injection Hi as <-.
    - unfold CborEnc.norm. cbn [CborEnc.sdata_of]. unfold CborEnc.int_data.
      destruct (z0 <? 0)%Z eqn:E; cbn [C10.CborConv.go_of].
      + apply Z.ltb_lt in E. cbn [int_val]. split; [f_equal; lia|left; lia].
      + apply Z.ltb_ge in E. destruct (Cbor.do_signed D) eqn:S; cbn [int_val].
        * split; [f_equal; lia|right; reflexivity].
        * split; [f_equal; lia|reflexivity].
    - unfold CborEnc.norm. cbn [CborEnc.sdata_of C10.CborConv.go_of].
      destruct (Cbor.do_signed D) eqn:S; cbn [int_val]; split; try reflexivity. right. reflexivity.
  Qed.

  (* msgpack / simple / binc under SignedInteger reinterpret the 64 bits: exact below 2^63 *)
  Definition fits (signed : bool) (i : item) : Prop :=
    signed = false \/ match i with IUint n => (n < 2 ^ 63)%N | IInt z => (z < 2 ^ 63)%Z | _ => True end.

  Lemma nums_msgpack : forall (O : Msgpack.eopts) (D : Msgpack.dopts) (i : item) (z : Z),
    int_val i = Some z -> wf i -> fits (Msgpack.d_signedinteger D) i ->
    int_val (MsgpackRT.norm O D i) = Some z.
  Proof.
    intros O D i z Hi Hwf Hf. destruct i; try discriminate; cbn [int_val] in Hi; injection Hi as <-; cbn [wf] in Hwf.
    - cbn [MsgpackRT.norm]. destruct (Msgpack.e_posintunsigned O && (0 <=? z0)%Z) eqn:E; [|reflexivity].
      apply andb_true_iff in E. destruct E as [_ E]. apply Z.leb_le in E.
      unfold MsgpackRT.norm_uint. destruct ((Z.to_N z0 <=? 127)%N && negb (Msgpack.e_nofixednum O)).
      + cbn [int_val]. f_equal. lia.
      + unfold Msgpack.mkuint. destruct (Msgpack.d_signedinteger D) eqn:S; cbn [int_val].
        * unfold Msgpack.signed. destruct Hf as [Hf|Hf]; [discriminate|].
          assert (Hlt : (Z.to_N z0 <? 2 ^ (64 - 1))%N = true) by (apply N.ltb_lt; change (2 ^ (64 - 1))%N with (Z.to_N (2 ^ 63)); apply Z2N.inj_lt; lia).
          rewrite Hlt. f_equal. lia.
        * f_equal. lia.
    - cbn [MsgpackRT.norm]. unfold MsgpackRT.norm_uint. destruct ((n <=? 127)%N && negb (Msgpack.e_nofixednum O)).
      + reflexivity.
      + unfold Msgpack.mkuint. destruct (Msgpack.d_signedinteger D) eqn:S; cbn [int_val]; [|reflexivity].
        unfold Msgpack.signed. destruct Hf as [Hf|Hf]; [discriminate|].
        assert (Hlt : (n <? 2 ^ (64 - 1))%N = true) by (apply N.ltb_lt; exact Hf).
        rewrite Hlt. reflexivity.
  Qed.

  Lemma nums_simple : forall (o : Simple.eopts) (D : Simple.dopts) (key : bool) (i : item) (z : Z),
    int_val i = Some z -> wf i -> Simple.zeroAsNil o = false -> fits (Simple.signedInteger D) i ->
    int_val (Simple.norm o D key i) = Some z.
  Proof.
    intros o D key i z Hi Hwf Hz Hf. destruct i; try discriminate; cbn [int_val] in Hi; injection Hi as <-; cbn [wf] in Hwf.
    - cbn [Simple.norm]. rewrite Hz. cbn [andb]. destruct (z0 <? 0)%Z eqn:E; [reflexivity|].
      apply Z.ltb_ge in E. unfold Simple.norm_pos. cbn [andb].
      destruct (Simple.signedInteger D) eqn:S; cbn [int_val].
      + unfold Simple.to_i64. destruct Hf as [Hf|Hf]; [discriminate|].
        assert (Hlt : (Z.to_N z0 <? 2 ^ 63)%N = true) by (apply N.ltb_lt; change (2 ^ 63)%N with (Z.to_N (2 ^ 63)); apply Z2N.inj_lt; lia).
        rewrite Hlt. f_equal. lia.
      + f_equal. lia.
    - cbn [Simple.norm]. rewrite Hz. cbn [andb]. unfold Simple.norm_pos. cbn [andb].
      destruct (Simple.signedInteger D) eqn:S; cbn [int_val]; [|reflexivity].
      unfold Simple.to_i64. destruct Hf as [Hf|Hf]; [discriminate|].
      assert (Hlt : (n <? 2 ^ 63)%N = true) by (apply N.ltb_lt; exact Hf).
      rewrite Hlt. reflexivity.
  Qed.

  Lemma nums_binc : forall (e : Binc.eopts) (d : Binc.dopts) (i : item) (z : Z),
    int_val i = Some z -> wf i -> fits (Binc.signedInt d) i ->
    int_val (Binc.norm e d i) = Some z.
  Proof.
    intros e d i z Hi Hwf Hf. destruct i; try discriminate; cbn [int_val] in Hi; injection Hi as <-; cbn [wf] in Hwf.
    - cbn [Binc.norm]. destruct (0 <=? z0)%Z eqn:E; [|reflexivity].
      apply Z.leb_le in E. unfold Binc.norm_uint. destruct (Binc.signedInt d) eqn:S; cbn [int_val].
      + unfold Binc.to_i64. destruct Hf as [Hf|Hf]; [discriminate|].
        assert (Hlt : (Z.to_N z0 <? 2 ^ 63)%N = true) by (apply N.ltb_lt; change (2 ^ 63)%N with (Z.to_N (2 ^ 63)); apply Z2N.inj_lt; lia).
        rewrite Hlt. f_equal. lia.
      + f_equal. lia.
    - cbn [Binc.norm]. unfold Binc.norm_uint. destruct (Binc.signedInt d) eqn:S; cbn [int_val]; [|reflexivity].
      unfold Binc.to_i64. destruct Hf as [Hf|Hf]; [discriminate|].
      assert (Hlt : (n <? 2 ^ 63)%N = true) by (apply N.ltb_lt; exact Hf).
      rewrite Hlt. reflexivity.
  Qed.

  (* strings and byte strings: the bytes are kept; RawToString / StringToRaw only choose string vs []byte *)
  Definition str_val (i : item) : option (list N) :=
    match i with IStr s | IBytes s => Some s | _ => None end.

  Lemma strs_binc : forall (e : Binc.eopts) (d : Binc.dopts) (i : item) (s : list N),
    str_val i = Some s -> str_val (Binc.norm e d i) = Some s.
  Proof.
    intros e d i s Hi. destruct i; try discriminate; cbn [str_val] in Hi; injection Hi as <-; cbn [Binc.norm].
    - destruct (Binc.stringToRaw e); [destruct (Binc.rawToString d)|]; reflexivity.
    - destruct (Binc.rawToString d); reflexivity.
  Qed.

  Lemma strs_cbor : forall (O : Cbor.eopts) (D : Cbor.dopts) (i : item) (s : list N),
    str_val i = Some s -> str_val (CborEnc.norm O D i) = Some s.
  Proof.
    intros O D i s Hi. destruct i; try discriminate; cbn [str_val] in Hi; injection Hi as <-;
      unfold CborEnc.norm; cbn [CborEnc.sdata_of].
    - destruct (Cbor.eo_str2raw O); cbn [C10.CborConv.go_of]; [destruct (Cbor.do_raw2str D)|]; reflexivity.
    - cbn [C10.CborConv.go_of]. destruct (Cbor.do_raw2str D); reflexivity.
  Qed.

  (* floats: always float64 in the tree; a float32 is widened (exactly) *)
  Lemma floats_kind : forall (e : Binc.eopts) (d : Binc.dopts) (O : Cbor.eopts) (D : Cbor.dopts) (b : N),
    (exists x, Binc.norm e d (IF32 b) = IF64 x) /\ (exists x, Binc.norm e d (IF64 b) = IF64 x)
    /\ (exists x, CborEnc.norm O D (IF32 b) = IF64 x) /\ CborEnc.norm O D (IF64 b) = IF64 b.
  Proof.
    intros. repeat apply conj.
    - cbn [Binc.norm]. unfold Binc.norm_f64. destruct (Binc.f64_is_zero _); eexists; reflexivity.
    - cbn [Binc.norm]. unfold Binc.norm_f64. destruct (Binc.f64_is_zero _); eexists; reflexivity.
    - unfold CborEnc.norm. cbn. eexists; reflexivity.
    - unfold CborEnc.norm. cbn. reflexivity.
  Qed.
End Nums.

(* ---- SignedInteger and an unsigned value >= 2^63: the schema-less decode of the encoding is the
   overflow error in every format (F07-1n repaired in msgpack and binc; never a sign-flipped int64) ---- *)
Section Overflow.
  Import Wire.Cbor C10.CborSpec C10.CborConv Wire.CborProofs Wire.CborEnc.
  Local Open Scope N_scope.
Lemma cbor_signed_overflow : forall (O : eopts) (D : dopts) (n : N) (rest : list N),
  do_signed D = true -> 2 ^ 63 <= n -> n < 2 ^ 64 ->
  dec_naked D (fuel_for (enc O (IUint n) ++ rest)) (enc O (IUint n) ++ rest) = Err EOverflow.
Proof.
  intros O D n rest Hs Hlo Hhi.
  change (2 ^ 63) with 9223372036854775808 in Hlo. change (2 ^ 64) with 18446744073709551616 in Hhi.
  cbn [enc]. change baseUint with (0 * 32). rewrite enc_head_shead by lia.
  assert (Hw : minw n = W8).
  { unfold minw. repeat (match goal with |- context [?a <=? ?b] => destruct (N.leb_spec a b); [lia|] end). reflexivity. }
  rewrite Hw. unfold shead. cbn [ai_of wbytes]. rewrite <- app_comm_cons.
  unfold dec_naked, fuel_for. cbn [length]. rewrite Nat.mul_succ_r.
  replace (2 * length (sbe 8 n ++ rest) + 2 + 2)%nat with (S (S (2 * length (sbe 8 n ++ rest) + 2))) by lia.
  cbn [dec]. unfold dec_body. change (0 * 32 + 27) with 27. change (kind_of 27) with KUint. cbv iota.
  change (27 mod 32) with (ai_of W8 n). unfold liftI. cbn [fst].
  change (sbe 8 n) with (sbe (wbytes W8) n). rewrite (read_uint_head W8 n rest) by (simpl; lia). cbn [bind]. rewrite Hs.
  unfold int64v. cbn [andb negb orb].
  replace (9223372036854775808 <=? n) with true by (symmetry; apply N.leb_le; lia). reflexivity.
Qed.

End Overflow.

Lemma overflow_cbor : forall (O : Cbor.eopts) (D : Cbor.dopts) (n : N),
  Cbor.do_signed D = true -> (2 ^ 63 <= n)%N -> (n < 2 ^ 64)%N ->
  naked_run (FCbor O D) (IUint n) = Err EOverflow.
Proof.
  intros O D n Hs Hlo Hhi. unfold naked_run.
  pose proof (cbor_signed_overflow O D n [] Hs Hlo Hhi) as H. rewrite app_nil_r in H. rewrite H. reflexivity.
Qed.

Lemma overflow_msgpack : forall (O : Msgpack.eopts) (D : Msgpack.dopts) (n : N),
  Msgpack.d_signedinteger D = true -> (2 ^ 63 <= n)%N -> (n < 2 ^ 64)%N ->
  naked_run (FMsgpack O D) (IUint n) = Err EOverflow.
Proof.
  intros O D n Hs Hlo Hhi. unfold naked_run.
  pose proof (MsgpackRT.dec_enc_signed_overflow O D n [] Hs (conj Hlo Hhi)) as H. rewrite app_nil_r in H. rewrite H. reflexivity.
Qed.

Lemma overflow_simple : forall (o : Simple.eopts) (D : Simple.dopts) (n : N),
  Simple.signedInteger D = true -> (2 ^ 63 <= n)%N -> (n < 2 ^ 64)%N ->
  naked_run (FSimple o D) (IUint n) = Err EOverflow.
Proof.
  intros o D n Hs Hlo Hhi. unfold naked_run, Simple.dec_naked.
  pose proof (SimpleProofs.W_simple_dec_enc_signed_overflow_lemma o D n []
                (Simple.dec_fuel (Simple.enc o false (IUint n))) 0%Z Hs Hlo Hhi) as H.
  rewrite app_nil_r in H. rewrite H; [reflexivity|unfold Simple.dec_fuel; lia].
Qed.

Lemma overflow_binc : forall (e : Binc.eopts) (d : Binc.dopts) (n : N),
  Binc.signedInt d = true -> (2 ^ 63 <= n)%N -> (n < 2 ^ 64)%N -> (1 <= Binc.maxdepth d)%N ->
  naked_run (FBinc e d) (IUint n) = Err EOverflow.
Proof.
  intros e d n Hs Hlo Hhi Hm. unfold naked_run.
  pose proof (BincProofs.dec_naked_signed_overflow e d n Binc.estate0 Binc.dstate0 [] Hs Hlo Hhi Hm) as H.
  rewrite app_nil_r in H. rewrite H. reflexivity.
Qed.

(* an integer leaf either fits (then the tree holds the same integer) or is the overflow class *)
Lemma fits_or_big : forall (signed : bool) (i : item) (z : Z),
  int_val i = Some z -> wf i ->
  fits signed i \/ (signed = true /\ exists n, i = IUint n /\ (2 ^ 63 <= n)%N /\ (n < 2 ^ 64)%N).
Proof.
  intros signed i z Hi Hwf. destruct i; try discriminate; cbn [wf] in Hwf.
  - left. right. lia.
  - destruct signed; [|left; left; reflexivity].
    destruct (N.ltb_spec n (2 ^ 63)); [left; right; assumption|].
    right. split; [reflexivity|]. exists n. repeat split; assumption.
Qed.

Lemma nums_total_cbor : forall (O : Cbor.eopts) (D : Cbor.dopts) (i : item) (z : Z),
  int_val i = Some z -> wf i ->
  (fits (Cbor.do_signed D) i /\ int_val (CborEnc.norm O D i) = Some z)
  \/ (Cbor.do_signed D = true /\ naked_run (FCbor O D) i = Err EOverflow).
Proof.
  intros O D i z Hi Hwf. destruct (fits_or_big (Cbor.do_signed D) i z Hi Hwf) as [Hf|[Hs [n [-> [Hlo Hhi]]]]].
  - left. split; [exact Hf|]. exact (proj1 (nums_cbor O D i z Hi)).
  - right. split; [exact Hs|]. apply overflow_cbor; assumption.
Qed.

Lemma nums_total_msgpack : forall (O : Msgpack.eopts) (D : Msgpack.dopts) (i : item) (z : Z),
  int_val i = Some z -> wf i ->
  (fits (Msgpack.d_signedinteger D) i /\ int_val (MsgpackRT.norm O D i) = Some z)
  \/ (Msgpack.d_signedinteger D = true /\ naked_run (FMsgpack O D) i = Err EOverflow).
Proof.
  intros O D i z Hi Hwf. destruct (fits_or_big (Msgpack.d_signedinteger D) i z Hi Hwf) as [Hf|[Hs [n [-> [Hlo Hhi]]]]].
  - left. split; [exact Hf|]. apply nums_msgpack; assumption.
  - right. split; [exact Hs|]. apply overflow_msgpack; assumption.
Qed.

Lemma nums_total_simple : forall (o : Simple.eopts) (D : Simple.dopts) (i : item) (z : Z),
  int_val i = Some z -> wf i -> Simple.zeroAsNil o = false ->
  (fits (Simple.signedInteger D) i /\ int_val (Simple.norm o D false i) = Some z)
  \/ (Simple.signedInteger D = true /\ naked_run (FSimple o D) i = Err EOverflow).
Proof.
  intros o D i z Hi Hwf Hz. destruct (fits_or_big (Simple.signedInteger D) i z Hi Hwf) as [Hf|[Hs [n [-> [Hlo Hhi]]]]].
  - left. split; [exact Hf|]. apply nums_simple; assumption.
  - right. split; [exact Hs|]. apply overflow_simple; assumption.
Qed.

Lemma nums_total_binc : forall (e : Binc.eopts) (d : Binc.dopts) (i : item) (z : Z),
  int_val i = Some z -> wf i -> (1 <= Binc.maxdepth d)%N ->
  (fits (Binc.signedInt d) i /\ int_val (Binc.norm e d i) = Some z)
  \/ (Binc.signedInt d = true /\ naked_run (FBinc e d) i = Err EOverflow).
Proof.
  intros e d i z Hi Hwf Hm. destruct (fits_or_big (Binc.signedInt d) i z Hi Hwf) as [Hf|[Hs [n [-> [Hlo Hhi]]]]].
  - left. split; [exact Hf|]. apply nums_binc; assumption.
  - right. split; [exact Hs|]. apply overflow_binc; assumption.
Qed.

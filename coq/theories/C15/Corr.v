(* C15/Corr — correspondence: the schema-less tree the real Decoder built for Encode(v)
   (harness/cmd/c15, stream "trans", binary formats) against the model's
   naked_tree (wire decoder model run on the wire encoder model's output for Generic to_item v). *)
From Coq Require Import List NArith ZArith Bool.
From Verif Require Import Base.Outcome Wire.Item Generic.Types Generic.Enc Generic.Dec C01.Corr C11.Corr C15.Model.
Import ListNotations.
Open Scope bool_scope.

Record case := mkcase {
  cid : N;
  cfo : fopts;              (* format, encoder options, SignedInteger / RawToString *)
  cgo : gopts;              (* StructToArray, Canonical, NilCollectionToZeroLength *)
  cmapstr : bool;           (* MapType = map[string]interface{} *)
  cty : ty;
  cval : gv;                (* the typed value encoded *)
  ctree : item }.           (* dump of the interface{} the real Decoder produced *)

Definition check_case (c : case) : bool :=
  wt (cty c) (cval c) &&
  match naked_tree (cfo c) (mknopts (cmapstr c) false) (to_item (cgo c) id_order (cval c)) with
  | Ok g => eqm g (ctree c)
  | _ => false
  end.

Definition mismatches (cs : list case) : list N :=
  map cid (filter (fun c => negb (check_case c)) cs).

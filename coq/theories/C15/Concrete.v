(* C15/Concrete — the side condition [keeps] of C15_same_generic_partial PROVED for the concrete
   driver records of C01 (C01/Compose{Simple,Msgpack,Binc,Cbor,CborTime}.v), same format on both
   passes (G = F, one handle = one option vector), so that C15_same_<fmt> carries no hypothesis on
   the drivers.

   Method.  The composite driver of a same-format transcoding is  wn (wn i) : a value is written,
   decoded into a tree (first [wn]), the tree is written again and decoded by the typed decoder
   (second [wn], then the typed reads).  For each format the normalisation is IDEMPOTENT on every
   scalar leaf it supports ([idem]): what DecodeNaked hands back, written again, comes back as
   itself (an integer keeps the int64 / uint64 choice, a widened float32 stays that float64, a
   string keeps the string / []byte choice StringToRaw and RawToString made, binc's single zero and
   single NaN are fixed points).  [wire_ok_self] turns idempotence + the proved [wire_ok W] into
   [wire_ok] of the composite; [plain_on] / [plain_all] give [plainb] preservation, generically.

   One corner is NOT idempotent and is excluded by a stated leaf premise: simple with
   EncZeroValuesAsNil and RawToString: an EMPTY non-nil []byte comes back from the schema-less
   decode as the string "", which the second pass writes as nil, so the typed decode yields a nil
   []byte ([simple_empty_bytes_lost]).  [W_simple_n] is W_simple with that leaf excluded.

   cbor: W_cbor admits only the zero time (as in C01); W_cbor_t (TimeRFC3339) admits every time of
   a year 0..9999; its normalisation of a time is not idempotent in one corner (the microsecond
   before the zero time rounds up to it and is then written as nil) but the interface obligation
   holds there too (it reads back as the zero time = the rounded instant). *)
From Coq Require Import List NArith ZArith Bool Lia Permutation.
From Coq Require Import ZifyN ZifyNat ZifyBool.
From Verif Require Import Base.Outcome Gen.Consts Wire.Item Generic.Types Generic.Enc Generic.Dec.
From Verif Require Import C01.Model C01.Proofs C01.ComposeFloat C01.ComposeSimple C01.ComposeMsgpack C01.ComposeCbor C01.ComposeCborTime C01.ComposeBinc.
From Verif Require Import C11.Corr C15.Model C15.Proofs.
From Verif Require Wire.Simple Wire.Msgpack Wire.MsgpackRT Wire.Cbor Wire.CborEnc C10.CborSpec C10.CborConv Wire.CborTime Wire.Binc.
Import ListNotations.
Open Scope bool_scope.

Ltac Zify.zify_post_hook ::= Z.div_mod_to_equations.

(* the same driver with another leaf premise *)
Definition with_leaf (W : wire) (L : item -> bool) : wire := {|
  wn := wn W; wnk := wnk W; is_nil := is_nil W; rd_bool := rd_bool W; rd_int := rd_int W; rd_uint := rd_uint W;
  rd_f32 := rd_f32 W; rd_f64 := rd_f64 W; rd_str := rd_str W; rd_bytes := rd_bytes W; rd_time := rd_time W;
  fn32 := fn32 W; fn64 := fn64 W; tnorm := tnorm W; leaf_ok := L |}.

(* [f] (a normalisation in value or key position) is idempotent on the scalar leaves [L] admits *)
Record idem (L : item -> bool) (f : item -> item) : Prop := {
  i_nil : f (f INil) = f INil;
  i_bool : forall b, L (IBool b) = true -> f (f (IBool b)) = f (IBool b);
  i_int : forall z, L (IInt z) = true -> (- 2 ^ 63 <= z < 2 ^ 63)%Z -> f (f (IInt z)) = f (IInt z);
  i_uint : forall n, L (IUint n) = true -> (n < 2 ^ 64)%N -> f (f (IUint n)) = f (IUint n);
  i_f32 : forall b, L (IF32 b) = true -> (b < 2 ^ 32)%N -> f (f (IF32 b)) = f (IF32 b);
  i_f64 : forall b, L (IF64 b) = true -> (b < 2 ^ 64)%N -> f (f (IF64 b)) = f (IF64 b);
  i_str : forall s, L (IStr s) = true -> bytes_ok s = true -> f (f (IStr s)) = f (IStr s)
}.

Section Self.
  Variable W : wire.
  Variable L : item -> bool.
  Hypothesis HW : wire_ok W.
  Hypothesis HL : forall i, L i = true -> leaf_ok W i = true.
  Hypothesis Hfn32 : forall b, fn32 W (fn32 W b) = fn32 W b.
  Hypothesis Hfn64 : forall b, fn64 W (fn64 W b) = fn64 W b.

  Lemma scalar_self : forall f, scalar_ok W f -> idem L f ->
    scalar_ok (compose_wire (with_leaf W L) W) (fun i => f (f i)).
  Proof.
    intros f Hs Hi. constructor; cbn [is_nil rd_bool rd_int rd_uint rd_f32 rd_f64 rd_str fn32 fn64 leaf_ok compose_wire with_leaf].
    - rewrite (i_nil _ _ Hi). exact (s_nil _ _ Hs).
    - intros b Hl. rewrite (i_bool _ _ Hi b Hl). exact (s_bool _ _ Hs b (HL _ Hl)).
    - intros z Hl Hz. rewrite (i_int _ _ Hi z Hl Hz). exact (s_int _ _ Hs z (HL _ Hl) Hz).
    - intros n Hl Hn. rewrite (i_uint _ _ Hi n Hl Hn). exact (s_uint _ _ Hs n (HL _ Hl) Hn).
    - intros b Hl Hb. rewrite (i_f32 _ _ Hi b Hl Hb). rewrite Hfn32. exact (s_f32 _ _ Hs b (HL _ Hl) Hb).
    - intros b Hl Hb. rewrite (i_f64 _ _ Hi b Hl Hb). rewrite Hfn64. exact (s_f64 _ _ Hs b (HL _ Hl) Hb).
    - intros s Hl Hb. rewrite (i_str _ _ Hi s Hl Hb). exact (s_str _ _ Hs s (HL _ Hl) Hb).
  Qed.

  Hypothesis Hval : idem L (wn W).
  Hypothesis Hkey : idem L (wnk W).
  Hypothesis Hbytes : forall b, L (IBytes b) = true -> bytes_ok b = true -> wn W (wn W (IBytes b)) = wn W (IBytes b).
  (* the time obligation of the composite, as [wire_ok] states it *)
  Hypothesis Htime : forall s n, L (ITime s n) = true -> (n < 1000000000)%N ->
    let sn := tnorm W s n in
    if is_nil W (wn W (wn W (ITime s n)))
    then tnorm W (fst sn) (snd sn) = (time_zero_sec, 0%N)
    else rd_time W (wn W (wn W (ITime s n))) = Ok (tnorm W (fst sn) (snd sn)).

  Lemma wire_ok_self : wire_ok (compose_wire (with_leaf W L) W).
  Proof.
    constructor.
    - exact (scalar_self _ (w_val _ HW) Hval).
    - exact (scalar_self _ (w_key _ HW) Hkey).
    - intros b Hl Hb. cbn [wn is_nil rd_bytes leaf_ok compose_wire with_leaf] in *.
      rewrite (Hbytes b Hl Hb). exact (w_bytes _ HW b (HL _ Hl) Hb).
    - intros s n Hl Hn. cbn [wn is_nil rd_time tnorm leaf_ok compose_wire with_leaf] in *. exact (Htime s n Hl Hn).
    - intro l. cbn [wn compose_wire with_leaf]. rewrite (w_arr _ HW), (w_arr _ HW), map_map. reflexivity.
    - intro l. cbn [wn wnk compose_wire with_leaf]. rewrite (w_map _ HW), (w_map _ HW), map_map. reflexivity.
    - exact (w_arr_nn _ HW).
    - exact (w_map_nn _ HW).
    - intro b. cbn [fn32 compose_wire with_leaf]. rewrite !(w_fn32_nan _ HW). reflexivity.
    - intro b. cbn [fn64 compose_wire with_leaf]. rewrite !(w_fn64_nan _ HW). reflexivity.
    - intros a b Ha Hb. cbn [fn32 compose_wire with_leaf].
      rewrite (w_fn32_eq _ HW) by (rewrite (w_fn32_nan _ HW); assumption). exact (w_fn32_eq _ HW a b Ha Hb).
    - intros a b Ha Hb. cbn [fn64 compose_wire with_leaf].
      rewrite (w_fn64_eq _ HW) by (rewrite (w_fn64_nan _ HW); assumption). exact (w_fn64_eq _ HW a b Ha Hb).
  Qed.

End Self.

(* ---- the tree of a value has no RawExt nodes ---- *)
(* [keeps] asks this of every plain item; for cbor's tag-1 driver record a non-zero time (outside the leaf
   premise) comes back as a tagged value, so the clause is also provided restricted to the items the leaf
   premise admits ([keeps_on]), which is all C15_same needs *)
Definition keeps_on (W1 W2 : wire) : Prop :=
  wire_ok (compose_wire W1 W2) /\ (forall i, plainb i = true -> leaves_ok W1 i = true -> plainb (wn W1 i) = true).

Lemma keeps_keeps_on : forall W1 W2, keeps W1 W2 -> keeps_on W1 W2.
Proof. intros W1 W2 [H1 H2]. split; [exact H1|intros i Hp _; exact (H2 i Hp)]. Qed.

Lemma same_generic_on : forall (W1 W2 : wire) (O O' : gopts) (pi : order) (t : ty) (v : gv),
  keeps_on W1 W2 -> order_ok pi ->
  wt t v = true -> supported t = true -> leaves_ok W1 (to_item O pi v) = true ->
  (Z.of_nat (depth (to_item O pi v)) < maxdepth O)%Z ->
  of_item (compose_wire W1 W2) O 0 t (wn W2 (reenc O' (wn W1 (to_item O pi v))))
    = Ok (norm (compose_wire W1 W2) O (arrange O pi v))
  /\ veq (norm (compose_wire W1 W2) O (arrange O pi v)) (norm (compose_wire W1 W2) O v).
Proof.
  intros W1 W2 O O' pi t v [Hok Hpl] Hpi Hwt Hsup Hlv Hd.
  rewrite reenc_id by (apply Hpl; [unfold to_item; apply enc_plain|exact Hlv]).
  rewrite <- (leaves_ok_compose W1 W2) in Hlv.
  exact (generic_roundtrip (compose_wire W1 W2) O pi t v Hok Hpi Hwt Hsup Hlv Hd).
Qed.

Section Plain.
  Variable W : wire.
  Variable P : item -> bool.
  Hypothesis HW : wire_ok W.
  Hypothesis Hplain : forall i, match i with IArr _ | IMap _ | ITag _ _ | IExt _ _ => False | _ => True end ->
    P i = true -> plainb (wn W i) = true /\ plainb (wnk W i) = true.
  Hypothesis Hknorm : forall i, match i with IArr _ | IMap _ => True | _ => False end -> wnk W i = wn W i.

  Lemma plain_on : forall i, plainb i = true -> leaves_ok (with_leaf W P) i = true -> plainb (wn W i) = true.
  Proof.
    induction i using item_ind'; intros Hp Hl; try discriminate;
      try (match goal with |- plainb (wn W ?k) = true => exact (proj1 (Hplain k I Hl)) end).
    - rewrite (w_arr _ HW). cbn [plainb leaves_ok] in *. rewrite forallb_forall in *. intros x Hx.
      apply in_map_iff in Hx. destruct Hx as [y [<- Hy]]. rewrite Forall_forall in H. exact (H y Hy (Hp y Hy) (Hl y Hy)).
    - rewrite (w_map _ HW). cbn [plainb leaves_ok] in *. rewrite forallb_forall in *. intros x Hx.
      apply in_map_iff in Hx. destruct Hx as [y [<- Hy]]. rewrite Forall_forall in H.
      specialize (Hp y Hy). apply andb_true_iff in Hp. destruct Hp as [H1 H2].
      specialize (Hl y Hy). apply andb_true_iff in Hl. destruct Hl as [L1 L2]. destruct (H y Hy) as [G1 G2].
      cbn [fst snd]. rewrite (G2 H2 L2), andb_true_r.
      (* the key: a scalar, or a container in key position *)
      specialize (G1 H1 L1). clear G2 H2 L2.
      destruct (fst y) as [|b|z|n|b|b|s|s|l0|l0|t v|t s|s n]; try discriminate H1;
        try (match goal with |- plainb (wnk W ?k) = true => exact (proj2 (Hplain k I L1)) end).
      + rewrite (Hknorm (IArr l0) I). exact G1.
      + rewrite (Hknorm (IMap l0) I). exact G1.
  Qed.
End Plain.

Lemma leaves_ok_true : forall W i, leaves_ok (with_leaf W (fun _ => true)) i = true.
Proof.
  intros W i. induction i using item_ind'; try reflexivity.
  - cbn [leaves_ok]. apply forallb_forall. rewrite Forall_forall in H. exact H.
  - cbn [leaves_ok]. apply forallb_forall. rewrite Forall_forall in H. intros kv Hkv. destruct (H kv Hkv) as [A B]. rewrite A, B. reflexivity.
  - exact IHi.
Qed.

Lemma plain_all : forall W, wire_ok W ->
  (forall i, match i with IArr _ | IMap _ | ITag _ _ | IExt _ _ => False | _ => True end ->
     plainb (wn W i) = true /\ plainb (wnk W i) = true) ->
  (forall i, match i with IArr _ | IMap _ => True | _ => False end -> wnk W i = wn W i) ->
  forall i, plainb i = true -> plainb (wn W i) = true.
Proof.
  intros W HW Hp Hk i Hi. apply (plain_on W (fun _ => true) HW); [intros j Hj _; exact (Hp j Hj)|exact Hk|exact Hi|apply leaves_ok_true].
Qed.

(* the time obligation from idempotence (every format but cbor's TimeRFC3339 record) *)
Lemma time_from_idem : forall (W : wire) (L : item -> bool),
  wire_ok W -> (forall i, L i = true -> leaf_ok W i = true) ->
  (forall s n, L (ITime s n) = true -> wn W (wn W (ITime s n)) = wn W (ITime s n)) ->
  (forall s n, L (ITime s n) = true -> let sn := tnorm W s n in tnorm W (fst sn) (snd sn) = tnorm W s n) ->
  forall s n, L (ITime s n) = true -> (n < 1000000000)%N ->
    let sn := tnorm W s n in
    if is_nil W (wn W (wn W (ITime s n)))
    then tnorm W (fst sn) (snd sn) = (time_zero_sec, 0%N)
    else rd_time W (wn W (wn W (ITime s n))) = Ok (tnorm W (fst sn) (snd sn)).
Proof.
  intros W L HW HL Hi Ht s n Hl Hn. cbv zeta. rewrite (Hi s n Hl). specialize (Ht s n Hl). cbv zeta in Ht. rewrite Ht.
  exact (w_time _ HW s n (HL _ Hl) Hn).
Qed.

(* binc's float normalisations are idempotent *)
Lemma binc_fn32_idem : forall b, binc_fn32 (binc_fn32 b) = binc_fn32 b.
Proof.
  intro b. unfold binc_fn32.
  destruct (N.eqb_spec (b mod 2 ^ 31) 0) as [Z|Z]; [reflexivity|].
  destruct (nan32 b) eqn:En; [vm_compute; reflexivity|].
  destruct (N.eqb_spec (b mod 2 ^ 31) 0); [contradiction|]. rewrite En. reflexivity.
Qed.

Lemma binc_fn64_idem : forall b, binc_fn64 (binc_fn64 b) = binc_fn64 b.
Proof.
  intro b. unfold binc_fn64.
  destruct (N.eqb_spec (b mod 2 ^ 63) 0) as [Z|Z]; [reflexivity|].
  destruct (Types.nan64 b) eqn:En; [vm_compute; reflexivity|].
  destruct (N.eqb_spec (b mod 2 ^ 63) 0); [contradiction|]. rewrite En. reflexivity.
Qed.

(* ================================================================== *)
(* binc *)
Section Binc.
  Variable e : B.eopts.
  Variable d : B.dopts.
  Let W := W_binc e d.

  Lemma b_norm_uint_idem : forall n, (B.signedInt d = true -> (n < 2 ^ 63)%N) ->
    B.norm e d (B.norm_uint d n) = B.norm_uint d n.
  Proof.
    intros n Hn. unfold B.norm_uint. destruct (B.signedInt d) eqn:S.
    - rewrite b_to_i64_small by (apply Hn; reflexivity). cbn [B.norm].
      destruct (Z.leb_spec 0 (Z.of_N n)); [|lia]. rewrite N2Z.id. unfold B.norm_uint. rewrite S.
      rewrite b_to_i64_small by (apply Hn; reflexivity). reflexivity.
    - cbn [B.norm]. unfold B.norm_uint. rewrite S. reflexivity.
  Qed.

  Lemma b_norm_f64_idem : forall x, B.norm e d (B.norm_f64 x) = B.norm_f64 x.
  Proof.
    intro x. unfold B.norm_f64. destruct (B.f64_is_zero x) eqn:Ez; [reflexivity|].
    cbn [B.norm]. unfold B.norm_f64, B.f64_canon. destruct (B.f64_is_nan x) eqn:En.
    - reflexivity.
    - rewrite Ez, En. reflexivity.
  Qed.

  Lemma b_norm_scalar_shape : forall i, match i with IArr _ | IMap _ | ITag _ _ | IExt _ _ => False | _ => True end ->
    match B.norm e d i with INil | IBool _ | IInt _ | IUint _ | IF64 _ | IStr _ | IBytes _ | ITime _ _ => True | _ => False end.
  Proof.
    intros i Hi. destruct i; try contradiction; cbn [B.norm]; try exact I.
    - destruct (0 <=? z)%Z; [unfold B.norm_uint; destruct (B.signedInt d)|]; exact I.
    - unfold B.norm_uint; destruct (B.signedInt d); exact I.
    - unfold B.norm_f64. destruct (B.f64_is_zero _); exact I.
    - unfold B.norm_f64. destruct (B.f64_is_zero _); exact I.
    - destruct (B.stringToRaw e); [destruct (B.rawToString d)|]; exact I.
    - destruct (B.rawToString d); exact I.
    - destruct ((sec =? B.zero_time_sec)%Z && (nsec =? 0)%N); exact I.
  Qed.

  Lemma b_idem_val : idem (leaf_ok W) (wn W).
  Proof.
    constructor; cbn [wn leaf_ok W W_binc b_leaf_ok]; unfold b_wn.
    - reflexivity.
    - reflexivity.
    - intros z _ Hz. cbn [B.norm]. destruct (Z.leb_spec 0 z); [|cbn [B.norm]; destruct (Z.leb_spec 0 z); [lia|reflexivity]].
      apply b_norm_uint_idem. intros _. change (2 ^ 63)%N with 9223372036854775808%N. lia.
    - intros n Hl Hn. cbn [B.norm]. apply b_norm_uint_idem. intro S. rewrite S in Hl. cbn [negb orb] in Hl. apply N.ltb_lt in Hl. exact Hl.
    - intros b _ _. cbn [B.norm]. apply b_norm_f64_idem.
    - intros b _ _. cbn [B.norm]. apply b_norm_f64_idem.
    - intros s _ _. cbn [B.norm]. destruct (B.stringToRaw e) eqn:S; [destruct (B.rawToString d) eqn:R|]; cbn [B.norm]; rewrite ?S, ?R; reflexivity.
  Qed.

  (* key position: key_norm only turns a []byte key into a string *)
  Lemma b_key_norm_id : forall i, match i with IBytes _ => False | _ => True end -> B.key_norm i = i.
  Proof. intros i H. destruct i; try reflexivity. contradiction. Qed.

  Lemma b_idem_key : idem (leaf_ok W) (wnk W).
  Proof.
    pose proof b_idem_val as V.
    constructor; cbn [wnk wn leaf_ok W W_binc b_leaf_ok] in *; unfold b_wnk, b_wn in *.
    - reflexivity.
    - reflexivity.
    - intros z Hl Hz. pose proof (i_int _ _ V z Hl Hz) as E. cbn [B.norm] in *.
      destruct (0 <=? z)%Z; [unfold B.norm_uint in *; destruct (B.signedInt d)|]; cbn [B.key_norm] in *; rewrite E; reflexivity.
    - intros n Hl Hn. pose proof (i_uint _ _ V n Hl Hn) as E. cbn [B.norm] in *.
      unfold B.norm_uint in *; destruct (B.signedInt d); cbn [B.key_norm] in *; rewrite E; reflexivity.
    - intros b Hl Hb. pose proof (i_f32 _ _ V b Hl Hb) as E. cbn [B.norm] in *.
      unfold B.norm_f64 in *. destruct (B.f64_is_zero (B.f32_to_f64 b)); cbn [B.key_norm] in *; rewrite E; reflexivity.
    - intros b Hl Hb. pose proof (i_f64 _ _ V b Hl Hb) as E. cbn [B.norm] in *.
      unfold B.norm_f64 in *. destruct (B.f64_is_zero b); cbn [B.key_norm] in *; rewrite E; reflexivity.
    - intros s _ _. cbn [B.norm]. destruct (B.stringToRaw e) eqn:S; [destruct (B.rawToString d) eqn:R|];
        cbn [B.key_norm B.norm]; rewrite ?S, ?R; reflexivity.
  Qed.

  Lemma binc_keeps : keeps (W_binc e d) (W_binc e d).
  Proof.
    split.
    - apply (wire_ok_self (W_binc e d) (leaf_ok (W_binc e d)) (W_binc_ok e d)).
      + intros i H. exact H.
      + exact binc_fn32_idem.
      + exact binc_fn64_idem.
      + exact b_idem_val.
      + exact b_idem_key.
      + intros b _ _. cbn [wn W_binc]. unfold b_wn. cbn [B.norm]. destruct (B.rawToString d) eqn:R; cbn [B.norm]; rewrite ?R.
        * destruct (B.stringToRaw e); reflexivity.
        * reflexivity.
      + apply (time_from_idem (W_binc e d) (leaf_ok (W_binc e d)) (W_binc_ok e d)); [intros i H; exact H| |reflexivity].
        intros s n _. cbn [wn W_binc]. unfold b_wn. cbn [B.norm].
        destruct ((s =? B.zero_time_sec)%Z && (n =? 0)%N) eqn:E; cbn [B.norm]; rewrite ?E; reflexivity.
    - apply (plain_all (W_binc e d) (W_binc_ok e d)).
      + intros i Hi. cbn [wn wnk W_binc]. unfold b_wnk, b_wn.
        pose proof (b_norm_scalar_shape i Hi) as Sh. destruct (B.norm e d i); try contradiction; split; reflexivity.
      + intros i Hi. destruct i; try contradiction; reflexivity.
  Qed.
End Binc.

(* ================================================================== *)
(* cbor *)
Lemma round_us_idem : forall s n, let sn := round_us s n in round_us (fst sn) (snd sn) = round_us s n.
Proof.
  intros s n. cbv zeta. unfold round_us.
  destruct (N.eqb_spec ((n + 500) / 1000) 1000000) as [E|E]; cbn [fst snd].
  - change ((0 + 500) / 1000)%N with 0%N. reflexivity.
  - replace (((n + 500) / 1000 * 1000 + 500) / 1000)%N with ((n + 500) / 1000)%N by lia.
    destruct (N.eqb_spec ((n + 500) / 1000) 1000000); [contradiction|reflexivity].
Qed.

Section Cbor.
  Variable Oc : CB.eopts.
  Variable D : CB.dopts.

  Lemma c_norm_idem_scalar : forall i,
    match i with INil | IBool _ | IInt _ | IUint _ | IF32 _ | IF64 _ | IStr _ | IBytes _ => True | _ => False end ->
    CE.norm Oc D (CE.norm Oc D i) = CE.norm Oc D i
    /\ match CE.norm Oc D i with INil | IBool _ | IInt _ | IUint _ | IF64 _ | IStr _ | IBytes _ => True | _ => False end.
  Proof.
    intros i Hi. destruct i; try contradiction; unfold CE.norm; cbn [CE.sdata_of].
    - split; [reflexivity|exact I].
    - destruct b; split; try reflexivity; exact I.
    - unfold CE.int_data. destruct (Z.ltb_spec z 0) as [Hz|Hz]; cbn [CC.go_of].
      + cbn [CE.sdata_of]. unfold CE.int_data. destruct (Z.ltb_spec (-1 - Z.of_N (Z.to_N (-1 - z))) 0); [|lia].
        cbn [CC.go_of]. split; [f_equal; lia|exact I].
      + destruct (CB.do_signed D) eqn:S; cbn [CE.sdata_of CC.go_of].
        * unfold CE.int_data. destruct (Z.ltb_spec (Z.of_N (Z.to_N z)) 0); [lia|]. cbn [CC.go_of]. rewrite S.
          split; [f_equal; lia|exact I].
        * rewrite S. split; [reflexivity|exact I].
    - cbn [CC.go_of]. destruct (CB.do_signed D) eqn:S; cbn [CE.sdata_of CC.go_of].
      + unfold CE.int_data. destruct (Z.ltb_spec (Z.of_N n) 0); [lia|]. cbn [CC.go_of]. rewrite S.
        split; [f_equal; lia|exact I].
      + rewrite S. split; [reflexivity|exact I].
    - cbn [CC.go_of]. change (32 =? 16)%N with false. change (32 =? 32)%N with true. cbv iota. cbn [CE.sdata_of CC.go_of].
      change (64 =? 16)%N with false. change (64 =? 32)%N with false. cbv iota. split; [reflexivity|exact I].
    - cbn [CC.go_of]. change (64 =? 16)%N with false. change (64 =? 32)%N with false. cbv iota. cbn [CE.sdata_of CC.go_of].
      change (64 =? 16)%N with false. change (64 =? 32)%N with false. cbv iota. split; [reflexivity|exact I].
    - destruct (CB.eo_str2raw Oc) eqn:S; cbn [CC.go_of].
      + destruct (CB.do_raw2str D) eqn:R; cbn [CE.sdata_of]; rewrite ?S; cbn [CC.go_of]; rewrite ?R; split; try reflexivity; exact I.
      + cbn [CE.sdata_of]. rewrite S. cbn [CC.go_of]. split; [reflexivity|exact I].
    - cbn [CC.go_of]. destruct (CB.do_raw2str D) eqn:R; cbn [CE.sdata_of].
      + destruct (CB.eo_str2raw Oc); cbn [CC.go_of]; rewrite ?R; split; try reflexivity; exact I.
      + cbn [CC.go_of]. rewrite R. split; [reflexivity|exact I].
  Qed.

  Lemma c_keynorm_idem : forall i,
    match i with INil | IBool _ | IInt _ | IUint _ | IF32 _ | IF64 _ | IStr _ | IBytes _ => True | _ => False end ->
    CB.keynorm (CE.norm Oc D (CB.keynorm (CE.norm Oc D i))) = CB.keynorm (CE.norm Oc D i).
  Proof.
    intros i Hi. destruct (c_norm_idem_scalar i Hi) as [E Sh].
    destruct (CE.norm Oc D i) eqn:N; try contradiction; cbn [CB.keynorm]; try (rewrite E; reflexivity).
    (* a []byte key: read as the string; written again as a string *)
    destruct i; try contradiction; unfold CE.norm in N; cbn [CE.sdata_of] in N.
    - discriminate.
    - destruct b0; discriminate.
    - unfold CE.int_data in N. destruct (z <? 0)%Z; cbn [CC.go_of] in N; [|destruct (CB.do_signed D)]; discriminate.
    - cbn [CC.go_of] in N. destruct (CB.do_signed D); discriminate.
    - cbn [CC.go_of] in N. discriminate.
    - cbn [CC.go_of] in N. discriminate.
    - destruct (CB.eo_str2raw Oc) eqn:S; cbn [CC.go_of] in N; [|discriminate].
      destruct (CB.do_raw2str D) eqn:R; [discriminate|]. inversion N; subst.
      unfold CE.norm. cbn [CE.sdata_of]. rewrite S. cbn [CC.go_of]. rewrite R. reflexivity.
    - cbn [CC.go_of] in N. destruct (CB.do_raw2str D) eqn:R; [discriminate|]. inversion N; subst.
      unfold CE.norm. cbn [CE.sdata_of]. destruct (CB.eo_str2raw Oc); cbn [CC.go_of]; rewrite ?R; reflexivity.
  Qed.

  Lemma c_idem_val : forall L, idem L (CE.norm Oc D).
  Proof. intro L. constructor; intros; apply c_norm_idem_scalar; exact I. Qed.

  Lemma c_idem_key : forall L, idem L (fun i => CB.keynorm (CE.norm Oc D i)).
  Proof. intro L. constructor; intros; apply c_keynorm_idem; exact I. Qed.

  Lemma c_plain_leaf : forall i, match i with IArr _ | IMap _ | ITag _ _ | IExt _ _ | ITime _ _ => False | _ => True end ->
    plainb (CE.norm Oc D i) = true /\ plainb (CB.keynorm (CE.norm Oc D i)) = true.
  Proof.
    intros i Hi.
    assert (Hs : match i with INil | IBool _ | IInt _ | IUint _ | IF32 _ | IF64 _ | IStr _ | IBytes _ => True | _ => False end)
      by (destruct i; try contradiction; exact I).
    destruct (c_norm_idem_scalar i Hs) as [_ Sh]. destruct (CE.norm Oc D i); try contradiction; split; reflexivity.
  Qed.

  (* the tag-1 driver record: only the zero time is inside the leaf premise; [keeps_on] *)
  Lemma cbor_keeps_on : keeps_on (W_cbor Oc D) (W_cbor Oc D).
  Proof.
    split.
    - apply (wire_ok_self (W_cbor Oc D) (leaf_ok (W_cbor Oc D)) (W_cbor_ok Oc D)).
      + intros i H. exact H.
      + reflexivity.
      + reflexivity.
      + exact (c_idem_val _).
      + exact (c_idem_key _).
      + intros b _ _. apply c_norm_idem_scalar. exact I.
      + apply (time_from_idem (W_cbor Oc D) (leaf_ok (W_cbor Oc D)) (W_cbor_ok Oc D)); [intros i H; exact H| |].
        * intros s n Hl. cbn [leaf_ok W_cbor c_leaf_ok] in Hl. cbn [wn W_cbor]. unfold c_wn, CE.norm. cbn [CE.sdata_of].
          unfold is_time_zero in Hl. unfold CB.zero_time_sec. change time_zero_sec with (-62135596800)%Z in Hl. rewrite Hl. reflexivity.
        * intros s n _. cbn [tnorm W_cbor]. apply round_us_idem.
    - apply (plain_on (W_cbor Oc D) (leaf_ok (W_cbor Oc D)) (W_cbor_ok Oc D)).
      + intros i Hi Hl. cbn [wn wnk W_cbor]. unfold c_wn, c_wnk.
        destruct i as [|b|z|n|b|b|s|s|l|l|t v|t s|s n]; try contradiction; try (apply c_plain_leaf; exact I).
        cbn [leaf_ok W_cbor c_leaf_ok] in Hl. unfold CE.norm. cbn [CE.sdata_of].
        unfold is_time_zero in Hl. unfold CB.zero_time_sec. change time_zero_sec with (-62135596800)%Z in Hl. rewrite Hl.
        split; reflexivity.
      + intros i Hi. destruct i; try contradiction; reflexivity.
  Qed.
End Cbor.

(* cbor with TimeRFC3339: every time of a year 0..9999 *)
Section CborT.
  Variable Oc : CB.eopts.
  Variable D : CB.dopts.

  Lemma round_us_zero' : round_us time_zero_sec 0 = (time_zero_sec, 0%N).
  Proof. vm_compute. reflexivity. Qed.

  Definition scalar8 (i : item) : Prop :=
    match i with INil | IBool _ | IInt _ | IUint _ | IF32 _ | IF64 _ | IStr _ | IBytes _ => True | _ => False end.

  Lemma c_wn_t_scalar : forall i, scalar8 i -> c_wn_t Oc D i = CE.norm Oc D i.
  Proof. intros i H. destruct i; try contradiction; reflexivity. Qed.

  Lemma c_norm_scalar8 : forall i, scalar8 i -> scalar8 (CE.norm Oc D i).
  Proof. intros i H. destruct (c_norm_idem_scalar Oc D i H) as [_ Sh]. destruct (CE.norm Oc D i); try contradiction; exact I. Qed.

  Lemma c_wn_t_idem : forall i, scalar8 i -> c_wn_t Oc D (c_wn_t Oc D i) = c_wn_t Oc D i.
  Proof.
    intros i H. rewrite (c_wn_t_scalar i H). rewrite (c_wn_t_scalar _ (c_norm_scalar8 i H)).
    exact (proj1 (c_norm_idem_scalar Oc D i H)).
  Qed.

  Lemma c_wnk_t_idem : forall i, scalar8 i -> c_wnk_t Oc D (c_wnk_t Oc D i) = c_wnk_t Oc D i.
  Proof.
    intros i H. unfold c_wnk_t. rewrite (c_wn_t_scalar i H).
    assert (Hk : scalar8 (CB.keynorm (CE.norm Oc D i))).
    { pose proof (c_norm_scalar8 i H) as S. destruct (CE.norm Oc D i); try contradiction; exact I. }
    rewrite (c_wn_t_scalar _ Hk). exact (c_keynorm_idem Oc D i H).
  Qed.

  Lemma cbor_t_keeps : keeps (W_cbor_t Oc D) (W_cbor_t Oc D).
  Proof.
    split.
    - apply (wire_ok_self (W_cbor_t Oc D) (leaf_ok (W_cbor_t Oc D)) (W_cbor_t_ok Oc D)).
      + intros i H. exact H.
      + reflexivity.
      + reflexivity.
      + constructor; intros; cbn [wn W_cbor_t]; apply c_wn_t_idem; exact I.
      + constructor; intros; cbn [wnk W_cbor_t]; apply c_wnk_t_idem; exact I.
      + intros b _ _. cbn [wn W_cbor_t]. apply c_wn_t_idem. exact I.
      + intros s n _ Hn. cbv zeta. cbn [wn is_nil rd_time tnorm W_cbor_t c_wn_t].
        destruct (is_time_zero s n) eqn:E.
        * cbn [c_wn_t item_is_nil]. change (CE.norm Oc D INil) with INil. cbn [item_is_nil].
          unfold is_time_zero in E. apply andb_true_iff in E. destruct E as [E1 E2]. apply Z.eqb_eq in E1. apply N.eqb_eq in E2. subst.
          rewrite round_us_zero'. cbn [fst snd]. exact round_us_zero'.
        * destruct (round_us s n) as [s1 n1] eqn:R. cbn [fst snd c_wn_t].
          destruct (is_time_zero s1 n1) eqn:E'; cbn [item_is_nil].
          -- unfold is_time_zero in E'. apply andb_true_iff in E'. destruct E' as [E1 E2]. apply Z.eqb_eq in E1. apply N.eqb_eq in E2. subst.
             exact round_us_zero'.
          -- cbn [c_rd_time]. destruct (round_us s1 n1). reflexivity.
    - apply (plain_all (W_cbor_t Oc D) (W_cbor_t_ok Oc D)).
      + intros i Hi. cbn [wn wnk W_cbor_t]. unfold c_wnk_t.
        destruct i as [|b|z|n|b|b|s|s|l|l|t v|t s|s n]; try contradiction; try (apply (c_plain_leaf Oc D); exact I).
        cbn [c_wn_t]. destruct (is_time_zero s n); [split; reflexivity|]. cbv zeta. split; reflexivity.
      + intros i Hi. destruct i; try contradiction; reflexivity.
  Qed.
End CborT.

(* ================================================================== *)
(* msgpack *)
Section Msgpack.
  Variable Of : M.eopts.
  Variable D : M.dopts.

  Lemma m_norm_uint_idem : forall n, (M.d_signedinteger D = true -> (n < 2 ^ 63)%N) ->
    MR.norm Of D (MR.norm_uint Of D n) = MR.norm_uint Of D n.
  Proof.
    intros n Hn. unfold MR.norm_uint at 1.
    destruct ((n <=? 127)%N && negb (M.e_nofixednum Of)) eqn:E.
    - cbn [MR.norm]. destruct (M.e_posintunsigned Of && (0 <=? Z.of_N n)%Z) eqn:P.
      + rewrite N2Z.id. reflexivity.
      + unfold MR.norm_uint. rewrite E. reflexivity.
    - unfold M.mkuint. destruct (M.d_signedinteger D) eqn:S.
      + rewrite signed_small by (apply Hn; reflexivity). cbn [MR.norm].
        destruct (M.e_posintunsigned Of && (0 <=? Z.of_N n)%Z) eqn:P.
        * rewrite N2Z.id. reflexivity.
        * unfold MR.norm_uint. rewrite E. unfold M.mkuint. rewrite S. rewrite signed_small by (apply Hn; reflexivity). reflexivity.
      + cbn [MR.norm]. reflexivity.
  Qed.


  Lemma m_str_idem : forall s, MR.norm Of D (MR.norm Of D (IStr s)) = MR.norm Of D (IStr s).
  Proof.
    intro s. cbn [MR.norm]. unfold M.mkraw.
    destruct (M.e_writeext Of) eqn:We; destruct (M.e_stringtoraw Of) eqn:Sr; destruct (M.d_rawtostring D) eqn:Rs;
      destruct (M.d_writeext D) eqn:Wd; cbn [andb orb MR.norm]; rewrite ?We, ?Sr, ?Rs, ?Wd; reflexivity.
  Qed.

  Lemma m_bytes_idem : forall s, MR.norm Of D (MR.norm Of D (IBytes s)) = MR.norm Of D (IBytes s).
  Proof.
    intro s. cbn [MR.norm]. unfold M.mkraw.
    destruct (M.e_writeext Of) eqn:We; destruct (M.e_stringtoraw Of) eqn:Sr; destruct (M.d_rawtostring D) eqn:Rs;
      destruct (M.d_writeext D) eqn:Wd; cbn [andb orb MR.norm]; rewrite ?We, ?Sr, ?Rs, ?Wd; reflexivity.
  Qed.

  Lemma m_time_idem : forall s n, MR.norm Of D (MR.norm Of D (ITime s n)) = MR.norm Of D (ITime s n).
  Proof.
    intros s n. cbn [MR.norm]. destruct (M.is_zero_time s n) eqn:Z; [reflexivity|].
    destruct (M.e_writeext Of) eqn:We; [cbn [MR.norm]; rewrite Z, We; reflexivity|].
    unfold M.mkraw. destruct (M.d_writeext D || M.d_rawtostring D) eqn:X; cbn [MR.norm]; rewrite ?We; cbn [andb]; unfold M.mkraw; rewrite X; reflexivity.
  Qed.

  Lemma m_idem_val : idem (leaf_ok (W_msgpack Of D)) (wn (W_msgpack Of D)).
  Proof.
    constructor; cbn [wn leaf_ok W_msgpack m_leaf_ok]; unfold m_wn.
    - reflexivity.
    - reflexivity.
    - intros z _ Hz. cbn [MR.norm]. destruct (M.e_posintunsigned Of && (0 <=? z)%Z) eqn:P.
      + apply andb_true_iff in P. destruct P as [_ P]. apply Z.leb_le in P.
        apply m_norm_uint_idem. intros _. change (2 ^ 63)%N with 9223372036854775808%N. lia.
      + cbn [MR.norm]. rewrite P. reflexivity.
    - intros n Hl Hn. cbn [MR.norm]. apply m_norm_uint_idem. intro S. rewrite S in Hl. cbn [negb orb] in Hl. apply N.ltb_lt in Hl. exact Hl.
    - reflexivity.
    - reflexivity.
    - intros s _ _. apply m_str_idem.
  Qed.

  Lemma m_norm_uint_shape : forall n, match MR.norm_uint Of D n with IInt _ | IUint _ => True | _ => False end.
  Proof. intro n. unfold MR.norm_uint, M.mkuint. destruct (_ && _); [exact I|]. destruct (M.d_signedinteger D); exact I. Qed.

  Lemma m_idem_key : idem (leaf_ok (W_msgpack Of D)) (wnk (W_msgpack Of D)).
  Proof.
    pose proof m_idem_val as V.
    constructor; cbn [wnk wn leaf_ok W_msgpack m_leaf_ok] in *; unfold m_wnk, m_wn in *.
    - reflexivity.
    - reflexivity.
    - intros z Hl Hz. pose proof (i_int _ _ V z Hl Hz) as E. cbn [MR.norm] in *.
      destruct (M.e_posintunsigned Of && (0 <=? z)%Z).
      + pose proof (m_norm_uint_shape (Z.to_N z)) as Sh. destruct (MR.norm_uint Of D (Z.to_N z)); try contradiction; cbn [M.key_fix] in *; rewrite E; reflexivity.
      + cbn [M.key_fix] in *. rewrite E. reflexivity.
    - intros n Hl Hn. pose proof (i_uint _ _ V n Hl Hn) as E. cbn [MR.norm] in *.
      pose proof (m_norm_uint_shape n) as Sh. destruct (MR.norm_uint Of D n); try contradiction; cbn [M.key_fix] in *; rewrite E; reflexivity.
    - reflexivity.
    - reflexivity.
    - intros s _ _. cbn [MR.norm]. unfold M.mkraw.
      destruct (M.e_writeext Of) eqn:We; destruct (M.e_stringtoraw Of) eqn:Sr; destruct (M.d_rawtostring D) eqn:Rs;
        destruct (M.d_writeext D) eqn:Wd; cbn [andb orb M.key_fix MR.norm]; rewrite ?We, ?Sr, ?Rs, ?Wd; reflexivity.
  Qed.

  Lemma msgpack_keeps : keeps (W_msgpack Of D) (W_msgpack Of D).
  Proof.
    split.
    - apply (wire_ok_self (W_msgpack Of D) (leaf_ok (W_msgpack Of D)) (W_msgpack_ok Of D)).
      + intros i H. exact H.
      + reflexivity.
      + reflexivity.
      + exact m_idem_val.
      + exact m_idem_key.
      + intros b _ _. apply m_bytes_idem.
      + apply (time_from_idem (W_msgpack Of D) (leaf_ok (W_msgpack Of D)) (W_msgpack_ok Of D)); [intros i H; exact H| |reflexivity].
        intros s n _. apply m_time_idem.
    - apply (plain_all (W_msgpack Of D) (W_msgpack_ok Of D)).
      + intros i Hi. cbn [wn wnk W_msgpack]. unfold m_wnk, m_wn.
        destruct i as [|b|z|n|b|b|s|s|l|l|t v|t s|s n]; try contradiction; cbn [MR.norm]; try (split; reflexivity).
        * destruct (_ && _); [|split; reflexivity].
          pose proof (m_norm_uint_shape (Z.to_N z)) as Sh. destruct (MR.norm_uint Of D (Z.to_N z)); try contradiction; split; reflexivity.
        * pose proof (m_norm_uint_shape n) as Sh. destruct (MR.norm_uint Of D n); try contradiction; split; reflexivity.
        * unfold M.mkraw. destruct (_ && _); [destruct (M.d_rawtostring D)|destruct (_ || _)]; split; reflexivity.
        * unfold M.mkraw. destruct (M.e_writeext Of); [destruct (M.d_rawtostring D)|destruct (_ || _)]; split; reflexivity.
        * destruct (M.is_zero_time s n); [split; reflexivity|]. destruct (M.e_writeext Of); [split; reflexivity|].
          unfold M.mkraw. destruct (_ || _); split; reflexivity.
      + intros i Hi. destruct i; try contradiction; reflexivity.
  Qed.
End Msgpack.

(* ================================================================== *)
(* simple *)
Lemma widen_zero_iff : forall b, (b < 2 ^ 32)%N -> snan32 b = false -> S.f64zero (widen_c b) = S.f32zero b.
Proof.
  intros b Hb Hs. pose proof (unwiden_widen b Hb Hs) as Hu. unfold S.f64zero, S.f32zero.
  destruct (N.eqb_spec b 0) as [->|B0]; [reflexivity|].
  destruct (N.eqb_spec b (2 ^ 31)) as [->|B1]; [reflexivity|]. cbn [orb].
  destruct (N.eqb_spec (widen_c b) 0) as [E|E].
  { rewrite E in Hu. vm_compute in Hu. inversion Hu. subst b. contradiction. }
  destruct (N.eqb_spec (widen_c b) (2 ^ 63)) as [E'|E']; [|reflexivity].
  rewrite E' in Hu. vm_compute in Hu. inversion Hu. subst b. exfalso. apply B1. reflexivity.
Qed.

Section Simple.
  Variable o : S.eopts.
  Variable D : S.dopts.

  (* the leaf premise of C01 plus: under EncZeroValuesAsNil + RawToString an empty non-nil []byte is outside *)
  Definition s_leaf_n (i : item) : bool :=
    s_leaf_ok o D i && match i with IBytes b => negb (S.zeroAsNil o && S.rawToString D && S.isnil b) | _ => true end.
  Definition W_simple_n : wire := with_leaf (W_simple o D) s_leaf_n.

  Lemma s_leaf_n_ok : forall i, s_leaf_n i = true -> leaf_ok (W_simple o D) i = true.
  Proof. intros i H. unfold s_leaf_n in H. apply andb_true_iff in H. exact (proj1 H). Qed.

  Lemma s_norm_pos_idem : forall key n, (S.zeroAsNil o && negb key && (n =? 0)%N = false) ->
    (S.signedInteger D = true -> (n < 2 ^ 63)%N) ->
    S.norm o D key (S.norm_pos (S.zeroAsNil o && negb key) D n) = S.norm_pos (S.zeroAsNil o && negb key) D n.
  Proof.
    intros key n Hz Hn. unfold S.norm_pos at 1. rewrite Hz. destruct (S.signedInteger D) eqn:Sg.
    - rewrite to_i64_small by (apply Hn; reflexivity). cbn [S.norm].
      destruct (Z.ltb_spec (Z.of_N n) 0); [lia|]. rewrite N2Z.id. unfold S.norm_pos. rewrite Hz, Sg.
      rewrite to_i64_small by (apply Hn; reflexivity). reflexivity.
    - cbn [S.norm]. unfold S.norm_pos. rewrite Hz, Sg. reflexivity.
  Qed.

  Lemma s_zn_key : forall key c, S.zeroAsNil o && c = false -> S.zeroAsNil o && negb key && c = false.
  Proof. intros key c H. destruct (S.zeroAsNil o); [|reflexivity]. cbn [andb] in *. rewrite H. apply andb_false_r. Qed.

  (* value (key = false) and key (key = true) position at once: [S.norm o D key] is idempotent on the admitted leaves *)
  Lemma s_norm_idem : forall key, idem s_leaf_n (S.norm o D key).
  Proof.
    intro key. constructor.
    - reflexivity.
    - intros b Hl. apply s_leaf_n_ok in Hl. cbn [leaf_ok W_simple s_leaf_ok] in Hl. apply negb_true_iff in Hl.
      cbn [S.norm]. rewrite (s_zn_key key _ Hl). cbn [S.norm]. rewrite (s_zn_key key _ Hl). reflexivity.
    - intros z Hl Hz. apply s_leaf_n_ok in Hl. cbn [leaf_ok W_simple s_leaf_ok] in Hl. apply negb_true_iff in Hl.
      cbn [S.norm]. destruct (Z.ltb_spec z 0) as [Hn|Hn].
      + cbn [S.norm]. destruct (Z.ltb_spec z 0); [reflexivity|lia].
      + apply s_norm_pos_idem.
        * apply s_zn_key. destruct (S.zeroAsNil o); [|reflexivity]. cbn [andb] in *.
          destruct (Z.eqb_spec z 0); [discriminate|]. destruct (N.eqb_spec (Z.to_N z) 0); [lia|reflexivity].
        * intros _. change (2 ^ 63)%N with 9223372036854775808%N. lia.
    - intros n Hl Hn. apply s_leaf_n_ok in Hl. cbn [leaf_ok W_simple s_leaf_ok] in Hl.
      apply andb_true_iff in Hl. destruct Hl as [H1 H2]. apply negb_true_iff in H1.
      cbn [S.norm]. apply s_norm_pos_idem.
      + apply s_zn_key. exact H1.
      + intro Sg. rewrite Sg in H2. cbn [negb orb] in H2. apply N.ltb_lt in H2. exact H2.
    - intros b Hl Hb. apply s_leaf_n_ok in Hl. cbn [leaf_ok W_simple s_leaf_ok] in Hl.
      apply andb_true_iff in Hl. destruct Hl as [H1 H2]. apply negb_true_iff in H1. apply negb_true_iff in H2.
      cbn [S.norm]. rewrite (s_zn_key key _ H1). cbn [S.norm].
      rewrite simple_widen by exact Hb. rewrite (widen_zero_iff b Hb H2). rewrite (s_zn_key key _ H1). reflexivity.
    - intros b Hl Hb. apply s_leaf_n_ok in Hl. cbn [leaf_ok W_simple s_leaf_ok] in Hl. apply negb_true_iff in Hl.
      cbn [S.norm]. rewrite (s_zn_key key _ Hl). cbn [S.norm]. rewrite (s_zn_key key _ Hl). reflexivity.
    - intros s Hl Hb. apply s_leaf_n_ok in Hl. cbn [leaf_ok W_simple s_leaf_ok] in Hl. apply negb_true_iff in Hl.
      cbn [S.norm]. rewrite (s_zn_key key _ Hl).
      destruct (S.stringToRaw o) eqn:Sr.
      + unfold S.bytes_item. destruct (S.rawToString D) eqn:R; cbn [S.norm]; rewrite ?(s_zn_key key _ Hl), ?Sr; unfold S.bytes_item; rewrite R; reflexivity.
      + cbn [S.norm]. rewrite (s_zn_key key _ Hl), Sr. reflexivity.
  Qed.

  Lemma s_norm_shape : forall key i, match i with IArr _ | IMap _ | ITag _ _ | IExt _ _ => False | _ => True end ->
    match S.norm o D key i with INil | IBool _ | IInt _ | IUint _ | IF64 _ | IStr _ | IBytes _ | ITime _ _ => True | _ => False end.
  Proof.
    intros key i Hi. destruct i; try contradiction; cbn [S.norm]; try exact I.
    - destruct (_ && _); exact I.
    - destruct (z <? 0)%Z; [exact I|]. unfold S.norm_pos. destruct (_ && _); [exact I|]. destruct (S.signedInteger D); exact I.
    - unfold S.norm_pos. destruct (_ && _); [exact I|]. destruct (S.signedInteger D); exact I.
    - destruct (_ && _); exact I.
    - destruct (_ && _); exact I.
    - destruct (_ && _); [exact I|]. destruct (S.stringToRaw o); [unfold S.bytes_item; destruct (S.rawToString D)|]; exact I.
    - unfold S.bytes_item; destruct (S.rawToString D); exact I.
    - destruct (S.time_zero sec nsec); exact I.
  Qed.

  (* key position: key_conv only turns a []byte key into a string *)
  Lemma s_idem_key : idem s_leaf_n (wnk (W_simple o D)).
  Proof.
    pose proof (s_norm_idem true) as V. cbn [wnk W_simple]. unfold s_wnk.
    assert (G : forall i, match i with INil | IBool _ | IInt _ | IUint _ | IF32 _ | IF64 _ => True | _ => False end ->
                S.norm o D true (S.norm o D true i) = S.norm o D true i ->
                S.key_conv (S.norm o D true (S.key_conv (S.norm o D true i))) = S.key_conv (S.norm o D true i)).
    { intros i Hi E. pose proof (s_norm_shape true i ltac:(destruct i; try contradiction; exact I)) as Sh.
      destruct (S.norm o D true i) eqn:N; try contradiction; cbn [S.key_conv] in *; try (rewrite E; reflexivity).
      destruct i; try contradiction; cbn [S.norm] in N.
      - discriminate.
      - cbn [negb andb] in N. rewrite andb_false_r in N. discriminate.
      - destruct (z <? 0)%Z; [discriminate|]. unfold S.norm_pos in N. cbn [negb] in N. rewrite andb_false_r in N. cbn [andb] in N.
        destruct (S.signedInteger D); discriminate.
      - unfold S.norm_pos in N. cbn [negb] in N. rewrite andb_false_r in N. cbn [andb] in N. destruct (S.signedInteger D); discriminate.
      - cbn [negb] in N. rewrite andb_false_r in N. discriminate.
      - cbn [negb] in N. rewrite andb_false_r in N. discriminate. }
    constructor.
    - reflexivity.
    - intros b Hl. apply G; [exact I|exact (i_bool _ _ V b Hl)].
    - intros z Hl Hz. apply G; [exact I|exact (i_int _ _ V z Hl Hz)].
    - intros n Hl Hn. apply G; [exact I|exact (i_uint _ _ V n Hl Hn)].
    - intros b Hl Hb. apply G; [exact I|exact (i_f32 _ _ V b Hl Hb)].
    - intros b Hl Hb. apply G; [exact I|exact (i_f64 _ _ V b Hl Hb)].
    - intros s _ _. cbn [S.norm negb]. rewrite andb_false_r. cbn [andb].
      destruct (S.stringToRaw o) eqn:Sr.
      + unfold S.bytes_item. destruct (S.rawToString D) eqn:R; cbn [S.key_conv S.norm negb]; rewrite andb_false_r; cbn [andb]; rewrite Sr;
          unfold S.bytes_item; rewrite R; reflexivity.
      + cbn [S.key_conv S.norm negb]. rewrite andb_false_r. cbn [andb]. rewrite Sr. reflexivity.
  Qed.

  Lemma simple_keeps : keeps W_simple_n (W_simple o D).
  Proof.
    split.
    - apply (wire_ok_self (W_simple o D) s_leaf_n (W_simple_ok o D)).
      + exact s_leaf_n_ok.
      + reflexivity.
      + reflexivity.
      + exact (s_norm_idem false).
      + exact s_idem_key.
      + intros b Hl _. unfold s_leaf_n in Hl. apply andb_true_iff in Hl. destruct Hl as [_ Hl]. apply negb_true_iff in Hl.
        cbn [wn W_simple]. unfold s_wn. cbn [S.norm]. unfold S.bytes_item. destruct (S.rawToString D) eqn:R.
        * rewrite andb_true_r in Hl. cbn [S.norm negb]. rewrite andb_true_r. rewrite Hl.
          destruct (S.stringToRaw o); [unfold S.bytes_item; rewrite R|]; reflexivity.
        * cbn [S.norm]. unfold S.bytes_item. rewrite R. reflexivity.
      + apply (time_from_idem (W_simple o D) s_leaf_n (W_simple_ok o D) s_leaf_n_ok); [|reflexivity].
        intros s n _. cbn [wn W_simple]. unfold s_wn. cbn [S.norm].
        destruct (S.time_zero s n) eqn:E; cbn [S.norm]; rewrite ?E; reflexivity.
    - apply (plain_all (W_simple o D) (W_simple_ok o D)).
      + intros i Hi. cbn [wn wnk W_simple]. unfold s_wnk, s_wn.
        pose proof (s_norm_shape false i Hi) as S1. pose proof (s_norm_shape true i Hi) as S2.
        destruct (S.norm o D false i); try contradiction; destruct (S.norm o D true i); try contradiction; split; reflexivity.
      + intros i Hi. destruct i; try contradiction; reflexivity.
  Qed.

  (* the excluded corner is a real loss of the same-format transcoding: *)
  Lemma simple_empty_bytes_lost : S.zeroAsNil o = true -> S.rawToString D = true ->
    leaf_ok (W_simple o D) (IBytes []) = true /\
    wn (W_simple o D) (wn (W_simple o D) (IBytes [])) = INil.
  Proof.
    intros Z R. split; [reflexivity|]. cbn [wn W_simple]. unfold s_wn. cbn [S.norm]. unfold S.bytes_item. rewrite R.
    cbn [S.norm negb S.isnil]. rewrite Z. reflexivity.
  Qed.
End Simple.

(* ================================================================== *)
(* the statements behind C15_same_<fmt> *)

(* the typed decode through the composite reads with the second driver's readers: literally the same function *)
Lemma of_item_compose : forall W1 W2 O d t i, of_item (compose_wire W1 W2) O d t i = of_item W2 O d t i.
Proof. reflexivity. Qed.

(* losses of a same-format transcoding: those of the format, once *)
Lemma self_losses : forall (W : wire) (L : item -> bool) (Lx : losses),
  same_losses (losses_of W) Lx ->
  (forall b, fn32 W (fn32 W b) = fn32 W b) -> (forall b, fn64 W (fn64 W b) = fn64 W b) ->
  (forall s n, let sn := tnorm W s n in tnorm W (fst sn) (snd sn) = tnorm W s n) ->
  (forall s n, is_nil W (wn W (wn W (ITime s n))) = is_nil W (wn W (ITime s n))) ->
  same_losses (losses_of (compose_wire (with_leaf W L) W)) Lx.
Proof.
  intros W L Lx (H1 & H2 & H3 & H4) F32 F64 T Nl. repeat apply conj; cbn [losses_of l_fn32 l_fn64 l_tnorm l_tnil fn32 fn64 tnorm wn is_nil compose_wire with_leaf] in *.
  - intro b. rewrite F32. apply H1.
  - intro b. rewrite F64. apply H2.
  - intros s n. specialize (T s n). cbv zeta in T. rewrite T. apply H3.
  - intros s n. rewrite Nl. apply H4.
Qed.

Lemma same_concrete : forall (W1 W : wire) (Lx : losses) (O O' : gopts) (pi : order) (t : ty) (v : gv),
  keeps_on W1 W -> same_losses (losses_of (compose_wire W1 W)) Lx ->
  order_ok pi -> wt t v = true -> supported t = true -> leaves_ok W1 (to_item O pi v) = true ->
  (Z.of_nat (depth (to_item O pi v)) < maxdepth O)%Z ->
  let g := wn W1 (to_item O pi v) in
  plainb g = true /\ reenc O' g = g /\
  of_item W O 0 t (wn W (reenc O' g)) = Ok (normL Lx O (arrange O pi v)) /\
  veq (normL Lx O (arrange O pi v)) (normL Lx O v).
Proof.
  intros W1 W Lx O O' pi t v HK HL Hpi Hwt Hs Hl Hd g.
  assert (Hp : plainb g = true) by (apply (proj2 HK); [unfold to_item; apply enc_plain|exact Hl]).
  split; [exact Hp|]. split; [apply reenc_id; exact Hp|].
  destruct (same_generic_on W1 W O O' pi t v HK Hpi Hwt Hs Hl Hd) as [A B].
  rewrite of_item_compose in A. fold g in A. split.
  - rewrite A. rewrite norm_L. rewrite (normL_ext _ _ O HL). reflexivity.
  - rewrite !norm_L in B. rewrite <- (normL_ext _ _ O HL (arrange O pi v)). rewrite <- (normL_ext _ _ O HL v). exact B.
Qed.

(* ---- simple ---- *)
Lemma simple_same : forall (o : S.eopts) (D : S.dopts) (O O' : gopts) (pi : order) (t : ty) (v : gv),
  order_ok pi -> wt t v = true -> supported t = true ->
  leaves_ok (W_simple_n o D) (to_item O pi v) = true ->
  (Z.of_nat (depth (to_item O pi v)) < maxdepth O)%Z ->
  let g := wn (W_simple o D) (to_item O pi v) in
  plainb g = true /\ reenc O' g = g /\
  of_item (W_simple o D) O 0 t (wn (W_simple o D) (reenc O' g)) = Ok (normL exact_losses O (arrange O pi v)) /\
  veq (normL exact_losses O (arrange O pi v)) (normL exact_losses O v).
Proof.
  intros o D O O' pi t v. apply (same_concrete (W_simple_n o D) (W_simple o D) exact_losses).
  - apply keeps_keeps_on, simple_keeps.
  - apply self_losses; [apply W_simple_losses|reflexivity|reflexivity|reflexivity|].
    intros s n. cbn [wn is_nil W_simple]. unfold s_wn. cbn [S.norm]. destruct (S.time_zero s n) eqn:E; cbn [S.norm]; rewrite ?E; reflexivity.
Qed.

(* ---- msgpack ---- *)
Lemma msgpack_same : forall (Of : M.eopts) (D : M.dopts) (O O' : gopts) (pi : order) (t : ty) (v : gv),
  order_ok pi -> wt t v = true -> supported t = true ->
  leaves_ok (W_msgpack Of D) (to_item O pi v) = true ->
  (Z.of_nat (depth (to_item O pi v)) < maxdepth O)%Z ->
  let g := wn (W_msgpack Of D) (to_item O pi v) in
  plainb g = true /\ reenc O' g = g /\
  of_item (W_msgpack Of D) O 0 t (wn (W_msgpack Of D) (reenc O' g)) = Ok (normL exact_losses O (arrange O pi v)) /\
  veq (normL exact_losses O (arrange O pi v)) (normL exact_losses O v).
Proof.
  intros Of D O O' pi t v. apply (same_concrete (W_msgpack Of D) (W_msgpack Of D) exact_losses).
  - apply keeps_keeps_on, msgpack_keeps.
  - apply (self_losses (W_msgpack Of D) (leaf_ok (W_msgpack Of D))); [apply W_msgpack_losses|reflexivity|reflexivity|reflexivity|].
    intros s n. cbn [wn W_msgpack]. unfold m_wn. rewrite m_time_idem. reflexivity.
Qed.

(* ---- binc ---- *)
Lemma binc_same : forall (e : B.eopts) (d : B.dopts) (O O' : gopts) (pi : order) (t : ty) (v : gv),
  order_ok pi -> wt t v = true -> supported t = true ->
  leaves_ok (W_binc e d) (to_item O pi v) = true ->
  (Z.of_nat (depth (to_item O pi v)) < maxdepth O)%Z ->
  let g := wn (W_binc e d) (to_item O pi v) in
  plainb g = true /\ reenc O' g = g /\
  of_item (W_binc e d) O 0 t (wn (W_binc e d) (reenc O' g)) = Ok (normL binc_losses O (arrange O pi v)) /\
  veq (normL binc_losses O (arrange O pi v)) (normL binc_losses O v).
Proof.
  intros e d O O' pi t v. apply (same_concrete (W_binc e d) (W_binc e d) binc_losses).
  - apply keeps_keeps_on, binc_keeps.
  - apply (self_losses (W_binc e d) (leaf_ok (W_binc e d))); [apply W_binc_losses|exact binc_fn32_idem|exact binc_fn64_idem|reflexivity|].
    intros s n. cbn [wn W_binc]. unfold b_wn. cbn [B.norm].
    destruct ((s =? B.zero_time_sec)%Z && (n =? 0)%N) eqn:E; cbn [B.norm]; rewrite ?E; reflexivity.
Qed.

(* ---- cbor (tag-1 record: zero times only) ---- *)
Lemma cbor_same : forall (Oc : CB.eopts) (D : CB.dopts) (O O' : gopts) (pi : order) (t : ty) (v : gv),
  order_ok pi -> wt t v = true -> supported t = true ->
  leaves_ok (W_cbor Oc D) (to_item O pi v) = true ->
  (Z.of_nat (depth (to_item O pi v)) < maxdepth O)%Z ->
  let g := wn (W_cbor Oc D) (to_item O pi v) in
  plainb g = true /\ reenc O' g = g /\
  of_item (W_cbor Oc D) O 0 t (wn (W_cbor Oc D) (reenc O' g)) = Ok (normL cbor_losses O (arrange O pi v)) /\
  veq (normL cbor_losses O (arrange O pi v)) (normL cbor_losses O v).
Proof.
  intros Oc D O O' pi t v. apply (same_concrete (W_cbor Oc D) (W_cbor Oc D) cbor_losses).
  - apply cbor_keeps_on.
  - apply (self_losses (W_cbor Oc D) (leaf_ok (W_cbor Oc D))); [apply W_cbor_losses|reflexivity|reflexivity|exact round_us_idem|].
    intros s n. cbn [wn is_nil W_cbor]. unfold c_wn, CE.norm. cbn [CE.sdata_of].
    destruct ((s =? CB.zero_time_sec)%Z && (n =? 0)%N); [reflexivity|].
    destruct (CB.eo_rfc3339 Oc).
    + cbn [CC.go_of]. change (0 =? 55799)%N with false. cbn [orb]. destruct (CB.do_skiptags D) eqn:Sk.
      * destruct (CB.eo_str2raw Oc) eqn:S2; cbn [CE.sdata_of]; rewrite ?S2; cbn [CC.go_of]; [|reflexivity].
        destruct (CB.do_raw2str D); cbn [CE.sdata_of]; rewrite ?S2; cbn [CC.go_of]; [|reflexivity]. destruct (CB.do_raw2str D); reflexivity.
      * cbn [CE.sdata_of CC.go_of]. change (0 =? 55799)%N with false. cbn [orb]. rewrite Sk. reflexivity.
    + destruct (CB.round_us s n) as [s1 n1]. cbn [CC.go_of]. change (1 =? 55799)%N with false. cbn [orb].
      destruct (CB.do_skiptags D) eqn:Sk.
      * destruct (n1 =? 0)%N.
        -- change (CC.go_of D (CE.int_data s1)) with (CE.norm Oc D (IInt s1)).
           change (CC.go_of D (CE.sdata_of Oc (CE.norm Oc D (IInt s1)))) with (CE.norm Oc D (CE.norm Oc D (IInt s1))).
           rewrite (proj1 (c_norm_idem_scalar Oc D (IInt s1) I)). reflexivity.
        -- cbn [CC.go_of]. change (64 =? 16)%N with false. change (64 =? 32)%N with false. cbv iota. reflexivity.
      * cbn [CE.sdata_of CC.go_of]. change (1 =? 55799)%N with false. cbn [orb]. rewrite Sk. reflexivity.
Qed.

(* ---- cbor with TimeRFC3339 (every time of a year 0..9999) ----
   The losses of the two passes: time to the microsecond (rounding twice = rounding once), and an instant that
   ROUNDS to the zero time is written as nil by the second pass (it is the zero time in the tree): a pointer to
   it comes back nil.  cbor_losses says so only of the zero time itself; [cbor_t_losses] is the exact statement. *)
Definition cbor_t_losses : losses :=
  mklosses (fun b => b) (fun b => b) round_us (fun s n => let sn := round_us s n in is_time_zero (fst sn) (snd sn)).

Lemma cbor_t_self_losses : forall Oc D,
  same_losses (losses_of (compose_wire (W_cbor_t Oc D) (W_cbor_t Oc D))) cbor_t_losses.
Proof.
  intros Oc D. repeat apply conj; cbn [losses_of cbor_t_losses l_fn32 l_fn64 l_tnorm l_tnil fn32 fn64 tnorm wn is_nil compose_wire W_cbor_t]; try reflexivity.
  - intros s n. apply round_us_idem.
  - intros s n. cbn [c_wn_t]. destruct (is_time_zero s n) eqn:E.
    + unfold is_time_zero in E. apply andb_true_iff in E. destruct E as [E1 E2]. apply Z.eqb_eq in E1. apply N.eqb_eq in E2. subst.
      vm_compute. reflexivity.
    + cbv zeta. destruct (round_us s n) as [s1 n1]. cbn [fst snd c_wn_t]. destruct (is_time_zero s1 n1); [reflexivity|].
      cbv zeta. reflexivity.
Qed.

Lemma cbor_t_same : forall (Oc : CB.eopts) (D : CB.dopts) (O O' : gopts) (pi : order) (t : ty) (v : gv),
  order_ok pi -> wt t v = true -> supported t = true ->
  leaves_ok (W_cbor_t Oc D) (to_item O pi v) = true ->
  (Z.of_nat (depth (to_item O pi v)) < maxdepth O)%Z ->
  let g := wn (W_cbor_t Oc D) (to_item O pi v) in
  plainb g = true /\ reenc O' g = g /\
  of_item (W_cbor_t Oc D) O 0 t (wn (W_cbor_t Oc D) (reenc O' g)) = Ok (normL cbor_t_losses O (arrange O pi v)) /\
  veq (normL cbor_t_losses O (arrange O pi v)) (normL cbor_t_losses O v).
Proof.
  intros Oc D O O' pi t v. apply (same_concrete (W_cbor_t Oc D) (W_cbor_t Oc D) cbor_t_losses).
  - apply keeps_keeps_on, cbor_t_keeps.
  - apply cbor_t_self_losses.
Qed.

(* ================================================================== *)
(* the tree [g] of the statements above IS what the schema-less decode of the first pass's bytes returns
   (C15/Model.v [naked_run]: decoder model on the encoder model's output) -- corollaries of the C01
   byte-level compositions, under their premises *)
Lemma simple_tree : forall (o : S.eopts) (D : S.dopts) (O : gopts) (pi : order) (t : ty) (v : gv),
  order_ok pi -> wt t v = true -> supported t = true ->
  S.maxDepthOpt D = max_depth O -> swfb o D (to_item O pi v) = true ->
  leaves_ok (W_simple o D) (to_item O pi v) = true ->
  (Z.of_nat (depth (to_item O pi v)) < maxdepth O)%Z ->
  naked_run (FSimple o D) (to_item O pi v) = Ok (wn (W_simple o D) (to_item O pi v)).
Proof.
  intros o D O pi t v Hpi Hwt Hs HD Hswf Hl Hd.
  destruct (simple_compose o D O pi t v [] Hpi Hwt Hs HD Hswf Hl Hd) as [H _].
  rewrite app_nil_r in H. unfold naked_run. rewrite H. reflexivity.
Qed.

Lemma msgpack_tree : forall (Of : M.eopts) (D : M.dopts) (O : gopts) (pi : order) (t : ty) (v : gv),
  order_ok pi -> wt t v = true -> supported t = true ->
  M.d_maxdepth D = max_depth O -> supportedb (to_item O pi v) = true ->
  leaves_ok (W_msgpack Of D) (to_item O pi v) = true ->
  (Z.of_nat (depth (to_item O pi v)) < maxdepth O)%Z ->
  (M.len (M.enc Of (to_item O pi v)) < 2 ^ 63)%N ->
  naked_run (FMsgpack Of D) (to_item O pi v) = Ok (wn (W_msgpack Of D) (to_item O pi v)).
Proof.
  intros Of D O pi t v Hpi Hwt Hs HD Hsup Hl Hd Hlen.
  destruct (msgpack_compose Of D O pi t v [] Hpi Hwt Hs HD Hsup Hl Hd ltac:(rewrite app_nil_r; exact Hlen)) as [H _].
  rewrite app_nil_r in H. unfold naked_run. rewrite H. reflexivity.
Qed.

Lemma binc_tree : forall (e : B.eopts) (d : B.dopts) (O : gopts) (pi : order) (t : ty) (v : gv),
  order_ok pi -> wt t v = true -> supported t = true ->
  Z.of_N (B.maxdepth d) = maxdepth O -> wfbb e d (to_item O pi v) = true ->
  leaves_ok (W_binc e d) (to_item O pi v) = true ->
  (Z.of_nat (depth (to_item O pi v)) < maxdepth O)%Z ->
  naked_run (FBinc e d) (to_item O pi v) = Ok (wn (W_binc e d) (to_item O pi v)).
Proof.
  intros e d O pi t v Hpi Hwt Hs HD Hwf Hl Hd.
  destruct (binc_compose e d O pi t v B.estate0 B.dstate0 [] Hpi Hwt Hs HD Wire.BincProofs.R_init Hwf Hl Hd) as [[dst' [H _]] _].
  rewrite app_nil_r in H. unfold naked_run. rewrite H. reflexivity.
Qed.

Lemma cbor_tree : forall (Oc : CB.eopts) (D : CB.dopts) (O : gopts) (pi : order) (t : ty) (v : gv),
  order_ok pi -> wt t v = true -> supported t = true ->
  wf (to_item O pi v) -> CC.plain (to_item O pi v) ->
  CC.lib_supports D (CC.tree_of Oc (to_item O pi v)) ->
  (CC.tdepth D (CC.tree_of Oc (to_item O pi v)) < CB.maxdepth D)%Z ->
  leaves_ok (W_cbor Oc D) (to_item O pi v) = true ->
  (Z.of_nat (depth (to_item O pi v)) < maxdepth O)%Z ->
  naked_run (FCbor Oc D) (to_item O pi v) = Ok (wn (W_cbor Oc D) (to_item O pi v)).
Proof.
  intros Oc D O pi t v Hpi Hwt Hs Hwf Hpl Hsup Htd Hl Hd.
  destruct (cbor_compose_partial Oc D O pi t v [] Hpi Hwt Hs Hwf Hpl Hsup Htd Hl Hd) as [H _].
  rewrite app_nil_r in H. unfold naked_run. rewrite H. reflexivity.
Qed.

Lemma cbor_t_tree : forall (Oc : CB.eopts) (D : CB.dopts) (O : gopts) (pi : order) (t : ty) (v : gv),
  CB.eo_rfc3339 Oc = true ->
  order_ok pi -> wt t v = true -> supported t = true ->
  wf (to_item O pi v) -> CC.plain (to_item O pi v) ->
  CC.lib_supports_t D (CC.tree_of Oc (to_item O pi v)) ->
  (CC.tdepth_t D (CC.tree_of Oc (to_item O pi v)) < CB.maxdepth D)%Z ->
  leaves_ok (W_cbor_t Oc D) (to_item O pi v) = true ->
  (Z.of_nat (depth (to_item O pi v)) < maxdepth O)%Z ->
  naked_run (FCbor Oc D) (to_item O pi v) = Ok (wn (W_cbor_t Oc D) (to_item O pi v)).
Proof.
  intros Oc D O pi t v Hr Hpi Hwt Hs Hwf Hpl Hsup Htd Hl Hd.
  destruct (cbor_rfc3339_compose Oc D O pi t v [] Hr Hpi Hwt Hs Hwf Hpl Hsup Htd Hl Hd) as [H _].
  rewrite app_nil_r in H. unfold naked_run. rewrite H. reflexivity.
Qed.

(* C15/Cross — cross-format transcoding F -> tree -> G (G <> F, or another handle of the same
   format): the side condition of C15_same_generic_partial PROVED for every ordered pair of the
   concrete driver records of C01 (simple, msgpack, binc, cbor tag-1, cbor TimeRFC3339), under a
   stated, decidable leaf premise.

   Method.  Every record is a "standard" driver ([std_wire]: the typed reads of the four binary
   drivers are the same functions of the item).  Per record, once:
     [src_ok]  what its TREE holds for a supported leaf, in normal form: an integer as an int64 or
               uint64 item denoting it ([int_form]), a float32 as the float64 item it widens to, a
               float64 as itself (up to the record's documented float loss), a string as a string
               or []byte item with the same bytes;
     [dst_ok]  what it reads back when such a normal-form item is written through it.
   [wire_ok_cross] composes any source with any destination.  Leaf premise of the pair
   ([cross_leaf W1 W2]): the source's own leaf premise, the destination's leaf premise on what the
   tree holds (value and key position), and a time must be a time (or nil) in the tree -- which
   excludes msgpack without WriteExt as a SOURCE of non-zero times (there a time is a raw byte
   string that only msgpack's DecodeTime reads back), and as destination cbor's tag-1 record of
   non-zero times. *)
From Coq Require Import List NArith ZArith Bool Lia Permutation.
From Coq Require Import ZifyN ZifyNat ZifyBool.
From Verif Require Import Base.Outcome Gen.Consts Wire.Item Generic.Types Generic.Enc Generic.Dec.
From Verif Require Import C01.Model C01.Proofs C01.ComposeFloat C01.ComposeSimple C01.ComposeMsgpack C01.ComposeCbor C01.ComposeCborTime C01.ComposeBinc.
From Verif Require Import C01.ComposeTyped C01.TypedCbor C01.TypedBinc C01.TypedF32.
From Verif Require Import C11.Corr C15.Model C15.Proofs C15.Concrete.
From Verif Require Wire.Simple Wire.Msgpack Wire.MsgpackRT Wire.Cbor Wire.CborEnc C10.CborSpec C10.CborConv Wire.CborTime Wire.Binc.
Import ListNotations.
Open Scope bool_scope.

Ltac Zify.zify_post_hook ::= Z.div_mod_to_equations.

(* ---- the typed reads of a binary driver record, as functions of a normal-form item ---- *)
Record std_wire (W : wire) : Prop := {
  sw_reads : std_reads W;
  sw_bool : forall b, rd_bool W (IBool b) = Ok b;
  sw_f64 : forall x, rd_f64 W (IF64 x) = Ok x;
  sw_f32 : forall x, rd_f32 W (IF64 x) = unwiden x;
  sw_str : forall s, rd_str W (IStr s) = Ok s /\ rd_str W (IBytes s) = Ok s;
  sw_bytes : forall s, rd_bytes W (IStr s) = Ok s /\ rd_bytes W (IBytes s) = Ok s;
  sw_time : forall s n, rd_time W (ITime s n) = Ok (s, n);
  sw_tzero : tnorm W time_zero_sec 0%N = (time_zero_sec, 0%N);
  sw_tn : forall s n, (n < 1000000000)%N -> (snd (tnorm W s n) < 1000000000)%N;
  (* the documented float loss acts on a float32 as on the float64 it widens to *)
  sw_unw : forall x b, (x < 2 ^ 64)%N -> unwiden x = Ok b -> unwiden (fn64 W x) = Ok (fn32 W b)
}.

Definition raw_of (s : list N) (j : item) : Prop := j = IStr s \/ j = IBytes s.

(* what the tree holds for a leaf [L] admits, in value ([f] = wn) or key ([f] = wnk) position *)
Record src_ok (W : wire) (L : item -> bool) (f : item -> item) : Prop := {
  r_nil : f INil = INil;
  r_bool : forall b, L (IBool b) = true -> f (IBool b) = IBool b;
  r_int : forall z, L (IInt z) = true -> (- 2 ^ 63 <= z < 2 ^ 63)%Z -> int_form z (f (IInt z));
  r_uint : forall n, L (IUint n) = true -> (n < 2 ^ 64)%N -> int_form (Z.of_N n) (f (IUint n));
  r_f32 : forall b, L (IF32 b) = true -> (b < 2 ^ 32)%N ->
          exists x, f (IF32 b) = IF64 x /\ (x < 2 ^ 64)%N /\ unwiden x = Ok (fn32 W b);
  r_f64 : forall b, L (IF64 b) = true -> (b < 2 ^ 64)%N -> f (IF64 b) = IF64 (fn64 W b) /\ (fn64 W b < 2 ^ 64)%N;
  r_str : forall s, L (IStr s) = true -> raw_of s (f (IStr s));
  r_bytes : forall s, L (IBytes s) = true -> raw_of s (f (IBytes s))
}.

(* what comes back when a normal-form leaf is written through the record *)
Record dst_ok (W : wire) (f : item -> item) : Prop := {
  d_nil : f INil = INil;
  d_bool : forall b, leaf_ok W (IBool b) = true -> f (IBool b) = IBool b;
  d_num : forall z j, int_form z j -> leaf_ok W j = true -> int_form z (f j);
  d_f64 : forall x, leaf_ok W (IF64 x) = true -> (x < 2 ^ 64)%N -> f (IF64 x) = IF64 (fn64 W x);
  d_str : forall s j, raw_of s j -> leaf_ok W j = true -> raw_of s (f j)
}.

Open Scope Z_scope.

Lemma rd_int_form : forall W z j, std_reads W -> int_form z j -> - 2 ^ 63 <= z < 2 ^ 63 ->
  is_nil W j = false /\ rd_int W j = Ok z.
Proof.
  intros W z j (Hn & Hii & Hiu & Huu & Hui) Hf Hz. rewrite Hn.
  destruct Hf as [[-> _] | [-> Hx]]; cbn [item_is_nil]; (split; [reflexivity|]).
  - apply Hii.
  - rewrite Hiu. destruct (N.ltb_spec (Z.to_N z) (2 ^ 63)) as [H|H]; [rewrite Z2N.id by lia; reflexivity|].
    exfalso. change (2 ^ 63)%N with 9223372036854775808%N in H. zpows. lia.
Qed.

Lemma rd_uint_form : forall W z j, std_reads W -> int_form z j -> 0 <= z < 2 ^ 64 ->
  is_nil W j = false /\ rd_uint W j = Ok (Z.to_N z).
Proof.
  intros W z j (Hn & Hii & Hiu & Huu & Hui) Hf Hz. rewrite Hn.
  destruct Hf as [[-> _] | [-> Hx]]; cbn [item_is_nil]; (split; [reflexivity|]).
  - rewrite Hui. destruct (Z.leb_spec 0 z); [reflexivity|lia].
  - apply Huu.
Qed.

Lemma raw_not_nil : forall s j, raw_of s j -> item_is_nil j = false.
Proof. intros s j [-> | ->]; reflexivity. Qed.

(* a normal-form leaf is itself a leaf the encoder can be handed: what comes back for it is [src_ok]'s business *)
Lemma dst_of_src : forall W f, src_ok W (leaf_ok W) f -> dst_ok W f.
Proof.
  intros W f R. constructor.
  - exact (r_nil _ _ _ R).
  - exact (r_bool _ _ _ R).
  - intros z j [[-> Hz] | [-> Hz]] Hl.
    + exact (r_int _ _ _ R z Hl Hz).
    + pose proof (r_uint _ _ _ R (Z.to_N z) Hl ltac:(change (2 ^ 64)%N with 18446744073709551616%N; zpows; lia)) as F.
      rewrite Z2N.id in F by lia. exact F.
  - intros x Hl Hx. exact (proj1 (r_f64 _ _ _ R x Hl Hx)).
  - intros s j [-> | ->] Hl; [exact (r_str _ _ _ R s Hl)|exact (r_bytes _ _ _ R s Hl)].
Qed.

(* ---- the leaf premise of a pair ---- *)
Definition tshape (W1 : wire) (i : item) : bool :=
  match i with
  | ITime _ _ => match wn W1 i with INil | ITime _ _ => true | _ => false end
  | _ => true
  end.

Definition cross_leaf (W1 W2 : wire) (i : item) : bool :=
  leaf_ok W1 i && leaf_ok W2 (wn W1 i) && leaf_ok W2 (wnk W1 i) && tshape W1 i.

Section Cross.
  Variables W1 W2 : wire.
  Hypothesis H1 : wire_ok W1.
  Hypothesis H2 : wire_ok W2.
  Hypothesis S1 : std_wire W1.
  Hypothesis S2 : std_wire W2.
  Let L := cross_leaf W1 W2.

  Lemma L_1 : forall i, L i = true -> leaf_ok W1 i = true.
  Proof. intros i H. unfold L, cross_leaf in H. repeat (apply andb_true_iff in H; destruct H as [H ?]). exact H. Qed.
  Lemma L_2v : forall i, L i = true -> leaf_ok W2 (wn W1 i) = true.
  Proof. intros i H. unfold L, cross_leaf in H. repeat (apply andb_true_iff in H; destruct H as [H ?]). assumption. Qed.
  Lemma L_2k : forall i, L i = true -> leaf_ok W2 (wnk W1 i) = true.
  Proof. intros i H. unfold L, cross_leaf in H. repeat (apply andb_true_iff in H; destruct H as [H ?]). assumption. Qed.
  Lemma L_t : forall i, L i = true -> tshape W1 i = true.
  Proof. intros i H. unfold L, cross_leaf in H. repeat (apply andb_true_iff in H; destruct H as [H ?]). assumption. Qed.

  Lemma scalar_cross : forall f1 f2,
    src_ok W1 (leaf_ok W1) f1 -> dst_ok W2 f2 -> (forall i, L i = true -> leaf_ok W2 (f1 i) = true) ->
    scalar_ok (compose_wire (with_leaf W1 L) W2) (fun i => f2 (f1 i)).
  Proof.
    intros f1 f2 R D HL2. pose proof (sw_reads _ S2) as SR. pose proof SR as (Hn & _).
    constructor; cbn [is_nil rd_bool rd_int rd_uint rd_f32 rd_f64 rd_str fn32 fn64 leaf_ok compose_wire with_leaf].
    - rewrite (r_nil _ _ _ R), (d_nil _ _ D). rewrite Hn. reflexivity.
    - intros b Hl. rewrite (r_bool _ _ _ R b (L_1 _ Hl)).
      pose proof (HL2 _ Hl) as Hl2. rewrite (r_bool _ _ _ R b (L_1 _ Hl)) in Hl2.
      rewrite (d_bool _ _ D b Hl2). rewrite Hn. split; [reflexivity|apply (sw_bool _ S2)].
    - intros z Hl Hz. pose proof (r_int _ _ _ R z (L_1 _ Hl) Hz) as F1.
      pose proof (d_num _ _ D z _ F1 (HL2 _ Hl)) as F2. exact (rd_int_form W2 z _ SR F2 Hz).
    - intros n Hl Hn'. pose proof (r_uint _ _ _ R n (L_1 _ Hl) Hn') as F1.
      pose proof (d_num _ _ D _ _ F1 (HL2 _ Hl)) as F2.
      assert (Hz : 0 <= Z.of_N n < 2 ^ 64) by (change (2 ^ 64)%N with 18446744073709551616%N in Hn'; zpows; lia).
      destruct (rd_uint_form W2 _ _ SR F2 Hz) as [A B]. rewrite N2Z.id in B. split; assumption.
    - intros b Hl Hb. destruct (r_f32 _ _ _ R b (L_1 _ Hl) Hb) as (x & E & Hx & Hu).
      pose proof (HL2 _ Hl) as Hl2. rewrite E in *. rewrite (d_f64 _ _ D x Hl2 Hx). rewrite Hn. split; [reflexivity|].
      rewrite (sw_f32 _ S2). exact (sw_unw _ S2 x _ Hx Hu).
    - intros b Hl Hb. destruct (r_f64 _ _ _ R b (L_1 _ Hl) Hb) as (E & Hx).
      pose proof (HL2 _ Hl) as Hl2. rewrite E in *. rewrite (d_f64 _ _ D _ Hl2 Hx). rewrite Hn. split; [reflexivity|apply (sw_f64 _ S2)].
    - intros s Hl _. pose proof (r_str _ _ _ R s (L_1 _ Hl)) as F1. pose proof (d_str _ _ D s _ F1 (HL2 _ Hl)) as F2.
      rewrite Hn. split; [exact (raw_not_nil _ _ F2)|]. destruct F2 as [-> | ->]; apply (sw_str _ S2).
  Qed.

  Hypothesis Rv : src_ok W1 (leaf_ok W1) (wn W1).
  Hypothesis Rk : src_ok W1 (leaf_ok W1) (wnk W1).
  Hypothesis Dv : dst_ok W2 (wn W2).
  Hypothesis Dk : dst_ok W2 (wnk W2).

  Lemma wire_ok_cross : wire_ok (compose_wire (with_leaf W1 L) W2).
  Proof.
    pose proof (sw_reads _ S2) as (Hn2 & _). pose proof (sw_reads _ S1) as (Hn1 & _).
    constructor.
    - exact (scalar_cross _ _ Rv Dv L_2v).
    - exact (scalar_cross _ _ Rk Dk L_2k).
    - intros b Hl Hb. cbn [wn is_nil rd_bytes leaf_ok compose_wire with_leaf] in *.
      pose proof (r_bytes _ _ _ Rv b (L_1 _ Hl)) as F1. pose proof (d_str _ _ Dv b _ F1 (L_2v _ Hl)) as F2.
      rewrite Hn2. split; [exact (raw_not_nil _ _ F2)|]. destruct F2 as [-> | ->]; apply (sw_bytes _ S2).
    - intros s n Hl Hn. cbn [wn is_nil rd_time tnorm leaf_ok compose_wire with_leaf] in *.
      pose proof (w_time _ H1 s n (L_1 _ Hl) Hn) as T1. pose proof (L_t _ Hl) as Sh. pose proof (L_2v _ Hl) as Hl2.
      cbn [tshape] in Sh. rewrite Hn1 in T1. destruct (wn W1 (ITime s n)) eqn:E; try discriminate Sh; cbn [item_is_nil] in T1.
      + (* nil in the tree *)
        rewrite (d_nil _ _ Dv). rewrite Hn2. cbn [item_is_nil]. rewrite T1. cbn [fst snd]. exact (sw_tzero _ S2).
      + (* a time in the tree: the second record's own obligation on it *)
        rewrite (sw_time _ S1) in T1. inversion T1 as [T1']. cbn [fst snd].
        assert (Hn' : (nsec < 1000000000)%N).
        { pose proof (sw_tn _ S1 s n Hn) as B. rewrite <- T1' in B. exact B. }
        exact (w_time _ H2 sec nsec Hl2 Hn').
    - intro l. cbn [wn compose_wire with_leaf]. rewrite (w_arr _ H1), (w_arr _ H2), map_map. reflexivity.
    - intro l. cbn [wn wnk compose_wire with_leaf]. rewrite (w_map _ H1), (w_map _ H2), map_map. reflexivity.
    - exact (w_arr_nn _ H2).
    - exact (w_map_nn _ H2).
    - intro b. cbn [fn32 compose_wire with_leaf]. rewrite (w_fn32_nan _ H2), (w_fn32_nan _ H1). reflexivity.
    - intro b. cbn [fn64 compose_wire with_leaf]. rewrite (w_fn64_nan _ H2), (w_fn64_nan _ H1). reflexivity.
    - intros a b Ha Hb. cbn [fn32 compose_wire with_leaf].
      rewrite (w_fn32_eq _ H2) by (rewrite (w_fn32_nan _ H1); assumption). exact (w_fn32_eq _ H1 a b Ha Hb).
    - intros a b Ha Hb. cbn [fn64 compose_wire with_leaf].
      rewrite (w_fn64_eq _ H2) by (rewrite (w_fn64_nan _ H1); assumption). exact (w_fn64_eq _ H1 a b Ha Hb).
  Qed.
End Cross.

(* ================================================================== *)
(* the five driver records *)
Lemma widen_c_lt : forall b, (b < 2 ^ 32)%N -> (widen_c b < 2 ^ 64)%N.
Proof. intros b Hb. exact (proj1 (widen_c_abs b Hb)). Qed.

Lemma round_us_nsec : forall s n, (n < 1000000000)%N -> (snd (round_us s n) < 1000000000)%N.
Proof.
  intros s n Hn. unfold round_us. destruct (N.eqb_spec ((n + 500) / 1000) 1000000); cbn [snd]; lia.
Qed.

(* ---- simple ---- *)
Section SimpleI.
  Variable o : S.eopts.
  Variable D : S.dopts.

  Lemma s_std : std_wire (W_simple o D).
  Proof.
    constructor; try (intros; reflexivity); try (intros; split; reflexivity).
    - apply s_std_reads.
    - intros s n H. exact H.
    - intros x b _ H. exact H.
  Qed.

  Lemma s_src : forall key : bool,
    src_ok (W_simple o D) (leaf_ok (W_simple o D)) (fun i => if key then S.key_conv (S.norm o D true i) else S.norm o D false i).
  Proof.
    intro key.
    assert (Hzn : forall c, S.zeroAsNil o && c = false -> S.zeroAsNil o && negb key && c = false).
    { intros c H. destruct (S.zeroAsNil o); [|reflexivity]. cbn [andb] in *. rewrite H. apply andb_false_r. }
    assert (Hk : forall i, match i with IBytes _ => False | _ => True end ->
                (if key then S.key_conv (S.norm o D true i) else S.norm o D false i) = S.norm o D key i \/
                exists s, S.norm o D key i = IBytes s).
    { intros i _. destruct key; [|left; reflexivity]. destruct (S.norm o D true i) eqn:E; try (left; reflexivity). right. eexists; reflexivity. }
    constructor; cbn [leaf_ok W_simple s_leaf_ok fn32 fn64].
    - destruct key; reflexivity.
    - intros b Hl. apply negb_true_iff in Hl.
      assert (E : S.norm o D key (IBool b) = IBool b) by (cbn [S.norm]; rewrite (Hzn _ Hl); reflexivity).
      destruct key; rewrite E; reflexivity.
    - intros z Hl Hz. apply negb_true_iff in Hl.
      assert (F : int_form z (S.norm o D key (IInt z))).
      { cbn [S.norm]. unfold int_form. destruct (Z.ltb_spec z 0); [left; split; [reflexivity|exact Hz]|]. unfold S.norm_pos.
        assert (E : S.zeroAsNil o && negb key && (Z.to_N z =? 0)%N = false).
        { apply Hzn. destruct (S.zeroAsNil o); [|reflexivity]. cbn [andb] in *.
          destruct (Z.eqb_spec z 0); [discriminate|]. destruct (N.eqb_spec (Z.to_N z) 0); [lia|reflexivity]. }
        rewrite E. destruct (S.signedInteger D).
        - left. rewrite to_i64_small by (change (2 ^ 63)%N with 9223372036854775808%N; zpows; lia). rewrite Z2N.id by lia. split; [reflexivity|exact Hz].
        - right. split; [reflexivity|zpows; lia]. }
      destruct key; [|exact F]. destruct F as [[E H]|[E H]]; rewrite E; [left|right]; split; try reflexivity; exact H.
    - intros n Hl Hn. apply andb_true_iff in Hl. destruct Hl as [H1 H2]. apply negb_true_iff in H1.
      assert (F : int_form (Z.of_N n) (S.norm o D key (IUint n))).
      { cbn [S.norm]. unfold int_form, S.norm_pos. rewrite (Hzn _ H1). destruct (S.signedInteger D).
        - cbn [negb orb] in H2. apply N.ltb_lt in H2. rewrite to_i64_small by exact H2. left. split; [reflexivity|].
          change (2 ^ 63)%N with 9223372036854775808%N in H2. zpows. lia.
        - right. rewrite N2Z.id. split; [reflexivity|]. change (2 ^ 64)%N with 18446744073709551616%N in Hn. zpows. lia. }
      destruct key; [|exact F]. destruct F as [[E H]|[E H]]; rewrite E; [left|right]; split; try reflexivity; exact H.
    - intros b Hl Hb. apply andb_true_iff in Hl. destruct Hl as [H1 H2]. apply negb_true_iff in H1. apply negb_true_iff in H2.
      exists (widen_c b).
      assert (E : S.norm o D key (IF32 b) = IF64 (widen_c b)) by (cbn [S.norm]; rewrite (Hzn _ H1); rewrite simple_widen by exact Hb; reflexivity).
      split; [destruct key; rewrite E; reflexivity|]. split; [apply widen_c_lt; exact Hb|apply unwiden_widen; assumption].
    - intros b Hl Hb. apply negb_true_iff in Hl.
      assert (E : S.norm o D key (IF64 b) = IF64 b) by (cbn [S.norm]; rewrite (Hzn _ Hl); reflexivity).
      split; [destruct key; rewrite E; reflexivity|exact Hb].
    - intros s Hl. apply negb_true_iff in Hl. unfold raw_of.
      assert (E : S.norm o D key (IStr s) = IStr s \/ S.norm o D key (IStr s) = IBytes s).
      { cbn [S.norm]. rewrite (Hzn _ Hl). destruct (S.stringToRaw o); [unfold S.bytes_item; destruct (S.rawToString D)|]; auto. }
      destruct key; [|exact E]. destruct E as [E|E]; rewrite E; left; reflexivity.
    - intros s _. unfold raw_of. cbn [S.norm]. unfold S.bytes_item. destruct key; destruct (S.rawToString D); cbn [S.key_conv]; auto.
  Qed.
End SimpleI.

(* ---- msgpack ---- *)
Section MsgpackI.
  Variable Of : M.eopts.
  Variable D : M.dopts.

  Lemma m_std : std_wire (W_msgpack Of D).
  Proof.
    constructor; try (intros; reflexivity); try (intros; split; reflexivity).
    - apply mp_std_reads.
    - intros s n H. exact H.
    - intros x b _ H. exact H.
  Qed.

  Lemma m_src : forall key : bool,
    src_ok (W_msgpack Of D) (leaf_ok (W_msgpack Of D)) (fun i => if key then M.key_fix (MR.norm Of D i) else MR.norm Of D i).
  Proof.
    intro key.
    assert (KF : forall z j, int_form z j -> int_form z (if key then M.key_fix j else j)).
    { intros z j F. destruct key; [|exact F]. destruct F as [[-> H]|[-> H]]; [left|right]; split; try reflexivity; exact H. }
    constructor; cbn [leaf_ok W_msgpack m_leaf_ok fn32 fn64].
    - destruct key; reflexivity.
    - intros b _. destruct key; reflexivity.
    - intros z _ Hz. apply KF. exact (mp_wn_int Of D z Hz).
    - intros n Hl Hn. apply KF. exact (mp_wn_uint Of D n Hn Hl).
    - intros b Hl Hb. apply negb_true_iff in Hl. exists (widen_c b). cbn [MR.norm]. rewrite msgpack_widen by exact Hb.
      split; [destruct key; reflexivity|]. split; [apply widen_c_lt; exact Hb|apply unwiden_widen; assumption].
    - intros b _ Hb. split; [destruct key; reflexivity|exact Hb].
    - intros s _. unfold raw_of. cbn [MR.norm]. unfold M.mkraw.
      destruct (M.e_writeext Of && M.e_stringtoraw Of); [destruct (M.d_rawtostring D)|destruct (M.d_writeext D || M.d_rawtostring D)];
        destruct key; cbn [M.key_fix]; auto.
    - intros s _. unfold raw_of. cbn [MR.norm]. unfold M.mkraw.
      destruct (M.e_writeext Of); [destruct (M.d_rawtostring D)|destruct (M.d_writeext D || M.d_rawtostring D)];
        destruct key; cbn [M.key_fix]; auto.
  Qed.
End MsgpackI.

(* ---- cbor (both records read and normalise scalars alike) ---- *)
Section CborI.
  Variable Oc : CB.eopts.
  Variable D : CB.dopts.

  Lemma c_std : std_wire (W_cbor Oc D).
  Proof.
    constructor; try (intros; reflexivity); try (intros; split; reflexivity).
    - apply c_std_reads.
    - intros s n H. cbn [tnorm W_cbor]. apply round_us_nsec. exact H.
    - intros x b _ H. exact H.
  Qed.

  Lemma c_t_std : std_wire (W_cbor_t Oc D).
  Proof.
    constructor; try (intros; reflexivity); try (intros; split; reflexivity).
    - repeat apply conj; intros; reflexivity.
    - intros s n H. cbn [tnorm W_cbor_t]. apply round_us_nsec. exact H.
    - intros x b _ H. exact H.
  Qed.

  Lemma c_src_gen : forall (W : wire) (key : bool),
    fn32 W = (fun b => b) -> fn64 W = (fun b => b) ->
    (forall i, leaf_ok W i = true -> match i with IUint _ | IF32 _ => c_leaf_ok D i = true | _ => True end) ->
    src_ok W (leaf_ok W) (fun i => if key then CB.keynorm (CE.norm Oc D i) else CE.norm Oc D i).
  Proof.
    intros W key F32 F64 HL.
    assert (KF : forall z j, int_form z j -> int_form z (if key then CB.keynorm j else j)).
    { intros z j F. destruct key; [|exact F]. destruct F as [[-> H]|[-> H]]; [left|right]; split; try reflexivity; exact H. }
    constructor; rewrite ?F32, ?F64.
    - destruct key; reflexivity.
    - intros b _. destruct key, b; reflexivity.
    - intros z _ Hz. apply KF. exact (c_wn_int Oc D z Hz).
    - intros n Hl Hn. apply KF. exact (c_wn_uint Oc D n Hn (HL _ Hl)).
    - intros b Hl Hb. pose proof (HL _ Hl) as Hl'. cbn [c_leaf_ok] in Hl'. apply negb_true_iff in Hl'. exists (widen_c b).
      assert (E : CE.norm Oc D (IF32 b) = IF64 (widen_c b)).
      { unfold CE.norm. cbn [CE.sdata_of CC.go_of]. change (32 =? 16)%N with false. change (32 =? 32)%N with true. cbv iota.
        rewrite cbor_widen by exact Hb. reflexivity. }
      split; [destruct key; rewrite E; reflexivity|]. split; [apply widen_c_lt; exact Hb|apply unwiden_widen; assumption].
    - intros b _ Hb. split; [destruct key; reflexivity|exact Hb].
    - intros s _. unfold raw_of, CE.norm. cbn [CE.sdata_of]. destruct (CB.eo_str2raw Oc); cbn [CC.go_of]; [destruct (CB.do_raw2str D)|];
        destruct key; cbn [CB.keynorm]; auto.
    - intros s _. unfold raw_of, CE.norm. cbn [CE.sdata_of CC.go_of]. destruct (CB.do_raw2str D); destruct key; cbn [CB.keynorm]; auto.
  Qed.

  Lemma c_src : forall key : bool,
    src_ok (W_cbor Oc D) (leaf_ok (W_cbor Oc D)) (fun i => if key then CB.keynorm (CE.norm Oc D i) else CE.norm Oc D i).
  Proof. intro key. apply c_src_gen; try reflexivity. intros i H. destruct i; try exact I; exact H. Qed.

  Lemma c_t_src_n : forall key : bool,
    src_ok (W_cbor_t Oc D) (leaf_ok (W_cbor_t Oc D)) (fun i => if key then CB.keynorm (CE.norm Oc D i) else CE.norm Oc D i).
  Proof. intro key. apply c_src_gen; try reflexivity. intros i H. destruct i; try exact I; exact H. Qed.

  (* c_wn_t is CE.norm on every scalar leaf *)
  Lemma c_t_src_v : src_ok (W_cbor_t Oc D) (leaf_ok (W_cbor_t Oc D)) (wn (W_cbor_t Oc D)).
  Proof. pose proof (c_t_src_n false) as R. destruct R. constructor; assumption. Qed.
  Lemma c_t_src_k : src_ok (W_cbor_t Oc D) (leaf_ok (W_cbor_t Oc D)) (wnk (W_cbor_t Oc D)).
  Proof. pose proof (c_t_src_n true) as R. destruct R. constructor; assumption. Qed.
End CborI.

(* ---- binc ---- *)
Lemma binc_fn64_lt : forall b, (b < 2 ^ 64)%N -> (binc_fn64 b < 2 ^ 64)%N.
Proof.
  intros b Hb. unfold binc_fn64. destruct (N.eqb (b mod 2 ^ 63) 0); [pows; lia|]. destruct (Types.nan64 b); [pows; lia|exact Hb].
Qed.

(* the documented loss (one zero, one NaN) acts on a float32 as on the float64 it widens to *)
Lemma ok_inj : forall (A : Type) (a b : A), Ok a = Ok b -> a = b.
Proof. intros A a b H. inversion H. reflexivity. Qed.

Lemma unwiden_cases : forall x b, (x < 2 ^ 64)%N -> unwiden x = Ok b ->
  ((x mod 2 ^ 63 = 0 /\ b mod 2 ^ 31 = 0)
   \/ (Types.nan64 x = true /\ Types.nan32 b = true)
   \/ (x mod 2 ^ 63 <> 0 /\ Types.nan64 x = false /\ b mod 2 ^ 31 <> 0 /\ Types.nan32 b = false))%N.
Proof.
  intros x b Hx Hu. unfold unwiden in Hu. unfold Types.nan64, Types.nan32.
  set (s := (x / 2 ^ 63)%N) in *. set (e := ((x / 2 ^ 52) mod 2048)%N) in *. set (m := (x mod 2 ^ 52)%N) in *.
  assert (Hdec : (s <= 1 /\ e < 2048 /\ m < 2 ^ 52 /\ x mod 2 ^ 63 = e * 2 ^ 52 + m)%N).
  { unfold s, e, m. revert Hx. pows. lia. }
  destruct Hdec as (Hs & He & Hm & Habs). rewrite Habs. clearbody s e m. clear Habs Hx x.
  assert (Third : forall q, (0 < q < 2 ^ 31 -> q <= 255 * 2 ^ 23 -> e <= 2046 -> (e =? 0) && (m =? 0) = false ->
     e * 2 ^ 52 + m <> 0 /\ (2047 * 2 ^ 52 <? e * 2 ^ 52 + m) = false /\
     (s * 2 ^ 31 + q) mod 2 ^ 31 <> 0 /\ (255 * 2 ^ 23 <? (s * 2 ^ 31 + q) mod 2 ^ 31) = false)%N).
  { intros q Hq Hq2 He2 Hz.
    replace ((s * 2 ^ 31 + q) mod 2 ^ 31)%N with q by (revert Hq; pows; lia).
    split; [|split; [|split]].
    - intro C. apply andb_false_iff in Hz. destruct Hz as [Hz|Hz]; apply N.eqb_neq in Hz; revert C; pows; lia.
    - apply N.ltb_ge. revert Hm He2. pows. lia.
    - lia.
    - apply N.ltb_ge. exact Hq2. }
  destruct (N.eqb_spec e 2047) as [E|E].
  - subst e. destruct (N.eqb_spec m 0) as [M0|M0].
    + (* infinity *)
      subst m. apply ok_inj in Hu; subst b. right. right.
      replace ((s * 2 ^ 31 + 255 * 2 ^ 23) mod 2 ^ 31)%N with (255 * 2 ^ 23)%N by (pows; lia).
      split; [pows; lia|]. split; [apply N.ltb_ge; lia|]. split; [pows; lia|apply N.ltb_ge; lia].
    + (* NaN *)
      right. left. apply ok_inj in Hu; subst b.
      set (p := ((m / 2 ^ 29) mod 2 ^ 22)%N). assert (Hp : (p < 2 ^ 22)%N) by (unfold p; pows; lia). clearbody p.
      replace ((s * 2 ^ 31 + 255 * 2 ^ 23 + 2 ^ 22 + p) mod 2 ^ 31)%N with (255 * 2 ^ 23 + 2 ^ 22 + p)%N by (revert Hp; pows; lia).
      split; apply N.ltb_lt; revert Hm Hp; pows; lia.
  - destruct ((e =? 0)%N && (m =? 0)%N) eqn:Z0.
    + (* a zero *)
      apply andb_true_iff in Z0. destruct Z0 as [Z1 Z2]. apply N.eqb_eq in Z1. apply N.eqb_eq in Z2. subst e m.
      apply ok_inj in Hu; subst b. left. split; [reflexivity|pows; lia].
    + right. right.
      destruct ((897 <=? e)%N && (e <=? 1150)%N) eqn:C1.
      * apply andb_true_iff in C1. destruct C1 as [C1 C2]. apply N.leb_le in C1. apply N.leb_le in C2.
        destruct (m mod 2 ^ 29 =? 0)%N; [|discriminate]. apply ok_inj in Hu; subst b.
        assert (Hq : (m / 2 ^ 29 < 2 ^ 23)%N) by (revert Hm; pows; lia). set (q := (m / 2 ^ 29)%N) in *. clearbody q.
        rewrite <- N.add_assoc. apply Third; [revert Hq; pows; lia|revert Hq; pows; lia|lia|reflexivity].
      * destruct ((874 <=? e)%N && (e <=? 896)%N) eqn:C2; [|destruct (1151 <=? e)%N; discriminate].
        apply andb_true_iff in C2. destruct C2 as [C2 C3]. apply N.leb_le in C2. apply N.leb_le in C3.
        cbv zeta in Hu. destruct (m mod 2 ^ (52 - (e - 874)) =? 0)%N; [|discriminate]. apply ok_inj in Hu; subst b.
        set (k := (e - 874)%N) in *. assert (Hk : (k <= 22)%N) by (unfold k; lia).
        assert (Hq : (m / 2 ^ (52 - k) < 2 ^ k)%N).
        { apply N.div_lt_upper_bound; [apply N.pow_nonzero; lia|]. rewrite <- N.pow_add_r. replace (52 - k + k)%N with 52%N by lia. exact Hm. }
        set (q := (m / 2 ^ (52 - k))%N) in *. clearbody q.
        assert (Hpk : (2 ^ k <= 2 ^ 22)%N) by (apply N.pow_le_mono_r; lia).
        assert (Hpk0 : (0 < 2 ^ k)%N) by (assert (2 ^ k <> 0)%N by (apply N.pow_nonzero; lia); lia).
        set (pk := (2 ^ k)%N) in *. clearbody pk.
        rewrite <- N.add_assoc. apply Third; [revert Hpk Hq; pows; lia|revert Hpk Hq; pows; lia|lia|reflexivity].
Qed.

Lemma binc_unw : forall x b, (x < 2 ^ 64)%N -> unwiden x = Ok b -> unwiden (binc_fn64 x) = Ok (binc_fn32 b).
Proof.
  intros x b Hx Hu. unfold binc_fn64, binc_fn32.
  destruct (unwiden_cases x b Hx Hu) as [[A B]|[[A B]|(A & A' & B & B')]].
  - rewrite A, B. vm_compute. reflexivity.
  - assert (A0 : (x mod 2 ^ 63 =? 0)%N = false).
    { unfold Types.nan64 in A. apply N.ltb_lt in A. apply N.eqb_neq. revert A. pows. lia. }
    assert (B0 : (b mod 2 ^ 31 =? 0)%N = false).
    { unfold Types.nan32 in B. apply N.ltb_lt in B. apply N.eqb_neq. revert B. pows. lia. }
    rewrite A0, B0, A, B. vm_compute. reflexivity.
  - apply N.eqb_neq in A. apply N.eqb_neq in B. rewrite A, B, A', B'. exact Hu.
Qed.

Section BincI.
  Variable e : B.eopts.
  Variable d : B.dopts.

  Lemma b_std : std_wire (W_binc e d).
  Proof.
    constructor; try (intros; reflexivity); try (intros; split; reflexivity).
    - apply b_std_reads.
    - intros s n H. exact H.
    - intros x b Hx H. cbn [fn32 fn64 W_binc]. apply binc_unw; assumption.
  Qed.

  Lemma b_src : forall key : bool,
    src_ok (W_binc e d) (leaf_ok (W_binc e d)) (fun i => if key then B.key_norm (B.norm e d i) else B.norm e d i).
  Proof.
    intro key.
    assert (KF : forall z j, int_form z j -> int_form z (if key then B.key_norm j else j)).
    { intros z j F. destruct key; [|exact F]. destruct F as [[-> H]|[-> H]]; [left|right]; split; try reflexivity; exact H. }
    constructor; cbn [leaf_ok W_binc b_leaf_ok fn32 fn64].
    - destruct key; reflexivity.
    - intros b _. destruct key; reflexivity.
    - intros z _ Hz. apply KF. exact (b_wn_int e d z Hz).
    - intros n Hl Hn. apply KF. exact (b_wn_uint e d n Hn Hl).
    - intros b _ Hb. destruct (binc_f32_norm b Hb) as (x & E & Hu). exists x. cbn [B.norm]. rewrite E.
      split; [destruct key; reflexivity|]. split; [|exact Hu].
      (* the tree's float64: 0, THE NaN, or the widened float32 *)
      unfold B.norm_f64 in E. destruct (B.f64_is_zero (B.f32_to_f64 b)); [inversion E; pows; lia|].
      unfold B.f64_canon in E. destruct (B.f64_is_nan (B.f32_to_f64 b)); [inversion E; vm_compute; reflexivity|]. inversion E; subst x.
      destruct (Types.nan32 b) eqn:En.
      + rewrite (proj2 (binc_f32_widen b Hb) En). vm_compute. reflexivity.
      + rewrite (proj1 (binc_f32_widen b Hb) En). apply widen_c_lt. exact Hb.
    - intros b _ Hb. cbn [B.norm]. rewrite (binc_f64_norm b Hb). split; [destruct key; reflexivity|apply binc_fn64_lt; exact Hb].
    - intros s _. unfold raw_of. cbn [B.norm]. destruct (B.stringToRaw e); [destruct (B.rawToString d)|]; destruct key; cbn [B.key_norm]; auto.
    - intros s _. unfold raw_of. cbn [B.norm]. destruct (B.rawToString d); destruct key; cbn [B.key_norm]; auto.
  Qed.
End BincI.

(* ================================================================== *)
(* every ordered pair *)
Inductive bwire : wire -> Prop :=
| bw_simple : forall o D, bwire (W_simple o D)
| bw_msgpack : forall Of D, bwire (W_msgpack Of D)
| bw_binc : forall e d, bwire (W_binc e d)
| bw_cbor : forall Oc D, bwire (W_cbor Oc D)
| bw_cbor_t : forall Oc D, bwire (W_cbor_t Oc D).

Record bw_facts (W : wire) : Prop := {
  bf_ok : wire_ok W;
  bf_std : std_wire W;
  bf_v : src_ok W (leaf_ok W) (wn W);
  bf_k : src_ok W (leaf_ok W) (wnk W);
  bf_plain : forall i, plainb i = true -> leaves_ok W i = true -> plainb (wn W i) = true
}.

Lemma bwire_facts : forall W, bwire W -> bw_facts W.
Proof.
  intros W [o D|Of D|e d|Oc D|Oc D].
  - constructor; [apply W_simple_ok|apply s_std|exact (s_src o D false)|exact (s_src o D true)|].
    intros i Hp _. exact (proj2 (simple_keeps o D) i Hp).
  - constructor; [apply W_msgpack_ok|apply m_std|exact (m_src Of D false)|exact (m_src Of D true)|].
    intros i Hp _. exact (proj2 (msgpack_keeps Of D) i Hp).
  - constructor; [apply W_binc_ok|apply b_std|exact (b_src e d false)|exact (b_src e d true)|].
    intros i Hp _. exact (proj2 (binc_keeps e d) i Hp).
  - constructor; [apply W_cbor_ok|apply c_std|exact (c_src Oc D false)|exact (c_src Oc D true)|].
    exact (proj2 (cbor_keeps_on Oc D)).
  - constructor; [apply W_cbor_t_ok|apply c_t_std|exact (c_t_src_v Oc D)|exact (c_t_src_k Oc D)|].
    intros i Hp _. exact (proj2 (cbor_t_keeps Oc D) i Hp).
Qed.

Lemma leaves_ok_mono : forall W (L : item -> bool), (forall i, L i = true -> leaf_ok W i = true) ->
  forall i, leaves_ok (with_leaf W L) i = true -> leaves_ok W i = true.
Proof.
  intros W L HL. induction i using item_ind'; cbn [leaves_ok]; intro H0; try (apply HL; exact H0).
  - rewrite forallb_forall in *. rewrite Forall_forall in H. intros x Hx. exact (H x Hx (H0 x Hx)).
  - rewrite forallb_forall in *. rewrite Forall_forall in H. intros kv Hkv. specialize (H0 kv Hkv).
    apply andb_true_iff in H0. destruct H0 as [A B]. destruct (H kv Hkv) as [HA HB]. rewrite (HA A), (HB B). reflexivity.
  - exact (IHi H0).
Qed.

Theorem cross_keeps_on : forall W1 W2, bwire W1 -> bwire W2 -> keeps_on (with_leaf W1 (cross_leaf W1 W2)) W2.
Proof.
  intros W1 W2 B1 B2. destruct (bwire_facts W1 B1) as [O1 S1 V1 K1 P1]. destruct (bwire_facts W2 B2) as [O2 S2 V2 K2 _].
  split.
  - exact (wire_ok_cross W1 W2 O1 O2 S1 S2 V1 K1 (dst_of_src _ _ V2) (dst_of_src _ _ K2)).
  - intros i Hp Hl. cbn [wn with_leaf]. apply P1; [exact Hp|].
    apply (leaves_ok_mono W1 (cross_leaf W1 W2)); [|exact Hl].
    intros j Hj. unfold cross_leaf in Hj. repeat (apply andb_true_iff in Hj; destruct Hj as [Hj ?]). exact Hj.
Qed.

(* C15_cross for every ordered pair of the concrete driver records *)
Theorem cross_same : forall (W1 W2 : wire) (O O' : gopts) (pi : order) (t : ty) (v : gv),
  bwire W1 -> bwire W2 ->
  order_ok pi -> wt t v = true -> supported t = true ->
  leaves_ok (with_leaf W1 (cross_leaf W1 W2)) (to_item O pi v) = true ->
  (Z.of_nat (depth (to_item O pi v)) < maxdepth O)%Z ->
  let g := wn W1 (to_item O pi v) in
  let C := compose_wire (with_leaf W1 (cross_leaf W1 W2)) W2 in
  plainb g = true /\ reenc O' g = g /\
  of_item W2 O 0 t (wn W2 (reenc O' g)) = Ok (norm C O (arrange O pi v)) /\
  veq (norm C O (arrange O pi v)) (norm C O v).
Proof.
  intros W1 W2 O O' pi t v B1 B2 Hpi Hwt Hs Hl Hd g C.
  pose proof (cross_keeps_on W1 W2 B1 B2) as HK.
  assert (Hp : plainb g = true) by (apply (proj2 HK); [unfold to_item; apply enc_plain|exact Hl]).
  split; [exact Hp|]. split; [apply reenc_id; exact Hp|].
  destruct (same_generic_on _ W2 O O' pi t v HK Hpi Hwt Hs Hl Hd) as [A B].
  rewrite of_item_compose in A. exact (conj A B).
Qed.

(* C14/Typed — the recursion structure of the TYPED decode path (decode.go), over destination
   types as trees and an abstract driver.

   decodeValue(rv, fn)            = TryNil ? zero : decodeValueNoCheckNil
   decodeValueNoCheckNil          : PTR: for rv.Kind()==Ptr { alloc; rv = rv.Elem() }   (a LOOP: pointers add no frame)
                                    fn.fd(d, &fn.i, rv)                                  -> kSlice / kArray / kMap / kStruct / kInterface / scalar
   kSlice, kArray (and the fast paths): n := d.arrayStart(ReadArrayStart())              -> depthIncr unless n == containerLenNil
                                    for each element: d.decodeValue(elem)                (one more frame)
   kMap                           : n := d.mapStart(ReadMapStart()); per entry decodeValue(key); decodeValue(value)
   kStruct                        : mapStart / arrayStart; per entry: known field -> kStructField -> decodeValue(field)
                                                                     unknown     -> structFieldNotFound -> swallow (the skip walker: wire models)
   kInterface (nil interface)     : kInterfaceNaked -> DecodeNaked; array -> d.decode(&[]interface{})  = a decodeValue frame at the SAME depth
                                                                    map   -> d.decode(&map[interface{}]interface{}) likewise
                                                                    tag   -> depthIncr; d.decode(&re.Value); depthDecr  (F14-2 / F14-4 repairs)
   depthIncr                      : d.depth++; if d.depth >= d.maxdepth -> error

   The driver is abstract: it answers the decoder's questions from a list of numbers (an
   ANSWER STREAM); every real driver on every input is one such stream, so "for every answer
   stream" covers every input of every format.  Questions and the reading of an answer x:
     TryNil?                x = 0 -> nil
     container head         x = 0 -> containerLenNil (stream nil); x = 1 -> no length (indefinite / json); x >= 2 -> length x - 2
     CheckBreak / more?     x = 0 -> end of container
     struct entry           x in 1 .. #fields -> that field; anything else -> unknown field (swallowed)
     DecodeNaked            x = 1 -> array; 2 -> map; 3 -> tag / extension holding a value; else scalar
   The counter [r] is the number of decodeValue frames on the stack (instrumentation); the
   result carries the deepest level reached. *)
From Coq Require Import List NArith ZArith Bool.
From Verif Require Import Base.Outcome Gen.Consts.
Import ListNotations.
Open Scope N_scope.

Inductive ty :=
| TScalar
| TIface
| TPtr (t : ty)
| TSlice (e : ty)             (* slices and arrays *)
| TMap (k v : ty)
| TStruct (fs : list ty)
| TNamed (n : nat).           (* a declared (possibly recursive) type: looked up in the environment *)

Definition env := nat -> ty.

Definition maxdepth (md : Z) : Z := if (0 <? md)%Z then md else decDefMaxDepth.
Definition depth_ok (md : Z) (d : Z) : bool := (d + 1 <? maxdepth md)%Z.      (* depthIncr does not fail *)

Definition resI (A : Type) := (res A * nat)%type.
Definition bindI {A B} (m : resI A) (k : A -> resI B) : resI B :=
  match fst m with
  | Ok a => let m' := k a in (fst m', Nat.max (snd m) (snd m'))
  | Err e => (Err e, snd m)
  | OutOfFuel => (OutOfFuel, snd m)
  end.
Notation "'doI' x <- r ;; k" := (bindI r (fun x => k)) (at level 200, x pattern, r at level 100, k at level 200, right associativity).

Definition field (fs : list ty) (x : N) : option ty :=
  if (1 <=? x) && (x <=? N.of_nat (length fs)) then nth_error fs (N.to_nat (x - 1)) else None.

Section Model.
  Variable E : env.
  Variable md : Z.            (* BasicHandle.MaxDepth *)

  (* [dv]: decodeValue, a new frame at level r; [dvn]: decodeValueNoCheckNil in the SAME frame
     (pointer loop, named-type lookup); [elems n]: a counted loop; [elemsI]: a loop until break;
     [cyc]: the element types met in turn (slice: [e]; map: [k; v]) *)
  Fixpoint dv (f : nat) (d : Z) (r : nat) (t : ty) (a : list N) {struct f} : resI (list N) :=
    match f with
    | O => (OutOfFuel, r)
    | S f' =>
        match a with
        | [] => (Err EEof, r)
        | x :: a1 => if x =? 0 then (Ok a1, r) else dvn f' d r t a1
        end
    end
  with dvn (f : nat) (d : Z) (r : nat) (t : ty) (a : list N) {struct f} : resI (list N) :=
    match f with
    | O => (OutOfFuel, r)
    | S f' =>
        match t with
        | TScalar => (Ok a, r)
        | TPtr t' => dvn f' d r t' a
        | TNamed n => dvn f' d r (E n) a
        | TSlice e => container f' d r [e] None a
        | TMap k v => container f' d r [k; v] None a
        | TStruct fs => container f' d r [] (Some fs) a
        | TIface =>
            match a with
            | [] => (Err EEof, r)
            | x :: a1 =>
                if x =? 1 then dvn f' d (S r) (TSlice TIface) a1                 (* d.decode(&v2): a frame, same depth *)
                else if x =? 2 then dvn f' d (S r) (TMap TIface TIface) a1
                else if x =? 3 then
                  if depth_ok md d then dv f' (d + 1)%Z (S r) TIface a1 else (Err EDepth, r)
                else (Ok a1, r)
            end
        end
    end
  (* arrayStart / mapStart and the element loop; [st] = Some fs for a struct *)
  with container (f : nat) (d : Z) (r : nat) (cyc : list ty) (st : option (list ty)) (a : list N) {struct f} : resI (list N) :=
    match f with
    | O => (OutOfFuel, r)
    | S f' =>
        match a with
        | [] => (Err EEof, r)
        | h :: a1 =>
            if h =? 0 then (Ok a1, r)                                            (* containerLenNil: no depthIncr, no loop *)
            else if negb (depth_ok md d) then (Err EDepth, r)
            else
              let per := match st with Some _ => 1 | None => N.of_nat (length cyc) end in
              if h =? 1 then loop f' (d + 1)%Z r cyc st None 0 a1
              else loop f' (d + 1)%Z r cyc st (Some ((h - 2) * per)) 0 a1
        end
    end
  (* [j]: index of the next element; children are decoded in frames at level S r *)
  with loop (f : nat) (d : Z) (r : nat) (cyc : list ty) (st : option (list ty)) (cnt : option N) (j : nat) (a : list N) {struct f}
    : resI (list N) :=
    match f with
    | O => (OutOfFuel, r)
    | S f' =>
        let step (a0 : list N) : resI (list N) :=
          match st with
          | Some fs =>
              match a0 with
              | [] => (Err EEof, r)
              | x :: a1 =>
                  match field fs x with
                  | Some ft => dv f' d (S r) ft a1
                  | None => (Ok a1, r)                                           (* swallow: the skip walker, bounded by the wire theorems *)
                  end
              end
          | None => dv f' d (S r) (nth (j mod (Nat.max 1 (length cyc))) cyc TScalar) a0
          end in
        match cnt with
        | Some n =>
            if n =? 0 then (Ok a, r)
            else doI a2 <- step a ;; loop f' d r cyc st (Some (n - 1)) (S j) a2
        | None =>
            match a with
            | [] => (Err EEof, r)
            | x :: a1 =>
                if x =? 0 then (Ok a1, r)
                else doI a2 <- step a1 ;; loop f' d r cyc st None (S j) a2
            end
        end
    end.

  (* Decode(&v) for v of type t on a fresh decoder *)
  Definition typed_decode (f : nat) (t : ty) (a : list N) : res (list N) := fst (dv f 0 0 t a).
  Definition typed_maxrec (f : nat) (t : ty) (a : list N) : nat := snd (dv f 0 0 t a).
End Model.

(* C14/IllFormed — heads that are NOT legitimate nesting units (cbor).

   RFC 8949 §3.2.3: the chunks of an indefinite-length string are definite-length strings.  A head with
   additional information 31 (0x5f, 0x7f, 0x9f, 0xbf) in chunk position is not a length: in the wire model
   (Wire/Cbor.v, the tree as it stands) both parsers refuse it, and a string item -- whatever its chunks --
   never adds a recursion frame in the skip walker (nextValueBytesBdReadR reads chunk heads in a loop).
   So `5f 5f 5f ... 40 ff ff ff` and its text / mixed forms are errors at the second byte, at every
   depth and for every MaxDepth: they are not a way of nesting.  The harness stream "ill" of cmd/c14
   replays these and their relatives against the implementation (oracle + Coq cases over C14/Corr.v). *)
From Coq Require Import List NArith ZArith Bool Lia.
From Verif Require Import Base.Outcome Wire.Item Gen.Consts.
From Verif Require Wire.Cbor.
Import ListNotations.
Open Scope N_scope.

Definition indef_str_head (bd : N) : Prop := bd = Cbor.bdIndefBytes \/ bd = Cbor.bdIndefString.

(* a byte whose low five bits are 31 and which is not the break byte: 0x1f 0x3f 0x5f 0x7f 0x9f 0xbf 0xdf *)
Definition ai31_not_break (hd : N) : Prop := hd < 256 /\ hd mod 32 = 31 /\ hd <> Cbor.bdBreak.

Lemma ai31_cases : forall hd, ai31_not_break hd ->
  hd = 31 \/ hd = 63 \/ hd = 95 \/ hd = 127 \/ hd = 159 \/ hd = 191 \/ hd = 223.
Proof.
  intros hd (Hlt & Hm & Hb).
  assert (E : hd = 32 * (hd / 32) + 31) by (rewrite <- Hm; apply N.div_mod'; lia).
  assert (Hq : hd / 32 < 8) by (apply N.div_lt_upper_bound; lia).
  unfold Cbor.bdBreak in Hb. change (Z.to_N cborBdBreak) with 255 in Hb.
  remember (hd / 32) as q.
  assert (q = 0 \/ q = 1 \/ q = 2 \/ q = 3 \/ q = 4 \/ q = 5 \/ q = 6 \/ q = 7) as Hc by lia.
  destruct Hc as [->|[->|[->|[->|[->|[->|[->| ->]]]]]]]; lia.
Qed.

(* the walker: an indefinite-length (or reserved) head in chunk position is "invalid descriptor" *)
Lemma cbor_skip_ai31_in_chunk : forall D f d bd hd rest,
  indef_str_head bd -> ai31_not_break hd ->
  Cbor.skip D (S (S f)) d (bd :: hd :: rest) = Err EBadDesc.
Proof.
  intros D f d bd hd rest Hbd Hhd.
  apply ai31_cases in Hhd.
  destruct Hbd as [-> | ->];
    destruct Hhd as [->|[->|[->|[->|[->|[->| ->]]]]]]; reflexivity.
Qed.

(* ... and no recursion frame is counted on the way *)
Lemma cbor_skip_ai31_in_chunk_frames : forall D f d bd hd rest,
  indef_str_head bd -> ai31_not_break hd ->
  Cbor.skip_maxrec D (S (S f)) d (bd :: hd :: rest) = O.
Proof.
  intros D f d bd hd rest Hbd Hhd.
  apply ai31_cases in Hhd.
  destruct Hbd as [-> | ->];
    destruct Hhd as [->|[->|[->|[->|[->|[->| ->]]]]]]; reflexivity.
Qed.

(* decoding into interface{}: the same input is "invalid descriptor" (a chunk of another major type, or
   a chunk head that carries no length), whatever the options *)
Lemma cbor_dec_ai31_in_chunk : forall D f bd hd rest,
  indef_str_head bd -> ai31_not_break hd ->
  Cbor.dec_naked D (S (S f)) (bd :: hd :: rest) = Err EBadDesc.
Proof.
  intros D f bd hd rest Hbd Hhd.
  apply ai31_cases in Hhd.
  destruct Hbd as [-> | ->];
    destruct Hhd as [->|[->|[->|[->|[->|[->| ->]]]]]]; reflexivity.
Qed.

(* the seeded family: n >= 2 indefinite-length string heads (bytes or text, any mixture), anything after *)
Definition str_heads (l : list N) : Prop := Forall indef_str_head l.

Lemma indef_is_ai31 : forall bd, indef_str_head bd -> ai31_not_break bd.
Proof. intros bd [-> | ->]; (split; [reflexivity | split; [reflexivity | discriminate]]). Qed.

Theorem cbor_nested_chunk_heads_error : forall D f d h1 h2 hs rest,
  str_heads (h1 :: h2 :: hs) ->
  Cbor.skip D (S (S f)) d ((h1 :: h2 :: hs) ++ rest) = Err EBadDesc
  /\ Cbor.skip_maxrec D (S (S f)) d ((h1 :: h2 :: hs) ++ rest) = O
  /\ Cbor.dec_naked D (S (S f)) ((h1 :: h2 :: hs) ++ rest) = Err EBadDesc.
Proof.
  intros D f d h1 h2 hs rest H.
  inversion H as [| ? ? H1 H']; subst. inversion H' as [| ? ? H2 _]; subst.
  apply indef_is_ai31 in H2.
  cbn [app].
  repeat apply conj.
  - apply cbor_skip_ai31_in_chunk; assumption.
  - apply cbor_skip_ai31_in_chunk_frames; assumption.
  - apply cbor_dec_ai31_in_chunk; assumption.
Qed.

(* a string item never adds a recursion frame in the walker, whatever follows its head: the chunk loop
   is a loop (this is what a "chunk is itself an item" walker would break) *)
Lemma cbor_skip_string_no_frame : forall D f d r bd b1,
  bd / 32 = 2 \/ bd / 32 = 3 ->
  snd (Cbor.skipw D f d r (bd :: b1)) = r.
Proof.
  intros D f d r bd b1 Hk.
  destruct f as [| f']; [reflexivity |].
  cbn [Cbor.skipw]. unfold Cbor.skip_body, Cbor.kind_of, Cbor.kind_of_mt.
  destruct Hk as [-> | ->]; cbn -[Cbor.skip_chunks Cbor.uint_bytes Cbor.rskip N.modulo];
    match goal with |- context [if ?c then _ else _] => destruct c end; reflexivity.
Qed.

(* non-vacuity: the demo input of the seeded change, 5f x 5 . 40 . ff x 5, at depth 1 (an unknown field) *)
Example cbor_nested_chunk_heads_demo :
  Cbor.skip (Cbor.mkdo false false false 0) 100 1 ([95;95;95;95;95;64;255;255;255;255;255]) = Err EBadDesc.
Proof. vm_compute. reflexivity. Qed.

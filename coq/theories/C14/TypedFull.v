(* C14/TypedFull — the typed decode path refuses EXACTLY the answer streams that nest to MaxDepth.

   The nesting measure.  [pv / pvn / pcont / ploop] below are the typed model of C14/Typed.v
   (dv / dvn / container / loop: same questions to the driver, same fuel discipline, same order)
   with the depth checks REMOVED and the recursion counter replaced by the number of containers
   open at once: a "level" is opened exactly where the code calls depthIncr — by a container head
   that is not the stream nil (arrayStart / mapStart of slice, array, map, struct), and by a tag /
   extension met by DecodeNaked under an interface{} destination.  [nesting E f t a] is the largest
   number of levels open at the same time while the grammar of destination type [t] reads the
   answer stream [a] (as far as fuel [f] lets it read; pointers and named types open nothing, a
   container read through interface{} opens ONE level although it costs two frames).  It does not
   mention MaxDepth.

   typed_exact: for every environment, MaxDepth, fuel, destination type and answer stream, if
   nesting < MaxDepth the limited decoder returns precisely what the unlimited reader returns (the
   depth checks never fire), and if nesting >= MaxDepth it returns the depth error — in particular
   never Ok.  Proof: induction on the fuel over the four mutually recursive functions with the
   entry depth generalised (d < MaxDepth at every entry, which depthIncr's own test maintains). *)
From Coq Require Import List NArith ZArith Lia Bool Arith.
From Verif Require Import Base.Outcome Gen.Consts C14.Typed.
Import ListNotations.
Open Scope N_scope.

Definition resD (A : Type) := (res A * Z)%type.
Definition bindD {A B} (m : resD A) (k : A -> resD B) : resD B :=
  match fst m with
  | Ok a => let m' := k a in (fst m', Z.max (snd m) (snd m'))
  | Err e => (Err e, snd m)
  | OutOfFuel => (OutOfFuel, snd m)
  end.

Section Free.
  Variable E : env.

  (* second component: the largest number of levels open at once so far ([d] = open at entry) *)
  Fixpoint pv (f : nat) (d : Z) (t : ty) (a : list N) {struct f} : resD (list N) :=
    match f with
    | O => (OutOfFuel, d)
    | S f' =>
        match a with
        | [] => (Err EEof, d)
        | x :: a1 => if x =? 0 then (Ok a1, d) else pvn f' d t a1
        end
    end
  with pvn (f : nat) (d : Z) (t : ty) (a : list N) {struct f} : resD (list N) :=
    match f with
    | O => (OutOfFuel, d)
    | S f' =>
        match t with
        | TScalar => (Ok a, d)
        | TPtr t' => pvn f' d t' a
        | TNamed n => pvn f' d (E n) a
        | TSlice e => pcont f' d [e] None a
        | TMap k v => pcont f' d [k; v] None a
        | TStruct fs => pcont f' d [] (Some fs) a
        | TIface =>
            match a with
            | [] => (Err EEof, d)
            | x :: a1 =>
                if x =? 1 then pvn f' d (TSlice TIface) a1
                else if x =? 2 then pvn f' d (TMap TIface TIface) a1
                else if x =? 3 then pv f' (d + 1)%Z TIface a1          (* a tag / extension: one level *)
                else (Ok a1, d)
            end
        end
    end
  with pcont (f : nat) (d : Z) (cyc : list ty) (st : option (list ty)) (a : list N) {struct f} : resD (list N) :=
    match f with
    | O => (OutOfFuel, d)
    | S f' =>
        match a with
        | [] => (Err EEof, d)
        | h :: a1 =>
            if h =? 0 then (Ok a1, d)                                   (* the stream nil: no level *)
            else
              let per := match st with Some _ => 1 | None => N.of_nat (length cyc) end in
              if h =? 1 then ploop f' (d + 1)%Z cyc st None 0 a1
              else ploop f' (d + 1)%Z cyc st (Some ((h - 2) * per)) 0 a1
        end
    end
  with ploop (f : nat) (d : Z) (cyc : list ty) (st : option (list ty)) (cnt : option N) (j : nat) (a : list N) {struct f}
    : resD (list N) :=
    match f with
    | O => (OutOfFuel, d)
    | S f' =>
        let step (a0 : list N) : resD (list N) :=
          match st with
          | Some fs =>
              match a0 with
              | [] => (Err EEof, d)
              | x :: a1 =>
                  match field fs x with
                  | Some ft => pv f' d ft a1
                  | None => (Ok a1, d)
                  end
              end
          | None => pv f' d (nth (j mod (Nat.max 1 (length cyc))) cyc TScalar) a0
          end in
        match cnt with
        | Some n =>
            if n =? 0 then (Ok a, d)
            else bindD (step a) (fun a2 => ploop f' d cyc st (Some (n - 1)) (S j) a2)
        | None =>
            match a with
            | [] => (Err EEof, d)
            | x :: a1 =>
                if x =? 0 then (Ok a1, d)
                else bindD (step a1) (fun a2 => ploop f' d cyc st None (S j) a2)
            end
        end
    end.

  (* what the answer stream holds for a destination of type t, read without any depth limit *)
  Definition typed_read (f : nat) (t : ty) (a : list N) : res (list N) := fst (pv f 0 t a).
  (* the stream-nesting measure: levels open at once at the deepest point *)
  Definition nesting (f : nat) (t : ty) (a : list N) : Z := snd (pv f 0 t a).
End Free.

(* ------------------------------------------------------------------ *)
Lemma snd_bindD_ge {A B} : forall (m : resD A) (k : A -> resD B), (snd m <= snd (bindD m k))%Z.
Proof. intros m k. unfold bindD. destruct (fst m); cbn [snd]; lia. Qed.

Section Proofs.
  Variable E : env.
  Variable md : Z.
  Notation M := (maxdepth md).

  (* the measure never drops below the entry level *)
  Theorem p_ge : forall f,
    (forall d t a, (d <= snd (pv E f d t a))%Z) /\
    (forall d t a, (d <= snd (pvn E f d t a))%Z) /\
    (forall d cyc st a, (d <= snd (pcont E f d cyc st a))%Z) /\
    (forall d cyc st cnt j a, (d <= snd (ploop E f d cyc st cnt j a))%Z).
  Proof.
    induction f as [| f' (IHv & IHn & IHk & IHl)].
    - repeat apply conj; intros; cbn [pv pvn pcont ploop snd]; lia.
    - repeat apply conj.
      + intros d t a. cbn [pv]. destruct a as [| x a1]; [cbn [snd]; lia |].
        destruct (x =? 0); [cbn [snd]; lia | apply IHn].
      + intros d t a. cbn [pvn]. destruct t; try apply IHn; try apply IHk; [cbn [snd]; lia |].
        destruct a as [| x a1]; [cbn [snd]; lia |].
        destruct (x =? 1); [apply IHn |]. destruct (x =? 2); [apply IHn |].
        destruct (x =? 3); [| cbn [snd]; lia].
        eapply Z.le_trans; [| apply (IHv (d + 1)%Z)]. lia.
      + intros d cyc st a. cbn [pcont]. destruct a as [| h a1]; [cbn [snd]; lia |].
        destruct (h =? 0); [cbn [snd]; lia |].
        destruct (h =? 1); (eapply Z.le_trans; [| apply (IHl (d + 1)%Z)]; lia).
      + intros d cyc st cnt j a. cbn [ploop].
        assert (Hstep : forall a0, (d <= snd (match st with
                  | Some fs => match a0 with
                               | [] => (Err EEof, d)
                               | x :: a1 => match field fs x with
                                            | Some ft => pv E f' d ft a1
                                            | None => (Ok a1, d)
                                            end
                               end
                  | None => pv E f' d (nth (j mod Nat.max 1 (length cyc)) cyc TScalar) a0
                  end))%Z).
        { intros a0. destruct st as [fs |]; [| apply IHv].
          destruct a0 as [| x a1]; [cbn [snd]; lia |]. destruct (field fs x); [apply IHv | cbn [snd]; lia]. }
        destruct cnt as [n |].
        * destruct (n =? 0); [cbn [snd]; lia |].
          eapply Z.le_trans; [apply Hstep | apply snd_bindD_ge].
        * destruct a as [| x a1]; [cbn [snd]; lia |]. destruct (x =? 0); [cbn [snd]; lia |].
          eapply Z.le_trans; [apply Hstep | apply snd_bindD_ge].
  Qed.

  (* limited run [x] against unlimited run [y] *)
  Definition inv (x : resI (list N)) (y : resD (list N)) : Prop :=
    if (snd y <? M)%Z then fst x = fst y else fst x = Err EDepth.

  Lemma inv_ret : forall (v : res (list N)) r d, (d < M)%Z -> inv (v, r) (v, d).
  Proof. intros v r d H. unfold inv. cbn [fst snd]. replace (d <? M)%Z with true by (symmetry; apply Z.ltb_lt; exact H). reflexivity. Qed.

  Lemma inv_bind : forall (m1 : resI (list N)) (n1 : resD (list N)) k1 k2,
    inv m1 n1 ->
    (forall a, fst n1 = Ok a -> (snd n1 < M)%Z -> inv (k1 a) (k2 a)) ->
    inv (bindI m1 k1) (bindD n1 k2).
  Proof.
    intros m1 n1 k1 k2 H1 H2. unfold inv in H1. destruct (snd n1 <? M)%Z eqn:Hlt.
    - apply Z.ltb_lt in Hlt. unfold bindI, bindD. rewrite H1.
      destruct (fst n1) as [a | e |] eqn:En.
      + specialize (H2 a eq_refl Hlt). unfold inv in *. cbn [fst snd].
        destruct (snd (k2 a) <? M)%Z eqn:H3.
        * apply Z.ltb_lt in H3. replace (Z.max (snd n1) (snd (k2 a)) <? M)%Z with true by (symmetry; apply Z.ltb_lt; lia). exact H2.
        * apply Z.ltb_ge in H3. replace (Z.max (snd n1) (snd (k2 a)) <? M)%Z with false by (symmetry; apply Z.ltb_ge; lia). exact H2.
      + unfold inv. cbn [fst snd]. replace (snd n1 <? M)%Z with true by (symmetry; apply Z.ltb_lt; lia). reflexivity.
      + unfold inv. cbn [fst snd]. replace (snd n1 <? M)%Z with true by (symmetry; apply Z.ltb_lt; lia). reflexivity.
    - apply Z.ltb_ge in Hlt. pose proof (snd_bindD_ge n1 k2) as Hge. unfold inv.
      replace (snd (bindD n1 k2) <? M)%Z with false by (symmetry; apply Z.ltb_ge; lia).
      unfold bindI. rewrite H1. reflexivity.
  Qed.

  (* a refused level: the unlimited reader's measure is already at MaxDepth *)
  Lemma inv_refuse : forall r (y : resD (list N)), (M <= snd y)%Z -> inv (Err EDepth, r) y.
  Proof. intros r y H. unfold inv. replace (snd y <? M)%Z with false by (symmetry; apply Z.ltb_ge; exact H). reflexivity. Qed.

  Theorem typed_inv : forall f,
    (forall d r t a, (d < M)%Z -> inv (dv E md f d r t a) (pv E f d t a)) /\
    (forall d r t a, (d < M)%Z -> inv (dvn E md f d r t a) (pvn E f d t a)) /\
    (forall d r cyc st a, (d < M)%Z -> inv (container E md f d r cyc st a) (pcont E f d cyc st a)) /\
    (forall d r cyc st cnt j a, (d < M)%Z -> inv (loop E md f d r cyc st cnt j a) (ploop E f d cyc st cnt j a)).
  Proof.
    induction f as [| f' (IHv & IHn & IHk & IHl)].
    - repeat apply conj; intros; cbn [dv dvn container loop pv pvn pcont ploop]; apply inv_ret; assumption.
    - repeat apply conj.
      + intros d r t a Hd. cbn [dv pv]. destruct a as [| x a1]; [apply inv_ret; exact Hd |].
        destruct (x =? 0); [apply inv_ret; exact Hd | apply IHn; exact Hd].
      + intros d r t a Hd. cbn [dvn pvn]. destruct t.
        * apply inv_ret; exact Hd.
        * destruct a as [| x a1]; [apply inv_ret; exact Hd |].
          destruct (x =? 1); [apply IHn; exact Hd |]. destruct (x =? 2); [apply IHn; exact Hd |].
          destruct (x =? 3); [| apply inv_ret; exact Hd].
          destruct (depth_ok md d) eqn:Hok.
          -- apply IHv. unfold depth_ok in Hok. apply Z.ltb_lt in Hok. exact Hok.
          -- apply inv_refuse. unfold depth_ok in Hok. apply Z.ltb_ge in Hok.
             eapply Z.le_trans; [| apply (proj1 (p_ge f') (d + 1)%Z)]. lia.
        * apply IHn; exact Hd.
        * apply IHk; exact Hd.
        * apply IHk; exact Hd.
        * apply IHk; exact Hd.
        * apply IHn; exact Hd.
      + intros d r cyc st a Hd. cbn [container pcont]. destruct a as [| h a1]; [apply inv_ret; exact Hd |].
        destruct (h =? 0); [apply inv_ret; exact Hd |].
        destruct (depth_ok md d) eqn:Hok; cbn [negb].
        * unfold depth_ok in Hok. apply Z.ltb_lt in Hok. destruct (h =? 1); apply IHl; exact Hok.
        * unfold depth_ok in Hok. apply Z.ltb_ge in Hok.
          apply inv_refuse.
          destruct (h =? 1); (eapply Z.le_trans; [| apply (proj2 (proj2 (proj2 (p_ge f'))) (d + 1)%Z)]; lia).
      + intros d r cyc st cnt j a Hd. cbn [loop ploop].
        assert (Hstep : forall a0, inv
                 (match st with
                  | Some fs => match a0 with
                               | [] => (Err EEof, r)
                               | x :: a1 => match field fs x with
                                            | Some ft => dv E md f' d (S r) ft a1
                                            | None => (Ok a1, r)
                                            end
                               end
                  | None => dv E md f' d (S r) (nth (j mod Nat.max 1 (length cyc)) cyc TScalar) a0
                  end)
                 (match st with
                  | Some fs => match a0 with
                               | [] => (Err EEof, d)
                               | x :: a1 => match field fs x with
                                            | Some ft => pv E f' d ft a1
                                            | None => (Ok a1, d)
                                            end
                               end
                  | None => pv E f' d (nth (j mod Nat.max 1 (length cyc)) cyc TScalar) a0
                  end)).
        { intros a0. destruct st as [fs |]; [| apply IHv; exact Hd].
          destruct a0 as [| x a1]; [apply inv_ret; exact Hd |].
          destruct (field fs x); [apply IHv; exact Hd | apply inv_ret; exact Hd]. }
        destruct cnt as [n |].
        * destruct (n =? 0); [apply inv_ret; exact Hd |].
          apply inv_bind; [apply Hstep | intros a2 _ _; apply IHl; exact Hd].
        * destruct a as [| x a1]; [apply inv_ret; exact Hd |].
          destruct (x =? 0); [apply inv_ret; exact Hd |].
          apply inv_bind; [apply Hstep | intros a2 _ _; apply IHl; exact Hd].
  Qed.

  Lemma maxdepth_pos' : (0 < M)%Z.
  Proof. unfold maxdepth. destruct (0 <? md)%Z eqn:H; [apply Z.ltb_lt in H; lia | vm_compute; reflexivity]. Qed.

  (* Decode(&v): nesting below MaxDepth -> the depth checks are invisible; at or above -> the depth error *)
  Lemma typed_exact : forall (f : nat) (t : ty) (a : list N),
    ((nesting E f t a < M)%Z -> typed_decode E md f t a = typed_read E f t a) /\
    ((M <= nesting E f t a)%Z -> typed_decode E md f t a = Err EDepth).
  Proof.
    intros f t a. pose proof (proj1 (typed_inv f) 0%Z 0%nat t a maxdepth_pos') as H.
    unfold inv in H. unfold typed_decode, typed_read, nesting. split; intros Hn.
    - replace (snd (pv E f 0 t a) <? M)%Z with true in H by (symmetry; apply Z.ltb_lt; exact Hn). exact H.
    - replace (snd (pv E f 0 t a) <? M)%Z with false in H by (symmetry; apply Z.ltb_ge; exact Hn). exact H.
  Qed.
End Proofs.

Lemma typed_error_full : forall (E : env) (md : Z) (f : nat) (t : ty) (a rest : list N),
  (maxdepth md <= nesting E f t a)%Z -> typed_decode E md f t a <> Ok rest.
Proof. intros E md f t a rest H. rewrite (proj2 (typed_exact E md f t a) H). discriminate. Qed.

Lemma typed_refuse_full : forall (E : env) (md : Z) (f : nat) (t : ty) (a : list N),
  (maxdepth md <= nesting E f t a)%Z -> typed_decode E md f t a = Err EDepth.
Proof. intros E md f t a H. exact (proj2 (typed_exact E md f t a) H). Qed.

Lemma typed_accept_full : forall (E : env) (md : Z) (f : nat) (t : ty) (a : list N),
  (nesting E f t a < maxdepth md)%Z -> typed_decode E md f t a = typed_read E f t a.
Proof. intros E md f t a H. exact (proj1 (typed_exact E md f t a) H). Qed.

(* C14/TypedProofs — the typed decode path recurses at most 2*MaxDepth - 1 frames deep, for
   EVERY destination type (recursive ones included), type environment, answer stream and fuel. *)
From Coq Require Import List NArith ZArith Lia Bool Arith.
From Verif Require Import Base.Outcome Gen.Consts C14.Typed.
Import ListNotations.

Definition room (md d : Z) : nat := Z.to_nat (maxdepth md - 1 - d).
Definition Bv (md d : Z) (r : nat) : nat := (r + 2 * room md d + 1)%nat.     (* a value frame *)
Definition Bc (md d : Z) (r : nat) : nat := (r + 2 * room md d)%nat.         (* a container met in frame r *)
Definition Bl (md d : Z) (r : nat) : nat := (r + 2 * room md d + 2)%nat.     (* its element loop, depth already counted *)

Lemma room_step : forall md d, depth_ok md d = true -> room md d = S (room md (d + 1)).
Proof. intros md d H. unfold depth_ok in H. apply Z.ltb_lt in H. unfold room. lia. Qed.

Lemma snd_bindI_le {A B} : forall (m : resI A) (k : A -> resI B) X,
  (snd m <= X)%nat -> (forall a, (snd (k a) <= X)%nat) -> (snd (bindI m k) <= X)%nat.
Proof.
  intros m k X Hm Hk. unfold bindI. destruct (fst m); cbn [snd]; [| assumption | assumption].
  specialize (Hk a). lia.
Qed.

Definition is_cont (t : ty) : bool :=
  match t with TSlice _ | TMap _ _ | TStruct _ => true | _ => false end.

Section Proofs.
  Variable E : env.
  Variable md : Z.

  Theorem typed_bnd : forall f,
    (forall d r t a, (snd (dv E md f d r t a) <= Bv md d r)%nat) /\
    (forall d r t a, (snd (dvn E md f d r t a) <= Bv md d r)%nat) /\
    (forall d r t a, is_cont t = true -> (snd (dvn E md f d r t a) <= Bc md d r)%nat) /\
    (forall d r cyc st a, (snd (container E md f d r cyc st a) <= Bc md d r)%nat) /\
    (forall d r cyc st cnt j a, (snd (loop E md f d r cyc st cnt j a) <= Bl md d r)%nat).
  Proof.
    induction f as [| f' (IHv & IHn & IHc & IHk & IHl)].
    - repeat apply conj; intros; cbn [dv dvn container loop snd]; unfold Bv, Bc, Bl; lia.
    - assert (Hcont : forall d r cyc st a, (snd (container E md (S f') d r cyc st a) <= Bc md d r)%nat).
      { intros d r cyc st a. cbn [container]. destruct a as [| h a1]; [cbn [snd]; unfold Bc; lia |].
        destruct (h =? 0)%N; [cbn [snd]; unfold Bc; lia |].
        destruct (depth_ok md d) eqn:Hok; cbn [negb]; [| cbn [snd]; unfold Bc; lia].
        pose proof (room_step md d Hok) as Hr.
        destruct (h =? 1)%N;
          (eapply Nat.le_trans; [apply IHl |]; unfold Bl, Bc; lia). }
      repeat apply conj.
      + (* dv *)
        intros d r t a. cbn [dv]. destruct a as [| x a1]; [cbn [snd]; unfold Bv; lia |].
        destruct (x =? 0)%N; [cbn [snd]; unfold Bv; lia | apply IHn].
      + (* dvn *)
        intros d r t a. cbn [dvn]. destruct t.
        * cbn [snd]. unfold Bv. lia.
        * destruct a as [| x a1]; [cbn [snd]; unfold Bv; lia |].
          destruct (x =? 1)%N; [eapply Nat.le_trans; [apply IHc; reflexivity |]; unfold Bc, Bv; lia |].
          destruct (x =? 2)%N; [eapply Nat.le_trans; [apply IHc; reflexivity |]; unfold Bc, Bv; lia |].
          destruct (x =? 3)%N; [| cbn [snd]; unfold Bv; lia].
          destruct (depth_ok md d) eqn:Hok; [| cbn [snd]; unfold Bv; lia].
          pose proof (room_step md d Hok) as Hr.
          eapply Nat.le_trans; [apply IHv |]. unfold Bv. lia.
        * apply IHn.
        * eapply Nat.le_trans; [apply IHk |]. unfold Bc, Bv. lia.
        * eapply Nat.le_trans; [apply IHk |]. unfold Bc, Bv. lia.
        * eapply Nat.le_trans; [apply IHk |]. unfold Bc, Bv. lia.
        * apply IHn.
      + (* dvn on a container type *)
        intros d r t a Hc. cbn [dvn]. destruct t; try discriminate; apply IHk.
      + exact Hcont.
      + (* loop *)
        intros d r cyc st cnt j a. cbn [loop].
        assert (Hstep : forall a0, (snd (match st with
                  | Some fs => match a0 with
                               | [] => (Err EEof, r)
                               | x :: a1 => match field fs x with
                                            | Some ft => dv E md f' d (S r) ft a1
                                            | None => (Ok a1, r)
                                            end
                               end
                  | None => dv E md f' d (S r) (nth (j mod Nat.max 1 (length cyc)) cyc TScalar) a0
                  end) <= Bl md d r)%nat).
        { intros a0. destruct st as [fs |].
          - destruct a0 as [| x a1]; [cbn [snd]; unfold Bl; lia |].
            destruct (field fs x); [| cbn [snd]; unfold Bl; lia].
            eapply Nat.le_trans; [apply IHv |]. unfold Bv, Bl. lia.
          - eapply Nat.le_trans; [apply IHv |]. unfold Bv, Bl. lia. }
        destruct cnt as [n |].
        * destruct (n =? 0)%N; [cbn [snd]; unfold Bl; lia |].
          apply snd_bindI_le; [apply Hstep | intros a2; apply IHl].
        * destruct a as [| x a1]; [cbn [snd]; unfold Bl; lia |].
          destruct (x =? 0)%N; [cbn [snd]; unfold Bl; lia |].
          apply snd_bindI_le; [apply Hstep | intros a2; apply IHl].
  Qed.

  Lemma maxdepth_pos : (1 <= maxdepth md)%Z.
  Proof.
    unfold maxdepth. destruct (0 <? md)%Z eqn:H; [apply Z.ltb_lt in H; lia | vm_compute; discriminate].
  Qed.

  (* Decode(&v): at most 2*MaxDepth - 1 decodeValue frames, whatever the type and the input;
     pointers add none (they are followed in a loop), so the static nesting term is 0 *)
  Lemma typed_bound_lemma : forall (f : nat) (t : ty) (a : list N),
    (Z.of_nat (typed_maxrec E md f t a) <= 2 * maxdepth md + 0)%Z.
  Proof.
    intros f t a. unfold typed_maxrec. pose proof (proj1 (typed_bnd f) 0%Z 0%nat t a) as H.
    pose proof maxdepth_pos. unfold Bv, room in H. lia.
  Qed.
End Proofs.

(* nesting to MaxDepth or beyond through slices is refused: k nested one-element slices of a
   recursive slice type  type L []L  (TNamed 0 := TSlice (TNamed 0)) *)
Definition Lenv : env := fun _ => TSlice (TNamed 0).
Fixpoint nested (k : nat) : list N :=       (* not nil; head: length 1 *)
  match k with O => [0%N] | S k' => 1%N :: 3%N :: nested k' end.

Lemma typed_nested_err : forall md k f d r,
  (maxdepth md <= d + Z.of_nat k)%Z -> (1 <= k)%nat -> (5 * k + 1 <= f)%nat ->
  fst (dv Lenv md f d r (TNamed 0) (nested k)) = Err EDepth.
Proof.
  intros md. induction k as [| k IH]; intros f d r Hdeep Hk Hf; [lia |].
  do 5 (destruct f as [| f]; [lia |]).
  cbn [nested dv]. change (1 =? 0)%N with false. cbv iota.
  cbn [dvn Lenv]. cbn [container]. change (3 =? 0)%N with false. cbv iota.
  destruct (depth_ok md d) eqn:Hok; cbn [negb]; [| reflexivity].
  change (3 =? 1)%N with false. cbv iota. cbn [loop]. cbn [length]. change ((3 - 2) * N.of_nat 1 =? 0)%N with false. cbv iota.
  unfold bindI at 1.
  destruct k as [| k'].
  - exfalso. unfold depth_ok in Hok. apply Z.ltb_lt in Hok. lia.
  - rewrite IH; [reflexivity | | lia | lia].
    unfold depth_ok in Hok. lia.
Qed.

Lemma typed_error_lemma : forall md k f,
  (maxdepth md <= Z.of_nat k)%Z -> (1 <= k)%nat -> (5 * k + 1 <= f)%nat ->
  typed_decode Lenv md f (TNamed 0) (nested k) = Err EDepth.
Proof. intros. unfold typed_decode. apply typed_nested_err; lia. Qed.

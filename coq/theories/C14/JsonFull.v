(* C14/JsonFull — every value the decode-into-interface{} model of json returns is nested less than
   MaxDepth, for EVERY leaf implementation, input (tokenizer state), option vector, position and fuel.
   Same invariant as Wire/CborDepthFull.v and Wire/SimpleDepthFull.v: a call entered at
   decoderBase.depth = dp < MaxDepth that returns Ok i has dp + depth i < MaxDepth (induction on the
   fuel over dec / dec_elems / dec_pairs with the entry depth generalised).  Plus the C14 shapes of
   the json wire results W_json_depth / W_json_depth_error. *)
From Coq Require Import List NArith ZArith Bool Lia.
From Verif Require Import Base.Outcome Wire.Item Gen.Consts Wire.Json Wire.JsonRT Wire.JsonDepth.
Import ListNotations.
Open Scope N_scope.

Lemma bind_inv {A B} : forall (m : res A) (k : A -> res B) x,
  bind m k = Ok x -> exists a, m = Ok a /\ k a = Ok x.
Proof. intros m k x H. destruct m; cbn [bind] in H; try discriminate. eauto. Qed.

Definition fmax (l : list item) : nat := fold_right (fun x m => Nat.max (depth x) m) 0%nat l.
Definition fmaxkv (l : list (item * item)) : nat :=
  fold_right (fun kv m => Nat.max (Nat.max (depth (fst kv)) (depth (snd kv))) m) 0%nat l.

Section Full.
Variable L : leaf.

Lemma naked_num_depth : forall D bs i, naked_num L D bs = Ok i -> depth i = 0%nat.
Proof.
  intros D bs i H. unfold naked_num in H.
  assert (Hfl : forall i, match pfloat L bs with Some v => Ok (IF64 v) | None => Err EOther end = Ok i -> depth i = 0%nat).
  { intros j Hj. destruct (pfloat L bs); [inversion Hj; reflexivity | discriminate]. }
  destruct (preferFloat D); [apply Hfl; assumption |].
  destruct (Verif.C09.Model.parseUint64_simple _) as [f ok].
  destruct ok; [| apply Hfl; assumption].
  destruct (match bs with c :: _ => c =? 45 | [] => false end).
  - destruct (uint2int_ovf f true); [apply Hfl; assumption | inversion H; reflexivity].
  - destruct (signedInteger D).
    + destruct (uint2int_ovf f false); [discriminate | inversion H; reflexivity].
    + inversion H; reflexivity.
Qed.

Lemma rd_quoted_depth : forall D key bs, depth (rd_quoted L D key bs) = 0%nat.
Proof.
  intros D key bs. unfold rd_quoted. destruct (_ && _ && _ && _); [| reflexivity].
  unfold quoted_key. destruct (eqbl bs t_true); [reflexivity |]. destruct (eqbl bs t_false); [reflexivity |].
  destruct (Verif.C09.Model.jsonIsNumberLiteral bs); [| reflexivity].
  destruct (naked_num L D bs) eqn:E; try reflexivity. eapply naked_num_depth; eassumption.
Qed.

Lemma dec_strkey_depth : forall s k s', dec_strkey L s = Ok (k, s') -> depth k = 0%nat.
Proof.
  intros s k s' H. unfold dec_strkey in H. apply bind_inv in H as (s1 & _ & H). cbv zeta in H.
  destruct (tok s1 =? 34). { apply bind_inv in H as ([bs r] & _ & H). inversion H; reflexivity. }
  destruct (tok s1 =? 110). { apply bind_inv in H as (s2 & _ & H). inversion H; reflexivity. }
  destruct (tok s1 =? 102). { apply bind_inv in H as (s2 & _ & H). inversion H; reflexivity. }
  destruct (tok s1 =? 116). { apply bind_inv in H as (s2 & _ & H). inversion H; reflexivity. }
  destruct (read_num s1). inversion H; reflexivity.
Qed.

Lemma depth_enter_lt : forall D dp d', depth_enter D dp = Ok d' -> d' = (dp + 1)%Z /\ (dp + 1 < maxdepth D)%Z.
Proof.
  intros D dp d' H. unfold depth_enter in H.
  destruct (Z.leb_spec (maxdepth D) (dp + 1)); [discriminate |]. inversion H. lia.
Qed.

Theorem dec_val : forall D f,
  (forall dp key s i s', (dp < maxdepth D)%Z ->
     dec L D f dp key s = Ok (i, s') -> (dp + Z.of_nat (depth i) < maxdepth D)%Z) /\
  (forall dp first s xs s', (dp < maxdepth D)%Z ->
     dec_elems L D f dp first s = Ok (xs, s') -> (dp + Z.of_nat (fmax xs) < maxdepth D)%Z) /\
  (forall dp first seen s kvs s', (dp < maxdepth D)%Z ->
     dec_pairs L D f dp first seen s = Ok (kvs, s') -> (dp + Z.of_nat (fmaxkv kvs) < maxdepth D)%Z).
Proof.
  intros D. induction f as [| f (IH1 & IH2 & IH3)].
  - repeat apply conj; intros; cbn [dec dec_elems dec_pairs] in *; discriminate.
  - repeat apply conj.
    + intros dp key s i s' Hd H. rewrite dec_S in H.
      apply bind_inv in H as (s1 & _ & H). cbv zeta in H.
      destruct (tok s1 =? 110). { apply bind_inv in H as (s2 & _ & H). inversion H; subst. cbn [depth]. lia. }
      destruct (tok s1 =? 102). { apply bind_inv in H as (s2 & _ & H). inversion H; subst. cbn [depth]. lia. }
      destruct (tok s1 =? 116). { apply bind_inv in H as (s2 & _ & H). inversion H; subst. cbn [depth]. lia. }
      destruct (tok s1 =? 123).
      { apply bind_inv in H as (d' & Ed & H). apply depth_enter_lt in Ed as [-> Hlt].
        apply bind_inv in H as ([kvs s2] & Ex & H). inversion H; subst.
        apply IH3 in Ex; [| assumption]. change (depth (IMap kvs)) with (S (fmaxkv kvs)). lia. }
      destruct (tok s1 =? 91).
      { apply bind_inv in H as (d' & Ed & H). apply depth_enter_lt in Ed as [-> Hlt].
        apply bind_inv in H as ([xs s2] & Ex & H). inversion H; subst.
        apply IH2 in Ex; [| assumption]. change (depth (IArr xs)) with (S (fmax xs)). lia. }
      destruct (tok s1 =? 34).
      { apply bind_inv in H as ([bs r] & _ & H). inversion H; subst. rewrite rd_quoted_depth. lia. }
      destruct (read_num s1) as [bs s2]. destruct (isnil bs); [discriminate |].
      apply bind_inv in H as (j & Ej & H). inversion H; subst. rewrite (naked_num_depth _ _ _ Ej). lia.
    + intros dp first s xs s' Hd H. rewrite dec_elems_S in H.
      apply bind_inv in H as (s1 & _ & H).
      destruct ((tok s1 =? 125) || (tok s1 =? 93)).
      * destruct (tok s1 =? 93); [| discriminate]. inversion H; subst. cbn [fmax fold_right]. lia.
      * apply bind_inv in H as (s2 & _ & H). apply bind_inv in H as ([x s3] & E1 & H).
        apply bind_inv in H as ([ys s4] & E2 & H). inversion H; subst.
        apply IH1 in E1; [| assumption]. apply IH2 in E2; [| assumption].
        cbn [fmax fold_right]. fold (fmax ys). lia.
    + intros dp first seen s kvs s' Hd H. rewrite dec_pairs_S in H.
      apply bind_inv in H as (s1 & _ & H).
      destruct ((tok s1 =? 125) || (tok s1 =? 93)).
      * destruct (tok s1 =? 125); [| discriminate]. inversion H; subst. cbn [fmaxkv fold_right]. lia.
      * apply bind_inv in H as (s2 & _ & H). destruct (smap D).
        -- apply bind_inv in H as ([k s3] & Ek & H). apply bind_inv in H as (s4 & _ & H).
           destruct (seen_key seen k); [discriminate |].
           apply bind_inv in H as ([v s5] & Ev & H). apply bind_inv in H as ([ys s6] & Ey & H).
           inversion H; subst. apply dec_strkey_depth in Ek. apply IH1 in Ev; [| assumption].
           apply IH3 in Ey; [| assumption].
           cbn [fmaxkv fold_right fst snd]. fold (fmaxkv ys). lia.
        -- apply bind_inv in H as ([k s3] & Ek & H). apply bind_inv in H as (s4 & _ & H).
           apply bind_inv in H as (s5 & _ & H).
           destruct (unhashable k); [discriminate |]. destruct (seen_key seen k); [discriminate |].
           apply bind_inv in H as ([v s6] & Ev & H). apply bind_inv in H as ([ys s7] & Ey & H).
           inversion H; subst. apply IH1 in Ek; [| assumption]. apply IH1 in Ev; [| assumption].
           apply IH3 in Ey; [| assumption].
           cbn [fmaxkv fold_right fst snd]. fold (fmaxkv ys). lia.
Qed.

Lemma maxdepth_pos : forall D, (1 <= maxdepth D)%Z.
Proof.
  intros D. unfold maxdepth. destruct (0 <? maxDepthOpt D)%Z eqn:E; [apply Z.ltb_lt in E; lia | vm_compute; discriminate].
Qed.

(* one Decode(&interface{}) call from ANY tokenizer state (any input, any pending token), any position *)
Lemma json_dec_depth_val : forall (D : dopts) (fuel : nat) (key : bool) (s : st) (i : item) (s' : st),
  dec L D fuel 0 key s = Ok (i, s') -> (Z.of_nat (depth i) < maxdepth D)%Z.
Proof.
  intros D fuel key s i s' H. pose proof (maxdepth_pos D) as Hp.
  pose proof (proj1 (dec_val D fuel) 0%Z key s i s' ltac:(lia) H). lia.
Qed.

Lemma json_error : forall (D : dopts) (fuel : nat) (l : list N) (i : item) (rest : list N),
  (maxdepth D <= Z.of_nat (depth i))%Z -> dec_naked L D fuel l <> Ok (i, rest).
Proof.
  intros D fuel l i rest Hd H. unfold dec_naked in H.
  apply bind_inv in H as ([j s] & E & H). inversion H; subst.
  apply json_dec_depth_val in E. lia.
Qed.

(* the recursion counter of the instrumented decoder (one level per nested decode(&interface{})
   call, the top call being level 1), as  counter <= c1 * MaxDepth + c0  with c1 = 1, c0 = 0;
   the skip scanner is one loop: recursion level 1, whatever the input *)
Lemma json_bound : forall (D : dopts) (fuel : nat) (s : st),
  fst (deci L D fuel 0 1 false s) = dec L D fuel 0 false s /\
  (Z.of_nat (snd (deci L D fuel 0 1 false s)) <= 1 * maxdepth D + 0)%Z /\
  (Z.of_nat skip_maxrec <= 1 * maxdepth D + 0)%Z.
Proof.
  intros D fuel s. destruct (depth_lemma L D fuel s) as [E Hm]. pose proof (maxdepth_pos D).
  repeat apply conj; [exact E | lia | unfold skip_maxrec; lia].
Qed.

End Full.

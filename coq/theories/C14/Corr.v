(* C14/Corr — correspondence for C14 (and the dispatcher C02/Corr reuses): the four wire models
   (Wire/Cbor, Msgpack, Simple, Binc) behind one interface, evaluated on the inputs
   harness/cmd/c14 ran against the real Decoder on the interface{} / Raw / unknown-field paths. *)
From Coq Require Import List NArith ZArith Bool.
From Verif Require Import Base.Outcome Wire.Item Gen.Consts.
From Verif Require Wire.Cbor Wire.Msgpack Wire.Simple Wire.Binc.
Import ListNotations.
Open Scope bool_scope.
Open Scope N_scope.

(* the options the four models know, in the harness's format-independent form *)
Record opts := mkopts {
  o_maxdepth : Z;        (* BasicHandle.MaxDepth as given (<= 0: default) *)
  o_signed : bool;       (* SignedInteger *)
  o_raw2str : bool;      (* RawToString *)
  o_skiptags : bool;     (* cbor SkipUnexpectedTags *)
  o_writeext : bool }.   (* msgpack WriteExt *)

Definition eff_maxdepth (o : opts) : Z := if (0 <? o_maxdepth o)%Z then o_maxdepth o else decDefMaxDepth.

Definition cbor_D (o : opts) : Cbor.dopts := Cbor.mkdo (o_signed o) (o_raw2str o) (o_skiptags o) (o_maxdepth o).
Definition msgpack_D (o : opts) : Msgpack.dopts := Msgpack.mkdopts (o_writeext o) (o_raw2str o) (o_signed o) (o_maxdepth o).
Definition simple_D (o : opts) : Simple.dopts := Simple.mkdopts (o_signed o) (o_raw2str o) (o_maxdepth o).
Definition binc_D (o : opts) : Binc.dopts :=
  {| Binc.maxdepth := Z.to_N (eff_maxdepth o); Binc.signedInt := o_signed o; Binc.rawToString := o_raw2str o |}.

(* error classes as codec.VerifErrClass reports them: 1 input ended, 4 depth, 2 anything else *)
Definition coarse (e : eclass) : N := match e with EEof => 1 | EDepth => 4 | _ => 2 end.

Inductive verdict :=
| VOk (nread : N)        (* no error; NumBytesRead *)
| VErr (c : N)
| VOut                   (* outside the modelled domain (repeated map key, unsupported tag content) *)
| VFuel.

Definition nread_of (b rest : list N) : N := N.of_nat (length b - length rest).

Definition lift {A} (b : list N) (rest_of : A -> list N) (r : res A) (out : eclass -> bool) : verdict :=
  match r with
  | Ok a => VOk (nread_of b (rest_of a))
  | Err e => if out e then VOut else VErr (coarse e)
  | OutOfFuel => VFuel
  end.

Definition is_unsupported (e : eclass) : bool := match e with EUnsupported => true | _ => false end.
Definition is_user (e : eclass) : bool := match e with EUser => true | _ => false end.
Definition never (e : eclass) : bool := false.

(* kind 1: Decode(&interface{}); 2: Decode(&Raw) (walker at depth 0); 3: the value of an unknown
   field of a struct decoded from a map (kStruct's mapStart has counted one level; walker at depth 1) *)
Definition run (fmt kind : N) (o : opts) (b : list N) : verdict :=
  let in_struct := (1 <? eff_maxdepth o)%Z in
  match fmt with
  | 0 => (* cbor *)
      let D := cbor_D o in
      if kind =? 1 then lift b snd (Cbor.dec_naked D (Cbor.fuel_for b) b) is_unsupported
      else if kind =? 2 then lift b (fun r => r) (Cbor.skip D (Cbor.fuel_for b) 0 b) never
      else if in_struct then lift b (fun r => r) (Cbor.skip D (Cbor.fuel_for b) 1 b) never else VErr 4
  | 1 => (* msgpack *)
      let D := msgpack_D o in
      if kind =? 1 then lift b snd (Msgpack.dec_naked D (Msgpack.dec_fuel b) b) never
      else if kind =? 2 then lift b (fun r => r) (Msgpack.skip D (Msgpack.dec_fuel b) b) never
      else lift b (fun r => r) (Msgpack.skip_in_struct D (Msgpack.dec_fuel b) b) never
  | 2 => (* simple *)
      let D := simple_D o in
      if kind =? 1 then lift b snd (Simple.dec_naked D (Simple.dec_fuel b) b) is_unsupported
      else if kind =? 2 then lift b (fun vz => Simple.suf (snd vz)) (Simple.nvb D (Simple.dec_fuel b) 0 (Simple.rd_init b)) never
      else if in_struct then lift b (fun vz => Simple.suf (snd vz)) (Simple.nvb D (Simple.dec_fuel b) 1 (Simple.rd_init b)) never else VErr 4
  | _ => (* binc *)
      let D := binc_D o in
      if kind =? 1 then lift b (fun x => snd (fst x)) (Binc.dec_naked D Binc.dstate0 b) is_user
      else if kind =? 2 then lift b (fun x => snd (fst x)) (Binc.skip_value D Binc.dstate0 b) is_user
      else if in_struct then lift b (fun x => snd (fst x)) (Binc.skip D (Binc.fuel_r D) (Binc.fuel_l b) 1 Binc.dstate0 b) is_user else VErr 4
  end.

(* observed: class 0 (no error) with NumBytesRead, or an error class *)
Definition agrees (v : verdict) (cls nread : N) : bool :=
  match v with
  | VOk n => (cls =? 0) && (n =? nread)
  | VErr c => cls =? c
  | VOut => true
  | VFuel => false
  end.

(* the harness writes nested inputs as run-length segments *)
Definition bcat (blk : list N) (n : N) : list N := concat (repeat blk (N.to_nat n)).
Definition segs_bytes (l : list (list N * N)) : list N := concat (map (fun s => bcat (fst s) (snd s)) l).

Record case := mkcase {
  cid : N;
  cfmt : N;              (* 0 cbor, 1 msgpack, 2 simple, 3 binc *)
  ckind : N;
  copts : opts;
  csegs : list (list N * N);
  o_class : N;
  o_nread : N }.

Definition check_case (c : case) : bool :=
  agrees (run (cfmt c) (ckind c) (copts c) (segs_bytes (csegs c))) (o_class c) (o_nread c).

Definition mismatches (cs : list case) : list N :=
  map cid (filter (fun c => negb (check_case c)) cs).

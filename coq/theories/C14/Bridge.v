(* C14/Bridge — the wire-layer lemmas in the shape Properties/C14.v states them:
   per format, one bound for the recursion counter of the decode-into-interface{} model AND of
   the skip / raw-capture walker, as  counter <= c1 * MaxDepth + c0  with c1 = 1, c0 = 0. *)
From Coq Require Import List NArith ZArith Lia Bool Arith.
From Verif Require Import Base.Outcome Wire.Item Gen.Consts.
From Verif Require Wire.Cbor Wire.CborDepth Wire.CborTotal.
From Verif Require Wire.Msgpack Wire.MsgpackProofs.
From Verif Require Wire.Simple Wire.SimpleDepth Wire.SimpleTotal.
From Verif Require Wire.Binc Wire.BincProofs.
Import ListNotations.

(* ------------------------------ cbor ------------------------------ *)
Lemma cbor_maxdepth_pos : forall D, (1 <= Cbor.maxdepth D)%Z.
Proof.
  intros D. unfold Cbor.maxdepth. destruct (0 <? Cbor.do_maxdepth D)%Z eqn:E.
  - apply Z.ltb_lt in E. lia.
  - vm_compute. discriminate.
Qed.

Lemma cbor_bound : forall (D : Cbor.dopts) (f : nat) (b : list N),
  (Z.of_nat (Cbor.dec_maxrec D f b) <= 1 * Cbor.maxdepth D + 0)%Z /\
  (forall d, (0 <= d)%Z -> (Z.of_nat (Cbor.skip_maxrec D f d b) <= 1 * Cbor.maxdepth D + 0)%Z).
Proof.
  intros D f b. pose proof (cbor_maxdepth_pos D) as Hp. split.
  - pose proof (CborDepth.dec_maxrec_lemma D f b). lia.
  - intros d Hd. pose proof (CborDepth.skip_maxrec_lemma D f d b Hd). lia.
Qed.

(* nesting beyond MaxDepth, in any mixture of one-element arrays, one-entry maps (nesting through
   the value) and kept tags: the depth error, at every starting depth and recursion level *)
Inductive nk := NArr | NMapV | NTag.
Definition npre (k : nk) : list N :=
  match k with NArr => [129] | NMapV => [161; 1] | NTag => [201] end%N.
Fixpoint nest (l : list nk) (core : list N) : list N :=
  match l with [] => core | k :: t => npre k ++ nest t core end.

Lemma nest_nonempty : forall l core, core <> [] -> nest l core <> [].
Proof. intros [| [] t] core H; cbn; try assumption; discriminate. Qed.

Lemma fst_bindI_err {A B} : forall (m : Cbor.resI A) (k : A -> Cbor.resI B) e,
  fst m = Err e -> fst (Cbor.bindI m k) = Err e.
Proof. intros m k e H. unfold Cbor.bindI. rewrite H. reflexivity. Qed.

Lemma fst_bindI_ok {A B} : forall (m : Cbor.resI A) (k : A -> Cbor.resI B) a,
  fst m = Ok a -> fst (Cbor.bindI m k) = fst (k a).
Proof. intros m k a H. unfold Cbor.bindI. rewrite H. reflexivity. Qed.

Lemma cbor_nest_err : forall D core, Cbor.do_skiptags D = false -> core <> [] ->
  forall l f d r, (Cbor.maxdepth D <= d + Z.of_nat (length l))%Z -> (d < Cbor.maxdepth D)%Z ->
  (3 * length l + 1 <= f)%nat ->
  fst (Cbor.dec D f d r (nest l core)) = Err EDepth.
Proof.
  intros D core Hst Hcore. induction l as [| k t IH]; intros f d r Hdeep Hd Hf.
  - cbn [length] in Hdeep. lia.
  - cbn [length] in Hdeep, Hf.
    destruct f as [| f1]; [lia |]. destruct f1 as [| f2]; [lia |]. destruct f2 as [| f3]; [lia |].
    assert (Hne : nest t core <> []) by (apply nest_nonempty; assumption).
    destruct (Cbor.depth_ok D d) eqn:Hok.
    + (* one more level fits: the error comes from deeper *)
      assert (Hd1 : (d + 1 < Cbor.maxdepth D)%Z) by (unfold Cbor.depth_ok in Hok; apply Z.ltb_lt in Hok; lia).
      destruct k; cbn [nest npre app].
      * (* array of one element *)
        change (fst (Cbor.dec D (S (S (S f3))) d r (129%N :: nest t core)))
          with (fst (Cbor.dec_body D (S (S f3)) (Cbor.dec D (S (S f3))) (Cbor.arr_def D (S (S f3))) (Cbor.arr_indef D (S (S f3)))
                       (Cbor.map_def D (S (S f3))) (Cbor.map_indef D (S (S f3))) d r 129%N (nest t core))).
        unfold Cbor.dec_body. change (Cbor.kind_of 129%N) with Cbor.KArr. change (129 =? Cbor.bdIndefArray)%N with false.
        change (Cbor.dec_len (129 mod 32)%N (nest t core)) with (@Ok (N * list N) (1%N, nest t core)).
        cbv beta iota. unfold Cbor.bindI at 1. cbn [fst snd Cbor.liftI]. rewrite Hok.
        apply fst_bindI_err. cbn [Cbor.arr_def]. change (1 =? 0)%N with false. cbv iota.
        apply fst_bindI_err. apply IH; lia.
      * (* map of one entry, nesting through the value *)
        change (fst (Cbor.dec D (S (S (S f3))) d r (161%N :: 1%N :: nest t core)))
          with (fst (Cbor.dec_body D (S (S f3)) (Cbor.dec D (S (S f3))) (Cbor.arr_def D (S (S f3))) (Cbor.arr_indef D (S (S f3)))
                       (Cbor.map_def D (S (S f3))) (Cbor.map_indef D (S (S f3))) d r 161%N (1%N :: nest t core))).
        unfold Cbor.dec_body. change (Cbor.kind_of 161%N) with Cbor.KMap. change (161 =? Cbor.bdIndefMap)%N with false.
        change (Cbor.dec_len (161 mod 32)%N (1%N :: nest t core)) with (@Ok (N * list N) (1%N, 1%N :: nest t core)).
        cbv beta iota. unfold Cbor.bindI at 1. cbn [fst snd Cbor.liftI]. rewrite Hok.
        apply fst_bindI_err. cbn [Cbor.map_def]. change (1 =? 0)%N with false. cbv iota.
        apply fst_bindI_err. unfold Cbor.map_entry.
        (* the key: the unsigned integer 1 *)
        assert (Hk : exists k0, Cbor.dec D (S f3) (d + 1)%Z (S r) (1%N :: nest t core) = (Ok (k0, nest t core), S r)
                                /\ Cbor.hashable (Cbor.keynorm k0) = true).
        { cbn [Cbor.dec]. unfold Cbor.dec_body. change (Cbor.kind_of 1%N) with Cbor.KUint.
          change (Cbor.read_uint (1 mod 32)%N (nest t core)) with (@Ok (N * list N) (1%N, nest t core)).
          cbn [bind]. destruct (Cbor.do_signed D).
          - exists (IInt 1). split; reflexivity.
          - exists (IUint 1). split; reflexivity. }
        destruct Hk as (k0 & Hk & Hh). unfold Cbor.bindI at 1. rewrite Hk. cbn [fst snd].
        pose proof (IH (S f3) (d + 1)%Z (S r) ltac:(lia) ltac:(lia) ltac:(lia)) as IHv.
        destruct (nest t core) as [| x xs] eqn:En; [contradiction |].
        rewrite Hh. cbn [negb existsb]. cbv iota.
        apply fst_bindI_err. exact IHv.
      * (* a tag the decoder keeps *)
        change (fst (Cbor.dec D (S (S (S f3))) d r (201%N :: nest t core)))
          with (fst (Cbor.dec_body D (S (S f3)) (Cbor.dec D (S (S f3))) (Cbor.arr_def D (S (S f3))) (Cbor.arr_indef D (S (S f3)))
                       (Cbor.map_def D (S (S f3))) (Cbor.map_indef D (S (S f3))) d r 201%N (nest t core))).
        unfold Cbor.dec_body. change (Cbor.kind_of 201%N) with Cbor.KTag.
        change (Cbor.read_uint (201 mod 32)%N (nest t core)) with (@Ok (N * list N) (9%N, nest t core)).
        cbv beta iota. rewrite (fst_bindI_ok _ _ (9%N, nest t core)) by reflexivity. cbv beta iota. unfold Cbor.dec_tag.
        change (9 =? 0)%N with false. change (9 =? 1)%N with false. change (9 =? 2)%N with false. change (9 =? 3)%N with false.
        change (9 =? 4)%N with false. change (9 =? 5)%N with false. change (9 =? 55799)%N with false.
        rewrite Hst, Hok. cbn [orb]. cbv iota.
        apply fst_bindI_err. apply IH; lia.
    + (* this level does not fit *)
      destruct k; cbn [nest npre app].
      * change (fst (Cbor.dec D (S (S (S f3))) d r (129%N :: nest t core)))
          with (fst (Cbor.dec_body D (S (S f3)) (Cbor.dec D (S (S f3))) (Cbor.arr_def D (S (S f3))) (Cbor.arr_indef D (S (S f3)))
                       (Cbor.map_def D (S (S f3))) (Cbor.map_indef D (S (S f3))) d r 129%N (nest t core))).
        unfold Cbor.dec_body. change (Cbor.kind_of 129%N) with Cbor.KArr. change (129 =? Cbor.bdIndefArray)%N with false.
        change (Cbor.dec_len (129 mod 32)%N (nest t core)) with (@Ok (N * list N) (1%N, nest t core)).
        cbv beta iota. unfold Cbor.bindI at 1. cbn [fst snd Cbor.liftI]. rewrite Hok. reflexivity.
      * change (fst (Cbor.dec D (S (S (S f3))) d r (161%N :: 1%N :: nest t core)))
          with (fst (Cbor.dec_body D (S (S f3)) (Cbor.dec D (S (S f3))) (Cbor.arr_def D (S (S f3))) (Cbor.arr_indef D (S (S f3)))
                       (Cbor.map_def D (S (S f3))) (Cbor.map_indef D (S (S f3))) d r 161%N (1%N :: nest t core))).
        unfold Cbor.dec_body. change (Cbor.kind_of 161%N) with Cbor.KMap. change (161 =? Cbor.bdIndefMap)%N with false.
        change (Cbor.dec_len (161 mod 32)%N (1%N :: nest t core)) with (@Ok (N * list N) (1%N, 1%N :: nest t core)).
        cbv beta iota. unfold Cbor.bindI at 1. cbn [fst snd Cbor.liftI]. rewrite Hok. reflexivity.
      * change (fst (Cbor.dec D (S (S (S f3))) d r (201%N :: nest t core)))
          with (fst (Cbor.dec_body D (S (S f3)) (Cbor.dec D (S (S f3))) (Cbor.arr_def D (S (S f3))) (Cbor.arr_indef D (S (S f3)))
                       (Cbor.map_def D (S (S f3))) (Cbor.map_indef D (S (S f3))) d r 201%N (nest t core))).
        unfold Cbor.dec_body. change (Cbor.kind_of 201%N) with Cbor.KTag.
        change (Cbor.read_uint (201 mod 32)%N (nest t core)) with (@Ok (N * list N) (9%N, nest t core)).
        cbv beta iota. rewrite (fst_bindI_ok _ _ (9%N, nest t core)) by reflexivity. cbv beta iota. unfold Cbor.dec_tag.
        change (9 =? 0)%N with false. change (9 =? 1)%N with false. change (9 =? 2)%N with false. change (9 =? 3)%N with false.
        change (9 =? 4)%N with false. change (9 =? 5)%N with false. change (9 =? 55799)%N with false.
        rewrite Hst, Hok. reflexivity.
Qed.

Lemma cbor_error : forall (D : Cbor.dopts) (l : list nk) (core : list N) (f : nat),
  Cbor.do_skiptags D = false -> core <> [] -> (Cbor.maxdepth D <= Z.of_nat (length l))%Z -> (3 * length l + 1 <= f)%nat ->
  Cbor.dec_naked D f (nest l core) = Err EDepth.
Proof.
  intros D l core f Hst Hc Hdeep Hf. unfold Cbor.dec_naked.
  apply cbor_nest_err; try assumption; try lia. pose proof (cbor_maxdepth_pos D). lia.
Qed.

(* ------------------------------ msgpack ------------------------------ *)
Lemma msgpack_bound : forall (D : Msgpack.dopts) (f : nat) (b : list N),
  (Z.of_nat (Msgpack.dec_maxrec D f b) <= 1 * Msgpack.maxdepth D + 0)%Z /\
  (Z.of_nat (Msgpack.skip_maxrec D f b) <= 1 * Msgpack.maxdepth D + 0)%Z.
Proof.
  intros. pose proof (MsgpackProofs.dec_depth_rec D f b). pose proof (MsgpackProofs.skip_depth_rec D f b). lia.
Qed.

Lemma msgpack_error : forall (D : Msgpack.dopts) (f : nat) (b : list N) (i : item) (rest : list N),
  (Msgpack.maxdepth D <= Z.of_nat (depth i))%Z -> Msgpack.dec_naked D f b <> Ok (i, rest).
Proof.
  intros D f b i rest Hd H. pose proof (MsgpackProofs.dec_depth_val D f b i rest H). lia.
Qed.

(* ------------------------------ simple ------------------------------ *)
Lemma simple_bound : forall (D : Simple.dopts) (l : list N) (fuel : nat),
  (Z.of_nat (Simple.maxrec (snd (Simple.dec_naked_i D fuel l))) <= 1 * Simple.maxdepth D + 0)%Z /\
  fst (Simple.dec_naked_i D fuel l) = Simple.dec_naked D fuel l /\
  (forall dp z, (2 * length (Simple.suf z) + 1 <= fuel)%nat -> (0 <= dp)%Z ->
     (Z.of_nat (snd (Simple.nvb_i D fuel dp z)) <= 1 * Simple.maxdepth D + 0)%Z).
Proof.
  intros D l fuel. destruct (SimpleDepth.W_simple_depth_bound_lemma D l fuel) as (E & _ & Hm).
  repeat apply conj; [lia | exact E |].
  intros dp z Hf Hdp. pose proof (SimpleTotal.W_simple_skip_depth_lemma D dp z fuel Hf Hdp).
  pose proof (SimpleDepth.maxdepth_pos D). lia.
Qed.

(* ------------------------------ binc ------------------------------ *)
(* binc's model carries its recursion counter as recursion FUEL (one unit per nested value): that
   MaxDepth units always suffice is the bound *)
Lemma binc_bound : forall (o : Binc.dopts) (st : Binc.dstate) (inp : list N),
  (1 <= Binc.maxdepth o)%N ->
  Binc.dec o (N.to_nat (1 * Binc.maxdepth o + 0)) (Binc.fuel_l inp) 0 st inp <> OutOfFuel /\
  Binc.skip o (N.to_nat (1 * Binc.maxdepth o + 0)) (Binc.fuel_l inp) 0 st inp <> OutOfFuel.
Proof.
  intros o st inp H. replace (1 * Binc.maxdepth o + 0)%N with (Binc.maxdepth o) by lia. split.
  - exact (BincProofs.dec_naked_total o st inp H).
  - exact (BincProofs.skip_value_total o st inp H).
Qed.

Lemma binc_error : forall (o : Binc.dopts) (st : Binc.dstate) (inp : list N) (x : item) (r : list N) (st' : Binc.dstate),
  (1 <= Binc.maxdepth o)%N -> (Binc.maxdepth o <= N.of_nat (depth x))%N -> Binc.dec_naked o st inp <> Ok (x, r, st').
Proof.
  intros o st inp x r st' Hp Hd H. unfold Binc.dec_naked in H.
  assert (H0 : (0 < Binc.maxdepth o)%N) by lia.
  pose proof (BincProofs.dec_depth_ok _ o _ 0%N _ _ _ _ _ H0 H). lia.
Qed.

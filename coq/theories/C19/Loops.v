(* C19 — the container loops of [merge] (Spec.v) and [dec_refl] (Model.v) as first-class
   functions over the element decoder, and the unfolding equations that expose them. *)
From Coq Require Import List NArith ZArith Arith Bool Lia.
From Verif Require Import Base.Outcome Wire.Item C19.Spec C19.Model.
Import ListNotations.

Definition is_nil (it : item) : bool := match it with INil => true | _ => false end.
Definition old_slice (d : gv) : list gv := match d with VSlice (Some xs) => xs | _ => [] end.
Definition old_map (d : gv) : list (str * gv) := match d with VMap (Some m) => m | _ => [] end.
Definition old_struct (d : gv) : list gv := match d with VStruct xs => xs | _ => [] end.
Definition ftype (fs : list (str * ty)) (i : nat) : ty := snd (nth i fs ([], TInt)).
Definition fval (xs : list gv) (i : nat) : gv := nth i xs (VInt 0).

Fixpoint slice_upd (f : gv -> item -> res gv) (reset : bool) (z : gv) (l : list item) (old : list gv) : res (list gv) :=
  match l with
  | [] => Ok []
  | x :: r =>
    let cur := match old with c :: _ => if reset then z else c | [] => z end in
    do y <- f cur x ;; do ys <- slice_upd f reset z r (tl old) ;; Ok (y :: ys)
  end.

Fixpoint map_upd (f : gv -> item -> res gv) (reset : bool) (z : gv) (kvs : list (item * item)) (m : list (str * gv)) : res (list (str * gv)) :=
  match kvs with
  | [] => Ok m
  | (k, x) :: r =>
    match k with
    | IStr key =>
      let cur := match assoc key m with Some c => if reset then z else c | None => z end in
      do y <- f cur x ;; map_upd f reset z r (assoc_set key y m)
    | _ => Err EBadDesc
    end
  end.

Fixpoint smap_upd (f : ty -> gv -> item -> res gv) (fs : list (str * ty)) (kvs : list (item * item)) (xs : list gv) : res (list gv) :=
  match kvs with
  | [] => Ok xs
  | (k, x) :: r =>
    match k with
    | IStr key =>
      match index_of_name key fs 0 with
      | Some i => do y <- f (ftype fs i) (fval xs i) x ;; smap_upd f fs r (set_nth xs i y)
      | None => smap_upd f fs r xs
      end
    | _ => Err EBadDesc
    end
  end.

Fixpoint sarr_upd (f : ty -> gv -> item -> res gv) (fs : list (str * ty)) (l : list item) (i : nat) (xs : list gv) : res (list gv) :=
  match l with
  | [] => Ok xs
  | x :: r =>
    if i <? length fs then do y <- f (ftype fs i) (fval xs i) x ;; sarr_upd f fs r (S i) (set_nth xs i y)
    else sarr_upd f fs r (S i) xs
  end.

Definition iface_upd (o : dopts) (d : gv) (it : item) : res gv :=
  match d with
  | VIface (Some (VInt _)) => if o_iface_reset o then naked it else do x <- scalar_of TInt it ;; Ok (VIface (Some x))
  | VIface (Some (VStr _)) => if o_iface_reset o then naked it else do x <- scalar_of TStr it ;; Ok (VIface (Some x))
  | _ => naked it
  end.

(* what is done with the value reached after the pointers, by its type *)
Definition body (rec frec : ty -> gv -> item -> res gv) (sreset : ty -> bool) (o : dopts) (b : ty) (d : gv) (it : item) : res gv :=
  match b with
  | TInt | TStr => scalar_of b it
  | TPtr _ => Err EOther
  | TSlice e =>
    match it with
    | IArr l => do xs <- slice_upd (rec e) (sreset e) (zero_of e) l (old_slice d) ;; Ok (VSlice (Some xs))
    | _ => Err EBadDesc
    end
  | TMap e =>
    match it with
    | IMap kvs => do m <- map_upd (rec e) (o_map_value_reset o) (zero_of e) kvs (old_map d) ;; Ok (VMap (Some m))
    | _ => Err EBadDesc
    end
  | TStruct fs =>
    match it with
    | IMap kvs => do xs <- smap_upd frec fs kvs (old_struct d) ;; Ok (VStruct xs)
    | IArr l => do xs <- sarr_upd frec fs l 0 (old_struct d) ;; Ok (VStruct xs)
    | _ => Err EBadDesc
    end
  | TIface => iface_upd o d it
  end.

Definition through (t : ty) (d : gv) (k : ty -> gv -> res gv) : res gv :=
  let '(b, c, w) := peel t d in do r <- k b c ;; Ok (w r).

(* kStructField *)
Definition field_dec (fp : bool) (o : dopts) (t : ty) (c : gv) (x : item) : res gv :=
  match x with INil => Ok (field_nil t c) | _ => dec_refl fp o t c x end.

Definition refl_reset (fp : bool) (o : dopts) (e : ty) : bool := o_slice_elem_reset o && negb (fp && is_iface e).

Lemma merge_eqn : forall o t d it, is_nil it = false ->
  merge o t d it = through t d (fun b c => body (merge o) (merge o) (fun _ => o_slice_elem_reset o) o b c it).
Proof.
  intros o t d it Hn. unfold through.
  destruct it; try discriminate; unfold merge; cbn [merge_x unbox]; destruct (peel t d) as [[bt c] w]; destruct bt as [| |e|e|e|fs|]; try reflexivity.
  - (* IArr, slice *)
    unfold body. f_equal.
    match goal with |- (do xs <- ?F l ?oo ;; _) = _ =>
      assert (G : forall l old, F l old = slice_upd (merge o e) (o_slice_elem_reset o) (zero_of e) l old) end.
    { clear. induction l as [|x r IH]; intro old; [reflexivity|]. simpl. fold merge. fold dec_refl.
      match goal with |- (do y <- ?A ;; _) = _ => destruct A end; simpl; [rewrite IH; reflexivity|reflexivity|reflexivity]. }
    rewrite G. reflexivity.
  - (* IArr, struct *)
    unfold body. f_equal.
    match goal with |- (do xs <- ?F l 0 ?oo ;; _) = _ =>
      assert (G : forall l i xs, F l i xs = sarr_upd (merge o) fs l i xs) end.
    { clear. induction l as [|x r IH]; intros i xs; [reflexivity|]. simpl. fold merge. fold dec_refl. destruct (i <? length fs); [|apply IH].
      unfold ftype, fval. match goal with |- (do y <- ?A ;; _) = _ => destruct A end; simpl; [apply IH|reflexivity|reflexivity]. }
    rewrite G. reflexivity.
  - (* IMap, map *)
    unfold body. f_equal.
    match goal with |- (do m <- ?F l ?oo ;; _) = _ =>
      assert (G : forall kvs m, F kvs m = map_upd (merge o e) (o_map_value_reset o) (zero_of e) kvs m) end.
    { clear. induction kvs as [|[k x] r IH]; intro m; [reflexivity|]. simpl. fold merge. fold dec_refl. destruct k; try reflexivity.
      match goal with |- (do y <- ?A ;; _) = _ => destruct A end; simpl; [apply IH|reflexivity|reflexivity]. }
    rewrite G. reflexivity.
  - (* IMap, struct *)
    unfold body. f_equal.
    match goal with |- (do xs <- ?F l ?oo ;; _) = _ =>
      assert (G : forall kvs xs, F kvs xs = smap_upd (merge o) fs kvs xs) end.
    { clear. induction kvs as [|[k x] r IH]; intro xs; [reflexivity|]. simpl. fold merge. fold dec_refl. destruct k; try reflexivity.
      destruct (index_of_name s fs 0); [|apply IH].
      unfold ftype, fval. match goal with |- (do y <- ?A ;; _) = _ => destruct A end; simpl; [apply IH|reflexivity|reflexivity]. }
    rewrite G. reflexivity.
Qed.

Lemma refl_eqn : forall fp o t d it, is_nil it = false ->
  dec_refl fp o t d it = through t d (fun b c => body (dec_refl fp o) (field_dec fp o) (refl_reset fp o) o b c it).
Proof.
  intros fp o t d it Hn. unfold through.
  destruct it; try discriminate; unfold dec_refl; cbn [dec_refl_x unbox]; destruct (peel t d) as [[bt c] w]; destruct bt as [| |e|e|e|fs|]; try reflexivity.
  - unfold body. f_equal.
    match goal with |- (do xs <- ?F l ?oo ;; _) = _ =>
      assert (G : forall l old, F l old = slice_upd (dec_refl fp o e) (refl_reset fp o e) (zero_of e) l old) end.
    { clear. induction l as [|x r IH]; intro old; [reflexivity|]. simpl. fold merge. fold dec_refl. unfold refl_reset in *.
      match goal with |- (do y <- ?A ;; _) = _ => destruct A end; simpl; [rewrite IH; reflexivity|reflexivity|reflexivity]. }
    rewrite G. reflexivity.
  - unfold body. f_equal.
    match goal with |- (do xs <- ?F l 0 ?oo ;; _) = _ =>
      assert (G : forall l i xs, F l i xs = sarr_upd (field_dec fp o) fs l i xs) end.
    { clear. induction l as [|x r IH]; intros i xs; [reflexivity|]. simpl. fold merge. fold dec_refl. destruct (i <? length fs); [|apply IH].
      unfold ftype, fval, field_dec. match goal with |- (do y <- ?A ;; _) = _ => destruct A end; simpl; [apply IH|reflexivity|reflexivity]. }
    rewrite G. reflexivity.
  - unfold body. f_equal.
    match goal with |- (do m <- ?F l ?oo ;; _) = _ =>
      assert (G : forall kvs m, F kvs m = map_upd (dec_refl fp o e) (o_map_value_reset o) (zero_of e) kvs m) end.
    { clear. induction kvs as [|[k x] r IH]; intro m; [reflexivity|]. simpl. fold merge. fold dec_refl. destruct k; try reflexivity.
      match goal with |- (do y <- ?A ;; _) = _ => destruct A end; simpl; [apply IH|reflexivity|reflexivity]. }
    rewrite G. reflexivity.
  - unfold body. f_equal.
    match goal with |- (do xs <- ?F l ?oo ;; _) = _ =>
      assert (G : forall kvs xs, F kvs xs = smap_upd (field_dec fp o) fs kvs xs) end.
    { clear. induction kvs as [|[k x] r IH]; intro xs; [reflexivity|]. simpl. fold merge. fold dec_refl. destruct k; try reflexivity.
      destruct (index_of_name s fs 0); [|apply IH].
      unfold ftype, fval, field_dec. match goal with |- (do y <- ?A ;; _) = _ => destruct A end; simpl; [apply IH|reflexivity|reflexivity]. }
    rewrite G. reflexivity.
Qed.

(* C19 — the generated fast-path functions agree with the reflection path on every type the
   fast paths cover in this universe (slices and string-keyed maps of int, string, interface{}). *)
From Coq Require Import List NArith ZArith Arith Bool Lia.
From Verif Require Import Base.Outcome Wire.Item C19.Spec C19.Model C19.Loops C19.Proofs.
Import ListNotations.

Lemma bind_ok_id : forall (r : res gv), (do x <- r ;; Ok x) = r.
Proof. intros [x|e|]; reflexivity. Qed.

Lemma refl_iface : forall fp o d x,
  dec_refl fp o TIface d x = match x with INil => Ok (VIface None) | _ => iface_upd o d x end.
Proof.
  intros fp o d x. destruct x; [reflexivity|..]; rewrite refl_eqn by reflexivity; unfold through; simpl; apply bind_ok_id.
Qed.

Lemma iface_upd_reset : forall o d x, o_iface_reset o = true -> iface_upd o d x = naked x.
Proof.
  intros o d x H. unfold iface_upd. rewrite H.
  destruct d as [| |p|l|m|fs|[v|]|dt dv]; try reflexivity. destruct v; reflexivity.
Qed.

Definition elem_guard (fp : bool) (o : dopts) (e : ty) : Prop := is_iface e = true -> refl_reset fp o e = false.

Lemma fast_slice_go_refl : forall fp o e, fast_elem e = true -> elem_guard fp o e -> forall l old,
  fast_slice_go false o e l old = slice_upd (dec_refl fp o e) (refl_reset fp o e) (zero_of e) l old.
Proof.
  intros fp o e He Hg. induction l as [|x r IH]; intro old; [reflexivity|].
  cbn [fast_slice_go slice_upd]. rewrite IH.
  destruct e; try discriminate.
  - rewrite (refl_scalar fp o TInt _ x (or_introl eq_refl)). reflexivity.
  - rewrite (refl_scalar fp o TStr _ x (or_intror eq_refl)). reflexivity.
  - rewrite (Hg eq_refl). unfold fast_slice_elem. rewrite !refl_iface. destruct old; reflexivity.
Qed.

Lemma fast_map_go_refl : forall fp o e, fast_elem e = true -> forall kvs m,
  fast_map_go false o e kvs m = map_upd (dec_refl fp o e) (o_map_value_reset o) (zero_of e) kvs m.
Proof.
  intros fp o e He. induction kvs as [|[k x] r IH]; intro m; [reflexivity|].
  cbn [fast_map_go map_upd]. destruct k; try reflexivity.
  destruct e; try discriminate.
  - rewrite (refl_scalar fp o TInt _ x (or_introl eq_refl)).
    destruct (match x with INil => _ | _ => _ end); simpl; auto.
  - rewrite (refl_scalar fp o TStr _ x (or_intror eq_refl)).
    destruct (match x with INil => _ | _ => _ end); simpl; auto.
  - rewrite !refl_iface. change (zero_of TIface) with (VIface None) in *.
    assert (E : match x with INil => Ok (VIface None)
                | _ => iface_upd o (if negb (o_map_value_reset o) && negb (o_iface_reset o)
                                    then match assoc s m with Some c => c | None => VIface None end else VIface None) x end
              = match x with INil => Ok (VIface None)
                | _ => iface_upd o (match assoc s m with
                                    | Some c => if o_map_value_reset o then VIface None else c
                                    | None => VIface None end) x end).
    { destruct (o_map_value_reset o) eqn:Em; simpl.
      - destruct (assoc s m); reflexivity.
      - destruct (o_iface_reset o) eqn:Ei; simpl; [|reflexivity].
        destruct x; try reflexivity; rewrite !iface_upd_reset by exact Ei; reflexivity. }
    rewrite E. clear E. match goal with |- (do y <- ?A ;; _) = _ => destruct A end; simpl; auto.
Qed.

(* fast path = reflection path, for every stream item *)
Theorem fast_is_refl : forall fp o t d it, has_fastpath t = true ->
  (forall e, t = TSlice e -> elem_guard fp o e) ->
  dec_fast o t d it = dec_refl fp o t d it.
Proof.
  intros fp o t d it Hf Hg. unfold dec_fast, dec_fast_x. destruct it; [reflexivity|..]; rewrite refl_eqn by reflexivity; unfold through;
  destruct t as [| |e|e|e|fs|]; try discriminate; simpl in Hf |- *;
  try reflexivity.
  - (* IArr into slice *)
    rewrite (fast_slice_go_refl fp o e Hf (Hg e eq_refl)). unfold old_slice.
    destruct (slice_upd _ _ _ _ _); reflexivity.
  - (* IMap into map *)
    rewrite (fast_map_go_refl fp o e Hf). unfold old_map.
    destruct (map_upd _ _ _ _ _); reflexivity.
Qed.

Corollary fast_is_refl_true : forall o t d it, has_fastpath t = true ->
  dec_fast o t d it = dec_refl true o t d it.
Proof.
  intros. apply fast_is_refl; [assumption|]. intros e _ He. unfold refl_reset. rewrite He. simpl.
  apply andb_false_r.
Qed.

(* against the build without fast paths: equal unless SliceElementReset meets []interface{} *)
Corollary fast_is_refl_false : forall o t d it, has_fastpath t = true ->
  negb (o_slice_elem_reset o && match t with TSlice TIface => true | _ => false end) = true ->
  dec_fast o t d it = dec_refl false o t d it.
Proof.
  intros o t d it Hf Hg. apply fast_is_refl; [assumption|]. intros e -> He.
  destruct e; try discriminate. unfold refl_reset. simpl in *.
  destruct (o_slice_elem_reset o); [discriminate|reflexivity].
Qed.

(* C19 — the reflection path is the documented merge, for every type of the universe, every
   destination and every stream item, outside the two recorded defect classes. *)
From Coq Require Import List NArith ZArith Arith Bool Lia.
From Verif Require Import Base.Outcome Wire.Item C19.Spec C19.Model C19.Loops C19.Proofs.
Import ListNotations.

(* ---- the guards ---- *)
Fixpoint base_ty (t : ty) : ty := match t with TPtr e => base_ty e | _ => t end.
Definition is_ptr (t : ty) : bool := match t with TPtr _ => true | _ => false end.

(* F19-2's class: a []interface{} somewhere in the type, fast paths compiled in, SliceElementReset set *)
Fixpoint has_iface_slice (t : ty) : bool :=
  match t with
  | TSlice e => is_iface e || has_iface_slice e
  | TPtr e | TMap e => has_iface_slice e
  | TStruct fs => (fix go (fs : list (str * ty)) : bool :=
                     match fs with [] => false | (_, t') :: r => has_iface_slice t' || go r end) fs
  | _ => false
  end.
Definition paths_guard (fp : bool) (o : dopts) (t : ty) : bool :=
  negb (fp && o_slice_elem_reset o && has_iface_slice t).

(* F19-1's class: a stream nil aimed at a struct field of pointer type *)
Definition field_ok (ft : ty) (x : item) : bool := negb (is_ptr ft && is_nil x).

Fixpoint nil_ok (t : ty) (it : item) {struct it} : bool :=
  match it with
  | IArr l =>
    match base_ty t with
    | TSlice e => forallb (nil_ok e) l
    | TStruct fs => (fix go (l : list item) (i : nat) : bool :=
                       match l with
                       | [] => true
                       | x :: r => field_ok (ftype fs i) x && nil_ok (ftype fs i) x && go r (S i)
                       end) l 0
    | _ => true
    end
  | IMap kvs =>
    match base_ty t with
    | TMap e => (fix go (kvs : list (item * item)) : bool :=
                   match kvs with [] => true | (_, x) :: r => nil_ok e x && go r end) kvs
    | TStruct fs => (fix go (kvs : list (item * item)) : bool :=
                       match kvs with
                       | [] => true
                       | (k, x) :: r =>
                         match k with
                         | IStr key => match index_of_name key fs 0 with
                                       | Some i => field_ok (ftype fs i) x && nil_ok (ftype fs i) x
                                       | None => true
                                       end
                         | _ => true
                         end && go r
                       end) kvs
    | _ => true
    end
  | _ => true
  end.

(* ---- facts about the guards ---- *)
Lemma peel_base : forall t d b c w, peel t d = (b, c, w) -> b = base_ty t.
Proof.
  induction t; intros d b c w H; simpl in *; try (injection H as <- _ _; reflexivity).
  destruct (peel t _) as [[b' c'] w'] eqn:E. injection H as <- _ _. eapply IHt. exact E.
Qed.

Lemma his_base : forall t, has_iface_slice (base_ty t) = has_iface_slice t.
Proof. induction t; simpl; auto. Qed.

Lemma his_field : forall fs i, has_iface_slice (TStruct fs) = false -> has_iface_slice (ftype fs i) = false.
Proof.
  unfold ftype. induction fs as [|[n t'] r IH]; intros i H.
  - destruct i; reflexivity.
  - simpl in H. apply orb_false_iff in H as [H1 H2]. destruct i; simpl; [exact H1|apply IH; exact H2].
Qed.

Lemma guard_sub : forall fp o t, paths_guard fp o t = true ->
  (forall e, base_ty t = TSlice e -> refl_reset fp o e = o_slice_elem_reset o /\ paths_guard fp o e = true) /\
  (forall e, base_ty t = TMap e -> paths_guard fp o e = true) /\
  (forall fs i, base_ty t = TStruct fs -> paths_guard fp o (ftype fs i) = true).
Proof.
  intros fp o t H. unfold paths_guard, refl_reset in *. rewrite <- his_base in H.
  repeat apply conj.
  - intros e E. rewrite E in H. simpl in H. destruct fp, (o_slice_elem_reset o), (is_iface e), (has_iface_slice e); simpl in *; try discriminate; auto.
  - intros e E. rewrite E in H. simpl in H. exact H.
  - intros fs i E. rewrite E in H.
    destruct (has_iface_slice (TStruct fs)) eqn:Eh.
    + destruct fp, (o_slice_elem_reset o); simpl in *; try discriminate; reflexivity.
    + rewrite (his_field fs i Eh). rewrite andb_false_r. reflexivity.
Qed.

Lemma nil_ok_slice : forall t e l, base_ty t = TSlice e -> nil_ok t (IArr l) = true ->
  Forall (fun x => nil_ok e x = true) l.
Proof.
  intros t e l E H. cbn [nil_ok] in H. rewrite E in H. apply Forall_forall. intros x Hx.
  rewrite forallb_forall in H. apply H. exact Hx.
Qed.

Lemma nil_ok_sarr : forall t fs l, base_ty t = TStruct fs -> nil_ok t (IArr l) = true ->
  forall j x, nth_error l j = Some x -> field_ok (ftype fs j) x = true /\ nil_ok (ftype fs j) x = true.
Proof.
  intros t fs l E H. cbn [nil_ok] in H. rewrite E in H.
  assert (G : forall l i,
    (fix go (l : list item) (i : nat) : bool :=
       match l with [] => true | x :: r => field_ok (ftype fs i) x && nil_ok (ftype fs i) x && go r (S i) end) l i = true ->
    forall j x, nth_error l j = Some x -> field_ok (ftype fs (i + j)) x = true /\ nil_ok (ftype fs (i + j)) x = true).
  { clear. induction l as [|y r IH]; intros i H j x Hj; [destruct j; discriminate|].
    apply andb_true_iff in H as [H H3]. apply andb_true_iff in H as [H1 H2].
    destruct j; simpl in Hj.
    - injection Hj as <-. rewrite Nat.add_0_r. auto.
    - replace (i + S j) with (S i + j) by lia. apply IH; assumption. }
  intros j x Hj. exact (G l 0 H j x Hj).
Qed.

Lemma nil_ok_map : forall t e kvs, base_ty t = TMap e -> nil_ok t (IMap kvs) = true ->
  Forall (fun kv => nil_ok e (snd kv) = true) kvs.
Proof.
  intros t e kvs E H. cbn [nil_ok] in H. rewrite E in H.
  induction kvs as [|[k x] r IH]; constructor.
  - apply andb_true_iff in H as [H _]. exact H.
  - apply IH. apply andb_true_iff in H as [_ H]. exact H.
Qed.

Lemma nil_ok_smap : forall t fs kvs, base_ty t = TStruct fs -> nil_ok t (IMap kvs) = true ->
  Forall (fun kv => forall key i, fst kv = IStr key -> index_of_name key fs 0 = Some i ->
                    field_ok (ftype fs i) (snd kv) = true /\ nil_ok (ftype fs i) (snd kv) = true) kvs.
Proof.
  intros t fs kvs E H. cbn [nil_ok] in H. rewrite E in H.
  induction kvs as [|[k x] r IH]; constructor.
  - apply andb_true_iff in H as [H _]. intros key i Hk Hi. simpl in *. subst k. rewrite Hi in H.
    apply andb_true_iff in H. exact H.
  - apply IH. apply andb_true_iff in H as [_ H]. exact H.
Qed.

(* ---- congruence of the loops in the element decoder ---- *)
Lemma slice_upd_ext : forall f g rs z l old,
  Forall (fun x => forall c, f c x = g c x) l -> slice_upd f rs z l old = slice_upd g rs z l old.
Proof.
  intros f g rs z l. induction l as [|x r IH]; intros old H; [reflexivity|].
  inversion H as [|? ? Hx Hr]; subst. simpl. rewrite Hx. rewrite (IH _ Hr). reflexivity.
Qed.

Lemma map_upd_ext : forall f g rs z kvs m,
  Forall (fun kv => forall c, f c (snd kv) = g c (snd kv)) kvs -> map_upd f rs z kvs m = map_upd g rs z kvs m.
Proof.
  intros f g rs z kvs. induction kvs as [|[k x] r IH]; intros m H; [reflexivity|].
  inversion H as [|? ? Hx Hr]; subst. simpl in *. destruct k; try reflexivity.
  rewrite Hx. destruct (g _ x); simpl; auto.
Qed.

Lemma smap_upd_ext : forall f g fs kvs xs,
  Forall (fun kv => forall key i c, fst kv = IStr key -> index_of_name key fs 0 = Some i ->
                    f (ftype fs i) c (snd kv) = g (ftype fs i) c (snd kv)) kvs ->
  smap_upd f fs kvs xs = smap_upd g fs kvs xs.
Proof.
  intros f g fs kvs. induction kvs as [|[k x] r IH]; intros xs H; [reflexivity|].
  inversion H as [|? ? Hx Hr]; subst. simpl in *. destruct k; try reflexivity.
  destruct (index_of_name s fs 0) as [i|] eqn:Ei; [|auto].
  rewrite (Hx s i _ eq_refl Ei). destruct (g _ _ x); simpl; auto.
Qed.

Lemma sarr_upd_ext : forall f g fs l i xs,
  (forall j x, nth_error l j = Some x -> forall c, f (ftype fs (i + j)) c x = g (ftype fs (i + j)) c x) ->
  sarr_upd f fs l i xs = sarr_upd g fs l i xs.
Proof.
  intros f g fs l. induction l as [|x r IH]; intros i xs H; [reflexivity|].
  simpl.
  assert (Hr : forall j y, nth_error r j = Some y -> forall c, f (ftype fs (S i + j)) c y = g (ftype fs (S i + j)) c y).
  { intros j y Hj c. replace (S i + j) with (i + S j) by lia. apply H. exact Hj. }
  destruct (i <? length fs); [|apply IH; exact Hr].
  specialize (H 0 x eq_refl (fval xs i)). rewrite Nat.add_0_r in H. rewrite H.
  destruct (g _ _ x); simpl; auto.
Qed.

Definition flat_item (it : item) : bool := match it with IArr _ | IMap _ => false | _ => true end.

Lemma body_flat : forall r1 f1 s1 r2 f2 s2 o b c it, flat_item it = true ->
  body r1 f1 s1 o b c it = body r2 f2 s2 o b c it.
Proof. intros. destruct b; destruct it; try discriminate; reflexivity. Qed.

Lemma through_ext : forall t d k1 k2,
  (forall b c w, peel t d = (b, c, w) -> k1 b c = k2 b c) -> through t d k1 = through t d k2.
Proof.
  intros t d k1 k2 H. unfold through. destruct (peel t d) as [[b c] w] eqn:E. rewrite (H b c w eq_refl). reflexivity.
Qed.

Lemma field_dec_merge : forall fp o ft c x, field_ok ft x = true ->
  (is_nil x = false -> dec_refl fp o ft c x = merge o ft c x) ->
  field_dec fp o ft c x = merge o ft c x.
Proof.
  intros fp o ft c x Hok H. destruct x; try (apply H; reflexivity).
  unfold field_ok in Hok. simpl in Hok. rewrite andb_true_r in Hok. apply negb_true_iff in Hok.
  unfold merge. simpl. f_equal. apply field_nil_nonptr. intros e E. subst ft. discriminate.
Qed.

(* ---- the theorem ---- *)
Definition merge_P (fp : bool) (o : dopts) (it : item) : Prop :=
  forall t d, nil_ok t it = true -> paths_guard fp o t = true -> dec_refl fp o t d it = merge o t d it.

Theorem refl_is_merge : forall fp o it, merge_P fp o it.
Proof.
  intros fp o. induction it as [|bb|zz|nn|bb|bb|ss|bb|l H|l H|tg vv IHv|tg bs|sec ns] using item_ind'; intros t d Hn Hg;
    try (rewrite refl_eqn, merge_eqn by reflexivity; apply through_ext; intros; apply body_flat; reflexivity).
  - reflexivity.
  - (* IArr *)
    rewrite refl_eqn, merge_eqn by reflexivity. apply through_ext. intros b c w Hp.
    apply peel_base in Hp. destruct (guard_sub fp o t Hg) as (Gs & Gm & Gf).
    destruct b as [| |e|e|e|fs|]; try reflexivity.
    + (* slice *)
      symmetry in Hp. destruct (Gs e Hp) as [Er Ge]. unfold body. rewrite Er.
      rewrite (slice_upd_ext (dec_refl fp o e) (merge o e)); [reflexivity|].
      pose proof (nil_ok_slice t e l Hp Hn) as Hl.
      rewrite Forall_forall in *. intros x Hx cur. apply H; auto.
    + (* struct from array *)
      symmetry in Hp. unfold body.
      rewrite (sarr_upd_ext (field_dec fp o) (merge o)); [reflexivity|].
      intros j x Hj cur. simpl.
      destruct (nil_ok_sarr t fs l Hp Hn j x Hj) as [Hok Hnx].
      apply field_dec_merge; [exact Hok|]. intros _.
      rewrite Forall_forall in H. apply H; [eapply nth_error_In; eauto|exact Hnx|apply Gf; exact Hp].
  - (* IMap *)
    rewrite refl_eqn, merge_eqn by reflexivity. apply through_ext. intros b c w Hp.
    apply peel_base in Hp. destruct (guard_sub fp o t Hg) as (Gs & Gm & Gf).
    destruct b as [| |e|e|e|fs|]; try reflexivity.
    + (* map *)
      symmetry in Hp. unfold body.
      rewrite (map_upd_ext (dec_refl fp o e) (merge o e)); [reflexivity|].
      pose proof (nil_ok_map t e l Hp Hn) as Hl.
      rewrite Forall_forall in *. intros kv Hkv cur. apply (proj2 (H kv Hkv)); auto.
    + (* struct from map *)
      symmetry in Hp. unfold body.
      rewrite (smap_upd_ext (field_dec fp o) (merge o)); [reflexivity|].
      pose proof (nil_ok_smap t fs l Hp Hn) as Hl.
      rewrite Forall_forall in *. intros kv Hkv key i cur Hk Hi.
      destruct (Hl kv Hkv key i Hk Hi) as [Hok Hnx].
      apply field_dec_merge; [exact Hok|]. intros _.
      apply (proj2 (H kv Hkv)); [exact Hnx|apply Gf; exact Hp].
Qed.

(* C19 — correspondence: the model on what the harness observed on the implementation. *)
From Coq Require Import List NArith ZArith Arith Bool.
From Verif Require Import Base.Outcome Wire.Item C19.Spec C19.Model.
Import ListNotations.

Record case := mkcase {
  cid : N;
  c_fast : bool;            (* build has fast paths (false under codec.notfastpath) *)
  c_opts : dopts;
  c_ty : ty;
  c_dst : gv;               (* pre-populated destination *)
  c_item : item;            (* the stream, as the item tree it encodes *)
  c_obs : option gv;        (* destination after Decode (None = error) *)
  c_twice : option gv }.    (* after decoding the same bytes a second time *)

(* equality up to the order of map entries *)
Fixpoint gv_eqb (a b : gv) {struct a} : bool :=
  let fix go (x y : list gv) : bool :=
      match x, y with [], [] => true | p :: x', q :: y' => gv_eqb p q && go x' y' | _, _ => false end in
  match a, b with
  | VInt x, VInt y => Z.eqb x y
  | VStr x, VStr y => str_eqb x y
  | VPtr None, VPtr None | VIface None, VIface None | VSlice None, VSlice None | VMap None, VMap None => true
  | VPtr (Some x), VPtr (Some y) | VIface (Some x), VIface (Some y) | VDyn _ x, VDyn _ y => gv_eqb x y
  | VSlice (Some x), VSlice (Some y) | VStruct x, VStruct y => go x y
  | VMap (Some x), VMap (Some y) =>
    (length x =? length y) &&
    (fix gom (x : list (str * gv)) : bool :=
       match x with
       | [] => true
       | (k, v) :: r => (match assoc k y with Some w => gv_eqb v w | None => false end) && gom r
       end) x
  | _, _ => false
  end.

Definition res_eqb (r : res gv) (o : option gv) : bool :=
  match r, o with
  | Ok a, Some b => gv_eqb a b
  | Err _, None => true
  | _, _ => false
  end.

Definition check_case (c : case) : bool :=
  let r1 := dec_impl_x true (c_fast c) (c_opts c) (c_ty c) (c_dst c) (c_item c) in
  res_eqb r1 (c_obs c)
  && match r1 with
     | Ok d1 => res_eqb (dec_impl_x true (c_fast c) (c_opts c) (c_ty c) d1 (c_item c)) (c_twice c)
     | _ => true
     end.

Definition mismatches (cs : list case) : list N :=
  map cid (filter (fun c => negb (check_case c)) cs).

(* C19 — the statements at the level of [dec_impl] (the path the build takes). *)
From Coq Require Import List NArith ZArith Arith Bool Lia.
From Verif Require Import Base.Outcome Wire.Item C19.Spec C19.Model C19.Loops C19.Proofs
     C19.ProofsMerge C19.ProofsPaths C19.ProofsKeep C19.ProofsIdem.
Import ListNotations.

Lemma impl_is_refl : forall fp o t d it, dec_impl fp o t d it = dec_refl fp o t d it.
Proof.
  intros fp o t d it. unfold dec_impl, dec_impl_x.
  destruct (fp && has_fastpath t) eqn:E.
  - apply andb_true_iff in E as [-> E]. apply (fast_is_refl_true o t d it E).
  - fold dec_refl. destruct t; try reflexivity; unfold dec_builtin.
    + rewrite (refl_scalar fp o TInt d it (or_introl eq_refl)). reflexivity.
    + rewrite (refl_scalar fp o TStr d it (or_intror eq_refl)). reflexivity.
Qed.

Lemma merge_top : forall fp o t d it, nil_ok t it = true -> paths_guard fp o t = true ->
  dec_impl fp o t d it = merge o t d it.
Proof. intros. rewrite impl_is_refl. apply refl_is_merge; assumption. Qed.

Lemma idem_top : forall fp o it, nodup_keys it = true ->
  forall t d r, dec_impl fp o t d it = Ok r -> dec_impl fp o t r it = Ok r.
Proof. intros fp o it H t d r E. rewrite impl_is_refl in *. eapply refl_idem; eauto. Qed.

Lemma keep_struct_map_top : forall fp o fs xs kvs r,
  dec_impl fp o (TStruct fs) (VStruct xs) (IMap kvs) = Ok r ->
  exists ys, r = VStruct ys /\ forall i, ~ mentions_field fs kvs i -> nth_error ys i = nth_error xs i.
Proof. intros fp o fs xs kvs r H. rewrite impl_is_refl in H. eapply keep_struct_map; eauto. Qed.

Lemma keep_struct_arr_top : forall fp o fs xs l r,
  dec_impl fp o (TStruct fs) (VStruct xs) (IArr l) = Ok r ->
  exists ys, r = VStruct ys /\ forall i, length l <= i -> nth_error ys i = nth_error xs i.
Proof. intros fp o fs xs l r H. rewrite impl_is_refl in H. eapply keep_struct_arr; eauto. Qed.

Lemma keep_map_top : forall fp o e m kvs r,
  dec_impl fp o (TMap e) (VMap (Some m)) (IMap kvs) = Ok r ->
  exists m', r = VMap (Some m') /\ forall key, ~ mentions_key kvs key -> assoc key m' = assoc key m.
Proof. intros fp o e m kvs r H. rewrite impl_is_refl in H. eapply keep_map; eauto. Qed.

(* the guards exclude exactly nothing else on these witnesses: the refutations of Proofs.v
   violate them *)
Lemma guards_tight :
  nil_ok (TStruct [([80]%N, TPtr TInt)]) (IMap [(IStr [80]%N, INil)]) = false /\
  paths_guard true (mkDopts false true false false) (TSlice TIface) = false.
Proof. split; reflexivity. Qed.

(* C19 — decoding the same item a second time into the result changes nothing. *)
From Coq Require Import List NArith ZArith Arith Bool Lia.
From Verif Require Import Base.Outcome Wire.Item C19.Spec C19.Model C19.Loops C19.Proofs C19.ProofsKeep C19.ProofsMerge.
Import ListNotations.

(* side condition: a stream map does not repeat a key (encoders never write one twice) *)
Fixpoint keys (kvs : list (item * item)) : list str :=
  match kvs with
  | [] => []
  | (IStr s, _) :: r => s :: keys r
  | _ :: r => keys r
  end.
Definition memb (s : str) (l : list str) : bool := existsb (str_eqb s) l.
Fixpoint nodupb (l : list str) : bool :=
  match l with [] => true | s :: r => negb (memb s r) && nodupb r end.
Fixpoint nodup_keys (it : item) : bool :=
  match it with
  | IArr l => forallb nodup_keys l
  | IMap kvs => nodupb (keys kvs) &&
                (fix go (kvs : list (item * item)) : bool :=
                   match kvs with [] => true | (_, x) :: r => nodup_keys x && go r end) kvs
  | _ => true
  end.

Lemma not_memb_keys : forall key kvs, memb key (keys kvs) = false -> forall kv, In kv kvs -> fst kv <> IStr key.
Proof.
  intros key kvs. induction kvs as [|[k x] r IH]; intros H kv Hin; [destruct Hin|].
  destruct Hin as [<-|Hin].
  - simpl. intro E. subst k. simpl in H. rewrite str_eqb_refl in H. discriminate.
  - apply IH; [|exact Hin]. destruct k; simpl in H; try exact H. apply orb_false_iff in H as [_ H]. exact H.
Qed.

Lemma nodup_keys_map : forall kvs, nodup_keys (IMap kvs) = true ->
  nodupb (keys kvs) = true /\ Forall (fun kv => nodup_keys (snd kv) = true) kvs.
Proof.
  intros kvs H. cbn [nodup_keys] in H. apply andb_true_iff in H as [H1 H2]. split; [exact H1|].
  clear H1. induction kvs as [|[k x] r IH]; constructor.
  - apply andb_true_iff in H2 as [H _]. exact H.
  - apply IH. apply andb_true_iff in H2 as [_ H]. exact H.
Qed.

Lemma nodup_keys_arr : forall l, nodup_keys (IArr l) = true -> forall x, In x l -> nodup_keys x = true.
Proof.
  intros l H. change (forallb nodup_keys l = true) in H. rewrite forallb_forall in H. exact H.
Qed.

(* ---- index_of_name ---- *)
Lemma ion_name : forall {A} key (fs : list (str * A)) s i, index_of_name key fs s = Some i ->
  s <= i /\ exists a, nth_error fs (i - s) = Some (key, a).
Proof.
  intros A key fs. induction fs as [|[k a] r IH]; intros s i H; simpl in H; [discriminate|].
  destruct (str_eqb k key) eqn:E.
  - injection H as <-. apply str_eqb_eq in E. subst k. split; [lia|]. rewrite Nat.sub_diag. exists a. reflexivity.
  - apply IH in H as [H1 [a' H2]]. split; [lia|]. exists a'. replace (i - s) with (S (i - S s)) by lia. exact H2.
Qed.
Lemma ion_inj : forall {A} k1 k2 (fs : list (str * A)) s i,
  index_of_name k1 fs s = Some i -> index_of_name k2 fs s = Some i -> k1 = k2.
Proof.
  intros A k1 k2 fs s i H1 H2. apply ion_name in H1 as [_ [a1 E1]]. apply ion_name in H2 as [_ [a2 E2]]. congruence.
Qed.

(* ---- pointers ---- *)
Lemma peel_wrap : forall t d b c w, peel t d = (b, c, w) -> forall x, peel t (w x) = (b, x, w).
Proof.
  induction t; intros d b c w H x; simpl in *; try (injection H as <- <- <-; reflexivity).
  destruct (peel t _) as [[b' c'] w'] eqn:E. injection H as <- <- <-.
  rewrite (IHt _ _ _ _ E x). reflexivity.
Qed.

Lemma field_nil_idem : forall t d, field_nil t (field_nil t d) = field_nil t d.
Proof.
  induction t; intro d; try reflexivity.
  simpl. destruct d as [| |[x|]|l|m|fs|v|dt dv]; try reflexivity. rewrite IHt. reflexivity.
Qed.

(* ---- the loops ---- *)
Definition idem1 (f : gv -> item -> res gv) (x : item) : Prop := forall c y, f c x = Ok y -> f y x = Ok y.
Definition idem2 (f : ty -> gv -> item -> res gv) (x : item) : Prop := forall t c y, f t c x = Ok y -> f t y x = Ok y.

Lemma slice_idem : forall f rs z l old ys,
  Forall (idem1 f) l -> slice_upd f rs z l old = Ok ys -> slice_upd f rs z l ys = Ok ys.
Proof.
  intros f rs z l. induction l as [|x r IH]; intros old ys HF H; simpl in H.
  - injection H as <-. reflexivity.
  - inversion HF as [|? ? Hx Hr]; subst.
    destruct (f _ x) as [y| |] eqn:Ef; simpl in H; try discriminate.
    destruct (slice_upd f rs z r (tl old)) as [ys'| |] eqn:Er; simpl in H; try discriminate.
    injection H as <-. simpl.
    assert (E : f (if rs then z else y) x = Ok y).
    { destruct rs; [destruct old; exact Ef|apply (Hx _ _ Ef)]. }
    rewrite E. simpl. rewrite (IH _ _ Hr Er). reflexivity.
Qed.

Lemma map_facts : forall (f : gv -> item -> res gv) (rs : bool) (z : gv) (kvs : list (item * item)) (m m' : list (str * gv)),
  nodupb (keys kvs) = true -> Forall (fun kv => idem1 f (snd kv)) kvs ->
  map_upd f rs z kvs m = Ok m' ->
  forall kv, In kv kvs -> exists key y, fst kv = IStr key /\ assoc key m' = Some y /\ f (if rs then z else y) (snd kv) = Ok y.
Proof.
  intros f rs z kvs. induction kvs as [|[k x] r IH]; intros m m' Hnd HF H kv Hin; [destruct Hin|].
  inversion HF as [|? ? Hx Hr]; subst. simpl in H. destruct k; try discriminate.
  simpl in Hnd. apply andb_true_iff in Hnd as [Hm Hnd]. apply negb_true_iff in Hm.
  destruct (f _ x) as [y| |] eqn:Ef; simpl in H; try discriminate.
  destruct Hin as [<-|Hin].
  - exists s, y. split; [reflexivity|]. split.
    + rewrite (map_keep _ _ _ _ _ _ s H (not_memb_keys s r Hm)). apply assoc_set_same.
    + simpl. destruct rs; [destruct (assoc s m); exact Ef|apply (Hx _ _ Ef)].
  - eapply IH; eauto.
Qed.

Lemma map_refix : forall (f : gv -> item -> res gv) (rs : bool) (z : gv) (kvs : list (item * item)) (m' : list (str * gv)),
  (forall kv, In kv kvs -> exists key y, fst kv = IStr key /\ assoc key m' = Some y /\ f (if rs then z else y) (snd kv) = Ok y) ->
  map_upd f rs z kvs m' = Ok m'.
Proof.
  intros f rs z kvs m'. induction kvs as [|[k x] r IH]; intro H; [reflexivity|].
  destruct (H (k, x) (or_introl eq_refl)) as (key & y & Hk & Ha & Hf). simpl in Hk, Hf. subst k.
  simpl. rewrite Ha, Hf. simpl. rewrite (assoc_set_id _ _ _ Ha). apply IH. intros kv Hin. apply H. right. exact Hin.
Qed.

Lemma map_idem : forall f rs z kvs m m',
  nodupb (keys kvs) = true -> Forall (fun kv => idem1 f (snd kv)) kvs ->
  map_upd f rs z kvs m = Ok m' -> map_upd f rs z kvs m' = Ok m'.
Proof. intros. apply map_refix. eapply map_facts; eauto. Qed.

Lemma field_step : forall (f : ty -> gv -> item -> res gv) fs i xs ys x y,
  idem2 f x -> f (ftype fs i) (fval xs i) x = Ok y ->
  nth_error ys i = nth_error (set_nth xs i y) i ->
  f (ftype fs i) (fval ys i) x = Ok y /\ set_nth ys i y = ys.
Proof.
  intros f fs i xs ys x y Hx Ef Hk.
  destruct (nth_error xs i) as [c|] eqn:Ei.
  - rewrite (nth_error_set_nth_same xs i c y Ei) in Hk. split.
    + rewrite (fval_nth_error ys), Hk. apply (Hx _ _ _ Ef).
    + apply set_nth_id. exact Hk.
  - rewrite (set_nth_none xs i y Ei), Ei in Hk. split.
    + rewrite (fval_nth_error ys), Hk. rewrite (fval_nth_error xs), Ei in Ef. exact Ef.
    + apply set_nth_none. exact Hk.
Qed.

Lemma smap_facts : forall f fs kvs xs ys,
  nodupb (keys kvs) = true -> Forall (fun kv => idem2 f (snd kv)) kvs ->
  smap_upd f fs kvs xs = Ok ys ->
  forall kv, In kv kvs -> exists key, fst kv = IStr key /\
    match index_of_name key fs 0 with
    | Some i => exists y, f (ftype fs i) (fval ys i) (snd kv) = Ok y /\ set_nth ys i y = ys
    | None => True
    end.
Proof.
  intros f fs kvs. induction kvs as [|[k x] r IH]; intros xs ys Hnd HF H kv Hin; [destruct Hin|].
  inversion HF as [|? ? Hx Hr]; subst. simpl in H. destruct k; try discriminate.
  simpl in Hnd. apply andb_true_iff in Hnd as [Hm Hnd]. apply negb_true_iff in Hm.
  destruct (index_of_name s fs 0) as [i|] eqn:Ei.
  - destruct (f _ _ x) as [y| |] eqn:Ef; simpl in H; try discriminate.
    destruct Hin as [<-|Hin]; [|eapply IH; eauto].
    exists s. split; [reflexivity|]. rewrite Ei. exists y. simpl.
    apply (field_step f fs i xs ys x y Hx Ef).
    eapply smap_keep; [exact H|].
    intros kv key Hk Hf Hi. assert (key = s) by (eapply ion_inj; eauto). subst key.
    exact (not_memb_keys s r Hm kv Hk Hf).
  - destruct Hin as [<-|Hin]; [|eapply IH; eauto].
    exists s. split; [reflexivity|]. rewrite Ei. exact I.
Qed.

Lemma smap_refix : forall (f : ty -> gv -> item -> res gv) fs (kvs : list (item * item)) (ys : list gv),
  (forall kv, In kv kvs -> exists key, fst kv = IStr key /\
    match index_of_name key fs 0 with
    | Some i => exists y, f (ftype fs i) (fval ys i) (snd kv) = Ok y /\ set_nth ys i y = ys
    | None => True
    end) ->
  smap_upd f fs kvs ys = Ok ys.
Proof.
  intros f fs kvs ys. induction kvs as [|[k x] r IH]; intro H; [reflexivity|].
  destruct (H (k, x) (or_introl eq_refl)) as (key & Hk & Hm). simpl in Hk. subst k. simpl.
  assert (Hr : smap_upd f fs r ys = Ok ys) by (apply IH; intros kv Hin; apply H; right; exact Hin).
  destruct (index_of_name key fs 0) as [i|]; [|exact Hr].
  destruct Hm as (y & Hf & Hs). simpl in Hf. rewrite Hf. simpl. rewrite Hs. exact Hr.
Qed.

Lemma sarr_idem : forall f fs l i xs ys,
  Forall (idem2 f) l -> sarr_upd f fs l i xs = Ok ys -> sarr_upd f fs l i ys = Ok ys.
Proof.
  intros f fs l. induction l as [|x r IH]; intros i xs ys HF H; simpl in H.
  - injection H as <-. reflexivity.
  - inversion HF as [|? ? Hx Hr]; subst. simpl.
    destruct (i <? length fs); [|eapply IH; eauto].
    destruct (f _ _ x) as [y| |] eqn:Ef; simpl in H; try discriminate.
    destruct (field_step f fs i xs ys x y Hx Ef) as [E1 E2].
    { eapply sarr_keep; [exact H|]. left. lia. }
    rewrite E1. simpl. rewrite E2. eapply IH; eauto.
Qed.

(* ---- interface{} ---- *)
Lemma iface_idem : forall o c it r0, iface_upd o c it = Ok r0 -> iface_upd o r0 it = Ok r0.
Proof.
  intros o c it r0 H. unfold iface_upd in *.
  destruct (o_iface_reset o) eqn:Er.
  - assert (Hn : naked it = Ok r0).
    { destruct c as [| |p|l|m|fs|[v|]|dt dv]; try exact H. destruct v; exact H. }
    clear H. destruct it; simpl in Hn; try discriminate; injection Hn as <-; reflexivity.
  - destruct c as [| |p|l|m|fs|[v|]|dt dv];
      try (destruct it; simpl in H; try discriminate; injection H as <-; reflexivity).
    destruct v; destruct it; simpl in H; try discriminate; injection H as <-; reflexivity.
Qed.

Lemma body_flat_idem : forall R F S o b c it r0,
  body R F S o b c it = Ok r0 -> flat_item it = true -> body R F S o b r0 it = Ok r0.
Proof.
  intros R F S o b c it r0 H Hf. destruct b; simpl in *; try exact H; try discriminate.
  - destruct it; discriminate.
  - destruct it; discriminate.
  - destruct it; discriminate.
  - apply (iface_idem o c). exact H.
Qed.

Lemma field_dec_idem : forall fp o x,
  (forall t d r, dec_refl fp o t d x = Ok r -> dec_refl fp o t r x = Ok r) -> idem2 (field_dec fp o) x.
Proof.
  intros fp o x H t c y E. destruct x; try (apply (H _ _ _ E)).
  simpl in *. injection E as <-. rewrite field_nil_idem. reflexivity.
Qed.

(* ---- the theorem ---- *)
Theorem refl_idem : forall fp o it, nodup_keys it = true ->
  forall t d r, dec_refl fp o t d it = Ok r -> dec_refl fp o t r it = Ok r.
Proof.
  intros fp o. induction it as [|bb|zz|nn|bb|bb|ss|bb|l H|l H|tg vv IHv|tg bs|sec ns] using item_ind'; intros Hnd t d r E;
    try (rewrite refl_eqn in * by reflexivity; unfold through in *;
         destruct (peel t d) as [[b c] w] eqn:Ep;
         match type of E with (do r <- ?B ;; _) = _ => destruct B as [r0| |] eqn:Eb end; simpl in E; try discriminate;
         injection E as <-; rewrite (peel_wrap _ _ _ _ _ Ep r0);
         rewrite (body_flat_idem _ _ _ _ _ _ _ _ Eb eq_refl); reflexivity).
  - simpl in E. injection E as <-. reflexivity.
  - (* IArr *)
    rewrite refl_eqn in * by reflexivity. unfold through in *.
    destruct (peel t d) as [[b c] w] eqn:Ep.
    match type of E with (do r <- ?B ;; _) = _ => destruct B as [r0| |] eqn:Eb end; simpl in E; try discriminate.
    injection E as <-. rewrite (peel_wrap _ _ _ _ _ Ep r0).
    pose proof (nodup_keys_arr l Hnd) as Hnd'. clear Hnd. rename Hnd' into Hnd. rewrite Forall_forall in H.
    destruct b as [| |e|e|e|fs|]; simpl in Eb; try discriminate.
    + (* slice *)
      destruct (slice_upd _ _ _ l (old_slice c)) as [ys| |] eqn:Es; simpl in Eb; try discriminate.
      injection Eb as <-. simpl.
      rewrite (slice_idem _ _ _ l (old_slice c) ys); [reflexivity| |exact Es].
      apply Forall_forall. intros x Hx cur y Ey. apply (H x Hx (Hnd x Hx) _ _ _ Ey).
    + (* struct *)
      destruct (sarr_upd _ fs l 0 (old_struct c)) as [ys| |] eqn:Es; simpl in Eb; try discriminate.
      injection Eb as <-. simpl.
      rewrite (sarr_idem _ fs l 0 (old_struct c) ys); [reflexivity| |exact Es].
      apply Forall_forall. intros x Hx. apply field_dec_idem. apply (H x Hx (Hnd x Hx)).
    + (* interface *)
      exfalso. unfold iface_upd in Eb. destruct c as [| |p|l0|m|fs|[v|]|dt dv]; try discriminate.
      destruct v; destruct (o_iface_reset o); discriminate.
  - (* IMap *)
    rewrite refl_eqn in * by reflexivity. unfold through in *.
    destruct (peel t d) as [[b c] w] eqn:Ep.
    match type of E with (do r <- ?B ;; _) = _ => destruct B as [r0| |] eqn:Eb end; simpl in E; try discriminate.
    injection E as <-. rewrite (peel_wrap _ _ _ _ _ Ep r0).
    destruct (nodup_keys_map l Hnd) as [Hk Hv]. rewrite Forall_forall in H, Hv.
    destruct b as [| |e|e|e|fs|]; simpl in Eb; try discriminate.
    + (* map *)
      destruct (map_upd _ _ _ l (old_map c)) as [m'| |] eqn:Es; simpl in Eb; try discriminate.
      injection Eb as <-. simpl.
      rewrite (map_idem _ _ _ l (old_map c) m' Hk); [reflexivity| |exact Es].
      apply Forall_forall. intros kv Hin cur y Ey. apply (proj2 (H kv Hin) (Hv kv Hin) _ _ _ Ey).
    + (* struct *)
      destruct (smap_upd _ fs l (old_struct c)) as [ys| |] eqn:Es; simpl in Eb; try discriminate.
      injection Eb as <-. simpl.
      rewrite (smap_refix _ fs l ys); [reflexivity|].
      eapply smap_facts; [exact Hk| |exact Es].
      apply Forall_forall. intros kv Hin. apply field_dec_idem. apply (proj2 (H kv Hin) (Hv kv Hin)).
    + exfalso. unfold iface_upd in Eb. destruct c as [| |p|l0|m|fs|[v|]|dt dv]; try discriminate.
      destruct v; destruct (o_iface_reset o); discriminate.
Qed.

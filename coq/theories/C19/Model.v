(* C19 — executable model of the IMPLEMENTATION's decode-into-existing at the item level,
   the three implementations the code has, separately:
     dec_refl    reflection path: decodeValue / decodeValueNoCheckNil, kSlice, kMap, kStruct +
                 kStructField, kInterface (decode.go), decSetNonNilRV2Zero (decode.base.go)
     dec_fast    fast-path functions generated from fastpath.go.tmpl for slices and maps of
                 builtin element types (DecSliceXY / DecMapStringXL)
     dec_builtin the type switch of decoder.decode / decodeBuiltin for scalars
   No proofs here. *)
From Coq Require Import List NArith ZArith Arith Bool Lia.
From Verif Require Import Base.Outcome Wire.Item C19.Spec.
Import ListNotations.

(* kStructField on a stream nil: rv = si.fieldNoAlloc(rv, true) follows the field's own
   pointers while they are non-nil; a nil pointer on the way leaves the field untouched;
   decSetNonNilRV2Zero then zeroes what was reached — the pointers themselves are kept *)
Fixpoint field_nil (t : ty) (d : gv) : gv :=
  match t with
  | TPtr e => match d with
              | VPtr (Some x) => VPtr (Some (field_nil e x))
              | _ => d
              end
  | _ => zero_of t
  end.

Definition is_iface (t : ty) : bool := match t with TIface => true | _ => false end.

(* fp: the build has fast paths (default) — a nested []interface{} is then decoded by the generated
   DecSliceIntfY, which does not consult SliceElementReset *)
Fixpoint dec_refl_x (dyn fp : bool) (o : dopts) (t : ty) (d : gv) (it : item) {struct it} : res gv :=
  match it with
  | INil => Ok (zero_of t)            (* decodeValue at top level, kSlice element, kMap value: rvSetZero *)
  | _ =>
    let '(b, d, wrap) := unbox dyn o (peel t d) in      (* kInterface: a held struct is copied to an addressable value and decoded into *)
    do r <-
    match b with
    | TInt | TStr => scalar_of b it
    | TPtr _ => Err EOther
    | TSlice e =>
      match it with
      | IArr l =>
        let old := match d with VSlice (Some xs) => xs | _ => [] end in
        (* kSlice: element j is rv[j] (zero beyond the old length); the length ends as the stream length *)
        do xs <- (fix go (l : list item) (old : list gv) {struct l} : res (list gv) :=
                    match l with
                    | [] => Ok []
                    | x :: r =>
                      let cur := match old with c :: _ => if o_slice_elem_reset o && negb (fp && is_iface e) then zero_of e else c | [] => zero_of e end in
                      do y <- dec_refl_x dyn fp o e cur x ;;
                      do ys <- go r (tl old) ;; Ok (y :: ys)
                    end) l old ;;
        Ok (VSlice (Some xs))
      | _ => Err EBadDesc
      end
    | TMap e =>
      match it with
      | IMap kvs =>
        let old := match d with VMap (Some m) => m | _ => [] end in
        do m <- (fix go (kvs : list (item * item)) (m : list (str * gv)) {struct kvs} : res (list (str * gv)) :=
                   match kvs with
                   | [] => Ok m
                   | (k, x) :: r =>
                     match k with
                     | IStr key =>
                       let cur := match assoc key m with
                                  | Some c => if o_map_value_reset o then zero_of e else c
                                  | None => zero_of e
                                  end in
                       do y <- dec_refl_x dyn fp o e cur x ;; go r (assoc_set key y m)
                     | _ => Err EBadDesc
                     end
                   end) kvs old ;;
        Ok (VMap (Some m))
      | _ => Err EBadDesc
      end
    | TStruct fs =>
      let cur := match d with VStruct xs => xs | _ => [] end in
      match it with
      | IMap kvs =>
        do xs <- (fix go (kvs : list (item * item)) (xs : list gv) {struct kvs} : res (list gv) :=
                    match kvs with
                    | [] => Ok xs
                    | (k, x) :: r =>
                      match k with
                      | IStr key =>
                        match index_of_name key fs 0 with
                        | Some i =>
                          do y <- (match x with
                                   | INil => Ok (field_nil (snd (nth i fs ([], TInt))) (nth i xs (VInt 0)))   (* kStructField: TryNil *)
                                   | _ => dec_refl_x dyn fp o (snd (nth i fs ([], TInt))) (nth i xs (VInt 0)) x
                                   end) ;;
                          go r (set_nth xs i y)
                        | None => go r xs                      (* structFieldNotFound: swallow (ErrorIfNoField is C16's) *)
                        end
                      | _ => Err EBadDesc
                      end
                    end) kvs cur ;;
        Ok (VStruct xs)
      | IArr l =>
        do xs <- (fix go (l : list item) (i : nat) (xs : list gv) {struct l} : res (list gv) :=
                    match l with
                    | [] => Ok xs
                    | x :: r =>
                      if i <? length fs then
                        do y <- (match x with
                                   | INil => Ok (field_nil (snd (nth i fs ([], TInt))) (nth i xs (VInt 0)))   (* kStructField: TryNil *)
                                   | _ => dec_refl_x dyn fp o (snd (nth i fs ([], TInt))) (nth i xs (VInt 0)) x
                                   end) ;;
                        go r (S i) (set_nth xs i y)
                      else go r (S i) xs
                    end) l 0 cur ;;
        Ok (VStruct xs)
      | _ => Err EBadDesc
      end
    | TIface =>
      match d with
      | VIface (Some (VInt _)) => if o_iface_reset o then naked it else do x <- scalar_of TInt it ;; Ok (VIface (Some x))
      | VIface (Some (VStr _)) => if o_iface_reset o then naked it else do x <- scalar_of TStr it ;; Ok (VIface (Some x))
      | _ => naked it
      end
    end ;; Ok (wrap r)
  end.

(* ---- fast path (fastpath.go.tmpl): []int, []string, []interface{}, map[string]int,
   map[string]string, map[string]interface{} ---- *)
Definition fast_elem (e : ty) : bool := match e with TInt | TStr | TIface => true | _ => false end.
Definition has_fastpath (t : ty) : bool :=
  match t with TSlice e | TMap e => fast_elem e | _ => false end.

(* one element: v[j] = DecodeInt64() / DecodeString() (a stream nil reads as 0 / ""), or
   d.decode(&v[j]) for interface{} — SliceElementReset is not consulted *)
Definition fast_slice_elem (dyn : bool) (o : dopts) (e : ty) (cur : gv) (x : item) : res gv :=
  match e with
  | TIface => dec_refl_x dyn true o TIface cur x
  | _ => match x with INil => Ok (zero_of e) | _ => scalar_of e x end
  end.

Fixpoint fast_slice_go (dyn : bool) (o : dopts) (e : ty) (l : list item) (old : list gv) : res (list gv) :=
  match l with
  | [] => Ok []
  | x :: r =>
    let cur := match old with c :: _ => c | [] => zero_of e end in
    do y <- fast_slice_elem dyn o e cur x ;;
    do ys <- fast_slice_go dyn o e r (tl old) ;; Ok (y :: ys)
  end.

Fixpoint fast_map_go (dyn : bool) (o : dopts) (e : ty) (kvs : list (item * item)) (m : list (str * gv)) : res (list (str * gv)) :=
  match kvs with
  | [] => Ok m
  | (k, x) :: r =>
    match k with
    | IStr key =>
      do y <- (match e with
               | TIface =>
                 (* mapGet := !MapValueReset && !InterfaceReset; mv = v[mk] or nil; d.decode(&mv) *)
                 let cur := if negb (o_map_value_reset o) && negb (o_iface_reset o)
                            then match assoc key m with Some c => c | None => VIface None end
                            else VIface None in
                 dec_refl_x dyn true o TIface cur x
               | _ => match x with INil => Ok (zero_of e) | _ => scalar_of e x end
               end) ;;
      fast_map_go dyn o e r (assoc_set key y m)
    | _ => Err EBadDesc
    end
  end.

Definition dec_fast_x (dyn : bool) (o : dopts) (t : ty) (d : gv) (it : item) : res gv :=
  match it with
  | INil => Ok (zero_of t)                       (* ctyp == valueTypeNil: return nil, v != nil *)
  | _ =>
    match t, it with
    | TSlice e, IArr l =>
      do xs <- fast_slice_go dyn o e l (match d with VSlice (Some xs) => xs | _ => [] end) ;; Ok (VSlice (Some xs))
    | TMap e, IMap kvs =>
      do m <- fast_map_go dyn o e kvs (match d with VMap (Some m) => m | _ => [] end) ;; Ok (VMap (Some m))
    | _, _ => Err EBadDesc
    end
  end.

(* ---- builtin type switch: *int, *string ---- *)
Definition dec_builtin (t : ty) (d : gv) (it : item) : res gv :=
  match it with INil => Ok (zero_of t) | _ => scalar_of t it end.

(* the path the decoder takes for a destination of type t (default build: fast path types go
   through the generated functions; with codec.notfastpath everything goes through reflection) *)
Definition dec_impl_x (dyn fastpath : bool) (o : dopts) (t : ty) (d : gv) (it : item) : res gv :=
  if fastpath && has_fastpath t then dec_fast_x dyn o t d it
  else match t with
       | TInt | TStr => dec_builtin t d it
       | _ => dec_refl_x dyn fastpath o t d it
       end.

(* the universe of the theorems: interfaces hold nil / int64 / string *)
Definition dec_refl : bool -> dopts -> ty -> gv -> item -> res gv := dec_refl_x false.
Definition dec_fast : dopts -> ty -> gv -> item -> res gv := dec_fast_x false.
Definition dec_impl : bool -> dopts -> ty -> gv -> item -> res gv := dec_impl_x false.

(* C19 — SPECIFICATION of decoding into an existing value, written from the doc comment
   of Decoder.Decode and of the options MapValueReset / SliceElementReset / InterfaceReset /
   DeleteOnNilMapValue (decode.base.go):
     - "'nil' in a stream now consistently means the zero value (ie reset the value to its
        zero state)"; DeleteOnNilMapValue "does NOTHING";
     - "Decode will typically use the stream contents to UPDATE the container";
     - "A map can be decoded from a stream map, by updating matching keys";
     - "A slice can be decoded from a stream array, by updating the first n elements, where n
        is length of the stream";
     - "A struct can be decoded from a stream map, by updating matching fields" / "from a
        stream array, by updating fields as they occur in the struct (by index)";
     - "when decoding a stream map or array with length of 0 into a nil map or slice, we reset
        the destination map or slice to a zero-length value";
     - MapValueReset / SliceElementReset: the map value / slice element is reset to its zero
        value before decoding into it; InterfaceReset: "decode into a new blank value".
   Universe: int, string, pointers, slices, maps with string keys, structs with plain exported
   fields, interface{} holding nil / an int64 / a string. *)
From Coq Require Import List NArith ZArith Arith Bool Lia.
From Verif Require Import Base.Outcome Wire.Item.
Import ListNotations.

Definition str := list N.
Fixpoint str_eqb (a b : str) : bool :=
  match a, b with
  | [], [] => true
  | x :: a', y :: b' => N.eqb x y && str_eqb a' b'
  | _, _ => false
  end.

Inductive ty :=
| TInt | TStr
| TPtr (e : ty) | TSlice (e : ty) | TMap (e : ty)
| TStruct (fs : list (str * ty))
| TIface.

Inductive gv :=
| VInt (z : Z) | VStr (s : str)
| VPtr (p : option gv)
| VSlice (l : option (list gv))            (* None = nil *)
| VMap (m : option (list (str * gv)))       (* None = nil; keys distinct *)
| VStruct (fs : list gv)
| VIface (x : option gv)                    (* nil, or the dynamic value (VInt = int64, VStr = string, VDyn = a struct held by value) *)
| VDyn (t : ty) (v : gv).                   (* inside VIface only: a value of the (struct) type t *)

Record dopts := mkDopts {
  o_map_value_reset : bool;
  o_slice_elem_reset : bool;
  o_iface_reset : bool;
  o_delete_on_nil : bool }.        (* documented to do nothing *)

Fixpoint zero_of (t : ty) : gv :=
  match t with
  | TInt => VInt 0 | TStr => VStr []
  | TPtr _ => VPtr None | TSlice _ => VSlice None | TMap _ => VMap None | TIface => VIface None
  | TStruct fs => VStruct ((fix go (fs : list (str * ty)) : list gv :=
                              match fs with [] => [] | (_, t) :: r => zero_of t :: go r end) fs)
  end.

Fixpoint assoc {A} (k : str) (m : list (str * A)) : option A :=
  match m with [] => None | (k', v) :: r => if str_eqb k' k then Some v else assoc k r end.
Fixpoint assoc_set {A} (k : str) (v : A) (m : list (str * A)) : list (str * A) :=
  match m with
  | [] => [(k, v)]
  | (k', w) :: r => if str_eqb k' k then (k', v) :: r else (k', w) :: assoc_set k v r
  end.
Fixpoint index_of_name {A} (k : str) (fs : list (str * A)) (i : nat) : option nat :=
  match fs with [] => None | (k', _) :: r => if str_eqb k' k then Some i else index_of_name k r (S i) end.
Fixpoint set_nth {A} (l : list A) (j : nat) (x : A) : list A :=
  match l, j with
  | [], _ => []
  | _ :: r, O => x :: r
  | y :: r, S j' => y :: set_nth r j' x
  end.

(* what a stream item becomes in a nil interface{} ("based on the contents of the stream") *)
Definition naked (it : item) : res gv :=
  match it with
  | INil => Ok (VIface None)
  | IInt z => Ok (VIface (Some (VInt z)))
  | IStr s => Ok (VIface (Some (VStr s)))
  | _ => Err EUnsupported                 (* other shapes in interface positions: not in this universe *)
  end.

Definition scalar_of (t : ty) (it : item) : res gv :=
  match t, it with
  | TInt, IInt z => Ok (VInt z)
  | TInt, IUint n => Ok (VInt (Z.of_N n))
  | TStr, IStr s => Ok (VStr s)
  | _, _ => Err EBadDesc
  end.

(* a non-nil stream value decoded into a pointer goes to what it points to, allocated if nil *)
Fixpoint peel (t : ty) (d : gv) : ty * gv * (gv -> gv) :=
  match t with
  | TPtr e =>
    let cur := match d with VPtr (Some x) => x | _ => zero_of e end in
    let '(b, c, w) := peel e cur in (b, c, fun x => VPtr (Some (w x)))
  | _ => (t, d, fun x => x)
  end.

(* "When decoding into a non-nil interface{} value, the mode of encoding is based on the type of
   the value": an interface holding a struct by value is decoded INTO that struct (the held value
   is the destination, so what the stream does not mention stays), unless InterfaceReset.
   [dyn]: whether destinations may hold structs in interfaces at all (the theorems of
   Properties/C19.v are stated for dyn = false, i.e. interfaces holding nil / int64 / string) *)
Definition unbox (dyn : bool) (o : dopts) (p : ty * gv * (gv -> gv)) : ty * gv * (gv -> gv) :=
  match dyn with
  | false => p
  | true =>
    let '(b, d, wrap) := p in
    match b, d with
    | TIface, VIface (Some (VDyn (TStruct fs) v)) =>
      if o_iface_reset o then p else (TStruct fs, v, fun x => wrap (VIface (Some (VDyn (TStruct fs) x))))
    | _, _ => p
    end
  end.

(* merge o t d it : the destination d of type t after decoding the stream item it into it *)
Fixpoint merge_x (dyn : bool) (o : dopts) (t : ty) (d : gv) (it : item) {struct it} : res gv :=
  match it with
  | INil => Ok (zero_of t)                                   (* nil means zero, any kind *)
  | _ =>
    let '(b, d, wrap) := unbox dyn o (peel t d) in
    do r <-
    match b with
    | TInt | TStr => scalar_of b it
    | TPtr _ => Err EOther
    | TSlice e =>
      match it with
      | IArr l =>
        let old := match d with VSlice (Some xs) => xs | _ => [] end in
        (* the first n elements are updated, n = length of the stream; the length becomes n *)
        do xs <- (fix go (l : list item) (old : list gv) {struct l} : res (list gv) :=
                    match l with
                    | [] => Ok []
                    | x :: r =>
                      let cur := match old with c :: _ => if o_slice_elem_reset o then zero_of e else c | [] => zero_of e end in
                      do y <- merge_x dyn o e cur x ;;
                      do ys <- go r (tl old) ;; Ok (y :: ys)
                    end) l old ;;
        Ok (VSlice (Some xs))
      | _ => Err EBadDesc
      end
    | TMap e =>
      match it with
      | IMap kvs =>
        let old := match d with VMap (Some m) => m | _ => [] end in
        do m <- (fix go (kvs : list (item * item)) (m : list (str * gv)) {struct kvs} : res (list (str * gv)) :=
                   match kvs with
                   | [] => Ok m
                   | (k, x) :: r =>
                     match k with
                     | IStr key =>
                       let cur := match assoc key m with
                                  | Some c => if o_map_value_reset o then zero_of e else c
                                  | None => zero_of e
                                  end in
                       do y <- merge_x dyn o e cur x ;; go r (assoc_set key y m)
                     | _ => Err EBadDesc
                     end
                   end) kvs old ;;
        Ok (VMap (Some m))
      | _ => Err EBadDesc
      end
    | TStruct fs =>
      let cur := match d with VStruct xs => xs | _ => [] end in
      match it with
      | IMap kvs =>
        do xs <- (fix go (kvs : list (item * item)) (xs : list gv) {struct kvs} : res (list gv) :=
                    match kvs with
                    | [] => Ok xs
                    | (k, x) :: r =>
                      match k with
                      | IStr key =>
                        match index_of_name key fs 0 with
                        | Some i =>
                          do y <- merge_x dyn o (snd (nth i fs ([], TInt))) (nth i xs (VInt 0)) x ;;
                          go r (set_nth xs i y)
                        | None => go r xs                      (* unknown keys are skipped *)
                        end
                      | _ => Err EBadDesc
                      end
                    end) kvs cur ;;
        Ok (VStruct xs)
      | IArr l =>
        do xs <- (fix go (l : list item) (i : nat) (xs : list gv) {struct l} : res (list gv) :=
                    match l with
                    | [] => Ok xs
                    | x :: r =>
                      if i <? length fs then
                        do y <- merge_x dyn o (snd (nth i fs ([], TInt))) (nth i xs (VInt 0)) x ;;
                        go r (S i) (set_nth xs i y)
                      else go r (S i) xs
                    end) l 0 cur ;;
        Ok (VStruct xs)
      | _ => Err EBadDesc
      end
    | TIface =>
      match d with
      | VIface (Some (VInt _)) => if o_iface_reset o then naked it else do x <- scalar_of TInt it ;; Ok (VIface (Some x))
      | VIface (Some (VStr _)) => if o_iface_reset o then naked it else do x <- scalar_of TStr it ;; Ok (VIface (Some x))
      | _ => naked it
      end
    end ;; Ok (wrap r)
  end.

Definition merge : dopts -> ty -> gv -> item -> res gv := merge_x false.

(* C19 — absent means untouched: what the stream does not mention is unchanged. *)
From Coq Require Import List NArith ZArith Arith Bool Lia.
From Verif Require Import Base.Outcome Wire.Item C19.Spec C19.Model C19.Loops C19.Proofs.
Import ListNotations.

Lemma str_eqb_eq : forall a b, str_eqb a b = true <-> a = b.
Proof.
  induction a as [|x a IH]; destruct b as [|y b]; simpl; split; intro H; try congruence; try discriminate.
  - apply andb_true_iff in H as [H1 H2]. apply N.eqb_eq in H1. apply IH in H2. congruence.
  - injection H as -> ->. rewrite N.eqb_refl. simpl. apply IH. reflexivity.
Qed.
Lemma str_eqb_refl : forall a, str_eqb a a = true.
Proof. intro a. apply str_eqb_eq. reflexivity. Qed.
Lemma str_eqb_neq : forall a b, a <> b -> str_eqb a b = false.
Proof. intros a b H. destruct (str_eqb a b) eqn:E; [apply str_eqb_eq in E; contradiction|reflexivity]. Qed.

Lemma assoc_set_same : forall {A} k (v : A) m, assoc k (assoc_set k v m) = Some v.
Proof.
  intros A k v m. induction m as [|[k' w] r IH]; simpl.
  - rewrite str_eqb_refl. reflexivity.
  - destruct (str_eqb k' k) eqn:E; simpl; rewrite E; auto.
Qed.
Lemma assoc_set_other : forall {A} k k' (v : A) m, k' <> k -> assoc k' (assoc_set k v m) = assoc k' m.
Proof.
  intros A k k' v m H. induction m as [|[k0 w] r IH]; simpl.
  - rewrite (str_eqb_neq k k') by congruence. reflexivity.
  - destruct (str_eqb k0 k) eqn:E; simpl.
    + apply str_eqb_eq in E. subst k0. rewrite (str_eqb_neq k k') by congruence. reflexivity.
    + destruct (str_eqb k0 k'); auto.
Qed.
Lemma assoc_set_id : forall {A} k (v : A) m, assoc k m = Some v -> assoc_set k v m = m.
Proof.
  intros A k v m. induction m as [|[k0 w] r IH]; simpl; intro H; [discriminate|].
  destruct (str_eqb k0 k) eqn:E.
  - injection H as ->. reflexivity.
  - rewrite IH by exact H. reflexivity.
Qed.

Lemma nth_error_set_nth_same : forall {A} (xs : list A) i c y, nth_error xs i = Some c -> nth_error (set_nth xs i y) i = Some y.
Proof. intros A xs. induction xs as [|a r IH]; intros [|i] c y H; simpl in *; try discriminate; eauto. Qed.
Lemma set_nth_none : forall {A} (xs : list A) i y, nth_error xs i = None -> set_nth xs i y = xs.
Proof. intros A xs. induction xs as [|a r IH]; intros [|i] y H; simpl in *; try discriminate; try reflexivity. rewrite IH by exact H. reflexivity. Qed.
Lemma nth_error_set_nth_other : forall {A} (xs : list A) i j y, i <> j -> nth_error (set_nth xs i y) j = nth_error xs j.
Proof.
  intros A xs. induction xs as [|a r IH]; intros [|i] [|j] y H; simpl; try reflexivity; try congruence.
  apply IH. congruence.
Qed.
Lemma set_nth_id : forall {A} (xs : list A) i y, nth_error xs i = Some y -> set_nth xs i y = xs.
Proof. intros A xs. induction xs as [|a r IH]; intros [|i] y H; simpl in *; try discriminate. - injection H as ->. reflexivity. - rewrite IH by exact H. reflexivity. Qed.
Lemma fval_nth_error : forall xs i, fval xs i = match nth_error xs i with Some c => c | None => VInt 0 end.
Proof. unfold fval. induction xs as [|a r IH]; intros [|i]; simpl; auto. Qed.

(* ---- the loops ---- *)
Lemma map_keep : forall f rs z kvs m m' key,
  map_upd f rs z kvs m = Ok m' -> (forall kv, In kv kvs -> fst kv <> IStr key) -> assoc key m' = assoc key m.
Proof.
  intros f rs z kvs. induction kvs as [|[k x] r IH]; intros m m' key H Hn; simpl in H.
  - injection H as <-. reflexivity.
  - destruct k; try discriminate.
    destruct (f _ x) as [y| |] eqn:Ef; simpl in H; try discriminate.
    rewrite (IH _ _ key H) by (intros kv Hk; apply Hn; right; exact Hk).
    apply assoc_set_other. intro E. subst. apply (Hn (IStr s, x)); [left; reflexivity|reflexivity].
Qed.

Lemma smap_keep : forall f fs kvs xs ys i,
  smap_upd f fs kvs xs = Ok ys ->
  (forall kv key, In kv kvs -> fst kv = IStr key -> index_of_name key fs 0 <> Some i) ->
  nth_error ys i = nth_error xs i.
Proof.
  intros f fs kvs. induction kvs as [|[k x] r IH]; intros xs ys i H Hn; simpl in H.
  - injection H as <-. reflexivity.
  - destruct k; try discriminate.
    assert (Hr : forall kv key, In kv r -> fst kv = IStr key -> index_of_name key fs 0 <> Some i)
      by (intros kv key Hk; apply Hn; right; exact Hk).
    destruct (index_of_name s fs 0) as [j|] eqn:Ej.
    + destruct (f _ _ x) as [y| |] eqn:Ef; simpl in H; try discriminate.
      rewrite (IH _ _ i H Hr). apply nth_error_set_nth_other.
      intro E. subst j. apply (Hn (IStr s, x) s); [left; reflexivity|reflexivity|exact Ej].
    + apply (IH _ _ i H Hr).
Qed.

Lemma sarr_keep : forall f fs l i xs ys j,
  sarr_upd f fs l i xs = Ok ys -> (j < i \/ i + length l <= j) -> nth_error ys j = nth_error xs j.
Proof.
  intros f fs l. induction l as [|x r IH]; intros i xs ys j H Hj; simpl in H.
  - injection H as <-. reflexivity.
  - simpl in Hj. destruct (i <? length fs).
    + destruct (f _ _ x) as [y| |] eqn:Ef; simpl in H; try discriminate.
      rewrite (IH _ _ _ j H) by lia. apply nth_error_set_nth_other. lia.
    + apply (IH _ _ _ j H). lia.
Qed.

(* ---- on the decoder ---- *)
Definition mentions_field (fs : list (str * ty)) (kvs : list (item * item)) (i : nat) : Prop :=
  exists kv key, In kv kvs /\ fst kv = IStr key /\ index_of_name key fs 0 = Some i.
Definition mentions_key (kvs : list (item * item)) (key : str) : Prop :=
  exists kv, In kv kvs /\ fst kv = IStr key.

Theorem keep_struct_map : forall fp o fs xs kvs r,
  dec_refl fp o (TStruct fs) (VStruct xs) (IMap kvs) = Ok r ->
  exists ys, r = VStruct ys /\ forall i, ~ mentions_field fs kvs i -> nth_error ys i = nth_error xs i.
Proof.
  intros fp o fs xs kvs r H. rewrite refl_eqn in H by reflexivity. unfold through in H. simpl in H.
  destruct (smap_upd _ fs kvs xs) as [ys| |] eqn:E; simpl in H; try discriminate. injection H as <-.
  exists ys. split; [reflexivity|]. intros i Hm. eapply smap_keep; [exact E|].
  intros kv key Hk Hf Hi. apply Hm. exists kv, key. auto.
Qed.

Theorem keep_struct_arr : forall fp o fs xs l r,
  dec_refl fp o (TStruct fs) (VStruct xs) (IArr l) = Ok r ->
  exists ys, r = VStruct ys /\ forall i, length l <= i -> nth_error ys i = nth_error xs i.
Proof.
  intros fp o fs xs l r H. rewrite refl_eqn in H by reflexivity. unfold through in H. simpl in H.
  destruct (sarr_upd _ fs l 0 xs) as [ys| |] eqn:E; simpl in H; try discriminate. injection H as <-.
  exists ys. split; [reflexivity|]. intros i Hi. eapply sarr_keep; [exact E|]. right. simpl. exact Hi.
Qed.

Theorem keep_map : forall fp o e m kvs r,
  dec_refl fp o (TMap e) (VMap (Some m)) (IMap kvs) = Ok r ->
  exists m', r = VMap (Some m') /\ forall key, ~ mentions_key kvs key -> assoc key m' = assoc key m.
Proof.
  intros fp o e m kvs r H. rewrite refl_eqn in H by reflexivity. unfold through in H. simpl in H.
  destruct (map_upd _ _ _ kvs m) as [m'| |] eqn:E; simpl in H; try discriminate. injection H as <-.
  exists m'. split; [reflexivity|]. intros key Hm. eapply map_keep; [exact E|].
  intros kv Hk Hf. apply Hm. exists kv. auto.
Qed.

(* C19 — a slice decoded from a stream array ends with exactly the stream's length, and its j-th
   element is the j-th stream element decoded into the element that was there (the zero value
   beyond the old length, or under SliceElementReset).  The model knows no capacity: however the
   implementation pre-sizes (min(stream length, max(1024, MaxInitLen))) and grows the slice
   (growslice sets len to the new capacity) it has to end with this. *)
From Coq Require Import List NArith ZArith Arith Bool Lia.
From Verif Require Import Base.Outcome Wire.Item C19.Spec C19.Model C19.Loops C19.Proofs
     C19.ProofsMerge C19.ProofsPaths C19.ProofsKeep C19.ProofsIdem C19.ProofsTop.
Import ListNotations.

Lemma slice_upd_len : forall f rs z l old xs, slice_upd f rs z l old = Ok xs -> length xs = length l.
Proof.
  intros f rs z l. induction l as [|x r IH]; intros old xs H; simpl in H.
  - injection H as <-. reflexivity.
  - destruct (f _ x) as [y| |]; simpl in H; try discriminate.
    destruct (slice_upd f rs z r (tl old)) as [ys| |] eqn:E; simpl in H; try discriminate.
    injection H as <-. simpl. f_equal. eapply IH. exact E.
Qed.

Lemma slice_upd_nth : forall f rs z l old xs, slice_upd f rs z l old = Ok xs ->
  forall j x, nth_error l j = Some x ->
  exists y, nth_error xs j = Some y /\ f (if rs then z else nth j old z) x = Ok y.
Proof.
  intros f rs z l. induction l as [|a r IH]; intros old xs H j x Hj.
  - destruct j; discriminate.
  - simpl in H.
    destruct (f _ a) as [y| |] eqn:Ef; simpl in H; try discriminate.
    destruct (slice_upd f rs z r (tl old)) as [ys| |] eqn:E; simpl in H; try discriminate.
    injection H as <-. destruct j as [|j]; simpl in Hj.
    + injection Hj as <-. exists y. split; [reflexivity|].
      rewrite <- Ef. f_equal. destruct old, rs; reflexivity.
    + destruct (IH _ _ E j x Hj) as [y' [H1 H2]]. exists y'. split; [exact H1|].
      rewrite <- H2. f_equal. destruct rs; [reflexivity|]. destruct old; [destruct j|]; reflexivity.
Qed.

Lemma slice_law : forall fp o e d l r,
  dec_impl fp o (TSlice e) d (IArr l) = Ok r ->
  exists xs, r = VSlice (Some xs) /\ length xs = length l /\
    forall j x, nth_error l j = Some x ->
      exists y, nth_error xs j = Some y /\
        dec_refl fp o e (if refl_reset fp o e then zero_of e else nth j (old_slice d) (zero_of e)) x = Ok y.
Proof.
  intros fp o e d l r H. rewrite impl_is_refl in H. rewrite refl_eqn in H by reflexivity.
  unfold through in H. simpl in H.
  destruct (slice_upd _ _ _ l (old_slice d)) as [xs| |] eqn:E; simpl in H; try discriminate. injection H as <-.
  exists xs. split; [reflexivity|]. split; [eapply slice_upd_len; exact E|].
  intros j x Hj. eapply slice_upd_nth; eauto.
Qed.

(* C19 — lemmas. *)
From Coq Require Import List NArith ZArith Arith Bool Lia.
From Verif Require Import Base.Outcome Wire.Item C19.Spec C19.Model.
Import ListNotations.

Definition scalar_ty (t : ty) : Prop := t = TInt \/ t = TStr.

Lemma refl_scalar : forall fp o t cur x, scalar_ty t ->
  dec_refl fp o t cur x = match x with INil => Ok (zero_of t) | _ => scalar_of t x end.
Proof.
  intros fp o t cur x [-> | ->]; destruct x; simpl; try reflexivity;
    try (destruct (scalar_of _ _); reflexivity).
Qed.

Lemma merge_scalar : forall o t cur x, scalar_ty t ->
  merge o t cur x = match x with INil => Ok (zero_of t) | _ => scalar_of t x end.
Proof.
  intros o t cur x [-> | ->]; destruct x; simpl; try reflexivity.
Qed.

(* nil at the top level, in a slice element, in a map value: every implementation zeroes *)
Lemma nil_zero : forall fp o t d,
  dec_refl fp o t d INil = Ok (zero_of t) /\ dec_fast o t d INil = Ok (zero_of t) /\
  dec_builtin t d INil = Ok (zero_of t) /\ merge o t d INil = Ok (zero_of t).
Proof. intros. repeat apply conj; reflexivity. Qed.

Lemma nil_impl : forall fp o t d, dec_impl fp o t d INil = Ok (zero_of t).
Proof.
  intros fp o t d. unfold dec_impl, dec_impl_x. destruct (fp && has_fastpath t); [reflexivity|].
  destruct t; reflexivity.
Qed.

(* nil into a struct field (kStructField) *)
Lemma field_nil_nonptr : forall t d, (forall e, t <> TPtr e) -> field_nil t d = zero_of t.
Proof. intros t d H. destruct t; try reflexivity. exfalso. eapply H. reflexivity. Qed.

Lemma field_nil_nilptr : forall e, field_nil (TPtr e) (VPtr None) = zero_of (TPtr e).
Proof. reflexivity. Qed.

Lemma field_nil_refuted : exists t d, field_nil t d <> zero_of t.
Proof. exists (TPtr TInt), (VPtr (Some (VInt 5))). simpl. discriminate. Qed.

Lemma merge_refuted : exists fp o t d it, dec_impl fp o t d it <> merge o t d it.
Proof.
  exists false, (mkDopts false false false false), (TStruct [([80]%N, TPtr TInt)]),
         (VStruct [VPtr (Some (VInt 5))]), (IMap [(IStr [80]%N, INil)]).
  vm_compute. discriminate.
Qed.

(* scalars: the builtin switch is the documented merge *)
Lemma builtin_is_merge : forall o t d it, scalar_ty t -> dec_builtin t d it = merge o t d it.
Proof. intros o t d it H. rewrite merge_scalar by exact H. reflexivity. Qed.

Lemma paths_refuted : exists o d it,
  dec_fast o (TSlice TIface) d it <> dec_refl false o (TSlice TIface) d it.
Proof.
  exists (mkDopts false true false false), (VSlice (Some [VIface (Some (VInt 5))])), (IArr [IStr [115]%N]).
  vm_compute. discriminate.
Qed.

(* idempotence on scalars and nil *)
Lemma idem_scalar : forall fp o t d it r, scalar_ty t ->
  dec_impl fp o t d it = Ok r -> dec_impl fp o t r it = Ok r.
Proof.
  intros fp o t d it r H E. destruct H as [-> | ->]; unfold dec_impl, dec_impl_x in *; simpl in *; exact E.
Qed.

Lemma idem_nil : forall fp o t d, dec_impl fp o t (zero_of t) INil = dec_impl fp o t d INil.
Proof. intros. rewrite !nil_impl. reflexivity. Qed.

(* C08 — lemmas: sorting by a total order on distinct sort keys has one result. *)
From Coq Require Import List ZArith NArith Bool Lia Permutation Sorted.
From Verif Require Import C08.Model.
Import ListNotations.
Open Scope bool_scope.

(* ---- the lexicographic order is a total order ---- *)

Lemma lex_leb_total : forall a b, lex_leb a b = true \/ lex_leb b a = true.
Proof.
  induction a as [|x a IH]; intros [|y b]; simpl; auto.
  destruct (Z.ltb_spec x y); auto. destruct (Z.ltb_spec y x); auto.
Qed.

Lemma lex_leb_refl : forall a, lex_leb a a = true.
Proof. intros a. destruct (lex_leb_total a a); auto. Qed.

Lemma lex_leb_antisym : forall a b, lex_leb a b = true -> lex_leb b a = true -> a = b.
Proof.
  induction a as [|x a IH]; intros [|y b]; simpl; intros H1 H2; try discriminate; auto.
  destruct (Z.ltb_spec x y); destruct (Z.ltb_spec y x); try lia; try discriminate.
  assert (x = y) by lia. subst. f_equal. auto.
Qed.

Lemma lex_leb_trans : forall a b c, lex_leb a b = true -> lex_leb b c = true -> lex_leb a c = true.
Proof.
  induction a as [|x a IH]; intros [|y b] [|z c]; simpl; intros H1 H2; try discriminate; auto.
  destruct (Z.ltb_spec x y); destruct (Z.ltb_spec y x); destruct (Z.ltb_spec y z); destruct (Z.ltb_spec z y);
    destruct (Z.ltb_spec x z); destruct (Z.ltb_spec z x); try lia; try discriminate; auto.
  eapply IH; eauto.
Qed.

(* ---- insertion sort ---- *)

Section Sort.
  Variable A : Type.
  Variable leb : A -> A -> bool.
  Hypothesis leb_total : forall a b, leb a b = true \/ leb b a = true.
  Hypothesis leb_trans : forall a b c, leb a b = true -> leb b c = true -> leb a c = true.

  Definition le (a b : A) : Prop := leb a b = true.

  Lemma insert_perm : forall x l, Permutation (insert leb x l) (x :: l).
  Proof.
    intros x l. induction l as [|y r IH]; simpl; [apply Permutation_refl|].
    destruct (leb x y); [apply Permutation_refl|].
    eapply Permutation_trans; [apply perm_skip; exact IH|apply perm_swap].
  Qed.

  Lemma isort_perm : forall l, Permutation (isort leb l) l.
  Proof.
    induction l as [|x r IH]; simpl; [constructor|].
    eapply Permutation_trans; [apply insert_perm|]. apply perm_skip. exact IH.
  Qed.

  Lemma insert_sorted : forall x l, StronglySorted le l -> StronglySorted le (insert leb x l).
  Proof.
    intros x l H. induction H as [|y r Hs IH Hf]; simpl.
    - constructor; constructor.
    - destruct (leb x y) eqn:E.
      + constructor; [constructor; assumption|].
        constructor; [exact E|]. rewrite Forall_forall in *. intros z Hz. eapply leb_trans; [exact E|]. apply Hf; exact Hz.
      + constructor; [exact IH|].
        assert (Hyx : le y x) by (destruct (leb_total x y); [congruence|assumption]).
        rewrite Forall_forall in *. intros z Hz.
        apply (Permutation_in _ (insert_perm x r)) in Hz. destruct Hz as [<-|Hz]; [exact Hyx|apply Hf; exact Hz].
  Qed.

  Lemma isort_sorted : forall l, StronglySorted le (isort leb l).
  Proof. induction l; simpl; [constructor|apply insert_sorted; assumption]. Qed.

  Lemma sorted_perm_unique : forall l l',
    StronglySorted le l -> StronglySorted le l' -> Permutation l l' ->
    (forall x y, In x l -> In y l -> le x y -> le y x -> x = y) -> l = l'.
  Proof.
    induction l as [|a t IH]; intros l' Hs Hs' Hp Ha.
    - apply Permutation_nil in Hp. subst. reflexivity.
    - destruct l' as [|b t']; [apply Permutation_sym, Permutation_nil in Hp; discriminate|].
      inversion Hs as [|? ? Hst Hfa]; subst. inversion Hs' as [|? ? Hst' Hfb]; subst.
      assert (Hab : a = b).
      { assert (Hbin : In b (a :: t)) by (eapply Permutation_in; [apply Permutation_sym; exact Hp|left; reflexivity]).
        assert (Hain : In a (b :: t')) by (eapply Permutation_in; [exact Hp|left; reflexivity]).
        destruct Hbin as [E|Hbt]; [exact E|].
        destruct Hain as [E|Hat]; [symmetry; exact E|].
        rewrite Forall_forall in Hfa, Hfb.
        apply Ha; [left; reflexivity|right; exact Hbt|apply Hfa; exact Hbt|apply Hfb; exact Hat]. }
      subst b. f_equal. apply IH; try assumption.
      + eapply Permutation_cons_inv; exact Hp.
      + intros x y Hx Hy. apply Ha; right; assumption.
  Qed.

  Lemma isort_perm_unique : forall l l',
    Permutation l l' ->
    (forall x y, In x l -> In y l -> le x y -> le y x -> x = y) ->
    isort leb l = isort leb l'.
  Proof.
    intros l l' Hp Ha. apply sorted_perm_unique; try apply isort_sorted.
    - eapply Permutation_trans; [apply isort_perm|].
      eapply Permutation_trans; [exact Hp|apply Permutation_sym, isort_perm].
    - intros x y Hx Hy. apply Ha; eapply Permutation_in; try apply isort_perm; assumption.
  Qed.
End Sort.

(* ---- maps ---- *)

Lemma nodup_fst_inj : forall (K V : Type) (es : list (K * V)) a b,
  NoDup (map fst es) -> In a es -> In b es -> fst a = fst b -> a = b.
Proof.
  intros K V es. induction es as [|e r IH]; intros a b Hn Ha Hb Hf; [contradiction|].
  simpl in Hn. inversion Hn as [|? ? Hnin Hn']; subst.
  destruct Ha as [<-|Ha]; destruct Hb as [<-|Hb]; auto.
  - exfalso. apply Hnin. rewrite Hf. apply in_map. exact Hb.
  - exfalso. apply Hnin. rewrite <- Hf. apply in_map. exact Ha.
Qed.

Section Canon.
  Variable O : Type.
  Variable encO : O -> list N.
  Variable V : Type.
  Notation key := (key O).
  Notation entry := (entry O V).
  Notation entry_leb := (entry_leb O encO V).

  Lemma entry_leb_total : forall a b : entry, entry_leb a b = true \/ entry_leb b a = true.
  Proof. intros. apply lex_leb_total. Qed.

  Lemma entry_leb_trans : forall a b c : entry, entry_leb a b = true -> entry_leb b c = true -> entry_leb a c = true.
  Proof. intros a b c. apply lex_leb_trans. Qed.

  Lemma entries_antisym : forall kk (es : list entry),
    NoDup (map fst es) -> keys_ok O encO V kk es ->
    forall x y, In x es -> In y es -> entry_leb x y = true -> entry_leb y x = true -> x = y.
  Proof.
    intros kk es Hn [_ Hinj] x y Hx Hy H1 H2.
    eapply nodup_fst_inj; eauto.
    apply Hinj; [apply in_map; exact Hx|apply in_map; exact Hy|].
    apply lex_leb_antisym; assumption.
  Qed.

  Lemma bool_keys_le2 : forall (a b c : entry) r,
    Forall (fun e => kind_of O (fst e) = KKBool) (a :: b :: c :: r) ->
    NoDup (map fst (a :: b :: c :: r)) -> False.
  Proof.
    intros [ka va] [kb vb] [kc vc] r Hk Hn. simpl in *.
    inversion Hk as [|? ? Ka Hk1]; subst. inversion Hk1 as [|? ? Kb Hk2]; subst. inversion Hk2 as [|? ? Kc _]; subst.
    simpl in *. destruct ka; try discriminate. destruct kb; try discriminate. destruct kc; try discriminate.
    inversion Hn as [|? ? N1 Hn1]; subst. inversion Hn1 as [|? ? N2 _]; subst.
    simpl in *. destruct b, b0, b1; intuition congruence.
  Qed.

  Lemma perm_lemma : forall (kk : kkind) (es es' : list entry),
    Permutation es es' -> NoDup (map fst es) -> keys_ok O encO V kk es ->
    enc_map_canon O encO V kk es = enc_map_canon O encO V kk es'.
  Proof.
    intros kk es es' Hp Hn Hok.
    assert (Hs : isort entry_leb es = isort entry_leb es').
    { apply isort_perm_unique; [apply entry_leb_total|apply entry_leb_trans|exact Hp|].
      eapply entries_antisym; eauto. }
    destruct kk; try exact Hs.
    (* bool keys *)
    unfold enc_map_canon. destruct Hok as [Hk _].
    destruct es as [|a [|b [|c r]]].
    - apply Permutation_nil in Hp. subst. reflexivity.
    - apply Permutation_length_1_inv in Hp. subst. reflexivity.
    - apply Permutation_length_2_inv in Hp. destruct Hp as [->| ->]; [reflexivity|].
      destruct a as [ka va], b as [kb vb]. simpl in *.
      inversion Hk as [|? ? Ka Hk1]; subst. inversion Hk1 as [|? ? Kb _]; subst. simpl in *.
      destruct ka; try discriminate. destruct kb; try discriminate.
      inversion Hn as [|? ? N1 _]; subst. simpl in N1.
      destruct b, b0; try reflexivity; exfalso; apply N1; left; reflexivity.
    - exfalso. eapply bool_keys_le2; eauto.
  Qed.

  Lemma canon_perm : forall kk (es : list entry), Permutation (enc_map_canon O encO V kk es) es.
  Proof.
    intros kk es. destruct kk; try apply isort_perm.
    unfold enc_map_canon. destruct es as [|a [|b [|c r]]]; try apply Permutation_refl.
    destruct (fst a); try apply Permutation_refl. destruct b0; [apply perm_swap|apply Permutation_refl].
  Qed.

  Lemma canon_sorted : forall kk (es : list entry), kk <> KKBool ->
    StronglySorted (fun a b => entry_leb a b = true) (enc_map_canon O encO V kk es).
  Proof.
    intros kk es Hk. destruct kk; try congruence; (apply isort_sorted; [apply entry_leb_total|apply entry_leb_trans]).
  Qed.

  (* lookup *)
  Variable eqk : key -> key -> bool.
  Hypothesis eqk_spec : forall a b, eqk a b = true <-> a = b.

  Lemma lookup_some_in : forall (es : list entry) k v,
    lookup O V eqk k es = Some v -> In (k, v) es.
  Proof.
    induction es as [|[k' v'] r IH]; intros k v H; simpl in H; [discriminate|].
    destruct (lookup O V eqk k r) eqn:L.
    - inversion H; subst. right. apply IH. exact L.
    - destruct (eqk k k') eqn:E; [|discriminate]. apply eqk_spec in E. inversion H; subst. left; reflexivity.
  Qed.

  Lemma lookup_in_some : forall (es : list entry) k v,
    NoDup (map fst es) -> In (k, v) es -> lookup O V eqk k es = Some v.
  Proof.
    induction es as [|[k' v'] r IH]; intros k v Hn Hin; simpl; [contradiction|].
    inversion Hn as [|? ? Hnin Hn']; subst.
    destruct Hin as [E|Hin].
    - inversion E; subst. destruct (lookup O V eqk k r) eqn:L.
      + exfalso. apply Hnin. apply lookup_some_in in L. change k with (fst (k, v0)). apply in_map. exact L.
      + assert (X : eqk k k = true) by (apply eqk_spec; reflexivity). rewrite X. reflexivity.
    - rewrite (IH _ _ Hn' Hin). reflexivity.
  Qed.

  Lemma lookup_perm : forall (es es' : list entry) k,
    NoDup (map fst es) -> Permutation es es' -> lookup O V eqk k es = lookup O V eqk k es'.
  Proof.
    intros es es' k Hn Hp.
    assert (Hn' : NoDup (map fst es')) by (eapply Permutation_NoDup; [apply Permutation_map; exact Hp|exact Hn]).
    destruct (lookup O V eqk k es) eqn:L.
    - symmetry. apply lookup_in_some; [exact Hn'|]. eapply Permutation_in; [exact Hp|]. apply lookup_some_in. exact L.
    - destruct (lookup O V eqk k es') eqn:L'; [|reflexivity].
      apply lookup_some_in in L'. apply (Permutation_in _ (Permutation_sym Hp)) in L'.
      apply (lookup_in_some _ _ _ Hn) in L'. congruence.
  Qed.

  Lemma same_lemma : forall kk (es : list entry),
    NoDup (map fst es) ->
    Permutation (enc_map_canon O encO V kk es) (enc_map_plain O V es) /\
    forall k, lookup O V eqk k (enc_map_canon O encO V kk es) = lookup O V eqk k (enc_map_plain O V es).
  Proof.
    intros kk es Hn. split; [apply canon_perm|].
    intros k. symmetry. apply lookup_perm; [exact Hn|]. apply Permutation_sym, canon_perm.
  Qed.

  (* struct with missing fields *)
  Lemma struct_lemma : forall (fields missing missing' : list entry),
    Permutation missing missing' ->
    NoDup (map fst (fields ++ missing)) ->
    keys_ok O encO V KKString (fields ++ missing) ->
    enc_struct_canon O encO V fields missing = enc_struct_canon O encO V fields missing'.
  Proof.
    intros f m m' Hp Hn Hok. unfold enc_struct_canon.
    apply isort_perm_unique; [apply entry_leb_total|apply entry_leb_trans| |].
    - apply Permutation_app_head. exact Hp.
    - eapply entries_antisym; eauto.
  Qed.

  (* keys of the kinds compared by value never tie *)
  Lemma map_ZofN_inj : forall a b : list N, map Z.of_N a = map Z.of_N b -> a = b.
  Proof.
    induction a as [|x a IH]; intros [|y b] H; simpl in H; try discriminate; auto.
    inversion H. f_equal; [lia|auto].
  Qed.

  Lemma natural_keys_ok : forall kk (es : list entry),
    kk = KKBool \/ kk = KKString \/ kk = KKUint \/ kk = KKInt ->
    Forall (fun e => kind_of O (fst e) = kk) es -> keys_ok O encO V kk es.
  Proof.
    intros kk es Hkk Hk. split; [exact Hk|].
    intros k1 k2 H1 H2 Hs.
    rewrite Forall_forall in Hk.
    apply in_map_iff in H1. destruct H1 as [e1 [<- He1]].
    apply in_map_iff in H2. destruct H2 as [e2 [<- He2]].
    pose proof (Hk _ He1) as K1. pose proof (Hk _ He2) as K2.
    destruct (fst e1) eqn:F1; destruct (fst e2) eqn:F2; simpl in *;
      destruct Hkk as [->|[->|[->| ->]]]; try discriminate.
    - destruct b, b0; try reflexivity; discriminate.
    - apply map_ZofN_inj in Hs. subst. reflexivity.
    - inversion Hs. f_equal. lia.
    - inversion Hs. reflexivity.
  Qed.

  Lemma oob_keys_ok : forall (es : list entry),
    Forall (fun e => kind_of O (fst e) = KKOob) es ->
    (forall o1 o2, In (KO o1) (map fst es) -> In (KO o2) (map fst es) -> encO o1 = encO o2 -> o1 = o2) ->
    keys_ok O encO V KKOob es.
  Proof.
    intros es Hk Hinj. split; [exact Hk|].
    intros k1 k2 H1 H2 Hs.
    rewrite Forall_forall in Hk.
    assert (K1 : kind_of O k1 = KKOob).
    { apply in_map_iff in H1. destruct H1 as [e1 [<- He1]]. apply Hk; exact He1. }
    assert (K2 : kind_of O k2 = KKOob).
    { apply in_map_iff in H2. destruct H2 as [e2 [<- He2]]. apply Hk; exact He2. }
    destruct k1; try discriminate. destruct k2; try discriminate. simpl in Hs.
    apply map_ZofN_inj in Hs. f_equal. apply Hinj; assumption.
  Qed.
End Canon.

Lemma sorted_lemma : forall (O : Type) (encO : O -> list N) (V : Type) (kk : kkind) (es : list (key O * V)),
  kk <> KKBool ->
  StronglySorted (fun a b => entry_leb O encO V a b = true) (enc_map_canon O encO V kk es) /\
  Permutation (enc_map_canon O encO V kk es) es.
Proof. intros O encO V kk es H. split; [exact (canon_sorted O encO V kk es H)|exact (canon_perm O encO V kk es)]. Qed.

(* ---- the concrete scalar key encoding ---- *)

Lemma be_length : forall k n, length (be k n) = k.
Proof. induction k; intros; simpl; [reflexivity|]. rewrite app_length, IHk. simpl. lia. Qed.

Lemma be_inj : forall k n m, (n < 256 ^ N.of_nat k)%N -> (m < 256 ^ N.of_nat k)%N -> be k n = be k m -> n = m.
Proof.
  induction k as [|k IH]; intros n m Hn Hm H.
  - simpl in *. lia.
  - simpl in H. apply app_inj_tail in H. destruct H as [H1 H2].
    rewrite Nat2N.inj_succ, N.pow_succ_r' in Hn, Hm.
    assert (n / 256 = m / 256)%N.
    { apply IH; [| |exact H1]; apply N.div_lt_upper_bound; lia. }
    rewrite (N.div_mod n 256), (N.div_mod m 256) by lia. congruence.
Qed.

Lemma enc_scalar_inj : forall a b,
  scalar_canonical a -> scalar_canonical b -> enc_scalar a = enc_scalar b -> a = b.
Proof.
  assert (P8 : (256 ^ N.of_nat 8 = 2 ^ 64)%N) by reflexivity.
  intros [n|z|s|x] [n'|z'|s'|x'] Ha Hb H; unfold enc_scalar, scalar_canonical in *;
    repeat match goal with
           | H : context [(?z <? 0)%Z] |- _ => destruct (Z.ltb_spec z 0); [|lia]
           end; try discriminate.
  - assert (Hbe : be 8 n = be 8 n') by congruence.
    apply be_inj in Hbe; [subst; reflexivity|rewrite P8; lia|rewrite P8; lia].
  - assert (Hbe : be 8 (Z.to_N (-1 - z)) = be 8 (Z.to_N (-1 - z'))) by congruence.
    apply be_inj in Hbe; [f_equal; lia|rewrite P8; lia|rewrite P8; lia].
  - assert (Hbe : be 8 (N.of_nat (length s)) ++ s = be 8 (N.of_nat (length s')) ++ s') by congruence.
    assert (L : length s = length s').
    { assert (X : length (be 8 (N.of_nat (length s)) ++ s) = length (be 8 (N.of_nat (length s')) ++ s')) by (rewrite Hbe; reflexivity).
      rewrite !app_length, !be_length in X. lia. }
    rewrite L in Hbe. apply app_inv_head in Hbe. subst. reflexivity.
  - destruct x, x'; try reflexivity; discriminate.
Qed.

(* ---- the defect: distinct interface{} keys with one encoding ---- *)

Definition w_es : list (key skeyv * N) := [(KO (SInt 1), 10%N); (KO (SUint 1), 20%N)].
Definition w_es' : list (key skeyv * N) := [(KO (SUint 1), 20%N); (KO (SInt 1), 10%N)].

Lemma refuted_lemma :
  exists (es es' : list (key skeyv * N)),
    Permutation es es' /\ NoDup (map fst es) /\ Forall (fun e => kind_of skeyv (fst e) = KKOob) es /\
    enc_map_canon skeyv enc_scalar N KKOob es <> enc_map_canon skeyv enc_scalar N KKOob es'.
Proof.
  exists w_es, w_es'. repeat apply conj.
  - apply perm_swap.
  - constructor; [intros [E|[]]; discriminate|constructor; [intros []|constructor]].
  - repeat constructor.
  - vm_compute. discriminate.
Qed.

(* distinct time.Time keys that denote one instant *)
Lemma time_refuted_lemma :
  exists (es es' : list (key skeyv * N)),
    Permutation es es' /\ NoDup (map fst es) /\ Forall (fun e => kind_of skeyv (fst e) = KKTime) es /\
    enc_map_canon skeyv enc_scalar N KKTime es <> enc_map_canon skeyv enc_scalar N KKTime es'.
Proof.
  exists [(KT 1700000000 0 0, 10%N); (KT 1700000000 0 18000, 20%N)],
         [(KT 1700000000 0 18000, 20%N); (KT 1700000000 0 0, 10%N)].
  repeat apply conj.
  - apply perm_swap.
  - constructor; [intros [E|[]]; discriminate|constructor; [intros []|constructor]].
  - repeat constructor.
  - vm_compute. discriminate.
Qed.

(* binc symbols: the key bytes depend on the iteration order *)
Lemma binc_syms_refuted_lemma :
  exists (es es' : list (list N * N)),
    Permutation es es' /\ NoDup (map fst es) /\
    map snd (enc_map_canon_binc_syms es) <> map snd (enc_map_canon_binc_syms es').
Proof.
  exists [([98%N], 1%N); ([97%N], 2%N)], [([97%N], 2%N); ([98%N], 1%N)].
  repeat apply conj.
  - apply perm_swap.
  - constructor; [intros [E|[]]; discriminate|constructor; [intros []|constructor]].
  - vm_compute. discriminate.
Qed.

(* a scalar key list with one Go representation per encoding never ties *)
Lemma scalar_keys_ok : forall (V : Type) (es : list (key skeyv * V)),
  Forall (fun e => kind_of skeyv (fst e) = KKOob) es ->
  (forall o, In (KO o) (map fst es) -> scalar_canonical o) ->
  keys_ok skeyv enc_scalar V KKOob es.
Proof.
  intros V es Hk Hc. apply oob_keys_ok; [exact Hk|].
  intros o1 o2 H1 H2 He. apply enc_scalar_inj; auto.
Qed.

(* binc side encoder after the repair: plain string bytes are injective, so string keys held in
   interface{} never tie *)
Lemma binc_str_plain_inj : forall a b, binc_str_plain a = binc_str_plain b -> a = b.
Proof. intros a b H. unfold binc_str_plain in H. congruence. Qed.

Lemma binc_side_lemma : forall (V : Type) (es es' : list (key (list N) * V)),
  Permutation es es' -> NoDup (map fst es) -> Forall (fun e => kind_of (list N) (fst e) = KKOob) es ->
  enc_map_canon (list N) binc_str_plain V KKOob es = enc_map_canon (list N) binc_str_plain V KKOob es'.
Proof.
  intros V es es' Hp Hn Hk. apply perm_lemma; [exact Hp|exact Hn|].
  apply oob_keys_ok; [exact Hk|]. intros o1 o2 _ _ H. apply binc_str_plain_inj. exact H.
Qed.

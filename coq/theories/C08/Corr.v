(* C08 — correspondence: the harness builds maps (and structs with missing fields) of every key
   kind, encodes them with Canonical on real Encoders, finds the order in which the entries were
   emitted (each value is a unique sentinel) and records, per entry, the key as the comparator
   sees it (natural kinds: the value; out-of-band kinds: the bytes of the key encoded in map-key
   context, obtained through the verif hook).  The model sorts the same entries. *)
From Coq Require Import List NArith ZArith Bool.
From Verif Require Import C08.Model.
Import ListNotations.
Open Scope bool_scope.

Definition okey := list N.
Definition oenc (x : okey) : list N := x.

Record case := mkcase {
  cid : N;
  ckind : kkind;
  centries : list (key okey * N);   (* (key, entry id), in insertion order *)
  o_order : list N }.               (* entry ids in the order they appear in the output *)

Fixpoint eqbl (a b : list N) : bool :=
  match a, b with
  | [], [] => true
  | x :: a', y :: b' => N.eqb x y && eqbl a' b'
  | _, _ => false
  end.

Definition kleb (a b : key okey * N) : bool := entry_leb okey oenc N a b.

(* two entries the comparator cannot tell apart: the emitted order among them follows the
   runtime's map iteration order, which is not observable *)
Fixpoint has_tie (sorted : list (key okey * N)) : bool :=
  match sorted with
  | a :: ((b :: _) as r) => (kleb b a) || has_tie r
  | _ => false
  end.

Fixpoint sorted_nonstrict (l : list (key okey * N)) : bool :=
  match l with
  | a :: ((b :: _) as r) => kleb a b && sorted_nonstrict r
  | _ => true
  end.

Definition find_entry (es : list (key okey * N)) (id : N) : list (key okey * N) :=
  filter (fun e => N.eqb (snd e) id) es.

Definition check_case (c : case) : bool :=
  let es := centries c in
  let m := enc_map_canon okey oenc N (ckind c) es in
  let srt := isort kleb es in
  if has_tie srt then
    (* ties: the output must still be a sorted arrangement of the same entries *)
    let arranged := flat_map (find_entry es) (o_order c) in
    eqbl (isort N.leb (o_order c)) (isort N.leb (map snd es)) && sorted_nonstrict arranged
  else eqbl (map snd m) (o_order c).

Definition mismatches (cs : list case) : list N :=
  map cid (filter (fun c => negb (check_case c)) cs).

(* C08 — executable model of the order in which a map's entries are emitted when
   Canonical is set (codec/encode.go kMapCanonical :736-922, kStruct :534-567 for structs with
   missing fields, fastpath.notmono.go.tmpl :163-199 for the fast-path map types).

   What the code does, as modelled:
   * keys come from the runtime in an arbitrary order pi (rv.MapKeys() / range).
   * key kind Bool: `if len(mks) == 2 && mks[0].Bool() { swap }`, nothing else.
   * key kinds String / Uint* / Int* / Float* : slices.SortFunc with cmp.Compare on the key
     value (floats: NaN sorts before everything and NaN = NaN; -0 = +0).
   * key type time.Time: slices.SortFunc with Time.Compare (the instant only: two keys that
     denote the same instant in different locations are distinct map keys that compare equal).
   * every other key kind (struct, array, interface{}, pointer ...): each key is encoded out of
     band to bytes (in map-key context) and the entries are sorted by bytes.Compare on those
     encodings; the encodings are then written as they are.
   * fast-path maps (keys string, uint8, uint64, int, int32): slices.Sort on the keys.
   * struct with MissingFielder: struct fields and missing fields together, sort.Sort by name.
   * slices.SortFunc / sort.Sort are insertion sorts for n <= 12 (stable) and pdqsort above;
     the model is the stable insertion sort: identical whenever no two sort keys tie, and
     identical for n <= 12 even when they do.

   Every comparator above is the lexicographic order on a list of integers derived from the key
   ([skey]); the model sorts by that. *)
From Coq Require Import List ZArith NArith Bool Permutation.
Import ListNotations.
Open Scope bool_scope.

Fixpoint lex_leb (a b : list Z) : bool :=
  match a, b with
  | [], _ => true
  | _ :: _, [] => false
  | x :: a', y :: b' => if (x <? y)%Z then true else if (y <? x)%Z then false else lex_leb a' b'
  end.

Fixpoint insert {A : Type} (leb : A -> A -> bool) (x : A) (l : list A) : list A :=
  match l with
  | [] => [x]
  | y :: r => if leb x y then x :: l else y :: insert leb x r
  end.

Fixpoint isort {A : Type} (leb : A -> A -> bool) (l : list A) : list A :=
  match l with
  | [] => []
  | x :: r => insert leb x (isort leb r)
  end.

(* float64 bit pattern -> position in cmp.Compare's order: None = NaN (before everything,
   equal to every NaN); otherwise sign-magnitude as an integer (-0 and +0 both 0) *)
Definition fkey (bits : N) : option Z :=
  let mag := N.land bits (2 ^ 63 - 1) in
  if (9218868437227405312 <? mag)%N then None
  else Some (if N.testbit bits 63 then (- Z.of_N mag)%Z else Z.of_N mag).

Inductive kkind := KKBool | KKString | KKUint | KKInt | KKFloat | KKTime | KKOob.

Section Canon.
  Variable O : Type.                 (* keys that are sorted out of band *)
  Variable encO : O -> list N.       (* their encoding in map-key context *)

  Inductive key :=
  | KB (b : bool)
  | KS (s : list N)
  | KU (n : N)
  | KI (z : Z)
  | KF (bits : N)                         (* float32 keys: the bits of float64(k) *)
  | KT (sec : Z) (nsec : N) (zone : Z)    (* instant + what else distinguishes the key (location) *)
  | KO (o : O).

  Definition kind_of (k : key) : kkind :=
    match k with
    | KB _ => KKBool | KS _ => KKString | KU _ => KKUint | KI _ => KKInt
    | KF _ => KKFloat | KT _ _ _ => KKTime | KO _ => KKOob
    end.

  (* the integers the comparator looks at *)
  Definition skey (k : key) : list Z :=
    match k with
    | KB b => [if b then 1 else 0]%Z
    | KS s => map Z.of_N s
    | KU n => [Z.of_N n]
    | KI z => [z]
    | KF bits => match fkey bits with None => [] | Some z => [z] end
    | KT sec nsec _ => [sec; Z.of_N nsec]
    | KO o => map Z.of_N (encO o)
    end.

  Definition key_leb (k1 k2 : key) : bool := lex_leb (skey k1) (skey k2).

  Section Entries.
    Variable V : Type.
    Definition entry := (key * V)%type.
    Definition entry_leb (a b : entry) : bool := key_leb (fst a) (fst b).

    (* es: the entries in the order pi the runtime produced them; result: the order emitted *)
    Definition enc_map_canon (kk : kkind) (es : list entry) : list entry :=
      match kk with
      | KKBool =>
          match es with
          | [a; b] => match fst a with KB true => [b; a] | _ => es end
          | _ => es
          end
      | _ => isort entry_leb es
      end.

    (* without Canonical: as the runtime iterates *)
    Definition enc_map_plain (es : list entry) : list entry := es.

    (* what a decoder rebuilds from the emitted sequence: later entries overwrite earlier ones *)
    Fixpoint lookup (eqk : key -> key -> bool) (k : key) (es : list entry) : option V :=
      match es with
      | [] => None
      | (k', v) :: r => match lookup eqk k r with Some x => Some x | None => if eqk k k' then Some v else None end
      end.

    (* the distinct keys of a Go map all have the map's key kind, and no two of them look the
       same to the comparator *)
    Definition keys_ok (kk : kkind) (es : list entry) : Prop :=
      Forall (fun e => kind_of (fst e) = kk) es /\
      (forall k1 k2, In k1 (map fst es) -> In k2 (map fst es) -> skey k1 = skey k2 -> k1 = k2).

    (* struct with missing fields: fields (in sfi.sorted() order) then the missing fields in the
       order the runtime iterates the map CodecMissingFields returned; sorted together by name *)
    Definition enc_struct_canon (fields missing : list entry) : list entry :=
      isort entry_leb (fields ++ missing).
  End Entries.
End Canon.

Arguments KB {O}. Arguments KS {O}. Arguments KU {O}. Arguments KI {O}. Arguments KF {O}.
Arguments KT {O}. Arguments KO {O}.

(* ---- a concrete out-of-band key encoding for scalar interface{} keys (cbor heads, always in
   the 8-byte form): positive integers use the unsigned form whatever their Go type ---- *)
Fixpoint be (k : nat) (n : N) : list N :=
  match k with
  | 0 => []
  | S k' => be k' (n / 256) ++ [n mod 256]%N
  end.

Inductive skeyv :=
| SUint (n : N)       (* uintN dynamic type, n < 2^64 *)
| SInt (z : Z)        (* intN dynamic type, -2^63 <= z < 2^63 *)
| SStr (s : list N)
| SBool (b : bool).

Definition enc_scalar (k : skeyv) : list N :=
  match k with
  | SUint n => 27%N :: be 8 n
  | SInt z => if (z <? 0)%Z then 59%N :: be 8 (Z.to_N (- 1 - z)) else 27%N :: be 8 (Z.to_N z)
  | SStr s => 123%N :: be 8 (N.of_nat (length s)) ++ s
  | SBool b => [if b then 245 else 244]%N
  end.

(* scalar keys that have only one Go representation per encoding *)
Definition scalar_canonical (k : skeyv) : Prop :=
  match k with
  | SUint n => (n < 2 ^ 64)%N
  | SInt z => (- 2 ^ 63 <= z < 0)%Z
  | _ => True
  end.

(* ---- values with maps at any depth: what the canonical encoder emits for a whole value ---- *)
Section Nested.
  Variable O : Type.
  Variable encO : O -> list N.

  Inductive tval :=
  | TLeaf (n : N)                                   (* anything without a map inside *)
  | TList (l : list tval)                           (* slice / array / struct fields, in order *)
  | TMap (kk : kkind) (es : list (key O * tval)).   (* a map, entries in the runtime's iteration order *)

  Fixpoint canon (v : tval) : tval :=
    match v with
    | TLeaf n => TLeaf n
    | TList l => TList (map canon l)
    | TMap kk es => TMap kk (enc_map_canon O encO tval kk (map (fun e => (fst e, canon (snd e))) es))
    end.

  (* the same Go value seen through two runs: maps list their entries in different orders *)
  Inductive tequiv : tval -> tval -> Prop :=
  | te_leaf : forall n, tequiv (TLeaf n) (TLeaf n)
  | te_list : forall l l', Forall2 tequiv l l' -> tequiv (TList l) (TList l')
  | te_map : forall kk es es' es'',
      Forall2 (fun e e' => fst e = fst e' /\ tequiv (snd e) (snd e')) es es'' ->
      Permutation es'' es' -> tequiv (TMap kk es) (TMap kk es').

  (* every map in the value has pairwise distinct keys that satisfy keys_ok *)
  Fixpoint wfkeys (v : tval) : Prop :=
    match v with
    | TLeaf _ => True
    | TList l => (fix go (l : list tval) : Prop := match l with [] => True | x :: r => wfkeys x /\ go r end) l
    | TMap kk es =>
        NoDup (map fst es) /\ keys_ok O encO tval kk es /\
        (fix go (l : list (key O * tval)) : Prop := match l with [] => True | e :: r => wfkeys (snd e) /\ go r end) es
    end.
End Nested.

(* ---- binc with AsSymbols=1.  Since /repo 36f56b8 (F01-4) a side encoder never writes binc
   symbols (encoderBase.side): the out-of-band bytes of a string key are the plain string form,
   a function of the key alone, so such keys are ordinary out-of-band keys ([binc_str_plain] as
   [encO]) and C08_perm applies.
   Before the repair the side encoder kept ONE symbol table for all the keys of a map: a string
   met for the first time was written as a definition carrying the next symbol id, so the bytes
   of a key -- what the entries are sorted by, and what is written -- depended on the key's
   position in the runtime's iteration order ([enc_map_canon_binc_syms], kept as the record of
   the repaired defect F08-3). ---- *)
Definition binc_str_plain (s : list N) : list N := (64 + N.of_nat (length s))%N :: s.

Definition sym_def (id : nat) (s : list N) : list N :=
  [180; N.of_nat id; N.of_nat (length s)]%N ++ s.

Fixpoint side_encode_syms (next : nat) (ks : list (list N)) : list (list N) :=
  match ks with
  | [] => []
  | s :: r => sym_def next s :: side_encode_syms (S next) r
  end.

Definition enc_map_canon_binc_syms {V : Type} (es : list (list N * V)) : list (list N * V) :=
  let encs := side_encode_syms 1 (map fst es) in
  isort (fun a b => lex_leb (map Z.of_N (fst a)) (map Z.of_N (fst b))) (combine encs (map snd es)).

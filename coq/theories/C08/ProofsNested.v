(* C08 — maps at any depth: equal values (up to the order in which maps list their entries)
   have one canonical form. *)
From Coq Require Import List ZArith NArith Bool Lia Permutation.
From Verif Require Import C08.Model C08.Proofs.
Import ListNotations.

Section Nested.
  Variable O : Type.
  Variable encO : O -> list N.
  Notation tval := (tval O).
  Notation canon := (canon O encO).
  Notation tequiv := (tequiv O).
  Notation wfkeys := (wfkeys O encO).

  (* induction principle that reaches inside the nested lists *)
  Section Ind.
    Variable P : tval -> Prop.
    Hypothesis Hleaf : forall n, P (TLeaf O n).
    Hypothesis Hlist : forall l, Forall P l -> P (TList O l).
    Hypothesis Hmap : forall kk es, Forall (fun e => P (snd e)) es -> P (TMap O kk es).

    Fixpoint tval_ind' (v : tval) : P v :=
      match v with
      | TLeaf _ n => Hleaf n
      | TList _ l => Hlist l ((fix go (l : list tval) : Forall P l :=
                                 match l with [] => Forall_nil _ | x :: r => Forall_cons _ (tval_ind' x) (go r) end) l)
      | TMap _ kk es => Hmap kk es ((fix go (l : list (key O * tval)) : Forall (fun e => P (snd e)) l :=
                                       match l with [] => Forall_nil _ | e :: r => Forall_cons e (tval_ind' (snd e)) (go r) end) es)
      end.
  End Ind.

  Definition wf_list (l : list tval) : Prop :=
    (fix go (l : list tval) : Prop := match l with [] => True | x :: r => wfkeys x /\ go r end) l.
  Definition wf_entries (l : list (key O * tval)) : Prop :=
    (fix go (l : list (key O * tval)) : Prop := match l with [] => True | e :: r => wfkeys (snd e) /\ go r end) l.

  Lemma wf_list_forall : forall l, wf_list l -> Forall wfkeys l.
  Proof. induction l; simpl; intros H; constructor; tauto. Qed.

  Lemma wf_entries_forall : forall l, wf_entries l -> Forall (fun e => wfkeys (snd e)) l.
  Proof. induction l; simpl; intros H; constructor; tauto. Qed.

  Lemma keys_ok_same_keys : forall (V W : Type) kk (es : list (key O * V)) (es' : list (key O * W)),
    map fst es = map fst es' -> keys_ok O encO V kk es -> keys_ok O encO W kk es'.
  Proof.
    intros V W kk es es' Hm [Hk Hinj]. split.
    - rewrite Forall_forall in *. intros e' He'.
      assert (Hin : In (fst e') (map fst es)) by (rewrite Hm; apply in_map; exact He').
      apply in_map_iff in Hin. destruct Hin as [e [Hfe He]]. rewrite <- Hfe. apply Hk. exact He.
    - rewrite <- Hm. exact Hinj.
  Qed.

  Definition cmap (es : list (key O * tval)) : list (key O * tval) :=
    map (fun e => (fst e, canon (snd e))) es.

  Lemma cmap_fst : forall es, map fst (cmap es) = map fst es.
  Proof. induction es as [|e r IH]; simpl; [reflexivity|]. f_equal. exact IH. Qed.

  Lemma list_case : forall l l',
    Forall2 tequiv l l' ->
    Forall (fun t => forall v', tequiv t v' -> wfkeys t -> canon t = canon v') l ->
    Forall wfkeys l -> map canon l = map canon l'.
  Proof.
    intros l l' H. induction H as [|x y l1 l2 Hxy Hrest IHr]; intros IH Hw; simpl; [reflexivity|].
    inversion IH; subst. inversion Hw; subst. f_equal; auto.
  Qed.

  Lemma map_case : forall es es'',
    Forall2 (fun e e' => fst e = fst e' /\ tequiv (snd e) (snd e')) es es'' ->
    Forall (fun e => forall v', tequiv (snd e) v' -> wfkeys (snd e) -> canon (snd e) = canon v') es ->
    Forall (fun e => wfkeys (snd e)) es -> cmap es = cmap es''.
  Proof.
    intros es es'' H. induction H as [|x y l1 l2 Hxy Hrest IHr]; intros IH Hw; simpl; [reflexivity|].
    inversion IH; subst. inversion Hw; subst. destruct Hxy as [Hk Hv].
    f_equal; [|auto]. rewrite Hk. f_equal. auto.
  Qed.

  Lemma nested_lemma : forall v v', tequiv v v' -> wfkeys v -> canon v = canon v'.
  Proof.
    induction v as [n|l IH|kk es IH] using tval_ind'; intros v' He Hw; inversion He; subst.
    - reflexivity.
    - simpl. f_equal. apply list_case; [assumption|exact IH|apply wf_list_forall; exact Hw].
    - simpl. f_equal.
      destruct Hw as [Hn [Hok Hwe]]. apply wf_entries_forall in Hwe.
      assert (Hc : cmap es = cmap es'') by (apply map_case; assumption).
      change (enc_map_canon O encO tval kk (cmap es) = enc_map_canon O encO tval kk (cmap es')).
      rewrite Hc. apply perm_lemma.
      + unfold cmap. apply Permutation_map. assumption.
      + rewrite <- Hc, cmap_fst. exact Hn.
      + rewrite <- Hc. eapply keys_ok_same_keys; [|exact Hok]. symmetry. apply cmap_fst.
  Qed.
End Nested.

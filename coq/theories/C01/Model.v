(* C01/Model — the cbor driver as the generic decoder sees it, over OBSERVED items
   (what harness/cmd/c01's independent cbor parser reads from the bytes the real
   encoder wrote), and the relation between what the generic model asks the
   driver to write and what is observed on the cbor wire.  Used by the
   correspondence check only (C01/Corr.v); the theorems are stated against the
   abstract interface [wire_ok] (Generic/Dec.v).

   The observed item uses: IUint for major type 0, IInt (negative) for major 1,
   IBytes / IStr for majors 2 / 3 (chunks concatenated), IArr / IMap, IBool, INil,
   IF32 for float16 (widened by the parser with halfFloatToFloatBits) and
   float32, IF64, and ITime for tag 0 / tag 1 (converted by the parser the way
   cbor.go:599-613 decodeTime does).

   No proofs here. *)
From Coq Require Import List NArith ZArith Bool.
From Verif Require Import Base.Outcome Wire.Item Generic.Types Generic.Enc Generic.Dec.
Import ListNotations.
Open Scope bool_scope.

(* float32 bits -> float64 bits (exact) *)
Definition widen32 (b : N) : N :=
  let s := (b / 2 ^ 31)%N in
  let e := ((b / 2 ^ 23) mod 256)%N in
  let m := (b mod 2 ^ 23)%N in
  (s * 2 ^ 63 +
   (if N.eqb e 255 then 2047 * 2 ^ 52 + m * 2 ^ 29
    else if N.eqb e 0 then
      (if N.eqb m 0 then 0
       else let l := N.log2 m in             (* subnormal: m * 2^-149 = 1.x * 2^(l-149) *)
            (l + 1023 - 149) * 2 ^ 52 + (m - 2 ^ l) * 2 ^ (52 - l))
    else (e + 1023 - 127) * 2 ^ 52 + m * 2 ^ 29))%N.

Definition item_is_nil (i : item) : bool := match i with INil => true | _ => false end.

(* typed reads of the cbor driver on an observed item (the cases the encoder can produce) *)
Definition cbor_rd : wire := {|
  wn := fun i => i;
  wnk := fun i => i;
  is_nil := item_is_nil;
  rd_bool := fun i => match i with IBool b => Ok b | _ => Err EBadDesc end;
  rd_int := fun i => match i with
                     | IInt z => Ok z
                     | IUint n => if (n <? 2 ^ 63)%N then Ok (Z.of_N n) else Err EOverflow
                     | _ => Err EBadDesc end;
  rd_uint := fun i => match i with
                      | IUint n => Ok n
                      | IInt z => if (0 <=? z)%Z then Ok (Z.to_N z) else Err EOverflow
                      | _ => Err EBadDesc end;
  rd_f32 := fun i => match i with IF32 b => Ok b | _ => Err EBadDesc end;
  rd_f64 := fun i => match i with IF64 b => Ok b | IF32 b => Ok (widen32 b) | _ => Err EBadDesc end;
  rd_str := fun i => match i with IStr s | IBytes s => Ok s | _ => Err EBadDesc end;
  rd_bytes := fun i => match i with IStr s | IBytes s => Ok s | _ => Err EBadDesc end;
  rd_time := fun i => match i with ITime s n => Ok (s, n) | _ => Err EBadDesc end;
  fn32 := fun b => b;
  fn64 := fun b => b;
  tnorm := round_us;
  leaf_ok := fun _ => true
|}.

Fixpoint remove_first {A} (p : A -> bool) (l : list A) : option (list A) :=
  match l with
  | [] => None
  | x :: r => if p x then Some r else match remove_first p r with Some r' => Some (x :: r') | None => None end
  end.

(* model item [m] (what the generic encoder asked for) against observed cbor item [o].
   [s2r] = StringToRaw, [inorder] = Canonical (map entries must come in the model's order;
   otherwise any order) *)
Fixpoint cbor_match (s2r inorder : bool) (m o : item) {struct m} : bool :=
  match m, o with
  | INil, INil => true
  | IBool a, IBool b => Bool.eqb a b
  | IInt z, IInt z' => (z <? 0)%Z && Z.eqb z z'
  | IInt z, IUint n => (0 <=? z)%Z && N.eqb (Z.to_N z) n
  | IUint a, IUint b => N.eqb a b
  | IF32 a, IF32 b => N.eqb a b
  | IF64 a, IF64 b => N.eqb a b
  | IF64 a, IF32 b => N.eqb a (widen32 b)                 (* OptimumSize *)
  | IStr a, IStr b => negb s2r && eqbl a b
  | IStr a, IBytes b => s2r && eqbl a b
  | IBytes a, IBytes b => eqbl a b
  | ITime s n, INil => Z.eqb s time_zero_sec && N.eqb n 0    (* cbor.go:106 *)
  | ITime s n, ITime s' n' =>
      negb (Z.eqb s time_zero_sec && N.eqb n 0) &&
      (let sn := round_us s n in Z.eqb (fst sn) s' && N.eqb (snd sn) n')
  | IArr lm, IArr lo =>
      (fix go (lm lo : list item) : bool :=
         match lm, lo with
         | [], [] => true
         | x :: r, y :: r' => cbor_match s2r inorder x y && go r r'
         | _, _ => false
         end) lm lo
  | IMap lm, IMap lo =>
      if inorder then
        (fix go (lm : list (item * item)) (lo : list (item * item)) : bool :=
           match lm, lo with
           | [], [] => true
           | x :: r, y :: r' => cbor_match s2r inorder (fst x) (fst y) && cbor_match s2r inorder (snd x) (snd y) && go r r'
           | _, _ => false
           end) lm lo
      else
        (fix go (lm : list (item * item)) (lo : list (item * item)) : bool :=
           match lm with
           | [] => match lo with [] => true | _ => false end
           | x :: r =>
               match remove_first (fun y => cbor_match s2r inorder (fst x) (fst y) && cbor_match s2r inorder (snd x) (snd y)) lo with
               | Some lo' => go r lo'
               | None => false
               end
           end) lm lo
  | _, _ => false
  end.

(* observed values: equality up to map order, NaN = NaN (what the harness's deep-equal means) *)
Fixpoint veqb (a b : gv) {struct a} : bool :=
  match a, b with
  | GBool x, GBool y => Bool.eqb x y
  | GInt x, GInt y => Z.eqb x y
  | GUint x, GUint y => N.eqb x y
  | GF32 x, GF32 y => N.eqb x y || (nan32 x && nan32 y)
  | GF64 x, GF64 y => N.eqb x y || (nan64 x && nan64 y)
  | GStr x, GStr y => eqbl x y
  | GBytes None, GBytes None => true
  | GBytes (Some x), GBytes (Some y) => eqbl x y
  | GBArr x, GBArr y => eqbl x y
  | GTime s n, GTime s' n' => Z.eqb s s' && N.eqb n n'
  | GList None, GList None => true
  | GList (Some la), GList (Some lb) =>
      (fix go (la lb : list gv) : bool :=
         match la, lb with [], [] => true | x :: r, y :: r' => veqb x y && go r r' | _, _ => false end) la lb
  | GArr la, GArr lb =>
      (fix go (la lb : list gv) : bool :=
         match la, lb with [], [] => true | x :: r, y :: r' => veqb x y && go r r' | _, _ => false end) la lb
  | GMap None, GMap None => true
  | GMap (Some la), GMap (Some lb) =>
      (fix go (la : list (gv * gv)) (lb : list (gv * gv)) : bool :=
         match la with
         | [] => match lb with [] => true | _ => false end
         | x :: r =>
             match remove_first (fun y => veqb (fst x) (fst y) && veqb (snd x) (snd y)) lb with
             | Some lb' => go r lb'
             | None => false
             end
         end) la lb
  | GPtr None, GPtr None => true
  | GPtr (Some x), GPtr (Some y) => veqb x y
  | GStruct fa, GStruct fb =>
      (fix go (fa fb : list (name * gv)) : bool :=
         match fa, fb with
         | [], [] => true
         | x :: r, y :: r' => eqbl (fst x) (fst y) && veqb (snd x) (snd y) && go r r'
         | _, _ => false
         end) fa fb
  | _, _ => false
  end.

(* ---- two concrete drivers meeting the interface [wire_ok] (proved in C01/Proofs.v) ---- *)

(* the identity wire: every item comes back as written *)
Definition id_wire : wire := {|
  wn := fun i => i;
  wnk := fun i => i;
  is_nil := item_is_nil;
  rd_bool := rd_bool cbor_rd;
  rd_int := rd_int cbor_rd;
  rd_uint := rd_uint cbor_rd;
  rd_f32 := rd_f32 cbor_rd;
  rd_f64 := fun i => match i with IF64 b => Ok b | _ => Err EBadDesc end;
  rd_str := rd_str cbor_rd;
  rd_bytes := rd_bytes cbor_rd;
  rd_time := rd_time cbor_rd;
  fn32 := fun b => b;
  fn64 := fun b => b;
  tnorm := fun s n => (s, n);
  leaf_ok := fun _ => true
|}.

(* a cbor-shaped wire: non-negative integers come back unsigned (major type 0), the zero
   time comes back as nil, other times rounded to the microsecond; containers element-wise *)
Fixpoint cb_wn (i : item) : item :=
  match i with
  | IInt z => if (0 <=? z)%Z then IUint (Z.to_N z) else i
  | ITime s n => if is_time_zero s n then INil else let sn := round_us s n in ITime (fst sn) (snd sn)
  | IArr l => IArr (map cb_wn l)
  | IMap l => IMap (map (fun kv => (cb_wn (fst kv), cb_wn (snd kv))) l)
  | _ => i
  end.

Definition cb_wire : wire := {|
  wn := cb_wn;
  wnk := cb_wn;
  is_nil := item_is_nil;
  rd_bool := rd_bool cbor_rd;
  rd_int := rd_int cbor_rd;
  rd_uint := rd_uint cbor_rd;
  rd_f32 := rd_f32 cbor_rd;
  rd_f64 := rd_f64 cbor_rd;
  rd_str := rd_str cbor_rd;
  rd_bytes := rd_bytes cbor_rd;
  rd_time := rd_time cbor_rd;
  fn32 := fun b => b;
  fn64 := fun b => b;
  tnorm := round_us;
  leaf_ok := fun _ => true
|}.

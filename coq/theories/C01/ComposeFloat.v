(* C01/ComposeFloat — float32 <-> float64 bit-pattern facts shared by the per-format
   compositions (C01/Compose<Fmt>.v).

   Every binary driver's DecodeNaked hands a float32 back WIDENED to float64
   (float64(math.Float32frombits(..)), CVTSS2SD: exact, a signalling NaN comes
   out quiet), and every binary driver's typed DecodeFloat32 is
       float32(chkOvf.Float32V(d.DecodeFloat64()))
   (simple.go:756, msgpack/cbor/binc alike).  [widen_c] is the canonical widening
   (div/mod form); [unwiden] is the typed narrowing on the values that ARE float32
   values (no rounding needed: Float32V passes, CVTSD2SS is exact); on every other
   float64 it answers an error class: the rounding cases are property C07's.

   Proved here: [unwiden (widen_c b) = Ok b] for every float32 pattern that is not
   a signalling NaN, and the wire models' own widening functions equal [widen_c]. *)
From Coq Require Import List NArith ZArith Bool Lia.
From Coq Require Import ZifyN ZifyNat ZifyBool.
From Verif Require Import Base.Outcome Generic.Types.
From Verif Require Wire.Simple Wire.Msgpack.
Import ListNotations.
Open Scope bool_scope.
Open Scope N_scope.

Ltac Zify.zify_post_hook ::= Z.div_mod_to_equations.

(* a float32 NaN whose quiet bit (bit 22) is clear *)
Definition snan32 (b : N) : bool := nan32 b && ((b / 2 ^ 22) mod 2 =? 0).

Definition widen_c (b : N) : N :=
  let s := b / 2 ^ 31 in
  let e := (b / 2 ^ 23) mod 256 in
  let m := b mod 2 ^ 23 in
  if e =? 255 then
    (if m =? 0 then s * 2 ^ 63 + 2047 * 2 ^ 52
     else s * 2 ^ 63 + 2047 * 2 ^ 52 + 2 ^ 51 + (m mod 2 ^ 22) * 2 ^ 29)
  else if e =? 0 then
    (if m =? 0 then s * 2 ^ 63
     else let k := N.log2 m in s * 2 ^ 63 + (k + 874) * 2 ^ 52 + (m - 2 ^ k) * 2 ^ (52 - k))
  else s * 2 ^ 63 + (e + 896) * 2 ^ 52 + m * 2 ^ 29.

(* float32(chkOvf.Float32V(x)) where it is exact *)
Definition unwiden (x : N) : res N :=
  let s := x / 2 ^ 63 in
  let e := (x / 2 ^ 52) mod 2048 in
  let m := x mod 2 ^ 52 in
  if e =? 2047 then
    (if m =? 0 then Ok (s * 2 ^ 31 + 255 * 2 ^ 23)
     else Ok (s * 2 ^ 31 + 255 * 2 ^ 23 + 2 ^ 22 + (m / 2 ^ 29) mod 2 ^ 22))     (* NaN: quiet, payload truncated *)
  else if (e =? 0) && (m =? 0) then Ok (s * 2 ^ 31)
  else if (897 <=? e) && (e <=? 1150) then
    (if m mod 2 ^ 29 =? 0 then Ok (s * 2 ^ 31 + (e - 896) * 2 ^ 23 + m / 2 ^ 29)
     else Err EUnsupported)                                                      (* needs rounding: C07 *)
  else if (874 <=? e) && (e <=? 896) then
    (let k := e - 874 in
     if m mod 2 ^ (52 - k) =? 0 then Ok (s * 2 ^ 31 + 2 ^ k + m / 2 ^ (52 - k))
     else Err EUnsupported)
  else if 1151 <=? e then Err EOverflow                                          (* chkOvf.Float32V *)
  else Err EUnsupported.                                                         (* underflow / rounding: C07 *)

Ltac pows :=
  repeat match goal with
         | |- context [2 ^ ?k] =>
             match k with
             | N0 => idtac | Npos _ => idtac
             end;
             let v := eval vm_compute in (2 ^ k) in change (2 ^ k) with v
         | H : context [2 ^ ?k] |- _ =>
             match k with
             | N0 => idtac | Npos _ => idtac
             end;
             let v := eval vm_compute in (2 ^ k) in change (2 ^ k) with v in H
         end.

Lemma unwiden_widen : forall b, b < 2 ^ 32 -> snan32 b = false -> unwiden (widen_c b) = Ok b.
Proof.
  intros b Hb Hs. unfold snan32, nan32 in Hs. unfold widen_c.
  set (s := b / 2 ^ 31). set (e := (b / 2 ^ 23) mod 256). set (m := b mod 2 ^ 23).
  assert (Hdec : b = s * 2 ^ 31 + e * 2 ^ 23 + m /\ s <= 1 /\ e < 256 /\ m < 2 ^ 23).
  { unfold s, e, m. pows. lia. }
  destruct Hdec as [Hdec [Hs1 [He Hm]]].
  assert (Hq : (b / 2 ^ 22) mod 2 = m / 2 ^ 22 /\ b mod 2 ^ 31 = e * 2 ^ 23 + m).
  { unfold s, e, m in *. pows. lia. }
  destruct Hq as [Hq Hab]. rewrite Hq, Hab in Hs. clear Hq Hab.
  clearbody s e m. subst b. clear Hb.
  destruct (N.eqb_spec e 255) as [E255|E255].
  - (* inf / NaN *)
    destruct (N.eqb_spec m 0) as [M0|M0].
    + subst. unfold unwiden. pows.
      replace ((s * 9223372036854775808 + 2047 * 4503599627370496) / 4503599627370496 mod 2048) with 2047 by lia.
      replace ((s * 9223372036854775808 + 2047 * 4503599627370496) mod 4503599627370496) with 0 by lia.
      cbn [N.eqb Pos.eqb]. f_equal. lia.
    + assert (Hquiet : m / 2 ^ 22 = 1).
      { subst e. pows. apply andb_false_iff in Hs. destruct Hs as [Hs|Hs].
        - apply N.ltb_ge in Hs. lia.
        - apply N.eqb_neq in Hs. lia. }
      subst e. unfold unwiden. pows.
      set (x := s * 9223372036854775808 + 2047 * 4503599627370496 + 2251799813685248 + m mod 4194304 * 536870912).
      assert (Hx : x / 4503599627370496 mod 2048 = 2047 /\ x mod 4503599627370496 = 2251799813685248 + m mod 4194304 * 536870912
                   /\ x / 9223372036854775808 = s).
      { unfold x. lia. }
      destruct Hx as [Hx1 [Hx2 Hx3]]. rewrite Hx1, Hx2, Hx3. cbn [N.eqb Pos.eqb].
      destruct (N.eqb_spec (2251799813685248 + m mod 4194304 * 536870912) 0) as [Z|Z]; [lia|].
      f_equal. lia.
  - destruct (N.eqb_spec e 0) as [E0|E0].
    + destruct (N.eqb_spec m 0) as [M0|M0].
      * (* zero *)
        subst. unfold unwiden. pows.
        replace ((s * 9223372036854775808) / 4503599627370496 mod 2048) with 0 by lia.
        replace ((s * 9223372036854775808) mod 4503599627370496) with 0 by lia.
        cbn [N.eqb andb]. f_equal. lia.
      * (* subnormal *)
        subst e. cbv zeta.
        pose proof (N.log2_spec m ltac:(lia)) as [Hk1 Hk2].
        set (k := N.log2 m) in *.
        assert (Hk : k <= 22).
        { assert (k < 23); [|lia]. apply (N.pow_lt_mono_r_iff 2); [lia|]. eapply N.le_lt_trans; [exact Hk1|exact Hm]. }
        assert (Hp : 2 ^ k * 2 ^ (52 - k) = 2 ^ 52). { rewrite <- N.pow_add_r. f_equal. lia. }
        assert (Hpk : 2 ^ (52 - k) <> 0) by (apply N.pow_nonzero; lia).
        set (f := (m - 2 ^ k) * 2 ^ (52 - k)).
        assert (Hf : f < 2 ^ 52).
        { unfold f. rewrite <- Hp. apply N.mul_lt_mono_pos_r; [lia|].
          rewrite N.pow_succ_r' in Hk2. lia. }
        assert (Hfm : f mod 2 ^ (52 - k) = 0) by (unfold f; apply N.mod_mul; exact Hpk).
        assert (Hfd : f / 2 ^ (52 - k) = m - 2 ^ k) by (unfold f; apply N.div_mul; exact Hpk).
        unfold unwiden.
        set (x := s * 2 ^ 63 + (k + 874) * 2 ^ 52 + f).
        assert (Hx : x / 2 ^ 52 mod 2048 = k + 874 /\ x mod 2 ^ 52 = f /\ x / 2 ^ 63 = s).
        { unfold x. clearbody f. clear Hfm Hfd Hp Hpk. pows. lia. }
        destruct Hx as [Hx1 [Hx2 Hx3]]. rewrite Hx1, Hx2, Hx3.
        destruct (N.eqb_spec (k + 874) 2047) as [Z|_]; [lia|].
        destruct (N.eqb_spec (k + 874) 0) as [Z|_]; [lia|]. cbn [andb].
        destruct (N.leb_spec 897 (k + 874)) as [Z|_]; [lia|]. cbn [andb].
        destruct (N.leb_spec 874 (k + 874)) as [_|Z]; [|lia].
        destruct (N.leb_spec (k + 874) 896) as [_|Z]; [|lia]. cbn [andb].
        replace (k + 874 - 874) with k by lia. rewrite Hfm, Hfd. cbn [N.eqb]. f_equal. lia.
    + (* normal *)
      unfold unwiden. pows.
      set (x := s * 9223372036854775808 + (e + 896) * 4503599627370496 + m * 536870912).
      assert (Hx : x / 4503599627370496 mod 2048 = e + 896 /\ x mod 4503599627370496 = m * 536870912
                   /\ x / 9223372036854775808 = s).
      { unfold x. lia. }
      destruct Hx as [Hx1 [Hx2 Hx3]]. rewrite Hx1, Hx2, Hx3.
      destruct (N.eqb_spec (e + 896) 2047) as [Z|_]; [lia|].
      destruct (N.eqb_spec (e + 896) 0) as [Z|_]; [lia|]. cbn [andb].
      destruct (N.leb_spec 897 (e + 896)) as [_|Z]; [|lia].
      destruct (N.leb_spec (e + 896) 1150) as [_|Z]; [|lia]. cbn [andb].
      replace (m * 536870912 mod 536870912) with 0 by lia. cbn [N.eqb]. f_equal. lia.
Qed.

(* ---- the widening is injective on non-NaN patterns and keeps zero-ness (map keys) ---- *)
Lemma unwiden_inj : forall a b, a < 2 ^ 32 -> b < 2 ^ 32 -> snan32 a = false -> snan32 b = false ->
  widen_c a = widen_c b -> a = b.
Proof.
  intros a b Ha Hb Sa Sb E. pose proof (unwiden_widen a Ha Sa) as H1. rewrite E in H1.
  rewrite (unwiden_widen b Hb Sb) in H1. congruence.
Qed.

(* ---- N.lor with the quiet bit ---- *)
Lemma land_pow2_small : forall y n, y < 2 ^ n -> N.land y (2 ^ n) = 0.
Proof.
  intros y n H. apply N.bits_inj. intro i. rewrite N.land_spec, N.bits_0, N.pow2_bits_eqb.
  destruct (N.eqb_spec n i) as [<-|_]; [|apply andb_false_r].
  destruct (N.eq_dec y 0) as [->|Hy]; [rewrite N.bits_0; reflexivity|].
  rewrite N.bits_above_log2; [reflexivity|]. apply N.log2_lt_pow2; lia.
Qed.

Lemma lor_pow2_small : forall y n, y < 2 ^ n -> N.lor y (2 ^ n) = y + 2 ^ n.
Proof.
  intros y n H. pose proof (land_pow2_small y n H) as L.
  rewrite <- (N.lxor_lor _ _ L). symmetry. apply N.add_nocarry_lxor. exact L.
Qed.

Lemma lor_quiet : forall m, m < 2 ^ 23 -> N.lor (m * 2 ^ 29) (2 ^ 51) = 2 ^ 51 + (m mod 2 ^ 22) * 2 ^ 29.
Proof.
  intros m Hm.
  assert (Hc : m / 2 ^ 22 = 0 \/ m / 2 ^ 22 = 1) by (pows; lia).
  destruct Hc as [Hc|Hc].
  - rewrite lor_pow2_small by (pows; lia). pows. lia.
  - replace (m * 2 ^ 29) with ((m mod 2 ^ 22) * 2 ^ 29 + 2 ^ 51) by (pows; lia).
    rewrite <- lor_pow2_small by (pows; lia).
    rewrite <- N.lor_assoc, N.lor_diag. rewrite lor_pow2_small by (pows; lia). lia.
Qed.

(* ---- the wire models' widenings ---- *)
Lemma msgpack_widen : forall b, b < 2 ^ 32 -> Msgpack.f32_to_f64 b = widen_c b.
Proof.
  intros b Hb. unfold Msgpack.f32_to_f64, widen_c.
  replace ((b / 2 ^ 31) mod 2) with (b / 2 ^ 31) by (pows; lia).
  destruct (((b / 2 ^ 23) mod 256) =? 255); [|reflexivity].
  destruct ((b mod 2 ^ 23) =? 0); [reflexivity|].
  rewrite lor_quiet by (pows; lia). lia.
Qed.

Lemma simple_widen : forall b, b < 2 ^ 32 -> Simple.f32to64 b = widen_c b.
Proof.
  intros b Hb. unfold Simple.f32to64, widen_c.
  rewrite !N.shiftr_div_pow2.
  change 255 with (N.ones 8). change (2 ^ 23 - 1) with (N.ones 23). rewrite !N.land_ones.
  change (2 ^ 8) with 256. change (N.ones 8) with 255. rewrite !N.shiftl_mul_pow2.
  set (s := b / 2 ^ 31). set (e := (b / 2 ^ 23) mod 256). set (m := b mod 2 ^ 23).
  assert (Hm : m < 2 ^ 23) by (unfold m; pows; lia).
  destruct (N.eqb_spec e 0) as [E0|E0].
  - rewrite E0. cbn [N.eqb].
    destruct (m =? 0); [reflexivity|]. cbv zeta.
    replace (1023 - 149 + N.log2 m) with (N.log2 m + 874) by lia. reflexivity.
  - destruct (N.eqb_spec e 255) as [E255|E255].
    + destruct (m =? 0); [lia|]. rewrite lor_quiet by exact Hm. lia.
    + lia.
Qed.

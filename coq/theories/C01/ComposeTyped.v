(* C01/ComposeTyped — the typed reads [rd_*] of the composed driver records agree with the
   BYTE-LEVEL typed decoder model of property C07 (C07/Model.v: DecodeInt64 / DecodeUint64 /
   DecodeFloat64 / DecodeFloat32 of each binary driver on descriptor byte + following bytes,
   followed by the generic layer's narrowing; tied to the real Decoder by the C07 correspondence).

   For a scalar leaf [i] the encoder writes, a destination kind [k] (C07's 13 kinds) and ANY
   trailing bytes:

       C07.Model.decode <fmt> k (bytes of (enc O i ++ rest))
     = typed W O k (wn W i)

   where [typed W O k j] is the generic decoder [of_item W O 0 (ty_of k) j] -- the function the
   round-trip theorems are about, reading through [is_nil] / [rd_int] / [rd_uint] / [rd_f64] --
   with the stored value read off as C07 does (integers as Z, floats as bit patterns).  Equality
   of [res]: the same value, or the same error class (EOverflow: out of the kind's range /
   unsigned >= 2^63 into a signed kind; EOther: negative into an unsigned kind).  C07's decode
   does not return the cursor; that the answer does not depend on [rest] is part of the statement
   (what follows the item is not touched).

   Covered (msgpack and simple, every option vector):
     - IInt / IUint  x  the 11 integer kinds (int8..int64, int, uint8..uint64, uint, uintptr);
     - INil          x  all 13 kinds (the zero value);
     - IF64, IF32    x  float64 (FBits.f32_to_f64, the C07 widening, is proved equal to the
                        canonical exact widening [widen_c]).
   NOT covered here: float32 destinations (C07 narrows with round-to-nearest [f64_to_f32]; that it
   is exact on widened float32s is not proved: [rd_f32] stays transcribed), integer <-> float
   cross-kind reads ([rd_*] answer Err EUnsupported by design: C07's), cbor and binc, and the
   string / bytes / time / bool reads, which C07 does not model: transcribed from the driver source. *)
From Coq Require Import List NArith ZArith Bool Lia.
From Coq Require Import ZifyN ZifyNat ZifyBool.
From Verif Require Import Base.Word Base.Outcome Base.FBits Gen.Consts Gen.Leaf Wire.Item Generic.Types Generic.Enc Generic.Dec.
From Verif Require Import C01.Model C01.Proofs C01.ComposeFloat C01.ComposeSimple C01.ComposeMsgpack.
From Verif Require C07.Model Wire.Msgpack Wire.MsgpackRT Wire.Simple Wire.SimpleProofs.
Import ListNotations.
Open Scope bool_scope.

Module T := Verif.C07.Model.
Module SP := Verif.Wire.SimpleProofs.

Ltac Zify.zify_post_hook ::= Z.div_mod_to_equations.

Definition ty_of (k : T.kind) : ty :=
  match k with
  | T.KInt8 => TInt W8 | T.KInt16 => TInt W16 | T.KInt32 => TInt W32 | T.KInt64 | T.KInt => TInt W64
  | T.KUint8 => TUint W8 | T.KUint16 => TUint W16 | T.KUint32 => TUint W32 | T.KUint64 | T.KUint => TUint W64
  | T.KUintptr => TUintptr
  | T.KFloat32 => TFloat F32 | T.KFloat64 => TFloat F64
  end.

Definition zval (v : gv) : Z :=
  match v with GInt z => z | GUint n => Z.of_N n | GF32 b | GF64 b => Z.of_N b | _ => 0%Z end.

Definition typed (W : wire) (O : gopts) (k : T.kind) (i : item) : res Z :=
  match of_item W O 0 (ty_of k) i with Ok v => Ok (zval v) | Err e => Err e | OutOfFuel => OutOfFuel end.

Definition zb (l : list N) : list Z := map Z.of_N l.

Definition ival (i : item) : Z := match i with IInt z => z | IUint n => Z.of_N n | _ => 0%Z end.

Definition spec_int (k : T.kind) (x : Z) : res Z :=
  if T.is_int_kind k then
    if (T.kind_lo k =? 0)%Z && (x <? 0)%Z then Err EOther
    else if ((T.kind_lo k <=? x) && (x <? T.kind_hi k))%Z then Ok x else Err EOverflow
  else Err EUnsupported.

Open Scope Z_scope.

Ltac zpows :=
  repeat match goal with
         | |- context [2 ^ ?k] =>
             match k with Zpos _ => idtac | Z0 => idtac end;
             let v := eval vm_compute in (2 ^ k) in change (2 ^ k) with v
         | H : context [2 ^ ?k] |- _ =>
             match k with Zpos _ => idtac | Z0 => idtac end;
             let v := eval vm_compute in (2 ^ k) in change (2 ^ k) with v in H
         end.

Lemma ovf_int : forall w v, (w = 8 \/ w = 16 \/ w = 32 \/ w = 64) -> - 2 ^ 63 <= v < 2 ^ 63 ->
  checkOverflow_Int v w = negb ((- 2 ^ (w - 1) <=? v) && (v <? 2 ^ (w - 1))).
Proof.
  intros w v Hw Hv. unfold checkOverflow_Int. cbv zeta.
  unfold shl, shr, wraps, wrapu.
  destruct Hw as [-> | [-> | [-> | ->]]];
    match goal with |- context [Z.shiftl v (?c mod ?m)] =>
      let c' := eval vm_compute in (c mod m) in change (c mod m) with c' end;
    rewrite Z.shiftl_mul_pow2, Z.shiftr_div_pow2 by lia;
    cbn [Z.sub Z.add Z.opp Z.pos_sub Pos.pred_double Z.succ_double Z.pred_double Z.double]; zpows;
    repeat match goal with |- context [Z.eqb ?a ?b] => destruct (Z.eqb_spec a b) end;
    repeat match goal with |- context [Z.leb ?a ?b] => destruct (Z.leb_spec a b) end;
    repeat match goal with |- context [Z.ltb ?a ?b] => destruct (Z.ltb_spec a b) end;
    cbn [negb andb]; try reflexivity; exfalso; lia.
Qed.

Lemma ovf_uint : forall w v, (w = 8 \/ w = 16 \/ w = 32 \/ w = 64) -> 0 <= v < 2 ^ 64 ->
  checkOverflow_Uint v w = negb (v <? 2 ^ w).
Proof.
  intros w v Hw Hv. unfold checkOverflow_Uint. cbv zeta.
  unfold shl, shr, wrapu.
  destruct Hw as [-> | [-> | [-> | ->]]];
    match goal with |- context [Z.shiftl v (?c mod ?m)] =>
      let c' := eval vm_compute in (c mod m) in change (c mod m) with c' end;
    rewrite Z.shiftl_mul_pow2, Z.shiftr_div_pow2 by lia; zpows;
    repeat match goal with |- context [Z.eqb ?a ?b] => destruct (Z.eqb_spec a b) end;
    repeat match goal with |- context [Z.ltb ?a ?b] => destruct (Z.ltb_spec a b) end;
    cbn [negb andb]; try reflexivity; exfalso; lia.
Qed.

Lemma narrow_int_spec : forall w v, (w = 8 \/ w = 16 \/ w = 32 \/ w = 64) -> - 2 ^ 63 <= v < 2 ^ 63 ->
  T.narrow_int w (Ok v) = if (- 2 ^ (w - 1) <=? v) && (v <? 2 ^ (w - 1)) then Ok v else Err EOverflow.
Proof.
  intros w v Hw Hv. unfold T.narrow_int, checkOverflow_IntV. cbn [bind]. rewrite (ovf_int w v Hw Hv).
  destruct ((- 2 ^ (w - 1) <=? v) && (v <? 2 ^ (w - 1))) eqn:E; cbn [negb bind]; [|reflexivity].
  apply andb_true_iff in E. destruct E as [E1 E2]. apply Z.leb_le in E1. apply Z.ltb_lt in E2.
  rewrite wraps_id; [reflexivity|destruct Hw as [-> | [-> | [-> | ->]]]; lia|split; assumption].
Qed.

Lemma narrow_uint_spec : forall w v, (w = 8 \/ w = 16 \/ w = 32 \/ w = 64) -> 0 <= v < 2 ^ 64 ->
  T.narrow_uint w (Ok v) = if v <? 2 ^ w then Ok v else Err EOverflow.
Proof.
  intros w v Hw Hv. unfold T.narrow_uint, checkOverflow_UintV. cbn [bind]. rewrite (ovf_uint w v Hw Hv).
  destruct (Z.ltb_spec v (2 ^ w)) as [E|E]; cbn [negb bind]; [|reflexivity].
  rewrite wrapu_id; [reflexivity|split; lia].
Qed.

Lemma narrow_int_err : forall w e, T.narrow_int w (Err e) = Err e. Proof. reflexivity. Qed.
Lemma narrow_uint_err : forall w e, T.narrow_uint w (Err e) = Err e. Proof. reflexivity. Qed.

(* the byte-level generic layer on a driver's DecodeInt64 / DecodeUint64 answers *)
Definition int_answer (x : Z) : res Z := if x <? 2 ^ 63 then Ok x else Err EOverflow.     (* -2^63 <= x < 2^64 *)
Definition uint_answer (x : Z) : res Z := if x <? 0 then Err EOther else Ok x.

Lemma decode_int_spec : forall (d : T.driver) (k : T.kind) (bd : Z) (r : list Z) (x : Z),
  - 2 ^ 63 <= x < 2 ^ 64 -> T.is_int_kind k = true ->
  T.dInt64 d bd r = int_answer x -> T.dUint64 d bd r = uint_answer x ->
  T.decode d k (bd :: r) = spec_int k x.
Proof.
  intros d k bd r x Hx Hk HI HU. unfold spec_int. rewrite Hk.
  unfold T.decode. destruct k; try discriminate Hk; rewrite ?HI, ?HU; unfold int_answer, uint_answer, T.wordBits;
    cbn [T.kind_lo T.kind_hi Z.eqb andb];
    try (destruct (Z.ltb_spec x (2 ^ 63)) as [A|A];
         [rewrite narrow_int_spec by (auto; lia) | rewrite ?narrow_int_err];
         zpows;
         repeat match goal with |- context [Z.leb ?a ?b] => destruct (Z.leb_spec a b) end;
         repeat match goal with |- context [Z.ltb ?a ?b] => destruct (Z.ltb_spec a b) end;
         cbn [andb]; try reflexivity; exfalso; lia);
    try (destruct (Z.ltb_spec x 0) as [A|A];
         [rewrite ?narrow_uint_err | rewrite ?narrow_uint_spec by (auto; lia)];
         zpows;
         repeat match goal with |- context [Z.leb ?a ?b] => destruct (Z.leb_spec a b) end;
         repeat match goal with |- context [Z.ltb ?a ?b] => destruct (Z.ltb_spec a b) end;
         cbn [andb]; try reflexivity; exfalso; lia).
Qed.

(* ---- the item side, for any wire whose integer readers are the standard ones ---- *)
Definition std_reads (W : wire) : Prop :=
  (forall i, is_nil W i = item_is_nil i) /\
  (forall z, rd_int W (IInt z) = Ok z) /\
  (forall n, rd_int W (IUint n) = if (n <? 2 ^ 63)%N then Ok (Z.of_N n) else Err EOverflow) /\
  (forall n, rd_uint W (IUint n) = Ok n) /\
  (forall z, rd_uint W (IInt z) = if 0 <=? z then Ok (Z.to_N z) else Err EOther).

Definition int_form (x : Z) (j : item) : Prop :=
  (j = IInt x /\ - 2 ^ 63 <= x < 2 ^ 63) \/ (j = IUint (Z.to_N x) /\ 0 <= x < 2 ^ 64).

Lemma typed_int_spec : forall W O k x j, std_reads W -> int_form x j -> T.is_int_kind k = true ->
  typed W O k j = spec_int k x.
Proof.
  intros W O k x j (Hn & Hii & Hiu & Huu & Hui) Hf Hk. unfold typed, spec_int. rewrite Hk.
  rewrite of_item_scalar by (destruct k; reflexivity). rewrite Hn.
  destruct Hf as [[-> Hx] | [-> Hx]]; cbn [item_is_nil];
    destruct k; try discriminate Hk; cbn [ty_of T.kind_lo T.kind_hi Z.eqb andb]; rewrite ?Hii, ?Hui, ?Hiu, ?Huu;
    unfold in_s, in_u; cbn [bits]; zpows;
    repeat (first [ progress cbn [andb bind zval]
                  | match goal with |- context [N.ltb ?a ?b] => destruct (N.ltb_spec a b) end
                  | match goal with |- context [Z.leb ?a ?b] => destruct (Z.leb_spec a b) end
                  | match goal with |- context [Z.ltb ?a ?b] => destruct (Z.ltb_spec a b) end ]);
    try reflexivity; try (exfalso; lia); rewrite ?Z2N.id by lia; try reflexivity; exfalso; lia.
Qed.

(* ---- FBits.f32_to_f64 is the canonical widening ---- *)
Lemma log2_N2Z : forall m : N, (0 < m)%N -> Z.log2 (Z.of_N m) = Z.of_N (N.log2 m).
Proof.
  intros m Hm. apply Z.log2_unique; [lia|].
  destruct (N.log2_spec m Hm) as [H1 H2]. rewrite N.pow_succ_r' in H2.
  rewrite Z.pow_succ_r by lia.
  assert (E : Z.of_N (2 ^ N.log2 m) = 2 ^ Z.of_N (N.log2 m)) by (rewrite N2Z.inj_pow; reflexivity).
  lia.
Qed.

Lemma fround_normal : forall m e, 0 <= m < 2 ^ 23 -> 1 <= e <= 254 ->
  fround 53 (-1074) (2 ^ 23 + m) (e - 150) = (e + 896) * 2 ^ 52 + m * 2 ^ 29.
Proof.
  intros m e Hm He. unfold fround.
  destruct (Z.eqb_spec (2 ^ 23 + m) 0) as [Z0|_]; [zpows; lia|]. cbv zeta.
  assert (HL : Z.log2 (2 ^ 23 + m) = 23) by (apply Z.log2_unique; zpows; lia). rewrite HL.
  replace (Z.max (23 + (e - 150) - (53 - 1)) (-1074)) with (e - 179) by lia.
  replace (e - 179 - (e - 150)) with (-29) by lia.
  change (-29 <=? 0) with true. cbv iota. change (- (-29)) with 29. change (53 - 1) with 52. zpows. lia.
Qed.

Lemma fround_sub : forall m, 0 < m < 2 ^ 23 ->
  fround 53 (-1074) m (-149) = (Z.log2 m + 874) * 2 ^ 52 + (m - 2 ^ Z.log2 m) * 2 ^ (52 - Z.log2 m).
Proof.
  intros m Hm. unfold fround. destruct (Z.eqb_spec m 0) as [Z0|_]; [lia|]. cbv zeta.
  destruct (Z.log2_spec m ltac:(lia)) as [Hk1 Hk2]. set (k := Z.log2 m) in *.
  assert (Hk0 : 0 <= k) by apply Z.log2_nonneg.
  assert (Hk : k <= 22).
  { assert (k < 23); [|lia]. apply (Z.pow_lt_mono_r_iff 2); [lia|lia|]. eapply Z.le_lt_trans; [exact Hk1|lia]. }
  replace (Z.max (k + -149 - (53 - 1)) (-1074)) with (k - 201) by lia.
  replace (k - 201 - -149) with (k - 52) by lia.
  destruct (Z.leb_spec (k - 52) 0) as [_|A]; [|lia].
  replace (- (k - 52)) with (52 - k) by lia. change (53 - 1) with 52.
  replace (k - 201 - -1074) with (k + 873) by lia.
  assert (Hp : 2 ^ k * 2 ^ (52 - k) = 2 ^ 52) by (rewrite <- Z.pow_add_r by lia; f_equal; lia).
  rewrite Z.mul_sub_distr_r, Hp. lia.
Qed.

Ltac ztests := repeat (first
     [ match goal with |- context [Z.ltb ?a ?b] => destruct (Z.ltb_spec a b) end
     | match goal with |- context [Z.eqb ?a ?b] => destruct (Z.eqb_spec a b) end ]).

Lemma fbits_widen : forall b : N, (b < 2 ^ 32)%N -> f32_to_f64 (Z.of_N b) = Z.of_N (widen_c b).
Proof.
  intros b Hb. unfold f32_to_f64, widen_c, f32_M, f32_E, f32_isnan, f32_isinf, f32_abs, f32_sign, f32_bexp, f32_mant, f32_inf, f64_inf.
  set (B := Z.of_N b).
  assert (HB : 0 <= B < 2 ^ 32) by (unfold B; change (2 ^ 32)%N with 4294967296%N in Hb; zpows; lia).
  assert (Es : Z.of_N (b / 2 ^ 31) = B / 2 ^ 31) by (unfold B; zpows; change (2 ^ 31)%N with 2147483648%N; lia).
  assert (Ee : Z.of_N ((b / 2 ^ 23) mod 256) = (B / 2 ^ 23) mod 256) by (unfold B; zpows; change (2 ^ 23)%N with 8388608%N; lia).
  assert (Em : Z.of_N (b mod 2 ^ 23) = B mod 2 ^ 23) by (unfold B; zpows; change (2 ^ 23)%N with 8388608%N; lia).
  set (s := B / 2 ^ 31) in *. set (e := (B / 2 ^ 23) mod 256) in *. set (m := B mod 2 ^ 23) in *.
  assert (Hdec : B = s * 2 ^ 31 + e * 2 ^ 23 + m /\ 0 <= s <= 1 /\ 0 <= e < 256 /\ 0 <= m < 2 ^ 23 /\ B mod 2 ^ 31 = e * 2 ^ 23 + m)
    by (unfold s, e, m; zpows; lia).
  destruct Hdec as (Hdec & Hs & He & Hm & Habs). rewrite Habs.
  set (sN := (b / 2 ^ 31)%N) in *. set (eN := ((b / 2 ^ 23) mod 256)%N) in *. set (mN := (b mod 2 ^ 23)%N) in *.
  clearbody s e m sN eN mN. clear Hdec Habs.
  change (2 ^ 63)%N with 9223372036854775808%N. change (2 ^ 52)%N with 4503599627370496%N.
  change (2 ^ 51)%N with 2251799813685248%N. change (2 ^ 22)%N with 4194304%N. change (2 ^ 29)%N with 536870912%N.
  destruct (N.eqb_spec eN 255) as [E255|E255].
  - destruct (N.eqb_spec mN 0) as [M0|M0]; ztests; try (exfalso; zpows; lia); zpows; lia.
  - destruct (N.eqb_spec eN 0) as [E0|E0].
    + destruct (N.eqb_spec mN 0) as [M0|M0].
      * ztests; try (exfalso; zpows; lia). replace m with 0 by lia. change (fround 53 (-1074) 0 (-149)) with 0. zpows. lia.
      * ztests; try (exfalso; zpows; lia).
        rewrite fround_sub by lia. rewrite <- Em. rewrite log2_N2Z by lia.
        cbv zeta. rewrite !N2Z.inj_add, !N2Z.inj_mul, N2Z.inj_sub, !N2Z.inj_pow.
        -- rewrite N2Z.inj_sub, N2Z.inj_add.
           ++ rewrite Es. change (Z.of_N 2) with 2. change (Z.of_N 52) with 52. change (Z.of_N 874) with 874.
              change (Z.of_N 9223372036854775808) with 9223372036854775808. change (Z.of_N 4503599627370496) with 4503599627370496.
              zpows. lia.
           ++ assert (N.log2 mN < 23)%N; [|lia]. apply N.log2_lt_pow2; [lia|]. change (2 ^ 23)%N with 8388608%N. zpows. lia.
        -- destruct (N.log2_spec mN ltac:(lia)) as [L _]. exact L.
    + ztests; try (exfalso; zpows; lia). rewrite fround_normal by lia. zpows. lia.
Qed.

(* ---- msgpack ---- *)
Lemma be_val_acc : forall l a, be_val (Z.of_N a) (zb l) = Z.of_N (M.be_acc a l).
Proof.
  induction l as [|x l IH]; intro a; cbn [zb map be_val M.be_acc]; [reflexivity|].
  replace (Z.of_N a * 256 + Z.of_N x) with (Z.of_N (a * 256 + x)) by lia. apply IH.
Qed.

Lemma readv_zb : forall (l rest : list N) (k : nat) (v : N),
  length l = k -> be_val 0 (zb l) = Z.of_N v ->
  T.readv k (zb (l ++ rest)) = Ok (Z.of_N v).
Proof.
  intros l rest k v Hl Hv. unfold T.readv, T.readn, zb. rewrite map_length, app_length, Hl.
  destruct (Nat.ltb_spec (k + length rest) k) as [H|H]; [lia|]. cbn [bind].
  rewrite map_app, firstn_app, map_length, Hl, Nat.sub_diag. cbn [firstn]. rewrite app_nil_r.
  rewrite firstn_all2 by (rewrite map_length; lia). fold (zb l). rewrite Hv. reflexivity.
Qed.

Lemma mp_readv : forall k v rest, (v < 256 ^ N.of_nat k)%N -> T.readv k (zb (M.be_put k v ++ rest)) = Ok (Z.of_N v).
Proof.
  intros k v rest Hv. apply readv_zb; [apply MR.be_put_length|].
  change 0 with (Z.of_N 0). rewrite be_val_acc. f_equal. exact (MR.be_get_put k v Hv).
Qed.

Ltac mpc := unfold mpNil, mpUint8, mpUint16, mpUint32, mpUint64, mpInt8, mpInt16, mpInt32, mpInt64, mpFloat, mpDouble,
  mpPosFixNumMin, mpPosFixNumMax, mpNegFixNumMin, mpNegFixNumMax in *.

Ltac kill_tests :=
  repeat (first
    [ match goal with |- context [Z.eqb ?a ?b] => destruct (Z.eqb_spec a b); [exfalso; mpc; lia|] end
    | match goal with |- context [Z.leb ?a ?b] => destruct (Z.leb_spec a b) end
    | progress cbn [andb] ]).

Lemma wraps8_id : forall b, -128 <= b < 128 -> wraps 8 b = b.
Proof. intros b H. apply wraps_id; [lia|]. unfold Word.in_s. change (8 - 1) with 7. zpows. lia. Qed.

(* positive fixnum *)
Lemma mp_fixpos : forall b r, 0 <= b <= 127 ->
  T.mp_Int64 b r = Ok b /\ T.mp_Uint64 b r = Ok b.
Proof.
  intros b r Hb. unfold T.mp_Int64, T.mp_Uint64, T.mp_nil. split; kill_tests; try (exfalso; mpc; lia); [|reflexivity].
  rewrite wraps8_id by lia. reflexivity.
Qed.

(* negative fixnum: the byte is 256 + x *)
Lemma mp_fixneg : forall b r, 224 <= b <= 255 ->
  T.mp_Int64 b r = Ok (b - 256) /\ T.mp_Uint64 b r = Err EOther.
Proof.
  intros b r Hb. unfold T.mp_Int64, T.mp_Uint64, T.mp_nil. split; kill_tests; try (exfalso; mpc; lia); [|reflexivity].
  f_equal. unfold wraps. zpows. cbn [Z.sub Z.add Z.opp Z.pos_sub Pos.pred_double]. lia.
Qed.

Ltac closed_tests :=
  repeat match goal with
         | |- context [Z.eqb ?a ?b] =>
             let r := eval vm_compute in (Z.eqb a b) in
             match r with true => change (Z.eqb a b) with true | false => change (Z.eqb a b) with false end
         end; cbv iota.

(* the uint family *)
Lemma mp_uint_k : forall (hd : N) (k : nat) v rest, (v < 256 ^ N.of_nat k)%N ->
  ((hd = M.bUint8 /\ k = 1%nat) \/ (hd = M.bUint16 /\ k = 2%nat) \/ (hd = M.bUint32 /\ k = 4%nat) \/ (hd = M.bUint64 /\ k = 8%nat)) ->
  T.mp_Int64 (Z.of_N hd) (zb (M.be_put k v ++ rest)) = int_answer (Z.of_N v) /\
  T.mp_Uint64 (Z.of_N hd) (zb (M.be_put k v ++ rest)) = uint_answer (Z.of_N v).
Proof.
  intros hd k v rest Hv Hc. unfold int_answer, uint_answer.
  destruct (Z.ltb_spec (Z.of_N v) 0) as [A|_]; [lia|].
  destruct Hc as [[-> ->] | [[-> ->] | [[-> ->] | [-> ->]]]]; unfold T.mp_Int64, T.mp_Uint64, T.mp_nil; closed_tests;
    rewrite !(mp_readv _ v rest Hv); cbn [bind]; (split; [|reflexivity]).
  - change (256 ^ N.of_nat 1)%N with 256%N in Hv. destruct (Z.ltb_spec (Z.of_N v) (2 ^ 63)); [reflexivity|zpows; lia].
  - change (256 ^ N.of_nat 2)%N with 65536%N in Hv. destruct (Z.ltb_spec (Z.of_N v) (2 ^ 63)); [reflexivity|zpows; lia].
  - change (256 ^ N.of_nat 4)%N with 4294967296%N in Hv. destruct (Z.ltb_spec (Z.of_N v) (2 ^ 63)); [reflexivity|zpows; lia].
  - unfold checkOverflow_SignedIntV, checkOverflow_SignedInt. cbv zeta.
    change (256 ^ N.of_nat 8)%N with 18446744073709551616%N in Hv.
    destruct (Z.ltb_spec (Z.of_N v) (2 ^ 63)) as [B|B]; destruct (Z.gtb_spec (Z.of_N v) 9223372036854775807) as [C|C];
      try reflexivity; try (exfalso; zpows; lia).
    rewrite wraps_id; [reflexivity|lia|unfold Word.in_s; change (64 - 1) with 63; zpows; lia].
Qed.

(* the int family *)
Lemma mp_int_k : forall (hd : N) (k : nat) v rest, (v < 256 ^ N.of_nat k)%N ->
  ((hd = M.bInt8 /\ k = 1%nat) \/ (hd = M.bInt16 /\ k = 2%nat) \/ (hd = M.bInt32 /\ k = 4%nat) \/ (hd = M.bInt64 /\ k = 8%nat)) ->
  T.mp_Int64 (Z.of_N hd) (zb (M.be_put k v ++ rest)) = Ok (wraps (8 * Z.of_nat k) (Z.of_N v)) /\
  T.mp_Uint64 (Z.of_N hd) (zb (M.be_put k v ++ rest)) = uint_answer (wraps (8 * Z.of_nat k) (Z.of_N v)).
Proof.
  intros hd k v rest Hv Hc. unfold uint_answer.
  destruct Hc as [[-> ->] | [[-> ->] | [[-> ->] | [-> ->]]]]; unfold T.mp_Int64, T.mp_Uint64, T.mp_nil; closed_tests;
    rewrite !(mp_readv _ v rest Hv); cbn [bind]; (split; [reflexivity|]); unfold T.mp_nonneg;
    match goal with |- context [wraps ?w ?y] => set (x := wraps w y); change (wraps _ y) with x end;
    destruct (Z.leb_spec 0 x); destruct (Z.ltb_spec x 0); try reflexivity; lia.
Qed.

Lemma wraps_wrapZ : forall (w : N) z, (w = 8 \/ w = 16 \/ w = 32 \/ w = 64)%N ->
  - 2 ^ (Z.of_N w - 1) <= z < 2 ^ (Z.of_N w - 1) -> wraps (Z.of_N w) (Z.of_N (M.wrapZ w z)) = z.
Proof.
  intros w z Hw Hz. unfold wraps, M.wrapZ.
  destruct Hw as [-> | [-> | [-> | ->]]]; cbn [Z.of_N Z.sub Z.add Z.opp Z.pos_sub Pos.pred_double] in *; zpows; lia.
Qed.

Lemma one_byte_z : forall hd v rest, (v < 256)%N -> [hd; v] ++ rest = hd :: M.be_put 1 v ++ rest.
Proof. intros. apply MR.one_byte. assumption. Qed.

Definition answers (d : T.driver) (bs : list Z) (x : Z) : Prop :=
  exists bd r, bs = bd :: r /\ T.dInt64 d bd r = int_answer x /\ T.dUint64 d bd r = uint_answer x.

Lemma int_answer_small : forall x, x < 2 ^ 63 -> int_answer x = Ok x.
Proof. intros x H. unfold int_answer. destruct (Z.ltb_spec x (2 ^ 63)); [reflexivity|lia]. Qed.
Lemma uint_answer_pos : forall x, 0 <= x -> uint_answer x = Ok x.
Proof. intros x H. unfold uint_answer. destruct (Z.ltb_spec x 0); [lia|reflexivity]. Qed.
Lemma uint_answer_neg : forall x, x < 0 -> uint_answer x = Err EOther.
Proof. intros x H. unfold uint_answer. destruct (Z.ltb_spec x 0); [reflexivity|lia]. Qed.

Lemma mp_uint_bytes : forall O n rest, (n < 2 ^ 64)%N -> answers T.msgpack (zb (M.enc_uint O n ++ rest)) (Z.of_N n).
Proof.
  intros O n rest Hn. unfold answers, M.enc_uint. cbn [T.dInt64 T.dUint64 T.msgpack].
  assert (U : forall hd k, (n < 256 ^ N.of_nat k)%N ->
     ((hd = M.bUint8 /\ k = 1%nat) \/ (hd = M.bUint16 /\ k = 2%nat) \/ (hd = M.bUint32 /\ k = 4%nat) \/ (hd = M.bUint64 /\ k = 8%nat)) ->
     exists bd r, zb ((hd :: M.be_put k n) ++ rest) = bd :: r /\ T.mp_Int64 bd r = int_answer (Z.of_N n) /\ T.mp_Uint64 bd r = uint_answer (Z.of_N n)).
  { intros hd k Hk Hc. exists (Z.of_N hd), (zb (M.be_put k n ++ rest)). split; [reflexivity|]. apply mp_uint_k; assumption. }
  destruct (N.leb_spec n 127) as [H1|H1].
  - rewrite MR.wrap_small by (change (2 ^ 8)%N with 256%N; lia).
    destruct (M.e_nofixednum O).
    + rewrite one_byte_z by lia. apply (U M.bUint8 1%nat); [change (256 ^ N.of_nat 1)%N with 256%N; lia|auto].
    + exists (Z.of_N n), (zb rest). split; [reflexivity|].
      destruct (mp_fixpos (Z.of_N n) (zb rest) ltac:(lia)) as [A B]. rewrite A, B.
      rewrite int_answer_small by (zpows; lia). rewrite uint_answer_pos by lia. split; reflexivity.
  - destruct (N.leb_spec n 255) as [H2|H2].
    + rewrite MR.wrap_small by (change (2 ^ 8)%N with 256%N; lia). rewrite one_byte_z by lia.
      apply (U M.bUint8 1%nat); [change (256 ^ N.of_nat 1)%N with 256%N; lia|auto].
    + destruct (N.leb_spec n 65535) as [H3|H3].
      * rewrite MR.wrap_small by (change (2 ^ 16)%N with 65536%N; lia).
        apply (U M.bUint16 2%nat); [change (256 ^ N.of_nat 2)%N with 65536%N; lia|auto].
      * destruct (N.leb_spec n 4294967295) as [H4|H4].
        -- rewrite MR.wrap_small by (change (2 ^ 32)%N with 4294967296%N; lia).
           apply (U M.bUint32 4%nat); [change (256 ^ N.of_nat 4)%N with 4294967296%N; lia|auto 6].
        -- rewrite MR.wrap_small by exact Hn.
           apply (U M.bUint64 8%nat); [change (256 ^ N.of_nat 8)%N with (2 ^ 64)%N; lia|auto 6].
Qed.

Lemma mp_int_bytes : forall O z rest, - 2 ^ 63 <= z < 2 ^ 63 -> answers T.msgpack (zb (M.enc_int O z ++ rest)) z.
Proof.
  intros O z rest Hz. unfold M.enc_int.
  assert (I : forall hd k (w : N), Z.of_N w = 8 * Z.of_nat k -> (w = 8 \/ w = 16 \/ w = 32 \/ w = 64)%N ->
     - 2 ^ (Z.of_N w - 1) <= z < 2 ^ (Z.of_N w - 1) ->
     ((hd = M.bInt8 /\ k = 1%nat) \/ (hd = M.bInt16 /\ k = 2%nat) \/ (hd = M.bInt32 /\ k = 4%nat) \/ (hd = M.bInt64 /\ k = 8%nat)) ->
     answers T.msgpack (zb ((hd :: M.be_put k (M.wrapZ w z)) ++ rest)) z).
  { intros hd k w Ew Hw Hr Hc. exists (Z.of_N hd), (zb (M.be_put k (M.wrapZ w z) ++ rest)). split; [reflexivity|].
    cbn [T.dInt64 T.dUint64 T.msgpack].
    assert (Hv : (M.wrapZ w z < 256 ^ N.of_nat k)%N).
    { pose proof (MR.wrapZ_lt w z) as L. replace (256 ^ N.of_nat k)%N with (2 ^ w)%N; [exact L|].
      destruct Hc as [[_ ->] | [[_ ->] | [[_ ->] | [_ ->]]]]; destruct Hw as [-> | [-> | [-> | ->]]]; try reflexivity; cbn in Ew; lia. }
    destruct (mp_int_k hd k _ rest Hv Hc) as [A B]. rewrite A, B. rewrite <- Ew. rewrite (wraps_wrapZ w z Hw Hr).
    rewrite int_answer_small by lia. split; reflexivity. }
  zpows.
  destruct (M.e_posintunsigned O && (0 <=? z)) eqn:Epu.
  { apply andb_true_iff in Epu. destruct Epu as [_ Hpos]. apply Z.leb_le in Hpos.
    rewrite MR.wrapZ_nonneg by (cbn; zpows; lia).
    pose proof (mp_uint_bytes O (Z.to_N z) rest ltac:(change (2 ^ 64)%N with 18446744073709551616%N; lia)) as H.
    rewrite Z2N.id in H by lia. exact H. }
  clear Epu.
  destruct (Z.ltb_spec 127 z) as [H1|H1].
  - destruct (Z.leb_spec z 32767).
    + apply (I M.bInt16 2%nat 16%N); cbn; zpows; auto; lia.
    + destruct (Z.leb_spec z 2147483647).
      * apply (I M.bInt32 4%nat 32%N); cbn; zpows; auto 6; lia.
      * apply (I M.bInt64 8%nat 64%N); cbn; zpows; auto 6; lia.
  - destruct (Z.leb_spec (-32) z) as [H2|H2].
    + destruct (M.e_nofixednum O).
      * rewrite one_byte_z by (pose proof (MR.wrapZ_lt 8 z); change (2 ^ 8)%N with 256%N in *; lia).
        apply (I M.bInt8 1%nat 8%N); cbn; zpows; auto; lia.
      * exists (Z.of_N (M.wrapZ 8 z)), (zb rest). split; [reflexivity|]. cbn [T.dInt64 T.dUint64 T.msgpack].
        destruct (Z.ltb_spec z 0) as [Hn|Hn].
        -- assert (E : Z.of_N (M.wrapZ 8 z) = z + 256) by (unfold M.wrapZ; cbn [Z.of_N]; zpows; lia).
           rewrite E. destruct (mp_fixneg (z + 256) (zb rest) ltac:(lia)) as [A B]. rewrite A, B.
           rewrite int_answer_small by lia. rewrite uint_answer_neg by lia. split; [f_equal; lia|reflexivity].
        -- assert (E : Z.of_N (M.wrapZ 8 z) = z) by (unfold M.wrapZ; cbn [Z.of_N]; zpows; lia).
           rewrite E. destruct (mp_fixpos z (zb rest) ltac:(lia)) as [A B]. rewrite A, B.
           rewrite int_answer_small by lia. rewrite uint_answer_pos by lia. split; reflexivity.
    + destruct (Z.leb_spec (-128) z).
      * rewrite one_byte_z by (pose proof (MR.wrapZ_lt 8 z); change (2 ^ 8)%N with 256%N in *; lia).
        apply (I M.bInt8 1%nat 8%N); cbn; zpows; auto; lia.
      * destruct (Z.leb_spec (-32768) z).
        -- apply (I M.bInt16 2%nat 16%N); cbn; zpows; auto; lia.
        -- destruct (Z.leb_spec (-2147483648) z).
           ++ apply (I M.bInt32 4%nat 32%N); cbn; zpows; auto 6; lia.
           ++ apply (I M.bInt64 8%nat 64%N); cbn; zpows; auto 6; lia.
Qed.

(* ---- msgpack: item side ---- *)
Lemma mp_std_reads : forall Of D, std_reads (W_msgpack Of D).
Proof. intros. repeat apply conj; intros; reflexivity. Qed.

Lemma mp_wn_int : forall Of D z, - 2 ^ 63 <= z < 2 ^ 63 -> int_form z (wn (W_msgpack Of D) (IInt z)).
Proof.
  intros Of D z Hz. cbn [wn W_msgpack]. unfold m_wn, int_form. cbn [MR.norm].
  destruct (M.e_posintunsigned Of && (0 <=? z)) eqn:E; [|left; split; [reflexivity|exact Hz]].
  apply andb_true_iff in E. destruct E as [_ E]. apply Z.leb_le in E.
  destruct (norm_uint_cases Of D (Z.to_N z) ltac:(zpows; lia)) as [H|H]; rewrite H.
  - left. rewrite Z2N.id by lia. split; [reflexivity|exact Hz].
  - right. split; [reflexivity|zpows; lia].
Qed.

Lemma mp_wn_uint : forall Of D n, (n < 2 ^ 64)%N -> leaf_ok (W_msgpack Of D) (IUint n) = true ->
  int_form (Z.of_N n) (wn (W_msgpack Of D) (IUint n)).
Proof.
  intros Of D n Hn Hl. cbn [wn leaf_ok W_msgpack m_leaf_ok] in *. unfold m_wn, int_form. cbn [MR.norm].
  unfold MR.norm_uint, M.mkuint.
  destruct ((n <=? 127)%N && negb (M.e_nofixednum Of)) eqn:E.
  - apply andb_true_iff in E. destruct E as [E _]. apply N.leb_le in E. left. split; [reflexivity|zpows; lia].
  - destruct (M.d_signedinteger D).
    + cbn [negb orb] in Hl. apply N.ltb_lt in Hl. rewrite signed_small by exact Hl. left. split; [reflexivity|zpows; lia].
    + right. rewrite N2Z.id. split; [reflexivity|]. change (2 ^ 64)%N with 18446744073709551616%N in Hn. zpows. lia.
Qed.

Definition int_item (i : item) : Prop :=
  match i with IInt z => - 2 ^ 63 <= z < 2 ^ 63 | IUint n => (n < 2 ^ 64)%N | _ => False end.

Theorem msgpack_typed_int : forall Of D O k i rest,
  T.is_int_kind k = true -> int_item i -> leaf_ok (W_msgpack Of D) i = true ->
  T.decode T.msgpack k (zb (M.enc Of i ++ rest)) = typed (W_msgpack Of D) O k (wn (W_msgpack Of D) i).
Proof.
  intros Of D O k i rest Hk Hi Hl. destruct i; try contradiction; cbn [int_item] in Hi.
  - destruct (mp_int_bytes Of z rest Hi) as (bd & r & E & A & B). cbn [M.enc]. rewrite E.
    rewrite (decode_int_spec T.msgpack k bd r z ltac:(zpows; lia) Hk A B).
    symmetry. apply typed_int_spec; [apply mp_std_reads|apply mp_wn_int; exact Hi|exact Hk].
  - destruct (mp_uint_bytes Of n rest Hi) as (bd & r & E & A & B). cbn [M.enc]. rewrite E.
    rewrite (decode_int_spec T.msgpack k bd r (Z.of_N n) ltac:(change (2 ^ 64)%N with 18446744073709551616%N in Hi; zpows; lia) Hk A B).
    symmetry. apply typed_int_spec; [apply mp_std_reads|apply mp_wn_uint; assumption|exact Hk].
Qed.

(* nil into every kind: the zero value *)
Theorem msgpack_typed_nil : forall Of D O k rest,
  T.decode T.msgpack k (zb (M.enc Of INil ++ rest)) = typed (W_msgpack Of D) O k (wn (W_msgpack Of D) INil).
Proof. intros. destruct k; vm_compute; reflexivity. Qed.

(* float64 into float64 *)
Theorem msgpack_typed_f64 : forall Of D O b rest, (b < 2 ^ 64)%N ->
  T.decode T.msgpack T.KFloat64 (zb (M.enc Of (IF64 b) ++ rest)) = typed (W_msgpack Of D) O T.KFloat64 (wn (W_msgpack Of D) (IF64 b)).
Proof.
  intros Of D O b rest Hb. cbn [M.enc]. change (zb ((M.bDouble :: M.be_put 8 b) ++ rest)) with (Z.of_N M.bDouble :: zb (M.be_put 8 b ++ rest)).
  cbn [T.decode T.dFloat64 T.msgpack]. unfold T.mp_Float64, T.mp_nil. closed_tests.
  rewrite mp_readv by exact Hb. reflexivity.
Qed.

(* ---- simple ---- *)
Lemma be_val_fold : forall l a, be_val (Z.of_N a) (zb l) = Z.of_N (fold_left (fun a b => (a * 256 + b)%N) l a).
Proof.
  induction l as [|x l IH]; intro a; cbn [zb map be_val fold_left]; [reflexivity|].
  replace (Z.of_N a * 256 + Z.of_N x) with (Z.of_N (a * 256 + x)) by lia. apply IH.
Qed.

Lemma s_readv : forall k v rest, (v < 256 ^ N.of_nat k)%N -> T.readv k (zb (S.be_put k v ++ rest)) = Ok (Z.of_N v).
Proof.
  intros k v rest Hv. apply readv_zb; [apply SP.be_put_length|].
  change 0 with (Z.of_N 0). rewrite be_val_fold. f_equal. exact (SP.be_get_put k v Hv).
Qed.

Ltac sc := unfold simpleVdNil, simpleVdPosInt, simpleVdNegInt, simpleVdFloat32, simpleVdFloat64 in *.

Lemma int64v_pos : forall ui, 0 <= ui < 2 ^ 64 -> decNegintPosintFloatNumberHelperInt64v ui false false = int_answer ui.
Proof.
  intros ui H. unfold decNegintPosintFloatNumberHelperInt64v, checkOverflow_Uint2Int, int_answer. cbv zeta. cbn [andb].
  destruct (Z.geb_spec ui 9223372036854775808); destruct (Z.ltb_spec ui (2 ^ 63)); try reflexivity; try (exfalso; zpows; lia).
  rewrite wraps_id; [reflexivity|lia|unfold Word.in_s; change (64 - 1) with 63; zpows; lia].
Qed.

Lemma int64v_neg : forall ui, 1 <= ui <= 2 ^ 63 -> decNegintPosintFloatNumberHelperInt64v ui true false = Ok (- ui).
Proof.
  intros ui H. unfold decNegintPosintFloatNumberHelperInt64v, checkOverflow_Uint2Int. cbv zeta. cbn [andb].
  destruct (Z.gtb_spec ui 9223372036854775808); [exfalso; zpows; lia|]. cbn [negb].
  f_equal. unfold wraps. change (64 - 1) with 63. zpows.
  assert (E : (ui + 9223372036854775808) mod 18446744073709551616 - 9223372036854775808 = ui \/
              (ui = 9223372036854775808 /\ (ui + 9223372036854775808) mod 18446744073709551616 - 9223372036854775808 = - 9223372036854775808)) by lia.
  destruct E as [-> | [-> ->]]; [lia|reflexivity].
Qed.

(* positive / negative magnitudes of 1, 2, 4, 8 bytes *)
Lemma simple_int_k : forall (neg : bool) (w : N) v rest, (w <= 3)%N -> (v < 256 ^ N.of_nat (S.wbytes w))%N ->
  let hd := ((if neg then S.vd simpleVdNegInt else S.vd simpleVdPosInt) + w)%N in
  let bs := zb (S.be_put (S.wbytes w) v ++ rest) in
  T.simple_Int64 (Z.of_N hd) bs = T.hlp_int64 (Z.of_N v) neg true false (T.simple_decFloat (Z.of_N hd) bs) /\
  T.simple_Uint64 (Z.of_N hd) bs = T.hlp_uint64 (Z.of_N v) neg true (T.simple_decFloat (Z.of_N hd) bs).
Proof.
  intros neg w v rest Hw Hv hd bs.
  assert (Cw : w = 0%N \/ w = 1%N \/ w = 2%N \/ w = 3%N) by lia.
  unfold T.simple_Int64, T.simple_Uint64, T.simple_nil, T.simple_decInteger.
  destruct neg; destruct Cw as [-> | [-> | [-> | ->]]]; subst hd bs;
    change (S.wbytes 0) with 1%nat in *; change (S.wbytes 1) with 2%nat in *;
    change (S.wbytes 2) with 4%nat in *; change (S.wbytes 3) with 8%nat in *; closed_tests;
    rewrite (s_readv _ v rest Hv); cbn [bind]; split; reflexivity.
Qed.

Lemma simple_mag_bytes : forall o key (neg : bool) v rest, (v < 2 ^ 64)%N ->
  SP.zn o key && (v =? 0)%N = false -> (if neg then 1 <= Z.of_N v <= 2 ^ 63 else True) ->
  answers T.simple (zb (S.enc_uint o key v (if neg then S.vd simpleVdNegInt else S.vd simpleVdPosInt) ++ rest))
          (if neg then - Z.of_N v else Z.of_N v).
Proof.
  intros o key neg v rest Hv Hz Hn.
  destruct (SP.enc_uint_spec o key v (if neg then S.vd simpleVdNegInt else S.vd simpleVdPosInt) Hv) as [[Hz' _] | [_ (w & Hw & E & Hb)]];
    [congruence|].
  rewrite E. exists (Z.of_N ((if neg then S.vd simpleVdNegInt else S.vd simpleVdPosInt) + w)), (zb (S.be_put (S.wbytes w) v ++ rest)).
  split; [reflexivity|]. cbn [T.dInt64 T.dUint64 T.simple].
  destruct (simple_int_k neg w v rest Hw Hb) as [A B]. cbv zeta in A, B. rewrite A, B.
  unfold T.hlp_int64, T.hlp_uint64. cbv iota. destruct neg; cbn [andb negb].
  - rewrite int64v_neg by exact Hn. rewrite int_answer_small by lia. rewrite uint_answer_neg by lia. split; reflexivity.
  - rewrite int64v_pos by (change (2 ^ 64)%N with 18446744073709551616%N in Hv; zpows; lia).
    rewrite uint_answer_pos by lia. split; reflexivity.
Qed.

Lemma s_std_reads : forall o D, std_reads (W_simple o D).
Proof. intros. repeat apply conj; intros; reflexivity. Qed.

Lemma s_zn_false : forall o key c, S.zeroAsNil o && c = false -> SP.zn o key && c = false.
Proof. intros o key c H. unfold SP.zn. destruct (S.zeroAsNil o); [|reflexivity]. cbn [andb] in *. rewrite H. apply andb_false_r. Qed.

Lemma s_wn_int : forall o D z, - 2 ^ 63 <= z < 2 ^ 63 -> leaf_ok (W_simple o D) (IInt z) = true ->
  int_form z (wn (W_simple o D) (IInt z)).
Proof.
  intros o D z Hz Hl. cbn [wn leaf_ok W_simple s_leaf_ok] in *. unfold s_wn, int_form. cbn [S.norm].
  apply negb_true_iff in Hl.
  destruct (Z.ltb_spec z 0); [left; split; [reflexivity|exact Hz]|]. unfold S.norm_pos.
  assert (E : S.zeroAsNil o && negb false && (Z.to_N z =? 0)%N = false).
  { cbn [negb]. rewrite andb_true_r. destruct (S.zeroAsNil o); [|reflexivity]. cbn [andb] in *.
    destruct (Z.eqb_spec z 0); [discriminate|]. destruct (N.eqb_spec (Z.to_N z) 0); [lia|reflexivity]. }
  rewrite E. destruct (S.signedInteger D).
  - left. rewrite to_i64_small by (zpows; lia). rewrite Z2N.id by lia. split; [reflexivity|exact Hz].
  - right. split; [reflexivity|zpows; lia].
Qed.

Lemma s_wn_uint : forall o D n, (n < 2 ^ 64)%N -> leaf_ok (W_simple o D) (IUint n) = true ->
  int_form (Z.of_N n) (wn (W_simple o D) (IUint n)).
Proof.
  intros o D n Hn Hl. cbn [wn leaf_ok W_simple s_leaf_ok] in *. unfold s_wn, int_form. cbn [S.norm].
  apply andb_true_iff in Hl. destruct Hl as [H1 H2]. apply negb_true_iff in H1. unfold S.norm_pos.
  cbn [negb]. rewrite andb_true_r. rewrite H1.
  destruct (S.signedInteger D).
  - cbn [negb orb] in H2. apply N.ltb_lt in H2. rewrite to_i64_small by exact H2. left. split; [reflexivity|zpows; lia].
  - right. rewrite N2Z.id. split; [reflexivity|]. change (2 ^ 64)%N with 18446744073709551616%N in Hn. zpows. lia.
Qed.

Theorem simple_typed_int : forall o D O key k i rest,
  T.is_int_kind k = true -> int_item i -> leaf_ok (W_simple o D) i = true ->
  T.decode T.simple k (zb (S.enc o key i ++ rest)) = typed (W_simple o D) O k (wn (W_simple o D) i).
Proof.
  intros o D O key k i rest Hk Hi Hl. destruct i; try contradiction; cbn [int_item] in Hi.
  - assert (Hb : answers T.simple (zb (S.enc o key (IInt z) ++ rest)) z).
    { cbn [S.enc]. cbn [leaf_ok W_simple s_leaf_ok] in Hl. apply negb_true_iff in Hl.
      destruct (Z.ltb_spec z 0) as [Hn|Hn].
      - assert (Ev : Z.of_N (S.to_u64 (- z)) = - z) by (unfold S.to_u64; zpows; lia).
        pose proof (simple_mag_bytes o key true (S.to_u64 (- z)) rest) as H. cbv iota in H. rewrite Ev in H.
        replace (- - z) with z in H by lia. apply H.
        + unfold S.to_u64. change (2 ^ 64)%N with 18446744073709551616%N. zpows. lia.
        + destruct (N.eqb_spec (S.to_u64 (- z)) 0); [lia|apply andb_false_r].
        + zpows. lia.
      - assert (Ev : Z.of_N (S.to_u64 z) = z) by (unfold S.to_u64; zpows; lia).
        pose proof (simple_mag_bytes o key false (S.to_u64 z) rest) as H. cbv iota in H. rewrite Ev in H. apply H.
        + unfold S.to_u64. change (2 ^ 64)%N with 18446744073709551616%N. zpows. lia.
        + apply s_zn_false. destruct (S.zeroAsNil o); [|reflexivity]. cbn [andb] in *.
          destruct (Z.eqb_spec z 0); [discriminate|]. destruct (N.eqb_spec (S.to_u64 z) 0); [lia|reflexivity].
        + exact I. }
    destruct Hb as (bd & r & E & A & B). rewrite E.
    rewrite (decode_int_spec T.simple k bd r z ltac:(zpows; lia) Hk A B).
    symmetry. apply typed_int_spec; [apply s_std_reads|apply s_wn_int; assumption|exact Hk].
  - assert (Hb : answers T.simple (zb (S.enc o key (IUint n) ++ rest)) (Z.of_N n)).
    { cbn [S.enc]. cbn [leaf_ok W_simple s_leaf_ok] in Hl. apply andb_true_iff in Hl. destruct Hl as [H1 _]. apply negb_true_iff in H1.
      apply (simple_mag_bytes o key false n rest Hi); [apply s_zn_false; exact H1|exact I]. }
    destruct Hb as (bd & r & E & A & B). rewrite E.
    rewrite (decode_int_spec T.simple k bd r (Z.of_N n) ltac:(change (2 ^ 64)%N with 18446744073709551616%N in Hi; zpows; lia) Hk A B).
    symmetry. apply typed_int_spec; [apply s_std_reads|apply s_wn_uint; assumption|exact Hk].
Qed.

Theorem simple_typed_nil : forall o D O key k rest,
  T.decode T.simple k (zb (S.enc o key INil ++ rest)) = typed (W_simple o D) O k (wn (W_simple o D) INil).
Proof. intros. destruct k; vm_compute; reflexivity. Qed.

(* ---- floats into float64 ---- *)

Theorem msgpack_typed_f32_f64 : forall Of D O b rest, (b < 2 ^ 32)%N ->
  T.decode T.msgpack T.KFloat64 (zb (M.enc Of (IF32 b) ++ rest)) = typed (W_msgpack Of D) O T.KFloat64 (wn (W_msgpack Of D) (IF32 b)).
Proof.
  intros Of D O b rest Hb. cbn [M.enc]. change (zb ((M.bFloat :: M.be_put 4 b) ++ rest)) with (Z.of_N M.bFloat :: zb (M.be_put 4 b ++ rest)).
  cbn [T.decode T.dFloat64 T.msgpack]. unfold T.mp_Float64, T.mp_nil. closed_tests.
  rewrite mp_readv by exact Hb. cbn [bind]. rewrite fbits_widen by exact Hb.
  unfold typed. cbn [wn W_msgpack]. unfold m_wn. cbn [MR.norm]. rewrite msgpack_widen by exact Hb. reflexivity.
Qed.

Theorem simple_typed_f64 : forall o D O key b rest, (b < 2 ^ 64)%N -> leaf_ok (W_simple o D) (IF64 b) = true ->
  T.decode T.simple T.KFloat64 (zb (S.enc o key (IF64 b) ++ rest)) = typed (W_simple o D) O T.KFloat64 (wn (W_simple o D) (IF64 b)).
Proof.
  intros o D O key b rest Hb Hl. cbn [leaf_ok W_simple s_leaf_ok] in Hl. apply negb_true_iff in Hl.
  cbn [S.enc wn W_simple]. unfold s_wn. cbn [S.norm]. cbn [negb]. rewrite andb_true_r. rewrite Hl.
  assert (E : S.zeroAsNil o && negb key && S.f64zero b = false) by (destruct (S.zeroAsNil o); [cbn [andb] in *; rewrite Hl; apply andb_false_r|reflexivity]).
  rewrite E.
  change (zb ((S.vd simpleVdFloat64 :: S.be_put 8 b) ++ rest)) with (Z.of_N (S.vd simpleVdFloat64) :: zb (S.be_put 8 b ++ rest)).
  cbn [T.decode T.dFloat64 T.simple]. unfold T.simple_Float64, T.simple_nil, T.simple_decFloat. closed_tests.
  rewrite s_readv by exact Hb. reflexivity.
Qed.

Theorem simple_typed_f32_f64 : forall o D O key b rest, (b < 2 ^ 32)%N -> leaf_ok (W_simple o D) (IF32 b) = true ->
  T.decode T.simple T.KFloat64 (zb (S.enc o key (IF32 b) ++ rest)) = typed (W_simple o D) O T.KFloat64 (wn (W_simple o D) (IF32 b)).
Proof.
  intros o D O key b rest Hb Hl. cbn [leaf_ok W_simple s_leaf_ok] in Hl. apply andb_true_iff in Hl. destruct Hl as [Hl _]. apply negb_true_iff in Hl.
  cbn [S.enc wn W_simple]. unfold s_wn. cbn [S.norm]. cbn [negb]. rewrite andb_true_r. rewrite Hl.
  assert (E : S.zeroAsNil o && negb key && S.f32zero b = false) by (destruct (S.zeroAsNil o); [cbn [andb] in *; rewrite Hl; apply andb_false_r|reflexivity]).
  rewrite E.
  change (zb ((S.vd simpleVdFloat32 :: S.be_put 4 b) ++ rest)) with (Z.of_N (S.vd simpleVdFloat32) :: zb (S.be_put 4 b ++ rest)).
  cbn [T.decode T.dFloat64 T.simple]. unfold T.simple_Float64, T.simple_nil, T.simple_decFloat. closed_tests.
  rewrite s_readv by exact Hb. cbn [bind T.hlp_float64]. rewrite fbits_widen by exact Hb.
  unfold typed. rewrite simple_widen by exact Hb. reflexivity.
Qed.

(* ---- the statements exported to Properties/C01_compose.v ---- *)
Lemma msgpack_typed_reads : forall (Of : M.eopts) (D : M.dopts) (O : gopts) (rest : list N),
  (forall k i, T.is_int_kind k = true -> int_item i -> leaf_ok (W_msgpack Of D) i = true ->
     T.decode T.msgpack k (zb (M.enc Of i ++ rest)) = typed (W_msgpack Of D) O k (wn (W_msgpack Of D) i)) /\
  (forall k, T.decode T.msgpack k (zb (M.enc Of INil ++ rest)) = typed (W_msgpack Of D) O k (wn (W_msgpack Of D) INil)) /\
  (forall b, (b < 2 ^ 64)%N ->
     T.decode T.msgpack T.KFloat64 (zb (M.enc Of (IF64 b) ++ rest)) = typed (W_msgpack Of D) O T.KFloat64 (wn (W_msgpack Of D) (IF64 b))) /\
  (forall b, (b < 2 ^ 32)%N ->
     T.decode T.msgpack T.KFloat64 (zb (M.enc Of (IF32 b) ++ rest)) = typed (W_msgpack Of D) O T.KFloat64 (wn (W_msgpack Of D) (IF32 b))).
Proof.
  intros Of D O rest. repeat apply conj.
  - intros. apply msgpack_typed_int; assumption.
  - intros. apply msgpack_typed_nil.
  - intros. apply msgpack_typed_f64; assumption.
  - intros. apply msgpack_typed_f32_f64; assumption.
Qed.

Lemma simple_typed_reads : forall (o : S.eopts) (D : S.dopts) (O : gopts) (key : bool) (rest : list N),
  (forall k i, T.is_int_kind k = true -> int_item i -> leaf_ok (W_simple o D) i = true ->
     T.decode T.simple k (zb (S.enc o key i ++ rest)) = typed (W_simple o D) O k (wn (W_simple o D) i)) /\
  (forall k, T.decode T.simple k (zb (S.enc o key INil ++ rest)) = typed (W_simple o D) O k (wn (W_simple o D) INil)) /\
  (forall b, (b < 2 ^ 64)%N -> leaf_ok (W_simple o D) (IF64 b) = true ->
     T.decode T.simple T.KFloat64 (zb (S.enc o key (IF64 b) ++ rest)) = typed (W_simple o D) O T.KFloat64 (wn (W_simple o D) (IF64 b))) /\
  (forall b, (b < 2 ^ 32)%N -> leaf_ok (W_simple o D) (IF32 b) = true ->
     T.decode T.simple T.KFloat64 (zb (S.enc o key (IF32 b) ++ rest)) = typed (W_simple o D) O T.KFloat64 (wn (W_simple o D) (IF32 b))).
Proof.
  intros o D O key rest. repeat apply conj.
  - intros. apply simple_typed_int; assumption.
  - intros. apply simple_typed_nil.
  - intros. apply simple_typed_f64; assumption.
  - intros. apply simple_typed_f32_f64; assumption.
Qed.

(* C01/ComposeJson -- the json wire model (Wire/Json.v, JsonRT.v) presented as the driver
   record [wire] the generic decoder reads through, the proof that it meets the interface
   [wire_ok], that its losses are the documented [exact_losses], and the composed typed
   round trip down to the TEXT the json driver writes.

   json differs from the binary formats in one respect that shapes everything below: the
   typed decoder (DecodeInt64, DecodeBytes, DecodeTime ...) reads the TEXT of a token, while
   the generic layer of this framework reads an ITEM.  The item is the one DecodeNaked hands
   back for the text under the decoder option vector D ([Json.norm L o D]); several distinct
   things the encoder writes arrive there as a string item:
       []byte        base64 text        (BytesFormat default)
       time.Time     RFC 3339 text      (TimeFormat default: time.RFC3339Nano)
       integers / floats / bools in quotes (IntegerAsString, MapKeyAsString on the encoder)
   and a bare number arrives as IInt / IUint / IF64 depending on D (PreferFloat,
   SignedInteger).  The typed reads [j_rd_*] below are transcribed from json.go as they act
   on that item: on a string item they do what the driver does on the text between the quotes
   (parseInteger_bytes, parseFloat64, base64.StdEncoding.Decode, time.Parse); on a number item
   what it does on the number token.

   [W_json L o D]:
     wn / wnk   = [jn false] / [jn true]: Json.norm in value / map-key position (equal to it
                  on every item without a nil map key: [jn_norm]; Go map keys of the scalar
                  kinds are never nil);
     is_nil     = the item is nil (TryNil: the bare literal null);
     j_rd_bool  DecodeBool (json.go:680-705): true / false; in quotes where a map key is
                read (the record has no position argument: a quoted literal is accepted as
                in key position; the encoder never writes one elsewhere);
     j_rd_int   DecodeInt64 = parseInt64(decNumBytes()) (:770-813): a number token or the
                text between quotes through parseInteger_bytes + chkOvf.Uint2Int
                ([parse_int], over C09's parseUint64_simple);
     j_rd_uint  DecodeUint64 (:783-793): a negative literal is refused;
     j_rd_f64   DecodeFloat64 (:815-824): parseFloat64 of the token ([pfloat] of the leaf); the token
                of an integer item is re-made from its value (the canonical decimal: parseUint64_simple
                refuses a leading zero, so an accepted token was that; IInt 0 may stand for -0: no answer);
     j_rd_f32   DecodeFloat32 (:826-835): parseFloat32 of the token.  The item carries
                parseFloat64 of the token, so this is modelled as the IEEE narrowing
                (FBits.f64_to_f32) of that float64; that the two agree on the texts the
                encoder writes for a float32 is part of hypothesis [jr_pf32];
     j_rd_str   DecodeStringAsBytes (:935-965): the decoded string; true / false for the
                bare literals; a bare NUMBER token is returned as its text by the driver,
                which the item no longer has: Err EUnsupported;
     j_rd_bytes DecodeBytes (:882-933): base64.StdEncoding.Decode of the string ([unb64];
                the CR / LF skipping of encoding/base64 is not modelled: Err EUnsupported),
                or an array of numbers < 256 (decBytesFromArray);
     j_rd_time  DecodeTime (:707-746): time.Parse of the string, modelled by the strict
                RFC 3339 UTC reader Wire/Cbor.v [parse_core] (whatever else time.Parse
                accepts: Err EUnsupported); an integer token is Unix seconds
                (timeFmtNum = jsonTimeFmtUnix, the default).
     Integer <-> float cross reads (a float literal read by DecodeInt64: readFloat +
     parseUint64_reader; an integer token read by DecodeFloat64) are property C07's:
     Err EUnsupported.
     leaf_ok    = what json does not bring back as written, or this presentation cannot see:
        - NaN and +-Inf are written as null (json.go:203-219) and read back as 0: excluded;
        - a string that is not valid UTF-8 comes back with U+FFFD ([sanit]): excluded;
        - StringToRaw writes a string as base64 and reads it back as that text (finding
          F01-s2r, known): excluded;
        - BytesFormat "array" for []byte: Wire/JsonRT's byte-level lemma does not cover that
          layout ([jwf]): excluded;
        - a time whose UTC year is outside 0..9999 (time.Parse refuses what AppendFormat
          prints for it): excluded ([CborTime.year_ok]);
        - PRESENTATION ONLY (the real typed decoder does not read these options; they only
          decide which item DecodeNaked makes of a token): under PreferFloat every number
          token becomes a float64 item, its digits are gone: integers excluded; under
          SignedInteger an unsigned value >= 2^63 is refused by DecodeNaked, and so is a float whose
          text is a bare integer literal of that size (json writes an integral float >= 2^52 with all
          its digits and no fraction; JsonRT.num_read_ok, finding F15-1's class): excluded; under
          MapKeyAsString + MapType map[interface{}]interface{} on the DECODER a quoted key
          that looks like a number or bool becomes that number or bool: such strings excluded
          ([str_key_ok]; everywhere, the record's [leaf_ok] has no position argument).  With D = all naked options off none of these bites.

   Hypotheses about what is NOT modelled (strconv, time), explicit in every statement:
     leaf_laws L      (Wire/JsonRT.v; for the C09 leaf it follows from float_time_laws);
     json_rt_laws L   parseFloat64 gives back the float64 whose shortest text the encoder
                      wrote; when that text is a bare decimal integer (json.base.go:510-539
                      forces a fractional digit only below 2^52 / 2^23, so integral floats from
                      there up to 1e21 are written so) it is the canonical decimal of a non-zero
                      integer; the float32 analogue through narrowing,
                      and RFC3339Nano text of a UTC instant is read back by [parse_core]
                      (proved for the leaf whose time text IS Wire/Cbor's fmt_rfc3339:
                      [rfc3339_time_law]). *)
From Coq Require Import List NArith ZArith Bool Lia.
From Coq Require Import ZifyN ZifyNat ZifyBool.
From Verif Require Import Base.Outcome Gen.Consts Wire.Item Generic.Types Generic.Enc Generic.Dec.
From Verif Require Import C01.Model C01.Proofs.
From Verif Require Base.FBits Wire.Json Wire.JsonRT Wire.JsonLeaf Wire.Cbor Wire.CborTime C09.Model.
Import ListNotations.
Open Scope bool_scope.
Open Scope N_scope.

Module J := Verif.Wire.Json.
Module JR := Verif.Wire.JsonRT.
Module JL := Verif.Wire.JsonLeaf.
Module CB := Verif.Wire.Cbor.
Module CT := Verif.Wire.CborTime.
Module CM := Verif.C09.Model.
Module FB := Verif.Base.FBits.

Ltac Zify.zify_post_hook ::= Z.div_mod_to_equations.

(* ------------------------------------------------------------------ *)
(* base64.StdEncoding.Decode (padded, not strict about trailing bits)  *)

Definition b64v (c : N) : option N :=
  if (65 <=? c) && (c <=? 90) then Some (c - 65)
  else if (97 <=? c) && (c <=? 122) then Some (c - 71)
  else if (48 <=? c) && (c <=? 57) then Some (c + 4)
  else if c =? 43 then Some 62
  else if c =? 47 then Some 63
  else None.

Fixpoint unb64_q (l : list N) : res (list N) :=
  match l with
  | [] => Ok []
  | a :: b :: c :: d :: r =>
      match b64v a, b64v b with
      | Some x, Some y =>
          if c =? 61 then (if (d =? 61) && J.isnil r then Ok [x * 4 + y / 16] else Err EOther)
          else match b64v c with
               | Some z =>
                   if d =? 61 then (if J.isnil r then Ok [x * 4 + y / 16; (y mod 16) * 16 + z / 4] else Err EOther)
                   else match b64v d with
                        | Some w =>
                            do t <- unb64_q r ;;
                            Ok (x * 4 + y / 16 :: (y mod 16) * 16 + z / 4 :: (z mod 4) * 64 + w :: t)
                        | None => Err EOther
                        end
               | None => Err EOther
               end
      | _, _ => Err EOther
      end
  | _ => Err EOther                                   (* not a multiple of 4: CorruptInputError *)
  end.

Definition unb64 (l : list N) : res (list N) :=
  if existsb (fun c => (c =? 10) || (c =? 13)) l then Err EUnsupported else unb64_q l.

(* ------------------------------------------------------------------ *)
(* parseInteger_bytes + the callers' checks, on the text of a token    *)

Definition is_neg (t : list N) : bool := match t with c :: _ => c =? 45 | [] => false end.
Definition unsign (t : list N) : list N := if is_neg t then tl t else t.

(* parseInt64 (json.go:799-813).  decimal.go:311-345: empty -> 0; a lone '-' is refused; what
   parseUint64_simple does not take goes to the float reader (1e3, 1.0): property C07's *)
Definition parse_int (t : list N) : res Z :=
  if J.isnil t then Ok 0%Z
  else if is_neg t && J.isnil (tl t) then Err EOther
  else let '(f, ok) := CM.parseUint64_simple (unsign t) in
       if ok then (if J.uint2int_ovf f (is_neg t) then Err EOverflow else Ok (if is_neg t then (- f)%Z else f))
       else Err EUnsupported.

(* DecodeUint64 (json.go:783-793) *)
Definition parse_uint (t : list N) : res N :=
  if J.isnil t then Ok 0
  else if is_neg t then Err EOther
  else let '(f, ok) := CM.parseUint64_simple t in if ok then Ok (Z.to_N f) else Err EUnsupported.

(* float32 from the float64 reading of a token; a finite literal beyond float32 is a range error *)
Definition narrow32 (x : N) : res N :=
  let r := FB.f64_to_f32 (Z.of_N x) in
  if FB.f32_finite r then Ok (Z.to_N r) else Err EOverflow.

Definition t_null : list N := [110; 117; 108; 108].

(* ------------------------------------------------------------------ *)
(* the driver record                                                   *)

Section W.
  Variable L : J.leaf.
  Variable o : J.eopts.
  Variable D : J.dopts.

  (* Json.norm, except that a nil stays nil in map-key position as well *)
  Fixpoint jn (key : bool) (i : item) : item :=
    match i with
    | IArr l => IArr (map (jn false) l)
    | IMap l => IMap (map (fun kv => (jn true (fst kv), jn false (snd kv))) l)
    | INil => INil
    | _ => J.norm L o D key i
    end.

  Definition j_rd_bool (i : item) : res bool :=
    match i with
    | IBool b => Ok b
    | IStr t => if J.eqbl t J.t_true then Ok true
                else if J.eqbl t J.t_false || J.eqbl t t_null then Ok false
                else Err EUnsupported
    | INil => Ok false
    | _ => Err EBadDesc                               (* "decode bool: got first char" *)
    end.

  Definition j_rd_int (i : item) : res Z :=
    match i with
    | IInt z => Ok z
    | IUint n => if n <? 2 ^ 63 then Ok (Z.of_N n) else Err EOverflow
    | IStr t => parse_int t
    | INil => Ok 0%Z
    | _ => Err EUnsupported
    end.

  Definition j_rd_uint (i : item) : res N :=
    match i with
    | IUint n => Ok n
    | IInt z => if (0 <=? z)%Z then Ok (Z.to_N z) else Err EOther
    | IStr t => parse_uint t
    | INil => Ok 0
    | _ => Err EUnsupported
    end.

  Definition pf_text (t : list N) : res N :=
    if J.isnil t then Ok 0 else match J.pfloat L t with Some x => Ok x | None => Err EOther end.

  (* an integer token read by DecodeFloat64: parseFloat64 of its digits.  The item carries the VALUE of
     the token; its digits are the canonical decimal of that value (parseUint64_simple refuses a leading
     zero, so a token it accepted was that).  IInt 0 may stand for the token -0: no answer *)
  Definition j_rd_f64 (i : item) : res N :=
    match i with
    | IF64 x => Ok x
    | IStr t => pf_text t
    | IUint n => pf_text (J.udigits n)
    | IInt z => if (z =? 0)%Z then Err EUnsupported else pf_text (J.int_text z)
    | INil => Ok 0
    | _ => Err EUnsupported
    end.

  Definition j_rd_f32 (i : item) : res N := do x <- j_rd_f64 i ;; narrow32 x.

  Definition j_rd_str (i : item) : res (list N) :=
    match i with
    | IStr s => Ok s
    | IBool b => Ok (if b then J.t_true else J.t_false)
    | INil => Ok []
    | _ => Err EUnsupported
    end.

  Definition j_rd_bytes (i : item) : res (list N) :=
    match i with
    | IStr t => unb64 t
    | IArr l => (fix go (l : list item) : res (list N) :=
                   match l with
                   | [] => Ok []
                   | x :: r => do n <- j_rd_uint x ;; if n <? 256 then (do t <- go r ;; Ok (n :: t)) else Err EOverflow
                   end) l
    | INil => Ok []
    | _ => Err EBadDesc                               (* ensureReadingString *)
    end.

  Definition j_rd_time (i : item) : res (Z * N) :=
    match i with
    | IStr t => match CB.parse_core t with Some (s, ns) => Ok (s, Z.to_N ns) | None => Err EUnsupported end
    | IInt z => Ok (z, 0)
    | IUint n => if n <? 2 ^ 63 then Ok (Z.of_N n, 0) else Err EOverflow
    | _ => Err EUnsupported
    end.

  (* a string that DecodeNaked leaves a string when it meets it in quotes as a map key *)
  Definition str_key_ok (s : list N) : bool :=
    J.smap D || match J.rd_quoted L D true s with IStr _ => true | _ => false end.

  Definition j_leaf_ok (i : item) : bool :=
    match i with
    | IInt _ => negb (J.preferFloat D)
    | IUint n => negb (J.preferFloat D) && (negb (J.signedInteger D) || (n <? 2 ^ 63))
    | IF32 b => negb (J.f32special b) && JR.num_read_ok D (J.fmt_f32 L b)
    | IF64 b => negb (J.f64special b) && JR.num_read_ok D (J.fmt_f64 L b)
    | IStr s => negb (J.stringToRaw o) && J.eqbl (J.sanit L s) s && str_key_ok s
    | IBytes _ => negb (J.bytesArr o)
    | ITime s _ => CT.year_ok s
    | _ => true
    end.

  Definition W_json : wire := {|
    wn := jn false;
    wnk := jn true;
    is_nil := item_is_nil;
    rd_bool := j_rd_bool;
    rd_int := j_rd_int;
    rd_uint := j_rd_uint;
    rd_f32 := j_rd_f32;
    rd_f64 := j_rd_f64;
    rd_str := j_rd_str;
    rd_bytes := j_rd_bytes;
    rd_time := j_rd_time;
    fn32 := fun b : N => b;
    fn64 := fun b : N => b;
    tnorm := fun (s : Z) (n : N) => (s, n);
    leaf_ok := j_leaf_ok
  |}.
End W.

(* ------------------------------------------------------------------ *)
(* the laws about strconv / time the composition rests on              *)

(* a number text that parseUint64_simple takes (after the sign) is the canonical decimal of a non-zero
   integer: json.base.go:510-539 writes a float without fraction below 2^52 with one fractional digit
   (0.0, 5.0); from 2^52 up to 1e21 strconv prints all its integer digits and nothing else *)
Definition canon_int_text (t : list N) : Prop :=
  forall f, CM.parseUint64_simple (unsign t) = (f, true) -> (0 < f)%Z /\ unsign t = J.udigits (Z.to_N f).

Record json_rt_laws (L : J.leaf) : Prop := mkjrt {
  jr_pf64 : forall b, J.f64special b = false -> b < 2 ^ 64 -> J.pfloat L (J.fmt_f64 L b) = Some b;
  jr_f64_canon : forall b, J.f64special b = false -> b < 2 ^ 64 -> canon_int_text (J.fmt_f64 L b);
  jr_pf32 : forall b, J.f32special b = false -> b < 2 ^ 32 ->
            exists x, J.pfloat L (J.fmt_f32 L b) = Some x /\ narrow32 x = Ok b;
  jr_f32_canon : forall b, J.f32special b = false -> b < 2 ^ 32 -> canon_int_text (J.fmt_f32 L b);
  jr_time : forall s n, CT.year_ok s = true -> n < 1000000000 ->
            CB.parse_core (J.fmt_time L s n) = Some (s, Z.of_N n) }.

(* the time law is PROVED for a leaf that writes Wire/Cbor's model of AppendFormat(RFC3339Nano) *)
Lemma rfc3339_time_law : forall L, (forall s n, J.fmt_time L s n = CB.fmt_rfc3339 s n) ->
  forall s n, CT.year_ok s = true -> n < 1000000000 -> CB.parse_core (J.fmt_time L s n) = Some (s, Z.of_N n).
Proof. intros L H s n Hy Hn. rewrite H. apply CT.parse_fmt; assumption. Qed.

(* ------------------------------------------------------------------ *)
(* base64: decoding what was encoded                                   *)

Lemma b64v_sweep :
  forallb (fun x => match b64v (J.b64c x) with Some y => (y =? x) && negb (J.b64c x =? 61) | None => false end)
          (map N.of_nat (seq 0 64)) = true.
Proof. vm_compute. reflexivity. Qed.

Lemma b64v_b64c : forall x, x < 64 -> b64v (J.b64c x) = Some x /\ (J.b64c x =? 61) = false.
Proof.
  intros x Hx. pose proof b64v_sweep as H. rewrite forallb_forall in H.
  specialize (H x). assert (Hin : In x (map N.of_nat (seq 0 64))).
  { replace x with (N.of_nat (N.to_nat x)) by apply N2Nat.id. apply in_map. apply in_seq. lia. }
  specialize (H Hin). destruct (b64v (J.b64c x)) as [y|]; [|discriminate].
  apply andb_true_iff in H. destruct H as [H1 H2]. apply N.eqb_eq in H1. apply negb_true_iff in H2. subst. auto.
Qed.

Lemma b64c_nocrlf : forall x, (J.b64c x =? 10) || (J.b64c x =? 13) = false.
Proof.
  intro x. pose proof (JR.b64c_plain x) as _. unfold J.b64c.
  repeat match goal with |- context [if ?c then _ else _] => destruct c eqn:? end;
  repeat match goal with H : (_ <? _) = true |- _ => apply N.ltb_lt in H | H : (_ <? _) = false |- _ => apply N.ltb_ge in H end;
  apply orb_false_iff; split; apply N.eqb_neq; lia.
Qed.

Lemma b64_nocrlf : forall l, existsb (fun c => (c =? 10) || (c =? 13)) (J.b64 l) = false.
Proof.
  assert (H : forall n l, (length l <= n)%nat -> existsb (fun c => (c =? 10) || (c =? 13)) (J.b64 l) = false).
  { induction n as [|n IH]; intros l Hl.
    - destruct l; [reflexivity|cbn in Hl; lia].
    - destruct l as [|a [|b [|c r]]]; cbn [J.b64 existsb]; rewrite ?b64c_nocrlf; try reflexivity.
      cbn [orb]. apply IH. cbn in Hl. lia. }
  intro l. apply (H (length l)). lia.
Qed.

Lemma unb64_q_b64 : forall l, bytes_ok l = true -> unb64_q (J.b64 l) = Ok l.
Proof.
  assert (H : forall n l, (length l <= n)%nat -> bytes_ok l = true -> unb64_q (J.b64 l) = Ok l).
  { induction n as [|n IH]; intros l Hl Hb.
    - destruct l; [reflexivity|cbn in Hl; lia].
    - destruct l as [|a [|b [|c r]]].
      + reflexivity.
      + cbn [bytes_ok forallb] in Hb. rewrite andb_true_r in Hb. apply N.ltb_lt in Hb.
        cbn [J.b64 unb64_q].
        destruct (b64v_b64c (a / 4)) as [E1 _]; [lia|]. destruct (b64v_b64c (a mod 4 * 16)) as [E2 _]; [lia|].
        rewrite E1, E2. cbn. f_equal. f_equal. lia.
      + cbn [bytes_ok forallb] in Hb. rewrite andb_true_r in Hb. apply andb_true_iff in Hb. destruct Hb as [Ha Hb].
        apply N.ltb_lt in Ha, Hb. cbn [J.b64 unb64_q].
        destruct (b64v_b64c (a / 4)) as [E1 _]; [lia|]. destruct (b64v_b64c (a mod 4 * 16 + b / 16)) as [E2 _]; [lia|].
        destruct (b64v_b64c (b mod 16 * 4)) as [E3 F3]; [lia|].
        rewrite E1, E2, F3, E3. cbn. f_equal. f_equal; [lia|]. f_equal. lia.
      + cbn [bytes_ok forallb] in Hb. apply andb_true_iff in Hb. destruct Hb as [Ha Hb].
        apply andb_true_iff in Hb. destruct Hb as [Hb Hc]. apply andb_true_iff in Hc. destruct Hc as [Hc Hr].
        apply N.ltb_lt in Ha, Hb, Hc. cbn [J.b64 unb64_q].
        destruct (b64v_b64c (a / 4)) as [E1 _]; [lia|]. destruct (b64v_b64c (a mod 4 * 16 + b / 16)) as [E2 _]; [lia|].
        destruct (b64v_b64c (b mod 16 * 4 + c / 64)) as [E3 F3]; [lia|]. destruct (b64v_b64c (c mod 64)) as [E4 F4]; [lia|].
        rewrite E1, E2, F3, E3, F4, E4. rewrite IH; [|cbn in Hl; lia|exact Hr]. cbn [bind].
        f_equal. f_equal; [lia|]. f_equal; [lia|]. f_equal. lia. }
  intros l Hb. apply (H (length l)); [lia|exact Hb].
Qed.

Lemma unb64_b64 : forall l, bytes_ok l = true -> unb64 (J.b64 l) = Ok l.
Proof. intros l Hb. unfold unb64. rewrite b64_nocrlf. apply unb64_q_b64. exact Hb. Qed.

(* ------------------------------------------------------------------ *)
(* integers: the text of an integer read back by the typed readers and by the naked reader *)

Lemma jeqbl_eq : forall a b, J.eqbl a b = true -> a = b.
Proof.
  induction a as [|x a IH]; destruct b as [|y b]; cbn; intro H; try reflexivity; try discriminate.
  apply andb_true_iff in H. destruct H as [H1 H2]. apply N.eqb_eq in H1. rewrite (IH b H2). subst. reflexivity.
Qed.

Lemma int_text_neg : forall z, (z < 0)%Z -> J.int_text z = 45 :: J.udigits (Z.to_N (- z)).
Proof. intros z H. unfold J.int_text. destruct (Z.ltb_spec z 0); [reflexivity|lia]. Qed.

Lemma int_text_pos : forall z, (0 <= z)%Z -> J.int_text z = J.udigits (Z.to_N z).
Proof. intros z H. unfold J.int_text. destruct (Z.ltb_spec z 0); [lia|reflexivity]. Qed.

Lemma parse_int_udigits : forall u, u < 2 ^ 63 -> parse_int (J.udigits u) = Ok (Z.of_N u).
Proof.
  intros u Hu. unfold parse_int, unsign. destruct (JL.udigits_hd u) as (c & r & Hc & Hn); [lia|].
  rewrite Hc. cbn [J.isnil is_neg]. rewrite Hn. cbn [andb]. rewrite <- Hc. rewrite JL.c09_udig_parse by lia.
  unfold J.uint2int_ovf. destruct (Z.leb_spec (2 ^ 63) (Z.of_N u)); [lia|reflexivity].
Qed.

Lemma parse_int_text : forall z, (- 2 ^ 63 <= z < 2 ^ 63)%Z -> parse_int (J.int_text z) = Ok z.
Proof.
  intros z Hz. destruct (Z.ltb_spec z 0) as [Hn|Hp].
  - rewrite int_text_neg by exact Hn. unfold parse_int, unsign. cbn [J.isnil is_neg tl]. rewrite N.eqb_refl.
    destruct (JL.udigits_hd (Z.to_N (- z))) as (c & r & Hc & _); [lia|]. rewrite Hc at 1. cbn [J.isnil andb].
    rewrite JL.c09_udig_parse by lia. unfold J.uint2int_ovf.
    destruct (Z.ltb_spec (2 ^ 63) (Z.of_N (Z.to_N (- z)))); [lia|]. f_equal. lia.
  - rewrite int_text_pos by exact Hp. rewrite parse_int_udigits by lia. f_equal. lia.
Qed.

Lemma parse_uint_udigits : forall u, u < 2 ^ 64 -> parse_uint (J.udigits u) = Ok u.
Proof.
  intros u Hu. unfold parse_uint. destruct (JL.udigits_hd u Hu) as (c & r & Hc & Hn).
  rewrite Hc. cbn [J.isnil is_neg]. rewrite Hn. rewrite <- Hc. rewrite JL.c09_udig_parse by exact Hu.
  rewrite N2Z.id. reflexivity.
Qed.

Section Num.
  Variable L : J.leaf.
  Hypothesis LL : JR.leaf_laws L.
  Hypothesis RL : json_rt_laws L.

  (* DecodeNaked's number reader on the text of an integer, PreferFloat off *)
  Lemma naked_uint : forall D u, J.preferFloat D = false -> u < 2 ^ 64 ->
    (J.signedInteger D = false \/ u < 2 ^ 63) ->
    J.naked_num L D (J.udigits u) = Ok (IUint u) \/ (u < 2 ^ 63 /\ J.naked_num L D (J.udigits u) = Ok (IInt (Z.of_N u))).
  Proof.
    intros D u Hp Hu Hg. unfold J.naked_num. rewrite Hp.
    destruct (JL.udigits_hd u Hu) as (c & r & Hc & Hn). rewrite Hc, Hn. rewrite <- Hc.
    rewrite JL.c09_udig_parse by exact Hu. unfold J.uint2int_ovf.
    destruct (J.signedInteger D) eqn:Hs.
    - destruct Hg as [Hg|Hg]; [discriminate|]. right. split; [exact Hg|].
      destruct (Z.leb_spec (2 ^ 63) (Z.of_N u)); [lia|reflexivity].
    - left. rewrite N2Z.id. reflexivity.
  Qed.

  Lemma naked_int : forall D z, J.preferFloat D = false -> (- 2 ^ 63 <= z < 2 ^ 63)%Z ->
    J.naked_num L D (J.int_text z) = Ok (IInt z) \/
    ((0 <= z)%Z /\ J.naked_num L D (J.int_text z) = Ok (IUint (Z.to_N z))).
  Proof.
    intros D z Hp Hz. destruct (Z.ltb_spec z 0) as [Hn|Hn].
    - left. rewrite int_text_neg by exact Hn. unfold J.naked_num. rewrite Hp. cbn [tl]. rewrite N.eqb_refl.
      rewrite JL.c09_udig_parse by lia. unfold J.uint2int_ovf.
      destruct (Z.ltb_spec (2 ^ 63) (Z.of_N (Z.to_N (- z)))); [lia|]. f_equal. f_equal. lia.
    - rewrite int_text_pos by exact Hn.
      destruct (naked_uint D (Z.to_N z) Hp ltac:(lia) ltac:(right; lia)) as [H|[_ H]]; rewrite H.
      + right. split; [exact Hn|reflexivity].
      + left. rewrite Z2N.id by exact Hn. reflexivity.
  Qed.

  (* DecodeNaked's number reader on a float text, and DecodeFloat64 on what it returned: a float64 item,
     or -- the text being a bare integer -- an integer item whose digits are that text *)
  Lemma naked_float_read : forall D t x i, JR.numtext t -> J.pfloat L t = Some x -> canon_int_text t ->
    J.naked_num L D t = Ok i -> item_is_nil i = false /\ j_rd_f64 L i = Ok x.
  Proof.
    intros D t x i Hnt Hpf Hc Hi.
    assert (Hpt : pf_text L t = Ok x).
    { unfold pf_text. destruct Hnt as [Hne _]. destruct t; [congruence|]. cbn [J.isnil]. rewrite Hpf. reflexivity. }
    unfold J.naked_num in Hi. rewrite Hpf in Hi.
    destruct (J.preferFloat D). { inversion Hi; subst. split; reflexivity. }
    change (match t with [] => false | c :: _ => c =? 45 end) with (is_neg t) in Hi.
    change (if is_neg t then tl t else t) with (unsign t) in Hi.
    destruct (CM.parseUint64_simple (unsign t)) as [f ok] eqn:E. destruct ok.
    - destruct (Hc f E) as [Hf Hu]. unfold unsign in Hu.
      destruct (is_neg t) eqn:En.
      + assert (Ht : t = 45 :: tl t).
        { destruct t as [|c r]; [discriminate En|]. cbn in En. apply N.eqb_eq in En. subst c. reflexivity. }
        destruct (J.uint2int_ovf f true). { inversion Hi; subst. split; reflexivity. }
        inversion Hi; subst i. split; [reflexivity|]. cbn [j_rd_f64].
        destruct (Z.eqb_spec (- f) 0); [lia|]. rewrite int_text_neg by lia.
        replace (Z.to_N (- - f)) with (Z.to_N f) by (f_equal; lia). rewrite <- Hu, <- Ht. exact Hpt.
      + destruct (J.signedInteger D).
        * destruct (J.uint2int_ovf f false); [discriminate Hi|]. inversion Hi; subst i. split; [reflexivity|].
          cbn [j_rd_f64]. destruct (Z.eqb_spec f 0); [lia|]. rewrite int_text_pos by lia. rewrite <- Hu. exact Hpt.
        * inversion Hi; subst i. split; [reflexivity|]. cbn [j_rd_f64]. rewrite <- Hu. exact Hpt.
    - inversion Hi; subst. split; reflexivity.
  Qed.

  (* what a number text comes back as, in or out of quotes, key or value position *)
  Lemma num_shape_cases : forall D key q t i, JR.numtext t -> J.naked_num L D t = Ok i ->
    J.norm_shape L D key (J.qwrap q t) = IStr t \/ J.norm_shape L D key (J.qwrap q t) = i.
  Proof.
    intros D key q t i Hn Hi. pose proof (JR.numtext_not_lit t Hn) as Hl. unfold JR.sb_num in Hl.
    apply negb_true_iff in Hl. apply orb_false_iff in Hl. destruct Hl as [E1 E2].
    destruct (JR.numtext_hd t Hn) as (c & r & Ht & _).
    destruct q; cbn [J.qwrap J.norm_shape].
    - destruct (key && J.smap D); [left; reflexivity|]. unfold J.rd_quoted.
      destruct (jsonNakedBoolNumInQuotedStr && J.dkeyAsStr D && negb (J.isnil t) && key); [|left; reflexivity].
      unfold J.quoted_key. rewrite E1, E2. destruct (CM.jsonIsNumberLiteral t); [right; rewrite Hi; reflexivity|left; reflexivity].
    - unfold J.rd_bare. destruct (key && J.smap D); [left; reflexivity|]. right.
      rewrite E1, E2. unfold J.nn_or_nil. rewrite Hi. reflexivity.
  Qed.
End Num.

(* ------------------------------------------------------------------ *)
(* the interface                                                       *)

Lemma naked_num_notstr : forall L D t x, J.naked_num L D t = Ok (IStr x) -> False.
Proof.
  intros L D t x H. unfold J.naked_num in H.
  destruct (J.preferFloat D). { destruct (J.pfloat L t); discriminate. }
  destruct (CM.parseUint64_simple _) as [f ok]. destruct ok.
  - destruct (match t with [] => false | c :: _ => c =? 45 end).
    + destruct (J.uint2int_ovf f true); [destruct (J.pfloat L t)|]; discriminate.
    + destruct (J.signedInteger D); [destruct (J.uint2int_ovf f false)|]; discriminate.
  - destruct (J.pfloat L t); discriminate.
Qed.

Lemma rd_quoted_str : forall L D key s x, J.rd_quoted L D key s = IStr x -> x = s.
Proof.
  intros L D key s x. unfold J.rd_quoted.
  destruct (jsonNakedBoolNumInQuotedStr && J.dkeyAsStr D && negb (J.isnil s) && key); [|intro H; inversion H; reflexivity].
  unfold J.quoted_key. destruct (J.eqbl s J.t_true); [discriminate|]. destruct (J.eqbl s J.t_false); [discriminate|].
  destruct (CM.jsonIsNumberLiteral s); [|intro H; inversion H; reflexivity].
  destruct (J.naked_num L D s) eqn:E; try (intro H; inversion H; reflexivity).
  intro H. subst a. exfalso. eapply naked_num_notstr; eauto.
Qed.

Lemma rd_quoted_val : forall L D s, J.rd_quoted L D false s = IStr s.
Proof. intros L D s. unfold J.rd_quoted. rewrite andb_false_r. reflexivity. Qed.

Section Ok.
  Variable L : J.leaf.
  Variable o : J.eopts.
  Variable D : J.dopts.
  Hypothesis LL : JR.leaf_laws L.
  Hypothesis RL : json_rt_laws L.

  Lemma numtext_nonnil : forall t, JR.numtext t -> J.isnil t = false.
  Proof. intros t [H _]. destruct t; [congruence|reflexivity]. Qed.

  Lemma sc_bool : forall key b,
    item_is_nil (jn L o D key (IBool b)) = false /\ j_rd_bool (jn L o D key (IBool b)) = Ok b.
  Proof.
    intros key b. cbn [jn J.norm J.shape_of].
    unfold J.qwrap, J.norm_shape, J.rd_bare, J.rd_quoted, J.quoted_key, J.smap.
    destruct b, key, (J.keyAsStr o), (J.dkeyAsStr D), (J.mapIntf D); cbn; split; reflexivity.
  Qed.

  Lemma sc_int : forall key z, J.preferFloat D = false -> (- 2 ^ 63 <= z < 2 ^ 63)%Z ->
    item_is_nil (jn L o D key (IInt z)) = false /\ j_rd_int (jn L o D key (IInt z)) = Ok z.
  Proof.
    intros key z Hl Hz. cbn [jn J.norm J.shape_of].
    pose proof (JR.int_numtext L LL z Hz) as Hnt.
    destruct (naked_int L D z Hl Hz) as [Hi|[Hz0 Hi]];
      destruct (num_shape_cases L D key (J.int_quotes o (J.keyAsStr o && key) z) _ _ Hnt Hi) as [E|E];
      rewrite E; cbn [item_is_nil j_rd_int]; split; try reflexivity; try (apply parse_int_text; exact Hz).
    destruct (N.ltb_spec (Z.to_N z) (2 ^ 63)); [|lia]. rewrite Z2N.id by lia. reflexivity.
  Qed.

  Lemma sc_uint : forall key n, J.preferFloat D = false -> (J.signedInteger D = false \/ n < 2 ^ 63) -> n < 2 ^ 64 ->
    item_is_nil (jn L o D key (IUint n)) = false /\ j_rd_uint (jn L o D key (IUint n)) = Ok n.
  Proof.
    intros key n Hp Hg' Hn. cbn [jn J.norm J.shape_of].
    pose proof (JR.udig_numtext L LL n Hn) as Hnt.
    destruct (naked_uint L D n Hp Hn Hg') as [Hi|[Hn0 Hi]];
      destruct (num_shape_cases L D key (J.int_quotes o (J.keyAsStr o && key) (Z.of_N n)) _ _ Hnt Hi) as [E|E];
      rewrite E; cbn [item_is_nil j_rd_uint]; split; try reflexivity; try (apply parse_uint_udigits; exact Hn).
    destruct (Z.leb_spec 0 (Z.of_N n)); [|lia]. rewrite N2Z.id. reflexivity.
  Qed.

  Lemma sc_f32 : forall key b, J.f32special b = false -> JR.num_read_ok D (J.fmt_f32 L b) = true -> b < 2 ^ 32 ->
    item_is_nil (jn L o D key (IF32 b)) = false /\ j_rd_f32 L (jn L o D key (IF32 b)) = Ok b.
  Proof.
    intros key b Hl Hg Hb. cbn [jn J.norm J.shape_of]. rewrite Hl.
    destruct (jr_pf32 L RL b Hl Hb) as (x & Hpx & Hnx).
    pose proof (JR.ll_f32_num L LL b Hl) as Hnt.
    destruct (JR.ll_f32_ok L LL D b Hl Hb Hg) as [i Hi].
    destruct (naked_float_read L D _ x i Hnt Hpx (jr_f32_canon L RL b Hl Hb) Hi) as [Hn Hr].
    destruct (num_shape_cases L D key (J.keyAsStr o && key) _ _ Hnt Hi) as [E|E]; rewrite E; unfold j_rd_f32.
    - cbn [item_is_nil j_rd_f64]. unfold pf_text. rewrite (numtext_nonnil _ Hnt), Hpx. cbn [bind]. split; [reflexivity|exact Hnx].
    - rewrite Hr. cbn [bind]. split; [exact Hn|exact Hnx].
  Qed.

  Lemma sc_f64 : forall key b, J.f64special b = false -> JR.num_read_ok D (J.fmt_f64 L b) = true -> b < 2 ^ 64 ->
    item_is_nil (jn L o D key (IF64 b)) = false /\ j_rd_f64 L (jn L o D key (IF64 b)) = Ok b.
  Proof.
    intros key b Hl Hg Hb. cbn [jn J.norm J.shape_of]. rewrite Hl.
    pose proof (jr_pf64 L RL b Hl Hb) as Hpx.
    pose proof (JR.ll_f64_num L LL b Hl) as Hnt.
    destruct (JR.ll_f64_ok L LL D b Hl Hb Hg) as [i Hi].
    destruct (naked_float_read L D _ b i Hnt Hpx (jr_f64_canon L RL b Hl Hb) Hi) as [Hn Hr].
    destruct (num_shape_cases L D key (J.keyAsStr o && key) _ _ Hnt Hi) as [E|E]; rewrite E.
    - cbn [item_is_nil j_rd_f64]. unfold pf_text. rewrite (numtext_nonnil _ Hnt), Hpx. split; reflexivity.
    - split; [exact Hn|exact Hr].
  Qed.

  Lemma sc_str : forall key s, J.stringToRaw o = false -> J.sanit L s = s -> str_key_ok L D s = true ->
    item_is_nil (jn L o D key (IStr s)) = false /\ j_rd_str (jn L o D key (IStr s)) = Ok s.
  Proof.
    intros key s Hr Hu Hk.
    cbn [jn J.norm J.shape_of]. rewrite Hr. cbn [andb]. rewrite Hu. cbn [J.norm_shape].
    destruct key.
    + cbn [andb]. unfold str_key_ok in Hk. destruct (J.smap D); [split; reflexivity|]. cbn [orb] in Hk.
      destruct (J.rd_quoted L D true s) eqn:E; try discriminate Hk.
      apply rd_quoted_str in E. subst. split; reflexivity.
    + cbn [andb]. rewrite rd_quoted_val. split; reflexivity.
  Qed.

  Lemma j_scalar : forall key : bool, scalar_ok (W_json L o D) (jn L o D key).
  Proof.
    intro key. constructor.
    - reflexivity.
    - intros b _. exact (sc_bool key b).
    - intros z Hl Hz. cbn [leaf_ok W_json j_leaf_ok] in Hl. apply negb_true_iff in Hl. exact (sc_int key z Hl Hz).
    - intros n Hl Hn. cbn [leaf_ok W_json j_leaf_ok] in Hl.
      apply andb_true_iff in Hl. destruct Hl as [Hp Hg]. apply negb_true_iff in Hp.
      refine (sc_uint key n Hp _ Hn).
      destruct (J.signedInteger D); [right|left; reflexivity].
      apply orb_true_iff in Hg. destruct Hg as [Hg|Hg]; [discriminate Hg|]. apply N.ltb_lt in Hg. exact Hg.
    - intros b Hl Hb. cbn [leaf_ok W_json j_leaf_ok] in Hl. apply andb_true_iff in Hl. destruct Hl as [Hl Hg].
      apply negb_true_iff in Hl. exact (sc_f32 key b Hl Hg Hb).
    - intros b Hl Hb. cbn [leaf_ok W_json j_leaf_ok] in Hl. apply andb_true_iff in Hl. destruct Hl as [Hl Hg].
      apply negb_true_iff in Hl. exact (sc_f64 key b Hl Hg Hb).
    - intros s Hl _. cbn [leaf_ok W_json j_leaf_ok] in Hl.
      apply andb_true_iff in Hl. destruct Hl as [Hl Hk]. apply andb_true_iff in Hl. destruct Hl as [Hr Hu].
      apply negb_true_iff in Hr. apply jeqbl_eq in Hu. exact (sc_str key s Hr Hu Hk).
  Qed.

  Lemma W_json_ok : wire_ok (W_json L o D).
  Proof.
    constructor.
    - exact (j_scalar false).
    - exact (j_scalar true).
    - intros b Hl Hb. cbn [leaf_ok wn is_nil rd_bytes W_json j_leaf_ok] in Hl |- *. apply negb_true_iff in Hl.
      cbn [jn J.norm J.shape_of]. rewrite Hl. cbn [J.norm_shape andb]. rewrite rd_quoted_val.
      split; [reflexivity|]. cbn [j_rd_bytes]. apply unb64_b64. exact Hb.
    - intros s n Hl Hn. cbn [leaf_ok wn is_nil rd_time tnorm W_json j_leaf_ok] in Hl |- *.
      cbn [jn J.norm J.shape_of]. destruct (J.time_zero s n) eqn:E; cbn [J.norm_shape andb].
      + cbn [item_is_nil]. unfold J.time_zero, J.unixToInternal in E. apply andb_true_iff in E. destruct E as [E1 E2].
        apply Z.eqb_eq in E1. apply N.eqb_eq in E2. subst n. f_equal. unfold time_zero_sec. lia.
      + rewrite rd_quoted_val. cbn [item_is_nil j_rd_time]. rewrite (jr_time L RL s n Hl Hn). rewrite N2Z.id. reflexivity.
    - intro l. reflexivity.
    - intro l. reflexivity.
    - intro l. reflexivity.
    - intro l. reflexivity.
    - reflexivity.
    - reflexivity.
    - reflexivity.
    - reflexivity.
  Qed.
End Ok.

(* the losses do not depend on the laws *)
Lemma W_json_losses : forall L o D, same_losses (losses_of (W_json L o D)) exact_losses.
Proof.
  intros L o D. repeat apply conj; intros; try reflexivity.
  cbn [losses_of l_tnil exact_losses wn is_nil W_json]. cbn [jn J.norm J.shape_of].
  unfold J.time_zero, J.unixToInternal, is_time_zero, time_zero_sec.
  replace (s + 62135596800 =? 0)%Z with (s =? -62135596800)%Z
    by (destruct (Z.eqb_spec s (-62135596800)), (Z.eqb_spec (s + 62135596800) 0); try reflexivity; lia).
  destruct ((s =? -62135596800)%Z && (n =? 0)); cbn [J.norm_shape andb]; [reflexivity|].
  rewrite rd_quoted_val. reflexivity.
Qed.

(* ------------------------------------------------------------------ *)
(* JsonRT.jwf as a boolean, strengthened by: no nil map key            *)

Section Wf.
  Variable L : J.leaf.
  Variable o : J.eopts.
  Variable D : J.dopts.

  Fixpoint keys_freshb (seen : list item) (l : list (item * item)) : bool :=
    match l with
    | [] => true
    | kv :: r => negb (J.seen_key seen (J.norm L o D true (fst kv)))
                 && keys_freshb (J.norm L o D true (fst kv) :: seen) r
    end.

  Fixpoint jwfb (key : bool) (i : item) : bool :=
    match i with
    | INil | IBool _ | ITime _ _ => true
    | IInt z => ((- 2 ^ 63 <=? z) && (z <? 2 ^ 63))%Z
    | IUint n => (n <? 2 ^ 64) && (negb (J.signedInteger D) || J.preferFloat D || (n <? 2 ^ 63))
    | IF32 b => (b <? 2 ^ 32) && (J.f32special b || JR.num_read_ok D (J.fmt_f32 L b))
    | IF64 b => (b <? 2 ^ 64) && (J.f64special b || JR.num_read_ok D (J.fmt_f64 L b))
    | IStr _ => negb (J.stringToRaw o && J.bytesArr o)
    | IBytes _ => negb (J.bytesArr o)
    | IArr l => negb key && forallb (jwfb false) l
    | IMap l => negb key && keys_freshb [] l
                && forallb (fun kv => negb (item_is_nil (fst kv)) && jwfb true (fst kv) && jwfb false (snd kv)) l
    | ITag _ _ | IExt _ _ => false
    end.

  Lemma keys_freshb_ok : forall l seen, keys_freshb seen l = true -> JR.keys_fresh L o D seen l.
  Proof.
    induction l as [|kv r IH]; intros seen H; cbn [keys_freshb JR.keys_fresh] in *; [exact I|].
    apply andb_true_iff in H. destruct H as [H1 H2]. apply negb_true_iff in H1. split; [exact H1|apply IH; exact H2].
  Qed.

  Lemma jwfb_ok : forall i key, jwfb key i = true -> JR.jwf L o D key i.
  Proof.
    induction i using item_ind'; intros key Hb; cbn [jwfb JR.jwf] in *; try exact I; try discriminate.
    - apply andb_true_iff in Hb. destruct Hb as [H1 H2]. apply Z.leb_le in H1. apply Z.ltb_lt in H2. lia.
    - apply andb_true_iff in Hb. destruct Hb as [H1 H2]. apply N.ltb_lt in H1. split; [exact H1|].
      destruct (J.signedInteger D); [|left; reflexivity]. destruct (J.preferFloat D); [right; left; reflexivity|].
      cbn [negb orb] in H2. apply N.ltb_lt in H2. right; right. exact H2.
    - apply andb_true_iff in Hb. destruct Hb as [H1 H2]. apply N.ltb_lt in H1. split; [exact H1|].
      intro Hs. rewrite Hs in H2. exact H2.
    - apply andb_true_iff in Hb. destruct Hb as [H1 H2]. apply N.ltb_lt in H1. split; [exact H1|].
      intro Hs. rewrite Hs in H2. exact H2.
    - apply negb_true_iff in Hb. exact Hb.
    - apply negb_true_iff in Hb. exact Hb.
    - apply andb_true_iff in Hb. destruct Hb as [H1 H2]. apply negb_true_iff in H1. split; [exact H1|].
      clear H1. induction H as [|x r Hx _ IH]; [exact I|].
      cbn [forallb] in H2. apply andb_true_iff in H2. destruct H2 as [H2 H3]. split; [apply Hx; exact H2|apply IH; exact H3].
    - apply andb_true_iff in Hb. destruct Hb as [Hb H3]. apply andb_true_iff in Hb. destruct Hb as [H1 H2].
      apply negb_true_iff in H1. split; [exact H1|]. split; [apply keys_freshb_ok; exact H2|].
      clear H1 H2. induction H as [|kv r [Hk Hv] _ IH]; [exact I|].
      cbn [forallb] in H3. apply andb_true_iff in H3. destruct H3 as [H3 H4].
      apply andb_true_iff in H3. destruct H3 as [H3 H5]. apply andb_true_iff in H3. destruct H3 as [_ H3].
      split; [apply Hk; exact H3|]. split; [apply Hv; exact H5|apply IH; exact H4].
  Qed.

  (* on such items [jn] IS DecodeNaked's normalisation *)
  Lemma jwfb_jn : forall i key, jwfb key i = true -> (key = true -> item_is_nil i = false) ->
    jn L o D key i = J.norm L o D key i.
  Proof.
    induction i using item_ind'; intros key Hb Hk; try reflexivity.
    - destruct key; [|reflexivity]. specialize (Hk eq_refl). discriminate Hk.
    - cbn [jn J.norm jwfb] in *. apply andb_true_iff in Hb. destruct Hb as [_ H2]. f_equal. clear Hk.
      induction H as [|x r Hx _ IH]; [reflexivity|].
      cbn [forallb] in H2. apply andb_true_iff in H2. destruct H2 as [H2 H3]. cbn [map].
      rewrite (Hx false H2 ltac:(discriminate)). rewrite (IH H3). reflexivity.
    - cbn [jn J.norm jwfb] in *. apply andb_true_iff in Hb. destruct Hb as [_ H3]. f_equal. clear Hk.
      induction H as [|kv r [Hkk Hv] _ IH]; [reflexivity|].
      cbn [forallb] in H3. apply andb_true_iff in H3. destruct H3 as [H3 H4].
      apply andb_true_iff in H3. destruct H3 as [H3 H5]. apply andb_true_iff in H3. destruct H3 as [H6 H3].
      apply negb_true_iff in H6. cbn [map].
      rewrite (Hkk true H3 (fun _ => H6)). rewrite (Hv false H5 ltac:(discriminate)). rewrite (IH H4). reflexivity.
  Qed.
End Wf.

(* ------------------------------------------------------------------ *)
(* the composed round trip: text -> DecodeNaked's item -> typed value  *)

(* What may follow the encoding: anything, if TermWhitespace is on or the top-level value is not a bare
   number; after a bare number (which has no closing delimiter of its own) any byte that is not one of
   0-9 . + - e E, or nothing.  What is left unread is spelled out: the terminator and [rest], less the one
   byte the tokenizer consumes as look-ahead after a bare number ([JsonRT.after]). *)
Theorem json_compose : forall (L : J.leaf), JR.leaf_laws L -> json_rt_laws L ->
  forall (o : J.eopts) (D : J.dopts) (O : gopts) (pi : order) (t : ty) (v : gv) (rest : list N),
  order_ok pi -> wt t v = true -> supported t = true ->
  J.maxDepthOpt D = max_depth O ->
  jwfb L o D false (to_item O pi v) = true ->
  leaves_ok (W_json L o D) (to_item O pi v) = true ->
  (Z.of_nat (depth (to_item O pi v)) < maxdepth O)%Z ->
  (J.termWs o = true \/ JR.delim_ok (JR.isnum L o false (to_item O pi v)) rest) ->
  J.dec_naked L D (J.dec_fuel (J.st0 (J.enc_top L o (to_item O pi v) ++ rest))) (J.enc_top L o (to_item O pi v) ++ rest)
    = Ok (wn (W_json L o D) (to_item O pi v),
          J.inp (JR.after (JR.isnum L o false (to_item O pi v)) (JR.term o ++ rest))) /\
  of_item (W_json L o D) O 0 t (wn (W_json L o D) (to_item O pi v)) = Ok (normL exact_losses O (arrange O pi v)) /\
  veq (normL exact_losses O (arrange O pi v)) (normL exact_losses O v).
Proof.
  intros L LL RL o D O pi t v rest Hpi Hwt Hs HD Hwf Hl Hd Hrest. split.
  - cbn [wn W_json]. rewrite (jwfb_jn L o D _ false Hwf) by discriminate.
    apply (JR.dec_naked_enc_lemma L LL).
    + apply (jwfb_ok L o D). exact Hwf.
    + exact Hrest.
    + unfold J.maxdepth. rewrite HD. exact Hd.
  - apply (roundtrip_losses exact_losses (W_json L o D) O pi t v (W_json_ok L o D LL RL) (W_json_losses L o D) Hpi Hwt Hs Hl Hd).
Qed.

(* the same for the C09 leaf (json.go's own quoteStr / dblQuoteStringAsBytes / jsonEncodeUint /
   parseUint64_simple, whose laws are proved in Wire/JsonLeaf.v): what is left to assume is about the
   oracle for strconv and time only *)
Theorem json_compose_c09 : forall (Or : JL.oracle),
  JL.float_time_laws (JL.c09_leaf_of Or) -> json_rt_laws (JL.c09_leaf_of Or) ->
  forall (o : J.eopts) (D : J.dopts) (O : gopts) (pi : order) (t : ty) (v : gv) (rest : list N),
  order_ok pi -> wt t v = true -> supported t = true ->
  J.maxDepthOpt D = max_depth O ->
  jwfb (JL.c09_leaf_of Or) o D false (to_item O pi v) = true ->
  leaves_ok (W_json (JL.c09_leaf_of Or) o D) (to_item O pi v) = true ->
  (Z.of_nat (depth (to_item O pi v)) < maxdepth O)%Z ->
  (J.termWs o = true \/ JR.delim_ok (JR.isnum (JL.c09_leaf_of Or) o false (to_item O pi v)) rest) ->
  J.dec_naked (JL.c09_leaf_of Or) D (J.dec_fuel (J.st0 (J.enc_top (JL.c09_leaf_of Or) o (to_item O pi v) ++ rest)))
              (J.enc_top (JL.c09_leaf_of Or) o (to_item O pi v) ++ rest)
    = Ok (wn (W_json (JL.c09_leaf_of Or) o D) (to_item O pi v),
          J.inp (JR.after (JR.isnum (JL.c09_leaf_of Or) o false (to_item O pi v)) (JR.term o ++ rest))) /\
  of_item (W_json (JL.c09_leaf_of Or) o D) O 0 t (wn (W_json (JL.c09_leaf_of Or) o D) (to_item O pi v))
    = Ok (normL exact_losses O (arrange O pi v)) /\
  veq (normL exact_losses O (arrange O pi v)) (normL exact_losses O v).
Proof. intros Or FT RL. exact (json_compose (JL.c09_leaf_of Or) (JL.c09_leaf_laws Or FT) RL). Qed.

Lemma W_json_ok_c09 : forall (Or : JL.oracle) (o : J.eopts) (D : J.dopts),
  JL.float_time_laws (JL.c09_leaf_of Or) -> json_rt_laws (JL.c09_leaf_of Or) ->
  wire_ok (W_json (JL.c09_leaf_of Or) o D) /\ same_losses (losses_of (W_json (JL.c09_leaf_of Or) o D)) exact_losses.
Proof.
  intros Or o D FT RL. split; [exact (W_json_ok _ o D (JL.c09_leaf_laws Or FT) RL)|apply W_json_losses].
Qed.
